// Line-protocol plumbing shared by all harness translation units.
#pragma once
#include <cstdint>
#include <cstring>
#include <cstdio>
#include <string>
#include <vector>
#include <map>
#include <sstream>
#include <iostream>
#include <functional>
#include <memory>
#include <cmath>

namespace H
{
    inline double fromHex(const std::string &s)
    {
        // value tokens may carry a tangent after a comma (dual mode of the model): ignore it
        std::string a = s.substr(0, s.find(','));
        uint64_t b = std::strtoull(a.c_str(), nullptr, 16);
        double d;
        std::memcpy(&d, &b, 8);
        return d;
    }
    inline std::string toHex(double d)
    {
        uint64_t b;
        std::memcpy(&b, &d, 8);
        char buf[20];
        std::snprintf(buf, sizeof buf, "%016llx", (unsigned long long)b);
        return buf;
    }

    struct Reader
    {
        std::vector<std::string> toks;
        size_t pos = 0;
        std::string tok() { return pos < toks.size() ? toks[pos++] : std::string(); }
        bool more() const { return pos < toks.size(); }
        long i() { return std::strtol(tok().c_str(), nullptr, 10); }
        double d() { return fromHex(tok()); }
        std::vector<double> ds(size_t n)
        {
            std::vector<double> v(n);
            for (auto &x : v)
                x = d();
            return v;
        }
    };

    struct Out
    {
        std::ostringstream os;
        std::string id;
        void key(const char *k) { os << id << ' ' << k; }
        void num(double x) { os << ' ' << toHex(x); }
        void integer(long x) { os << ' ' << x; }
        void str(const std::string &s) { os << ' ' << s; }
        void nl() { os << '\n'; }
        template <class V>
        void vec(const char *k, const V &v, long n)
        {
            key(k);
            for (long i = 0; i < n; ++i)
                num(v[i]);
            nl();
        }
        template <class M>
        void mat(const char *k, const M &m)
        {
            key(k);
            for (long i = 0; i < m.rows(); ++i)
                for (long j = 0; j < m.cols(); ++j)
                    num(m(i, j));
            nl();
        }
    };

    // handler(reader positioned after the dispatch keys, out)
    using Handler = std::function<void(Reader &, Out &)>;
    std::map<std::string, Handler> &registry();
    inline void reg(const std::string &key, Handler h) { registry()[key] = std::move(h); }
    struct Registrar
    {
        Registrar(const std::string &key, Handler h) { reg(key, std::move(h)); }
    };
}
