// The parametrised family of user cost functors (same formulas as lean/STModel/Costs.lean).
#pragma once
#include "common.hpp"
#include <Eigen/Dense>
#include <thread>
#include <stdexcept>
#include <cmath>
#include <functional>

namespace HV
{
    // one-shot action run from inside the user's running-cost functor, i.e. in the middle of an evaluate() call
    // (e.g. "keep a snapshot of the optimizer"): set by the harness right before that call, empty otherwise
    inline std::function<void()> &snapshotHook()
    {
        static std::function<void()> h;
        return h;
    }

    struct CostSpec
    {
        double ta, tb, tc;
        bool useWp;
        double ww, wu;
        double kp, kv, ka, kj, ks, kx, kt, ki;
        int pertKind, pertIdx;
        double pertDelta;
    };

    // Writing style of the functors, derived from the spec so that both styles occur: 0 = every output is assigned;
    // 1 = outputs are accumulated into (`+=`) and outputs whose value is exactly zero are not written at all.  Style 1 is
    // legal because the optimizer hands every functor freshly zeroed output arguments on every call.
    inline bool accumulateStyle(const CostSpec &s)
    {
        double q = std::fabs(s.ta) + std::fabs(s.kv) + std::fabs(s.ww) + std::fabs(s.kt);
        return (static_cast<long long>(std::floor(q * 8.0 + 0.5)) & 1LL) != 0;
    }

    inline CostSpec readSpec(H::Reader &r)
    {
        CostSpec s;
        s.ta = r.d(); s.tb = r.d(); s.tc = r.d();
        s.useWp = r.i() == 1; s.ww = r.d(); s.wu = r.d();
        s.kp = r.d(); s.kv = r.d(); s.ka = r.d(); s.kj = r.d(); s.ks = r.d(); s.kx = r.d(); s.kt = r.d(); s.ki = r.d();
        s.pertKind = (int)r.i(); s.pertIdx = (int)r.i(); s.pertDelta = r.d();
        return s;
    }

    struct TimeCost
    {
        const CostSpec *s;
        double operator()(const std::vector<double> &Ts, Eigen::VectorXd &grad) const
        {
            double sT = 0.0, lin = 0.0, sq = 0.0;
            for (size_t i = 0; i < Ts.size(); ++i)
            {
                sT += Ts[i];
                lin += s->ta * (double)(i + 1) * Ts[i];
                sq += Ts[i] * Ts[i];
            }
            const bool acc = accumulateStyle(*s);
            for (size_t i = 0; i < Ts.size(); ++i)
            {
                double gi = s->ta * (double)(i + 1) + 2.0 * s->tb * Ts[i] + 2.0 * s->tc * sT;
                if (!acc) grad(i) = gi;
                else if (gi != 0.0) grad(i) += gi;
            }
            if (s->pertKind == 1 && s->pertIdx < (int)Ts.size())
                grad(s->pertIdx) += s->pertDelta;
            return lin + s->tb * sq + s->tc * (sT * sT);
        }
    };

    struct WpCost
    {
        const CostSpec *s;
        template <class W, class G>
        double operator()(const W &q, G &g) const
        {
            const long n1 = q.rows();
            double selfTerm = 0.0, cross = 0.0;
            for (long i = 0; i < n1; ++i)
                selfTerm += (double)(i + 1) * q.row(i).squaredNorm();
            for (long i = 0; i + 1 < n1; ++i)
                cross += q.row(i).dot(q.row(i + 1));
            const bool acc = accumulateStyle(*s);
            for (long i = 0; i < n1; ++i)
            {
                if (!acc) g.row(i) = (2.0 * s->ww * (double)(i + 1)) * q.row(i);
                else if (s->ww != 0.0) g.row(i) += (2.0 * s->ww * (double)(i + 1)) * q.row(i);
                if (i > 0) g.row(i) += s->wu * q.row(i - 1);
                if (i + 1 < n1) g.row(i) += s->wu * q.row(i + 1);
            }
            if (s->pertKind == 2 && s->pertIdx < n1)
                g(s->pertIdx, 0) += s->pertDelta;
            return s->ww * selfTerm + s->wu * cross;
        }
    };

    struct Sample
    {
        double t, tg;
        std::vector<double> pvajs; // p, v, a, j, s concatenated
    };

    template <int D>
    struct RunCost
    {
        using Vec = Eigen::Matrix<double, D, 1>;
        const CostSpec *s;
        std::vector<std::vector<Sample>> *rec; // per segment, or nullptr
        mutable long calls = 0;
        double operator()(double t, double tg, int i, const Vec &p, const Vec &v, const Vec &a, const Vec &j, const Vec &sn,
                          Vec &gp, Vec &gv, Vec &ga, Vec &gj, Vec &gs, double &gt) const
        {
            constexpr int L = D - 1;
            // pertKind 9: the user's functor aborts the evaluation by throwing at its (pertIdx+1)-th call
            if (s->pertKind == 9 && calls++ >= s->pertIdx) throw std::runtime_error("running cost aborted the evaluation");
            if (snapshotHook())
            {
                auto f = std::move(snapshotHook());
                snapshotHook() = nullptr;
                f();
            }
            const double ii = (double)(i + 1);
            if (rec)
            {
                Sample smp;
                smp.t = t; smp.tg = tg;
                for (const Vec *x : {&p, &v, &a, &j, &sn})
                    for (int k = 0; k < D; ++k) smp.pvajs.push_back((*x)(k));
                (*rec)[i].push_back(std::move(smp));
            }
            double val = s->kp * p.dot(p) + s->kv * v.dot(v) + s->ka * a.dot(a) + s->kj * j.dot(j) + s->ks * sn.dot(sn) +
                         s->kx * (p.dot(v) + a(0) * sn(L) + j(0) * p(L)) + s->kt * (tg * (p(0) + tg)) + s->ki * ii * (v(0) * a(L));
            if (!accumulateStyle(*s))
            {
                gp = (2.0 * s->kp) * p + s->kx * v;
                gv = (2.0 * s->kv) * v + s->kx * p;
                ga = (2.0 * s->ka) * a;
                gj = (2.0 * s->kj) * j;
                gs = (2.0 * s->ks) * sn;
                gt = s->kt * (p(0) + 2.0 * tg);
            }
            else
            {
                // relies on the zeroed outputs: accumulate, and leave alone what this cost does not depend on
                if (s->kp != 0.0 || s->kx != 0.0) gp += (2.0 * s->kp) * p + s->kx * v;
                if (s->kv != 0.0 || s->kx != 0.0) gv += (2.0 * s->kv) * v + s->kx * p;
                if (s->ka != 0.0) ga += (2.0 * s->ka) * a;
                if (s->kj != 0.0) gj += (2.0 * s->kj) * j;
                if (s->ks != 0.0) gs += (2.0 * s->ks) * sn;
                if (s->kt != 0.0) gt += s->kt * (p(0) + 2.0 * tg);
            }
            gp(L) += s->kx * j(0);
            gp(0) += s->kt * tg;
            gv(0) += s->ki * ii * a(L);
            ga(0) += s->kx * sn(L);
            ga(L) += s->ki * ii * v(0);
            gj(0) += s->kx * p(L);
            gs(L) += s->kx * a(0);
            if (s->pertKind == 3) gp(0) += s->pertDelta;
            if (s->pertKind == 4) gv(0) += s->pertDelta;
            if (s->pertKind == 5) gt += s->pertDelta;
            return val;
        }
    };

    // executor whose schedule is chosen at run time
    struct FlexExec
    {
        int kind = 0; // 0 serial, 1 permutation, 2 reversed, 3 threads (interleaved partition), 4 threads (chunks, last chunk first)
        std::vector<int> perm;
        int nthreads = 1;
        template <class F>
        void operator()(int start, int end, F &&f) const
        {
            const int n = end - start;
            if (kind == 1 && (int)perm.size() == n)
            {
                for (int k : perm) f(start + k);
            }
            else if (kind == 2)
            {
                for (int i = end - 1; i >= start; --i) f(i);
            }
            else if (kind == 3 && nthreads > 1)
            {
                std::vector<std::thread> th;
                for (int t = 0; t < nthreads; ++t)
                    th.emplace_back([&, t]() { for (int i = start + t; i < end; i += nthreads) f(i); });
                for (auto &x : th) x.join();
            }
            else if (kind == 4 && nthreads > 1)
            {
                std::vector<std::thread> th;
                const int chunk = (n + nthreads - 1) / nthreads;
                for (int t = nthreads - 1; t >= 0; --t)
                    th.emplace_back([&, t]() { for (int i = start + t * chunk; i < std::min(end, start + (t + 1) * chunk); ++i) f(i); });
                for (auto &x : th) x.join();
            }
            else
            {
                for (int i = start; i < end; ++i) f(i);
            }
        }
    };

    inline FlexExec readExec(H::Reader &r)
    {
        FlexExec e;
        std::string k = r.tok();
        if (k == "perm") { e.kind = 1; long n = r.i(); for (long i = 0; i < n; ++i) e.perm.push_back((int)r.i()); }
        else if (k == "rev") e.kind = 2;
        else if (k == "threads") { e.kind = 3; e.nthreads = (int)r.i(); }
        else if (k == "chunks") { e.kind = 4; e.nthreads = (int)r.i(); }
        return e;
    }
}
