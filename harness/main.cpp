// Harness entry point: one request per line `<id> <mode> <op> args…`; replies `<id> <key> values…`, `<id> end`.
// The mode field (Q/F/D of the model driver, X = harness-only) is ignored here.
#include "common.hpp"

namespace H
{
    std::map<std::string, Handler> &registry()
    {
        static std::map<std::string, Handler> r;
        return r;
    }
}

int main()
{
    std::ios::sync_with_stdio(false);
    std::string line;
    while (std::getline(std::cin, line))
    {
        H::Reader r;
        {
            std::istringstream is(line);
            std::string t;
            while (is >> t)
                r.toks.push_back(t);
        }
        if (r.toks.size() < 3)
            continue;
        H::Out out;
        out.id = r.tok();
        r.tok(); // mode
        std::string op = r.tok();
        std::string key = op;
        // dispatch keys: ops on typed families carry their type parameters right after the op
        if (op == "spline")
        {
            // spline slot qorder order D …   -> key spline/<order>/<D>, reader left at slot
            if (r.toks.size() < 7) { std::cout << out.id << " badop\n" << out.id << " end\n"; continue; }
            key = "spline/" + r.toks[5] + "/" + r.toks[6];
        }
        else if (op.rfind("pp_", 0) == 0 && op != "pp_seq")
        {
            // object slots encode the dimension: slot = D*1000 + k
            long slot = std::strtol(r.toks[3].c_str(), nullptr, 10);
            key = op + "/" + std::to_string(slot / 1000);
        }
        else if (op.rfind("opt_", 0) == 0)
        {
            // slot = (order*100 + D)*1000 + k ; one handler per (order, D) switches on the op name
            long slot = std::strtol(r.toks[3].c_str(), nullptr, 10);
            key = "opt/" + std::to_string(slot / 1000);
            r.pos = 2; // let the handler re-read the op name
        }
        auto it = H::registry().find(key);
        if (it == H::registry().end())
        {
            std::cout << out.id << " nohandler " << key << "\n" << out.id << " end\n";
            continue;
        }
        it->second(r, out);
        std::cout << out.os.str() << out.id << " end\n";
    }
    std::cout.flush();
    return 0;
}
