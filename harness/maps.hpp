// User-supplied map types of the harness (they follow the documented TimeMap / SpatialMap protocols).
#pragma once
#include <Eigen/Dense>

namespace HV
{
    // T = a*tau + b ; default-constructed instance: a = 2, b = 1/2
    struct AffineTimeMap
    {
        double a = 2.0, b = 0.5;
        AffineTimeMap() = default;
        AffineTimeMap(double a_, double b_) : a(a_), b(b_) {}
        double toTime(double tau) const { return a * tau + b; }
        double toTau(double T) const { return (T - b) / a; }
        double backward(double, double, double gradT) const { return gradT * a; }
    };

    // T = b / (1 - a*tau) for a*tau < 1 ; dT/dtau = a*T*T/b : a map whose `backward` needs the decoded duration `T`
    // (the reason the protocol passes it).  default-constructed instance: a = 1/4, b = 1/2
    struct RecipTimeMap
    {
        double a = 0.25, b = 0.5;
        RecipTimeMap() = default;
        RecipTimeMap(double a_, double b_) : a(a_), b(b_) {}
        double toTime(double tau) const { return b / (1.0 - a * tau); }
        double toTau(double T) const { return (1.0 - b / T) / a; }
        double backward(double, double T, double gradT) const { return gradT * a * T * T / b; }
    };

    // points with index % 2 != parity are unconstrained (dof = DIM); the others live on the paraboloid
    // p_{DIM-1} = c * sum_{k<DIM-1} xi_k^2 + e, c = (index+1)/4, e = index/2 (dof = DIM-1)
    template <int DIM>
    struct ParaboloidMap
    {
        int parity = 1;
        ParaboloidMap() = default;
        explicit ParaboloidMap(int p) : parity(p) {}
        bool free(int i) const { return i % 2 != parity; }
        int getUnconstrainedDim(int i) const { return free(i) ? DIM : DIM - 1; }
        Eigen::VectorXd toPhysical(const Eigen::VectorXd &xi, int i) const
        {
            if (free(i)) return xi;
            Eigen::VectorXd p(DIM);
            double c = (double)(i + 1) / 4.0, e = (double)i / 2.0;
            double s = 0.0;
            for (int k = 0; k < DIM - 1; ++k) { p(k) = xi(k); s += xi(k) * xi(k); }
            p(DIM - 1) = c * s + e;
            return p;
        }
        Eigen::VectorXd toUnconstrained(const Eigen::VectorXd &p, int i) const
        {
            if (free(i)) return p;
            return p.head(DIM - 1);
        }
        Eigen::VectorXd backwardGrad(const Eigen::VectorXd &xi, const Eigen::VectorXd &g, int i) const
        {
            if (free(i)) return g;
            Eigen::VectorXd r(DIM - 1);
            double c = (double)(i + 1) / 4.0;
            for (int k = 0; k < DIM - 1; ++k) r(k) = g(k) + g(DIM - 1) * (2.0 * c * xi(k));
            return r;
        }
    };
}
