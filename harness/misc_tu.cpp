// Operations that need no object: time maps, generateTimeSequence.
#include "common.hpp"
#include "SplineOptimizer.hpp"
#include "maps.hpp"

namespace
{
    using namespace SplineTrajectory;

    template <class TM>
    void tmOp(const TM &tm, const std::string &fn, H::Reader &r, H::Out &o)
    {
        o.key("r");
        if (fn == "toTime") o.num(tm.toTime(r.d()));
        else if (fn == "toTau") o.num(tm.toTau(r.d()));
        else { double a = r.d(), b = r.d(), c = r.d(); o.num(tm.backward(a, b, c)); }
        o.nl();
    }

    struct Init
    {
        Init()
        {
            // tm type inst fn args…
            H::reg("tm", [](H::Reader &r, H::Out &o) {
                long ty = r.i(); long inst = r.i(); std::string fn = r.tok();
                // inst 7: one persistent object answers all requests (a time map must not carry state from call to call)
                static QuadInvTimeMap persistentQuadInv;
                static IdentityTimeMap persistentIdentity;
                if (ty == 0 && inst == 7) tmOp(persistentQuadInv, fn, r, o);
                else if (ty == 1 && inst == 7) tmOp(persistentIdentity, fn, r, o);
                else if (ty == 0) tmOp(QuadInvTimeMap(), fn, r, o);
                else if (ty == 1) tmOp(IdentityTimeMap(), fn, r, o);
                else tmOp(inst == 1 ? HV::AffineTimeMap(0.5, 0.25) : HV::AffineTimeMap(), fn, r, o);
            });
            // pp_seq start end dt
            H::reg("pp_seq", [](H::Reader &r, H::Out &o) {
                double a = r.d(), b = r.d(), dt = r.d();
                PPolyND<1> pp;
                auto s = pp.generateTimeSequence(a, b, dt);
                o.vec("seq", s, (long)s.size());
            });
        }
    } init_;
}
