// One translation unit per (H_ORDER, H_DIM): SplineOptimizer over {QuadInv, Identity, Affine} x {Identity, Paraboloid}.
#if defined(_OPENMP)
#include <omp.h>
#endif
#include <cstring>
#include "common.hpp"
#include "SplineOptimizer.hpp"
#include "maps.hpp"
#include "costs.hpp"
#include <thread>

namespace
{
    using namespace SplineTrajectory;
    constexpr int D = H_DIM;
#if H_ORDER == 3
    using Spline = CubicSplineND<D>;
#elif H_ORDER == 5
    using Spline = QuinticSplineND<D>;
#else
    using Spline = SepticSplineND<D>;
#endif
    using Mat = typename Spline::MatrixType;
    using Vec = typename Spline::VectorType;
    constexpr int NC = Spline::COEFF_NUM;

    struct OptBase
    {
        virtual ~OptBase() {}
        virtual int typeKey() const = 0;
        virtual OptBase *clone() const = 0;
        virtual bool assignFrom(const OptBase &) = 0;
        virtual OptBase *moved() = 0;
        virtual void selfAssign() = 0;
        virtual void init(H::Reader &r, H::Out &o) = 0;
        virtual void flags(int bits) = 0;
        virtual void maps(int tmInst, int smInst) = 0;
        virtual void rho(double x) = 0;
        virtual void steps(int k) = 0;
        virtual void dim(H::Out &o) = 0;
        virtual void guess(H::Out &o) = 0;
        virtual void eval(H::Reader &r, H::Out &o) = 0;
        virtual void check(H::Reader &r, H::Out &o) = 0;
        virtual void conc(H::Reader &r, H::Out &o) = 0;
        virtual void ptrs(H::Out &o, const OptBase *src) = 0;
    };

    template <class TM>
    struct UserTM
    {
        static TM &inst(int) { static TM m; return m; }
    };
    template <>
    struct UserTM<HV::AffineTimeMap>
    {
        static HV::AffineTimeMap &inst(int) { static HV::AffineTimeMap m(0.5, 0.25); return m; }
    };
    template <>
    struct UserTM<HV::RecipTimeMap>
    {
        static HV::RecipTimeMap &inst(int) { static HV::RecipTimeMap m(0.125, 1.0); return m; }
    };
    template <class SM>
    struct UserSM
    {
        static SM &inst(int) { static SM m; return m; }
    };
    template <>
    struct UserSM<HV::ParaboloidMap<D>>
    {
        static HV::ParaboloidMap<D> &inst(int k)
        {
            static HV::ParaboloidMap<D> m0(0), m1(1);
            return k == 1 ? m0 : m1;
        }
    };

    template <class TM, class SM, int KEY>
    struct OptImpl : OptBase
    {
        using Opt = SplineOptimizer<D, Spline, TM, SM>;
        using WS = typename Opt::Workspace;
        std::unique_ptr<Opt> opt{new Opt()};
        static std::map<long, std::unique_ptr<WS>> &ext()
        {
            static std::map<long, std::unique_ptr<WS>> m;
            return m;
        }
        static WS *wsOf(long k)
        {
            if (k < 0) return nullptr;
            auto &p = ext()[k];
            if (!p) p.reset(new WS());
            return p.get();
        }
        int typeKey() const override { return KEY; }
        OptBase *clone() const override
        {
            auto *r = new OptImpl<TM, SM, KEY>();
            r->opt.reset(new Opt(*opt));
            return r;
        }
        OptBase *moved() override
        {
            auto *q = new OptImpl<TM, SM, KEY>();
            q->opt.reset(new Opt(std::move(*opt)));          // move construction (falls back to a copy if there is no move ctor)
            return q;
        }
        bool assignFrom(const OptBase &o) override
        {
            auto *p = dynamic_cast<const OptImpl<TM, SM, KEY> *>(&o);
            if (!p) return false;
            *opt = *p->opt;
            return true;
        }
        void selfAssign() override
        {
            Opt &a = *opt;
            Opt &b = *opt;
            a = b;
        }
        // opt_init slot mode N nrows t0 times… P… bc…
        void init(H::Reader &r, H::Out &o) override
        {
            std::string mode = r.tok();
            long n = r.i();
            long nrows = r.i();
            double t0 = r.d();
            std::vector<double> times = r.ds(n);
            Mat P(nrows, D);
            for (long i = 0; i < nrows; ++i)
                for (int j = 0; j < D; ++j) P(i, j) = r.d();
            BoundaryConditions<D> bc;
            Vec *fields[6] = {&bc.start_velocity, &bc.start_acceleration, &bc.start_jerk,
                              &bc.end_velocity, &bc.end_acceleration, &bc.end_jerk};
            for (auto *f : fields)
                for (int j = 0; j < D; ++j) (*f)(j) = r.d();
            bool ret = (mode == "tp") ? opt->setInitState(times, P, bc) : opt->setInitState(times, P, t0, bc);
            bool iv = opt->isValid();
            bool bv = static_cast<bool>(*opt);
            std::string msg = opt->getLastError();
            long cnt = 0;
            auto pos = msg.find("Found ");
            if (pos != std::string::npos) cnt = std::strtol(msg.c_str() + pos + 6, nullptr, 10);
            // checkValidity() called directly must agree with the stored verdict
            std::string m2;
            bool cv = opt->checkValidity(&m2);
            o.key("ok");
            o.integer(ret ? 1 : 0);
            o.integer(iv == bv ? (iv ? 1 : 0) : 2);
            o.integer(msg.empty() ? 0 : 1);
            o.integer(cnt);
            o.nl();
            o.key("direct"); o.integer(cv ? 1 : 0); o.integer(m2.empty() ? 0 : 1); o.nl();
            // read-only queries must not change what the object reports: the stored message, flag and verdict are read
            // again after checkValidity(&out) and after checkValidity() and must be what they were
            std::string msg2 = opt->getLastError();
            bool cv2 = opt->checkValidity();
            std::string msg3 = opt->getLastError();
            o.key("after");
            o.integer(msg2 == msg ? 1 : 0);
            o.integer(msg3 == msg ? 1 : 0);
            o.integer((cv2 == cv && opt->isValid() == iv && static_cast<bool>(*opt) == bv) ? 1 : 0);
            o.nl();
        }
        void flags(int b) override
        {
            OptimizationFlags f;
            f.start_p = b & 1; f.start_v = b & 2; f.start_a = b & 4; f.start_j = b & 8;
            f.end_p = b & 16; f.end_v = b & 32; f.end_a = b & 64; f.end_j = b & 128;
            opt->setOptimizationFlags(f);
        }
        void maps(int tmInst, int smInst) override
        {
            opt->setTimeMap(tmInst == 0 ? nullptr : &UserTM<TM>::inst(tmInst));
            opt->setSpatialMap(smInst == 0 ? nullptr : &UserSM<SM>::inst(smInst));
        }
        void rho(double x) override { opt->setEnergyWeights(x); }
        void steps(int k) override { opt->setIntegralNumSteps(k); }
        void dim(H::Out &o) override { o.key("dim"); o.integer(opt->getDimension()); o.nl(); }
        void guess(H::Out &o) override
        {
            Eigen::VectorXd x = opt->generateInitialGuess();
            o.vec("x", x, x.size());
        }

        static void pushBC(H::Out &o, const BoundaryConditions<D> &bc)
        {
            o.key("bc");
            for (const Vec *f : {&bc.start_velocity, &bc.start_acceleration, &bc.start_jerk,
                                 &bc.end_velocity, &bc.end_acceleration, &bc.end_jerk})
                for (int j = 0; j < D; ++j) o.num((*f)(j));
            o.nl();
        }
        static void reportSpline(H::Out &o, const Spline &sp)
        {
            auto &ts = sp.getTimeSegments();
            o.vec("times", ts, (long)ts.size());
            o.mat("wps", sp.getSpacePoints());
            pushBC(o, sp.getBoundaryConditions());
            o.mat("coeffs", sp.getTrajectory().getCoefficients());
        }

        double callEval(const Eigen::VectorXd &x, Eigen::VectorXd &g, const HV::CostSpec &cs,
                        std::vector<std::vector<HV::Sample>> *rec, WS *ws, const HV::FlexExec &ex)
        {
            HV::TimeCost tc{&cs};
            HV::RunCost<D> rc{&cs, rec};
            if (cs.useWp)
            {
                HV::WpCost wc{&cs};
                return opt->evaluate(x, g, tc, wc, rc, ws, ex);
            }
            return opt->evaluate(x, g, tc, rc, ws, ex); // two-cost overload
        }

        // opt_eval slot rec ws nx x… costspec exec…
        void eval(H::Reader &r, H::Out &o) override
        {
            long rec = r.i();
            long wsk = r.i();
            long nx = r.i();
            Eigen::VectorXd x(nx);
            for (long i = 0; i < nx; ++i) x(i) = r.d();
            HV::CostSpec cs = HV::readSpec(r);
            HV::FlexExec ex = HV::readExec(r);
            std::vector<std::vector<HV::Sample>> samples;
            // number of segments is not exposed directly; size the record generously from x
            samples.resize(nx + 1);
            // the caller's gradient vector: empty, already of the right size and full of other numbers, or of a wrong size
            // (chosen from the request so that a run is reproducible)
            Eigen::VectorXd g;
            {
                unsigned long hsh = (unsigned long)nx * 2654435761UL;
                for (long i = 0; i < nx; ++i) { unsigned long b; double xv = x(i); std::memcpy(&b, &xv, sizeof b); hsh = hsh * 31UL + b; }
                switch (hsh % 3UL)
                {
                case 1: g = Eigen::VectorXd::Constant(nx, 12345.678); break;
                case 2: g = Eigen::VectorXd::Constant(nx + 3, -777.25); break;
                default: break;
                }
            }
            WS *ws = wsOf(wsk);
            double c = 0.0;
            try
            {
                c = callEval(x, g, cs, rec == 1 ? &samples : nullptr, ws, ex);
            }
            catch (const std::runtime_error &)
            {
                o.key("threw"); o.integer(1); o.nl();   // an evaluation aborted by the user's functor: nothing to report
                return;
            }
            o.key("cost"); o.num(c); o.nl();
            o.vec("grad", g, g.size());
            const Spline *sp = ws ? &ws->spline : opt->getOptimalSpline();
            if (sp) reportSpline(o, *sp);
            o.key("energyq"); o.num(sp ? sp->getEnergy() : 0.0); o.nl();
            if (rec == 1)
            {
                long cnt = 0;
                for (auto &s : samples) cnt += (long)s.size();
                o.key("samples"); o.integer(cnt);
                for (auto &seg : samples)
                    for (auto &s : seg)
                    {
                        o.num(s.t); o.num(s.tg);
                        for (double v : s.pvajs) o.num(v);
                    }
                o.nl();
                o.key("sampleseg");
                for (size_t i = 0; i < samples.size(); ++i)
                    for (size_t k = 0; k < samples[i].size(); ++k) o.integer((long)i);
                o.nl();
            }
        }

        // opt_check slot ws nx x… costspec eps tol
        void check(H::Reader &r, H::Out &o) override
        {
            long wsk = r.i();
            long nx = r.i();
            Eigen::VectorXd x(nx);
            for (long i = 0; i < nx; ++i) x(i) = r.d();
            HV::CostSpec cs = HV::readSpec(r);
            double eps = r.d(), tol = r.d();
            HV::TimeCost tc{&cs};
            HV::RunCost<D> rc{&cs, nullptr};
            WS *ws = wsOf(wsk);
            typename Opt::GradientCheckResult res;
            // eps < 0: the defaulted eps/tol arguments are used; tol < 0: only tol is defaulted
            if (cs.useWp)
            {
                HV::WpCost wc{&cs};
                if (eps < 0) res = opt->checkGradients(x, tc, wc, rc, ws);
                else if (tol < 0) res = opt->checkGradients(x, tc, wc, rc, ws, eps);
                else res = opt->checkGradients(x, tc, wc, rc, ws, eps, tol);
            }
            else
            {
                if (eps < 0) res = opt->checkGradients(x, tc, rc, ws);
                else if (tol < 0) res = opt->checkGradients(x, tc, rc, ws, eps);
                else res = opt->checkGradients(x, tc, rc, ws, eps, tol);
            }
            o.key("valid"); o.integer(res.valid ? 1 : 0); o.nl();
            o.key("errsq"); o.num(res.error_norm * res.error_norm); o.nl();
            o.key("errnorm"); o.num(res.error_norm); o.num(res.rel_error); o.nl();
            o.vec("analytical", res.analytical, res.analytical.size());
            o.vec("numerical", res.numerical, res.numerical.size());
            const Spline *sp = ws ? &ws->spline : opt->getOptimalSpline();
            if (sp) o.mat("coeffs", sp->getTrajectory().getCoefficients());
        }

        // opt_conc slot nthreads reps nx x… costspec   (each thread: its own fresh workspace, serial executor)
        void conc(H::Reader &r, H::Out &o) override
        {
            long nth = r.i();
            long reps = r.i();
            long nx = r.i();
            Eigen::VectorXd x(nx);
            for (long i = 0; i < nx; ++i) x(i) = r.d();
            HV::CostSpec cs = HV::readSpec(r);
            std::vector<double> costs(nth, 0.0);
            std::vector<Eigen::VectorXd> grads(nth);
            std::vector<std::unique_ptr<WS>> wss;
            for (long t = 0; t < nth; ++t) wss.emplace_back(new WS());
#if defined(_OPENMP)
            // OpenMP build: the evaluations are issued by the threads of an OpenMP team, each with its own workspace, and use the
            // library's OpenMPExecutor for the segment loop
            {
                const Opt &so = *opt;
                #pragma omp parallel num_threads((int)nth)
                {
                    int t = omp_get_thread_num();
                    if (t < nth)
                    {
                        HV::TimeCost tc{&cs};
                        HV::RunCost<D> rc{&cs, nullptr};
                        HV::WpCost wc{&cs};
                        OpenMPExecutor ex;
                        for (long k = 0; k < reps; ++k)
                        {
                            if (cs.useWp)
                                costs[t] = so.evaluate(x, grads[t], tc, wc, rc, wss[t].get(), ex);
                            else
                                costs[t] = so.evaluate(x, grads[t], tc, rc, wss[t].get(), ex);
                        }
                    }
                }
                for (long t = 0; t < nth; ++t)
                {
                    o.key("tcost"); o.num(costs[t]); o.nl();
                    o.vec("tgrad", grads[t], grads[t].size());
                }
                return;
            }
#endif
            const Opt &shared_opt = *opt;
            // even threads share the one configured optimizer (each with its own workspace); odd threads work on private copies of
            // it: nothing may be shared between different optimizer objects either (function-local statics, class statics)
            std::vector<std::unique_ptr<Opt>> copies(nth);
            for (long t = 1; t < nth; t += 2) copies[t].reset(new Opt(shared_opt));
            std::vector<std::thread> th;
            for (long t = 0; t < nth; ++t)
                th.emplace_back([&, t]() {
                    const Opt &copt = copies[t] ? *copies[t] : shared_opt;
                    HV::TimeCost tc{&cs};
                    HV::RunCost<D> rc{&cs, nullptr};
                    HV::WpCost wc{&cs};
                    for (long k = 0; k < reps; ++k)
                    {
                        if (cs.useWp)
                            costs[t] = copt.evaluate(x, grads[t], tc, wc, rc, wss[t].get());
                        else
                            costs[t] = copt.evaluate(x, grads[t], tc, rc, wss[t].get());
                    }
                });
            for (auto &x_ : th) x_.join();
            for (long t = 0; t < nth; ++t)
            {
                o.key("tcost"); o.num(costs[t]); o.nl();
                o.vec("tgrad", grads[t], grads[t].size());
            }
        }

        void ptrs(H::Out &o, const OptBase *srcB) override
        {
#ifdef SPLINETRAJ_VERIF
            // hook H1: classification of the active map pointers and of the built-in workspace
            o.key("ptrs");
            o.integer(opt->verifUsesOwnDefaultTimeMap() ? 1 : 0);
            o.integer(opt->verifUsesOwnDefaultSpatialMap() ? 1 : 0);
            int tmUser = 0, smUser = 0;
            for (int k = 1; k <= 2; ++k)
            {
                if (opt->verifActiveTimeMapAddress() == (const void *)&UserTM<TM>::inst(k)) tmUser = tmUser ? tmUser : k;
                if (opt->verifActiveSpatialMapAddress() == (const void *)&UserSM<SM>::inst(k)) smUser = smUser ? smUser : k;
            }
            o.integer(tmUser);
            o.integer(smUser);
            o.integer(opt->verifInternalWorkspaceAddress() ? 1 : 0);
            int shared = 0;
            if (auto *s = dynamic_cast<const OptImpl<TM, SM, KEY> *>(srcB))
            {
                if (s != this && s->opt->verifInternalWorkspaceAddress() &&
                    s->opt->verifInternalWorkspaceAddress() == opt->verifInternalWorkspaceAddress())
                    shared = 1;
            }
            o.integer(shared);
            o.nl();
            // hook H1: is the layout cache dirty right now (every setter must leave it clean: C12 / F1)
            o.key("dirty"); o.integer(opt->verifLayoutDirty() ? 1 : 0); o.nl();
#else
            (void)srcB;
            o.key("ptrs"); o.str("nohook"); o.nl();
#endif
        }
    };

    OptBase *make(int tk, int sk)
    {
        if (tk == 0 && sk == 0) return new OptImpl<QuadInvTimeMap, IdentitySpatialMap<D>, 0>();
        if (tk == 1 && sk == 0) return new OptImpl<IdentityTimeMap, IdentitySpatialMap<D>, 10>();
        if (tk == 2 && sk == 0) return new OptImpl<HV::AffineTimeMap, IdentitySpatialMap<D>, 20>();
        if (tk == 3 && sk == 0) return new OptImpl<HV::RecipTimeMap, IdentitySpatialMap<D>, 30>();
#if H_DIM >= 2
        if (tk == 0 && sk == 1) return new OptImpl<QuadInvTimeMap, HV::ParaboloidMap<D>, 1>();
        if (tk == 1 && sk == 1) return new OptImpl<IdentityTimeMap, HV::ParaboloidMap<D>, 11>();
        if (tk == 2 && sk == 1) return new OptImpl<HV::AffineTimeMap, HV::ParaboloidMap<D>, 21>();
        if (tk == 3 && sk == 1) return new OptImpl<HV::RecipTimeMap, HV::ParaboloidMap<D>, 31>();
#endif
        return nullptr;
    }

    std::map<long, std::unique_ptr<OptBase>> &slots()
    {
        static std::map<long, std::unique_ptr<OptBase>> s;
        return s;
    }

    void handle(H::Reader &r, H::Out &o)
    {
        std::string op = r.tok();
        long slot = r.i();
        if (op == "opt_new")
        {
            r.i(); r.i();
            long tk = r.i(), sk = r.i();
            OptBase *p = make((int)tk, (int)sk);
            if (!p) { o.key("unsupported"); o.nl(); return; }
            slots()[slot].reset(p);
            o.key("ok"); o.nl();
            return;
        }
        auto it = slots().find(slot);
        if (it == slots().end() || !it->second) { o.key("noslot"); o.nl(); return; }
        OptBase *p = it->second.get();
        if (op == "opt_init") p->init(r, o);
        else if (op == "opt_flags") { p->flags((int)r.i()); o.key("ok"); o.nl(); }
        else if (op == "opt_maps") { long a = r.i(), b = r.i(); p->maps((int)a, (int)b); o.key("ok"); o.nl(); }
        else if (op == "opt_rho") { p->rho(r.d()); o.key("ok"); o.nl(); }
        else if (op == "opt_steps") { p->steps((int)r.i()); o.key("ok"); o.nl(); }
        else if (op == "opt_dim") p->dim(o);
        else if (op == "opt_guess") p->guess(o);
        else if (op == "opt_eval") p->eval(r, o);
        else if (op == "opt_check") p->check(r, o);
        else if (op == "opt_conc") p->conc(r, o);
        else if (op == "opt_snap")
        {
            // opt_snap slot ns mode <arguments of opt_eval>: an evaluation during which the user's running cost, at its first
            // call, copies (mode 0) or assigns (mode 1, onto an existing object of the same type) the optimizer into slot ns
            long ns = r.i(), mode = r.i();
            HV::snapshotHook() = [p, ns, mode]() {
                auto &dst = slots()[ns];
                if (mode == 0 || !dst || !dst->assignFrom(*p)) dst.reset(p->clone());
            };
            p->eval(r, o);
            HV::snapshotHook() = nullptr;
        }
        else if (op == "opt_copy") { long ns = r.i(); slots()[ns].reset(p->clone()); o.key("ok"); o.nl(); }
        else if (op == "opt_move")
        {
            long ns = r.i();
            std::unique_ptr<OptBase> q(p->moved());
            slots().erase(slot);                             // the moved-from object is destroyed at once
            slots()[ns] = std::move(q);
            o.key("ok"); o.nl();
        }
        else if (op == "opt_assign")
        {
            long ns = r.i();
            auto &dst = slots()[ns];
            if (ns == slot) p->selfAssign();
            else if (!dst || !dst->assignFrom(*p)) { o.key("typemismatch"); o.nl(); return; }
            o.key("ok"); o.nl();
        }
        else if (op == "opt_destroy") { slots().erase(slot); o.key("ok"); o.nl(); }
        else if (op == "opt_ptrs")
        {
            long src = r.i();
            auto is = slots().find(src);
            p->ptrs(o, is == slots().end() ? nullptr : is->second.get());
        }
        else { o.key("badop"); o.nl(); }
    }

#define H_STR2(x) #x
#define H_STR(x) H_STR2(x)
    struct Init
    {
        Init() { H::reg("opt/" + std::to_string(H_ORDER * 100 + H_DIM), handle); }
    } init_;
}
