// One translation unit per H_DIM: PPolyND<H_DIM, ORDER> for ORDER in {Dynamic, 4, 6, 8}, object slots, all evaluation routes.
#include <cstring>
#include "common.hpp"
#include "SplineTrajectory.hpp"
#include <stdexcept>

namespace
{
    using namespace SplineTrajectory;
    constexpr int D = H_DIM;

    struct PPBase
    {
        virtual ~PPBase() {}
        virtual PPBase *clone() const = 0;
        virtual bool assignFrom(const PPBase &o) = 0;
        virtual void init(int ctor, const std::vector<double> &b, const std::vector<double> &data, long rows, int nc) = 0;
        virtual void info(H::Out &o) const = 0;
        virtual void eval(H::Out &o, double t, int k) const = 0;
        virtual void evalh(H::Out &o, double t, int k, int hint) const = 0;
        virtual void batch(H::Out &o, const std::vector<double> &ts, int k) const = 0;
        virtual void seg(H::Out &o, int idx, double t, int k, int via) const = 0;
        virtual PPBase *deriv(int k) const = 0;
        virtual void len(H::Out &o, double a, double b, double dt) const = 0;
        virtual int fo() const = 0;
    };

    template <int ORDER>
    struct PPImpl : PPBase
    {
        using PP = PPolyND<D, ORDER>;
        using Mat = typename PP::MatrixType;
        using Vec = typename PP::VectorType;
        PP pp;
        int fo() const override { return ORDER; }
        PPBase *clone() const override { return new PPImpl<ORDER>(*this); }
        bool assignFrom(const PPBase &o) override
        {
            auto *p = dynamic_cast<const PPImpl<ORDER> *>(&o);
            if (!p) return false;
            pp = p->pp;
            return true;
        }
        static Mat toMat(const std::vector<double> &data, long rows)
        {
            Mat m(rows, D);
            for (long i = 0; i < rows; ++i)
                for (int j = 0; j < D; ++j)
                    m(i, j) = data[i * D + j];
            return m;
        }
        // ctor: 1 construct, 0 update, 2.. update handing the object its *own* members back wherever the request's data are
        // bit-identical to them (2: coefficients, 3: breakpoints, 4: both) - the arguments then alias the members
        void init(int ctor, const std::vector<double> &b, const std::vector<double> &data, long rows, int nc) override
        {
            Mat m = toMat(data, rows);
            if (ctor == 1)
            {
                pp = PP(b, m, nc);
                return;
            }
            const Mat &own_c = pp.getCoefficients();
            const std::vector<double> &own_b = pp.getBreakpoints();
            bool same_c = own_c.rows() == m.rows() && own_c.cols() == m.cols() && m.size() > 0 &&
                          std::memcmp(own_c.data(), m.data(), sizeof(double) * (size_t)m.size()) == 0;
            bool same_b = own_b.size() == b.size() && !b.empty() &&
                          std::memcmp(own_b.data(), b.data(), sizeof(double) * b.size()) == 0;
            bool ac = (ctor == 2 || ctor == 4) && same_c, ab = (ctor == 3 || ctor == 4) && same_b;
            if (ac && ab) pp.update(own_b, own_c, nc);
            else if (ac) pp.update(b, own_c, nc);
            else if (ab) pp.update(own_b, m, nc);
            else pp.update(b, m, nc);
        }
        void info(H::Out &o) const override
        {
            o.key("info");
            o.integer(pp.isInitialized() ? 1 : 0);
            o.integer(pp.getNumSegments());
            o.integer(pp.getNumCoeffs());
            o.num(pp.getStartTime());
            o.num(pp.getEndTime());
            o.num(pp.getDuration());
            o.nl();
        }
        void eval(H::Out &o, double t, int k) const override
        {
            Vec v = pp.evaluate(t, k);
            o.vec("v", v, D);
            if (k >= 0 && k <= 6)
            { // Deriv-enum overload must agree bit for bit
                Vec w = pp.evaluate(t, static_cast<Deriv>(k));
                o.vec("venum", w, D);
            }
        }
        void evalh(H::Out &o, double t, int k, int hint) const override
        {
            int h = hint;
            Vec v = pp.evaluate(t, &h, k);
            o.vec("v", v, D);
            o.key("hint"); o.integer(h); o.nl();
        }
        void batch(H::Out &o, const std::vector<double> &ts, int k) const override
        {
            // the result buffer will most likely be carved from memory that held other numbers a moment ago
            {
                std::vector<Vec, Eigen::aligned_allocator<Vec>> junk(ts.size(), Vec::Constant(98765.4321));
                volatile double sink = junk.empty() ? 0.0 : junk.back()(0);
                (void)sink;
            }
            auto vs = pp.evaluate(ts, k);
            o.key("v");
            for (auto &v : vs)
                for (int j = 0; j < D; ++j) o.num(v(j));
            o.nl();
        }
        void seg(H::Out &o, int idx, double t, int k, int via) const override
        {
            try
            {
                Vec v;
                if (via == 1)
                    v = pp.at(idx).evaluate(t, k);
                else if (via == 2)
                {
                    bool found = false;
                    for (auto it = pp.begin(); it != pp.end(); ++it)
                        if (it->index() == idx) { v = (*it).evaluate(t, k); found = true; }
                    if (!found) { o.key("notfound"); o.nl(); return; }
                }
                else
                    v = pp[idx].evaluate(t, k);
                o.vec("v", v, D);
            }
            catch (const std::out_of_range &)
            {
                o.key("throw"); o.nl();
            }
        }
        PPBase *deriv(int k) const override
        {
            auto *r = new PPImpl<ORDER>();
            r->pp = pp.derivative(k);
            return r;
        }
        void len(H::Out &o, double a, double b, double dt) const override
        {
            o.key("len"); o.num(pp.getTrajectoryLength(a, b, dt)); o.nl();
        }
    };

    PPBase *make(int fo)
    {
        switch (fo)
        {
        case 4: return new PPImpl<4>();
        case 6: return new PPImpl<6>();
        case 8: return new PPImpl<8>();
        default: return new PPImpl<Eigen::Dynamic>();
        }
    }

    std::map<long, std::unique_ptr<PPBase>> &slots()
    {
        static std::map<long, std::unique_ptr<PPBase>> s;
        return s;
    }

#define H_STR2(x) #x
#define H_STR(x) H_STR2(x)
    const std::string SUF = "/" H_STR(H_DIM);

    PPBase *get(H::Out &o, long slot)
    {
        auto it = slots().find(slot);
        if (it == slots().end()) { o.key("noslot"); o.nl(); return nullptr; }
        return it->second.get();
    }

    struct Init
    {
        Init()
        {
            // pp_init slot ctor D FO nb b… ncoef rows data…
            H::reg("pp_init" + SUF, [](H::Reader &r, H::Out &o) {
                long slot = r.i(); long ctor = r.i(); r.i(); long fo = r.i();
                long nb = r.i(); auto b = r.ds(nb);
                long nc = r.i(); long rows = r.i(); auto data = r.ds(rows * D);
                auto &s = slots()[slot];
                if (ctor == 1 || !s || s->fo() != (fo < 0 ? Eigen::Dynamic : (int)fo))
                    s.reset(make((int)fo));
                s->init((int)ctor, b, data, rows, (int)nc);
                s->info(o);
            });
            H::reg("pp_eval" + SUF, [](H::Reader &r, H::Out &o) {
                long slot = r.i(); double t = r.d(); long k = r.i();
                if (auto *p = get(o, slot)) p->eval(o, t, (int)k);
            });
            H::reg("pp_evalh" + SUF, [](H::Reader &r, H::Out &o) {
                long slot = r.i(); double t = r.d(); long k = r.i(); long h = r.i();
                if (auto *p = get(o, slot)) p->evalh(o, t, (int)k, (int)h);
            });
            H::reg("pp_batch" + SUF, [](H::Reader &r, H::Out &o) {
                long slot = r.i(); long k = r.i(); long n = r.i(); auto ts = r.ds(n);
                if (auto *p = get(o, slot)) p->batch(o, ts, (int)k);
            });
            H::reg("pp_seg" + SUF, [](H::Reader &r, H::Out &o) {
                long slot = r.i(); long idx = r.i(); double t = r.d(); long k = r.i(); long via = r.i();
                if (auto *p = get(o, slot)) p->seg(o, (int)idx, t, (int)k, (int)via);
            });
            H::reg("pp_deriv" + SUF, [](H::Reader &r, H::Out &o) {
                long slot = r.i(); long k = r.i(); long ns = r.i();
                if (auto *p = get(o, slot)) { slots()[ns].reset(p->deriv((int)k)); slots()[ns]->info(o); }
            });
            H::reg("pp_copy" + SUF, [](H::Reader &r, H::Out &o) {
                long slot = r.i(); long ns = r.i();
                if (auto *p = get(o, slot)) { slots()[ns].reset(p->clone()); slots()[ns]->info(o); }
            });
            H::reg("pp_assign" + SUF, [](H::Reader &r, H::Out &o) {
                long slot = r.i(); long ns = r.i();
                if (auto *p = get(o, slot))
                {
                    auto &dst = slots()[ns];
                    if (!dst || !dst->assignFrom(*p)) { dst.reset(make(p->fo())); dst->assignFrom(*p); }
                    dst->info(o);
                }
            });
            H::reg("pp_info" + SUF, [](H::Reader &r, H::Out &o) {
                long slot = r.i();
                if (auto *p = get(o, slot)) p->info(o);
            });
            H::reg("pp_len" + SUF, [](H::Reader &r, H::Out &o) {
                long slot = r.i(); double a = r.d(), b = r.d(), dt = r.d();
                if (auto *p = get(o, slot)) p->len(o, a, b, dt);
            });
            // pp_zero ns D FO nb b… nc ;  pp_const ns D FO nb b… v…
            H::reg("pp_zero" + SUF, [](H::Reader &r, H::Out &o) {
                long ns = r.i(); r.i(); long fo = r.i(); long nb = r.i(); auto b = r.ds(nb); long nc = r.i();
                PPBase *p = make((int)fo);
                switch ((int)fo)
                {
                case 4: static_cast<PPImpl<4> *>(p)->pp = PPolyND<D, 4>::zero(b, (int)nc); break;
                case 6: static_cast<PPImpl<6> *>(p)->pp = PPolyND<D, 6>::zero(b, (int)nc); break;
                case 8: static_cast<PPImpl<8> *>(p)->pp = PPolyND<D, 8>::zero(b, (int)nc); break;
                default: static_cast<PPImpl<Eigen::Dynamic> *>(p)->pp = PPolyND<D>::zero(b, (int)nc); break;
                }
                slots()[ns].reset(p);
                p->info(o);
            });
            H::reg("pp_const" + SUF, [](H::Reader &r, H::Out &o) {
                long ns = r.i(); r.i(); long fo = r.i(); long nb = r.i(); auto b = r.ds(nb); auto v = r.ds(D);
                Eigen::Matrix<double, D, 1> cv;
                for (int j = 0; j < D; ++j) cv(j) = v[j];
                PPBase *p = make((int)fo);
                switch ((int)fo)
                {
                case 4: static_cast<PPImpl<4> *>(p)->pp = PPolyND<D, 4>::constant(b, cv); break;
                case 6: static_cast<PPImpl<6> *>(p)->pp = PPolyND<D, 6>::constant(b, cv); break;
                case 8: static_cast<PPImpl<8> *>(p)->pp = PPolyND<D, 8>::constant(b, cv); break;
                default: static_cast<PPImpl<Eigen::Dynamic> *>(p)->pp = PPolyND<D>::constant(b, cv); break;
                }
                slots()[ns].reset(p);
                p->info(o);
            });
        }
    } init_;
}
