// One translation unit per (H_ORDER, H_DIM): the `spline` operation on Cubic/Quintic/SepticSplineND<H_DIM>.
#include <utility>
#include "common.hpp"
#include "SplineTrajectory.hpp"

#ifndef H_ORDER
#error "compile with -DH_ORDER=3|5|7 -DH_DIM=1..10"
#endif

namespace
{
    using namespace SplineTrajectory;
    constexpr int D = H_DIM;
#if H_ORDER == 3
    using Spline = CubicSplineND<D>;
#elif H_ORDER == 5
    using Spline = QuinticSplineND<D>;
#else
    using Spline = SepticSplineND<D>;
#endif
    using Mat = typename Spline::MatrixType;
    using Vec = typename Spline::VectorType;
    constexpr int NC = Spline::COEFF_NUM;

    std::map<long, Spline> &slots()
    {
        static std::map<long, Spline> s;
        return s;
    }

    template <class BG>
    void pushBG(std::vector<double> &v, const BG &g)
    {
        for (int j = 0; j < D; ++j) v.push_back(g.p(j));
        for (int j = 0; j < D; ++j) v.push_back(g.v(j));
#if H_ORDER >= 5
        for (int j = 0; j < D; ++j) v.push_back(g.a(j));
#else
        for (int j = 0; j < D; ++j) v.push_back(0.0);
#endif
#if H_ORDER >= 7
        for (int j = 0; j < D; ++j) v.push_back(g.j(j));
#else
        for (int j = 0; j < D; ++j) v.push_back(0.0);
#endif
    }

    struct Results
    {
        Mat coeffs;
        std::vector<double> cum;
        double start, end, dur;
        long nseg, npts;
        double energy;
        Mat pgc;
        Eigen::VectorXd pgt, egt;
        Mat egi;
        std::vector<double> egb;
        bool hasProp = false;
        Mat propInner;
        Eigen::VectorXd propTimes;
        std::vector<double> propB;
        std::vector<Vec> evs;
    };

    // spline slot qorder order D N mode t0 times… P… bc… ng [gC… gT…] ne (t k)…
    void handle(H::Reader &r, H::Out &o)
    {
        long slot = r.i();
        long qorder = r.i();
        r.i(); // order
        r.i(); // D
        long n = r.i();
        std::string mode = r.tok();
        double t0 = r.d();
        std::vector<double> times = r.ds(mode == "tp" ? n + 1 : n);
        Mat P(n + 1, D);
        for (long i = 0; i <= n; ++i)
            for (int j = 0; j < D; ++j)
                P(i, j) = r.d();
        BoundaryConditions<D> bc;
        Vec *fields[6] = {&bc.start_velocity, &bc.start_acceleration, &bc.start_jerk,
                          &bc.end_velocity, &bc.end_acceleration, &bc.end_jerk};
        for (auto *f : fields)
            for (int j = 0; j < D; ++j)
                (*f)(j) = r.d();
        long ng = r.i();
        Mat gC;
        Eigen::VectorXd gT;
        if (ng == 1)
        {
            gC.resize(n * NC, D);
            for (long i = 0; i < n * NC; ++i)
                for (int j = 0; j < D; ++j)
                    gC(i, j) = r.d();
            gT.resize(n);
            for (long i = 0; i < n; ++i)
                gT(i) = r.d();
        }
        long ne = r.i();
        std::vector<std::pair<double, long>> evq;
        for (long i = 0; i < ne; ++i)
        {
            double t = r.d();
            long k = r.i();
            evq.emplace_back(t, k);
        }

        // ---- build: fresh object (both constructors) or update of a persistent one (both overloads)
        // qorder = query variant + 10 * build variant.  Build variants (all must give the same object):
        //   0 direct;  1 via the object's own members (arguments alias the members);  2 moved into place;  3 copied into place
        long bvar = qorder / 10;
        qorder %= 10;
        std::unique_ptr<Spline> fresh, tmp;
        Spline *sp;
        decltype(&std::declval<const Spline &>().getTrajectory()) heldTraj = nullptr;
        auto make = [&]() {
            return (mode == "tp") ? new Spline(times, P, bc) : new Spline(times, P, t0, bc);
        };
        if (slot < 0)
        {
            if (bvar == 2)
            {
                tmp.reset(make());
                fresh.reset(new Spline(std::move(*tmp)));
                tmp.reset();
            }
            else if (bvar == 3)
            {
                tmp.reset(make());
                (void)tmp->getTrajectory().evaluate(tmp->getStartTime(), 0);
                fresh.reset(new Spline(*tmp));
                tmp.reset();                       // the copy must survive its source
            }
            else
                fresh.reset(make());
            sp = fresh.get();
        }
        else
        {
            const bool existed = slots().count(slot) != 0;
            sp = &slots()[slot];
            // a caller may keep the reference `getTrajectory()` returned before the update and go on using it afterwards
            if (existed) heldTraj = &sp->getTrajectory();
            if (bvar == 1)
            {
                // first through the other overload, then again through the object's own members
                if (mode == "tp")
                {
                    std::vector<double> segs(times.size() > 0 ? times.size() - 1 : 0);
                    for (size_t i = 0; i + 1 < times.size(); ++i) segs[i] = times[i + 1] - times[i];
                    sp->update(segs, P, times.empty() ? 0.0 : times.front(), bc);
                    sp->update(sp->getCumulativeTimes(), sp->getSpacePoints(), sp->getBoundaryConditions());
                    // the time-point overload recomputes durations as differences: identical only if those are exact; use the
                    // requested form as the last word so that the reply is the one of a direct update
                    sp->update(times, sp->getSpacePoints(), sp->getBoundaryConditions());
                }
                else
                {
                    sp->update(times, P, t0 + 1.5, bc);
                    sp->update(sp->getTimeSegments(), sp->getSpacePoints(), t0, sp->getBoundaryConditions());
                }
            }
            else if (bvar == 2)
            {
                tmp.reset(make());
                *sp = std::move(*tmp);
                tmp.reset();
            }
            else if (bvar == 3)
            {
                tmp.reset(make());
                (void)tmp->getTrajectory().evaluate(tmp->getStartTime(), 0);
                *sp = *tmp;
                tmp.reset();
            }
            else if (mode == "tp")
                sp->update(times, P, bc);
            else
                sp->update(times, P, t0, bc);
        }

        // ---- queries, in an order chosen by qorder (results are reported in canonical order)
        Results R;
        auto q_struct = [&]() {
            R.coeffs = sp->getTrajectory().getCoefficients();
            R.cum = sp->getCumulativeTimes();
            R.start = sp->getStartTime();
            R.end = sp->getEndTime();
            R.dur = sp->getDuration();
            R.nseg = sp->getNumSegments();
            R.npts = (long)sp->getNumPoints();
        };
        auto q_energy = [&]() { R.energy = sp->getEnergy(); };
        // caller-owned buffers handed to the reference overloads: right shape and already holding other data
        // (qorder 1), wrong shape (qorder 2), or none (value-returning overloads, qorder 0)
        const long nsegq = (long)sp->getNumSegments();
        auto dirty = [&](typename Spline::Gradients &g) {
            if (qorder == 1 || qorder == 3)
            {
                g.inner_points = Mat::Constant(std::max<long>(nsegq - 1, 0), D, 1.5);
                g.times = Eigen::VectorXd::Constant(nsegq, -2.25);
            }
            else
            {
                g.inner_points = Mat::Constant(nsegq + 3, D, 0.75);
                g.times = Eigen::VectorXd::Constant(nsegq + 2, 4.5);
            }
            g.start.p.setConstant(3.25);
            g.start.v.setConstant(-1.25);
            g.end.p.setConstant(0.5);
            g.end.v.setConstant(2.75);
        };
        auto q_partials = [&]() {
            if (qorder == 0)
            {
                R.pgc = sp->getEnergyPartialGradByCoeffs();
                R.pgt = sp->getEnergyPartialGradByTimes();
                return;
            }
            Mat gdC = (qorder == 1 || qorder == 3) ? Mat(Mat::Constant(nsegq * NC, D, 7.25)) : Mat(Mat::Constant(nsegq * NC + 5, D, -0.375));
            sp->getEnergyPartialGradByCoeffs(gdC);
            R.pgc = gdC;
            Eigen::VectorXd gdT = (qorder == 1 || qorder == 3) ? Eigen::VectorXd(Eigen::VectorXd::Constant(nsegq, -3.5))
                                                : Eigen::VectorXd(Eigen::VectorXd::Constant(nsegq + 1, 6.125));
            sp->getEnergyPartialGradByTimes(gdT);
            R.pgt = gdT;
        };
        auto q_egrad = [&]() {
            typename Spline::Gradients g;
            if (qorder == 0)
                g = sp->getEnergyGrad();
            else
            {
                dirty(g);
                sp->getEnergyGrad(g);
            }
            R.egt = g.times;
            R.egi = g.inner_points;
            R.egb.clear();
            pushBG(R.egb, g.start);
            pushBG(R.egb, g.end);
        };
        auto q_prop = [&]() {
            if (ng != 1) return;
            typename Spline::Gradients g;
            if (qorder == 0)
                g = sp->propagateGrad(gC, gT); // value-returning overload
            else if (qorder == 3)
            {
                // in place: the upstream duration gradient lives in the output record itself (input aliases output)
                dirty(g);
                g.times = gT;
                sp->propagateGrad(gC, g.times, g);
            }
            else
            {
                dirty(g);
                sp->propagateGrad(gC, gT, g); // reference overload into a used buffer
            }
            R.hasProp = true;
            R.propInner = g.inner_points;
            R.propTimes = g.times;
            R.propB.clear();
            pushBG(R.propB, g.start);
            pushBG(R.propB, g.end);
        };
        auto q_eval = [&]() {
            R.evs.clear();
            for (auto &e : evq)
                R.evs.push_back(heldTraj ? heldTraj->evaluate(e.first, (int)e.second)
                                         : sp->getTrajectory().evaluate(e.first, (int)e.second));
        };
        std::vector<std::function<void()>> qs = {q_struct, q_energy, q_partials, q_egrad, q_prop, q_eval};
        if (qorder == 1 || qorder == 3)
            for (auto it = qs.rbegin(); it != qs.rend(); ++it) (*it)();
        else if (qorder == 2)
        {
            for (auto &q : qs) q();
            for (auto it = qs.rbegin(); it != qs.rend(); ++it) (*it)(); // every query a second time
        }
        else
            for (auto &q : qs) q();

        o.mat("coeffs", R.coeffs);
        o.vec("cum", R.cum, (long)R.cum.size());
        o.key("getters"); o.num(R.start); o.num(R.end); o.num(R.dur); o.integer(R.nseg); o.integer(R.npts); o.nl();
        o.key("energy"); o.num(R.energy); o.nl();
        o.mat("pgc", R.pgc);
        o.vec("pgt", R.pgt, R.pgt.size());
        o.vec("egt", R.egt, R.egt.size());
        o.mat("egi", R.egi);
        o.vec("egb", R.egb, (long)R.egb.size());
        if (R.hasProp)
        {
            o.mat("prop_inner", R.propInner);
            o.vec("prop_times", R.propTimes, R.propTimes.size());
            o.vec("prop_b", R.propB, (long)R.propB.size());
        }
        for (auto &v : R.evs)
            o.vec("ev", v, D);
    }

#define H_STR2(x) #x
#define H_STR(x) H_STR2(x)
    H::Registrar reg_("spline/" H_STR(H_ORDER) "/" H_STR(H_DIM), handle);
}
