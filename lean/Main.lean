import STModel.Validate
import STModel.Costs
/-!
# `stmodel`: line-protocol driver of the formal model

One request per input line: `<id> <mode> <op> args…`, mode `Q` (exact rationals), `F` (IEEE doubles),
`D` (dual rationals: every real argument is `value,tangent`).  Reals travel as the 16 hex digits of
their binary64 bit pattern.  Replies: `<id> <key> values…`, closed by `<id> end`.
-/
open ST

/-! ## scalar plumbing -/

def hexVal (c : Char) : Nat :=
  if c.isDigit then c.toNat - '0'.toNat
  else if 'a' ≤ c ∧ c ≤ 'f' then c.toNat - 'a'.toNat + 10
  else if 'A' ≤ c ∧ c ≤ 'F' then c.toNat - 'A'.toNat + 10 else 0

def parseHex (s : String) : Nat := s.foldl (fun acc c => acc * 16 + hexVal c) 0

/-- exact rational value of a finite binary64 bit pattern -/
def ratOfBits (b : Nat) : Rat :=
  let sign := b / 2^63
  let e : Nat := (b / 2^52) % 2048
  let m : Nat := b % 2^52
  let (mant, ex) : Nat × Int := if e = 0 then (m, -1074) else (m + 2^52, (e : Int) - 1075)
  let mag : Rat := if ex ≥ 0 then ((mant * 2^ex.toNat : Nat) : Rat) else mkRat mant (2^(-ex).toNat)
  if sign = 1 then -mag else mag

/-- 0 finite, 1 +inf, 2 -inf, 3 nan -/
def classOfBits (b : Nat) : Nat :=
  let e := (b / 2^52) % 2048
  let m := b % 2^52
  if e = 2047 then (if m ≠ 0 then 3 else if b / 2^63 = 1 then 2 else 1) else 0

def hexDigits : Array Char := #['0','1','2','3','4','5','6','7','8','9','a','b','c','d','e','f']
def toHex16 (n : Nat) : String :=
  String.ofList ((List.range 16).map (fun i => hexDigits[(n / 16^(15 - i)) % 16]!))

class Scalar (α : Type) extends NumOrd α where
  ofBits : Nat → Nat → α
  render : α → String
  sqrt : α → α

def renderRat (r : Rat) : String := s!"{r.num}/{r.den}"

instance : Scalar Float :=
  { ofBits := fun b _ => Float.ofBits b.toUInt64, render := fun x => toHex16 x.toBits.toNat, sqrt := Float.sqrt }
instance : Scalar Rat :=
  { ofBits := fun b _ => ratOfBits b, render := renderRat, sqrt := fun _ => 0 }
instance : Scalar (Dual Rat) :=
  { ofBits := fun b t => ⟨ratOfBits b, ratOfBits t⟩, render := fun x => renderRat x.re ++ "," ++ renderRat x.du,
    sqrt := fun _ => ⟨0, 0⟩ }

/-! ## token stream -/
structure In where
  toks : Array String
  pos : Nat

abbrev P := StateM In

def tok : P String := do
  let s ← get
  set { s with pos := s.pos + 1 }
  return s.toks.getD s.pos ""

def pNat : P Nat := do return (← tok).toNat!
def pInt : P Int := do return (← tok).toInt!

def numOfTok {α : Type} [Scalar α] (t : String) : α :=
  match t.splitOn "," with
  | [a, b] => Scalar.ofBits (parseHex a) (parseHex b)
  | _ => Scalar.ofBits (parseHex t) 0

def pNum {α : Type} [Scalar α] : P α := do return numOfTok (← tok)

def pExt {α : Type} [Scalar α] : P (Ext α) := do
  let t ← tok
  let a := (t.splitOn ",").headD t
  match classOfBits (parseHex a) with
  | 0 => return .fin (numOfTok t)
  | 1 => return .pinf
  | 2 => return .ninf
  | _ => return .nan

def pMany {β : Type} (n : Nat) (p : P β) : P (List β) := do
  let mut out : Array β := #[]
  for _ in [0:n] do
    out := out.push (← p)
  return out.toList

def pNums {α : Type} [Scalar α] (n : Nat) : P (List α) := pMany n pNum
def pRows {α : Type} [Scalar α] (r d : Nat) : P (List (Vec α)) := pMany r (pNums d)

/-! ## rendering -/
def rs {α : Type} [Scalar α] (xs : List α) : String := " ".intercalate (xs.map Scalar.render)
def rrows {α : Type} [Scalar α] (xs : List (Vec α)) : String := rs (xs.flatMap id)
def rblk {α : Type} [Scalar α] (xs : List (List (Vec α))) : String := rs ((xs.flatMap id).flatMap id)

def orderOf (n : Nat) : Order := if n = 3 then .cubic else if n = 5 then .quintic else .septic

/-! ## per-mode driver state -/
structure OptObj (α : Type) where
  order : Order
  dim : Nat
  tmType : Nat       -- 0 QuadInv, 1 Identity, 2 Affine
  smType : Nat       -- 0 Identity, 1 Paraboloid
  tmInst : Nat := 0  -- 0 the object's own default map, ≥1 a user-supplied instance
  smInst : Nat := 0
  refTimes : List α := []
  refWaypoints : List (Vec α) := []
  refBC : BC α
  startTime : α
  flags : Flags := {}
  rho : α
  steps : Nat := 64
  v : VState := {}

structure St (α : Type) where
  pp : List (Nat × PPoly α) := []
  opt : List (Nat × OptObj α) := []

def getSlot {β : Type} (l : List (Nat × β)) (k : Nat) : Option β := (l.find? (·.1 == k)).map (·.2)
def putSlot {β : Type} (l : List (Nat × β)) (k : Nat) (v : β) : List (Nat × β) :=
  (k, v) :: l.filter (·.1 != k)

section handlers
variable {α : Type} [Scalar α]

def pBC (d : Nat) : P (BC α) := do
  let v0 ← pNums d; let a0 ← pNums d; let j0 ← pNums d
  let vn ← pNums d; let an ← pNums d; let jn ← pNums d
  return ⟨v0, a0, j0, vn, an, jn⟩

def bgFlat (b : BGradND α) : List α := b.p ++ b.v ++ b.a ++ b.j

/-- `spline slot qorder order D N mode t0 times… P… bc… ng [gC… gT…] ne (t k)…` -/
def opSpline (id : String) : P (List String) := do
  let _slot ← pInt
  let _qorder ← pNat
  let o := orderOf (← pNat)
  let d ← pNat
  let n ← pNat
  let mode ← tok
  let t0 : α ← pNum
  let times : List α ← pNums (if mode == "tp" then n + 1 else n)
  let P ← pRows (n + 1) d
  let bc : BC α ← pBC d
  let sp := if mode == "tp" then buildNDtp o d times P bc else buildND o d times P t0 bc
  let h := sp.h
  let nc := o.coeffNum
  let mut out : List String := [
    s!"{id} coeffs {rblk sp.coeffs}", s!"{id} cum {rs sp.cum}",
    s!"{id} getters {rs [sp.cum.headD (lit 0), sp.cum.getLastD (lit 0), sp.cum.getLastD (lit 0) - sp.cum.headD (lit 0)]} {h.length} {P.length}",
    s!"{id} energy {rs [sp.energy]}", s!"{id} pgc {rblk sp.partialC}", s!"{id} pgt {rs sp.partialT}",
    s!"{id} egt {rs sp.energyGrad.times}", s!"{id} egi {rrows sp.energyGrad.inner}",
    s!"{id} egb {rs (bgFlat sp.energyGrad.start ++ bgFlat sp.energyGrad.fin)}"]
  let ng ← pNat
  if ng == 1 then
    let gCrows ← pRows (n * nc) d
    let gC := PPoly.groupRows n nc gCrows
    let gT : List α ← pNums n
    let g := propagateND o d h P bc gC gT
    out := out ++ [s!"{id} prop_inner {rrows g.inner}", s!"{id} prop_times {rs g.times}",
                   s!"{id} prop_b {rs (bgFlat g.start ++ bgFlat g.fin)}"]
  let ne ← pNat
  let pp := sp.ppoly
  for _ in [0:ne] do
    let t : α ← pNum
    let k ← pInt
    out := out ++ [s!"{id} ev {rs (pp.evaluate t k).2}"]
  return out

def foOf (i : Int) : Option Nat := if i < 0 then none else some i.toNat

def ppInfo (id : String) (p : PPoly α) : String :=
  s!"{id} info {if p.initialized then 1 else 0} {p.numSegments} {p.numCoeffs} {rs [p.startTime, p.endTime, p.endTime - p.startTime]}"

/-- all `pp_*` operations (stateful: object slots) -/
def opPP (st : St α) (id op : String) : P (St α × List String) := do
  match op with
  | "pp_init" =>
      -- slot ctor D FO nb b… ncoef rows data…
      let slot ← pNat; let ctor ← pNat; let d ← pNat; let fo ← pInt
      let nb ← pNat; let bps : List α ← pNums nb
      let ncoef ← pInt; let nrows ← pNat; let rows ← pRows nrows d
      let base := if ctor == 1 then PPoly.empty d (foOf fo) else (getSlot st.pp slot).getD (PPoly.empty d (foOf fo))
      let p := base.init bps rows ncoef
      return ({ st with pp := putSlot st.pp slot p }, [ppInfo id p])
  | "pp_eval" =>
      let slot ← pNat; let t : α ← pNum; let k ← pInt
      match getSlot st.pp slot with
      | none => return (st, [s!"{id} noslot"])
      | some p =>
          let (p', v) := p.evaluate t k
          return ({ st with pp := putSlot st.pp slot p' }, [s!"{id} v {rs v}"])
  | "pp_evalh" =>
      let slot ← pNat; let t : α ← pNum; let k ← pInt; let hint ← pInt
      match getSlot st.pp slot with
      | none => return (st, [s!"{id} noslot"])
      | some p =>
          let (p', v, h') := p.evaluateHint t hint k
          return ({ st with pp := putSlot st.pp slot p' }, [s!"{id} v {rs v}", s!"{id} hint {h'}"])
  | "pp_batch" =>
      let slot ← pNat; let k ← pInt; let n ← pNat; let ts : List α ← pNums n
      match getSlot st.pp slot with
      | none => return (st, [s!"{id} noslot"])
      | some p =>
          let (p', vs) := p.evaluateBatch ts k
          return ({ st with pp := putSlot st.pp slot p' }, [s!"{id} v {rrows vs}"])
  | "pp_seg" =>
      -- slot idx t k via(0 operator[], 1 at, 2 iterator)
      let slot ← pNat; let idx ← pInt; let t : α ← pNum; let k ← pInt; let via ← pNat
      match getSlot st.pp slot with
      | none => return (st, [s!"{id} noslot"])
      | some p =>
          if via == 1 && !p.atOk idx then return (st, [s!"{id} throw"])
          else
            let (p', v) := p.evalSegment idx.toNat t k
            return ({ st with pp := putSlot st.pp slot p' }, [s!"{id} v {rs v}"])
  | "pp_deriv" =>
      let slot ← pNat; let k ← pInt; let ns ← pNat
      match getSlot st.pp slot with
      | none => return (st, [s!"{id} noslot"])
      | some p =>
          let (p', q) := p.derivative k
          return ({ st with pp := putSlot (putSlot st.pp slot p') ns q }, [ppInfo id q])
  | "pp_copy" =>
      let slot ← pNat; let ns ← pNat
      match getSlot st.pp slot with
      | none => return (st, [s!"{id} noslot"])
      | some p => return ({ st with pp := putSlot st.pp ns p }, [ppInfo id p])
  | "pp_info" =>
      let slot ← pNat
      match getSlot st.pp slot with
      | none => return (st, [s!"{id} noslot"])
      | some p => return (st, [ppInfo id p])
  | "pp_seq" =>
      let a : α ← pNum; let b : α ← pNum; let dt : α ← pNum
      return (st, [s!"{id} seq {rs (PPoly.timeSequence a b dt)}"])
  | "pp_len" =>
      let slot ← pNat; let a : α ← pNum; let b : α ← pNum; let dt : α ← pNum
      match getSlot st.pp slot with
      | none => return (st, [s!"{id} noslot"])
      | some p =>
          let (p', len) := p.trajLength Scalar.sqrt a b dt
          return ({ st with pp := putSlot st.pp slot p' }, [s!"{id} len {rs [len]}"])
  | "pp_assign" =>
      let slot ← pNat; let ns ← pNat
      match getSlot st.pp slot with
      | none => return (st, [s!"{id} noslot"])
      | some p => return ({ st with pp := putSlot st.pp ns p }, [ppInfo id p])
  | "pp_zero" =>
      let ns ← pNat; let d ← pNat; let fo ← pInt; let nb ← pNat; let bps : List α ← pNums nb; let nc ← pInt
      let p := PPoly.zero d (foOf fo) bps nc
      return ({ st with pp := putSlot st.pp ns p }, [ppInfo id p])
  | "pp_const" =>
      let ns ← pNat; let d ← pNat; let fo ← pInt; let nb ← pNat; let bps : List α ← pNums nb; let v : Vec α ← pNums d
      let p := PPoly.constant d (foOf fo) bps v
      return ({ st with pp := putSlot st.pp ns p }, [ppInfo id p])
  | _ => return (st, [s!"{id} badop"])

/-- time map of (type, instance): the harness's user instance of the affine map is `T = τ/2 + 1/4`,
the default-constructed one `T = 2τ + 1/2` -/
def tmOf (ty inst : Nat) : TimeMap α :=
  if ty == 0 then quadInvTimeMap Scalar.sqrt else if ty == 1 then identityTimeMap
  else if ty == 3 then (if inst == 1 then recipTimeMap (litq 1 8) (lit 1) else recipTimeMap (litq 1 4) (litq 1 2))
  else if inst == 1 then affineTimeMap (litq 1 2) (litq 1 4) else affineTimeMap (lit 2) (litq 1 2)

/-- spatial map of (type, instance): user instance 1 constrains even point indices, default / instance 2 odd ones -/
def smOf (ty inst d : Nat) : SpatialMap α :=
  if ty == 0 then identitySpatialMap d else paraboloidMap d (if inst == 1 then 0 else 1)

def pFlags : P Flags := do
  let b ← pNat
  let bit (i : Nat) : Bool := (b / 2^i) % 2 == 1
  return ⟨bit 0, bit 1, bit 2, bit 3, bit 4, bit 5, bit 6, bit 7⟩

def OptObj.cfg (o : OptObj α) : Config α :=
  { order := o.order, dim := o.dim, refTimes := o.refTimes, refWaypoints := o.refWaypoints, refBC := o.refBC,
    startTime := o.startTime, flags := o.flags, rho := o.rho, steps := o.steps,
    tm := tmOf o.tmType o.tmInst, sm := smOf o.smType o.smInst o.dim }

def pCostSpec : P (CostSpec α) := do
  let ta ← pNum; let tb ← pNum; let tc ← pNum
  let useWp ← pNat; let ww ← pNum; let wu ← pNum
  let kp ← pNum; let kv ← pNum; let ka ← pNum; let kj ← pNum; let ks ← pNum; let kx ← pNum; let kt ← pNum; let ki ← pNum
  let pk ← pNat; let pi ← pNat; let pd ← pNum
  return ⟨ta, tb, tc, useWp == 1, ww, wu, kp, kv, ka, kj, ks, kx, kt, ki, pk, pi, pd⟩

def finOrZero : Ext α → α
  | .fin x => x
  | _ => lit 0

def sampleFlat (s : Sample α) : List α := [s.t, s.tGlobal] ++ s.p ++ s.v ++ s.a ++ s.j ++ s.s

def bcFlat (b : BC α) : List α := b.v0 ++ b.a0 ++ b.j0 ++ b.vn ++ b.an ++ b.jn

def opOpt (st : St α) (id op : String) : P (St α × List String) := do
  match op with
  | "opt_new" =>
      let slot ← pNat; let o := orderOf (← pNat); let d ← pNat; let tk ← pNat; let sk ← pNat
      let obj : OptObj α := { order := o, dim := d, tmType := tk, smType := sk, refBC := BC.zero d,
                              startTime := lit 0, rho := lit 0 }
      return ({ st with opt := putSlot st.opt slot obj }, [s!"{id} ok"])
  | "opt_destroy" =>
      let slot ← pNat
      return ({ st with opt := st.opt.filter (·.1 != slot) }, [s!"{id} ok"])
  | "opt_assign" =>
      let slot ← pNat; let ns ← pNat
      match getSlot st.opt slot with
      | none => return (st, [s!"{id} noslot"])
      | some o => return ({ st with opt := putSlot st.opt ns o }, [s!"{id} ok"])
  | "opt_copy" =>
      let slot ← pNat; let ns ← pNat
      match getSlot st.opt slot with
      | none => return (st, [s!"{id} noslot"])
      | some o => return ({ st with opt := putSlot st.opt ns o }, [s!"{id} ok"])
  | "opt_move" =>
      -- move construction: the new object has the value of the source, the source is gone afterwards (the harness destroys it)
      let slot ← pNat; let ns ← pNat
      match getSlot st.opt slot with
      | none => return (st, [s!"{id} noslot"])
      | some o => return ({ st with opt := putSlot (st.opt.filter (·.1 != slot)) ns o }, [s!"{id} ok"])
  | "opt_init" =>
      -- slot mode N nrows t0 times(N)… P(nrows)… bc…   (N = number of durations, resp. of time points; values may be non-finite)
      let slot ← pNat; let mode ← tok; let n ← pNat; let nrows ← pNat
      match getSlot st.opt slot with
      | none => return (st, [s!"{id} noslot"])
      | some o =>
          let d := o.dim
          let t0 : Ext α ← pExt
          let times : List (Ext α) ← pMany n pExt
          let P : List (List (Ext α)) ← pMany nrows (pMany d pExt)
          let v0 ← pMany d pExt; let a0 ← pMany d pExt; let j0 ← pMany d pExt
          let vn ← pMany d pExt; let an ← pMany d pExt; let jn ← pMany d pExt
          let raw : RawProblem α := ⟨times, P, t0, v0, a0, j0, vn, an, jn⟩
          let (vs, ok) := if mode == "tp" then setInitStateTP o.order o.v times raw else setInitState o.order o.v raw
          -- what the object stores (only meaningful when finite; t_points with no entry leaves the state untouched)
          let (durs, st0) : List (Ext α) × Ext α :=
            if mode == "tp" then
              (match times with
               | [] => ([], t0)
               | a :: rest => ((List.zipWith (fun x y => Ext.sub y x) (a :: rest) rest), a))
            else (times, t0)
          let o' : OptObj α :=
            if mode == "tp" && times.isEmpty then { o with v := vs }
            else { o with v := vs, refTimes := durs.map finOrZero, refWaypoints := P.map (·.map finOrZero),
                          refBC := ⟨v0.map finOrZero, a0.map finOrZero, j0.map finOrZero,
                                    vn.map finOrZero, an.map finOrZero, jn.map finOrZero⟩,
                          startTime := finOrZero st0 }
          return ({ st with opt := putSlot st.opt slot o' },
                  [s!"{id} ok {if ok then 1 else 0} {if vs.isValid then 1 else 0} {if vs.msgNonEmpty then 1 else 0} {vs.errCount}"])
  | "opt_flags" =>
      let slot ← pNat; let f ← pFlags
      match getSlot st.opt slot with
      | none => return (st, [s!"{id} noslot"])
      | some o => return ({ st with opt := putSlot st.opt slot { o with flags := f } }, [s!"{id} ok"])
  | "opt_maps" =>
      let slot ← pNat; let tk ← pNat; let sk ← pNat
      match getSlot st.opt slot with
      | none => return (st, [s!"{id} noslot"])
      | some o => return ({ st with opt := putSlot st.opt slot { o with tmInst := tk, smInst := sk } }, [s!"{id} ok"])
  | "opt_rho" =>
      let slot ← pNat; let r : α ← pNum
      match getSlot st.opt slot with
      | none => return (st, [s!"{id} noslot"])
      | some o => return ({ st with opt := putSlot st.opt slot { o with rho := r } }, [s!"{id} ok"])
  | "opt_steps" =>
      let slot ← pNat; let k ← pNat
      match getSlot st.opt slot with
      | none => return (st, [s!"{id} noslot"])
      | some o => return ({ st with opt := putSlot st.opt slot { o with steps := k } }, [s!"{id} ok"])
  | "opt_dim" =>
      let slot ← pNat
      match getSlot st.opt slot with
      | none => return (st, [s!"{id} noslot"])
      | some o =>
          let L := o.cfg.layout
          let lay := " ".intercalate (L.vars.map (fun v => s!"{v.point}:{v.offset}:{v.dof}"))
          return (st, [s!"{id} dim {L.total}", s!"{id} layout {L.derivOffset} {lay}"])
  | "opt_guess" =>
      let slot ← pNat
      match getSlot st.opt slot with
      | none => return (st, [s!"{id} noslot"])
      | some o => return (st, [s!"{id} x {rs (initialGuess o.cfg)}"])
  | "opt_eval" =>
      -- slot rec ws nx x… costspec [executor spec, ignored by the model]
      let slot ← pNat; let recS ← pNat; let _ws ← pInt; let nx ← pNat; let x : List α ← pNums nx
      let cs : CostSpec α ← pCostSpec
      match getSlot st.opt slot with
      | none => return (st, [s!"{id} noslot"])
      | some o =>
          let c := o.cfg
          let r := evaluate c x (cs.costs o.dim)
          let base := [s!"{id} cost {rs [r.cost]}", s!"{id} grad {rs r.grad}",
                       s!"{id} times {rs r.decoded.times}", s!"{id} wps {rrows r.decoded.waypoints}",
                       s!"{id} bc {rs (bcFlat r.decoded.bc)}",
                       s!"{id} coeffs {rblk r.spline.coeffs}",
                       s!"{id} terms {rs [r.timeCost, r.wpCost, sum r.segCosts, r.energy]}"]
          let smp := if recS == 1 then
              [s!"{id} samples {r.samples.length} {rs (r.samples.flatMap sampleFlat)}",
               s!"{id} sampleseg {" ".intercalate (r.samples.map (fun s => toString s.seg))}"] else []
          return (st, base ++ smp)
  | "opt_snap" =>
      -- slot ns mode <arguments of opt_eval>: the evaluation of `slot`, during which a copy of the object is stored in `ns`
      -- (value semantics: the copy has the configuration of the source; an evaluation does not change a configuration)
      let slot ← pNat; let ns ← pNat; let _mode ← pNat
      let recS ← pNat; let _ws ← pInt; let nx ← pNat; let x : List α ← pNums nx
      let cs : CostSpec α ← pCostSpec
      match getSlot st.opt slot with
      | none => return (st, [s!"{id} noslot"])
      | some o =>
          let c := o.cfg
          let r := evaluate c x (cs.costs o.dim)
          let base := [s!"{id} cost {rs [r.cost]}", s!"{id} grad {rs r.grad}",
                       s!"{id} times {rs r.decoded.times}", s!"{id} wps {rrows r.decoded.waypoints}",
                       s!"{id} bc {rs (bcFlat r.decoded.bc)}",
                       s!"{id} coeffs {rblk r.spline.coeffs}",
                       s!"{id} terms {rs [r.timeCost, r.wpCost, sum r.segCosts, r.energy]}"]
          let smp := if recS == 1 then
              [s!"{id} samples {r.samples.length} {rs (r.samples.flatMap sampleFlat)}",
               s!"{id} sampleseg {" ".intercalate (r.samples.map (fun s => toString s.seg))}"] else []
          return ({ st with opt := putSlot st.opt ns o }, base ++ smp)
  | "opt_check" =>
      -- slot ws nx x… costspec eps tol
      let slot ← pNat; let _ws ← pInt; let nx ← pNat; let x : List α ← pNums nx
      let cs : CostSpec α ← pCostSpec
      let eps : α ← pNum; let tol : α ← pNum
      match getSlot st.opt slot with
      | none => return (st, [s!"{id} noslot"])
      | some o =>
          let r := checkGradients o.cfg x (cs.costs o.dim) eps tol
          return (st, [s!"{id} valid {if r.valid then 1 else 0}", s!"{id} errsq {rs [r.errNormSq]}",
                       s!"{id} analytical {rs r.analytical}", s!"{id} numerical {rs r.numerical}",
                       s!"{id} coeffs {rblk r.final.spline.coeffs}"])
  | _ => return (st, [s!"{id} badop"])

def opTM (id : String) : P (List String) := do
  let kind ← pNat
  let inst ← pNat
  let fn ← tok
  let tm : TimeMap α := tmOf kind inst
  match fn with
  | "toTime" => let x ← pNum; return [s!"{id} r {rs [tm.toTime x]}"]
  | "toTau" => let x ← pNum; return [s!"{id} r {rs [tm.toTau x]}"]
  | "backward" => let a ← pNum; let b ← pNum; let c ← pNum; return [s!"{id} r {rs [tm.backward a b c]}"]
  | _ => return [s!"{id} badop"]

def step (st : St α) (id op : String) : P (St α × List String) := do
  if op == "spline" then
    let out ← opSpline (α := α) id
    return (st, out)
  else if op == "tm" then
    let out ← opTM (α := α) id
    return (st, out)
  else if op.startsWith "pp_" then opPP st id op
  else if op.startsWith "opt_" then opOpt st id op
  else return (st, [s!"{id} badop"])

end handlers

structure All where
  f : St Float := {}
  q : St Rat := {}
  d : St (Dual Rat) := {}

def runLine (a : All) (line : String) : All × List String :=
  let toks := (line.trimAscii.toString.splitOn " ").filter (· ≠ "") |>.toArray
  if toks.size < 3 then (a, []) else
  let id := toks[0]!
  let mode := toks[1]!
  let op := toks[2]!
  let i : In := ⟨toks, 3⟩
  match mode with
  | "F" => let ((s, out), _) := (step a.f id op).run i; ({ a with f := s }, out ++ [s!"{id} end"])
  | "Q" => let ((s, out), _) := (step a.q id op).run i; ({ a with q := s }, out ++ [s!"{id} end"])
  | "D" => let ((s, out), _) := (step a.d id op).run i; ({ a with d := s }, out ++ [s!"{id} end"])
  | _ => (a, [s!"{id} badmode", s!"{id} end"])

partial def loop (h : IO.FS.Stream) (out : IO.FS.Stream) (a : All) : IO Unit := do
  let line ← h.getLine
  if line.isEmpty then return ()
  let (a', o) := runLine a line
  for l in o do out.putStrLn l
  loop h out a'

def main : IO Unit := do
  let out ← IO.getStdout
  loop (← IO.getStdin) out {}
  out.flush
