import STModel.Num
/-!
# Small dense blocks and the block-tridiagonal elimination of the quintic / septic splines

`M2`/`M3` are the 2×2 / 3×3 blocks the code stores row-major in `BlockMatrix*Storage`; `inv` is the
code's closed-form `Inverse2x2` / `Inverse3x3` (cofactors times `1/det`).  `bfwd`/`bback` are the
forward elimination and back substitution of `solveInternalDerivatives`; `bsolveT` is the
transposed solve `propagateGradInternal` performs with the cached factors.
-/
namespace ST
variable {α : Type} [Num α]

structure V2 (α : Type) where
  x : α
  y : α

structure M2 (α : Type) where
  a00 : α
  a01 : α
  a10 : α
  a11 : α

namespace M2
def mul (a b : M2 α) : M2 α :=
  ⟨a.a00 * b.a00 + a.a01 * b.a10, a.a00 * b.a01 + a.a01 * b.a11,
   a.a10 * b.a00 + a.a11 * b.a10, a.a10 * b.a01 + a.a11 * b.a11⟩
def sub (a b : M2 α) : M2 α := ⟨a.a00 - b.a00, a.a01 - b.a01, a.a10 - b.a10, a.a11 - b.a11⟩
def transpose (a : M2 α) : M2 α := ⟨a.a00, a.a10, a.a01, a.a11⟩
/-- `Inverse2x2` -/
def inv (A : M2 α) : M2 α :=
  let det := A.a00 * A.a11 - A.a01 * A.a10
  let id := lit 1 / det
  ⟨A.a11 * id, (-A.a01) * id, (-A.a10) * id, A.a00 * id⟩
def det (A : M2 α) : α := A.a00 * A.a11 - A.a01 * A.a10
/-- `multiplyStoredBlock2x2_2xN`, one column -/
def act (a : M2 α) (v : V2 α) : V2 α := ⟨a.a00 * v.x + a.a01 * v.y, a.a10 * v.x + a.a11 * v.y⟩
/-- `multiplyStoredBlock2x2T_2xN`, one column -/
def actT (a : M2 α) (v : V2 α) : V2 α := ⟨a.a00 * v.x + a.a10 * v.y, a.a01 * v.x + a.a11 * v.y⟩
end M2

namespace V2
def sub (a b : V2 α) : V2 α := ⟨a.x - b.x, a.y - b.y⟩
def add (a b : V2 α) : V2 α := ⟨a.x + b.x, a.y + b.y⟩
def zero : V2 α := ⟨lit 0, lit 0⟩
end V2

structure V3 (α : Type) where
  x : α
  y : α
  z : α

structure M3 (α : Type) where
  a00 : α
  a01 : α
  a02 : α
  a10 : α
  a11 : α
  a12 : α
  a20 : α
  a21 : α
  a22 : α

namespace M3
def mul (a b : M3 α) : M3 α := ⟨
  a.a00*b.a00+a.a01*b.a10+a.a02*b.a20, a.a00*b.a01+a.a01*b.a11+a.a02*b.a21, a.a00*b.a02+a.a01*b.a12+a.a02*b.a22,
  a.a10*b.a00+a.a11*b.a10+a.a12*b.a20, a.a10*b.a01+a.a11*b.a11+a.a12*b.a21, a.a10*b.a02+a.a11*b.a12+a.a12*b.a22,
  a.a20*b.a00+a.a21*b.a10+a.a22*b.a20, a.a20*b.a01+a.a21*b.a11+a.a22*b.a21, a.a20*b.a02+a.a21*b.a12+a.a22*b.a22⟩
def sub (a b : M3 α) : M3 α :=
  ⟨a.a00-b.a00,a.a01-b.a01,a.a02-b.a02,a.a10-b.a10,a.a11-b.a11,a.a12-b.a12,a.a20-b.a20,a.a21-b.a21,a.a22-b.a22⟩
def transpose (a : M3 α) : M3 α := ⟨a.a00,a.a10,a.a20,a.a01,a.a11,a.a21,a.a02,a.a12,a.a22⟩
/-- `Inverse3x3` -/
def inv (A : M3 α) : M3 α :=
  let c00 := A.a11*A.a22 - A.a12*A.a21
  let c01 := -(A.a10*A.a22 - A.a12*A.a20)
  let c02 := A.a10*A.a21 - A.a11*A.a20
  let c10 := -(A.a01*A.a22 - A.a02*A.a21)
  let c11 := A.a00*A.a22 - A.a02*A.a20
  let c12 := -(A.a00*A.a21 - A.a01*A.a20)
  let c20 := A.a01*A.a12 - A.a02*A.a11
  let c21 := -(A.a00*A.a12 - A.a02*A.a10)
  let c22 := A.a00*A.a11 - A.a01*A.a10
  let det := A.a00*c00 + A.a01*c01 + A.a02*c02
  let id := lit 1 / det
  ⟨c00*id, c10*id, c20*id, c01*id, c11*id, c21*id, c02*id, c12*id, c22*id⟩
def det (A : M3 α) : α :=
  A.a00*(A.a11*A.a22 - A.a12*A.a21) + A.a01*(-(A.a10*A.a22 - A.a12*A.a20)) + A.a02*(A.a10*A.a21 - A.a11*A.a20)
def act (a : M3 α) (v : V3 α) : V3 α :=
  ⟨a.a00*v.x + a.a01*v.y + a.a02*v.z, a.a10*v.x + a.a11*v.y + a.a12*v.z, a.a20*v.x + a.a21*v.y + a.a22*v.z⟩
def actT (a : M3 α) (v : V3 α) : V3 α :=
  ⟨a.a00*v.x + a.a10*v.y + a.a20*v.z, a.a01*v.x + a.a11*v.y + a.a21*v.z, a.a02*v.x + a.a12*v.y + a.a22*v.z⟩
end M3

namespace V3
def sub (a b : V3 α) : V3 α := ⟨a.x - b.x, a.y - b.y, a.z - b.z⟩
def add (a b : V3 α) : V3 α := ⟨a.x + b.x, a.y + b.y, a.z + b.z⟩
def zero : V3 α := ⟨lit 0, lit 0, lit 0⟩
end V3

/-- the operations the block elimination needs from a block type `R` acting on a vector type `V` -/
class BlkOps (R V : Type) where
  mul : R → R → R
  sub : R → R → R
  inv : R → R
  tr : R → R
  act : R → V → V
  vsub : V → V → V

instance : BlkOps (M2 α) (V2 α) := ⟨M2.mul, M2.sub, M2.inv, M2.transpose, M2.act, V2.sub⟩
instance : BlkOps (M3 α) (V3 α) := ⟨M3.mul, M3.sub, M3.inv, M3.transpose, M3.act, V3.sub⟩

section blk
variable {R V : Type} [BlkOps R V]
open BlkOps

structure BRow (R V : Type) where
  l : R
  d : R
  u : R
  b : V

/-- what the forward sweep leaves per block row: cached `D⁻¹`, `U`, `L`, modified rhs -/
structure BFact (R V : Type) where
  dinv : R
  u : R
  l : R
  b : V

/-- forward elimination: `D' = D - L (D⁻¹prev Uprev)`, `b' = b - L (D⁻¹prev b'prev)`, cache `inv D'` -/
def bfwd : Option (BFact R V) → List (BRow R V) → List (BFact R V)
  | _, [] => []
  | none, r :: rs =>
      let f : BFact R V := ⟨inv (V := V) r.d, r.u, r.l, r.b⟩
      f :: bfwd (some f) rs
  | some p, r :: rs =>
      let x := mul (V := V) p.dinv p.u
      let y := act p.dinv p.b
      let dn := sub (V := V) r.d (mul (V := V) r.l x)
      let bn := vsub (R := R) r.b (act r.l y)
      let f : BFact R V := ⟨inv (V := V) dn, r.u, r.l, bn⟩
      f :: bfwd (some f) rs

/-- back substitution: `x_last = D⁻¹ b'`, `x_i = D⁻¹ (b'_i - U_i x_{i+1})` -/
def bback : List (BFact R V) → List V
  | [] => []
  | f :: rest =>
      let xs := bback rest
      match xs with
      | [] => [act f.dinv f.b]
      | x :: _ => act f.dinv (vsub (R := R) f.b (act f.u x)) :: xs

def bthomas (rows : List (BRow R V)) : List V := bback (bfwd none rows)

/-- transposed solve, forward part: `λ₀ = D⁻ᵀ₀ g₀`, `λ_{i+1} = D⁻ᵀ_{i+1} (g_{i+1} - Uᵀ_i λ_i)` -/
def bfwdT : Option (BFact R V × V) → List (BFact R V) → List V → List V
  | _, [], _ => []
  | _, _, [] => []
  | none, f :: fs, g :: gs =>
      let lam := act (tr (V := V) f.dinv) g
      lam :: bfwdT (some (f, lam)) fs gs
  | some (p, lp), f :: fs, g :: gs =>
      let lam := act (tr (V := V) f.dinv) (vsub (R := R) g (act (tr (V := V) p.u) lp))
      lam :: bfwdT (some (f, lam)) fs gs

/-- transposed solve, backward part: `λ_i -= (L_{i+1} D⁻¹_i)ᵀ λ_{i+1}` (the cached `D_inv_T_mul_L_next_T`) -/
def bbackT : List (BFact R V) → List V → List V
  | f :: f' :: fs, lam :: lams =>
      let rest := bbackT (f' :: fs) lams
      match rest with
      | [] => [lam]
      | ln :: _ => vsub (R := R) lam (act (tr (V := V) (mul (V := V) f'.l f.dinv)) ln) :: rest
  | [_], [lam] => [lam]
  | _, _ => []

def bsolveT (facts : List (BFact R V)) (g : List V) : List V := bbackT facts (bfwdT none facts g)

end blk
end ST
