import STModel.Optimizer
/-!
# The parametrised family of user cost functors used by the correspondence check

The same formulas are implemented in `harness/costs.hpp`.  Each functor returns its value and the
gradients the documented protocol asks for; `pert*` adds a deliberate error to one returned
gradient component (used for C19: the self-check must notice it).
-/
namespace ST
variable {α : Type} [Num α]

structure CostSpec (α : Type) where
  -- time cost  Σ a0·(i+1)·T_i + b·Σ T_i² + c·(Σ T_i)²
  ta : α
  tb : α
  tc : α
  -- waypoint cost (absent when `useWp = false`):  w·Σ (i+1)|q_i|² + u·Σ q_i·q_{i+1}
  useWp : Bool
  ww : α
  wu : α
  -- running cost
  kp : α
  kv : α
  ka : α
  kj : α
  ks : α
  kx : α
  kt : α
  ki : α
  -- perturbation of one returned gradient component: 0 none, 1 time[idx], 2 waypoint[idx][0], 3 run gp[0],
  -- 4 run gv[0], 5 run gt
  pertKind : Nat
  pertIdx : Nat
  pertDelta : α

def unitAt (d i : Nat) (x : α) : Vec α := (List.range d).map (fun k => if k = i then x else lit 0)

def addAtIdx (l : List α) (i : Nat) (x : α) : List α :=
  (List.zip (List.range l.length) l).map (fun (k, y) => if k = i then y + x else y)

def timeCostFn (s : CostSpec α) (Ts : List α) : α × List α :=
  let sT := sum Ts
  let idx := List.range Ts.length
  let lin := sum (List.zipWith (fun i T => s.ta * lit (i + 1) * T) idx Ts)
  let sq := sum (Ts.map (fun T => T * T))
  let g := List.zipWith (fun i T => s.ta * lit (i + 1) + lit 2 * s.tb * T + lit 2 * s.tc * sT) idx Ts
  let g' := if s.pertKind = 1 then addAtIdx g s.pertIdx s.pertDelta else g
  (lin + s.tb * sq + s.tc * (sT * sT), g')

def wpCostFn (s : CostSpec α) (d : Nat) (q : List (Vec α)) : α × List (Vec α) :=
  let n1 := q.length
  let row (i : Nat) : Vec α := q.getD i (vzero d)
  let selfTerm := sum ((List.range n1).map (fun i => lit (i + 1) * dot (row i) (row i)))
  let cross := sum ((List.range (n1 - 1)).map (fun i => dot (row i) (row (i + 1))))
  let g := (List.range n1).map (fun i =>
    let a := vscale (lit 2 * s.ww * lit (i + 1)) (row i)
    let b := if i > 0 then vscale s.wu (row (i - 1)) else vzero d
    let c := if i + 1 < n1 then vscale s.wu (row (i + 1)) else vzero d
    vadd (vadd a b) c)
  let g' := if s.pertKind = 2 then
      (List.zip (List.range n1) g).map (fun (i, r) => if i = s.pertIdx then addAtIdx r 0 s.pertDelta else r)
    else g
  (s.ww * selfTerm + s.wu * cross, g')

def runCostFn (s : CostSpec α) (d : Nat) (_t tg : α) (i : Nat) (p v a j sn : Vec α) : RunOut α :=
  let L := d - 1
  let at0 (x : Vec α) := x.getD 0 (lit 0)
  let atL (x : Vec α) := x.getD L (lit 0)
  let ii : α := lit (i + 1)
  let val := s.kp * dot p p + s.kv * dot v v + s.ka * dot a a + s.kj * dot j j + s.ks * dot sn sn
              + s.kx * (dot p v + at0 a * atL sn + at0 j * atL p)
              + s.kt * (tg * (at0 p + tg))
              + s.ki * ii * (at0 v * atL a)
  let gp := vadd (vadd (vadd (vscale (lit 2 * s.kp) p) (vscale s.kx v)) (unitAt d L (s.kx * at0 j)))
              (unitAt d 0 (s.kt * tg))
  let gv := vadd (vadd (vscale (lit 2 * s.kv) v) (vscale s.kx p)) (unitAt d 0 (s.ki * ii * atL a))
  let ga := vadd (vadd (vscale (lit 2 * s.ka) a) (unitAt d 0 (s.kx * atL sn))) (unitAt d L (s.ki * ii * at0 v))
  let gj := vadd (vscale (lit 2 * s.kj) j) (unitAt d 0 (s.kx * atL p))
  let gs := vadd (vscale (lit 2 * s.ks) sn) (unitAt d L (s.kx * at0 a))
  let gt := s.kt * (at0 p + lit 2 * tg)
  let gp' := if s.pertKind = 3 then addAtIdx gp 0 s.pertDelta else gp
  let gv' := if s.pertKind = 4 then addAtIdx gv 0 s.pertDelta else gv
  let gt' := if s.pertKind = 5 then gt + s.pertDelta else gt
  ⟨val, gp', gv', ga, gj, gs, gt'⟩

def CostSpec.costs (s : CostSpec α) (d : Nat) : Costs α :=
  { time := timeCostFn s,
    waypoints := if s.useWp then some (wpCostFn s d) else none,
    run := runCostFn s d }

end ST
