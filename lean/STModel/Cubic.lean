import STModel.Tridiag
/-!
# `CubicSplineND`, per spatial coordinate

A D-dimensional spline is the list of its D scalar columns (the code never mixes columns except in
`squaredNorm`/`dot`, which are sums over columns); everything here is one column.
-/
namespace ST
variable {α : Type} [Num α]

namespace Cubic

/-- per-segment data the code precomputes (`time_powers_`, `point_diffs_`, `p_diff_h`) -/
structure Seg (α : Type) where
  h : α
  p0 : α
  dp : α      -- P_{i+1} - P_i        (point_diffs_)
  pd : α      -- dp * (1/h)           (p_diff_h)

def mkSegs : List α → List α → List (Seg α)
  | h :: hs, p0 :: p1 :: ps => ⟨h, p0, p1 - p0, (p1 - p0) * (lit 1 / h)⟩ :: mkSegs hs (p1 :: ps)
  | _, _ => []

def interiorRows (vn : α) : Seg α → List (Seg α) → List (Row α)
  | prev, [] => [⟨prev.h, lit 2 * prev.h, lit 0, lit 6 * (vn - prev.pd)⟩]
  | prev, s :: rest =>
      ⟨prev.h, lit 2 * (prev.h + s.h), s.h, lit 6 * (s.pd - prev.pd)⟩ :: interiorRows vn s rest

/-- the (N+1)×(N+1) system for the knot second derivatives `M`, as `solveSpline` sets it up -/
def rows (v0 vn : α) : List (Seg α) → List (Row α)
  | [] => []
  | s :: rest => ⟨lit 0, lit 2 * s.h, s.h, lit 6 * (s.pd - v0)⟩ :: interiorRows vn s rest

/-- coefficients of one piece, ascending powers of local time -/
structure C4 (α : Type) where
  c0 : α
  c1 : α
  c2 : α
  c3 : α

def C4.toList (c : C4 α) : List α := [c.c0, c.c1, c.c2, c.c3]

def closure : List (Seg α) → List α → List (C4 α)
  | s :: rest, m0 :: m1 :: ms =>
      ⟨s.p0,
       s.pd - (s.h / lit 6) * (lit 2 * m0 + m1),
       m0 * (lit 1 / lit 2),
       (m1 - m0) * ((lit 1 / s.h) / lit 6)⟩ :: closure rest (m1 :: ms)
  | _, _ => []

/-- knot second derivatives -/
def knotM (v0 vn : α) (segs : List (Seg α)) : List α := thomas (rows v0 vn segs)

def build (h P : List α) (v0 vn : α) : List (C4 α) :=
  let segs := mkSegs h P
  closure segs (knotM v0 vn segs)

/-! ### energy and its closed-form gradients -/

def energySeg (T : α) (c : C4 α) : α :=
  let T2 := T * T
  let T3 := T2 * T
  lit 12 * (c.c3 * c.c3) * T3 + lit 12 * (c.c2 * c.c3) * T2 + lit 4 * (c.c2 * c.c2) * T

def energy : List α → List (C4 α) → α
  | T :: Ts, c :: cs => energySeg T c + energy Ts cs
  | _, _ => lit 0

/-- `getEnergyPartialGradByCoeffs`, one segment -/
def partialC (T : α) (c : C4 α) : C4 α :=
  let T2 := T * T
  let T3 := T2 * T
  ⟨lit 0, lit 0,
   lit 8 * c.c2 * T + lit 12 * c.c3 * T2,
   lit 12 * c.c2 * T2 + lit 24 * c.c3 * T3⟩

/-- `getEnergyPartialGradByTimes`, one segment (one column's share of the squared norm) -/
def partialT (T : α) (c : C4 α) : α :=
  let accEnd := lit 2 * c.c2 + (lit 6 * T) * c.c3
  accEnd * accEnd

/-- `getEnergyGradTimes`, one segment -/
def gradTime (c : C4 α) : α :=
  (lit 0 - lit 4 * (c.c2 * c.c2)) + lit 12 * (c.c1 * c.c3)

/-- `getEnergyGradInnerPoints` -/
def gradInner : List (C4 α) → List α
  | cL :: cR :: cs => (lit 12 * (cR.c3 - cL.c3)) :: gradInner (cR :: cs)
  | _ => []

structure BGrad (α : Type) where
  p : α
  v : α

/-- `getEnergyGradBoundary` (needs at least one segment) -/
def gradBoundary (Ts : List α) (cs : List (C4 α)) : BGrad α × BGrad α :=
  match cs.head?, cs.getLast?, Ts.getLast? with
  | some f, some l, some T =>
      let accEnd := lit 2 * l.c2 + lit 6 * l.c3 * T
      let jerkEnd := lit 6 * l.c3
      (⟨lit 12 * f.c3, (lit 0 - lit 4) * f.c2⟩, ⟨(lit 0 - lit 2) * jerkEnd, lit 2 * accEnd⟩)
  | _, _, _ => (⟨lit 0, lit 0⟩, ⟨lit 0, lit 0⟩)

/-! ### adjoint (`propagateGradInternal`) -/

/-- first loop, `ws_lambda_` part: contribution of segment i to rows i and i+1 -/
def lamRawSeg (s : Seg α) (g : C4 α) : α × α :=
  let hinv := lit 1 / s.h
  ( (lit 0 - g.c1 * (s.h / lit 3)) + g.c2 * (lit 1 / lit 2) - g.c3 * (hinv / lit 6),
    (lit 0 - g.c1 * (s.h / lit 6)) + g.c3 * (hinv / lit 6) )

def zipLam : List (Seg α) → List (C4 α) → List (α × α)
  | s :: ss, g :: gs => lamRawSeg s g :: zipLam ss gs
  | _, _ => []

/-- per-segment point (left,right) and time contributions of both loops -/
def segContribs : List (Seg α) → List (C4 α) → List α → List α → List ((α × α) × α)
  | s :: ss, g :: gs, m0 :: m1 :: ms, l0 :: l1 :: ls =>
      let hinv := lit 1 / s.h
      let h2inv := hinv * hinv
      let pl1 := g.c0 - g.c1 * hinv
      let pr1 := g.c1 * hinv
      let t1 := g.c1 * ((lit 0 - s.dp * h2inv) - (lit 2 * m0 + m1) / lit 6)
                + g.c3 * (lit 0 - (m1 - m0) * (h2inv / lit 6))
      let common := l0 - l1
      let gRP := lit 6 * hinv * common
      let t2 := common * (lit 0 - lit 6 * s.dp * h2inv) - l0 * (lit 2 * m0 + m1) - l1 * (m0 + lit 2 * m1)
      ((pl1 - gRP, pr1 + gRP), t1 + t2) :: segContribs ss gs (m1 :: ms) (l1 :: ls)
  | _, _, _, _ => []

/-- result of `propagateGrad` for one column; `times` is this column's contribution
(the caller adds the upstream `partialGradByTimes` once and sums over columns) -/
structure Grads (α : Type) where
  points : List α     -- start.p :: inner … :: end.p
  times : List α
  v0 : α
  vn : α

def propagate (v0 vn : α) (segs : List (Seg α)) (ms : List α) (gs : List (C4 α)) : Grads α :=
  let lraw := oadd (zipLam segs gs)
  let ls := thomas (withRhs (rows v0 vn segs) lraw)
  let cs := segContribs segs gs ms ls
  { points := oadd (cs.map (·.1)), times := cs.map (·.2),
    v0 := lit 0 - lit 6 * ls.headD (lit 0), vn := lit 6 * ls.getLastD (lit 0) }

end Cubic
end ST
