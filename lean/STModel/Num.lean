/-!
# Scalars of the formal model

The model of SplineTrajectory is written once, polymorphic in the scalar type, and is run at
`Float` (IEEE binary64, same operation sequence as the C++), at `Rat` (exact) and at `Dual Rat`
(exact value + exact directional derivative); the theorems in `STProofs` instantiate the very same
definitions at an abstract field `K` and at `Dual K`.

Core Lean only: nothing here may import Mathlib (the driver `stmodel` is linked from these files).
-/
namespace ST

/-- arithmetic the numerical core needs -/
class Num (α : Type) extends Add α, Sub α, Mul α, Div α, Neg α where
  ofNat : Nat → α

/-- comparisons and floor: needed by lookup, time maps, sampling, validation -/
class NumOrd (α : Type) extends Num α where
  lt : α → α → Bool
  le : α → α → Bool
  floor : α → Int

instance : Num Float := { ofNat := Float.ofNat }
instance : NumOrd Float :=
  { lt := fun a b => a < b, le := fun a b => a ≤ b,
    floor := fun a => (Float.floor a).toInt64.toInt }

instance : Num Rat := { ofNat := fun n => (n : Rat) }
instance : NumOrd Rat :=
  { lt := fun a b => a < b, le := fun a b => a ≤ b, floor := Rat.floor }

variable {α : Type}

/-- numeric literal `n` of the code (`2.0`, `6.0`, `840.0`, …) -/
@[inline] def lit [Num α] (n : Nat) : α := Num.ofNat n

/-- literal given as a quotient (`0.5 = 1/2`, `1.5 = 3/2`, `7.5 = 15/2`): dyadic, hence exact at `Float` -/
@[inline] def litq [Num α] (n d : Nat) : α := lit n / lit d

/-- dual numbers `re + du·ε`, `ε² = 0` -/
structure Dual (β : Type) where
  re : β
  du : β
deriving Repr

namespace Dual
variable {β : Type}
instance [Add β] : Add (Dual β) := ⟨fun a b => ⟨a.re + b.re, a.du + b.du⟩⟩
instance [Sub β] : Sub (Dual β) := ⟨fun a b => ⟨a.re - b.re, a.du - b.du⟩⟩
instance [Neg β] : Neg (Dual β) := ⟨fun a => ⟨-a.re, -a.du⟩⟩
instance [Add β] [Mul β] : Mul (Dual β) := ⟨fun a b => ⟨a.re * b.re, a.re * b.du + a.du * b.re⟩⟩
instance [Sub β] [Mul β] [Div β] : Div (Dual β) :=
  ⟨fun a b => ⟨a.re / b.re, (a.du * b.re - a.re * b.du) / (b.re * b.re)⟩⟩
end Dual

instance dualNum {β : Type} [Num β] : Num (Dual β) := { ofNat := fun n => ⟨Num.ofNat n, Num.ofNat 0⟩ }
instance dualNumOrd {β : Type} [NumOrd β] : NumOrd (Dual β) :=
  { lt := fun a b => NumOrd.lt a.re b.re, le := fun a b => NumOrd.le a.re b.re,
    floor := fun a => NumOrd.floor a.re }

/-- constant (zero tangent) -/
@[inline] def Dual.const {β : Type} [Num β] (x : β) : Dual β := ⟨x, Num.ofNat 0⟩

section lists
variable [Num α]

def dot : List α → List α → α
  | x :: xs, y :: ys => x * y + dot xs ys
  | _, _ => lit 0

def sum : List α → α
  | [] => lit 0
  | x :: xs => x + sum xs

def zipAdd : List α → List α → List α
  | x :: xs, y :: ys => (x + y) :: zipAdd xs ys
  | _, _ => []

def scale (c : α) (xs : List α) : List α := xs.map (fun x => c * x)

/-- overlapping accumulation of per-segment (left-knot, right-knot) contributions into knot slots -/
def oaddAux : α → List (α × α) → List α
  | carry, [] => [carry]
  | carry, (l, r) :: rest => (carry + l) :: oaddAux r rest
def oadd (lr : List (α × α)) : List α := oaddAux (lit 0) lr

end lists

/-- transpose a rectangular list of rows into the list of its columns (width `d`) -/
def columns {β : Type} (d : Nat) (rows : List (List β)) (dflt : β) : List (List β) :=
  (List.range d).map (fun j => rows.map (fun r => r.getD j dflt))

/-- rows from columns (height `n`) -/
def rowsOf {β : Type} (n : Nat) (cols : List (List β)) (dflt : β) : List (List β) :=
  (List.range n).map (fun i => cols.map (fun c => c.getD i dflt))

end ST
