import STModel.SplineND
/-!
# `SplineOptimizer`: maps, layout, decode, quadrature, gradient assembly

User code (time map, spatial map, the three cost functors) enters as records of functions.
-/
namespace ST
variable {α : Type}

/-! ### time maps -/
structure TimeMap (α : Type) where
  toTime : α → α
  toTau : α → α
  backward : α → α → α → α     -- (tau, T, gradT)

def identityTimeMap : TimeMap α := ⟨id, id, fun _ _ g => g⟩

namespace QuadInv
variable [NumOrd α]
/-- `QuadInvTimeMap::toTime` -/
def toTime (tau : α) : α :=
  if NumOrd.lt (lit 0) tau then (litq 1 2 * tau + lit 1) * tau + lit 1
  else lit 1 / ((litq 1 2 * tau - lit 1) * tau + lit 1)
/-- `QuadInvTimeMap::toTau`, `sqrt` supplied by the scalar type's user -/
def toTau (sqrt : α → α) (T : α) : α :=
  if NumOrd.lt (lit 1) T then sqrt (lit 2 * T - lit 1) - lit 1
  else lit 1 - sqrt (lit 2 / T - lit 1)
/-- `QuadInvTimeMap::backward` -/
def backward (tau _T gradT : α) : α :=
  if NumOrd.lt (lit 0) tau then gradT * (tau + lit 1)
  else
    let den := (litq 1 2 * tau - lit 1) * tau + lit 1
    gradT * (lit 1 - tau) / (den * den)
end QuadInv

def quadInvTimeMap [NumOrd α] (sqrt : α → α) : TimeMap α :=
  ⟨QuadInv.toTime, QuadInv.toTau sqrt, QuadInv.backward⟩

/-- a user map used by the harness: `T = a·τ + b` -/
def affineTimeMap [Num α] (a b : α) : TimeMap α :=
  ⟨fun tau => a * tau + b, fun T => (T - b) / a, fun _ _ g => g * a⟩

/-- a user map used by the harness whose `backward` needs the decoded duration: `T = b / (1 − a·τ)`, `dT/dτ = a·T²/b` -/
def recipTimeMap [Num α] (a b : α) : TimeMap α :=
  ⟨fun tau => b / (lit 1 - a * tau), fun T => (lit 1 - b / T) / a, fun _ T g => g * a * T * T / b⟩

/-! ### spatial maps -/
structure SpatialMap (α : Type) where
  udim : Nat → Nat
  toPhysical : Vec α → Nat → Vec α
  toUnconstrained : Vec α → Nat → Vec α
  backwardGrad : Vec α → Vec α → Nat → Vec α   -- (xi, grad_p, index)

def identitySpatialMap (d : Nat) : SpatialMap α := ⟨fun _ => d, fun xi _ => xi, fun p _ => p, fun _ g _ => g⟩

/-- the harness's user map: point indices with `index % 2 ≠ parity` are unconstrained (dof = D); the
others live on the paraboloid `p_{D-1} = c·Σ_{k<D-1} ξ_k² + e` (dof = D−1), `c = (index+1)/4`, `e = index/2` -/
def paraboloidMap [Num α] (d parity : Nat) : SpatialMap α :=
  let c (i : Nat) : α := lit (i + 1) / lit 4
  let e (i : Nat) : α := lit i / lit 2
  { udim := fun i => if i % 2 ≠ parity then d else d - 1,
    toPhysical := fun xi i =>
      if i % 2 ≠ parity then xi else xi ++ [c i * sum (xi.map (fun x => x * x)) + e i],
    toUnconstrained := fun p i => if i % 2 ≠ parity then p else p.take (d - 1),
    backwardGrad := fun xi g i =>
      if i % 2 ≠ parity then g
      else
        let gl := g.getD (d - 1) (lit 0)
        List.zipWith (fun x gk => gk + gl * (lit 2 * c i * x)) xi (g.take (d - 1)) }

/-! ### flags and layout -/
structure Flags where
  startP : Bool := false
  startV : Bool := false
  startA : Bool := false
  startJ : Bool := false
  endP : Bool := false
  endV : Bool := false
  endA : Bool := false
  endJ : Bool := false
deriving DecidableEq, Repr

/-- which derivative blocks are present, in decision-vector order:
start v/a/j, end v/a/j, gated by the spline order (`if constexpr (ORDER >= 5/7)`) -/
inductive DBlock where
  | sv | sa | sj | ev | ea | ej
deriving DecidableEq, Repr

def derivBlocks (o : Order) (f : Flags) : List DBlock :=
  (if f.startV then [DBlock.sv] else []) ++
  (if o.degree ≥ 5 && f.startA then [DBlock.sa] else []) ++
  (if o.degree ≥ 7 && f.startJ then [DBlock.sj] else []) ++
  (if f.endV then [DBlock.ev] else []) ++
  (if o.degree ≥ 5 && f.endA then [DBlock.ea] else []) ++
  (if o.degree ≥ 7 && f.endJ then [DBlock.ej] else [])

structure LayoutVar where
  point : Nat
  offset : Nat
  dof : Nat
deriving DecidableEq, Repr

/-- `isSpatialOptimized` -/
def spatialOptimized (f : Flags) (n i : Nat) : Bool :=
  if i = 0 then f.startP else if i = n then f.endP else true

/-- the loop of `rebuildLayoutCache` over points `i..n`, running offset `off` -/
def layoutFrom (f : Flags) (n : Nat) (udim : Nat → Nat) : Nat → Nat → Nat → List LayoutVar × Nat
  | 0, _, off => ([], off)
  | fuel + 1, i, off =>
      if spatialOptimized f n i then
        let (rest, o') := layoutFrom f n udim fuel (i + 1) (off + udim i)
        (⟨i, off, udim i⟩ :: rest, o')
      else layoutFrom f n udim fuel (i + 1) off

structure Layout where
  vars : List LayoutVar
  derivOffset : Nat
  total : Nat
deriving DecidableEq, Repr

/-- `rebuildLayoutCache` -/
def layout (o : Order) (d : Nat) (f : Flags) (n : Nat) (udim : Nat → Nat) : Layout :=
  if n = 0 then ⟨[], 0, 0⟩
  else
    let (vs, off) := layoutFrom f n udim (n + 1) 0 n
    ⟨vs, off, off + (derivBlocks o f).length * d⟩

/-! ### optimizer configuration and the layout cache with its dirty flag -/
structure Config (α : Type) where
  order : Order
  dim : Nat
  refTimes : List α
  refWaypoints : List (Vec α)
  refBC : BC α
  startTime : α
  flags : Flags
  rho : α
  steps : Nat               -- integral_num_steps_
  tm : TimeMap α
  sm : SpatialMap α

def Config.n (c : Config α) : Nat := c.refTimes.length
def Config.layout (c : Config α) : Layout := ST.layout c.order c.dim c.flags c.n c.sm.udim

section seg
/-- `x.segment(off, len)` -/
def segment (x : List α) (off len : Nat) : List α := (x.drop off).take len
end seg

/-- write `v` over positions `off … off+|v|-1` of `x` -/
def writeAt (x : List α) (off : Nat) (v : List α) : List α :=
  x.take off ++ v ++ x.drop (off + v.length)

def setRow (rows : List (Vec α)) (i : Nat) (v : Vec α) : List (Vec α) := rows.set i v

def BC.setBlock (bc : BC α) (b : DBlock) (v : Vec α) : BC α :=
  match b with
  | .sv => { bc with v0 := v } | .sa => { bc with a0 := v } | .sj => { bc with j0 := v }
  | .ev => { bc with vn := v } | .ea => { bc with an := v } | .ej => { bc with jn := v }

def BC.getBlock (bc : BC α) : DBlock → Vec α
  | .sv => bc.v0 | .sa => bc.a0 | .sj => bc.j0 | .ev => bc.vn | .ea => bc.an | .ej => bc.jn

/-- what a decision vector decodes to -/
structure Decoded (α : Type) where
  times : List α
  waypoints : List (Vec α)
  bc : BC α

/-- the decoding part of `evaluate` -/
def decode [Num α] (c : Config α) (x : List α) : Decoded α :=
  let L := c.layout
  let times := (List.range c.n).map (fun i => c.tm.toTime (x.getD i (lit 0)))
  let wps := L.vars.foldl (fun w v => setRow w v.point (c.sm.toPhysical (segment x v.offset v.dof) v.point))
              c.refWaypoints
  let (bc, _) := (derivBlocks c.order c.flags).foldl
      (fun (acc : BC α × Nat) b => (acc.1.setBlock b (segment x acc.2 c.dim), acc.2 + c.dim))
      (c.refBC, L.derivOffset)
  ⟨times, wps, bc⟩

/-- `generateInitialGuess` -/
def initialGuess [Num α] (c : Config α) : List α :=
  let L := c.layout
  let x0 : List α := List.replicate L.total (lit 0)
  let x1 := writeAt x0 0 (c.refTimes.map c.tm.toTau)
  let x2 := L.vars.foldl (fun x v =>
      writeAt x v.offset (c.sm.toUnconstrained (c.refWaypoints.getD v.point []) v.point)) x1
  let (x3, _) := (derivBlocks c.order c.flags).foldl
      (fun (acc : List α × Nat) b => (writeAt acc.1 acc.2 (c.refBC.getBlock b), acc.2 + c.dim))
      (x2, L.derivOffset)
  x3

/-! ### cost functors -/
structure RunOut (α : Type) where
  val : α
  gp : Vec α
  gv : Vec α
  ga : Vec α
  gj : Vec α
  gs : Vec α
  gt : α

structure Costs (α : Type) where
  time : List α → α × List α
  waypoints : Option (List (Vec α) → α × List (Vec α))
  run : α → α → Nat → Vec α → Vec α → Vec α → Vec α → Vec α → RunOut α

/-- `computeBasisFunctions`: rows pos, vel, acc, jerk, snap, crackle (length COEFF_NUM each) -/
def basisRows [Num α] (o : Order) (t : α) : List (List α) :=
  let t1 := t
  let t2 := t1 * t1
  let t3 := t2 * t1
  let t4 := t3 * t1
  let t5 := t4 * t1
  let t6 := t5 * t1
  let t7 := t6 * t1
  let z : α := lit 0
  match o with
  | .cubic =>
      [[lit 1, t1, t2, t3], [z, lit 1, lit 2 * t1, lit 3 * t2], [z, z, lit 2, lit 6 * t1],
       [z, z, z, lit 6], [z, z, z, z], [z, z, z, z]]
  | .quintic =>
      [[lit 1, t1, t2, t3, t4, t5],
       [z, lit 1, lit 2 * t1, lit 3 * t2, lit 4 * t3, lit 5 * t4],
       [z, z, lit 2, lit 6 * t1, lit 12 * t2, lit 20 * t3],
       [z, z, z, lit 6, lit 24 * t1, lit 60 * t2],
       [z, z, z, z, lit 24, lit 120 * t1],
       [z, z, z, z, z, lit 120]]
  | .septic =>
      [[lit 1, t1, t2, t3, t4, t5, t6, t7],
       [z, lit 1, lit 2 * t1, lit 3 * t2, lit 4 * t3, lit 5 * t4, lit 6 * t5, lit 7 * t6],
       [z, z, lit 2, lit 6 * t1, lit 12 * t2, lit 20 * t3, lit 30 * t4, lit 42 * t5],
       [z, z, z, lit 6, lit 24 * t1, lit 60 * t2, lit 120 * t3, lit 210 * t4],
       [z, z, z, z, lit 24, lit 120 * t1, lit 360 * t2, lit 840 * t3],
       [z, z, z, z, z, lit 120, lit 720 * t1, lit 2520 * t2]]

/-- `b * coeff_block` : row vector (length nc) times nc×D block -/
def rowTimesBlock [Num α] (d : Nat) (b : List α) (blk : List (Vec α)) : Vec α :=
  (List.zipWith (fun bk row => vscale bk row) b blk).foldl vadd (vzero d)

def vdot [Num α] (a b : Vec α) : α := dot a b

/-- one sample handed to the running cost -/
structure Sample (α : Type) where
  seg : Nat
  t : α
  tGlobal : α
  p : Vec α
  v : Vec α
  a : Vec α
  j : Vec α
  s : Vec α

/-- accumulators of the per-segment lambda -/
structure SegAcc (α : Type) where
  cost : α
  gdT : α
  expl : α
  gdC : List (Vec α)       -- nc × D

abbrev RunFn (α : Type) := α → α → Nat → Vec α → Vec α → Vec α → Vec α → Vec α → RunOut α

/-- outer product `bᵀ g` as nc rows of D -/
def outer [Num α] (b : List α) (g : Vec α) : List (Vec α) := b.map (fun bk => vscale bk g)

def blockAdd [Num α] (a b : List (Vec α)) : List (Vec α) := List.zipWith vadd a b
def blockScale [Num α] (c : α) (a : List (Vec α)) : List (Vec α) := a.map (vscale c)

/-- one quadrature node `k` of segment `i`: the sample, and the updated accumulators -/
def quadStep [Num α] (o : Order) (d K : Nat) (run : RunFn α) (i : Nat) (T segStart : α)
    (blk : List (Vec α)) (acc : SegAcc α) (k : Nat) : SegAcc α × Sample α :=
  let invK := lit 1 / lit K
  let dt := T * invK
  let alpha := lit k * invK
  let t := alpha * T
  let w : α := if k = 0 || k = K then litq 1 2 else lit 1
  let cw := w * dt
  let tg := segStart + t
  let B := basisRows o t
  let row (m : Nat) := B.getD m []
  let p := rowTimesBlock d (row 0) blk
  let v := rowTimesBlock d (row 1) blk
  let a := rowTimesBlock d (row 2) blk
  let j := rowTimesBlock d (row 3) blk
  let s := rowTimesBlock d (row 4) blk
  let c := rowTimesBlock d (row 5) blk
  let r := run t tg i p v a j s
  let g := blockAdd (blockAdd (blockAdd (blockAdd (outer (row 0) r.gp) (outer (row 1) r.gv))
            (outer (row 2) r.ga)) (outer (row 3) r.gj)) (outer (row 4) r.gs)
  let drift := vdot r.gp v + vdot r.gv a + vdot r.ga j + vdot r.gj s + vdot r.gs c
  ({ cost := acc.cost + r.val * cw,
     gdC := blockAdd acc.gdC (blockScale cw g),
     gdT := ((acc.gdT + r.val * w * invK) + drift * alpha * cw) + r.gt * alpha * cw,
     expl := acc.expl + r.gt * cw },
   ⟨i, t, tg, p, v, a, j, s⟩)

/-- the per-segment lambda of `calculateIntegralCost` -/
def quadSegment [Num α] (o : Order) (d K : Nat) (run : RunFn α) (i : Nat) (T segStart : α)
    (blk : List (Vec α)) : SegAcc α × List (Sample α) :=
  (List.range (K + 1)).foldl
    (fun (st : SegAcc α × List (Sample α)) k =>
      let (acc', smp) := quadStep o d K run i T segStart blk st.1 k
      (acc', st.2 ++ [smp]))
    (⟨lit 0, lit 0, lit 0, List.replicate o.coeffNum (vzero d)⟩, [])

/-- `segment_start_times`: running sum from the start time -/
def segStarts [Num α] (t0 : α) : List α → List α
  | [] => []
  | T :: Ts => t0 :: segStarts (t0 + T) Ts

/-- suffix accumulation of the explicit-time term: `gdT(i-1) += Σ_{j ≥ i} expl(j)` -/
def suffixAdd [Num α] : List α → List α
  | [] => []
  | [_] => [lit 0]
  | _ :: rest =>
      let tl := suffixAdd rest
      -- tl.head = Σ_{j ≥ 2} (relative), so this slot gets expl(next) + that
      (rest.headD (lit 0) + tl.headD (lit 0)) :: tl

structure EvalOut (α : Type) where
  cost : α
  grad : List α
  decoded : Decoded α
  samples : List (Sample α)
  segCosts : List α
  timeCost : α
  wpCost : α
  energy : α            -- `getEnergy()` of the decoded spline (whether or not it is weighted in)
  spline : SplineND α

/-- what `evaluate` computes from the decoded problem (everything except decoding and gradient assembly) -/
structure CoreOut (α : Type) where
  cost : α
  g : GradsND α            -- gradient w.r.t. durations, waypoints and boundary states
  samples : List (Sample α)
  segCosts : List α
  timeCost : α
  wpCost : α
  energy : α
  spline : SplineND α

/-- the middle of `evaluate`: spline construction, the cost terms and their gradients w.r.t. the decoded quantities -/
def evalCore [NumOrd α] (c : Config α) (dc : Decoded α) (costs : Costs α) : CoreOut α :=
  let n := c.n
  let sp := buildND c.order c.dim dc.times dc.waypoints c.startTime dc.bc
  -- time cost
  let (tc, userGdT) := costs.time dc.times
  let gdT0 := zipAdd (List.replicate n (lit 0)) userGdT
  -- integral cost
  let starts := segStarts c.startTime dc.times
  let segs := (List.range n).map (fun i =>
      quadSegment c.order c.dim c.steps costs.run i (dc.times.getD i (lit 0)) (starts.getD i (lit 0))
        (sp.coeffs.getD i []))
  let segCosts := segs.map (·.1.cost)
  let gdT1 := zipAdd gdT0 (segs.map (·.1.gdT))
  let expl := segs.map (·.1.expl)
  let gdT2 := zipAdd gdT1 (suffixAdd expl)
  let gdC := segs.map (·.1.gdC)
  let cost1 := segCosts.foldl (· + ·) (lit 0 + tc)
  -- adjoint
  let g0 := propagateND c.order c.dim dc.times dc.waypoints dc.bc gdC gdT2
  -- waypoint cost
  let (cost2, g1, wc) :=
    match costs.waypoints with
    | none => (cost1, g0, lit 0)
    | some wf =>
        let (w, gq) := wf dc.waypoints
        (cost1 + w,
         { g0 with start := { g0.start with p := vadd g0.start.p (gq.getD 0 []) },
                   inner := List.zipWith vadd g0.inner ((gq.drop 1).take (n - 1)),
                   fin := { g0.fin with p := vadd g0.fin.p (gq.getD n []) } }, w)
  -- energy
  let (cost3, g2) :=
    if NumOrd.lt (lit 0) c.rho then
      let eg := sp.energyGrad
      let ad (a b : Vec α) := vadd a (vscale c.rho b)
      (cost2 + c.rho * sp.energy,
       { inner := List.zipWith ad g1.inner eg.inner,
         times := zipAdd g1.times (scale c.rho eg.times),
         start := ⟨ad g1.start.p eg.start.p, ad g1.start.v eg.start.v,
                   if c.order.degree ≥ 5 then ad g1.start.a eg.start.a else g1.start.a,
                   if c.order.degree ≥ 7 then ad g1.start.j eg.start.j else g1.start.j⟩,
         fin := ⟨ad g1.fin.p eg.fin.p, ad g1.fin.v eg.fin.v,
                 if c.order.degree ≥ 5 then ad g1.fin.a eg.fin.a else g1.fin.a,
                 if c.order.degree ≥ 7 then ad g1.fin.j eg.fin.j else g1.fin.j⟩ })
    else (cost2, g1)
  { cost := cost3, g := g2, samples := segs.flatMap (·.2), segCosts := segCosts, timeCost := tc, wpCost := wc,
    energy := sp.energy, spline := sp }

/-- gradient w.r.t. waypoint `i` (`0` = start, `n` = end) -/
def pointGradOf (n : Nat) (g2 : GradsND α) (i : Nat) : Vec α :=
  if i = 0 then g2.start.p else if i = n then g2.fin.p else g2.inner.getD (i - 1) []

/-- gradient w.r.t. a boundary-derivative block -/
def blockGradOf (g2 : GradsND α) : DBlock → Vec α
  | .sv => g2.start.v | .sa => g2.start.a | .sj => g2.start.j
  | .ev => g2.fin.v | .ea => g2.fin.a | .ej => g2.fin.j

/-- the end of `evaluate`: pull the gradient back through the maps and scatter it into the decision-vector layout -/
def assemble [Num α] (c : Config α) (x : List α) (times : List α) (g2 : GradsND α) : List α :=
  let L := c.layout
  let n := c.n
  let gx0 : List α := List.replicate x.length (lit 0)
  let gx1 := writeAt gx0 0 ((List.range n).map (fun i =>
      c.tm.backward (x.getD i (lit 0)) (times.getD i (lit 0)) (g2.times.getD i (lit 0))))
  let gx2 := L.vars.foldl (fun gx v =>
      let xi := segment x v.offset v.dof
      writeAt gx v.offset (c.sm.backwardGrad xi (pointGradOf n g2 v.point) v.point)) gx1
  let (gx3, _) := (derivBlocks c.order c.flags).foldl
      (fun (acc : List α × Nat) b => (writeAt acc.1 acc.2 (blockGradOf g2 b), acc.2 + c.dim))
      (gx2, L.derivOffset)
  gx3

/-- `evaluate` -/
def evaluate [NumOrd α] (c : Config α) (x : List α) (costs : Costs α) : EvalOut α :=
  let dc := decode c x
  let core := evalCore c dc costs
  { cost := core.cost, grad := assemble c x dc.times core.g, decoded := dc, samples := core.samples,
    segCosts := core.segCosts, timeCost := core.timeCost, wpCost := core.wpCost, energy := core.energy,
    spline := core.spline }

/-! ### `checkGradients` -/
structure GradCheck (α : Type) where
  valid : Bool
  errNormSq : α
  analytical : List α
  numerical : List α
  final : EvalOut α

def setAt (x : List α) (i : Nat) (v : α) : List α := x.set i v

/-- the loop of `checkGradients`; `x_temp` is restored after each component.
`valid ↔ ‖analytical − numerical‖ < tol` is stated on squares (`tol ≥ 0`). -/
def checkGradients [NumOrd α] (c : Config α) (x : List α) (costs : Costs α) (eps tol : α) : GradCheck α :=
  let an := (evaluate c x costs).grad
  let step (st : List α × List α) (i : Nat) : List α × List α :=
    let xt := st.1
    let old := xt.getD i (lit 0)
    let cp := (evaluate c (setAt xt i (old + eps)) costs).cost
    let cm := (evaluate c (setAt xt i (old - eps)) costs).cost
    (setAt xt i old, st.2 ++ [(cp - cm) / (lit 2 * eps)])
  let (_, num) := (List.range x.length).foldl step (x, [])
  let fin := evaluate c x costs
  let diff := List.zipWith (fun a b => a - b) fin.grad num
  let e2 := dot diff diff
  { valid := NumOrd.lt e2 (tol * tol), errNormSq := e2, analytical := an, numerical := num, final := fin }

end ST
