import STModel.Num
/-!
# `PPolyND<DIM, ORDER>` as an object with its mutable caches

The C++ object carries two lazily built caches (`derivative_coeffs_`, `derivative_factor_table_`)
with ready flags; `const` evaluations fill them, `initializeInternal` invalidates them.  The model
keeps those fields, so "no evaluation ever serves stale data" is a statement about this state
machine and not something the model assumes.  Values are D-vectors (`List α` of length D).
-/
namespace ST
variable {α : Type}

abbrev Vec (α : Type) := List α

section vec
variable [Num α]
def vzero (d : Nat) : Vec α := List.replicate d (lit 0)
def vadd : Vec α → Vec α → Vec α
  | x :: xs, y :: ys => (x + y) :: vadd xs ys
  | _, _ => []
def vscale (c : α) (v : Vec α) : Vec α := v.map (fun x => c * x)
/-- `result * t + row` of the Horner loop -/
def vmulAdd (r : Vec α) (t : α) (row : Vec α) : Vec α :=
  match r, row with
  | x :: xs, y :: ys => (x * t + y) :: vmulAdd xs t ys
  | _, _ => []
end vec

/-- running product of `makeStaticDerivativeFactorTable` / `buildDynamicDerivativeFactorTable`:
`acc` after `k` steps of `acc *= (n - j + 1)`, j = 1..k -/
def factorAux (n : Nat) : Nat → Nat
  | 0 => 1
  | k + 1 => factorAux n k * (n - (k + 1) + 1)

/-- table entry `[n][k]` (zero above the diagonal, as both tables are zero-initialised) -/
def factorEntry (n k : Nat) : Nat := if k ≤ n then factorAux n k else 0

def kStaticMax : Nat := 8
def kLinearSearchThreshold : Nat := 32

structure PPoly (α : Type) where
  dim : Nat
  fixedOrder : Option Nat            -- template parameter ORDER (`none` = Eigen::Dynamic)
  breakpoints : List α
  coeffs : List (List (Vec α))       -- [segment][power] ↦ D-vector
  numSegments : Nat
  numCoeffs : Nat
  initialized : Bool
  -- mutable caches
  derivCoeffs : List (List (List (Vec α)))   -- [order][segment][power]
  derivReady : Bool
  factorTable : List (List Nat)              -- dynamic table, numCoeffs × numCoeffs
  factorReady : Bool

namespace PPoly
variable [NumOrd α]

def empty (dim : Nat) (fo : Option Nat) : PPoly α :=
  { dim := dim, fixedOrder := fo, breakpoints := [], coeffs := [], numSegments := 0, numCoeffs := 0,
    initialized := false, derivCoeffs := [], derivReady := false, factorTable := [], factorReady := false }

/-- `invalidateDerivativeCaches` -/
def invalidate (p : PPoly α) : PPoly α :=
  { p with derivCoeffs := [], factorTable := [], factorReady := false, derivReady := false }

def reset (p : PPoly α) : PPoly α :=
  invalidate { p with numSegments := 0, numCoeffs := 0, initialized := false, breakpoints := [], coeffs := [] }

/-- group a row-major (segments·numCoeffs) × D coefficient matrix by segment -/
def groupRows : Nat → Nat → List (Vec α) → List (List (Vec α))
  | 0, _, _ => []
  | s + 1, nc, rows => rows.take nc :: groupRows s nc (rows.drop nc)

/-- `initializeInternal`.  `numCoefficients` is an `int` in the code. -/
def init (p : PPoly α) (bps : List α) (rows : List (Vec α)) (numCoefficients : Int) : PPoly α :=
  if bps.length < 2 then reset p
  else if (rows.length : Int) ≠ ((bps.length - 1 : Nat) : Int) * numCoefficients then reset p
  else
    let bad := match p.fixedOrder with
      | some o => numCoefficients ≤ 0 || numCoefficients > (o : Int)
      | none => false
    if bad then reset p
    else
      let nc := numCoefficients.toNat
      let ns := bps.length - 1
      invalidate { p with breakpoints := bps, coeffs := groupRows ns nc rows, numCoeffs := nc,
                          numSegments := ns, initialized := true }

def usesStaticOnly (p : PPoly α) : Bool :=
  match p.fixedOrder with
  | some o => o ≤ kStaticMax
  | none => false

/-- `buildDynamicDerivativeFactorTable` -/
def buildTable (nc : Nat) : List (List Nat) :=
  (List.range nc).map (fun n => (List.range nc).map (fun k => factorEntry n k))

def ensureTable (p : PPoly α) : PPoly α :=
  if p.factorReady then p else { p with factorTable := buildTable p.numCoeffs, factorReady := true }

/-- `derivativeFactor(n, k)`; returns the possibly updated object (dynamic table built on demand) -/
def derivativeFactor (p : PPoly α) (n k : Nat) : PPoly α × Nat :=
  if k > n then (p, 0)
  else if p.usesStaticOnly then (p, factorEntry n k)
  else if n < kStaticMax && p.numCoeffs ≤ kStaticMax then (p, factorEntry n k)
  else
    let p' := p.ensureTable
    (p', (p'.factorTable.getD n []).getD k 0)

/-- `buildDerivativeCoefficients` (the table is ensured once up front when needed) -/
def buildDerivCoeffs (p : PPoly α) : PPoly α :=
  if p.numSegments = 0 || p.numCoeffs = 0 then { p with derivCoeffs := [], derivReady := true }
  else
    let p1 := if !p.usesStaticOnly && p.numCoeffs > kStaticMax then p.ensureTable else p
    let nc := p1.numCoeffs
    let dc := (List.range nc).map (fun d =>
      p1.coeffs.map (fun seg =>
        (List.range (nc - d)).map (fun k =>
          let f := (p1.derivativeFactor (k + d) d).2
          vscale (lit f) (seg.getD (k + d) []))))
    { p1 with derivCoeffs := dc, derivReady := true }

def ensureDerivCoeffs (p : PPoly α) : PPoly α := if p.derivReady then p else p.buildDerivCoeffs

/-- Horner on the rows `[c₀, …, c_m]`: start from `c_m`, then `r ← r·t + c_k` downwards -/
def horner (t : α) : List (Vec α) → Vec α
  | [] => []
  | [c] => c
  | c :: rest => vmulAdd (horner t rest) t c

/-- `evaluateSegmentHorner` -/
def evalSegment (p : PPoly α) (seg : Nat) (t : α) (k : Int) : PPoly α × Vec α :=
  if k ≥ (p.numCoeffs : Int) || k < 0 then (p, vzero p.dim)
  else
    let p' := p.ensureDerivCoeffs
    let rows := (p'.derivCoeffs.getD k.toNat []).getD seg []
    (p', horner t rows)

/-- linear scan of `findSegment`: first `i` with `t < b[i+1]` -/
def scanLinear (t : α) : Nat → List α → Nat → Nat
  | i, _ :: rest, last =>
      match rest with
      | b1 :: _ => if NumOrd.lt t b1 then i else scanLinear t (i + 1) rest last
      | [] => last
  | _, [], last => last

/-- `std::upper_bound`: number of elements `≤ t` in a sorted list = index of first element `> t` -/
def upperBound (t : α) : List α → Nat
  | [] => 0
  | b :: rest => if NumOrd.lt t b then 0 else 1 + upperBound t rest

/-- `findSegment(t)` -/
def findSegment (p : PPoly α) (t : α) : Nat :=
  match p.breakpoints.head?, p.breakpoints.getLast? with
  | some b0, some bn =>
      if p.numSegments = 0 then 0
      else if NumOrd.le t b0 then 0
      else if NumOrd.le bn t then p.numSegments - 1
      else if p.numSegments < kLinearSearchThreshold then
        scanLinear t 0 p.breakpoints (p.numSegments - 1)
      else upperBound t p.breakpoints - 1
  | _, _ => 0

/-- `findSegment(t, hint)`; returns (index, new hint) -/
def findSegmentHint (p : PPoly α) (t : α) (hint : Int) : Nat × Int :=
  let fallback := let f := p.findSegment t; (f, (f : Int))
  if 0 ≤ hint && hint < (p.numSegments : Int) then
    let idx := hint.toNat
    match p.breakpoints.drop idx with
    | bi :: bi1 :: rest =>
        if NumOrd.le bi t && NumOrd.lt t bi1 then (idx, hint)
        else if idx + 1 < p.numSegments then
          match rest with
          | bi2 :: _ =>
              if NumOrd.le bi1 t && NumOrd.lt t bi2 then (idx + 1, hint + 1) else fallback
          | [] => fallback
        else fallback
    | _ => fallback
  else fallback

/-- `evaluate(t, k)` -/
def evaluate (p : PPoly α) (t : α) (k : Int) : PPoly α × Vec α :=
  if k ≥ (p.numCoeffs : Int) then (p, vzero p.dim)
  else
    let i := p.findSegment t
    let dt := t - p.breakpoints.getD i (lit 0)
    p.evalSegment i dt k

/-- `evaluate(t, &hint, k)`; the hint is untouched when `k ≥ numCoeffs` -/
def evaluateHint (p : PPoly α) (t : α) (hint : Int) (k : Int) : PPoly α × Vec α × Int :=
  if k ≥ (p.numCoeffs : Int) then (p, vzero p.dim, hint)
  else
    let (i, hint') := p.findSegmentHint t hint
    let dt := t - p.breakpoints.getD i (lit 0)
    let (p', v) := p.evalSegment i dt k
    (p', v, hint')

/-- batch overload -/
def evaluateBatch (p : PPoly α) (ts : List α) (k : Int) : PPoly α × List (Vec α) :=
  ts.foldl (fun (acc : PPoly α × List (Vec α)) t =>
    let (q, v) := acc.1.evaluate t k
    (q, acc.2 ++ [v])) (p, [])

/-- `at(idx)` throws exactly outside `[0, numSegments)` -/
def atOk (p : PPoly α) (idx : Int) : Bool := 0 ≤ idx && idx < (p.numSegments : Int)

/-- `derivative(k)`: a fresh object -/
def derivative (p : PPoly α) (k : Int) : PPoly α × PPoly α :=
  if p.numSegments = 0 then (p, empty p.dim p.fixedOrder)
  else if k ≥ (p.numCoeffs : Int) then
    (p, init (empty p.dim p.fixedOrder) p.breakpoints
          (List.replicate p.numSegments (vzero p.dim)) 1)
  else
    let kk := k.toNat
    let newOrder := p.numCoeffs - kk
    -- the factor lookups may build the dynamic table
    let p1 := if !p.usesStaticOnly && !(p.numCoeffs ≤ kStaticMax) then p.ensureTable else p
    let rows := p1.coeffs.flatMap (fun seg =>
      (List.range newOrder).map (fun j =>
        let f := (p1.derivativeFactor (j + kk) kk).2
        vscale (lit f) (seg.getD (j + kk) [])))
    (p1, init (empty p.dim p.fixedOrder) p.breakpoints rows (newOrder : Int))

/-- `zero(breakpoints, numCoefficients)` -/
def zero (dim : Nat) (fo : Option Nat) (bps : List α) (numCoefficients : Int) : PPoly α :=
  let ns := if bps.length > 1 then bps.length - 1 else 0
  let nrows := ((ns : Int) * numCoefficients).toNat
  init (empty dim fo) bps (List.replicate nrows (vzero dim)) numCoefficients

/-- `constant(breakpoints, value)` -/
def constant (dim : Nat) (fo : Option Nat) (bps : List α) (v : Vec α) : PPoly α :=
  let ns := if bps.length > 1 then bps.length - 1 else 0
  init (empty dim fo) bps (List.replicate ns v) 1

def startTime (p : PPoly α) : α := p.breakpoints.headD (lit 0)
def endTime (p : PPoly α) : α := p.breakpoints.getLastD (lit 0)

/-- `generateTimeSequence(start, end, dt)` (for `num_steps ≥ -1`; `reserve` of a negative count is UB) -/
def timeSequence (startT endT dt : α) : List α :=
  let duration := endT - startT
  let numSteps : Int := NumOrd.floor (duration / dt)
  let n : Nat := (numSteps + 1).toNat
  let seq := (List.range n).map (fun i => startT + lit i * dt)
  match seq.getLast? with
  | none => [endT]
  | some l =>
      let diff := l - endT
      let ad := if NumOrd.lt diff (lit 0) then -diff else diff
      -- 1e-6 is the double literal; the model compares with 1/10^6 (see Sampling notes)
      if NumOrd.lt (lit 1 / lit 1000000) ad then seq ++ [endT] else seq

/-- `getTrajectoryLength(start, end, dt)`: left-endpoint Riemann sum of speed over the time sequence -/
def trajLength (p : PPoly α) (sqrt : α → α) (startT endT dt : α) : PPoly α × α :=
  let seq := timeSequence startT endT dt
  let rec go (q : PPoly α) (acc : α) : List α → PPoly α × α
    | t0 :: t1 :: rest =>
        let (q', v) := q.evaluate t0 1
        go q' (acc + sqrt (dot v v) * (t1 - t0)) (t1 :: rest)
    | _ => (q, acc)
  go p (lit 0) seq

end PPoly
end ST
