import STModel.Block
/-!
# `QuinticSplineND`, per spatial coordinate
-/
namespace ST
variable {α : Type} [Num α]

/-- accumulate per-block (prev,curr,next) contributions into knot slots (length = #blocks + 2) -/
def oadd3Aux : α → α → List (α × α × α) → List α
  | c0, c1, [] => [c0, c1]
  | c0, c1, (a, b, c) :: rest => (c0 + a) :: oadd3Aux (c1 + b) c rest
def oadd3 (l : List (α × α × α)) : List α := oadd3Aux (lit 0) (lit 0) l

namespace Quintic

/-- `TimePowers` as `precomputeTimePowers` fills it -/
structure TP (α : Type) where
  h : α
  i1 : α
  i2 : α
  i3 : α
  i4 : α
  i5 : α
  i6 : α

def mkTP (h : α) : TP α :=
  let iv := lit 1 / h
  let iv2 := iv * iv
  let iv3 := iv2 * iv
  ⟨h, iv, iv2, iv3, iv3 * iv, iv3 * iv2, iv3 * iv3⟩

structure Seg (α : Type) where
  tp : TP α
  p0 : α
  dp : α

def mkSegs : List α → List α → List (Seg α)
  | h :: hs, p0 :: p1 :: ps => ⟨mkTP h, p0, p1 - p0⟩ :: mkSegs hs (p1 :: ps)
  | _, _ => []

/-- `D`, `L`, `U`, rhs of the block row of the knot between segments `sL` and `sR` -/
def blockD (L R : TP α) : M2 α :=
  ⟨(-(lit 192)) * (L.i3 + R.i3), lit 36 * (L.i2 - R.i2),
   (-(lit 36)) * (L.i2 - R.i2), lit 9 * (L.i1 + R.i1)⟩
def blockL (L : TP α) : M2 α :=
  ⟨(-(lit 168)) * L.i3, (-(lit 24)) * L.i2, (-(lit 24)) * L.i2, (-(lit 3)) * L.i1⟩
def blockU (R : TP α) : M2 α :=
  ⟨(-(lit 168)) * R.i3, lit 24 * R.i2, lit 24 * R.i2, (-(lit 3)) * R.i1⟩
def blockRhs (sL sR : Seg α) : V2 α :=
  ⟨(-(lit 360)) * (sR.dp * sR.tp.i4 + sL.dp * sL.tp.i4),
   lit 60 * (sR.dp * sR.tp.i3 - sL.dp * sL.tp.i3)⟩

/-- block rows; the first gets `- L·B_left`, the last `- U·B_right` (one block: both) -/
def rowsAux (bR : V2 α) : Bool → V2 α → Seg α → List (Seg α) → List (BRow (M2 α) (V2 α))
  | _, _, _, [] => []
  | first, bL, sL, sR :: rest =>
      let l := blockL sL.tp
      let u := blockU sR.tp
      let r0 := blockRhs sL sR
      let r1 := if first then V2.sub r0 (M2.act l bL) else r0
      let r2 := match rest with
                | [] => V2.sub r1 (M2.act u bR)
                | _ => r1
      ⟨l, blockD sL.tp sR.tp, u, r2⟩ :: rowsAux bR false bL sR rest

def rows (bL bR : V2 α) : List (Seg α) → List (BRow (M2 α) (V2 α))
  | [] => []
  | s :: rest => rowsAux bR true bL s rest

structure C6 (α : Type) where
  c0 : α
  c1 : α
  c2 : α
  c3 : α
  c4 : α
  c5 : α

def C6.toList (c : C6 α) : List α := [c.c0, c.c1, c.c2, c.c3, c.c4, c.c5]

/-- Hermite closure of one piece from the knot velocities / accelerations at both ends -/
def closeSeg (s : Seg α) (k0 k1 : V2 α) : C6 α :=
  let tp := s.tp
  let c1 := k0.x
  let c2 := k0.y * (lit 1 / lit 2)
  let rhs1 := s.dp - c1 * tp.h - c2 * (tp.h * tp.h)
  let rhs2 := k1.x - c1 - (lit 2 * c2) * tp.h
  let rhs3 := k1.y - (lit 2 * c2)
  ⟨s.p0, c1, c2,
   (lit 10 * tp.i3) * rhs1 - (lit 4 * tp.i2) * rhs2 + (lit 1 / lit 2 * tp.i1) * rhs3,
   ((-(lit 15)) * tp.i4) * rhs1 + (lit 7 * tp.i3) * rhs2 - (tp.i2) * rhs3,
   (lit 6 * tp.i5) * rhs1 - (lit 3 * tp.i4) * rhs2 + (lit 1 / lit 2 * tp.i3) * rhs3⟩

def closure : List (Seg α) → List (V2 α) → List (C6 α)
  | s :: rest, k0 :: k1 :: ks => closeSeg s k0 k1 :: closure rest (k1 :: ks)
  | _, _ => []

/-- everything `solveQuintic` leaves behind for one column -/
structure Built (α : Type) where
  segs : List (Seg α)
  facts : List (BFact (M2 α) (V2 α))
  knots : List (V2 α)           -- (velocity, acceleration) at every knot
  coeffs : List (C6 α)

def buildFull (h P : List α) (bL bR : V2 α) : Built α :=
  let segs := mkSegs h P
  let facts := bfwd none (rows bL bR segs)
  let inner := bback facts
  let knots := bL :: inner ++ [bR]
  ⟨segs, facts, knots, closure segs knots⟩

def build (h P : List α) (bL bR : V2 α) : List (C6 α) := (buildFull h P bL bR).coeffs

/-! ### energy -/

def energySeg (T : α) (c : C6 α) : α :=
  let T2 := T * T
  let T3 := T2 * T
  let T4 := T3 * T
  let T5 := T4 * T
  lit 36 * (c.c3 * c.c3) * T + lit 144 * (c.c4 * c.c3) * T2 + lit 192 * (c.c4 * c.c4) * T3
    + lit 240 * (c.c5 * c.c3) * T3 + lit 720 * (c.c5 * c.c4) * T4 + lit 720 * (c.c5 * c.c5) * T5

def energy : List α → List (C6 α) → α
  | T :: Ts, c :: cs => energySeg T c + energy Ts cs
  | _, _ => lit 0

def partialC (T : α) (c : C6 α) : C6 α :=
  let T2 := T * T
  let T3 := T2 * T
  let T4 := T3 * T
  let T5 := T4 * T
  ⟨lit 0, lit 0, lit 0,
   lit 72 * c.c3 * T + lit 144 * c.c4 * T2 + lit 240 * c.c5 * T3,
   lit 144 * c.c3 * T2 + lit 384 * c.c4 * T3 + lit 720 * c.c5 * T4,
   lit 240 * c.c3 * T3 + lit 720 * c.c4 * T4 + lit 1440 * c.c5 * T5⟩

def partialT (T : α) (c : C6 α) : α :=
  let jerkEnd := lit 6 * c.c3 + T * (lit 24 * c.c4 + (lit 60 * T) * c.c5)
  jerkEnd * jerkEnd

def gradTime (c : C6 α) : α :=
  (lit 0 - lit 36 * (c.c3 * c.c3)) + lit 96 * (c.c2 * c.c4) - lit 240 * (c.c1 * c.c5)

def gradInner : List (C6 α) → List α
  | cL :: cR :: cs => (lit 240 * (cL.c5 - cR.c5)) :: gradInner (cR :: cs)
  | _ => []

structure BGrad (α : Type) where
  p : α
  v : α
  a : α

def gradBoundary (Ts : List α) (cs : List (C6 α)) : BGrad α × BGrad α :=
  match cs.head?, cs.getLast?, Ts.getLast? with
  | some f, some l, some T =>
      let T2 := T * T
      let jerkEnd := lit 6 * l.c3 + lit 24 * l.c4 * T + lit 60 * l.c5 * T2
      let snapEnd := lit 24 * l.c4 + lit 120 * l.c5 * T
      let crackleEnd := lit 120 * l.c5
      (⟨(-(lit 240)) * f.c5, lit 48 * f.c4, (-(lit 12)) * f.c3⟩,
       ⟨lit 2 * crackleEnd, (-(lit 2)) * snapEnd, lit 2 * jerkEnd⟩)
  | _, _, _ => (⟨lit 0, lit 0, lit 0⟩, ⟨lit 0, lit 0, lit 0⟩)

/-! ### adjoint -/

/-- first loop, one segment: ((pointL, pointR), (gdL, gdR), time) -/
def seg1 (s : Seg α) (g : C6 α) (k0 k1 : V2 α) : (α × α) × (V2 α × V2 α) × α :=
  let tp := s.tp
  let sumP := g.c3 * (lit 10 * tp.i3) + g.c4 * ((-(lit 15)) * tp.i4) + g.c5 * (lit 6 * tp.i5)
  let gvC := g.c1 + g.c3 * ((-(lit 6)) * tp.i2) + g.c4 * (lit 8 * tp.i3) + g.c5 * ((-(lit 3)) * tp.i4)
  let gvN := g.c3 * ((-(lit 4)) * tp.i2) + g.c4 * (lit 7 * tp.i3) + g.c5 * ((-(lit 3)) * tp.i4)
  let gaC := g.c2 * litq 1 2 + g.c3 * ((-(litq 3 2)) * tp.i1) + g.c4 * (litq 3 2 * tp.i2)
              + g.c5 * ((-(litq 1 2)) * tp.i3)
  let gaN := g.c3 * (litq 1 2 * tp.i1) + g.c4 * ((-(lit 1)) * tp.i2) + g.c5 * (litq 1 2 * tp.i3)
  let dc3 := (-(lit 30)) * tp.i4 * s.dp + lit 12 * tp.i3 * k0.x + lit 8 * tp.i3 * k1.x
              + litq 3 2 * tp.i2 * k0.y - litq 1 2 * tp.i2 * k1.y
  let dc4 := lit 60 * tp.i5 * s.dp - lit 24 * tp.i4 * k0.x - lit 21 * tp.i4 * k1.x
              - lit 3 * tp.i3 * k0.y + lit 2 * tp.i3 * k1.y
  let dc5 := (-(lit 30)) * tp.i6 * s.dp + lit 12 * tp.i5 * k0.x + lit 12 * tp.i5 * k1.x
              + litq 3 2 * tp.i4 * k0.y - litq 3 2 * tp.i4 * k1.y
  ((g.c0 - sumP, sumP), (⟨gvC, gaC⟩, ⟨gvN, gaN⟩), g.c3 * dc3 + g.c4 * dc4 + g.c5 * dc5)

def loop1 : List (Seg α) → List (C6 α) → List (V2 α) → List ((α × α) × (V2 α × V2 α) × α)
  | s :: ss, g :: gs, k0 :: k1 :: ks => seg1 s g k0 k1 :: loop1 ss gs (k1 :: ks)
  | _, _, _ => []

def oaddV2Aux : V2 α → List (V2 α × V2 α) → List (V2 α)
  | carry, [] => [carry]
  | carry, (l, r) :: rest => V2.add carry l :: oaddV2Aux r rest
def oaddV2 (l : List (V2 α × V2 α)) : List (V2 α) := oaddV2Aux V2.zero l

/-- second loop, one block: ((pPrev, pCurr, pNext), (tL, tR)) -/
def block2 (sL sR : Seg α) (kp kc kn : V2 α) (lam : V2 α) : (α × α × α) × (α × α) :=
  let L := sL.tp
  let R := sR.tp
  let ls := lam.x
  let lj := lam.y
  let dD00L := lit 576 * L.i4
  let dD01L := (-(lit 72)) * L.i3
  let dD10L := lit 72 * L.i3
  let dD11L := (-(lit 9)) * L.i2
  let dL00 := lit 504 * L.i4
  let dL01 := lit 48 * L.i3
  let dL10 := lit 48 * L.i3
  let dL11 := lit 3 * L.i2
  let dD00R := lit 576 * R.i4
  let dD01R := lit 72 * R.i3
  let dD10R := (-(lit 72)) * R.i3
  let dD11R := (-(lit 9)) * R.i2
  let dU00 := lit 504 * R.i4
  let dU01 := (-(lit 48)) * R.i3
  let dU10 := (-(lit 48)) * R.i3
  let dU11 := lit 3 * R.i2
  let rhs0L := lit 1440 * sL.dp * L.i5 - (dD00L * kc.x + dD01L * kc.y + dL00 * kp.x + dL01 * kp.y)
  let rhs1L := lit 180 * sL.dp * L.i4 - (dD10L * kc.x + dD11L * kc.y + dL10 * kp.x + dL11 * kp.y)
  let rhs0R := lit 1440 * sR.dp * R.i5 - (dD00R * kc.x + dD01R * kc.y + dU00 * kn.x + dU01 * kn.y)
  let rhs1R := (-(lit 180)) * sR.dp * R.i4 - (dD10R * kc.x + dD11R * kc.y + dU10 * kn.x + dU11 * kn.y)
  let dr4n := (-(lit 360)) * R.i4
  let dr4c := lit 360 * (R.i4 - L.i4)
  let dr4p := lit 360 * L.i4
  let dr3n := lit 60 * R.i3
  let dr3c := (-(lit 60)) * (R.i3 + L.i3)
  let dr3p := lit 60 * L.i3
  ((ls * dr4p + lj * dr3p, ls * dr4c + lj * dr3c, ls * dr4n + lj * dr3n),
   (ls * rhs0L + lj * rhs1L, ls * rhs0R + lj * rhs1R))

def loop2 : List (Seg α) → List (V2 α) → List (V2 α) → List ((α × α × α) × (α × α))
  | sL :: sR :: ss, kp :: kc :: kn :: ks, lam :: lams =>
      block2 sL sR kp kc kn lam :: loop2 (sR :: ss) (kc :: kn :: ks) lams
  | _, _, _ => []

structure Grads (α : Type) where
  points : List α     -- start.p :: inner … :: end.p
  times : List α      -- this column's contribution
  start : V2 α        -- (∂/∂v₀, ∂/∂a₀)
  fin : V2 α

/-- `U` block of the last interior knot -/
def endU : Seg α → List (Seg α) → M2 α
  | _, [sR] => blockU sR.tp
  | _, sR :: s2 :: ss => endU sR (s2 :: ss)
  | s, [] => blockU s.tp

def propagate (b : Built α) (gs : List (C6 α)) : Grads α :=
  let l1 := loop1 b.segs gs b.knots
  let gd := oaddV2 (l1.map (·.2.1))
  let rawStart := gd.headD V2.zero
  let rawEnd := gd.getLastD V2.zero
  let lam := bsolveT b.facts (gd.tail.dropLast)
  let l2 := loop2 b.segs b.knots lam
  let pts := zipAdd (oadd (l1.map (·.1))) (oadd3 (l2.map (·.1)))
  let tms := zipAdd (l1.map (·.2.2)) (oadd (l2.map (·.2)))
  -- `L_blocks_cache_(0)` and `U_blocks_cache_(num_blocks-1)` hold the blocks of the first / last interior knot
  let (st, en) :=
    match b.segs with
    | s0 :: s1 :: rest =>
        (V2.sub rawStart (M2.actT (blockL s0.tp) (lam.headD V2.zero)),
         V2.sub rawEnd (M2.actT (endU s0 (s1 :: rest)) (lam.getLastD V2.zero)))
    | _ => (rawStart, rawEnd)
  { points := pts, times := tms, start := st, fin := en }

end Quintic
end ST
