import STModel.Quintic
/-!
# `SepticSplineND`, per spatial coordinate

The code has two textual variants of the duration-gradient formulas (`DIM <= 3`: scalar loop over
coordinates, `DIM > 3`: row-vector expressions); they are the same arithmetic per coordinate, which is
what this per-column model states.  The correspondence check runs both variants against it.
-/
namespace ST
variable {α : Type} [Num α]

namespace Septic

structure TP (α : Type) where
  h : α
  i1 : α
  i2 : α
  i3 : α
  i4 : α
  i5 : α
  i6 : α
  i7 : α

def mkTP (h : α) : TP α :=
  let iv := lit 1 / h
  let iv2 := iv * iv
  let iv3 := iv2 * iv
  let iv4 := iv3 * iv
  ⟨h, iv, iv2, iv3, iv4, iv4 * iv, iv4 * iv2, iv4 * iv3⟩

structure Seg (α : Type) where
  tp : TP α
  p0 : α
  dp : α

def mkSegs : List α → List α → List (Seg α)
  | h :: hs, p0 :: p1 :: ps => ⟨mkTP h, p0, p1 - p0⟩ :: mkSegs hs (p1 :: ps)
  | _, _ => []

def blockD (L R : TP α) : M3 α :=
  ⟨lit 480 * (L.i3 + R.i3), lit 120 * (R.i2 - L.i2), lit 16 * (L.i1 + R.i1),
   lit 5400 * (L.i4 - R.i4), (-(lit 1200)) * (L.i3 + R.i3), lit 120 * (L.i2 - R.i2),
   lit 25920 * (L.i5 + R.i5), lit 5400 * (R.i4 - L.i4), lit 480 * (L.i3 + R.i3)⟩
def blockL (L : TP α) : M3 α :=
  ⟨lit 360 * L.i3, lit 60 * L.i2, lit 4 * L.i1,
   lit 4680 * L.i4, lit 840 * L.i3, lit 60 * L.i2,
   lit 24480 * L.i5, lit 4680 * L.i4, lit 360 * L.i3⟩
def blockU (R : TP α) : M3 α :=
  ⟨lit 360 * R.i3, (-(lit 60)) * R.i2, lit 4 * R.i1,
   (-(lit 4680)) * R.i4, lit 840 * R.i3, (-(lit 60)) * R.i2,
   lit 24480 * R.i5, (-(lit 4680)) * R.i4, lit 360 * R.i3⟩
def blockRhs (sL sR : Seg α) : V3 α :=
  ⟨lit 840 * (sR.dp * sR.tp.i4 + sL.dp * sL.tp.i4),
   lit 10080 * ((-sR.dp) * sR.tp.i5 + sL.dp * sL.tp.i5),
   lit 50400 * (sR.dp * sR.tp.i6 + sL.dp * sL.tp.i6)⟩

def rowsAux (bR : V3 α) : Bool → V3 α → Seg α → List (Seg α) → List (BRow (M3 α) (V3 α))
  | _, _, _, [] => []
  | first, bL, sL, sR :: rest =>
      let l := blockL sL.tp
      let u := blockU sR.tp
      let r0 := blockRhs sL sR
      let r1 := if first then V3.sub r0 (M3.act l bL) else r0
      let r2 := match rest with
                | [] => V3.sub r1 (M3.act u bR)
                | _ => r1
      ⟨l, blockD sL.tp sR.tp, u, r2⟩ :: rowsAux bR false bL sR rest

def rows (bL bR : V3 α) : List (Seg α) → List (BRow (M3 α) (V3 α))
  | [] => []
  | s :: rest => rowsAux bR true bL s rest

structure C8 (α : Type) where
  c0 : α
  c1 : α
  c2 : α
  c3 : α
  c4 : α
  c5 : α
  c6 : α
  c7 : α

def C8.toList (c : C8 α) : List α := [c.c0, c.c1, c.c2, c.c3, c.c4, c.c5, c.c6, c.c7]

/-- closure of one piece from (velocity, acceleration, jerk) at both ends -/
def closeSeg (s : Seg α) (k0 k1 : V3 α) : C8 α :=
  let tp := s.tp
  let pd := -s.dp
  ⟨s.p0, k0.x, k0.y * (lit 1 / lit 2), k0.z / lit 6,
   (-(lit 210 * pd * tp.i4 + lit 120 * k0.x * tp.i3 + lit 90 * k1.x * tp.i3 + lit 30 * k0.y * tp.i2
      - lit 15 * k1.y * tp.i2 + lit 4 * k0.z * tp.i1 + k1.z * tp.i1)) / lit 6,
   (lit 168 * pd * tp.i5 + lit 90 * k0.x * tp.i4 + lit 78 * k1.x * tp.i4 + lit 20 * k0.y * tp.i3
      - lit 14 * k1.y * tp.i3 + lit 2 * k0.z * tp.i2 + k1.z * tp.i2) / lit 2,
   (-(lit 420 * pd * tp.i6 + lit 216 * k0.x * tp.i5 + lit 204 * k1.x * tp.i5 + lit 45 * k0.y * tp.i4
      - lit 39 * k1.y * tp.i4 + lit 4 * k0.z * tp.i3 + lit 3 * k1.z * tp.i3)) / lit 6,
   (lit 120 * pd * tp.i7 + lit 60 * k0.x * tp.i6 + lit 60 * k1.x * tp.i6 + lit 12 * k0.y * tp.i5
      - lit 12 * k1.y * tp.i5 + k0.z * tp.i4 + k1.z * tp.i4) / lit 6⟩

def closure : List (Seg α) → List (V3 α) → List (C8 α)
  | s :: rest, k0 :: k1 :: ks => closeSeg s k0 k1 :: closure rest (k1 :: ks)
  | _, _ => []

structure Built (α : Type) where
  segs : List (Seg α)
  facts : List (BFact (M3 α) (V3 α))
  knots : List (V3 α)
  coeffs : List (C8 α)

def buildFull (h P : List α) (bL bR : V3 α) : Built α :=
  let segs := mkSegs h P
  let facts := bfwd none (rows bL bR segs)
  let inner := bback facts
  let knots := bL :: inner ++ [bR]
  ⟨segs, facts, knots, closure segs knots⟩

def build (h P : List α) (bL bR : V3 α) : List (C8 α) := (buildFull h P bL bR).coeffs

/-! ### energy -/

def energySeg (T : α) (c : C8 α) : α :=
  let T2 := T * T
  let T3 := T2 * T
  let T4 := T3 * T
  let T5 := T4 * T
  let T6 := T4 * T2
  let T7 := T4 * T3
  lit 576 * (c.c4 * c.c4) * T + lit 2880 * (c.c4 * c.c5) * T2 + lit 4800 * (c.c5 * c.c5) * T3
    + lit 5760 * (c.c4 * c.c6) * T3 + lit 21600 * (c.c5 * c.c6) * T4 + lit 10080 * (c.c4 * c.c7) * T4
    + lit 25920 * (c.c6 * c.c6) * T5 + lit 40320 * (c.c5 * c.c7) * T5 + lit 100800 * (c.c6 * c.c7) * T6
    + lit 100800 * (c.c7 * c.c7) * T7

def energy : List α → List (C8 α) → α
  | T :: Ts, c :: cs => energySeg T c + energy Ts cs
  | _, _ => lit 0

def partialC (T : α) (c : C8 α) : C8 α :=
  let T2 := T * T
  let T3 := T2 * T
  let T4 := T3 * T
  let T5 := T4 * T
  let T6 := T5 * T
  let T7 := T6 * T
  ⟨lit 0, lit 0, lit 0, lit 0,
   lit 1152 * c.c4 * T + lit 2880 * c.c5 * T2 + lit 5760 * c.c6 * T3 + lit 10080 * c.c7 * T4,
   lit 2880 * c.c4 * T2 + lit 9600 * c.c5 * T3 + lit 21600 * c.c6 * T4 + lit 40320 * c.c7 * T5,
   lit 5760 * c.c4 * T3 + lit 21600 * c.c5 * T4 + lit 51840 * c.c6 * T5 + lit 100800 * c.c7 * T6,
   lit 10080 * c.c4 * T4 + lit 40320 * c.c5 * T5 + lit 100800 * c.c6 * T6 + lit 201600 * c.c7 * T7⟩

def partialT (T : α) (c : C8 α) : α :=
  let snapEnd := lit 24 * c.c4 + T * (lit 120 * c.c5 + T * (lit 360 * c.c6 + (lit 840 * T) * c.c7))
  snapEnd * snapEnd

def gradTime (c : C8 α) : α :=
  (lit 0 - lit 576 * (c.c4 * c.c4)) + lit 1440 * (c.c3 * c.c5) - lit 2880 * (c.c2 * c.c6)
    + lit 10080 * (c.c1 * c.c7)

def gradInner : List (C8 α) → List α
  | cL :: cR :: cs => (lit 10080 * (cR.c7 - cL.c7)) :: gradInner (cR :: cs)
  | _ => []

structure BGrad (α : Type) where
  p : α
  v : α
  a : α
  j : α

def gradBoundary (Ts : List α) (cs : List (C8 α)) : BGrad α × BGrad α :=
  match cs.head?, cs.getLast?, Ts.getLast? with
  | some f, some l, some T =>
      let T2 := T * T
      let T3 := T2 * T
      let snapEnd := lit 24 * l.c4 + lit 120 * l.c5 * T + lit 360 * l.c6 * T2 + lit 840 * l.c7 * T3
      let crackleEnd := lit 120 * l.c5 + lit 720 * l.c6 * T + lit 2520 * l.c7 * T2
      let popEnd := lit 720 * l.c6 + lit 5040 * l.c7 * T
      let d7End := lit 5040 * l.c7
      (⟨lit 10080 * f.c7, (-(lit 1440)) * f.c6, lit 240 * f.c5, (-(lit 48)) * f.c4⟩,
       ⟨(-(lit 2)) * d7End, lit 2 * popEnd, (-(lit 2)) * crackleEnd, lit 2 * snapEnd⟩)
  | _, _, _ => (⟨lit 0, lit 0, lit 0, lit 0⟩, ⟨lit 0, lit 0, lit 0, lit 0⟩)

/-! ### adjoint -/

def seg1 (s : Seg α) (g : C8 α) (k0 k1 : V3 α) : (α × α) × (V3 α × V3 α) × α :=
  let tp := s.tp
  let kP4 := (-(lit 210 * tp.i4)) / lit 6
  let kP5 := (lit 168 * tp.i5) / lit 2
  let kP6 := (-(lit 420 * tp.i6)) / lit 6
  let kP7 := (lit 120 * tp.i7) / lit 6
  let sumP := g.c4 * kP4 + g.c5 * kP5 + g.c6 * kP6 + g.c7 * kP7
  let gvC := g.c4 * ((-(lit 20)) * tp.i3) + g.c5 * (lit 45 * tp.i4) + g.c6 * ((-(lit 36)) * tp.i5)
              + g.c7 * (lit 10 * tp.i6)
  let gvN := g.c4 * ((-(lit 15)) * tp.i3) + g.c5 * (lit 39 * tp.i4) + g.c6 * ((-(lit 34)) * tp.i5)
              + g.c7 * (lit 10 * tp.i6)
  let gaC := g.c4 * ((-(lit 5)) * tp.i2) + g.c5 * (lit 10 * tp.i3) + g.c6 * ((-(litq 15 2)) * tp.i4)
              + g.c7 * (lit 2 * tp.i5)
  let gaN := g.c4 * (litq 5 2 * tp.i2) + g.c5 * ((-(lit 7)) * tp.i3) + g.c6 * (litq 13 2 * tp.i4)
              + g.c7 * ((-(lit 2)) * tp.i5)
  let gjC := g.c4 * ((-(lit 2)) / lit 3 * tp.i1) + g.c5 * (tp.i2) + g.c6 * ((-(lit 2)) / lit 3 * tp.i3)
              + g.c7 * (lit 1 / lit 6 * tp.i4)
  let gjN := g.c4 * ((-(lit 1)) / lit 6 * tp.i1) + g.c5 * (litq 1 2 * tp.i2) + g.c6 * ((-(litq 1 2)) * tp.i3)
              + g.c7 * (lit 1 / lit 6 * tp.i4)
  let gdL : V3 α := ⟨g.c1 + gvC, litq 1 2 * g.c2 + gaC, (lit 1 / lit 6) * g.c3 + gjC⟩
  let gdR : V3 α := ⟨gvN, gaN, gjN⟩
  let dPj := -s.dp
  let h8 := tp.i7 * tp.i1
  let dc4 := (lit 840 * dPj * tp.i5 + lit 360 * k0.x * tp.i4 + lit 270 * k1.x * tp.i4 + lit 60 * k0.y * tp.i3
              - lit 30 * k1.y * tp.i3 + lit 4 * k0.z * tp.i2 + k1.z * tp.i2) / lit 6
  let dc5 := ((-(lit 840)) * dPj * tp.i6 - lit 360 * k0.x * tp.i5 - lit 312 * k1.x * tp.i5 - lit 60 * k0.y * tp.i4
              + lit 42 * k1.y * tp.i4 - lit 4 * k0.z * tp.i3 - lit 2 * k1.z * tp.i3) / lit 2
  let dc6 := (lit 2520 * dPj * tp.i7 + lit 1080 * k0.x * tp.i6 + lit 1020 * k1.x * tp.i6 + lit 180 * k0.y * tp.i5
              - lit 156 * k1.y * tp.i5 + lit 12 * k0.z * tp.i4 + lit 9 * k1.z * tp.i4) / lit 6
  let dc7 := ((-(lit 840)) * dPj * h8 - lit 360 * k0.x * tp.i7 - lit 360 * k1.x * tp.i7 - lit 60 * k0.y * tp.i6
              + lit 60 * k1.y * tp.i6 - lit 4 * k0.z * tp.i5 - lit 4 * k1.z * tp.i5) / lit 6
  ((g.c0 + sumP, -sumP), (gdL, gdR), g.c4 * dc4 + g.c5 * dc5 + g.c6 * dc6 + g.c7 * dc7)

def loop1 : List (Seg α) → List (C8 α) → List (V3 α) → List ((α × α) × (V3 α × V3 α) × α)
  | s :: ss, g :: gs, k0 :: k1 :: ks => seg1 s g k0 k1 :: loop1 ss gs (k1 :: ks)
  | _, _, _ => []

def oaddV3Aux : V3 α → List (V3 α × V3 α) → List (V3 α)
  | carry, [] => [carry]
  | carry, (l, r) :: rest => V3.add carry l :: oaddV3Aux r rest
def oaddV3 (l : List (V3 α × V3 α)) : List (V3 α) := oaddV3Aux V3.zero l

def block2 (sL sR : Seg α) (kp kc kn : V3 α) (lam : V3 α) : (α × α × α) × (α × α) :=
  let L := sL.tp
  let R := sR.tp
  let l3 := lam.x
  let l4 := lam.y
  let l5 := lam.z
  let dD00L := (-(lit 1440)) * L.i4
  let dD01L := lit 240 * L.i3
  let dD02L := (-(lit 16)) * L.i2
  let dD10L := (-(lit 21600)) * L.i5
  let dD11L := lit 3600 * L.i4
  let dD12L := (-(lit 240)) * L.i3
  let dD20L := (-(lit 129600)) * L.i6
  let dD21L := lit 21600 * L.i5
  let dD22L := (-(lit 1440)) * L.i4
  let dL00 := (-(lit 1080)) * L.i4
  let dL01 := (-(lit 120)) * L.i3
  let dL02 := (-(lit 4)) * L.i2
  let dL10 := (-(lit 18720)) * L.i5
  let dL11 := (-(lit 2520)) * L.i4
  let dL12 := (-(lit 120)) * L.i3
  let dL20 := (-(lit 122400)) * L.i6
  let dL21 := (-(lit 18720)) * L.i5
  let dL22 := (-(lit 1080)) * L.i4
  let dD00R := (-(lit 1440)) * R.i4
  let dD01R := (-(lit 240)) * R.i3
  let dD02R := (-(lit 16)) * R.i2
  let dD10R := lit 21600 * R.i5
  let dD11R := lit 3600 * R.i4
  let dD12R := lit 240 * R.i3
  let dD20R := (-(lit 129600)) * R.i6
  let dD21R := (-(lit 21600)) * R.i5
  let dD22R := (-(lit 1440)) * R.i4
  let dU00 := (-(lit 1080)) * R.i4
  let dU01 := lit 120 * R.i3
  let dU02 := (-(lit 4)) * R.i2
  let dU10 := lit 18720 * R.i5
  let dU11 := (-(lit 2520)) * R.i4
  let dU12 := lit 120 * R.i3
  let dU20 := (-(lit 122400)) * R.i6
  let dU21 := lit 18720 * R.i5
  let dU22 := (-(lit 1080)) * R.i4
  let rhs0L := (-(lit 3360)) * sL.dp * L.i5
      - (dD00L * kc.x + dD01L * kc.y + dD02L * kc.z + dL00 * kp.x + dL01 * kp.y + dL02 * kp.z)
  let rhs1L := (-(lit 50400)) * sL.dp * L.i6
      - (dD10L * kc.x + dD11L * kc.y + dD12L * kc.z + dL10 * kp.x + dL11 * kp.y + dL12 * kp.z)
  let rhs2L := (-(lit 302400)) * sL.dp * L.i7
      - (dD20L * kc.x + dD21L * kc.y + dD22L * kc.z + dL20 * kp.x + dL21 * kp.y + dL22 * kp.z)
  let rhs0R := (-(lit 3360)) * sR.dp * R.i5
      - (dD00R * kc.x + dD01R * kc.y + dD02R * kc.z + dU00 * kn.x + dU01 * kn.y + dU02 * kn.z)
  let rhs1R := (-(lit 50400)) * (-sR.dp) * R.i6
      - (dD10R * kc.x + dD11R * kc.y + dD12R * kc.z + dU10 * kn.x + dU11 * kn.y + dU12 * kn.z)
  let rhs2R := (-(lit 302400)) * sR.dp * R.i7
      - (dD20R * kc.x + dD21R * kc.y + dD22R * kc.z + dU20 * kn.x + dU21 * kn.y + dU22 * kn.z)
  let dr3n := lit 840 * R.i4
  let dr4n := (-(lit 10080)) * R.i5
  let dr5n := lit 50400 * R.i6
  let dr3c := (-(lit 840)) * (R.i4 - L.i4)
  let dr4c := lit 10080 * (R.i5 + L.i5)
  let dr5c := (-(lit 50400)) * (R.i6 - L.i6)
  let dr3p := (-(lit 840)) * L.i4
  let dr4p := (-(lit 10080)) * L.i5
  let dr5p := (-(lit 50400)) * L.i6
  ((l3 * dr3p + l4 * dr4p + l5 * dr5p, l3 * dr3c + l4 * dr4c + l5 * dr5c, l3 * dr3n + l4 * dr4n + l5 * dr5n),
   (l3 * rhs0L + l4 * rhs1L + l5 * rhs2L, l3 * rhs0R + l4 * rhs1R + l5 * rhs2R))

def loop2 : List (Seg α) → List (V3 α) → List (V3 α) → List ((α × α × α) × (α × α))
  | sL :: sR :: ss, kp :: kc :: kn :: ks, lam :: lams =>
      block2 sL sR kp kc kn lam :: loop2 (sR :: ss) (kc :: kn :: ks) lams
  | _, _, _ => []

structure Grads (α : Type) where
  points : List α
  times : List α
  start : V3 α        -- (∂/∂v₀, ∂/∂a₀, ∂/∂j₀)
  fin : V3 α

/-- `U` block of the last interior knot -/
def endU : Seg α → List (Seg α) → M3 α
  | _, [sR] => blockU sR.tp
  | _, sR :: s2 :: ss => endU sR (s2 :: ss)
  | s, [] => blockU s.tp

def propagate (b : Built α) (gs : List (C8 α)) : Grads α :=
  let l1 := loop1 b.segs gs b.knots
  let gd := oaddV3 (l1.map (·.2.1))
  let rawStart := gd.headD V3.zero
  let rawEnd := gd.getLastD V3.zero
  let lam := bsolveT b.facts (gd.tail.dropLast)
  let l2 := loop2 b.segs b.knots lam
  let pts := zipAdd (oadd (l1.map (·.1))) (oadd3 (l2.map (·.1)))
  let tms := zipAdd (l1.map (·.2.2)) (oadd (l2.map (·.2)))
  -- `L_blocks_cache_(0)` and `U_blocks_cache_(num_blocks-1)` hold the blocks of the first / last interior knot
  let (st, en) :=
    match b.segs with
    | s0 :: s1 :: rest =>
        (V3.sub rawStart (M3.actT (blockL s0.tp) (lam.headD V3.zero)),
         V3.sub rawEnd (M3.actT (endU s0 (s1 :: rest)) (lam.getLastD V3.zero)))
    | _ => (rawStart, rawEnd)
  { points := pts, times := tms, start := st, fin := en }

end Septic
end ST
