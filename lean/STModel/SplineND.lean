import STModel.Cubic
import STModel.Septic
import STModel.PPoly
/-!
# D-dimensional splines as stacks of columns, with a uniform interface over the three orders

`buildND` &c. split waypoints / boundary states into their D coordinate columns, run the
per-column model of the chosen order, and re-assemble row-major results exactly as the C++ lays them
out (`coeffs_` rows = segment·COEFF_NUM + power, columns = coordinates).
-/
namespace ST
variable {α : Type} [Num α]

inductive Order where
  | cubic | quintic | septic
deriving DecidableEq, Repr

def Order.coeffNum : Order → Nat
  | .cubic => 4 | .quintic => 6 | .septic => 8
/-- the template constant `ORDER` (3, 5, 7) -/
def Order.degree : Order → Nat
  | .cubic => 3 | .quintic => 5 | .septic => 7

/-- `BoundaryConditions<DIM>` -/
structure BC (α : Type) where
  v0 : Vec α
  a0 : Vec α
  j0 : Vec α
  vn : Vec α
  an : Vec α
  jn : Vec α

def BC.zero (d : Nat) : BC α := ⟨vzero d, vzero d, vzero d, vzero d, vzero d, vzero d⟩

/-- boundary-state gradient record (unused fields of lower orders stay zero) -/
structure BGradND (α : Type) where
  p : Vec α
  v : Vec α
  a : Vec α
  j : Vec α

/-- `Gradients` -/
structure GradsND (α : Type) where
  inner : List (Vec α)
  times : List α
  start : BGradND α
  fin : BGradND α

/-- one column's worth of everything a built spline publishes -/
structure Col (α : Type) where
  coeffs : List (List α)            -- [segment][power]
  energy : α
  partialC : List (List α)          -- [segment][power]
  partialT : List α
  gradTimes : List α
  gradInner : List α
  gbStart : List α                  -- [p, v, a, j] (padded with zeros)
  gbEnd : List α

def cumulative (t0 : α) : List α → List α
  | [] => [t0]
  | h :: hs => t0 :: cumulative (t0 + h) hs

/-- `convertTimePointsToSegments` -/
def diffs : List α → List α
  | t0 :: t1 :: ts => (t1 - t0) :: diffs (t1 :: ts)
  | _ => []

def colCubic (h P : List α) (v0 vn : α) : Col α :=
  let cs := Cubic.build h P v0 vn
  let (s, e) := Cubic.gradBoundary h cs
  { coeffs := cs.map Cubic.C4.toList, energy := Cubic.energy h cs,
    partialC := (List.zipWith Cubic.partialC h cs).map Cubic.C4.toList,
    partialT := List.zipWith Cubic.partialT h cs,
    gradTimes := cs.map Cubic.gradTime, gradInner := Cubic.gradInner cs,
    gbStart := [s.p, s.v, lit 0, lit 0], gbEnd := [e.p, e.v, lit 0, lit 0] }

def colQuintic (h P : List α) (bL bR : V2 α) : Col α :=
  let cs := Quintic.build h P bL bR
  let (s, e) := Quintic.gradBoundary h cs
  { coeffs := cs.map Quintic.C6.toList, energy := Quintic.energy h cs,
    partialC := (List.zipWith Quintic.partialC h cs).map Quintic.C6.toList,
    partialT := List.zipWith Quintic.partialT h cs,
    gradTimes := cs.map Quintic.gradTime, gradInner := Quintic.gradInner cs,
    gbStart := [s.p, s.v, s.a, lit 0], gbEnd := [e.p, e.v, e.a, lit 0] }

def colSeptic (h P : List α) (bL bR : V3 α) : Col α :=
  let cs := Septic.build h P bL bR
  let (s, e) := Septic.gradBoundary h cs
  { coeffs := cs.map Septic.C8.toList, energy := Septic.energy h cs,
    partialC := (List.zipWith Septic.partialC h cs).map Septic.C8.toList,
    partialT := List.zipWith Septic.partialT h cs,
    gradTimes := cs.map Septic.gradTime, gradInner := Septic.gradInner cs,
    gbStart := [s.p, s.v, s.a, s.j], gbEnd := [e.p, e.v, e.a, e.j] }

def getC (v : Vec α) (j : Nat) : α := v.getD j (lit 0)

def colOf (o : Order) (h : List α) (P : List (Vec α)) (bc : BC α) (j : Nat) : Col α :=
  let Pj := P.map (fun r => getC r j)
  match o with
  | .cubic => colCubic h Pj (getC bc.v0 j) (getC bc.vn j)
  | .quintic => colQuintic h Pj ⟨getC bc.v0 j, getC bc.a0 j⟩ ⟨getC bc.vn j, getC bc.an j⟩
  | .septic => colSeptic h Pj ⟨getC bc.v0 j, getC bc.a0 j, getC bc.j0 j⟩ ⟨getC bc.vn j, getC bc.an j, getC bc.jn j⟩

/-- sum of lists of equal length -/
def sumLists (n : Nat) (ls : List (List α)) : List α :=
  ls.foldl zipAdd (List.replicate n (lit 0))

/-- what a D-dimensional spline object publishes -/
structure SplineND (α : Type) where
  dim : Nat
  order : Order
  h : List α
  cum : List α
  coeffs : List (List (Vec α))        -- [segment][power] ↦ D-vector
  energy : α
  partialC : List (List (Vec α))
  partialT : List α
  energyGrad : GradsND α

/-- stack per-column [segment][power] tables into [segment][power] ↦ D-vector -/
def stack (nseg nc : Nat) (cols : List (List (List α))) : List (List (Vec α)) :=
  (List.range nseg).map (fun i => (List.range nc).map (fun k =>
    cols.map (fun c => (c.getD i []).getD k (lit 0))))

def buildND (o : Order) (d : Nat) (h : List α) (P : List (Vec α)) (t0 : α) (bc : BC α) : SplineND α :=
  let cols := (List.range d).map (colOf o h P bc)
  let n := h.length
  let nc := o.coeffNum
  let bnd (f : Col α → List α) (k : Nat) : Vec α := cols.map (fun c => (f c).getD k (lit 0))
  { dim := d, order := o, h := h, cum := cumulative t0 h,
    coeffs := stack n nc (cols.map (·.coeffs)),
    energy := sum (cols.map (·.energy)),
    partialC := stack n nc (cols.map (·.partialC)),
    partialT := sumLists n (cols.map (·.partialT)),
    energyGrad :=
      { inner := (List.range (n - 1)).map (fun i => cols.map (fun c => c.gradInner.getD i (lit 0))),
        times := sumLists n (cols.map (·.gradTimes)),
        start := ⟨bnd (·.gbStart) 0, bnd (·.gbStart) 1, bnd (·.gbStart) 2, bnd (·.gbStart) 3⟩,
        fin := ⟨bnd (·.gbEnd) 0, bnd (·.gbEnd) 1, bnd (·.gbEnd) 2, bnd (·.gbEnd) 3⟩ } }

/-- time-point constructor / update overload -/
def buildNDtp (o : Order) (d : Nat) (tps : List α) (P : List (Vec α)) (bc : BC α) : SplineND α :=
  buildND o d (diffs tps) P (tps.headD (lit 0)) bc

/-- one column of `propagateGrad`: (points [N+1], times [N], start [v,a,j], end [v,a,j]) -/
def propCol (o : Order) (h : List α) (P : List (Vec α)) (bc : BC α) (gC : List (List (Vec α))) (j : Nat) :
    List α × List α × List α × List α :=
  let Pj := P.map (fun r => getC r j)
  let g (i k : Nat) : α := getC ((gC.getD i []).getD k []) j
  let n := h.length
  match o with
  | .cubic =>
      let segs := Cubic.mkSegs h Pj
      let ms := Cubic.knotM (getC bc.v0 j) (getC bc.vn j) segs
      let gs := (List.range n).map (fun i => (⟨g i 0, g i 1, g i 2, g i 3⟩ : Cubic.C4 α))
      let r := Cubic.propagate (getC bc.v0 j) (getC bc.vn j) segs ms gs
      (r.points, r.times, [r.v0, lit 0, lit 0], [r.vn, lit 0, lit 0])
  | .quintic =>
      let b := Quintic.buildFull h Pj ⟨getC bc.v0 j, getC bc.a0 j⟩ ⟨getC bc.vn j, getC bc.an j⟩
      let gs := (List.range n).map (fun i => (⟨g i 0, g i 1, g i 2, g i 3, g i 4, g i 5⟩ : Quintic.C6 α))
      let r := Quintic.propagate b gs
      (r.points, r.times, [r.start.x, r.start.y, lit 0], [r.fin.x, r.fin.y, lit 0])
  | .septic =>
      let b := Septic.buildFull h Pj ⟨getC bc.v0 j, getC bc.a0 j, getC bc.j0 j⟩
                  ⟨getC bc.vn j, getC bc.an j, getC bc.jn j⟩
      let gs := (List.range n).map (fun i =>
        (⟨g i 0, g i 1, g i 2, g i 3, g i 4, g i 5, g i 6, g i 7⟩ : Septic.C8 α))
      let r := Septic.propagate b gs
      (r.points, r.times, [r.start.x, r.start.y, r.start.z], [r.fin.x, r.fin.y, r.fin.z])

/-- `propagateGrad(partialGradByCoeffs, partialGradByTimes)` -/
def propagateND (o : Order) (d : Nat) (h : List α) (P : List (Vec α)) (bc : BC α)
    (gC : List (List (Vec α))) (gT : List α) : GradsND α :=
  let cols := (List.range d).map (propCol o h P bc gC)
  let n := h.length
  let pt (i : Nat) : Vec α := cols.map (fun c => c.1.getD i (lit 0))
  let bs (k : Nat) : Vec α := cols.map (fun c => c.2.2.1.getD k (lit 0))
  let be (k : Nat) : Vec α := cols.map (fun c => c.2.2.2.getD k (lit 0))
  { inner := (List.range (n - 1)).map (fun i => pt (i + 1)),
    times := zipAdd gT (sumLists n (cols.map (·.2.1))),
    start := ⟨pt 0, bs 0, bs 1, bs 2⟩,
    fin := ⟨pt n, be 0, be 1, be 2⟩ }

/-- the trajectory the spline publishes (`initializePPoly`) -/
def SplineND.ppoly [NumOrd α] (s : SplineND α) : PPoly α :=
  PPoly.init (PPoly.empty s.dim (some s.order.coeffNum)) s.cum (s.coeffs.flatMap id) (s.order.coeffNum : Int)

end ST
