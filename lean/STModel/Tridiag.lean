import STModel.Num
/-!
# Scalar tridiagonal elimination (`CubicSplineND::computeLUAndSolve`, `solveWithCachedLU`)

Rows are `(a, b, c | d)`: lower, main, upper, right-hand side.  `fwd` is the forward sweep exactly as
the code performs it (`inv = 1/denom; c' = upper*inv; d' = (d - lower*d'prev)*inv`), `back` the back
substitution `x_i = d'_i - c'_i x_{i+1}`.
-/
namespace ST
variable {α : Type} [Num α]

structure Row (α : Type) where
  a : α
  b : α
  c : α
  d : α

def fwd : Option (α × α) → List (Row α) → List (α × α)
  | _, [] => []
  | none, r :: rs =>
      let inv := lit 1 / r.b
      let cp := r.c * inv
      let dp := r.d * inv
      (cp, dp) :: fwd (some (cp, dp)) rs
  | some (cp0, dp0), r :: rs =>
      let inv := lit 1 / (r.b - r.a * cp0)
      let cp := r.c * inv
      let dp := (r.d - r.a * dp0) * inv
      (cp, dp) :: fwd (some (cp, dp)) rs

def back : List (α × α) → List α
  | [] => []
  | (cp, dp) :: rest =>
      let xs := back rest
      match xs with
      | [] => [dp]
      | x :: _ => (dp - cp * x) :: xs

def thomas (rows : List (Row α)) : List α := back (fwd none rows)

/-- same matrix, other right-hand side (`solveWithCachedLU` re-uses the cached `1/denom`, `c'`) -/
def withRhs : List (Row α) → List α → List (Row α)
  | r :: rs, x :: xs => ⟨r.a, r.b, r.c, x⟩ :: withRhs rs xs
  | _, _ => []

end ST
