import STModel.Optimizer
/-!
# Validation verdicts (`setInitState`, `checkValidity`, `isValid`, `getLastError`)

Inputs are extended values: a finite scalar, `+∞`, `−∞` or NaN — the only thing validation looks at
besides the one-millisecond threshold.
-/
namespace ST
variable {α : Type}

inductive Ext (α : Type) where
  | fin : α → Ext α
  | pinf | ninf | nan
deriving Repr

def Ext.isFinite : Ext α → Bool
  | .fin _ => true
  | _ => false

/-- IEEE subtraction on the extended values (overflow of finite − finite is outside the model) -/
def Ext.sub [Num α] : Ext α → Ext α → Ext α
  | .fin a, .fin b => .fin (a - b)
  | .nan, _ => .nan
  | _, .nan => .nan
  | .pinf, .pinf => .nan
  | .ninf, .ninf => .nan
  | .pinf, _ => .pinf
  | .ninf, _ => .ninf
  | .fin _, .pinf => .ninf
  | .fin _, .ninf => .pinf

/-- the double literal `MIN_VALID_DURATION = 1e-3`, exactly: 1152921504606847 / 2^60 -/
def minValidDuration [Num α] : α := lit 1152921504606847 / lit 1152921504606846976

inductive VErr where
  | segCount | timesSize | waypointRows | startTime
  | timeNotFinite (i : Nat) | timeTooSmall (i : Nat) | waypointRow (i : Nat)
  | startVel | endVel | startAcc | endAcc | startJerk | endJerk
deriving DecidableEq, Repr

/-- raw problem as handed to `setInitState(time_segments, waypoints, start_time, bc)` -/
structure RawProblem (α : Type) where
  times : List (Ext α)
  waypoints : List (List (Ext α))     -- rows
  startTime : Ext α
  v0 : List (Ext α)
  a0 : List (Ext α)
  j0 : List (Ext α)
  vn : List (Ext α)
  an : List (Ext α)
  jn : List (Ext α)

def allFinite (v : List (Ext α)) : Bool := v.all Ext.isFinite

def enumFrom {β : Type} : Nat → List β → List (Nat × β)
  | _, [] => []
  | i, x :: xs => (i, x) :: enumFrom (i + 1) xs

/-- the error list `checkValidity` aggregates, in the code's order -/
def validityErrors [NumOrd α] (o : Order) (r : RawProblem α) : List VErr :=
  let n := r.times.length
  (if n = 0 then [VErr.segCount] else []) ++
  (if r.waypoints.length ≠ n + 1 then [VErr.waypointRows] else []) ++
  (if !r.startTime.isFinite then [VErr.startTime] else []) ++
  (enumFrom 0 r.times).filterMap (fun (i, t) =>
      match t with
      | .fin x => if NumOrd.lt x minValidDuration then some (VErr.timeTooSmall i) else none
      | _ => some (VErr.timeNotFinite i)) ++
  (enumFrom 0 r.waypoints).filterMap (fun (i, row) => if allFinite row then none else some (VErr.waypointRow i)) ++
  (if allFinite r.v0 then [] else [VErr.startVel]) ++
  (if allFinite r.vn then [] else [VErr.endVel]) ++
  (if o.degree ≥ 5 then
     (if allFinite r.a0 then [] else [VErr.startAcc]) ++ (if allFinite r.an then [] else [VErr.endAcc])
   else []) ++
  (if o.degree ≥ 7 then
     (if allFinite r.j0 then [] else [VErr.startJerk]) ++ (if allFinite r.jn then [] else [VErr.endJerk])
   else [])

/-- validation state of an optimizer object -/
structure VState where
  isValid : Bool := false
  msgNonEmpty : Bool := false
  errCount : Nat := 0
deriving DecidableEq, Repr

/-- `setInitState(time_segments, …)`: clears the message, validates, stores the verdict -/
def setInitState [NumOrd α] (o : Order) (_s : VState) (r : RawProblem α) : VState × Bool :=
  let errs := validityErrors o r
  let ok := errs.isEmpty
  (⟨ok, !ok, errs.length⟩, ok)

/-- `setInitState(t_points, …)` -/
def setInitStateTP [NumOrd α] (o : Order) (s : VState) (tps : List (Ext α)) (r : RawProblem α) : VState × Bool :=
  match tps with
  | [] => (⟨false, true, 0⟩, false)
  | t0 :: _ =>
      let rec df : List (Ext α) → List (Ext α)
        | a :: b :: rest => Ext.sub b a :: df (b :: rest)
        | _ => []
      setInitState o s { r with times := df tps, startTime := t0 }

end ST
