import STModel
import Mathlib.Tactic.Ring
import Mathlib.Tactic.FieldSimp
import Mathlib.Tactic.LinearCombination
import Mathlib.Algebra.Field.Basic
import Mathlib.Algebra.Order.Field.Basic
/-!
# Scalars of the theorems

`DivRing R`: a commutative ring with a partial division (`a / b * b = a` for "units" `b`).  Every field
is one (`U b ↔ b ≠ 0`) and so are the dual numbers `Dual K` over a field (`U b ↔ b.re ≠ 0`).  The model's
`Num` instance derived from a `DivRing` is the one every theorem is stated with; `numRat_eq` and
`numDualRat_eq` show that the *executable* instances the driver runs at `Rat` and `Dual Rat` perform the
same operations.
-/
open ST

namespace ST
namespace Dual
variable {K : Type} [Field K]
@[ext] theorem ext' {a b : Dual K} (h1 : a.re = b.re) (h2 : a.du = b.du) : a = b := by
  cases a; cases b; simp_all
instance : Zero (Dual K) := ⟨⟨0, 0⟩⟩
instance : One (Dual K) := ⟨⟨1, 0⟩⟩
instance : NatCast (Dual K) := ⟨fun n => ⟨n, 0⟩⟩
instance : IntCast (Dual K) := ⟨fun n => ⟨n, 0⟩⟩
@[simp] theorem add_re (a b : Dual K) : (a + b).re = a.re + b.re := rfl
@[simp] theorem add_du (a b : Dual K) : (a + b).du = a.du + b.du := rfl
@[simp] theorem sub_re (a b : Dual K) : (a - b).re = a.re - b.re := rfl
@[simp] theorem sub_du (a b : Dual K) : (a - b).du = a.du - b.du := rfl
@[simp] theorem neg_re (a : Dual K) : (-a).re = -a.re := rfl
@[simp] theorem neg_du (a : Dual K) : (-a).du = -a.du := rfl
@[simp] theorem mul_re (a b : Dual K) : (a * b).re = a.re * b.re := rfl
@[simp] theorem mul_du (a b : Dual K) : (a * b).du = a.re * b.du + a.du * b.re := rfl
@[simp] theorem div_re (a b : Dual K) : (a / b).re = a.re / b.re := rfl
@[simp] theorem div_du (a b : Dual K) : (a / b).du = (a.du * b.re - a.re * b.du) / (b.re * b.re) := rfl
@[simp] theorem zero_re : (0 : Dual K).re = 0 := rfl
@[simp] theorem zero_du : (0 : Dual K).du = 0 := rfl
@[simp] theorem one_re : (1 : Dual K).re = 1 := rfl
@[simp] theorem one_du : (1 : Dual K).du = 0 := rfl
@[simp] theorem natCast_re (n : ℕ) : (n : Dual K).re = n := rfl
@[simp] theorem natCast_du (n : ℕ) : (n : Dual K).du = 0 := rfl
@[simp] theorem intCast_re (n : ℤ) : (n : Dual K).re = n := rfl
@[simp] theorem intCast_du (n : ℤ) : (n : Dual K).du = 0 := rfl

instance : CommRing (Dual K) where
  add_assoc a b c := by ext <;> simp <;> ring
  zero_add a := by ext <;> simp
  add_zero a := by ext <;> simp
  add_comm a b := by ext <;> simp <;> ring
  neg_add_cancel a := by ext <;> simp
  sub_eq_add_neg a b := by ext <;> simp <;> ring
  mul_assoc a b c := by ext <;> simp <;> ring
  one_mul a := by ext <;> simp
  mul_one a := by ext <;> simp
  left_distrib a b c := by ext <;> simp <;> ring
  right_distrib a b c := by ext <;> simp <;> ring
  mul_comm a b := by ext <;> simp <;> ring
  zero_mul a := by ext <;> simp
  mul_zero a := by ext <;> simp
  nsmul := nsmulRec
  zsmul := zsmulRec
  natCast_zero := by ext <;> simp
  natCast_succ n := by ext <;> simp
  intCast_ofNat n := by ext <;> simp
  intCast_negSucc n := by ext <;> simp <;> ring

@[simp] theorem ofNat_re (n : ℕ) [n.AtLeastTwo] : (OfNat.ofNat n : Dual K).re = (OfNat.ofNat n : K) := by
  rw [← Nat.cast_ofNat (R := Dual K), ← Nat.cast_ofNat (R := K)]; rfl
@[simp] theorem ofNat_du (n : ℕ) [n.AtLeastTwo] : (OfNat.ofNat n : Dual K).du = 0 := by
  rw [← Nat.cast_ofNat (R := Dual K)]; rfl
end Dual
end ST

/-- what fields and dual numbers share -/
class DivRing (R : Type) extends CommRing R, Div R where
  U : R → Prop
  div_mul : ∀ (a b : R), U b → a / b * b = a

instance fieldDivRing {K : Type} [Field K] : DivRing K where
  U b := b ≠ 0
  div_mul a b hb := div_mul_cancel₀ a hb

instance dualDivRing {K : Type} [Field K] : DivRing (Dual K) where
  U b := b.re ≠ 0
  div_mul a b hb := by
    ext
    · simp; field_simp
    · simp; field_simp; ring

/-- the `Num` instance the theorems are stated with -/
@[reducible] instance (priority := high) drNum {R : Type} [DivRing R] : Num R := { ofNat := fun n => (n : R) }
@[simp] theorem lit_eq {R : Type} [DivRing R] (n : Nat) : (lit n : R) = (n : R) := rfl

@[simp ↓] theorem lit_re {K : Type} [Field K] (n : ℕ) : (lit n : Dual K).re = (n : K) := rfl
@[simp ↓] theorem lit_du {K : Type} [Field K] (n : ℕ) : (lit n : Dual K).du = 0 := rfl

/-- project every dual-number operation on its real / dual part -/
macro "dual_proj" : tactic => `(tactic| simp only [ST.Dual.add_re, ST.Dual.add_du, ST.Dual.sub_re, ST.Dual.sub_du,
  ST.Dual.mul_re, ST.Dual.mul_du, ST.Dual.neg_re, ST.Dual.neg_du, ST.Dual.div_re, ST.Dual.div_du, ST.Dual.zero_re,
  ST.Dual.zero_du, ST.Dual.one_re, ST.Dual.one_du, lit_re, lit_du])

/-! ### instance coherence: what the driver executes is what the theorems talk about -/

/-- the executable `Num Rat` instance of the model is (definitionally) the instance derived from the field ℚ -/
theorem numRat_eq : (instNumRat : Num ℚ) = drNum := rfl

/-- the model's `Num (Dual β)` instance, at a field, is the instance the theorems use
(the only difference is the spelling `((0:ℕ):K)` vs `0` of the tangent of a numeral) -/
theorem dualNum_eq {K : Type} [Field K] : (@dualNum K drNum : Num (Dual K)) = drNum := by
  have h : (@dualNum K drNum).ofNat = (drNum : Num (Dual K)).ofNat := by
    funext n
    show (⟨(n : K), ((0 : ℕ) : K)⟩ : Dual K) = ((n : ℕ) : Dual K)
    ext <;> simp
  unfold dualNum drNum at *
  simp only at h ⊢
  congr

/-- in particular the executable instance at `Dual ℚ` -/
theorem numDualRat_eq : (@dualNum ℚ instNumRat : Num (Dual ℚ)) = drNum := dualNum_eq
