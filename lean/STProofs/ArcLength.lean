import STProofs.PPolyRoutes
import Mathlib.MeasureTheory.Integral.IntervalIntegral.FundThmCalculus
import Mathlib.Analysis.Normed.Module.Basic
/-!
# C20 — the reported trajectory length is a left-endpoint Riemann sum of speed, and its error bound

* `trajLength_eq_riemann` : for every cache state (`CacheInv`), `getTrajectoryLength(start, end, dt)` of the model is
  `Σ_i speed(t_i)·(t_{i+1} − t_i)` over the generated time sequence, with `speed(t) = sqrt ⟨v(t), v(t)⟩` and `v` the
  first-derivative evaluation;
* `riemann_error_bound` : for any curve with velocity `v` and continuous acceleration `a = v'` (in any complete normed
  space) and any non-decreasing sample sequence with steps `≤ δ`,
  `|Σ ‖v(t_i)‖ (t_{i+1} − t_i) − ∫ ‖v‖| ≤ δ · ∫ ‖a‖`.
-/
open ST

section model
variable {K : Type} [Field K] [LinearOrder K] [FloorRing K]

/-- left-endpoint Riemann sum of `speed` over a sample sequence -/
def riemannM (speed : K → K) : List K → K
  | t0 :: t1 :: rest => speed t0 * (t1 - t0) + riemannM speed (t1 :: rest)
  | _ => 0

theorem go_eq (sqrt : K → K) (p : PPoly K) (ts : List K) :
    ∀ (q : PPoly K) (acc : K), CacheInv q → sameData p q →
      (PPoly.trajLength.go sqrt q acc ts).2
        = acc + riemannM (fun t => sqrt (dot (evalPure p t 1) (evalPure p t 1))) ts := by
  induction ts with
  | nil => intro q acc _ _; simp [PPoly.trajLength.go, riemannM]
  | cons t0 rest ih =>
    intro q acc hq hpq
    cases rest with
    | nil => simp [PPoly.trajLength.go, riemannM]
    | cons t1 rest' =>
      obtain ⟨e1, e2, e3⟩ := evaluate_spec q hq t0 1
      have hv : (q.evaluate t0 1).2 = evalPure p t0 1 := by
        rw [evaluate_eq_pure q hq, ← evalPure_congr hpq]
      simp only [PPoly.trajLength.go]
      rw [show (q.evaluate t0 1) = ((q.evaluate t0 1).1, (q.evaluate t0 1).2) from rfl]
      simp only []
      rw [ih (q.evaluate t0 1).1 _ e2 (sameData_trans hpq e3), hv]
      simp only [riemannM]
      ring

/-- **the reported length is the left-endpoint Riemann sum of speed over the generated time sequence** -/
theorem trajLength_eq_riemann (sqrt : K → K) (p : PPoly K) (h : CacheInv p) (s e dt : K) :
    (p.trajLength sqrt s e dt).2
      = riemannM (fun t => sqrt (dot (evalPure p t 1) (evalPure p t 1))) (PPoly.timeSequence s e dt) := by
  have := go_eq sqrt p (PPoly.timeSequence s e dt) p (lit 0) h (sameData_refl p)
  simp only [PPoly.trajLength]
  rw [this]; simp [lit_eq]

end model

/-! ## the error bound (analysis, any complete normed space) -/
section analysis
open intervalIntegral MeasureTheory
variable {E : Type} [NormedAddCommGroup E] [NormedSpace ℝ E] [CompleteSpace E]

/-- one step: `|‖v s‖·Δ − ∫_s^{s+Δ} ‖v‖| ≤ Δ · ∫_s^{s+Δ} ‖a‖` -/
theorem step_bound (v a : ℝ → E) (hv : ∀ t, HasDerivAt v (a t) t) (ha : Continuous a) (s u : ℝ) (hsu : s ≤ u) :
    |‖v s‖ * (u - s) - ∫ t in s..u, ‖v t‖| ≤ (u - s) * ∫ t in s..u, ‖a t‖ := by
  have hvc : Continuous v := continuous_iff_continuousAt.mpr (fun t => (hv t).continuousAt)
  have hna : Continuous (fun t => ‖a t‖) := ha.norm
  have hnv : Continuous (fun t => ‖v t‖) := hvc.norm
  -- pointwise: |‖v s‖ − ‖v t‖| ≤ ∫_s^u ‖a‖ for t ∈ [s,u]
  have hpt : ∀ t ∈ Set.Icc s u, |‖v s‖ - ‖v t‖| ≤ ∫ r in s..u, ‖a r‖ := by
    intro t ht
    have h1 : v t - v s = ∫ r in s..t, a r :=
      (integral_eq_sub_of_hasDerivAt (fun r _ => hv r) (ha.intervalIntegrable _ _)).symm
    have h2 : ‖v t - v s‖ ≤ ∫ r in s..t, ‖a r‖ := by
      rw [h1]; exact norm_integral_le_integral_norm ht.1
    have h3 : ∫ r in s..t, ‖a r‖ ≤ ∫ r in s..u, ‖a r‖ := by
      have : (∫ r in s..t, ‖a r‖) + (∫ r in t..u, ‖a r‖) = ∫ r in s..u, ‖a r‖ :=
        integral_add_adjacent_intervals (hna.intervalIntegrable s t) (hna.intervalIntegrable t u)
      have h4 : 0 ≤ ∫ r in t..u, ‖a r‖ := integral_nonneg ht.2 (fun r _ => norm_nonneg _)
      linarith
    calc |‖v s‖ - ‖v t‖| ≤ ‖v s - v t‖ := abs_norm_sub_norm_le _ _
      _ = ‖v t - v s‖ := norm_sub_rev _ _
      _ ≤ _ := h2.trans h3
  have hconst : ‖v s‖ * (u - s) = ∫ _t in s..u, ‖v s‖ := by simp [mul_comm]
  rw [hconst, ← integral_sub (continuous_const.intervalIntegrable _ _) (hnv.intervalIntegrable _ _)]
  calc |∫ t in s..u, (‖v s‖ - ‖v t‖)| ≤ ∫ t in s..u, |‖v s‖ - ‖v t‖| := by
        exact abs_integral_le_integral_abs hsu
    _ ≤ ∫ _t in s..u, (∫ r in s..u, ‖a r‖) := by
        apply integral_mono_on hsu
        · exact ((continuous_const.sub hnv).abs).intervalIntegrable _ _
        · exact continuous_const.intervalIntegrable _ _
        · intro t ht; exact hpt t ht
    _ = (u - s) * ∫ r in s..u, ‖a r‖ := by simp

/-- left-endpoint Riemann sum of the speed -/
noncomputable def riemann (v : ℝ → E) : List ℝ → ℝ
  | t0 :: t1 :: rest => ‖v t0‖ * (t1 - t0) + riemann v (t1 :: rest)
  | _ => 0

/-- non-decreasing samples with steps at most `δ` -/
def Steps (δ : ℝ) : List ℝ → Prop
  | t0 :: t1 :: rest => t0 ≤ t1 ∧ t1 - t0 ≤ δ ∧ Steps δ (t1 :: rest)
  | _ => True

/-- **C20: error bound of the reported length** -/
theorem riemann_error_bound (v a : ℝ → E) (hv : ∀ t, HasDerivAt v (a t) t) (ha : Continuous a) (δ : ℝ)
    (t0 : ℝ) (ts : List ℝ) (hst : Steps δ (t0 :: ts)) :
    |riemann v (t0 :: ts) - ∫ t in t0..((t0 :: ts).getLast (by simp)), ‖v t‖|
      ≤ δ * ∫ t in t0..((t0 :: ts).getLast (by simp)), ‖a t‖ := by
  have hvc : Continuous v := continuous_iff_continuousAt.mpr (fun t => (hv t).continuousAt)
  have hna : Continuous (fun t => ‖a t‖) := ha.norm
  have hnv : Continuous (fun t => ‖v t‖) := hvc.norm
  induction ts generalizing t0 with
  | nil => simp [riemann]
  | cons t1 rest ih =>
    obtain ⟨h01, hδ, hst'⟩ := hst
    have ih' := ih t1 hst'
    have hlast : (t0 :: t1 :: rest).getLast (by simp) = (t1 :: rest).getLast (by simp) := by
      simp [List.getLast_cons]
    rw [hlast]
    set e := (t1 :: rest).getLast (by simp) with he
    have hle : t1 ≤ e := by
      have : ∀ (x : ℝ) (l : List ℝ), Steps δ (x :: l) → x ≤ (x :: l).getLast (by simp) := by
        intro x l
        induction l generalizing x with
        | nil => intro _; simp
        | cons y l ihl =>
          intro hs
          have := ihl y hs.2.2
          simp only [List.getLast_cons_cons] at this ⊢
          exact hs.1.trans this
      exact this t1 rest hst'
    have hsb := step_bound v a hv ha t0 t1 h01
    have hsplitv : (∫ t in t0..t1, ‖v t‖) + (∫ t in t1..e, ‖v t‖) = ∫ t in t0..e, ‖v t‖ :=
      integral_add_adjacent_intervals (hnv.intervalIntegrable t0 t1) (hnv.intervalIntegrable t1 e)
    have hsplita : (∫ t in t0..t1, ‖a t‖) + (∫ t in t1..e, ‖a t‖) = ∫ t in t0..e, ‖a t‖ :=
      integral_add_adjacent_intervals (hna.intervalIntegrable t0 t1) (hna.intervalIntegrable t1 e)
    have ha1 : 0 ≤ ∫ r in t0..t1, ‖a r‖ := integral_nonneg h01 (fun r _ => norm_nonneg _)
    have ha2 : 0 ≤ ∫ r in t1..e, ‖a r‖ := integral_nonneg hle (fun r _ => norm_nonneg _)
    have hδ0 : 0 ≤ δ := le_trans (sub_nonneg.mpr h01) hδ
    simp only [riemann]
    rw [← hsplitv, ← hsplita]
    have e1 : ‖v t0‖ * (t1 - t0) + riemann v (t1 :: rest) - ((∫ t in t0..t1, ‖v t‖) + ∫ t in t1..e, ‖v t‖)
        = (‖v t0‖ * (t1 - t0) - ∫ t in t0..t1, ‖v t‖) + (riemann v (t1 :: rest) - ∫ t in t1..e, ‖v t‖) := by ring
    rw [e1]
    calc |(‖v t0‖ * (t1 - t0) - ∫ t in t0..t1, ‖v t‖) + (riemann v (t1 :: rest) - ∫ t in t1..e, ‖v t‖)|
        ≤ |‖v t0‖ * (t1 - t0) - ∫ t in t0..t1, ‖v t‖| + |riemann v (t1 :: rest) - ∫ t in t1..e, ‖v t‖| := abs_add_le _ _
      _ ≤ (t1 - t0) * (∫ r in t0..t1, ‖a r‖) + δ * ∫ t in t1..e, ‖a t‖ := add_le_add hsb ih'
      _ ≤ δ * (∫ r in t0..t1, ‖a r‖) + δ * ∫ t in t1..e, ‖a t‖ := by
          have := mul_le_mul_of_nonneg_right hδ ha1
          linarith
      _ = δ * ((∫ r in t0..t1, ‖a r‖) + ∫ t in t1..e, ‖a t‖) := by ring

end analysis
