import STProofs.RoundTrip
import STProofs.QuadDual
/-!
# C07 — gradient assembly is the adjoint of decoding

`assemble` pulls the gradient w.r.t. the decoded quantities back through the time map (`backward`), the spatial map
(`backwardGrad`) and scatters it into the decision-vector layout; `decode` reads the same packed slices.  For every
tangent `dx` of the decision vector:

    ⟨g.times, d(durations)⟩ + Σ_{optimised points} ⟨g_p, d(waypoint)⟩ + Σ_{flagged blocks} ⟨g_b, d(block)⟩ = ⟨assemble g, dx⟩

for all maps whose `backward`/`backwardGrad` are the transposed derivatives of `toTime`/`toPhysical` (`MapsOK`).
-/
open ST RoundTrip QuadDual

namespace Assemble
variable {K : Type} [Field K]

/-! ## pairing with a vector assembled from packed slices -/

theorem dot_append (a b x : List K) : dot (a ++ b) x = dot a (x.take a.length) + dot b (x.drop a.length) := by
  induction a generalizing x with
  | nil => simp [dot]
  | cons p a ih =>
    cases x with
    | nil => simp
    | cons y x => simp only [List.cons_append, dot_cons, List.length_cons, List.take_succ_cons, List.drop_succ_cons, ih x]; ring

theorem dot_take_drop (x y : List K) (k : Nat) (h : x.length = y.length) :
    dot x y = dot (x.take k) (y.take k) + dot (x.drop k) (y.drop k) := by
  induction k generalizing x y with
  | zero => simp [dot]
  | succ k ih =>
    cases x with
    | nil => cases y <;> simp [dot]
    | cons a x => cases y with
      | nil => simp at h
      | cons b y =>
        simp only [List.take_succ_cons, List.drop_succ_cons, dot_cons, ih x y (by simpa using h)]; ring

/-- writing `v` at `off` changes the pairing with `dx` by the slice terms -/
theorem dot_writeAt (x dx : List K) (off : Nat) (v : List K) (hx : off + v.length ≤ x.length) (hd : dx.length = x.length) :
    dot (writeAt x off v) dx = dot x dx - dot (segment x off v.length) (segment dx off v.length)
      + dot v (segment dx off v.length) := by
  have h1 := dot_take_drop x dx off hd.symm
  have h2 := dot_take_drop (x.drop off) (dx.drop off) v.length (by simp [hd])
  simp only [writeAt, segment]
  rw [List.append_assoc, dot_append, dot_append]
  have l1 : (x.take off).length = off := by simp; omega
  rw [l1, h1, h2, List.drop_drop, List.drop_drop]
  ring

theorem packedW_bounds (hi lo : Nat) (ws : List (Nat × List K)) (h : PackedW hi lo ws) :
    ∀ w ∈ ws, lo ≤ w.1 ∧ w.1 + w.2.length ≤ hi := by
  induction ws generalizing lo with
  | nil => intro w hw; simp at hw
  | cons a ws ih =>
    intro w hw
    have hle := packedW_le hi _ ws h.2
    rcases List.mem_cons.mp hw with rfl | hin
    · exact ⟨h.1, hle⟩
    · have := ih _ h.2 w hin
      exact ⟨by have := h.1; omega, this.2⟩

theorem dot_applyW (x dx : List K) (ws : List (Nat × List K)) (lo hi : Nat) (hp : PackedW hi lo ws)
    (hx : hi ≤ x.length) (hd : dx.length = x.length) :
    dot (applyW x ws) dx = dot x dx
      + (ws.map (fun w => dot w.2 (segment dx w.1 w.2.length)
          - dot (segment x w.1 w.2.length) (segment dx w.1 w.2.length))).sum := by
  induction ws generalizing x lo with
  | nil => simp [applyW]
  | cons w ws ih =>
    obtain ⟨hlo, hp'⟩ := hp
    have hle := packedW_le hi _ ws hp'
    have hb : w.1 + w.2.length ≤ x.length := by omega
    have hlen := writeAt_length x w.1 w.2 hb
    have := ih (writeAt x w.1 w.2) (w.1 + w.2.length) hp' (by rw [hlen]; exact hx) (by rw [hlen]; exact hd)
    show dot (applyW (writeAt x w.1 w.2) ws) dx = _
    rw [this, dot_writeAt x dx w.1 w.2 hb hd, List.map_cons, List.sum_cons]
    have hseg : ∀ w' ∈ ws, segment (writeAt x w.1 w.2) w'.1 w'.2.length = segment x w'.1 w'.2.length := by
      intro w' hw'
      have := (packedW_bounds hi _ ws hp' w' hw').1
      exact segment_writeAt_after x w.1 w.2 w'.1 w'.2.length this hb
    have hmap : ws.map (fun w' => dot w'.2 (segment dx w'.1 w'.2.length)
          - dot (segment (writeAt x w.1 w.2) w'.1 w'.2.length) (segment dx w'.1 w'.2.length))
        = ws.map (fun w' => dot w'.2 (segment dx w'.1 w'.2.length)
          - dot (segment x w'.1 w'.2.length) (segment dx w'.1 w'.2.length)) := by
      apply List.map_congr_left
      intro w' hw'
      rw [hseg w' hw']
    rw [hmap]; ring

theorem dot_replicate_zero (n : Nat) (y : List K) : dot (List.replicate n (0 : K)) y = 0 := by
  induction n generalizing y with
  | zero => simp [dot]
  | succ n ih => cases y with
    | nil => simp [dot, List.replicate_succ]
    | cons b y => simp [List.replicate_succ, dot_cons, ih]

theorem segment_replicate_zero (n off len : Nat) : segment (List.replicate n (0 : K)) off len = List.replicate (min len (n - off)) 0 := by
  simp [segment]

/-- **pairing with a vector assembled from packed slices over zeros** -/
theorem dot_applyW_zeros (n : Nat) (dx : List K) (ws : List (Nat × List K)) (lo : Nat) (hp : PackedW n lo ws)
    (hd : dx.length = n) :
    dot (applyW (List.replicate n (0 : K)) ws) dx = (ws.map (fun w => dot w.2 (segment dx w.1 w.2.length))).sum := by
  rw [dot_applyW _ dx ws lo n hp (by simp) (by simp [hd]), dot_replicate_zero, zero_add]
  congr 1
  apply List.map_congr_left
  intro w _
  rw [segment_replicate_zero, dot_replicate_zero, sub_zero]

/-! ## reading the decoded quantities -/

theorem foldl_setRow_get {β : Type} (vs : List LayoutVar) (val : LayoutVar → List β) (w0 : List (List β)) (lo : Nat)
    (hinc : ∀ (_hi _off : Nat), True) (hpk : ∃ hi off, PackedL hi lo off vs) (v : LayoutVar) (hv : v ∈ vs)
    (hlen : ∀ u ∈ vs, u.point < w0.length) :
    (vs.foldl (fun w u => setRow w u.point (val u)) w0).getD v.point [] = val v := by
  induction vs generalizing w0 lo with
  | nil => simp at hv
  | cons u vs ih =>
    obtain ⟨hi, off, hlo, _, hp'⟩ := hpk
    rw [List.foldl_cons]
    rcases List.mem_cons.mp hv with rfl | hin
    · -- later writes touch other rows
      have hne : ∀ u' ∈ vs, u'.point ≠ v.point := by
        have : ∀ (l : List LayoutVar) (a b c : Nat), PackedL a b c l → ∀ u' ∈ l, b ≤ u'.point := by
          intro l
          induction l with
          | nil => intro a b c _ u' hu'; simp at hu'
          | cons z l ihl =>
            intro a b c hp u' hu'
            rcases List.mem_cons.mp hu' with rfl | h'
            · exact hp.1
            · have := ihl a _ _ hp.2.2 u' h'; have := hp.1; omega
        intro u' hu'
        have := this vs hi (v.point + 1) _ hp' u' hu'
        omega
      rw [RoundTrip.foldl_setRow_getD_ne' vs val _ v.point hne]
      simp only [setRow, List.getD_eq_getElem?_getD]
      rw [List.getElem?_set_self (hlen v (by simp))]
      rfl
    · exact ih (setRow w0 u.point (val u)) (u.point + 1) ⟨hi, _, hp'⟩ hin
        (by intro z hz; simp only [setRow, List.length_set]; exact hlen z (by simp [hz]))

theorem getBlock_setBlock_self {β : Type} (bc : BC β) (b : DBlock) (v : Vec β) : (bc.setBlock b v).getBlock b = v := by
  cases b <;> rfl

theorem getBlock_setBlock_ne' {β : Type} (bc : BC β) (b b' : DBlock) (v : Vec β) (h : b ≠ b') :
    (bc.setBlock b' v).getBlock b = bc.getBlock b := by
  cases b <;> cases b' <;> first | rfl | exact absurd rfl h

theorem fold_getBlock_ne {β : Type} (d : Nat) (x : List β) (bs : List DBlock) (bc : BC β) (off : Nat) (b : DBlock)
    (hb : b ∉ bs) :
    (bs.foldl (fun (acc : BC β × Nat) b' => (acc.1.setBlock b' (segment x acc.2 d), acc.2 + d)) (bc, off)).1.getBlock b
      = bc.getBlock b := by
  induction bs generalizing bc off with
  | nil => rfl
  | cons b' bs ih =>
    simp only [List.foldl_cons]
    rw [ih _ _ (fun hh => hb (by simp [hh])), getBlock_setBlock_ne' bc b b' _ (fun e => hb (by simp [e]))]

theorem segment_map {β γ : Type} (f : β → γ) (x : List β) (off len : Nat) :
    (segment x off len).map f = segment (x.map f) off len := by
  simp [segment, List.map_take, List.map_drop]

theorem blocks_pair (d : Nat) (x : List (Dual K)) (bg : DBlock → Vec K) (bs : List DBlock) (hnd : bs.Nodup)
    (bc : BC (Dual K)) (off : Nat) :
    (bs.map (fun b => dot (bg b) (vdu
        ((bs.foldl (fun (acc : BC (Dual K) × Nat) b' => (acc.1.setBlock b' (segment x acc.2 d), acc.2 + d)) (bc, off)).1.getBlock b)))).sum
      = ((blockW d bg off bs).map (fun w => dot w.2 (segment (x.map Dual.du) w.1 d))).sum := by
  induction bs generalizing bc off with
  | nil => simp [blockW]
  | cons b bs ih =>
    have hnb : b ∉ bs := (List.nodup_cons.mp hnd).1
    have hnd' : bs.Nodup := (List.nodup_cons.mp hnd).2
    simp only [List.foldl_cons, List.map_cons, List.sum_cons, blockW]
    rw [fold_getBlock_ne d x bs _ _ b hnb, getBlock_setBlock_self]
    have htail : bs.map (fun b' => dot (bg b') (vdu
          ((bs.foldl (fun (acc : BC (Dual K) × Nat) b'' => (acc.1.setBlock b'' (segment x acc.2 d), acc.2 + d))
            (bc.setBlock b (segment x off d), off + d)).1.getBlock b')))
        = bs.map (fun b' => dot (bg b') (vdu
          ((bs.foldl (fun (acc : BC (Dual K) × Nat) b'' => (acc.1.setBlock b'' (segment x acc.2 d), acc.2 + d))
            (bc.setBlock b (segment x off d), off + d)).1.getBlock b'))) := rfl
    rw [ih hnd' (bc.setBlock b (segment x off d)) (off + d)]
    simp only [vdu, segment_map]

theorem derivBlocks_nodup (o : Order) (f : Flags) : (derivBlocks o f).Nodup := by
  rw [derivBlocks_spec]
  exact List.Nodup.filter _ (by decide)

theorem dot_pointwise (n : Nat) (a b c d : List K) (ha : a.length = n) (hb : b.length = n) (hc : c.length = n)
    (hd : d.length = n) (h : ∀ i, i < n → a.getD i 0 * b.getD i 0 = c.getD i 0 * d.getD i 0) : dot a b = dot c d := by
  induction n generalizing a b c d with
  | zero =>
    rw [List.eq_nil_of_length_eq_zero ha, List.eq_nil_of_length_eq_zero hc]; simp [dot]
  | succ n ih =>
    match a, b, c, d, ha, hb, hc, hd with
    | a0 :: a, b0 :: b, c0 :: c, d0 :: d, ha, hb, hc, hd =>
      have h0 := h 0 (by omega)
      simp only [List.getD_cons_zero] at h0
      rw [dot_cons, dot_cons, h0, ih a b c d (by simpa using ha) (by simpa using hb) (by simpa using hc) (by simpa using hd)
        (fun i hi => by have := h (i + 1) (by omega); simpa using this)]

/-- hypotheses on the maps (both instantiations of the same user code, on dual numbers and on the base field);
`tdom`: the set of unconstrained duration variables on which the time map is claimed differentiable (e.g. away from a pole) -/
structure MapsOK (tdom : K → Prop) (cD : Config (Dual K)) (cR : Config K) : Prop where
  order : cD.order = cR.order
  dim : cD.dim = cR.dim
  flags : cD.flags = cR.flags
  n : cD.n = cR.n
  udim : cD.sm.udim = cR.sm.udim
  tmRe : ∀ τ : Dual K, tdom τ.re → (cD.tm.toTime τ).re = cR.tm.toTime τ.re
  tmDu : ∀ (τ : Dual K) (g : K), tdom τ.re →
      g * (cD.tm.toTime τ).du = cR.tm.backward τ.re (cR.tm.toTime τ.re) g * τ.du
  smRe : ∀ (ξ : Vec (Dual K)) (i : Nat), vre (cD.sm.toPhysical ξ i) = cR.sm.toPhysical (vre ξ) i
  smDu : ∀ (ξ : Vec (Dual K)) (i : Nat) (g : Vec K), ξ.length = cR.sm.udim i →
      dot g (vdu (cD.sm.toPhysical ξ i)) = dot (cR.sm.backwardGrad (vre ξ) g i) (vdu ξ)
  smLen : ∀ (ξ : Vec K) (i : Nat) (g : Vec K), ξ.length = cR.sm.udim i → g.length = cR.dim →
      (cR.sm.backwardGrad ξ g i).length = cR.sm.udim i

theorem layout_eq {tdom : K → Prop} (cD : Config (Dual K)) (cR : Config K) (hm : MapsOK tdom cD cR) : cD.layout = cR.layout := by
  simp only [Config.layout, hm.order, hm.dim, hm.flags, hm.n, hm.udim]

theorem times_pair {tdom : K → Prop} (cD : Config (Dual K)) (cR : Config K) (hm : MapsOK tdom cD cR) (x : List (Dual K)) (hx : cR.n ≤ x.length)
    (hdom : ∀ i, i < cR.n → tdom (x.getD i (lit 0)).re)
    (gt : List K) (hg : gt.length = cR.n) :
    dot gt (((List.range cR.n).map (fun i => cD.tm.toTime (x.getD i (lit 0)))).map Dual.du)
      = dot ((List.range cR.n).map (fun i => cR.tm.backward ((x.map Dual.re).getD i (lit 0))
            (((List.range cR.n).map (fun i => cR.tm.toTime ((x.map Dual.re).getD i (lit 0)))).getD i (lit 0))
            (gt.getD i (lit 0))))
          (segment (x.map Dual.du) 0 cR.n) := by
  apply dot_pointwise cR.n _ _ _ _ hg (by simp) (by simp) (by simp [segment]; omega)
  intro i hi
  have hix : i < x.length := by omega
  simp only [List.getD_eq_getElem?_getD, List.getElem?_map, List.getElem?_range hi, Option.map_some, Option.getD_some,
    List.getElem?_eq_getElem hix, segment, List.drop_zero, List.getElem?_take_of_lt hi]
  have hd := hdom i hi
  simp only [List.getD_eq_getElem?_getD, List.getElem?_eq_getElem hix, Option.getD_some] at hd
  have := hm.tmDu x[i] (gt[i]?.getD 0) hd
  simp only [lit_eq, Nat.cast_zero] at this ⊢
  exact this

theorem packedL_bounds (hi lo off : Nat) (vs : List LayoutVar) (h : PackedL hi lo off vs) :
    off ≤ hi ∧ ∀ v ∈ vs, off ≤ v.offset ∧ v.offset + v.dof ≤ hi := by
  induction vs generalizing lo off with
  | nil => simp only [PackedL] at h; subst h; exact ⟨le_refl _, by simp⟩
  | cons u vs ih =>
    obtain ⟨_, ho, hp⟩ := h
    obtain ⟨a, b⟩ := ih _ _ hp
    refine ⟨by omega, ?_⟩
    intro v hv
    rcases List.mem_cons.mp hv with rfl | hin
    · exact ⟨by omega, by omega⟩
    · have := b v hin; exact ⟨by omega, this.2⟩

abbrev gpOf (n : Nat) (g : GradsND K) (i : Nat) : Vec K := pointGradOf n g i
abbrev bgOf (g : GradsND K) : DBlock → Vec K := blockGradOf g

/-- **C07: gradient assembly is the adjoint of decoding** -/
theorem assemble_adjoint {tdom : K → Prop} (cD : Config (Dual K)) (cR : Config K) (hm : MapsOK tdom cD cR) (x : List (Dual K))
    (hdom : ∀ i, i < cR.n → tdom (x.getD i (lit 0)).re) (g : GradsND K)
    (hn : 0 < cR.n) (hx : x.length = cR.layout.total) (hgt : g.times.length = cR.n)
    (hbg : ∀ b ∈ derivBlocks cR.order cR.flags, (bgOf g b).length = cR.dim)
    (hpg : ∀ i, i ≤ cR.n → (gpOf cR.n g i).length = cR.dim)
    (hwl : cD.refWaypoints.length = cR.n + 1) :
    dot g.times ((decode cD x).times.map Dual.du)
      + (cR.layout.vars.map (fun v => dot (gpOf cR.n g v.point) (vdu ((decode cD x).waypoints.getD v.point [])))).sum
      + ((derivBlocks cR.order cR.flags).map (fun b => dot (bgOf g b) (vdu ((decode cD x).bc.getBlock b)))).sum
      = dot (assemble cR (x.map Dual.re) (decode cR (x.map Dual.re)).times g) (x.map Dual.du) := by
  have hne : cR.n ≠ 0 := by omega
  obtain ⟨vars, hvars⟩ : ∃ v, v = (layoutFrom cR.flags cR.n cR.sm.udim (cR.n + 1) 0 cR.n).1 := ⟨_, rfl⟩
  obtain ⟨doff, hdoff⟩ : ∃ v, v = (layoutFrom cR.flags cR.n cR.sm.udim (cR.n + 1) 0 cR.n).2 := ⟨_, rfl⟩
  obtain ⟨blocks, hblocks⟩ : ∃ v, v = derivBlocks cR.order cR.flags := ⟨_, rfl⟩
  have hL : cR.layout = ⟨vars, doff, doff + blocks.length * cR.dim⟩ := by
    simp only [Config.layout, layout, hne, if_false, hvars, hdoff, hblocks]
  have hLD : cD.layout = ⟨vars, doff, doff + blocks.length * cR.dim⟩ := by rw [layout_eq cD cR hm, hL]
  obtain ⟨hpk, hvs⟩ := layoutFrom_packed cR.flags cR.n cR.sm.udim (cR.n + 1) 0 cR.n
  have hpt := layoutFrom_point_lt cR.flags cR.n cR.sm.udim (cR.n + 1) 0 cR.n
  rw [← hvars, ← hdoff] at hpk
  rw [← hvars] at hvs hpt
  rw [hL] at hx
  simp only [] at hx
  -- the slices written by `assemble`
  obtain ⟨xR, hxR⟩ : ∃ v, v = x.map Dual.re := ⟨_, rfl⟩
  obtain ⟨dx, hdx⟩ : ∃ v, v = x.map Dual.du := ⟨_, rfl⟩
  obtain ⟨tg, htg⟩ : ∃ v : List K, v = (List.range cR.n).map (fun i =>
      cR.tm.backward (xR.getD i (lit 0)) ((decode cR xR).times.getD i (lit 0)) (g.times.getD i (lit 0))) := ⟨_, rfl⟩
  obtain ⟨bgv, hbgv⟩ : ∃ f : LayoutVar → List K, f = fun v =>
      cR.sm.backwardGrad (segment xR v.offset v.dof) (gpOf cR.n g v.point) v.point := ⟨_, rfl⟩
  obtain ⟨W, hW⟩ : ∃ w : List (Nat × List K), w = (0, tg) :: (vars.map (fun v => (v.offset, bgv v))
      ++ blockW cR.dim (bgOf g) doff blocks) := ⟨_, rfl⟩
  have hasm : assemble cR xR (decode cR xR).times g = applyW (List.replicate (doff + blocks.length * cR.dim) (0 : K)) W := by
    simp only [assemble, hL, ← hblocks]
    rw [blocks_foldl cR.dim (blockGradOf g) blocks, hW, htg, hbgv]
    simp only [applyW, List.foldl_cons, List.foldl_append, List.foldl_map, hxR, List.length_map, hx, lit_eq,
      Nat.cast_zero]
  have htl : tg.length = cR.n := by rw [htg]; simp
  have hbgl : ∀ v ∈ vars, (bgv v).length = v.dof := by
    intro v hv
    rw [hbgv, (hvs v hv).1]
    apply hm.smLen _ _ _ ?_ (hpg v.point (by have := hpt v hv; omega))
    rw [← (hvs v hv).1]
    have hb : v.offset + v.dof ≤ xR.length := by
      have := ((packedL_bounds doff 0 cR.n vars hpk).2 v hv).2
      rw [hxR, List.length_map, hx]; omega
    simp [segment]; omega
  have hbl : ∀ b ∈ blocks, (bgOf g b).length = cR.dim := by rw [hblocks]; exact hbg
  obtain ⟨pv1, pv2⟩ := vars_packedW bgv vars doff 0 cR.n hpk hbgl
  have hpW : PackedW (doff + blocks.length * cR.dim) 0 W := by
    rw [hW]
    refine ⟨le_refl _, ?_⟩
    simp only [zero_add, htl]
    exact packedW_concat _ _ doff _ _ pv1 pv2 (packedW_blocks cR.dim (bgOf g) blocks doff hbl)
  have hdxl : dx.length = doff + blocks.length * cR.dim := by rw [hdx, List.length_map, hx]
  simp only [hL]
  rw [← hxR, ← hdx, hasm, dot_applyW_zeros _ dx W 0 hpW hdxl, hW]
  simp only [List.map_cons, List.sum_cons, List.map_append, List.sum_append, List.map_map]
  -- durations
  have h1 : dot g.times ((decode cD x).times.map Dual.du) = dot tg (segment dx 0 tg.length) := by
    have := times_pair cD cR hm x (by rw [hx]; have := (packedL_bounds doff 0 cR.n vars hpk).1; omega) hdom g.times hgt
    rw [htl, htg, hdx, hxR]
    simp only [decode, hm.n]
    convert this using 2
  -- optimised waypoints
  have h2 : vars.map (fun v => dot (gpOf cR.n g v.point) (vdu ((decode cD x).waypoints.getD v.point [])))
      = vars.map ((fun w : Nat × List K => dot w.2 (segment dx w.1 w.2.length)) ∘ fun v => (v.offset, bgv v)) := by
    apply List.map_congr_left
    intro v hv
    simp only [Function.comp]
    have hget : (decode cD x).waypoints.getD v.point [] = cD.sm.toPhysical (segment x v.offset v.dof) v.point := by
      simp only [decode, hLD]
      exact foldl_setRow_get vars _ cD.refWaypoints 0 (fun _ _ => trivial) ⟨doff, cR.n, hpk⟩ v hv
        (by intro u hu; have := hpt u hu; omega)
    have hsl : (segment x v.offset v.dof).length = cR.sm.udim v.point := by
      have := ((packedL_bounds doff 0 cR.n vars hpk).2 v hv).2
      rw [← (hvs v hv).1]; simp [segment]; omega
    rw [hget, hm.smDu _ _ _ hsl, hbgl v hv, hbgv, hdx, hxR]
    simp only [vre, vdu, segment_map]
  -- flagged boundary blocks
  have h3 : (blocks.map (fun b => dot (bgOf g b) (vdu ((decode cD x).bc.getBlock b)))).sum
      = ((blockW cR.dim (bgOf g) doff blocks).map (fun w => dot w.2 (segment dx w.1 w.2.length))).sum := by
    have := blocks_pair cR.dim x (bgOf g) blocks (by rw [hblocks]; exact derivBlocks_nodup _ _) cD.refBC doff
    simp only [decode, hLD, hm.order, hm.flags, hm.dim, ← hblocks]
    rw [this, hdx]
    congr 1
    apply List.map_congr_left
    intro w hw
    rw [blockW_len cR.dim (bgOf g) blocks doff hbl w hw]
  rw [← hblocks, h1, h2, h3]
  ring

end Assemble
