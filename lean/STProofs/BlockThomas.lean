import STModel
import Mathlib.Algebra.Module.Basic
import Mathlib.Tactic.Abel
import Mathlib.Tactic.NoncommRing
import Mathlib.Tactic.Module
/-!
# Block-tridiagonal elimination solves its system — every number of blocks

Generic over a (non-commutative) ring `R` of blocks acting on a module `V`, with the inverse *function* a
parameter: the hypothesis `BPivOK` says that each pivot the sweep inverts satisfies `pivot · inv pivot = 1`.
The model's `bfwd` / `bback` are instantiated with the ring operations through `ringBlk`.
-/
open ST

section
variable {R V : Type} [Ring R] [AddCommGroup V] [Module R V]

/-- the block operations given by a ring acting on a module, with a chosen inverse and transpose function -/
@[reducible] def ringBlk (inv tr : R → R) : BlkOps R V :=
  { mul := (· * ·), sub := (· - ·), inv := inv, tr := tr, act := (· • ·), vsub := (· - ·) }

/-- row-wise: `L x_{i-1} + D x_i + U x_{i+1} = b` (with `xp` left of the first unknown, 0 right of the last) -/
def BSolves : V → List (BRow R V) → List V → Prop
  | _, [], [] => True
  | xp, r :: rs, x :: xs => r.l • xp + r.d • x + r.u • (xs.headD 0) = r.b ∧ BSolves x rs xs
  | _, _, _ => False

/-- every pivot the forward sweep inverts is right-invertible by `inv` -/
def BPivOK (inv : R → R) : Option (BFact R V) → List (BRow R V) → Prop
  | _, [] => True
  | none, r :: rs => (r.d * inv r.d = 1) ∧ BPivOK inv (some ⟨inv r.d, r.u, r.l, r.b⟩) rs
  | some p, r :: rs =>
      let dn := r.d - r.l * (p.dinv * p.u)
      (dn * inv dn = 1) ∧ BPivOK inv (some ⟨inv dn, r.u, r.l, r.b - r.l • (p.dinv • p.b)⟩) rs

variable (inv tr : R → R)

theorem bback_cons (f : BFact R V) (rest : List (BFact R V)) :
    @bback R V (ringBlk inv tr) (f :: rest)
      = (f.dinv • (f.b - f.u • (@bback R V (ringBlk inv tr) rest).headD 0)) :: @bback R V (ringBlk inv tr) rest := by
  simp only [bback]
  cases h : @bback R V (ringBlk inv tr) rest with
  | nil => simp [BlkOps.act]
  | cons x xs => simp [BlkOps.act, BlkOps.vsub]

theorem bthomas_some (p : BFact R V) (rows : List (BRow R V)) (hp : BPivOK inv (some p) rows) :
    let xs := @bback R V (ringBlk inv tr) (@bfwd R V (ringBlk inv tr) (some p) rows)
    BSolves (p.dinv • (p.b - p.u • xs.headD 0)) rows xs := by
  induction rows generalizing p with
  | nil => simp [bfwd, bback, BSolves]
  | cons r rs ih =>
    obtain ⟨hden, hrest⟩ := hp
    have := ih _ hrest
    simp only [bfwd, bback_cons, List.headD_cons, BlkOps.mul, BlkOps.sub, BlkOps.inv, BlkOps.act, BlkOps.vsub] at this ⊢
    refine ⟨?_, this⟩
    set dn := r.d - r.l * (p.dinv * p.u) with hdn
    set y := (@bback R V (ringBlk inv tr) (@bfwd R V (ringBlk inv tr)
      (some ⟨inv dn, r.u, r.l, r.b - r.l • (p.dinv • p.b)⟩) rs)).headD 0
    have key : ∀ w : V, r.d • inv dn • w - r.l • p.dinv • p.u • inv dn • w = w := by
      intro w
      have : (dn * inv dn) • w = w := by rw [hden, one_smul]
      rw [hdn] at this
      simpa [sub_smul, mul_smul, mul_assoc] using this
    have k := key (r.b - r.l • p.dinv • p.b - r.u • y)
    simp only [smul_sub] at k ⊢
    have e : ∀ (A X Y U b' : V), Y - X = b' - A - U → A - X + Y + U = b' := by
      intro A X Y U b' h
      have : Y = b' - A - U + X := by rw [← h]; abel
      rw [this]; abel
    exact e _ _ _ _ _ k

/-- **block Thomas elimination is correct** for every number of block rows -/
theorem bthomas_correct (rows : List (BRow R V)) (hp : BPivOK inv none rows) :
    BSolves 0 rows (@bthomas R V (ringBlk inv tr) rows) := by
  cases rows with
  | nil => simp [bthomas, bfwd, bback, BSolves]
  | cons r rs =>
    obtain ⟨hb, hrest⟩ := hp
    have := bthomas_some inv tr _ rs hrest
    simp only [bthomas, bfwd, bback_cons, List.headD_cons, BlkOps.inv] at this ⊢
    refine ⟨?_, this⟩
    set y := (@bback R V (ringBlk inv tr) (@bfwd R V (ringBlk inv tr) (some ⟨inv r.d, r.u, r.l, r.b⟩) rs)).headD 0
    have h1 : ∀ w : V, r.d • inv r.d • w = w := by
      intro w; rw [← mul_smul, hb, one_smul]
    rw [smul_zero, zero_add, h1]
    abel

theorem bsolves_length (xp : V) (rows : List (BRow R V)) (xs : List V) (h : BSolves xp rows xs) :
    xs.length = rows.length := by
  induction rows generalizing xp xs with
  | nil => cases xs <;> simp_all [BSolves]
  | cons r rs ih =>
    cases xs with
    | nil => simp [BSolves] at h
    | cons x xs => simp [ih x xs h.2]

end

/-! ## uniqueness of the block solve, and the adjoint of the two sweeps

`ip` is a bilinear pairing of vectors with `ip (a • v) w = ip v (tr a • w)` (for column vectors and matrices:
the dot product and the transpose).  `adj_back` and `adj_fwd` are the adjoints of back substitution and forward
elimination: together they say that the transposed sweeps `bsolveT` compute `A⁻ᵀ g`.
-/
section adjoint
variable {R V S : Type} [Ring R] [AddCommGroup V] [Module R V] [AddCommGroup S]
variable (inv tr : R → R)

/-- pivots are two-sided inverses (true for the closed-form inverses over a commutative ring) -/
def BPivOK2 : Option (BFact R V) → List (BRow R V) → Prop
  | _, [] => True
  | none, r :: rs => (r.d * inv r.d = 1 ∧ inv r.d * r.d = 1) ∧ BPivOK2 (some ⟨inv r.d, r.u, r.l, r.b⟩) rs
  | some p, r :: rs =>
      let dn := r.d - r.l * (p.dinv * p.u)
      (dn * inv dn = 1 ∧ inv dn * dn = 1) ∧ BPivOK2 (some ⟨inv dn, r.u, r.l, r.b - r.l • (p.dinv • p.b)⟩) rs

theorem bpivOK_of_2 (st : Option (BFact R V)) (rows : List (BRow R V)) (h : BPivOK2 inv st rows) : BPivOK inv st rows := by
  induction rows generalizing st with
  | nil => cases st <;> trivial
  | cons r rs ih =>
    cases st with
    | none => exact ⟨h.1.1, ih _ h.2⟩
    | some p => exact ⟨h.1.1, ih _ h.2⟩

/-- **uniqueness**: any solution of the block system (compatible with the eliminated previous row) is the one the
sweeps return -/
theorem bthomas_unique_some (p : BFact R V) (rows : List (BRow R V)) (hp : BPivOK2 inv (some p) rows) (xs : List V) (xp : V)
    (hx : BSolves xp rows xs) (hrel : xp = p.dinv • (p.b - p.u • xs.headD 0)) :
    xs = @bback R V (ringBlk inv tr) (@bfwd R V (ringBlk inv tr) (some p) rows) := by
  induction rows generalizing p xs xp with
  | nil => cases xs <;> simp_all [BSolves, bfwd, bback]
  | cons r rs ih =>
    cases xs with
    | nil => simp [BSolves] at hx
    | cons x xs =>
      obtain ⟨⟨hden, hden'⟩, hrest⟩ := hp
      obtain ⟨hrow, hx'⟩ := hx
      simp only [List.headD_cons] at hrel
      set dn := r.d - r.l * (p.dinv * p.u) with hdn
      -- x = inv dn • (b' - u • next)
      have hxe : x = inv dn • ((r.b - r.l • (p.dinv • p.b)) - r.u • xs.headD 0) := by
        have h1 : dn • x = (r.b - r.l • (p.dinv • p.b)) - r.u • xs.headD 0 := by
          rw [hdn, sub_smul, mul_smul, mul_smul]
          rw [hrel] at hrow
          simp only [smul_sub] at hrow ⊢
          -- rearrange: l•Z•pb − l•Z•U•x + d•x + u•nx = b
          calc r.d • x - r.l • p.dinv • p.u • x
              = (r.l • p.dinv • p.b - r.l • p.dinv • p.u • x + r.d • x + r.u • xs.headD 0) - r.l • p.dinv • p.b - r.u • xs.headD 0 := by abel
            _ = r.b - r.l • p.dinv • p.b - r.u • xs.headD 0 := by rw [hrow]
        calc x = (inv dn * dn) • x := by rw [hden', one_smul]
          _ = inv dn • (dn • x) := by rw [mul_smul]
          _ = _ := by rw [h1]
      have := ih ⟨inv dn, r.u, r.l, r.b - r.l • (p.dinv • p.b)⟩ hrest xs x hx' hxe
      simp only [bfwd, bback_cons, BlkOps.mul, BlkOps.sub, BlkOps.inv, BlkOps.act, BlkOps.vsub]
      rw [← this, ← hxe]

theorem bthomas_unique (rows : List (BRow R V)) (hp : BPivOK2 inv none rows) (xs : List V) (hx : BSolves 0 rows xs) :
    xs = @bthomas R V (ringBlk inv tr) rows := by
  cases rows with
  | nil => cases xs <;> simp_all [BSolves, bthomas, bfwd, bback]
  | cons r rs =>
    cases xs with
    | nil => simp [BSolves] at hx
    | cons x xs =>
      obtain ⟨⟨hden, hden'⟩, hrest⟩ := hp
      obtain ⟨hrow, hx'⟩ := hx
      have hxe : x = inv r.d • (r.b - r.u • xs.headD 0) := by
        have h1 : r.d • x = r.b - r.u • xs.headD 0 := by
          rw [smul_zero, zero_add] at hrow
          rw [← hrow]; abel
        calc x = (inv r.d * r.d) • x := by rw [hden', one_smul]
          _ = inv r.d • (r.d • x) := by rw [mul_smul]
          _ = _ := by rw [h1]
      have := bthomas_unique_some inv tr ⟨inv r.d, r.u, r.l, r.b⟩ rs hrest xs x hx' hxe
      simp only [bthomas, bfwd, bback_cons, BlkOps.inv]
      rw [← this, ← hxe]

variable (ip : V → V → S)

/-- pairing of two lists of vectors -/
def ipSum : List V → List V → S
  | a :: as, b :: bs => ip a b + ipSum as bs
  | _, _ => 0

structure IsPairing : Prop where
  add_left : ∀ a b c, ip (a + b) c = ip a c + ip b c
  add_right : ∀ a b c, ip a (b + c) = ip a b + ip a c
  adj : ∀ (m : R) (v w : V), ip (tr m • v) w = ip v (m • w)

variable {ip tr}

theorem IsPairing.sub_left (h : IsPairing tr ip) (a b c : V) : ip (a - b) c = ip a c - ip b c := by
  have := h.add_left (a - b) b c
  rw [sub_add_cancel] at this
  rw [this]; abel
theorem IsPairing.sub_right (h : IsPairing tr ip) (a b c : V) : ip a (b - c) = ip a b - ip a c := by
  have := h.add_right a (b - c) c
  rw [sub_add_cancel] at this
  rw [this]; abel
theorem IsPairing.zero_right (h : IsPairing tr ip) (a : V) : ip a 0 = 0 := by
  have := h.add_right a 0 0
  rw [add_zero] at this
  have h2 : ip a 0 + 0 = ip a 0 + ip a 0 := by rw [add_zero]; exact this
  exact (add_left_cancel h2).symm


theorem bbackT_cons_cons (f f' : BFact R V) (fs : List (BFact R V)) (lam : V) (lams : List V)
    (hl : lams.length = fs.length + 1) :
    @bbackT R V (ringBlk inv tr) (f :: f' :: fs) (lam :: lams)
      = (lam - tr (f'.l * f.dinv) • (@bbackT R V (ringBlk inv tr) (f' :: fs) lams).headD 0)
          :: @bbackT R V (ringBlk inv tr) (f' :: fs) lams := by
  have hne : @bbackT R V (ringBlk inv tr) (f' :: fs) lams ≠ [] := by
    match fs, lams, hl with
    | [], [l0], _ => simp [bbackT]
    | f2 :: fs2, l0 :: l1 :: ls, _ =>
      simp only [bbackT]
      split <;> simp
  simp only [bbackT]
  cases hb : @bbackT R V (ringBlk inv tr) (f' :: fs) lams with
  | nil => exact absurd hb hne
  | cons ln rest => simp [BlkOps.act, BlkOps.vsub, BlkOps.tr, BlkOps.mul]

theorem bfwdT_length (st : Option (BFact R V × V)) (fs : List (BFact R V)) (g : List V) (hg : g.length = fs.length) :
    (@bfwdT R V (ringBlk inv tr) st fs g).length = fs.length := by
  induction fs generalizing st g with
  | nil => cases st <;> cases g <;> simp [bfwdT]
  | cons f fs ih =>
    match g, hg with
    | g0 :: gs, hg =>
      cases st with
      | none => simp [bfwdT, ih _ gs (by simpa using hg)]
      | some p => obtain ⟨p, lp⟩ := p; simp [bfwdT, ih _ gs (by simpa using hg)]

/-- **adjoint of the back substitution** -/
theorem adj_back (h : IsPairing tr ip) (st : Option (BFact R V × V)) (fs : List (BFact R V)) (g : List V)
    (hg : g.length = fs.length) :
    ipSum ip g (@bback R V (ringBlk inv tr) fs)
        - (match st with
           | some (p, lp) => ip (tr p.u • lp) ((@bback R V (ringBlk inv tr) fs).headD 0)
           | none => 0)
      = ipSum ip (@bfwdT R V (ringBlk inv tr) st fs g) (fs.map (·.b)) := by
  induction fs generalizing st g with
  | nil =>
    cases g with
    | nil => cases st with
      | none => simp [bfwdT, bback, ipSum]
      | some p => obtain ⟨p, lp⟩ := p; simp [bfwdT, bback, ipSum, h.zero_right]
    | cons _ _ => simp at hg
  | cons f fs ih =>
    match g, hg with
    | g0 :: gs, hg =>
      have ih' := fun st' => ih st' gs (by simpa using hg)
      rw [bback_cons]
      set xn := (@bback R V (ringBlk inv tr) fs).headD 0 with hxn
      cases st with
      | none =>
        simp only [bfwdT, ipSum, List.map_cons, List.headD_cons, BlkOps.act, BlkOps.tr, sub_zero]
        have := ih' (some (f, tr f.dinv • g0))
        simp only at this
        rw [← this]
        rw [← h.adj f.dinv g0 (f.b - f.u • xn), h.sub_right, ← h.adj f.u]
        abel
      | some p =>
        obtain ⟨p, lp⟩ := p
        simp only [bfwdT, ipSum, List.map_cons, List.headD_cons, BlkOps.act, BlkOps.tr, BlkOps.vsub]
        have := ih' (some (f, tr f.dinv • (g0 - tr p.u • lp)))
        simp only at this
        rw [← this]
        have e : ip g0 (f.dinv • (f.b - f.u • xn)) + ipSum ip gs (@bback R V (ringBlk inv tr) fs) - ip (tr p.u • lp) (f.dinv • (f.b - f.u • xn))
            = ip (g0 - tr p.u • lp) (f.dinv • (f.b - f.u • xn)) + ipSum ip gs (@bback R V (ringBlk inv tr) fs) := by
          rw [h.sub_left]; abel
        rw [e, ← h.adj f.dinv (g0 - tr p.u • lp) (f.b - f.u • xn), h.sub_right, ← h.adj f.u]
        abel

/-- **adjoint of the forward elimination** -/
theorem adj_fwd (h : IsPairing tr ip) (st : Option (BFact R V)) (rows : List (BRow R V)) (y : List V)
    (hy : y.length = rows.length) :
    ipSum ip y ((@bfwd R V (ringBlk inv tr) st rows).map (·.b))
      = ipSum ip (@bbackT R V (ringBlk inv tr) (@bfwd R V (ringBlk inv tr) st rows) y) (rows.map (·.b))
        - (match st, rows with
           | some p, r :: _ => ip (tr (r.l * p.dinv) • (@bbackT R V (ringBlk inv tr) (@bfwd R V (ringBlk inv tr) st rows) y).headD 0) p.b
           | _, _ => 0) := by
  induction rows generalizing st y with
  | nil => cases st <;> cases y <;> simp [bfwd, bbackT, ipSum]
  | cons r rs ih =>
    match y, hy with
    | y0 :: ys, hy =>
      have hys : ys.length = rs.length := by simpa using hy
      -- the fact produced for this row
      obtain ⟨f, hf, hfl, hfb⟩ : ∃ f : BFact R V,
          @bfwd R V (ringBlk inv tr) st (r :: rs) = f :: @bfwd R V (ringBlk inv tr) (some f) rs ∧ f.l = r.l ∧
          f.b = (match st with | some p => r.b - r.l • (p.dinv • p.b) | none => r.b) := by
        cases st with
        | none => exact ⟨_, rfl, rfl, rfl⟩
        | some p => exact ⟨_, rfl, rfl, rfl⟩
      rw [hf]
      have ih' := ih (some f) ys hys
      cases rs with
      | nil =>
        match ys, hys with
        | [], _ =>
          simp only [bfwd, bbackT, ipSum, List.map_cons, List.map_nil, List.headD_cons, add_zero]
          cases st with
          | none => simp only [hfb, sub_zero]
          | some p =>
            simp only [hfb]
            rw [h.sub_right, h.adj (r.l * p.dinv), mul_smul]
      | cons r2 rs2 =>
        obtain ⟨f2, hf2, hf2l, _⟩ : ∃ f2 : BFact R V,
            @bfwd R V (ringBlk inv tr) (some f) (r2 :: rs2) = f2 :: @bfwd R V (ringBlk inv tr) (some f2) rs2 ∧ f2.l = r2.l ∧ True :=
          ⟨_, rfl, rfl, trivial⟩
        rw [hf2] at ih' ⊢
        have hlen : ys.length = (@bfwd R V (ringBlk inv tr) (some f2) rs2).length + 1 := by
          have : ∀ (s : Option (BFact R V)) (l : List (BRow R V)), (@bfwd R V (ringBlk inv tr) s l).length = l.length := by
            intro s l; induction l generalizing s with
            | nil => cases s <;> simp [bfwd]
            | cons a l ihl => cases s <;> simp [bfwd, ihl]
          rw [this]; simpa using hys
        rw [bbackT_cons_cons inv f f2 _ y0 ys hlen]
        simp only [ipSum, List.map_cons, List.headD_cons] at ih' ⊢
        set lam' := (@bbackT R V (ringBlk inv tr) (f2 :: @bfwd R V (ringBlk inv tr) (some f2) rs2) ys) with hlam
        rw [hf2l]
        rw [ih']
        cases st with
        | none =>
          simp only [hfb, sub_zero]
          rw [h.sub_left]; abel
        | some p =>
          simp only [hfb]
          rw [h.sub_left, h.adj (r.l * p.dinv), mul_smul, h.sub_right, h.sub_right, h.sub_left]
          abel

/-- the transposed sweeps use only the cached `D⁻¹`, `U`, `L` of the facts, not the modified right-hand sides -/
def sameLU (fs fs' : List (BFact R V)) : Prop :=
  List.Forall₂ (fun a b => a.dinv = b.dinv ∧ a.u = b.u ∧ a.l = b.l) fs fs'

/-- **the transposed solve is the adjoint of the solve**: for every solution `xs` of `A x = b` and every `g`,
`Σ ⟨g_k, x_k⟩ = Σ ⟨(A⁻ᵀ g)_k, b_k⟩` with `A⁻ᵀ g` computed by the code's transposed sweeps -/
theorem bsolveT_adjoint (h : IsPairing tr ip) (rows : List (BRow R V)) (hp : BPivOK2 inv none rows)
    (xs g : List V) (hx : BSolves 0 rows xs) (hg : g.length = rows.length) :
    ipSum ip g xs = ipSum ip (@bsolveT R V (ringBlk inv tr) (@bfwd R V (ringBlk inv tr) none rows) g) (rows.map (·.b)) := by
  have hlenF : ∀ (s : Option (BFact R V)) (l : List (BRow R V)), (@bfwd R V (ringBlk inv tr) s l).length = l.length := by
    intro s l; induction l generalizing s with
    | nil => cases s <;> simp [bfwd]
    | cons a l ihl => cases s <;> simp [bfwd, ihl]
  rw [bthomas_unique inv tr rows hp xs hx]
  have h1 := adj_back inv h none (@bfwd R V (ringBlk inv tr) none rows) g (by rw [hlenF]; exact hg)
  simp only [sub_zero] at h1
  have h2 := adj_fwd inv h none rows (@bfwdT R V (ringBlk inv tr) none (@bfwd R V (ringBlk inv tr) none rows) g)
    (by rw [bfwdT_length inv _ _ _ (by rw [hlenF]; exact hg), hlenF])
  simp only [sub_zero] at h2
  simp only [bthomas, bsolveT]
  rw [h1, h2]

end adjoint
