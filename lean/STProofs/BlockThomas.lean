import STModel
import Mathlib.Algebra.Module.Basic
import Mathlib.Tactic.Abel
import Mathlib.Tactic.NoncommRing
import Mathlib.Tactic.Module
/-!
# Block-tridiagonal elimination solves its system — every number of blocks

Generic over a (non-commutative) ring `R` of blocks acting on a module `V`, with the inverse *function* a
parameter: the hypothesis `BPivOK` says that each pivot the sweep inverts satisfies `pivot · inv pivot = 1`.
The model's `bfwd` / `bback` are instantiated with the ring operations through `ringBlk`.
-/
open ST

section
variable {R V : Type} [Ring R] [AddCommGroup V] [Module R V]

/-- the block operations given by a ring acting on a module, with a chosen inverse and transpose function -/
@[reducible] def ringBlk (inv tr : R → R) : BlkOps R V :=
  { mul := (· * ·), sub := (· - ·), inv := inv, tr := tr, act := (· • ·), vsub := (· - ·) }

/-- row-wise: `L x_{i-1} + D x_i + U x_{i+1} = b` (with `xp` left of the first unknown, 0 right of the last) -/
def BSolves : V → List (BRow R V) → List V → Prop
  | _, [], [] => True
  | xp, r :: rs, x :: xs => r.l • xp + r.d • x + r.u • (xs.headD 0) = r.b ∧ BSolves x rs xs
  | _, _, _ => False

/-- every pivot the forward sweep inverts is right-invertible by `inv` -/
def BPivOK (inv : R → R) : Option (BFact R V) → List (BRow R V) → Prop
  | _, [] => True
  | none, r :: rs => (r.d * inv r.d = 1) ∧ BPivOK inv (some ⟨inv r.d, r.u, r.l, r.b⟩) rs
  | some p, r :: rs =>
      let dn := r.d - r.l * (p.dinv * p.u)
      (dn * inv dn = 1) ∧ BPivOK inv (some ⟨inv dn, r.u, r.l, r.b - r.l • (p.dinv • p.b)⟩) rs

variable (inv tr : R → R)

theorem bback_cons (f : BFact R V) (rest : List (BFact R V)) :
    @bback R V (ringBlk inv tr) (f :: rest)
      = (f.dinv • (f.b - f.u • (@bback R V (ringBlk inv tr) rest).headD 0)) :: @bback R V (ringBlk inv tr) rest := by
  simp only [bback]
  cases h : @bback R V (ringBlk inv tr) rest with
  | nil => simp [BlkOps.act]
  | cons x xs => simp [BlkOps.act, BlkOps.vsub]

theorem bthomas_some (p : BFact R V) (rows : List (BRow R V)) (hp : BPivOK inv (some p) rows) :
    let xs := @bback R V (ringBlk inv tr) (@bfwd R V (ringBlk inv tr) (some p) rows)
    BSolves (p.dinv • (p.b - p.u • xs.headD 0)) rows xs := by
  induction rows generalizing p with
  | nil => simp [bfwd, bback, BSolves]
  | cons r rs ih =>
    obtain ⟨hden, hrest⟩ := hp
    have := ih _ hrest
    simp only [bfwd, bback_cons, List.headD_cons, BlkOps.mul, BlkOps.sub, BlkOps.inv, BlkOps.act, BlkOps.vsub] at this ⊢
    refine ⟨?_, this⟩
    set dn := r.d - r.l * (p.dinv * p.u) with hdn
    set y := (@bback R V (ringBlk inv tr) (@bfwd R V (ringBlk inv tr)
      (some ⟨inv dn, r.u, r.l, r.b - r.l • (p.dinv • p.b)⟩) rs)).headD 0
    have key : ∀ w : V, r.d • inv dn • w - r.l • p.dinv • p.u • inv dn • w = w := by
      intro w
      have : (dn * inv dn) • w = w := by rw [hden, one_smul]
      rw [hdn] at this
      simpa [sub_smul, mul_smul, mul_assoc] using this
    have k := key (r.b - r.l • p.dinv • p.b - r.u • y)
    simp only [smul_sub] at k ⊢
    have e : ∀ (A X Y U b' : V), Y - X = b' - A - U → A - X + Y + U = b' := by
      intro A X Y U b' h
      have : Y = b' - A - U + X := by rw [← h]; abel
      rw [this]; abel
    exact e _ _ _ _ _ k

/-- **block Thomas elimination is correct** for every number of block rows -/
theorem bthomas_correct (rows : List (BRow R V)) (hp : BPivOK inv none rows) :
    BSolves 0 rows (@bthomas R V (ringBlk inv tr) rows) := by
  cases rows with
  | nil => simp [bthomas, bfwd, bback, BSolves]
  | cons r rs =>
    obtain ⟨hb, hrest⟩ := hp
    have := bthomas_some inv tr _ rs hrest
    simp only [bthomas, bfwd, bback_cons, List.headD_cons, BlkOps.inv] at this ⊢
    refine ⟨?_, this⟩
    set y := (@bback R V (ringBlk inv tr) (@bfwd R V (ringBlk inv tr) (some ⟨inv r.d, r.u, r.l, r.b⟩) rs)).headD 0
    have h1 : ∀ w : V, r.d • inv r.d • w = w := by
      intro w; rw [← mul_smul, hb, one_smul]
    rw [smul_zero, zero_add, h1]
    abel

theorem bsolves_length (xp : V) (rows : List (BRow R V)) (xs : List V) (h : BSolves xp rows xs) :
    xs.length = rows.length := by
  induction rows generalizing xp xs with
  | nil => cases xs <;> simp_all [BSolves]
  | cons r rs ih =>
    cases xs with
    | nil => simp [BSolves] at h
    | cons x xs => simp [ih x xs h.2]

end
