import STProofs.Alg
import STProofs.BlockThomas
import Mathlib.Tactic.Ring
import Mathlib.Tactic.FieldSimp
import Mathlib.Tactic.LinearCombination
/-!
# 2×2 and 3×3 blocks over a field: ring / module structure with the model's operations, and the code's
closed-form inverses (`Inverse2x2`, `Inverse3x3`) are right inverses whenever the determinant is non-zero.
-/
open ST

section m2
variable {K : Type} [DivRing K]
namespace ST.M2
@[ext] theorem ext' {a b : M2 K} (h0 : a.a00 = b.a00) (h1 : a.a01 = b.a01) (h2 : a.a10 = b.a10) (h3 : a.a11 = b.a11) : a = b := by
  cases a; cases b; simp_all
instance : Add (M2 K) := ⟨fun a b => ⟨a.a00 + b.a00, a.a01 + b.a01, a.a10 + b.a10, a.a11 + b.a11⟩⟩
instance : Sub (M2 K) := ⟨M2.sub⟩
instance : Neg (M2 K) := ⟨fun a => ⟨-a.a00, -a.a01, -a.a10, -a.a11⟩⟩
instance : Zero (M2 K) := ⟨⟨0, 0, 0, 0⟩⟩
instance : One (M2 K) := ⟨⟨1, 0, 0, 1⟩⟩
instance : Mul (M2 K) := ⟨M2.mul⟩
instance : NatCast (M2 K) := ⟨fun n => ⟨n, 0, 0, n⟩⟩
instance : IntCast (M2 K) := ⟨fun n => ⟨n, 0, 0, n⟩⟩
theorem mul_def (a b : M2 K) : a * b = ⟨a.a00 * b.a00 + a.a01 * b.a10, a.a00 * b.a01 + a.a01 * b.a11,
    a.a10 * b.a00 + a.a11 * b.a10, a.a10 * b.a01 + a.a11 * b.a11⟩ := rfl
theorem add_def (a b : M2 K) : a + b = ⟨a.a00 + b.a00, a.a01 + b.a01, a.a10 + b.a10, a.a11 + b.a11⟩ := rfl
theorem sub_def (a b : M2 K) : a - b = ⟨a.a00 - b.a00, a.a01 - b.a01, a.a10 - b.a10, a.a11 - b.a11⟩ := rfl
theorem neg_def (a : M2 K) : -a = ⟨-a.a00, -a.a01, -a.a10, -a.a11⟩ := rfl
theorem zero_def : (0 : M2 K) = ⟨0, 0, 0, 0⟩ := rfl
theorem one_def : (1 : M2 K) = ⟨1, 0, 0, 1⟩ := rfl
theorem natCast_def (n : ℕ) : (n : M2 K) = ⟨n, 0, 0, n⟩ := rfl
theorem intCast_def (n : ℤ) : (n : M2 K) = ⟨n, 0, 0, n⟩ := rfl

macro "m2" : tactic => `(tactic| (ext <;> simp [mul_def, add_def, sub_def, neg_def, zero_def, one_def, natCast_def, intCast_def] <;> ring))

instance : Ring (M2 K) where
  add_assoc a b c := by m2
  zero_add a := by ext <;> simp [add_def, zero_def]
  add_zero a := by ext <;> simp [add_def, zero_def]
  add_comm a b := by m2
  neg_add_cancel a := by ext <;> simp [add_def, neg_def, zero_def]
  sub_eq_add_neg a b := by m2
  mul_assoc a b c := by m2
  one_mul a := by ext <;> simp [mul_def, one_def]
  mul_one a := by ext <;> simp [mul_def, one_def]
  left_distrib a b c := by m2
  right_distrib a b c := by m2
  zero_mul a := by ext <;> simp [mul_def, zero_def]
  mul_zero a := by ext <;> simp [mul_def, zero_def]
  nsmul := nsmulRec
  zsmul := zsmulRec
  natCast_zero := by ext <;> simp [natCast_def, zero_def]
  natCast_succ n := by ext <;> simp [natCast_def, add_def, one_def]
  intCast_ofNat n := by ext <;> simp [natCast_def, intCast_def]
  intCast_negSucc n := by ext <;> simp [natCast_def, intCast_def, neg_def] <;> ring

/-- `Inverse2x2` is a right inverse whenever the determinant is a unit (over a field: non-zero) -/
theorem mul_inv (A : M2 K) (h : DivRing.U (M2.det A)) : A * M2.inv A = 1 := by
  have hd := DivRing.div_mul (1 : K) (M2.det A) h
  unfold M2.det at hd
  ext <;> simp only [mul_def, M2.inv, one_def, lit_eq, Nat.cast_one]
  · linear_combination hd
  · linear_combination (0 : K) * hd
  · linear_combination (0 : K) * hd
  · linear_combination hd

theorem inv_mul (A : M2 K) (h : DivRing.U (M2.det A)) : M2.inv A * A = 1 := by
  have hd := DivRing.div_mul (1 : K) (M2.det A) h
  unfold M2.det at hd
  ext <;> simp only [mul_def, M2.inv, one_def, lit_eq, Nat.cast_one]
  · linear_combination hd
  · linear_combination (0 : K) * hd
  · linear_combination (0 : K) * hd
  · linear_combination hd
end ST.M2

namespace ST.V2
@[ext] theorem ext' {a b : V2 K} (h0 : a.x = b.x) (h1 : a.y = b.y) : a = b := by cases a; cases b; simp_all
instance : Add (V2 K) := ⟨V2.add⟩
instance : Sub (V2 K) := ⟨V2.sub⟩
instance : Neg (V2 K) := ⟨fun a => ⟨-a.x, -a.y⟩⟩
instance : Zero (V2 K) := ⟨⟨0, 0⟩⟩
instance : SMul (M2 K) (V2 K) := ⟨M2.act⟩
theorem add_def (a b : V2 K) : a + b = ⟨a.x + b.x, a.y + b.y⟩ := rfl
theorem sub_def (a b : V2 K) : a - b = ⟨a.x - b.x, a.y - b.y⟩ := rfl
theorem neg_def (a : V2 K) : -a = ⟨-a.x, -a.y⟩ := rfl
theorem zero_def : (0 : V2 K) = ⟨0, 0⟩ := rfl
theorem smul_def (m : M2 K) (v : V2 K) : m • v = ⟨m.a00 * v.x + m.a01 * v.y, m.a10 * v.x + m.a11 * v.y⟩ := rfl

instance : AddCommGroup (V2 K) where
  add_assoc a b c := by ext <;> simp [add_def] <;> ring
  zero_add a := by ext <;> simp [add_def, zero_def]
  add_zero a := by ext <;> simp [add_def, zero_def]
  add_comm a b := by ext <;> simp [add_def] <;> ring
  neg_add_cancel a := by ext <;> simp [add_def, neg_def, zero_def]
  sub_eq_add_neg a b := by ext <;> simp [add_def, sub_def, neg_def] <;> ring
  nsmul := nsmulRec
  zsmul := zsmulRec

instance : Module (M2 K) (V2 K) where
  one_smul v := by ext <;> simp [smul_def, M2.one_def]
  mul_smul a b v := by ext <;> simp [smul_def, M2.mul_def] <;> ring
  smul_zero a := by ext <;> simp [smul_def, zero_def]
  smul_add a v w := by ext <;> simp [smul_def, add_def] <;> ring
  add_smul a b v := by ext <;> simp [smul_def, add_def, M2.add_def] <;> ring
  zero_smul v := by ext <;> simp [smul_def, zero_def, M2.zero_def]
end ST.V2

/-- the model's block operations on 2×2 blocks are the ring / module operations -/
theorem blkOps_M2 : (instBlkOpsM2V2 : BlkOps (M2 K) (V2 K)) = ringBlk M2.inv M2.transpose := rfl
end m2

section m3
variable {K : Type} [DivRing K]
namespace ST.M3
@[ext] theorem ext' {a b : M3 K} (h0 : a.a00 = b.a00) (h1 : a.a01 = b.a01) (h2 : a.a02 = b.a02)
  (h3 : a.a10 = b.a10) (h4 : a.a11 = b.a11) (h5 : a.a12 = b.a12)
  (h6 : a.a20 = b.a20) (h7 : a.a21 = b.a21) (h8 : a.a22 = b.a22) : a = b := by
  cases a; cases b; simp_all
instance : Add (M3 K) := ⟨fun a b => ⟨a.a00+b.a00,a.a01+b.a01,a.a02+b.a02,a.a10+b.a10,a.a11+b.a11,a.a12+b.a12,a.a20+b.a20,a.a21+b.a21,a.a22+b.a22⟩⟩
instance : Sub (M3 K) := ⟨M3.sub⟩
instance : Neg (M3 K) := ⟨fun a => ⟨-a.a00,-a.a01,-a.a02,-a.a10,-a.a11,-a.a12,-a.a20,-a.a21,-a.a22⟩⟩
instance : Zero (M3 K) := ⟨⟨0,0,0,0,0,0,0,0,0⟩⟩
instance : One (M3 K) := ⟨⟨1,0,0,0,1,0,0,0,1⟩⟩
instance : Mul (M3 K) := ⟨M3.mul⟩
instance : NatCast (M3 K) := ⟨fun n => ⟨n,0,0,0,n,0,0,0,n⟩⟩
instance : IntCast (M3 K) := ⟨fun n => ⟨n,0,0,0,n,0,0,0,n⟩⟩
theorem mul_def (a b : M3 K) : a * b = ⟨
  a.a00*b.a00+a.a01*b.a10+a.a02*b.a20, a.a00*b.a01+a.a01*b.a11+a.a02*b.a21, a.a00*b.a02+a.a01*b.a12+a.a02*b.a22,
  a.a10*b.a00+a.a11*b.a10+a.a12*b.a20, a.a10*b.a01+a.a11*b.a11+a.a12*b.a21, a.a10*b.a02+a.a11*b.a12+a.a12*b.a22,
  a.a20*b.a00+a.a21*b.a10+a.a22*b.a20, a.a20*b.a01+a.a21*b.a11+a.a22*b.a21, a.a20*b.a02+a.a21*b.a12+a.a22*b.a22⟩ := rfl
theorem add_def (a b : M3 K) : a + b = ⟨a.a00+b.a00,a.a01+b.a01,a.a02+b.a02,a.a10+b.a10,a.a11+b.a11,a.a12+b.a12,a.a20+b.a20,a.a21+b.a21,a.a22+b.a22⟩ := rfl
theorem sub_def (a b : M3 K) : a - b = ⟨a.a00-b.a00,a.a01-b.a01,a.a02-b.a02,a.a10-b.a10,a.a11-b.a11,a.a12-b.a12,a.a20-b.a20,a.a21-b.a21,a.a22-b.a22⟩ := rfl
theorem neg_def (a : M3 K) : -a = ⟨-a.a00,-a.a01,-a.a02,-a.a10,-a.a11,-a.a12,-a.a20,-a.a21,-a.a22⟩ := rfl
theorem zero_def : (0 : M3 K) = ⟨0,0,0,0,0,0,0,0,0⟩ := rfl
theorem one_def : (1 : M3 K) = ⟨1,0,0,0,1,0,0,0,1⟩ := rfl
theorem natCast_def (n : ℕ) : (n : M3 K) = ⟨n,0,0,0,n,0,0,0,n⟩ := rfl
theorem intCast_def (n : ℤ) : (n : M3 K) = ⟨n,0,0,0,n,0,0,0,n⟩ := rfl

macro "m3" : tactic => `(tactic| (ext <;> simp [mul_def, add_def, sub_def, neg_def, zero_def, one_def, natCast_def, intCast_def] <;> ring))

instance : Ring (M3 K) where
  add_assoc a b c := by m3
  zero_add a := by ext <;> simp [add_def, zero_def]
  add_zero a := by ext <;> simp [add_def, zero_def]
  add_comm a b := by m3
  neg_add_cancel a := by ext <;> simp [add_def, neg_def, zero_def]
  sub_eq_add_neg a b := by m3
  mul_assoc a b c := by m3
  one_mul a := by ext <;> simp [mul_def, one_def]
  mul_one a := by ext <;> simp [mul_def, one_def]
  left_distrib a b c := by m3
  right_distrib a b c := by m3
  zero_mul a := by ext <;> simp [mul_def, zero_def]
  mul_zero a := by ext <;> simp [mul_def, zero_def]
  nsmul := nsmulRec
  zsmul := zsmulRec
  natCast_zero := by ext <;> simp [natCast_def, zero_def]
  natCast_succ n := by ext <;> simp [natCast_def, add_def, one_def]
  intCast_ofNat n := by ext <;> simp [natCast_def, intCast_def]
  intCast_negSucc n := by ext <;> simp [natCast_def, intCast_def, neg_def] <;> ring

/-- `Inverse3x3` (cofactors / determinant) is a right inverse whenever the determinant is a unit -/
theorem mul_inv (A : M3 K) (h : DivRing.U (M3.det A)) : A * M3.inv A = 1 := by
  have hd := DivRing.div_mul (1 : K) (M3.det A) h
  have hdet : M3.det A = A.a00*(A.a11*A.a22 - A.a12*A.a21) + A.a01*(-(A.a10*A.a22 - A.a12*A.a20)) + A.a02*(A.a10*A.a21 - A.a11*A.a20) := rfl
  have hd' : (1 : K) / (A.a00*(A.a11*A.a22 - A.a12*A.a21) + A.a01*(-(A.a10*A.a22 - A.a12*A.a20)) + A.a02*(A.a10*A.a21 - A.a11*A.a20))
      * (A.a00*(A.a11*A.a22 - A.a12*A.a21) + A.a01*(-(A.a10*A.a22 - A.a12*A.a20)) + A.a02*(A.a10*A.a21 - A.a11*A.a20)) = 1 := by
    rw [← hdet]; exact hd
  ext <;> simp only [mul_def, M3.inv, one_def, lit_eq, Nat.cast_one]
  · linear_combination hd'
  · linear_combination (0 : K) * hd'
  · linear_combination (0 : K) * hd'
  · linear_combination (0 : K) * hd'
  · linear_combination hd'
  · linear_combination (0 : K) * hd'
  · linear_combination (0 : K) * hd'
  · linear_combination (0 : K) * hd'
  · linear_combination hd'

theorem inv_mul (A : M3 K) (h : DivRing.U (M3.det A)) : M3.inv A * A = 1 := by
  have hd := DivRing.div_mul (1 : K) (M3.det A) h
  have hdet : M3.det A = A.a00*(A.a11*A.a22 - A.a12*A.a21) + A.a01*(-(A.a10*A.a22 - A.a12*A.a20)) + A.a02*(A.a10*A.a21 - A.a11*A.a20) := rfl
  have hd' : (1 : K) / (A.a00*(A.a11*A.a22 - A.a12*A.a21) + A.a01*(-(A.a10*A.a22 - A.a12*A.a20)) + A.a02*(A.a10*A.a21 - A.a11*A.a20))
      * (A.a00*(A.a11*A.a22 - A.a12*A.a21) + A.a01*(-(A.a10*A.a22 - A.a12*A.a20)) + A.a02*(A.a10*A.a21 - A.a11*A.a20)) = 1 := by
    rw [← hdet]; exact hd
  ext <;> simp only [mul_def, M3.inv, one_def, lit_eq, Nat.cast_one]
  · linear_combination hd'
  · linear_combination (0 : K) * hd'
  · linear_combination (0 : K) * hd'
  · linear_combination (0 : K) * hd'
  · linear_combination hd'
  · linear_combination (0 : K) * hd'
  · linear_combination (0 : K) * hd'
  · linear_combination (0 : K) * hd'
  · linear_combination hd'
end ST.M3

namespace ST.V3
@[ext] theorem ext' {a b : V3 K} (h0 : a.x = b.x) (h1 : a.y = b.y) (h2 : a.z = b.z) : a = b := by cases a; cases b; simp_all
instance : Add (V3 K) := ⟨V3.add⟩
instance : Sub (V3 K) := ⟨V3.sub⟩
instance : Neg (V3 K) := ⟨fun a => ⟨-a.x, -a.y, -a.z⟩⟩
instance : Zero (V3 K) := ⟨⟨0, 0, 0⟩⟩
instance : SMul (M3 K) (V3 K) := ⟨M3.act⟩
theorem add_def (a b : V3 K) : a + b = ⟨a.x + b.x, a.y + b.y, a.z + b.z⟩ := rfl
theorem sub_def (a b : V3 K) : a - b = ⟨a.x - b.x, a.y - b.y, a.z - b.z⟩ := rfl
theorem neg_def (a : V3 K) : -a = ⟨-a.x, -a.y, -a.z⟩ := rfl
theorem zero_def : (0 : V3 K) = ⟨0, 0, 0⟩ := rfl
theorem smul_def (m : M3 K) (v : V3 K) : m • v =
  ⟨m.a00*v.x + m.a01*v.y + m.a02*v.z, m.a10*v.x + m.a11*v.y + m.a12*v.z, m.a20*v.x + m.a21*v.y + m.a22*v.z⟩ := rfl

instance : AddCommGroup (V3 K) where
  add_assoc a b c := by ext <;> simp [add_def] <;> ring
  zero_add a := by ext <;> simp [add_def, zero_def]
  add_zero a := by ext <;> simp [add_def, zero_def]
  add_comm a b := by ext <;> simp [add_def] <;> ring
  neg_add_cancel a := by ext <;> simp [add_def, neg_def, zero_def]
  sub_eq_add_neg a b := by ext <;> simp [add_def, sub_def, neg_def] <;> ring
  nsmul := nsmulRec
  zsmul := zsmulRec

instance : Module (M3 K) (V3 K) where
  one_smul v := by ext <;> simp [smul_def, M3.one_def]
  mul_smul a b v := by ext <;> simp [smul_def, M3.mul_def] <;> ring
  smul_zero a := by ext <;> simp [smul_def, zero_def]
  smul_add a v w := by ext <;> simp [smul_def, add_def] <;> ring
  add_smul a b v := by ext <;> simp [smul_def, add_def, M3.add_def] <;> ring
  zero_smul v := by ext <;> simp [smul_def, zero_def, M3.zero_def]
end ST.V3

theorem blkOps_M3 : (instBlkOpsM3V3 : BlkOps (M3 K) (V3 K)) = ringBlk M3.inv M3.transpose := rfl
end m3
