import STProofs.Hermite
import STProofs.CubicKKT
import STProofs.TimeMap
/-!
# Cost decomposition and sample fidelity of `evaluate` (C08)

* the basis rows of every order, dotted with a coefficient column, are the value and the first five derivatives of
  that polynomial (so the `p, v, a, j, s` handed to the running cost are those of the decoded trajectory);
* each quadrature node `k` of segment `i` is sampled at local time `(k/K)·T_i`, global time `start_i + (k/K)·T_i`, with
  trapezoid weight `½` at `k = 0, K` and `1` otherwise, times `T_i/K`;
* the returned cost is time cost + Σ segment integrals + waypoint cost + (ρ·energy if ρ > 0).
-/
open ST

section basis
variable {K : Type} [Field K]

/-- cubic basis rows · coefficients = value, velocity, acceleration, jerk (= 6c₃), snap (= 0), crackle (= 0) -/
theorem basis_cubic (c : Cubic.C4 K) (t : K) :
    let B := basisRows (α := K) .cubic t
    dot (B.getD 0 []) c.toList = ev c t ∧ dot (B.getD 1 []) c.toList = ev1 c t ∧ dot (B.getD 2 []) c.toList = ev2 c t ∧
    dot (B.getD 3 []) c.toList = 6 * c.c3 ∧ dot (B.getD 4 []) c.toList = 0 ∧ dot (B.getD 5 []) c.toList = 0 := by
  simp only [basisRows, Cubic.C4.toList, List.getD_cons_zero, List.getD_cons_succ, dot, ev, ev1, ev2, lit_eq]
  push_cast
  refine ⟨by ring, by ring, by ring, by ring, by ring, by ring⟩

variable [CharZero K]

theorem basis_quintic (c : Quintic.C6 K) (t : K) :
    let B := basisRows (α := K) .quintic t
    dot (B.getD 0 []) c.toList = q_ev c t ∧ dot (B.getD 1 []) c.toList = q_ev1 c t ∧ dot (B.getD 2 []) c.toList = q_ev2 c t ∧
    dot (B.getD 3 []) c.toList = q_ev3 c t ∧ dot (B.getD 4 []) c.toList = q_ev4 c t ∧ dot (B.getD 5 []) c.toList = 120 * c.c5 := by
  simp only [basisRows, Quintic.C6.toList, List.getD_cons_zero, List.getD_cons_succ, dot, q_ev, q_ev1, q_ev2, q_ev3, q_ev4, lit_eq]
  push_cast
  refine ⟨by ring, by ring, by ring, by ring, by ring, by ring⟩

theorem basis_septic (c : Septic.C8 K) (t : K) :
    let B := basisRows (α := K) .septic t
    dot (B.getD 0 []) c.toList = s_ev c t ∧ dot (B.getD 1 []) c.toList = s_ev1 c t ∧ dot (B.getD 2 []) c.toList = s_ev2 c t ∧
    dot (B.getD 3 []) c.toList = s_ev3 c t ∧ dot (B.getD 4 []) c.toList = s_ev4 c t ∧ dot (B.getD 5 []) c.toList = s_ev5 c t := by
  simp only [basisRows, Septic.C8.toList, List.getD_cons_zero, List.getD_cons_succ, dot, s_ev, s_ev1, s_ev2, s_ev3, s_ev4, s_ev5, lit_eq]
  push_cast
  refine ⟨by ring, by ring, by ring, by ring, by ring, by ring⟩

end basis

section quad
variable {K : Type} [Field K] [LinearOrder K] [FloorRing K]

/-- trapezoid weight of node `k` out of `K` -/
def trapW (K' k : Nat) : K := if k = 0 ∨ k = K' then 1 / 2 else 1

/-- **sample fidelity**: what node `k` of segment `i` hands to the running cost -/
theorem quadStep_sample (o : Order) (d K' : Nat) (run : RunFn K) (i : Nat) (T s0 : K) (blk : List (Vec K)) (acc : SegAcc K) (k : Nat) :
    let smp := (quadStep o d K' run i T s0 blk acc k).2
    smp.seg = i ∧ smp.t = (k : K) * (1 / (K' : K)) * T ∧ smp.tGlobal = s0 + (k : K) * (1 / (K' : K)) * T ∧
    smp.p = rowTimesBlock d ((basisRows o smp.t).getD 0 []) blk ∧
    smp.v = rowTimesBlock d ((basisRows o smp.t).getD 1 []) blk ∧
    smp.a = rowTimesBlock d ((basisRows o smp.t).getD 2 []) blk ∧
    smp.j = rowTimesBlock d ((basisRows o smp.t).getD 3 []) blk ∧
    smp.s = rowTimesBlock d ((basisRows o smp.t).getD 4 []) blk := by
  intro smp
  refine ⟨rfl, ?_, ?_, rfl, rfl, rfl, rfl, rfl⟩
  · simp [smp, quadStep, lit_eq]
  · simp [smp, quadStep, lit_eq]

/-- **cost of one node**: value of the running cost at the sample × trapezoid weight × `T/K` -/
theorem quadStep_cost (o : Order) (d K' : Nat) (run : RunFn K) (i : Nat) (T s0 : K) (blk : List (Vec K)) (acc : SegAcc K) (k : Nat) :
    let smp := (quadStep o d K' run i T s0 blk acc k).2
    (quadStep o d K' run i T s0 blk acc k).1.cost
      = acc.cost + (run smp.t smp.tGlobal i smp.p smp.v smp.a smp.j smp.s).val * (trapW K' k * (T * (1 / (K' : K)))) := by
  simp only [quadStep, trapW, litq, lit_eq, Bool.or_eq_true, decide_eq_true_eq]
  push_cast
  split_ifs <;> rfl

/-- cost contribution of node `k` (independent of the accumulator) -/
noncomputable def nodeCost (o : Order) (d K' : Nat) (run : RunFn K) (i : Nat) (T s0 : K) (blk : List (Vec K)) (k : Nat) : K :=
  let smp := (quadStep o d K' run i T s0 blk ⟨0, 0, 0, []⟩ k).2
  (run smp.t smp.tGlobal i smp.p smp.v smp.a smp.j smp.s).val * (trapW K' k * (T * (1 / (K' : K))))

theorem quadStep_sample_indep (o : Order) (d K' : Nat) (run : RunFn K) (i : Nat) (T s0 : K) (blk : List (Vec K)) (a b : SegAcc K) (k : Nat) :
    (quadStep o d K' run i T s0 blk a k).2 = (quadStep o d K' run i T s0 blk b k).2 := rfl

/-- the segment integral: Σ_{k=0..K} w_k · (T/K) · run(sample_k) -/
theorem quadSegment_cost (o : Order) (d K' : Nat) (run : RunFn K) (i : Nat) (T s0 : K) (blk : List (Vec K)) :
    (quadSegment o d K' run i T s0 blk).1.cost = ((List.range (K' + 1)).map (nodeCost o d K' run i T s0 blk)).sum := by
  unfold quadSegment
  have gen : ∀ (l : List Nat) (st : SegAcc K × List (Sample K)),
      (l.foldl (fun (st : SegAcc K × List (Sample K)) k =>
        let (acc', smp) := quadStep o d K' run i T s0 blk st.1 k
        (acc', st.2 ++ [smp])) st).1.cost = st.1.cost + (l.map (nodeCost o d K' run i T s0 blk)).sum := by
    intro l
    induction l with
    | nil => intro st; simp
    | cons k l ih =>
      intro st
      rw [List.foldl_cons, ih]
      have := quadStep_cost o d K' run i T s0 blk st.1 k
      simp only at this
      simp only [this, List.map_cons, List.sum_cons, nodeCost,
        quadStep_sample_indep o d K' run i T s0 blk st.1 ⟨0, 0, 0, []⟩ k]
      ring
  rw [gen]
  simp [lit_eq]

/-- one sample per node, `K+1` per segment, in node order -/
theorem quadSegment_samples (o : Order) (d K' : Nat) (run : RunFn K) (i : Nat) (T s0 : K) (blk : List (Vec K)) :
    (quadSegment o d K' run i T s0 blk).2 =
      (List.range (K' + 1)).map (fun k => (quadStep o d K' run i T s0 blk ⟨0, 0, 0, []⟩ k).2) := by
  unfold quadSegment
  have gen : ∀ (l : List Nat) (st : SegAcc K × List (Sample K)),
      (l.foldl (fun (st : SegAcc K × List (Sample K)) k =>
        let (acc', smp) := quadStep o d K' run i T s0 blk st.1 k
        (acc', st.2 ++ [smp])) st).2 = st.2 ++ l.map (fun k => (quadStep o d K' run i T s0 blk ⟨0, 0, 0, []⟩ k).2) := by
    intro l
    induction l with
    | nil => intro st; simp
    | cons k l ih =>
      intro st
      rw [List.foldl_cons, ih]
      simp only [List.map_cons, List.append_assoc, List.singleton_append]
      rfl
  rw [gen]; simp

/-- segment start times are the start time plus the elapsed durations -/
theorem segStarts_spec (t0 : K) (Ts : List K) (i : Nat) (hi : i < Ts.length) :
    (segStarts t0 Ts).getD i 0 = t0 + (Ts.take i).sum := by
  induction Ts generalizing t0 i with
  | nil => simp at hi
  | cons T Ts ih =>
    cases i with
    | zero => simp [segStarts]
    | succ j =>
      simp only [segStarts, List.getD_cons_succ, List.take_succ_cons, List.sum_cons]
      rw [ih (t0 + T) j (by simpa using hi)]; ring

/-- **C08: the returned cost** = (time cost + Σ segment integrals) + waypoint cost + (ρ·energy when ρ > 0), all evaluated at
the decoded durations / waypoints / trajectory; the two-cost overload is the three-cost one without the waypoint term -/
theorem evaluate_cost (c : Config K) (x : List K) (costs : Costs K) :
    let r := evaluate c x costs
    let dc := decode c x
    r.cost =
      ((r.segCosts.foldl (· + ·) (0 + (costs.time dc.times).1))
        + (match costs.waypoints with | none => 0 | some wf => (wf dc.waypoints).1))
        + (if 0 < c.rho then c.rho * r.energy else 0) ∧
    r.timeCost = (costs.time dc.times).1 ∧
    r.energy = (buildND c.order c.dim dc.times dc.waypoints c.startTime dc.bc).energy ∧
    r.decoded = dc := by
  refine ⟨?_, rfl, rfl, rfl⟩
  simp only [evaluate, evalCore, NumOrd.lt, decide_eq_true_eq, lit_eq, Nat.cast_zero]
  cases hw : costs.waypoints with
  | none => by_cases hr : 0 < c.rho <;> simp [hr]
  | some wf => by_cases hr : 0 < c.rho <;> simp [hr]

/-- each segment cost of the evaluation is the trapezoid sum over that segment -/
theorem evaluate_segCost (c : Config K) (x : List K) (costs : Costs K) (i : Nat) (hi : i < c.n) :
    let r := evaluate c x costs
    let dc := decode c x
    r.segCosts.getD i 0 =
      ((List.range (c.steps + 1)).map (nodeCost c.order c.dim c.steps costs.run i (dc.times.getD i 0)
        ((segStarts c.startTime dc.times).getD i 0) (r.spline.coeffs.getD i []))).sum := by
  simp only [evaluate, evalCore, List.map_map, lit_eq, Nat.cast_zero]
  rw [List.getD_eq_getElem?_getD, List.getElem?_map, List.getElem?_range hi]
  simp only [Option.map_some, Option.getD_some, Function.comp]
  exact quadSegment_cost _ _ _ _ _ _ _ _

end quad
