import STProofs.CubicKKT
/-!
# `propagateGrad` of the cubic spline is the exact adjoint of the construction map — every N

The construction map is run on dual numbers (`Dual K`): the dual part of every coefficient is its
directional derivative along the tangent carried by the inputs.  `cubic_adjoint` states: for every
upstream gradient `(gs, gT)`, every tangent `(dP, dh, dv₀, dvₙ)`,

  Σ gs·(coefficients).du + Σ gT·dh  =  ⟨propagate(gs) + gT, (dP, dh, dv₀, dvₙ)⟩ .
-/
open ST ST.Cubic

variable {K : Type} [Field K]

/-! ## list algebra -/

def segPair : List (K × K) → List K → K
  | (l, r) :: rest, x :: y :: ys => l * x + r * y + segPair rest (y :: ys)
  | _, _ => 0

theorem dot_oaddAux (c : K) (lr : List (K × K)) (xs : List K) (hlen : xs.length = lr.length + 1) :
    dot (oaddAux c lr) xs = c * xs.headD 0 + segPair lr xs := by
  induction lr generalizing c xs with
  | nil =>
    match xs, hlen with
    | [x], _ => simp [oaddAux, segPair]
  | cons p rest ih =>
    obtain ⟨l, r⟩ := p
    match xs, hlen with
    | x :: y :: ys, hlen =>
      have := ih r (y :: ys) (by simpa using hlen)
      simp only [oaddAux, dot_cons, this, segPair, List.headD_cons]
      ring

theorem dot_oadd (lr : List (K × K)) (xs : List K) (hlen : xs.length = lr.length + 1) :
    dot (oadd lr) xs = segPair lr xs := by
  simp [oadd, dot_oaddAux _ _ _ hlen]

theorem dot_zipAdd (a b x : List K) (h1 : a.length = x.length) (h2 : b.length = x.length) :
    dot (zipAdd a b) x = dot a x + dot b x := by
  induction x generalizing a b with
  | nil => simp
  | cons y ys ih =>
    match a, b, h1, h2 with
    | a0 :: as, b0 :: bs, h1, h2 =>
      simp only [zipAdd, dot_cons, ih as bs (by simpa using h1) (by simpa using h2)]; ring

/-! ## per-segment quantities of the differentiated right-hand side -/
def leftRho (s : Seg (Dual K)) (m0 m1 : K) : K := 6 * s.pd.du - s.h.du * (2 * m0 + m1)
def rightRho (s : Seg (Dual K)) (m0 m1 : K) : K := -(6 * s.pd.du) - s.h.du * (m0 + 2 * m1)

def segRho : List (Seg (Dual K)) → List K → List K → K
  | s :: ss, m0 :: m1 :: ms, l0 :: l1 :: ls =>
      l0 * leftRho s m0 m1 + l1 * rightRho s m0 m1 + segRho ss (m1 :: ms) (l1 :: ls)
  | _, _, _ => 0

theorem rho_interior (vn : Dual K) (prev : Seg (Dual K)) (rest : List (Seg (Dual K)))
    (mprev m : K) (ms : List K) (l : K) (ls : List K)
    (hm : ms.length = rest.length) (hl : ls.length = rest.length) :
    dot (l :: ls) (rhoList mprev (interiorRows vn prev rest) (m :: ms))
      = l * rightRho prev mprev m + segRho rest (m :: ms) (l :: ls) + 6 * (ls.getLastD l) * vn.du := by
  induction rest generalizing prev mprev m ms l ls with
  | nil =>
    match ms, ls, hm, hl with
    | [], [], _, _ =>
      simp only [interiorRows, rhoList, dot_cons, dot_nil_l, segRho, List.headD_nil, List.getLastD_nil]
      dual_proj
      simp [rightRho]
      ring
  | cons s rest ih =>
    match ms, ls, hm, hl with
    | m1 :: ms, l1 :: ls, hm, hl =>
      have := ih s m m1 ms l1 ls (by simpa using hm) (by simpa using hl)
      simp only [interiorRows, rhoList, dot_cons, this, segRho, List.headD_cons, List.getLastD_cons]
      dual_proj
      simp [leftRho, rightRho]
      ring

theorem rho_cubic (v0 vn : Dual K) (s : Seg (Dual K)) (rest : List (Seg (Dual K)))
    (m0 m1 : K) (ms : List K) (l0 l1 : K) (ls : List K)
    (hm : ms.length = rest.length) (hl : ls.length = rest.length) :
    dot (l0 :: l1 :: ls) (rhoList 0 (rows v0 vn (s :: rest)) (m0 :: m1 :: ms))
      = segRho (s :: rest) (m0 :: m1 :: ms) (l0 :: l1 :: ls)
        - 6 * l0 * v0.du + 6 * (ls.getLastD l1) * vn.du := by
  have := rho_interior vn s rest m0 m1 ms l1 ls hm hl
  simp only [rows, rhoList, dot_cons, this, segRho, List.headD_cons]
  dual_proj
  simp [leftRho, rightRho]
  ring

/-! ## per-segment identity: pull-back of one piece, both loops of propagateGrad -/
def Seg.re (s : Seg (Dual K)) : Seg K := ⟨s.h.re, s.p0.re, s.dp.re, s.pd.re⟩

/-- upstream gradient of one piece paired with the dual parts of its coefficients -/
def gdot (g : C4 K) (pc : C4 (Dual K)) : K :=
  g.c0 * pc.c0.du + g.c1 * pc.c1.du + g.c2 * pc.c2.du + g.c3 * pc.c3.du

def gdotC : List (C4 K) → List (C4 (Dual K)) → K
  | g :: gs, pc :: pcs => gdot g pc + gdotC gs pcs
  | _, _ => 0

theorem seg_identity [CharZero K] (h p0 p1 m0 m1 : Dual K) (g : C4 K) (l0 l1 : K) (hh : h.re ≠ 0) :
    let s : Seg (Dual K) := ⟨h, p0, p1 - p0, (p1 - p0) * (lit 1 / h)⟩
    let pc : C4 (Dual K) :=
      ⟨s.p0, s.pd - (s.h / lit 6) * (lit 2 * m0 + m1), m0 * (lit 1 / lit 2),
        (m1 - m0) * ((lit 1 / s.h) / lit 6)⟩
    let c := segContribs [Seg.re s] [g] [m0.re, m1.re] [l0, l1]
    gdot g pc - ((lamRawSeg (Seg.re s) g).1 * m0.du + (lamRawSeg (Seg.re s) g).2 * m1.du)
      + (l0 * leftRho s m0.re m1.re + l1 * rightRho s m0.re m1.re)
    = (c.map (·.1.1)).headD 0 * p0.du + (c.map (·.1.2)).headD 0 * p1.du + (c.map (·.2)).headD 0 * h.du := by
  intro s pc c
  simp only [s, pc, c, gdot, lamRawSeg, segContribs, leftRho, rightRho, Seg.re, List.map_cons, List.map_nil,
    List.headD_cons]
  dual_proj
  simp only [lit_eq]
  push_cast
  field_simp
  ring

/-! ## summing the per-segment identity along the spline -/
theorem seg_sum [CharZero K] (hs Ps Ms : List (Dual K)) (ls : List K) (gs : List (C4 K))
    (hP : Ps.length = hs.length + 1) (hM : Ms.length = hs.length + 1)
    (hl : ls.length = hs.length + 1) (hg : gs.length = hs.length)
    (hne : ∀ h ∈ hs, h.re ≠ 0) :
    let segs := mkSegs hs Ps
    let cs := segContribs (segs.map Seg.re) gs (Ms.map Dual.re) ls
    gdotC gs (closure segs Ms) - segPair (zipLam (segs.map Seg.re) gs) (Ms.map Dual.du)
        + segRho segs (Ms.map Dual.re) ls
      = segPair (cs.map (·.1)) (Ps.map Dual.du) + dot (cs.map (·.2)) (hs.map Dual.du) := by
  induction hs generalizing Ps Ms ls gs with
  | nil =>
    match gs, hg with
    | [], _ => simp [mkSegs, closure, gdotC, zipLam, segPair, segRho, segContribs]
  | cons h hs ih =>
    match Ps, Ms, ls, gs, hP, hM, hl, hg with
    | p0 :: p1 :: Ps, m0 :: m1 :: Ms, l0 :: l1 :: ls, g :: gs, hP, hM, hl, hg =>
      have hh : h.re ≠ 0 := hne h (by simp)
      have ih' := ih (p1 :: Ps) (m1 :: Ms) (l1 :: ls) gs (by simpa using hP) (by simpa using hM)
        (by simpa using hl) (by simpa using hg) (fun x hx => hne x (by simp [hx]))
      have sid := seg_identity h p0 p1 m0 m1 g l0 l1 hh
      simp only [mkSegs, closure, gdotC, List.map_cons, zipLam, segPair, segRho, segContribs,
        dot_cons] at ih' sid ⊢
      simp only [List.map_nil, List.headD_cons] at sid
      linear_combination ih' + sid

/-- symmetry of the (real part of the) cubic rows -/
theorem sym_interior (vn : Dual K) (prev : Seg (Dual K)) (rest : List (Seg (Dual K))) :
    SymAux prev.h.re ((interiorRows vn prev rest).map reRow) := by
  induction rest generalizing prev with
  | nil => simp [interiorRows, SymAux, reRow]
  | cons s rest ih => exact ⟨by simp [interiorRows, reRow], by simpa [interiorRows, reRow] using ih s⟩

theorem sym_cubic (v0 vn : Dual K) (segs : List (Seg (Dual K))) :
    SymAux 0 ((rows v0 vn segs).map reRow) := by
  cases segs with
  | nil => simp [rows, SymAux]
  | cons s rest =>
    refine ⟨by simp [rows, reRow], ?_⟩
    simpa [rows, reRow] using sym_interior vn s rest

theorem len_mkSegs {α : Type} [Num α] (hs Ps : List α) (hP : Ps.length = hs.length + 1) :
    (mkSegs hs Ps).length = hs.length := by
  induction hs generalizing Ps with
  | nil => cases Ps <;> simp [mkSegs]
  | cons h hs ih =>
    match Ps, hP with
    | p0 :: p1 :: Ps, hP => simp [mkSegs, ih (p1 :: Ps) (by simpa using hP)]

theorem len_zipLam (segs : List (Seg K)) (gs : List (C4 K)) (h : gs.length = segs.length) :
    (zipLam segs gs).length = segs.length := by
  induction segs generalizing gs with
  | nil => cases gs <;> simp [zipLam]
  | cons s ss ih =>
    match gs, h with
    | g :: gs, h => simp [zipLam, ih gs (by simpa using h)]

theorem len_segContribs (segs : List (Seg K)) (gs : List (C4 K)) (ms ls : List K)
    (hg : gs.length = segs.length) (hm : ms.length = segs.length + 1) (hl : ls.length = segs.length + 1) :
    (segContribs segs gs ms ls).length = segs.length := by
  induction segs generalizing gs ms ls with
  | nil => cases gs <;> simp [segContribs]
  | cons s ss ih =>
    match gs, ms, ls, hg, hm, hl with
    | g :: gs, m0 :: m1 :: ms, l0 :: l1 :: ls, hg, hm, hl =>
      simp [segContribs, ih gs (m1 :: ms) (l1 :: ls) (by simpa using hg) (by simpa using hm) (by simpa using hl)]

theorem rho_cubic' (hs Ps Ms : List (Dual K)) (v0 vn : Dual K) (l0 l1 : K) (ls : List K)
    (hP : Ps.length = hs.length + 1) (hM : Ms.length = hs.length + 1)
    (hl : (l0 :: l1 :: ls).length = hs.length + 1) :
    dot (l0 :: l1 :: ls) (rhoList 0 (rows v0 vn (mkSegs hs Ps)) (Ms.map Dual.re))
      = segRho (mkSegs hs Ps) (Ms.map Dual.re) (l0 :: l1 :: ls) - 6 * l0 * v0.du
        + 6 * (ls.getLastD l1) * vn.du := by
  match hs, Ps, Ms, hP, hM, hl with
  | h :: hs', p0 :: p1 :: Ps', m0 :: m1 :: Ms', hP, hM, hl =>
    have hr : (mkSegs hs' (p1 :: Ps')).length = hs'.length :=
      len_mkSegs hs' (p1 :: Ps') (by simpa using hP)
    simp only [mkSegs, List.map_cons]
    refine rho_cubic v0 vn _ (mkSegs hs' (p1 :: Ps')) m0.re m1.re (Ms'.map Dual.re) l0 l1 ls ?_ ?_
    · rw [hr]; simpa using hM
    · rw [hr]; simpa using hl

/-- **Adjoint identity for the cubic, every N ≥ 1** (core: the two linear systems enter as hypotheses). -/
theorem cubic_adjoint_core [CharZero K] (hs Ps Ms : List (Dual K)) (v0 vn : Dual K)
    (l0 l1 : K) (ls : List K) (gs : List (C4 K)) (gT : List K)
    (hP : Ps.length = hs.length + 1) (hM : Ms.length = hs.length + 1)
    (hl : (l0 :: l1 :: ls).length = hs.length + 1) (hg : gs.length = hs.length)
    (hgT : gT.length = hs.length)
    (hne : ∀ h ∈ hs, h.re ≠ 0)
    (hMs : Solves 0 (rows v0 vn (mkSegs hs Ps)) Ms)
    (hLs : SolvesR 0 ((rows v0 vn (mkSegs hs Ps)).map reRow) (l0 :: l1 :: ls)
              (oadd (zipLam ((mkSegs hs Ps).map Seg.re) gs))) :
    let segs := mkSegs hs Ps
    let cs := segContribs (segs.map Seg.re) gs (Ms.map Dual.re) (l0 :: l1 :: ls)
    gdotC gs (closure segs Ms) + dot gT (hs.map Dual.du)
      = dot (oadd (cs.map (·.1))) (Ps.map Dual.du)
        + dot (zipAdd gT (cs.map (·.2))) (hs.map Dual.du)
        + (0 - 6 * l0) * v0.du + (6 * ls.getLastD l1) * vn.du := by
  intro segs cs
  have hsegs : segs.length = hs.length := len_mkSegs hs Ps hP
  have hA := seg_sum hs Ps Ms (l0 :: l1 :: ls) gs hP hM hl hg hne
  have hB := dot_oadd (zipLam (segs.map Seg.re) gs) (Ms.map Dual.du)
    (by rw [len_zipLam _ _ (by simp [hg, hsegs])]; simp [hM, hsegs])
  have hC := sym_pair 0 0 0 _ (l0 :: l1 :: ls) (Ms.map Dual.du) _ _ (sym_cubic v0 vn segs) hLs
    (solves_projectR 0 _ Ms hMs)
  have hE := dot_oadd (cs.map (·.1)) (Ps.map Dual.du)
    (by simp only [List.length_map]
        rw [len_segContribs _ _ _ _ (by simp [hg, hsegs]) (by simp [hM, hsegs]) (by simpa [hsegs] using hl)]
        simp [hP, hsegs])
  have hF := dot_zipAdd gT (cs.map (·.2)) (hs.map Dual.du) (by simp [hgT])
    (by simp only [List.length_map]
        rw [len_segContribs _ _ _ _ (by simp [hg, hsegs]) (by simp [hM, hsegs]) (by simpa [hsegs] using hl)]
        simp [hsegs])
  have hD := rho_cubic' hs Ps Ms v0 vn l0 l1 ls hP hM hl
  simp only [Dual.zero_re, Dual.zero_du, mul_zero, sub_self, zero_mul] at hC
  rw [hE, hF]
  simp only [segs, cs] at hA hB hC hD ⊢
  linear_combination hA - hB - hC + hD

/-! ## discharging the two linear systems: the published theorem -/

theorem mkSegs_re (hs Ps : List (Dual K)) :
    (mkSegs hs Ps).map Seg.re = mkSegs (hs.map Dual.re) (Ps.map Dual.re) := by
  induction hs generalizing Ps with
  | nil => cases Ps <;> simp [mkSegs]
  | cons h hs ih =>
    match Ps with
    | [] => simp [mkSegs]
    | [_] => simp [mkSegs]
    | p0 :: p1 :: Ps =>
      simp only [mkSegs, List.map_cons, ih (p1 :: Ps)]
      congr 1

theorem interiorRows_re (vn : Dual K) (prev : Seg (Dual K)) (rest : List (Seg (Dual K))) :
    (interiorRows vn prev rest).map reRow = interiorRows vn.re (Seg.re prev) (rest.map Seg.re) := by
  induction rest generalizing prev with
  | nil =>
    simp only [interiorRows, List.map_cons, List.map_nil, reRow, Seg.re]
    dual_proj
    simp only [lit_eq]
  | cons s rest ih =>
    simp only [interiorRows, List.map_cons, reRow, ih s]
    simp only [Seg.re]
    dual_proj
    simp only [lit_eq]

theorem rows_re (v0 vn : Dual K) (segs : List (Seg (Dual K))) :
    (rows v0 vn segs).map reRow = rows v0.re vn.re (segs.map Seg.re) := by
  cases segs with
  | nil => simp [rows]
  | cons s rest =>
    simp only [rows, List.map_cons, reRow, interiorRows_re]
    simp only [Seg.re]
    dual_proj
    simp only [lit_eq]

def stRe : Option (Dual K × Dual K) → Option (K × K)
  | none => none
  | some (c, d) => some (c.re, d.re)

theorem fwd_re (st : Option (Dual K × Dual K)) (rs : List (Row (Dual K))) :
    (fwd st rs).map (fun p => (p.1.re, p.2.re)) = fwd (stRe st) (rs.map reRow) := by
  induction rs generalizing st with
  | nil => cases st <;> simp [fwd, stRe]
  | cons r rs ih =>
    cases st with
    | none => simp [fwd, stRe, reRow, ih]
    | some p => obtain ⟨c, d⟩ := p; simp [fwd, stRe, reRow, ih]

theorem back_re (l : List (Dual K × Dual K)) :
    (back l).map Dual.re = back (l.map (fun p => (p.1.re, p.2.re))) := by
  induction l with
  | nil => simp [back]
  | cons p rest ih =>
    obtain ⟨c, d⟩ := p
    rw [back_cons, List.map_cons, List.map_cons, back_cons, ← ih, headD_map_re]
    simp only [Dual.sub_re, Dual.mul_re]

theorem thomas_re (rs : List (Row (Dual K))) : (thomas rs).map Dual.re = thomas (rs.map reRow) := by
  simp only [thomas, back_re, fwd_re, stRe]

/-- pivots of a dual system are units as soon as the pivots of its real part are non-zero -/
theorem pivOK_dual (st : Option (Dual K × Dual K)) (rs : List (Row (Dual K)))
    (h : PivOK (stRe st) (rs.map reRow)) : PivOK st rs := by
  induction rs generalizing st with
  | nil => cases st <;> simp [PivOK]
  | cons r rs ih =>
    cases st with
    | none =>
      simp only [List.map_cons, stRe, PivOK] at h ⊢
      refine ⟨h.1, ih _ ?_⟩
      simpa [stRe, reRow] using h.2
    | some p =>
      obtain ⟨c, d⟩ := p
      simp only [List.map_cons, stRe, PivOK] at h ⊢
      refine ⟨by simpa [DivRing.U, reRow] using h.1, ih _ ?_⟩
      simpa [stRe, reRow] using h.2

section ordered
variable [LinearOrder K] [IsStrictOrderedRing K]

theorem allPos_of_forall (segs : List (Seg K)) (h : ∀ s ∈ segs, 0 < s.h) : AllPos segs := by
  induction segs with
  | nil => trivial
  | cons s rest ih => exact ⟨h s (by simp), ih (fun x hx => h x (by simp [hx]))⟩

theorem posList_of_forall (hs : List K) (h : ∀ x ∈ hs, 0 < x) : PosList hs := by
  induction hs with
  | nil => trivial
  | cons a rest ih => exact ⟨h a (by simp), ih (fun x hx => h x (by simp [hx]))⟩

/-- **C05 (cubic): `propagateGrad` is the exact transpose-Jacobian product of the construction map, for every
N ≥ 1, every positive duration vector, every waypoint / boundary data, every upstream gradient and every tangent.**
Left: upstream gradient paired with the dual parts (= directional derivatives) of the coefficients the
construction map produces on dual inputs, plus the explicit duration partials.  Right: the model's
`propagate` output (computed from the real parts only) paired with the tangent. -/
theorem cubic_adjoint (hs Ps : List (Dual K)) (v0 vn : Dual K) (gs : List (C4 K)) (gT : List K)
    (hpos : ∀ h ∈ hs, 0 < h.re) (hne : hs ≠ [])
    (hP : Ps.length = hs.length + 1) (hg : gs.length = hs.length) (hgT : gT.length = hs.length) :
    let segsR := mkSegs (hs.map Dual.re) (Ps.map Dual.re)
    let out := propagate v0.re vn.re segsR (knotM v0.re vn.re segsR) gs
    gdotC gs (build hs Ps v0 vn) + dot gT (hs.map Dual.du)
      = dot out.points (Ps.map Dual.du) + dot (zipAdd gT out.times) (hs.map Dual.du)
        + out.v0 * v0.du + out.vn * vn.du := by
  intro segsR out
  have hsegsR : segsR = (mkSegs hs Ps).map Seg.re := (mkSegs_re hs Ps).symm
  have hposR : AllPos segsR := by
    apply allPos_mkSegs
    apply posList_of_forall
    intro x hx
    obtain ⟨h, hh, rfl⟩ := List.mem_map.mp hx
    exact hpos h hh
  -- forward system over the dual numbers
  have hpivR := pivok_cubic v0.re vn.re segsR hposR
  have hpivD : PivOK none (rows v0 vn (mkSegs hs Ps)) := by
    apply pivOK_dual
    simpa [stRe, rows_re, ← hsegsR] using hpivR
  have hMs : Solves 0 (rows v0 vn (mkSegs hs Ps)) (knotM v0 vn (mkSegs hs Ps)) := by
    refine thomas_correct _ hpivD 0 ?_
    intro r rs h
    cases hseg : mkSegs hs Ps with
    | nil => rw [hseg] at h; simp [rows] at h
    | cons s rest => rw [hseg] at h; simp only [rows, List.cons.injEq] at h; rw [← h.1]; simp
  have hMre : (knotM v0 vn (mkSegs hs Ps)).map Dual.re = knotM v0.re vn.re segsR := by
    simp only [knotM, thomas_re, rows_re, ← hsegsR]
  -- adjoint system over K
  have hlenS : segsR.length = hs.length := by
    rw [show segsR = mkSegs (hs.map Dual.re) (Ps.map Dual.re) from rfl, len_mkSegs _ _ (by simpa using hP)]; simp
  have hlraw : (oadd (zipLam segsR gs)).length = (rows v0.re vn.re segsR).length := by
    have h1 : (zipLam segsR gs).length = segsR.length := len_zipLam _ _ (by simp [hg, hlenS])
    have h2 : ∀ (c : K) (l : List (K × K)), (oaddAux c l).length = l.length + 1 := by
      intro c l; induction l generalizing c with
      | nil => simp [oaddAux]
      | cons p rest ih => obtain ⟨a, b⟩ := p; simp [oaddAux, ih]
    have h3 : (rows v0.re vn.re segsR).length = segsR.length + 1 := by
      have := solves_length 0 _ _ (knotM_solves v0.re vn.re segsR hposR)
      have hk : ∀ (vn : K) (prev : Seg K) (rest : List (Seg K)), (interiorRows vn prev rest).length = rest.length + 1 := by
        intro vn prev rest; induction rest generalizing prev with
        | nil => simp [interiorRows]
        | cons s rest ih => simp [interiorRows, ih s]
      cases hsr : segsR with
      | nil => rw [hsr] at hlenS; simp at hlenS; exact absurd (List.length_eq_zero_iff.mp hlenS.symm) hne
      | cons s rest => simp [rows, hk]
    simp [oadd, h2, h1, h3]
  set ls := thomas (withRhs (rows v0.re vn.re segsR) (oadd (zipLam segsR gs))) with hls
  have hLs : SolvesR 0 (rows v0.re vn.re segsR) ls (oadd (zipLam segsR gs)) := by
    apply solvesR_of_withRhs _ _ _ _ hlraw
    refine thomas_correct _ (pivOK_withRhs none none _ _ hlraw (by intro c d h; simp at h) (fun _ => rfl) hpivR) 0 ?_
    intro r rs h
    cases hsr : segsR with
    | nil => rw [hsr] at hlenS; simp at hlenS; exact absurd (List.length_eq_zero_iff.mp hlenS.symm) hne
    | cons s rest =>
      rw [hsr] at h
      cases hl2 : oadd (zipLam (s :: rest) gs) with
      | nil => rw [hl2] at h; simp [rows, withRhs] at h
      | cons x xs => rw [hl2] at h; simp only [rows, withRhs, List.cons.injEq] at h; rw [← h.1]; simp
  -- shape of ls: at least two entries
  have hlsLen : ls.length = hs.length + 1 := by
    rw [solvesR_length _ _ _ _ hLs, ← hlraw]
    have h1 : (zipLam segsR gs).length = segsR.length := len_zipLam _ _ (by simp [hg, hlenS])
    have h2 : ∀ (c : K) (l : List (K × K)), (oaddAux c l).length = l.length + 1 := by
      intro c l; induction l generalizing c with
      | nil => simp [oaddAux]
      | cons p rest ih => obtain ⟨a, b⟩ := p; simp [oaddAux, ih]
    simp [oadd, h2, h1, hlenS]
  have hhs : 1 ≤ hs.length := by
    cases hs with
    | nil => exact absurd rfl hne
    | cons _ _ => simp
  obtain ⟨l0, l1, ls', hlsm⟩ : ∃ l0 l1 ls', ls = l0 :: l1 :: ls' := by
    have h2 : 2 ≤ ls.length := by omega
    match ls, h2 with
    | a :: b :: c, _ => exact ⟨a, b, c, rfl⟩
  have hLs' : SolvesR 0 (rows v0.re vn.re segsR) (l0 :: l1 :: ls') (oadd (zipLam segsR gs)) := hlsm ▸ hLs
  have hlsLen' : (l0 :: l1 :: ls').length = hs.length + 1 := hlsm ▸ hlsLen
  have hMlen : (knotM v0 vn (mkSegs hs Ps)).length = hs.length + 1 := by
    have h3 := solvesR_length _ _ _ _ hLs'
    rw [solves_length _ _ _ hMs, ← List.length_map (f := reRow), rows_re, ← hsegsR, ← h3]
    exact hlsLen'
  have core := cubic_adjoint_core hs Ps (knotM v0 vn (mkSegs hs Ps)) v0 vn l0 l1 ls' gs gT hP hMlen
      hlsLen' hg hgT (fun h hh => ne_of_gt (hpos h hh)) hMs
      (by rw [rows_re, ← hsegsR]; exact hLs')
  simp only [hMre, ← hsegsR] at core
  have hout : out = propagate v0.re vn.re segsR (knotM v0.re vn.re segsR) gs := rfl
  simp only [hout, propagate, build, ← hls, hlsm, List.headD_cons, List.getLastD_cons, lit_eq]
  push_cast
  linear_combination core

end ordered
