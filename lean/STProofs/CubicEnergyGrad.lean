import STProofs.CubicKKT
import STProofs.EnergyGrad
/-!
# C06 (cubic): the closed-form analytic energy gradients are what propagating the partials returns — every N

`getEnergyGradTimes`, `getEnergyGradInnerPoints`, `getEnergyGradBoundary` (closed forms in the coefficients) coincide
with `propagateGrad(getEnergyPartialGradByCoeffs, getEnergyPartialGradByTimes)`; with
`cubic_energy_total_derivative` they are therefore the total derivatives of the reported energy.

Key step: for the energy partials the adjoint system `A·λ = lraw` has the closed-form solution `λ = M/3` (the knot
second derivatives): `lraw = A·M/3` identically, and the tridiagonal solve is unique (`thomas_unique`).
-/
open ST ST.Cubic

namespace CubicEG

section unique
variable {R : Type} [DivRing R]

theorem thomas_unique_some (cp0 dp0 : R) (rows : List (Row R)) (hp : PivOK (some (cp0, dp0)) rows)
    (xs : List R) (xp : R) (hx : Solves xp rows xs) (hrel : xp = dp0 - cp0 * xs.headD 0) :
    xs = back (fwd (some (cp0, dp0)) rows) := by
  induction rows generalizing cp0 dp0 xs xp with
  | nil => cases xs <;> simp_all [Solves, fwd, back]
  | cons r rs ih =>
    cases xs with
    | nil => simp [Solves] at hx
    | cons x xs =>
      obtain ⟨hden, hrest⟩ := hp
      obtain ⟨hrow, hx'⟩ := hx
      simp only [List.headD_cons] at hrel
      have h1 := DivRing.div_mul (1:R) (r.b - r.a * cp0) hden
      have e1 : r.d - r.a * dp0 = (r.b - r.a * cp0) * x + r.c * xs.headD 0 := by
        rw [hrel] at hrow
        linear_combination (-1 : R) * hrow
      have hxe : x = (r.d - r.a * dp0) * (1 / (r.b - r.a * cp0)) - r.c * (1 / (r.b - r.a * cp0)) * xs.headD 0 := by
        rw [e1]
        linear_combination (-x) * h1
      have := ih _ _ hrest xs x hx' hxe
      simp only [fwd, back_cons, lit_eq, Nat.cast_one]
      rw [← this, ← hxe]

theorem thomas_unique (rows : List (Row R)) (hp : PivOK none rows) (h0 : ∀ r rs, rows = r :: rs → r.a = 0)
    (xs : List R) (xp : R) (hx : Solves xp rows xs) : xs = thomas rows := by
  cases rows with
  | nil => cases xs <;> simp_all [Solves, thomas, fwd, back]
  | cons r rs =>
    cases xs with
    | nil => simp [Solves] at hx
    | cons x xs =>
      obtain ⟨hb, hrest⟩ := hp
      obtain ⟨hrow, hx'⟩ := hx
      have ha := h0 r rs rfl
      have h1 := DivRing.div_mul (1:R) r.b hb
      have e1 : r.d = r.b * x + r.c * xs.headD 0 := by
        rw [ha] at hrow
        linear_combination (-1 : R) * hrow
      have hxe : x = r.d * (1 / r.b) - r.c * (1 / r.b) * xs.headD 0 := by
        rw [e1]
        linear_combination (-x) * h1
      have := thomas_unique_some _ _ rs hrest xs x hx' hxe
      simp only [thomas, fwd, back_cons, lit_eq, Nat.cast_one]
      rw [← this, ← hxe]

end unique

variable {K : Type} [Field K]

theorem solves_withRhs (xp : K) (rows : List (Row K)) (xs b : List K) (h : SolvesR xp rows xs b) :
    Solves xp (withRhs rows b) xs := by
  induction rows generalizing xp xs b with
  | nil =>
    match xs, b, h with
    | [], [], _ => simp [withRhs, Solves]
  | cons r rs ih =>
    match xs, b, h with
    | x :: xs, b0 :: bs, h =>
      obtain ⟨hrow, hrest⟩ := h
      exact ⟨hrow, ih x xs bs hrest⟩

/-- one closure piece -/
def piece (s : Seg K) (m0 m1 : K) : C4 K :=
  ⟨s.p0, s.pd - (s.h / 6) * (2 * m0 + m1), m0 * (1 / 2), (m1 - m0) * ((1 / s.h) / 6)⟩

theorem closure_cons (s : Seg K) (rest : List (Seg K)) (m0 m1 : K) (ms : List K) :
    closure (s :: rest) (m0 :: m1 :: ms) = piece s m0 m1 :: closure rest (m1 :: ms) := by
  simp only [closure, piece, lit_eq]; push_cast; rfl

/-- the upstream gradient used by the energy: `partialC` of every closure piece -/
def pgs : List (Seg K) → List K → List (C4 K)
  | s :: rest, m0 :: m1 :: ms => partialC s.h (piece s m0 m1) :: pgs rest (m1 :: ms)
  | _, _ => []

variable [LinearOrder K] [IsStrictOrderedRing K]

theorem lam_piece (s : Seg K) (m0 m1 : K) (hh : s.h ≠ 0) :
    lamRawSeg s (partialC s.h (piece s m0 m1)) = (s.h * (2 * m0 + m1) / 3, s.h * (m0 + 2 * m1) / 3) := by
  simp only [lamRawSeg, partialC, piece, lit_eq]
  push_cast
  refine Prod.ext ?_ ?_ <;> (simp only []; field_simp; ring)


/-- `lraw = A·(M/3)` on the interior and last rows -/
theorem lraw_interior (vn : K) (prev : Seg K) (rest : List (Seg K)) (mprev : K) (ms : List K) (carry : K)
    (hpos : AllPos rest) (hlen : ms.length = rest.length + 1)
    (hcarry : carry = prev.h * (mprev + 2 * ms.headD 0) / 3) :
    SolvesR (mprev / 3) (interiorRows vn prev rest) (ms.map (· / 3)) (oaddAux carry (zipLam rest (pgs rest ms))) := by
  induction rest generalizing prev mprev ms carry with
  | nil =>
    match ms, hlen with
    | [m], _ =>
      simp only [interiorRows, zipLam, oaddAux, List.map_cons, List.map_nil, SolvesR, List.headD_nil, and_true, lit_eq]
      simp only [List.headD_cons] at hcarry
      rw [hcarry]; push_cast; ring
  | cons s rest ih =>
    match ms, hlen with
    | m :: m' :: ms', hlen =>
      obtain ⟨hs, hpos'⟩ := hpos
      simp only [pgs, zipLam, lam_piece s m m' hs.ne', oaddAux, interiorRows, List.map_cons, SolvesR, List.headD_cons]
      refine ⟨?_, ?_⟩
      · simp only [List.headD_cons] at hcarry
        rw [hcarry]; simp only [lit_eq]; push_cast; ring
      · have := ih s m (m' :: ms') (s.h * (m + 2 * m') / 3) hpos' (by simpa using hlen) (by simp)
        simpa using this

theorem lraw_rows (v0 vn : K) (segs : List (Seg K)) (ms : List K) (hpos : AllPos segs) (hne : segs ≠ [])
    (hlen : ms.length = segs.length + 1) :
    SolvesR 0 (rows v0 vn segs) (ms.map (· / 3)) (oadd (zipLam segs (pgs segs ms))) := by
  match segs, ms, hlen, hne with
  | s :: rest, m :: m' :: ms', hlen, _ =>
    obtain ⟨hs, hpos'⟩ := hpos
    simp only [pgs, zipLam, lam_piece s m m' hs.ne', oadd, oaddAux, rows, List.map_cons, SolvesR, List.headD_cons]
    refine ⟨?_, ?_⟩
    · simp only [lit_eq]; push_cast; ring
    · have := lraw_interior vn s rest m (m' :: ms') (s.h * (m + 2 * m') / 3) hpos' (by simpa using hlen) (by simp)
      simpa using this

/-- **the adjoint variable of the energy is `M/3`** -/
theorem lam_energy (v0 vn : K) (segs : List (Seg K)) (ms : List K) (hpos : AllPos segs) (hne : segs ≠ [])
    (hlen : ms.length = segs.length + 1) :
    thomas (withRhs (rows v0 vn segs) (oadd (zipLam segs (pgs segs ms)))) = ms.map (· / 3) := by
  have hS := lraw_rows v0 vn segs ms hpos hne hlen
  have hrl : (rows v0 vn segs).length = (ms.map (· / 3)).length := (solvesR_length _ _ _ _ hS).symm
  have hbl : (oadd (zipLam segs (pgs segs ms))).length = (rows v0 vn segs).length := by
    have : ∀ (xp : K) (rws : List (Row K)) (xs b : List K), SolvesR xp rws xs b → b.length = rws.length := by
      intro xp rws
      induction rws generalizing xp with
      | nil => intro xs b h; match xs, b, h with
        | [], [], _ => rfl
      | cons r rs ih => intro xs b h; match xs, b, h with
        | x :: xs, b0 :: bs, h => simp [ih x xs bs h.2]
    exact this _ _ _ _ hS
  have hp : PivOK none (withRhs (rows v0 vn segs) (oadd (zipLam segs (pgs segs ms)))) :=
    pivOK_withRhs none none _ _ hbl (by intro c d h; simp at h) (fun _ => rfl) (pivok_cubic v0 vn segs hpos)
  refine (thomas_unique _ hp ?_ _ 0 (solves_withRhs _ _ _ _ hS)).symm
  intro r rs h
  match segs, ms, hlen, hne with
  | s :: rest, m :: m' :: ms', _, _ =>
    simp only [rows, oadd, pgs, zipLam, oaddAux, withRhs, List.cons.injEq] at h
    rw [← h.1]; simp

/-! ## the contributions of both loops in closed form -/

/-- segments as `mkSegs` produces them: positive duration, `pd = dp/h` -/
def Good : List (Seg K) → Prop
  | [] => True
  | s :: rest => (0 < s.h ∧ s.pd = s.dp * (1 / s.h)) ∧ Good rest

def expC : List (Seg K) → List K → List ((K × K) × K)
  | s :: rest, m0 :: m1 :: ms =>
      let c := piece s m0 m1
      ((12 * c.c3, -(12 * c.c3)), gradTime c - partialT s.h c) :: expC rest (m1 :: ms)
  | _, _ => []

theorem segContribs_energy (segs : List (Seg K)) (ms : List K) (hg : Good segs) (hlen : ms.length = segs.length + 1) :
    segContribs segs (pgs segs ms) ms (ms.map (· / 3)) = expC segs ms := by
  induction segs generalizing ms with
  | nil => match ms, hlen with
    | [m], _ => simp [segContribs, expC, pgs]
  | cons s rest ih =>
    match ms, hlen with
    | m0 :: m1 :: ms', hlen =>
      obtain ⟨⟨hs, hpd⟩, hg'⟩ := hg
      have ih' := ih (m1 :: ms') hg' (by simpa using hlen)
      simp only [pgs, List.map_cons, segContribs, expC] at ih' ⊢
      rw [ih']
      congr 1
      have hh : s.h ≠ 0 := hs.ne'
      simp only [partialC, piece, gradTime, partialT, lit_eq, hpd]
      push_cast
      refine Prod.ext (Prod.ext ?_ ?_) ?_ <;> (simp only []; field_simp; ring)

theorem oadd_points (carry : K) (cL : C4 K) (cs : List (C4 K)) (hc : carry = -(12 * cL.c3)) :
    oaddAux carry (cs.map (fun c => (12 * c.c3, -(12 * c.c3))))
      = gradInner (cL :: cs) ++ [-(12 * ((cL :: cs).getLast (by simp)).c3)] := by
  induction cs generalizing carry cL with
  | nil => simp [oaddAux, gradInner, hc]
  | cons c cs ih =>
    simp only [List.map_cons, oaddAux, gradInner, List.cons_append]
    rw [ih (-(12 * c.c3)) c rfl]
    simp only [lit_eq, List.getLast_cons_cons]
    rw [hc]; push_cast; congr 1; ring

end CubicEG

namespace CubicEG
variable {K : Type} [Field K] [LinearOrder K] [IsStrictOrderedRing K]

theorem good_mkSegs (hs Ps : List K) (hp : PosList hs) : Good (mkSegs hs Ps) := by
  induction hs generalizing Ps with
  | nil => cases Ps <;> simp [mkSegs, Good]
  | cons a hs ih =>
    match Ps with
    | [] => simp [mkSegs, Good]
    | [_] => simp [mkSegs, Good]
    | p0 :: p1 :: ps => exact ⟨⟨hp.1, by simp [lit_eq]⟩, ih (p1 :: ps) hp.2⟩

theorem allPos_of_good (segs : List (Seg K)) (h : Good segs) : AllPos segs := by
  induction segs with
  | nil => trivial
  | cons s rest ih => exact ⟨h.1.1, ih h.2⟩

theorem pgs_eq_zipWith (hs Ps ms : List K) :
    List.zipWith (fun T c => partialC T c) hs (closure (mkSegs hs Ps) ms) = pgs (mkSegs hs Ps) ms := by
  induction hs generalizing Ps ms with
  | nil => cases Ps <;> simp [mkSegs, pgs, closure]
  | cons h hs ih =>
    match Ps with
    | [] => simp [mkSegs, pgs, closure]
    | [_] => simp [mkSegs, pgs, closure]
    | p0 :: p1 :: ps =>
      match ms with
      | [] => simp [mkSegs, pgs, closure]
      | [_] => simp [mkSegs, pgs, closure]
      | m0 :: m1 :: ms' =>
        simp only [mkSegs, closure_cons, pgs, List.zipWith_cons_cons]
        rw [← ih (p1 :: ps) (m1 :: ms')]

theorem expC_fst (segs : List (Seg K)) (ms : List K) :
    (expC segs ms).map (·.1) = (closure segs ms).map (fun c => (12 * c.c3, -(12 * c.c3))) := by
  induction segs generalizing ms with
  | nil => cases ms <;> simp [expC, closure]
  | cons s rest ih =>
    match ms with
    | [] => simp [expC, closure]
    | [_] => simp [expC, closure]
    | m0 :: m1 :: ms' => simp only [expC, closure_cons, List.map_cons, ih (m1 :: ms')]

theorem expC_snd (hs Ps ms : List K) :
    zipAdd (List.zipWith (fun T c => partialT T c) hs (closure (mkSegs hs Ps) ms)) ((expC (mkSegs hs Ps) ms).map (·.2))
      = (closure (mkSegs hs Ps) ms).map gradTime := by
  induction hs generalizing Ps ms with
  | nil => cases Ps <;> simp [mkSegs, expC, closure, zipAdd]
  | cons h hs ih =>
    match Ps with
    | [] => simp [mkSegs, expC, closure, zipAdd]
    | [_] => simp [mkSegs, expC, closure, zipAdd]
    | p0 :: p1 :: ps =>
      match ms with
      | [] => simp [mkSegs, expC, closure, zipAdd]
      | [_] => simp [mkSegs, expC, closure, zipAdd]
      | m0 :: m1 :: ms' =>
        simp only [mkSegs, closure_cons, expC, List.zipWith_cons_cons, List.map_cons, zipAdd]
        have := ih (p1 :: ps) (m1 :: ms')
        rw [this]
        congr 1
        ring

/-- last piece, last knot value, last duration -/
theorem last_info (segs : List (Seg K)) (ms : List K) (hne : segs ≠ []) (hlen : ms.length = segs.length + 1) :
    ∃ s m0 m1, (closure segs ms).getLast? = some (piece s m0 m1) ∧ segs.getLast? = some s ∧ ms.getLast? = some m1 := by
  induction segs generalizing ms with
  | nil => exact absurd rfl hne
  | cons s rest ih =>
    match ms, hlen with
    | m0 :: m1 :: ms', hlen =>
      cases rest with
      | nil =>
        match ms', hlen with
        | [], _ => exact ⟨s, m0, m1, by rw [closure_cons]; simp [closure], rfl, rfl⟩
      | cons s' rest' =>
        obtain ⟨sl, a, b, h1, h2, h3⟩ := ih (m1 :: ms') (by simp) (by simpa using hlen)
        refine ⟨sl, a, b, ?_, ?_, ?_⟩
        · rw [closure_cons]
          match ms', hlen with
          | m2 :: ms'', _ =>
            rw [closure_cons] at h1 ⊢
            rw [List.getLast?_cons_cons]; exact h1
        · rw [List.getLast?_cons_cons]; exact h2
        · rw [List.getLast?_cons_cons]; exact h3

theorem mkSegs_getLast_h (hs Ps : List K) (hP : Ps.length = hs.length + 1) :
    hs.getLast? = (mkSegs hs Ps).getLast?.map (·.h) := by
  induction hs generalizing Ps with
  | nil => cases Ps <;> simp [mkSegs]
  | cons h hs ih =>
    match Ps, hP with
    | p0 :: p1 :: ps, hP =>
      cases hs with
      | nil => match ps, hP with
        | [], _ => simp [mkSegs]
      | cons h' hs' =>
        match ps, hP with
        | p2 :: ps', hP =>
          have := ih (p1 :: p2 :: ps') (by simpa using hP)
          simp only [mkSegs] at this ⊢
          rw [List.getLast?_cons_cons, List.getLast?_cons_cons]
          exact this

/-- everything `propagateGrad` returns for the energy partials, in closed form -/
theorem analytic_core (v0 vn : K) (segs : List (Seg K)) (hgood : Good segs) (hne : segs ≠ []) :
    let ms := knotM v0 vn segs
    let out := propagate v0 vn segs ms (pgs segs ms)
    ms.length = segs.length + 1 ∧
    out.points = oadd ((closure segs ms).map (fun c => (12 * c.c3, -(12 * c.c3)))) ∧
    out.times = (expC segs ms).map (·.2) ∧
    out.v0 = 0 - 6 * (ms.map (· / 3)).headD 0 ∧ out.vn = 6 * (ms.map (· / 3)).getLastD 0 := by
  intro ms out
  have hap := allPos_of_good _ hgood
  have hsol := knotM_solves v0 vn segs hap
  have hmlen : ms.length = segs.length + 1 := by
    rw [solves_length _ _ _ hsol]
    match segs, hne with
    | s :: rest, _ =>
      have : ∀ (prev : Seg K) (r : List (Seg K)), (interiorRows vn prev r).length = r.length + 1 := by
        intro prev r; induction r generalizing prev with
        | nil => simp [interiorRows]
        | cons a r ih => simp [interiorRows, ih]
      simp [rows, this]
  have hls := lam_energy v0 vn segs ms hap hne hmlen
  have hcontr := segContribs_energy segs ms hgood hmlen
  refine ⟨hmlen, ?_, ?_, ?_, ?_⟩
  · show (propagate v0 vn segs ms (pgs segs ms)).points = _
    simp only [propagate]; rw [hls, hcontr, expC_fst]
  · show (propagate v0 vn segs ms (pgs segs ms)).times = _
    simp only [propagate]; rw [hls, hcontr]
  · show (propagate v0 vn segs ms (pgs segs ms)).v0 = _
    simp only [propagate]; rw [hls]; simp [lit_eq]
  · show (propagate v0 vn segs ms (pgs segs ms)).vn = _
    simp only [propagate]; rw [hls]; simp [lit_eq]

theorem shape (segs : List (Seg K)) (ms : List K) (hne : segs ≠ []) (hlen : ms.length = segs.length + 1) :
    ∃ s rest m0 m1 ms', segs = s :: rest ∧ ms = m0 :: m1 :: ms' := by
  match segs, ms, hne, hlen with
  | s :: rest, m0 :: m1 :: ms', _, _ => exact ⟨s, rest, m0, m1, ms', rfl, rfl⟩

theorem cubic_analytic_grads' (hs Ps : List K) (v0 vn : K) (hpos : PosList hs) (hne : hs ≠ [])
    (hP : Ps.length = hs.length + 1) :
    (propagate v0 vn (mkSegs hs Ps) (knotM v0 vn (mkSegs hs Ps))
        (List.zipWith (fun T c => partialC T c) hs (build hs Ps v0 vn))).points
      = (gradBoundary hs (build hs Ps v0 vn)).1.p
          :: (gradInner (build hs Ps v0 vn) ++ [(gradBoundary hs (build hs Ps v0 vn)).2.p]) ∧
    zipAdd (List.zipWith (fun T c => partialT T c) hs (build hs Ps v0 vn))
        (propagate v0 vn (mkSegs hs Ps) (knotM v0 vn (mkSegs hs Ps))
          (List.zipWith (fun T c => partialC T c) hs (build hs Ps v0 vn))).times
      = (build hs Ps v0 vn).map gradTime ∧
    (propagate v0 vn (mkSegs hs Ps) (knotM v0 vn (mkSegs hs Ps))
        (List.zipWith (fun T c => partialC T c) hs (build hs Ps v0 vn))).v0 = (gradBoundary hs (build hs Ps v0 vn)).1.v ∧
    (propagate v0 vn (mkSegs hs Ps) (knotM v0 vn (mkSegs hs Ps))
        (List.zipWith (fun T c => partialC T c) hs (build hs Ps v0 vn))).vn = (gradBoundary hs (build hs Ps v0 vn)).2.v := by
  have hgood := good_mkSegs hs Ps hpos
  have hap := allPos_of_good _ hgood
  have hsegne : mkSegs hs Ps ≠ [] := by
    match hs, Ps, hne, hP with
    | _ :: _, _ :: _ :: _, _, _ => simp [mkSegs]
  obtain ⟨hmlen, hpts, htms, hv0, hvn⟩ := analytic_core v0 vn (mkSegs hs Ps) hgood hsegne
  have hgC : List.zipWith (fun T c => partialC T c) hs (build hs Ps v0 vn)
      = pgs (mkSegs hs Ps) (knotM v0 vn (mkSegs hs Ps)) := pgs_eq_zipWith hs Ps _
  rw [hgC]
  obtain ⟨sl, ma, mb, hl1, hl2, hl3⟩ := last_info (mkSegs hs Ps) (knotM v0 vn (mkSegs hs Ps)) hsegne hmlen
  have hTl : hs.getLast? = some sl.h := by rw [mkSegs_getLast_h hs Ps hP, hl2]; rfl
  have hslpos : sl.h ≠ 0 := by
    have : ∀ (l : List (Seg K)), AllPos l → ∀ s, l.getLast? = some s → 0 < s.h := by
      intro l; induction l with
      | nil => intro _ s h; simp at h
      | cons a l ih =>
        intro hp s h
        cases l with
        | nil => simp at h; rw [← h]; exact hp.1
        | cons b l' => rw [List.getLast?_cons_cons] at h; exact ih hp.2 s h
    exact (this _ hap sl hl2).ne'
  obtain ⟨s, rest, m0, m1, ms', hseg, hm⟩ := shape (mkSegs hs Ps) (knotM v0 vn (mkSegs hs Ps)) hsegne hmlen
  have hcs : build hs Ps v0 vn = closure (mkSegs hs Ps) (knotM v0 vn (mkSegs hs Ps)) := rfl
  have hcs2 : build hs Ps v0 vn = piece s m0 m1 :: closure rest (m1 :: ms') := by
    rw [hcs, hm, hseg, closure_cons]
  rw [← hcs] at hpts hl1
  have hgb : gradBoundary hs (build hs Ps v0 vn) = (⟨12 * (piece s m0 m1).c3, (0 - 4) * (piece s m0 m1).c2⟩,
      ⟨(0 - 2) * (6 * (piece sl ma mb).c3), 2 * (2 * (piece sl ma mb).c2 + 6 * (piece sl ma mb).c3 * sl.h)⟩) := by
    simp only [gradBoundary, hl1, hTl]
    rw [hcs2]
    simp [lit_eq]
  refine ⟨?_, ?_, ?_, ?_⟩
  · rw [hpts, hgb, hcs2]
    simp only [oadd, List.map_cons, oaddAux, lit_eq, Nat.cast_zero, zero_add]
    rw [oadd_points _ (piece s m0 m1) _ rfl]
    congr 2
    have : (piece s m0 m1 :: closure rest (m1 :: ms')).getLast? = some (piece sl ma mb) := by rw [← hcs2]; exact hl1
    rw [List.getLast?_eq_some_getLast (by simp)] at this
    rw [Option.some.inj this]; ring
  · rw [htms]
    exact expC_snd hs Ps _
  · rw [hv0, hgb, hm]; simp only [List.map_cons, List.headD_cons, piece]; ring
  · rw [hvn, hgb]
    have : ((knotM v0 vn (mkSegs hs Ps)).map (· / 3)).getLastD 0 = mb / 3 := by
      rw [List.getLastD_eq_getLast?, List.getLast?_map, hl3]; rfl
    rw [this]
    simp only [piece]; field_simp; ring

/-- **C06 (cubic), every N**: the closed-form analytic gradients are exactly what `propagateGrad` returns for the
energy partials -/
theorem cubic_analytic_grads (hs Ps : List K) (v0 vn : K) (hpos : PosList hs) (hne : hs ≠ [])
    (hP : Ps.length = hs.length + 1) :
    let cs := build hs Ps v0 vn
    let segs := mkSegs hs Ps
    let gC := List.zipWith (fun T c => partialC T c) hs cs
    let gT := List.zipWith (fun T c => partialT T c) hs cs
    let out := propagate v0 vn segs (knotM v0 vn segs) gC
    let gb := gradBoundary hs cs
    out.points = gb.1.p :: (gradInner cs ++ [gb.2.p]) ∧ zipAdd gT out.times = cs.map gradTime
      ∧ out.v0 = gb.1.v ∧ out.vn = gb.2.v :=
  cubic_analytic_grads' hs Ps v0 vn hpos hne hP

end CubicEG

/-! ## the published statement: analytic gradients = total derivatives of the reported energy -/
namespace CubicEG
variable {K : Type} [Field K] [LinearOrder K] [IsStrictOrderedRing K]

theorem closure_re (segs : List (Seg (Dual K))) (ms : List (Dual K)) :
    (closure segs ms).map C4.re = closure (segs.map Seg.re) (ms.map Dual.re) := by
  induction segs generalizing ms with
  | nil => cases ms <;> simp [closure]
  | cons s rest ih =>
    match ms with
    | [] => simp [closure]
    | [_] => simp [closure]
    | m0 :: m1 :: ms' =>
      simp only [closure, List.map_cons, ih (m1 :: ms')]
      congr 1

theorem build_re (hs Ps : List (Dual K)) (v0 vn : Dual K) :
    (build hs Ps v0 vn).map C4.re = build (hs.map Dual.re) (Ps.map Dual.re) v0.re vn.re := by
  simp only [build, knotM, closure_re, thomas_re, rows_re, mkSegs_re]

theorem thomas_length {α : Type} [Num α] (rows : List (Row α)) : (thomas rows).length = rows.length := by
  have hf : ∀ (st : Option (α × α)) (l : List (Row α)), (fwd st l).length = l.length := by
    intro st l
    induction l generalizing st with
    | nil => cases st <;> simp [fwd]
    | cons r rs ih => cases st with
      | none => simp [fwd, ih]
      | some p => obtain ⟨c, d⟩ := p; simp [fwd, ih]
  have hb : ∀ (l : List (α × α)), (back l).length = l.length := by
    intro l
    induction l with
    | nil => simp [back]
    | cons p rest ih =>
      obtain ⟨c, d⟩ := p
      simp only [back]
      split
      · next h => simp [← ih, h]
      · next x xs h => simp [← ih, h]
  rw [thomas, hb, hf]

theorem rows_length {α : Type} [Num α] (v0 vn : α) (segs : List (Seg α)) (hne : segs ≠ []) :
    (rows v0 vn segs).length = segs.length + 1 := by
  match segs, hne with
  | s :: rest, _ =>
    have : ∀ (prev : Seg α) (r : List (Seg α)), (interiorRows vn prev r).length = r.length + 1 := by
      intro prev r; induction r generalizing prev with
      | nil => simp [interiorRows]
      | cons a r ih => simp [interiorRows, ih]
    simp only [rows, List.length_cons, this]

theorem zipWith_re (hs : List (Dual K)) (cs : List (C4 (Dual K))) (f : K → C4 K → β) :
    List.zipWith (fun T c => f T.re (C4.re c)) hs cs = List.zipWith f (hs.map Dual.re) (cs.map C4.re) := by
  induction hs generalizing cs with
  | nil => simp
  | cons h hs ih => cases cs with
    | nil => simp
    | cons c cs => simp only [List.zipWith_cons_cons, List.map_cons, ih]

/-- **C06 (cubic), every N, complete**: the derivative of the reported energy along any tangent of durations, waypoints
and boundary velocities is the pairing of the tangent with the closed-form analytic gradients
(`getEnergyGradTimes`, `getEnergyGradInnerPoints`, `getEnergyGradBoundary`) -/
theorem cubic_energy_grad_exact (hs Ps : List (Dual K)) (v0 vn : Dual K)
    (hpos : ∀ h ∈ hs, 0 < h.re) (hne : hs ≠ []) (hP : Ps.length = hs.length + 1) :
    let csR := build (hs.map Dual.re) (Ps.map Dual.re) v0.re vn.re
    let gb := gradBoundary (hs.map Dual.re) csR
    (energy hs (build hs Ps v0 vn)).du
      = dot (gb.1.p :: (gradInner csR ++ [gb.2.p])) (Ps.map Dual.du) + dot (csR.map gradTime) (hs.map Dual.du)
        + gb.1.v * v0.du + gb.2.v * vn.du := by
  intro csR gb
  have hsegne : mkSegs hs Ps ≠ [] := by
    match hs, Ps, hne, hP with
    | _ :: _, _ :: _ :: _, _, _ => simp [mkSegs]
  have hM : (knotM v0 vn (mkSegs hs Ps)).length = hs.length + 1 := by
    rw [knotM, thomas_length, rows_length _ _ _ hsegne, len_mkSegs hs Ps hP]
  have htot := cubic_energy_total_derivative hs Ps v0 vn hpos hne hP hM
  simp only [] at htot
  rw [zipWith_re, zipWith_re, build_re] at htot
  have hposR : PosList (hs.map Dual.re) := posList_of_forall _ (by
    intro x hx; obtain ⟨a, ha, rfl⟩ := List.mem_map.mp hx; exact hpos a ha)
  obtain ⟨a1, a2, a3, a4⟩ := cubic_analytic_grads' (hs.map Dual.re) (Ps.map Dual.re) v0.re vn.re hposR
    (by simpa using hne) (by simpa using hP)
  rw [a1, a2, a3, a4] at htot
  exact htot

end CubicEG
