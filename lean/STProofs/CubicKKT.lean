import STProofs.Thomas
import Mathlib.Tactic.Linarith
import Mathlib.Tactic.Positivity
import Mathlib.Algebra.Order.Field.Basic
/-!
# The cubic spline model: pivots are positive, and the built pieces satisfy the defining conditions
(interpolation at both ends of every piece, C¹ and C² at interior knots, both boundary velocities) for
every number of segments N ≥ 1 and every positive duration vector.
-/
open ST ST.Cubic

section ordered
variable {K : Type} [Field K] [LinearOrder K] [IsStrictOrderedRing K]

def AllPos : List (Seg K) → Prop
  | [] => True
  | s :: rest => 0 < s.h ∧ AllPos rest

/-- invariant carried along the sweep: `0 ≤ c'` and `c' ≤ 1/2` (diagonal dominance) -/
theorem pivok_interior (vn : K) (prev : Seg K) (rest : List (Seg K)) (cp0 dp0 : K)
    (hprev : 0 < prev.h) (hrest : AllPos rest) (h0 : 0 ≤ cp0) (h1 : cp0 * 2 ≤ 1) :
    PivOK (some (cp0, dp0)) (interiorRows vn prev rest) := by
  induction rest generalizing prev cp0 dp0 with
  | nil =>
    simp only [interiorRows, PivOK, lit_eq, and_true]
    have : prev.h * cp0 ≤ prev.h * (1/2) := by
      apply mul_le_mul_of_nonneg_left _ hprev.le; linarith
    have : (0:K) < 2 * prev.h - prev.h * cp0 := by nlinarith
    push_cast; exact ne_of_gt this
  | cons s rest ih =>
    obtain ⟨hs, hrest'⟩ := hrest
    simp only [interiorRows, PivOK, lit_eq]
    push_cast
    have hle : prev.h * cp0 ≤ prev.h * (1/2) := by
      apply mul_le_mul_of_nonneg_left _ hprev.le; linarith
    have hden : (0:K) < 2 * (prev.h + s.h) - prev.h * cp0 := by nlinarith
    refine ⟨ne_of_gt hden, ?_⟩
    apply ih s _ _ hs hrest'
    · have := one_div_pos.mpr hden; positivity
    · rw [mul_one_div, div_mul_eq_mul_div, div_le_one hden]; nlinarith

/-- **every pivot of the cubic system is positive** for positive durations: the elimination never divides by zero -/
theorem pivok_cubic (v0 vn : K) (segs : List (Seg K)) (hpos : AllPos segs) :
    PivOK none (rows v0 vn segs) := by
  cases segs with
  | nil => simp [rows, PivOK]
  | cons s rest =>
    obtain ⟨hs, hrest⟩ := hpos
    simp only [rows, PivOK, lit_eq]
    push_cast
    refine ⟨ne_of_gt (by positivity), ?_⟩
    apply pivok_interior vn s rest _ _ hs hrest
    · positivity
    · have : s.h * (1 / (2 * s.h)) = 1/2 := by field_simp
      rw [this]; norm_num

end ordered

section field
variable {K : Type} [Field K]

/-- value and derivatives of a cubic piece at local time `t` -/
def ev (p : C4 K) (t : K) : K := p.c0 + p.c1 * t + p.c2 * t^2 + p.c3 * t^3
def ev1 (p : C4 K) (t : K) : K := p.c1 + 2 * p.c2 * t + 3 * p.c3 * t^2
def ev2 (p : C4 K) (t : K) : K := 2 * p.c2 + 6 * p.c3 * t

/-- chain conditions along consecutive (segment, piece) pairs, and the final velocity -/
def Chain (vn : K) : List (Seg K) → List (C4 K) → Prop
  | [s], [p] => ev p 0 = s.p0 ∧ ev p s.h = s.p0 + s.pd * s.h ∧ ev1 p s.h = vn
  | s :: s' :: ss, p :: p' :: ps =>
      ev p 0 = s.p0 ∧ ev p s.h = s.p0 + s.pd * s.h ∧
      ev1 p s.h = ev1 p' 0 ∧ ev2 p s.h = ev2 p' 0 ∧ Chain vn (s' :: ss) (p' :: ps)
  | _, _ => False

theorem chain_of_solves [CharZero K] (vn : K) (prev : Seg K) (rest : List (Seg K)) (mprev : K) (ms : List K)
    (hprev : prev.h ≠ 0) (hne : ∀ s ∈ rest, s.h ≠ 0)
    (hS : Solves mprev (interiorRows vn prev rest) ms) :
    Chain vn (prev :: rest) (closure (prev :: rest) (mprev :: ms)) := by
  induction rest generalizing prev mprev ms with
  | nil =>
    cases ms with
    | nil => simp [interiorRows, Solves] at hS
    | cons m0 ms' =>
      cases ms' with
      | cons _ _ => simp [interiorRows, Solves] at hS
      | nil =>
        simp only [interiorRows, Solves, lit_eq, List.headD_nil, and_true] at hS
        push_cast at hS
        simp only [closure, Chain, ev, ev1, lit_eq]
        push_cast
        refine ⟨by ring, by field_simp; ring, ?_⟩
        field_simp
        linear_combination hS
  | cons s rest ih =>
    cases ms with
    | nil => simp [interiorRows, Solves] at hS
    | cons m0 ms' =>
      simp only [interiorRows, Solves, lit_eq] at hS
      obtain ⟨hrow, hS'⟩ := hS
      have hs : s.h ≠ 0 := hne s (by simp)
      have ih' := ih s m0 ms' hs (fun x hx => hne x (by simp [hx])) hS'
      cases ms' with
      | nil => cases rest <;> simp [interiorRows, Solves] at hS'
      | cons m1 ms'' =>
        simp only [closure] at ih' ⊢
        simp only [Chain]
        refine ⟨?_, ?_, ?_, ?_, ih'⟩
        · simp [ev]
        · simp only [ev, lit_eq]; push_cast; field_simp; ring
        · simp only [ev1, lit_eq, List.headD_cons] at hrow ⊢
          push_cast at hrow ⊢
          field_simp
          linear_combination (s.h) * hrow
        · simp only [ev2, lit_eq]; push_cast; field_simp; ring

end field

section ordered2
variable {K : Type} [Field K] [LinearOrder K] [IsStrictOrderedRing K]

theorem allPos_ne (l : List (Seg K)) (h : AllPos l) : ∀ x ∈ l, x.h ≠ 0 := by
  induction l with
  | nil => simp
  | cons a l ih =>
    intro x hx
    rcases List.mem_cons.mp hx with rfl | hx
    · exact ne_of_gt h.1
    · exact ih h.2 x hx

/-- the knot second derivatives the model computes solve the cubic system -/
theorem knotM_solves (v0 vn : K) (segs : List (Seg K)) (hpos : AllPos segs) :
    Solves 0 (rows v0 vn segs) (knotM v0 vn segs) := by
  refine thomas_correct (rows v0 vn segs) (pivok_cubic v0 vn segs hpos) 0 ?_
  intro r rs h
  cases segs with
  | nil => simp [rows] at h
  | cons s rest => simp only [rows, List.cons.injEq] at h; rw [← h.1]; simp

/-- the cubic model satisfies interpolation, C¹, C² and both boundary velocities, for every N ≥ 1 -/
theorem cubic_KKT (v0 vn : K) (segs : List (Seg K)) (hpos : AllPos segs) (hne : segs ≠ []) :
    let pcs := closure segs (knotM v0 vn segs)
    Chain vn segs pcs ∧ ∀ p ps, pcs = p :: ps → ev1 p 0 = v0 := by
  cases segs with
  | nil => exact absurd rfl hne
  | cons s rest =>
    have hsol := knotM_solves v0 vn (s :: rest) hpos
    have hpos' := allPos_ne (s :: rest) hpos
    cases hm : knotM v0 vn (s :: rest) with
    | nil => rw [hm] at hsol; simp [rows, Solves] at hsol
    | cons m0 ms =>
      rw [hm] at hsol
      simp only [rows, Solves, lit_eq] at hsol
      obtain ⟨hrow0, hS⟩ := hsol
      have hc := chain_of_solves vn s rest m0 ms (hpos' s (by simp)) (fun x hx => hpos' x (by simp [hx])) hS
      refine ⟨hc, ?_⟩
      intro p ps hp
      cases ms with
      | nil => cases rest <;> simp [interiorRows, Solves] at hS
      | cons m1 ms' =>
        simp only [closure, List.cons.injEq] at hp
        rw [← hp.1]
        simp only [ev1, lit_eq, List.headD_cons] at hrow0 ⊢
        push_cast at hrow0 ⊢
        have hs : s.h ≠ 0 := hpos' s (by simp)
        field_simp
        linear_combination (-s.h) * hrow0

/-! ### the same statement in terms of the user's inputs (durations, waypoints) -/

def PosList : List K → Prop
  | [] => True
  | h :: hs => 0 < h ∧ PosList hs

/-- interpolation on both sides, C¹/C² at interior knots, end velocity: along durations, waypoints, pieces -/
def CubicSpec (vn : K) : List K → List K → List (C4 K) → Prop
  | [h], [p0, p1], [c] => ev c 0 = p0 ∧ ev c h = p1 ∧ ev1 c h = vn
  | h :: h' :: hs, p0 :: p1 :: ps, c :: c' :: cs =>
      ev c 0 = p0 ∧ ev c h = p1 ∧ ev1 c h = ev1 c' 0 ∧ ev2 c h = ev2 c' 0 ∧ CubicSpec vn (h' :: hs) (p1 :: ps) (c' :: cs)
  | _, _, _ => False

theorem allPos_mkSegs (h P : List K) (hp : PosList h) : AllPos (mkSegs h P) := by
  induction h generalizing P with
  | nil => cases P <;> simp [mkSegs, AllPos]
  | cons a hs ih =>
    match P with
    | [] => simp [mkSegs, AllPos]
    | [_] => simp [mkSegs, AllPos]
    | p0 :: p1 :: ps => exact ⟨hp.1, ih (p1 :: ps) hp.2⟩

theorem spec_of_chain (vn : K) (h P : List K) (hp : PosList h) (hlen : P.length = h.length + 1)
    (pcs : List (C4 K)) (hc : Chain vn (mkSegs h P) pcs) : CubicSpec vn h P pcs := by
  induction h generalizing P pcs with
  | nil => cases P <;> simp [mkSegs, Chain] at hc
  | cons a hs ih =>
    match P, hlen with
    | p0 :: p1 :: ps, hlen =>
      have ha : a ≠ 0 := ne_of_gt hp.1
      have hr : p0 + (p1 - p0) * (1 / a) * a = p1 := by field_simp; ring
      match hs, ps, pcs, hc, hlen with
      | [], [], [c], hc, _ =>
        simp only [mkSegs, Chain] at hc
        obtain ⟨h1, h2, h3⟩ := hc
        simp only [lit_eq, Nat.cast_one] at h2
        exact ⟨h1, by rw [h2]; exact hr, h3⟩
      | b :: hs', q :: ps', c :: c' :: cs, hc, hlen =>
        simp only [mkSegs, Chain] at hc
        obtain ⟨h1, h2, h3, h4, h5⟩ := hc
        simp only [lit_eq, Nat.cast_one] at h2
        refine ⟨h1, by rw [h2]; exact hr, h3, h4, ?_⟩
        exact ih (p1 :: q :: ps') hp.2 (by simpa using hlen) (c' :: cs) (by simpa only [mkSegs] using h5)
      | [], _ :: _, _, _, hlen => simp at hlen
      | _ :: _, [], _, _, hlen => simp at hlen
      | [], [], [], hc, _ => simp [mkSegs, Chain] at hc
      | [], [], _ :: _ :: _, hc, _ => simp [mkSegs, Chain] at hc
      | _ :: _, _ :: _, [], hc, _ => simp [mkSegs, Chain] at hc
      | _ :: _, _ :: _, [_], hc, _ => simp [mkSegs, Chain] at hc

/-- **C01/C02 (cubic), every N ≥ 1, every positive duration vector, every data**: the pieces `build` publishes
interpolate every waypoint from both sides, are C¹ and C² at every interior knot, and start / end with
the supplied boundary velocities. -/
theorem cubic_build_spec (v0 vn : K) (h P : List K) (hp : PosList h) (hne : h ≠ [])
    (hlen : P.length = h.length + 1) :
    CubicSpec vn h P (build h P v0 vn) ∧ ∀ p ps, build h P v0 vn = p :: ps → ev1 p 0 = v0 := by
  have hseg : mkSegs h P ≠ [] := by
    match h, P, hne, hlen with
    | a :: hs, p0 :: p1 :: ps, _, _ => simp [mkSegs]
  have := cubic_KKT v0 vn (mkSegs h P) (allPos_mkSegs h P hp) hseg
  exact ⟨spec_of_chain vn h P hp hlen _ this.1, this.2⟩

end ordered2
