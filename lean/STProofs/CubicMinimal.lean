import STProofs.EnergyIntegral
import STProofs.CubicKKT
import Mathlib.Analysis.Calculus.Deriv.Pow
import Mathlib.Analysis.Calculus.Deriv.Mul
import Mathlib.Analysis.Calculus.Deriv.Add
import Mathlib.Analysis.Calculus.Deriv.Shift
import Mathlib.MeasureTheory.Integral.IntervalIntegral.FundThmCalculus
import Mathlib.Tactic.Linarith
/-!
# The cubic spline is *the* minimum-acceleration interpolant (the variational statement of C02, every N)

For every competitor `g` with a continuous second derivative that passes through the same waypoints at the same knot
times with the same boundary velocities,

    reported energy of the built spline  ≤  ∫ (g'')².

Proof: per segment, `∫ (g''² − s''²) ≥ 2 ∫ s''·(g'' − s'') = 2 [F]₀ʰ` with
`F = s''·(g' − s') − s'''·(g − s)` (fundamental theorem of calculus; `s'''' = 0`); the `F` terms telescope over the
knots because `s', s''` are continuous there and `g − s` vanishes (`cubic_build_spec`), and vanish at both ends because
the boundary velocities agree.
-/
open ST ST.Cubic intervalIntegral

namespace CubicMin

/-- boundary functional of one piece at local time `τ` of the segment starting at global time `a` -/
noncomputable def F (c : C4 ℝ) (g0 g1 : ℝ → ℝ) (a τ : ℝ) : ℝ :=
  ev2 c τ * (g1 (a + τ) - ev1 c τ) - 6 * c.c3 * (g0 (a + τ) - ev c τ)

theorem hasDerivAt_ev (c : C4 ℝ) (τ : ℝ) : HasDerivAt (fun t => ev c t) (ev1 c τ) τ := by
  have h := (((hasDerivAt_const τ c.c0).add ((hasDerivAt_id τ).const_mul c.c1)).add
    (((hasDerivAt_id τ).pow 2).const_mul c.c2)).add (((hasDerivAt_id τ).pow 3).const_mul c.c3)
  refine (h.congr_of_eventuallyEq ?_).congr_deriv ?_
  · exact Filter.Eventually.of_forall (fun t => by simp [ev])
  · simp [ev1]; ring

theorem hasDerivAt_ev1 (c : C4 ℝ) (τ : ℝ) : HasDerivAt (fun t => ev1 c t) (ev2 c τ) τ := by
  have h := ((hasDerivAt_const τ c.c1).add ((hasDerivAt_id τ).const_mul (2 * c.c2))).add
    (((hasDerivAt_id τ).pow 2).const_mul (3 * c.c3))
  refine (h.congr_of_eventuallyEq ?_).congr_deriv ?_
  · exact Filter.Eventually.of_forall (fun t => by simp [ev1])
  · simp [ev2]; ring

theorem hasDerivAt_ev2 (c : C4 ℝ) (τ : ℝ) : HasDerivAt (fun t => ev2 c t) (6 * c.c3) τ := by
  have h := (hasDerivAt_const τ (2 * c.c2)).add ((hasDerivAt_id τ).const_mul (6 * c.c3))
  refine (h.congr_of_eventuallyEq ?_).congr_deriv ?_
  · exact Filter.Eventually.of_forall (fun t => by simp [ev2])
  · simp

theorem acc_eq_ev2 (c : C4 ℝ) (t : ℝ) : Cubic.acc c t = ev2 c t := rfl

/-- a competitor given by its derivative chain `g0' = g1`, `g1' = g2`, `g2` continuous -/
structure Comp (g0 g1 g2 : ℝ → ℝ) : Prop where
  d0 : ∀ t, HasDerivAt g0 (g1 t) t
  d1 : ∀ t, HasDerivAt g1 (g2 t) t
  c2 : Continuous g2

theorem hasDerivAt_F (c : C4 ℝ) (g0 g1 g2 : ℝ → ℝ) (hg : Comp g0 g1 g2) (a τ : ℝ) :
    HasDerivAt (fun t => F c g0 g1 a t) (ev2 c τ * (g2 (a + τ) - ev2 c τ)) τ := by
  have s0 : HasDerivAt (fun t => g0 (a + t)) (g1 (a + τ)) τ := by
    simpa using (hg.d0 (a + τ)).comp_const_add a τ
  have s1 : HasDerivAt (fun t => g1 (a + t)) (g2 (a + τ)) τ := by
    simpa using (hg.d1 (a + τ)).comp_const_add a τ
  have h := ((hasDerivAt_ev2 c τ).mul (s1.sub (hasDerivAt_ev1 c τ))).sub
    ((s0.sub (hasDerivAt_ev c τ)).const_mul (6 * c.c3))
  refine (h.congr_of_eventuallyEq ?_).congr_deriv ?_
  · exact Filter.Eventually.of_forall (fun t => by simp [F])
  · simp only [Pi.sub_apply]; ring

theorem continuous_ev2 (c : C4 ℝ) : Continuous (fun t => ev2 c t) := by
  unfold ev2; fun_prop

/-- **one segment**: `∫₀ʰ g''² − ∫₀ʰ s''² ≥ 2·(F(h) − F(0))` -/
theorem seg_ineq (c : C4 ℝ) (g0 g1 g2 : ℝ → ℝ) (hg : Comp g0 g1 g2) (a h : ℝ) (hh : 0 ≤ h) :
    2 * (F c g0 g1 a h - F c g0 g1 a 0)
      ≤ (∫ τ in (0:ℝ)..h, (g2 (a + τ)) ^ 2) - ∫ τ in (0:ℝ)..h, (Cubic.acc c τ) ^ 2 := by
  have hcg : Continuous (fun τ => g2 (a + τ)) := hg.c2.comp (continuous_const.add continuous_id)
  have hca := continuous_ev2 c
  have hcg2 : Continuous (fun τ => g2 (a + τ) ^ 2) := hcg.pow 2
  have hca2 : Continuous (fun τ => ev2 c τ ^ 2) := hca.pow 2
  have hftc : ∫ τ in (0:ℝ)..h, ev2 c τ * (g2 (a + τ) - ev2 c τ) = F c g0 g1 a h - F c g0 g1 a 0 :=
    integral_eq_sub_of_hasDerivAt (fun τ _ => hasDerivAt_F c g0 g1 g2 hg a τ)
      ((hca.mul (hcg.sub hca)).intervalIntegrable _ _)
  have hsub : (∫ τ in (0:ℝ)..h, (g2 (a + τ)) ^ 2) - ∫ τ in (0:ℝ)..h, (Cubic.acc c τ) ^ 2
      = ∫ τ in (0:ℝ)..h, ((g2 (a + τ)) ^ 2 - (ev2 c τ) ^ 2) := by
    exact (integral_sub (hcg2.intervalIntegrable 0 h) (hca2.intervalIntegrable 0 h)).symm
  rw [hsub, ← hftc, ← integral_const_mul]
  apply integral_mono_on hh
  · exact (continuous_const.mul (hca.mul (hcg.sub hca))).intervalIntegrable _ _
  · exact (hcg2.sub hca2).intervalIntegrable _ _
  · intro τ _
    nlinarith [sq_nonneg (g2 (a + τ) - ev2 c τ)]

/-- the competitor passes through the waypoints at the knot times starting at `a` -/
def Thru (g0 : ℝ → ℝ) : ℝ → List ℝ → List ℝ → Prop
  | a, [], [p] => g0 a = p
  | a, h :: hs, p :: ps => g0 a = p ∧ Thru g0 (a + h) hs ps
  | _, _, _ => False

theorem thru_head (g0 : ℝ → ℝ) (a : ℝ) (hs : List ℝ) (p : ℝ) (ps : List ℝ) (h : Thru g0 a hs (p :: ps)) : g0 a = p := by
  cases hs with
  | nil => cases ps with
    | nil => exact h
    | cons _ _ => exact absurd h (by simp [Thru])
  | cons _ _ => exact h.1

theorem spec_head (vn : ℝ) (hs : List ℝ) (p : ℝ) (ps : List ℝ) (c : C4 ℝ) (cs : List (C4 ℝ))
    (h : CubicSpec vn hs (p :: ps) (c :: cs)) : ev c 0 = p := by
  match hs, ps, cs, h with
  | [_], [_], [], h => exact h.1
  | _ :: _ :: _, _ :: _, _ :: _, h => exact h.1

/-- `∫ g''²` summed segment by segment (local times) -/
noncomputable def energyG (g2 : ℝ → ℝ) : ℝ → List ℝ → ℝ
  | _, [] => 0
  | a, h :: hs => (∫ τ in (0:ℝ)..h, (g2 (a + τ)) ^ 2) + energyG g2 (a + h) hs

theorem energyG_eq_integral (g2 : ℝ → ℝ) (hc : Continuous g2) (a : ℝ) (hs : List ℝ) :
    energyG g2 a hs = ∫ t in a..(a + hs.sum), (g2 t) ^ 2 := by
  induction hs generalizing a with
  | nil => simp [energyG]
  | cons h hs ih =>
    have h1 : ∫ τ in (0:ℝ)..h, (g2 (a + τ)) ^ 2 = ∫ t in a..(a + h), (g2 t) ^ 2 := by
      have := integral_comp_add_left (fun t => (g2 t) ^ 2) (a := (0:ℝ)) (b := h) a
      simpa using this
    rw [energyG, ih, h1, List.sum_cons, ← add_assoc]
    exact integral_add_adjacent_intervals ((hc.pow 2).intervalIntegrable _ _) ((hc.pow 2).intervalIntegrable _ _)

theorem min_aux (vn : ℝ) (g0 g1 g2 : ℝ → ℝ) (hg : Comp g0 g1 g2) (hs Ps : List ℝ) (cs : List (C4 ℝ)) (a : ℝ)
    (hpos : PosList hs) (hspec : CubicSpec vn hs Ps cs) (hthru : Thru g0 a hs Ps) (hend : g1 (a + hs.sum) = vn) :
    ∀ c cs', cs = c :: cs' → -(2 * F c g0 g1 a 0) ≤ energyG g2 a hs - Cubic.energyInt hs cs := by
  induction hs generalizing Ps cs a with
  | nil => cases Ps <;> cases cs <;> simp [CubicSpec] at hspec
  | cons h hs ih =>
    intro c cs' hcs
    subst hcs
    obtain ⟨hh, hpos'⟩ := hpos
    have hseg := seg_ineq c g0 g1 g2 hg a h hh.le
    cases hs with
    | nil =>
      match Ps, cs', hspec with
      | [p0, p1], [], hspec =>
        obtain ⟨e0, e1, e2⟩ := hspec
        obtain ⟨t0, t1⟩ := hthru
        simp only [Thru] at t1
        simp only [List.sum_cons, List.sum_nil, add_zero] at hend
        have hFh : F c g0 g1 a h = 0 := by simp only [F]; rw [hend, e2, t1, e1]; ring
        simp only [energyG, Cubic.energyInt, add_zero]
        rw [hFh] at hseg
        linarith
    | cons h' hs' =>
      match Ps, cs', hspec with
      | p0 :: p1 :: Ps', c' :: cs'', hspec =>
        obtain ⟨e0, e1, e2, e3, hrest⟩ := hspec
        obtain ⟨t0, hthru'⟩ := hthru
        have t1 : g0 (a + h) = p1 := thru_head g0 (a + h) _ p1 Ps' hthru'
        have ih' := ih (p1 :: Ps') (c' :: cs'') (a + h) hpos' hrest hthru'
          (by rw [← hend]; simp only [List.sum_cons]; ring_nf) c' cs'' rfl
        have hFh : F c g0 g1 a h = F c' g0 g1 (a + h) 0 := by
          have e0' : ev c' 0 = p1 := spec_head vn _ p1 Ps' c' cs'' hrest
          simp only [F, add_zero]
          rw [e2, e3, t1, e1, e0']
          ring
        have u1 : energyG g2 a (h :: h' :: hs')
            = (∫ τ in (0:ℝ)..h, (g2 (a + τ)) ^ 2) + energyG g2 (a + h) (h' :: hs') := rfl
        have u2 : Cubic.energyInt (h :: h' :: hs') (c :: c' :: cs'')
            = (∫ t in (0:ℝ)..h, (Cubic.acc c t) ^ 2) + Cubic.energyInt (h' :: hs') (c' :: cs'') := rfl
        rw [u1, u2]
        rw [hFh] at hseg
        linarith

/-- **C02 (cubic): the built spline minimises ∫(g'')² among all competitors through the same data — every N** -/
theorem cubic_minimal (hs Ps : List ℝ) (v0 vn : ℝ) (hpos : PosList hs) (hne : hs ≠ []) (hP : Ps.length = hs.length + 1)
    (g0 g1 g2 : ℝ → ℝ) (hg : Comp g0 g1 g2) (t0 : ℝ) (hthru : Thru g0 t0 hs Ps)
    (hv0 : g1 t0 = v0) (hvn : g1 (t0 + hs.sum) = vn) :
    Cubic.energy hs (build hs Ps v0 vn) ≤ ∫ t in t0..(t0 + hs.sum), (g2 t) ^ 2 := by
  obtain ⟨hspec, hfirst⟩ := cubic_build_spec v0 vn hs Ps hpos hne hP
  rw [cubic_energy_total, ← energyG_eq_integral g2 hg.c2]
  match hb : build hs Ps v0 vn with
  | [] =>
    rw [hb] at hspec
    cases hs <;> cases Ps <;> simp [CubicSpec] at hspec
  | c :: cs' =>
    have h0 := min_aux vn g0 g1 g2 hg hs Ps (build hs Ps v0 vn) t0 hpos hspec hthru hvn c cs' hb
    have hv := hfirst c cs' hb
    have hp0 : ev c 0 = g0 t0 := by
      rw [hb] at hspec
      match Ps, hP with
      | p0 :: ps, _ => rw [spec_head vn hs p0 ps c cs' hspec, thru_head g0 t0 hs p0 ps hthru]
    have hF0 : F c g0 g1 t0 0 = 0 := by
      simp only [F, add_zero]; rw [hv0, hv, hp0]; ring
    rw [hF0] at h0
    rw [hb] at h0
    linarith

end CubicMin
