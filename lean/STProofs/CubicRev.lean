import STProofs.CubicUnique
/-!
# C14 (cubic): time reversal — every N, via uniqueness

Same scheme as for the quintic: the closure of the reversed data with the reversed knot second derivatives is the
reversed, reversed-in-time closure (`closure_reverse`); continuity of the first derivative and the boundary velocities
transfer with a sign (`jf1_reverse`, `ends_reverse`); the optimality system has one solution (`closure_unique`).
-/
open ST ST.Cubic CubicEG CubicU

namespace CubicRev
variable {K : Type} [Field K] [LinearOrder K] [IsStrictOrderedRing K]

/-- C¹ at the interior knots -/
def JF1 : List K → List (C4 K) → Prop
  | h :: hs, c :: c' :: cs => ev1 c h = ev1 c' 0 ∧ JF1 hs (c' :: cs)
  | _, _ => True

/-- velocity at the end of the last piece -/
def LastV (vn : K) : List K → List (C4 K) → Prop
  | [h], [c] => ev1 c h = vn
  | _ :: h' :: hs, _ :: c' :: cs => LastV vn (h' :: hs) (c' :: cs)
  | _, _ => False

theorem piece_props (s : Seg K) (m0 m1 : K) (hh : s.h ≠ 0) :
    ev (piece s m0 m1) 0 = s.p0 ∧ ev (piece s m0 m1) s.h = s.p0 + s.pd * s.h ∧
    ev2 (piece s m0 m1) 0 = m0 ∧ ev2 (piece s m0 m1) s.h = m1 := by
  simp only [piece, ev, ev2]
  refine ⟨by ring, by field_simp; ring, by ring, by field_simp; ring⟩

theorem chain_of_closure (vn : K) (segs : List (Seg K)) (ms : List K) (hne : ∀ s ∈ segs, s.h ≠ 0)
    (hlen : ms.length = segs.length + 1) (hne0 : segs ≠ [])
    (hj : JF1 (segs.map (·.h)) (closure segs ms)) (hl : LastV vn (segs.map (·.h)) (closure segs ms)) :
    Chain vn segs (closure segs ms) := by
  induction segs generalizing ms with
  | nil => exact absurd rfl hne0
  | cons s rest ih =>
    match ms, hlen with
    | m0 :: m1 :: ms', hlen =>
      have hs : s.h ≠ 0 := hne s (by simp)
      obtain ⟨a0, a1, a2, a3⟩ := piece_props s m0 m1 hs
      cases rest with
      | nil =>
        match ms', hlen with
        | [], _ =>
          rw [closure_cons] at hl ⊢
          simp only [closure, List.map_cons, List.map_nil, LastV] at hl ⊢
          exact ⟨a0, a1, hl⟩
      | cons s' rest' =>
        match ms', hlen with
        | m2 :: ms'', hlen =>
          rw [closure_cons, closure_cons] at hj hl ⊢
          simp only [List.map_cons, JF1, LastV] at hj hl
          have ih' := ih (m1 :: m2 :: ms'') (fun x hx => hne x (by simp [hx])) (by simpa using hlen) (by simp)
            (by rw [closure_cons]; simpa [List.map_cons] using hj.2) (by rw [closure_cons]; simpa [List.map_cons] using hl)
          rw [closure_cons] at ih'
          have hs' : s'.h ≠ 0 := hne s' (by simp)
          obtain ⟨b0, b1, b2, b3⟩ := piece_props s' m1 m2 hs'
          exact ⟨a0, a1, hj.1, by rw [a3, b2], ih'⟩

/-- **uniqueness in closure form** -/
theorem closure_unique (hs Ps : List K) (v0 vn : K) (ms : List K) (hpos : PosList hs) (hne0 : hs ≠ [])
    (hP : Ps.length = hs.length + 1) (hlen : ms.length = hs.length + 1)
    (hj : JF1 hs (closure (mkSegs hs Ps) ms)) (hl : LastV vn hs (closure (mkSegs hs Ps) ms))
    (hv : ∀ c cs, closure (mkSegs hs Ps) ms = c :: cs → ev1 c 0 = v0) :
    closure (mkSegs hs Ps) ms = build hs Ps v0 vn := by
  have hap := allPos_mkSegs hs Ps hpos
  have hsl : (mkSegs hs Ps).length = hs.length := len_mkSegs hs Ps hP
  have hmap : (mkSegs hs Ps).map (·.h) = hs := by
    have : ∀ (a b : List K), b.length = a.length + 1 → (mkSegs a b).map (·.h) = a := by
      intro a
      induction a with
      | nil => intro b _; cases b <;> simp [mkSegs]
      | cons x xs ih => intro b hb; match b, hb with
        | p0 :: p1 :: b', hb => simp [mkSegs, ih (p1 :: b') (by simpa using hb)]
    exact this hs Ps hP
  have hsne : mkSegs hs Ps ≠ [] := by
    intro e; rw [e] at hsl; simp at hsl; exact hne0 (List.eq_nil_of_length_eq_zero hsl.symm)
  have hc := chain_of_closure vn (mkSegs hs Ps) ms (allPos_ne _ hap) (by rw [hsl, hlen]) hsne
    (by rw [hmap]; exact hj) (by rw [hmap]; exact hl)
  match hcl : closure (mkSegs hs Ps) ms with
  | [] => rw [hcl] at hc; cases hm : mkSegs hs Ps with
    | nil => exact absurd hm hsne
    | cons a l => rw [hm] at hc; cases l <;> simp [Chain] at hc
  | c :: cs =>
    rw [hcl] at hc
    exact chain_unique v0 vn _ hap c cs hc (hv c cs hcl)

/-! ## reversal -/

def revC (h : K) (c : C4 K) : C4 K := ⟨ev c h, -(ev1 c h), ev2 c h / 2, -c.c3⟩

theorem piece_rev (h p0 p1 m0 m1 : K) (hh : h ≠ 0) :
    piece (⟨h, p1, p0 - p1, (p0 - p1) * (1 / h)⟩ : Seg K) m1 m0
      = revC h (piece (⟨h, p0, p1 - p0, (p1 - p0) * (1 / h)⟩ : Seg K) m0 m1) := by
  apply C4_ext <;> (simp only [piece, revC, ev, ev1, ev2]; field_simp; try ring)

theorem energySeg_rev (h : K) (c : C4 K) : energySeg h (revC h c) = energySeg h c := by
  simp only [energySeg, revC, ev, ev1, ev2, lit_eq]; ring

theorem mkSegs_snoc (A B : List K) (h b q : K) (hl : B.length = A.length) :
    mkSegs (A ++ [h]) (B ++ [b, q]) = mkSegs A (B ++ [b]) ++ [⟨h, b, q - b, (q - b) * (1 / h)⟩] := by
  induction A generalizing B with
  | nil => match B, hl with
    | [], _ => simp [mkSegs, lit_eq]
  | cons a A ih =>
    match B, hl with
    | p :: B', hl =>
      cases B' with
      | nil =>
        have : A = [] := List.eq_nil_of_length_eq_zero (by simpa using hl.symm)
        subst this
        simp [mkSegs, lit_eq]
      | cons p' B'' =>
        have := ih (p' :: B'') (by simpa using hl)
        simp only [List.cons_append, mkSegs] at this ⊢
        rw [this]

theorem closure_snoc (S : List (Seg K)) (s : Seg K) (Kn : List K) (kl k : K) (hl : Kn.length = S.length) :
    closure (S ++ [s]) (Kn ++ [kl, k]) = closure S (Kn ++ [kl]) ++ [piece s kl k] := by
  induction S generalizing Kn with
  | nil => match Kn, hl with
    | [], _ => simp [closure_cons, closure]
  | cons a S ih =>
    match Kn, hl with
    | k0 :: Kn', hl =>
      cases Kn' with
      | nil =>
        have : S = [] := List.eq_nil_of_length_eq_zero (by simpa using hl.symm)
        subst this
        simp only [List.nil_append, List.cons_append]
        rw [closure_cons, closure_cons, closure_cons]; simp [closure]
      | cons k1 Kn'' =>
        have := ih (k1 :: Kn'') (by simpa using hl)
        simp only [List.cons_append] at this ⊢
        rw [closure_cons, closure_cons, this]
        rfl

theorem closure_reverse (hs Ps ms : List K) (hne : ∀ h ∈ hs, h ≠ 0)
    (hP : Ps.length = hs.length + 1) (hk : ms.length = hs.length + 1) :
    closure (mkSegs hs.reverse Ps.reverse) ms.reverse
      = (List.zipWith revC hs (closure (mkSegs hs Ps) ms)).reverse := by
  induction hs generalizing Ps ms with
  | nil =>
    match Ps, ms, hP, hk with
    | [_], [_], _, _ => simp [mkSegs, closure]
  | cons h hs ih =>
    match Ps, ms, hP, hk with
    | p0 :: p1 :: Ps', m0 :: m1 :: ms', hP, hk =>
      have ih' := ih (p1 :: Ps') (m1 :: ms') (fun x hx => hne x (by simp [hx])) (by simpa using hP) (by simpa using hk)
      have hh : h ≠ 0 := hne h (by simp)
      have hP' : Ps'.length = hs.length := by simpa using hP
      have hk' : ms'.length = hs.length := by simpa using hk
      have hlen2 : (mkSegs hs.reverse (Ps'.reverse ++ [p1])).length = hs.length := by
        rw [len_mkSegs _ _ (by simp [hP'])]; simp
      simp only [List.reverse_cons, List.append_assoc, List.cons_append, List.nil_append] at ih' ⊢
      rw [mkSegs_snoc hs.reverse Ps'.reverse h p1 p0 (by simp [hP']),
        closure_snoc _ _ ms'.reverse m1 m0 (by rw [hlen2]; simp [hk']), ih']
      simp only [mkSegs, closure_cons, List.zipWith_cons_cons, List.reverse_cons, lit_eq]
      rw [piece_rev h p0 p1 m0 m1 hh]
      simp only [Nat.cast_one]

theorem jf1_snoc (hs : List K) (cs : List (C4 K)) (h : K) (c c' : C4 K) (hl : cs.length = hs.length)
    (hj : JF1 (hs ++ [h]) (cs ++ [c])) (j1 : ev1 c h = ev1 c' 0) (h' : K) :
    JF1 (hs ++ [h, h']) (cs ++ [c, c']) := by
  induction hs generalizing cs with
  | nil => match cs, hl with
    | [], _ => exact ⟨j1, trivial⟩
  | cons a hs ih =>
    match cs, hl with
    | d :: cs', hl =>
      cases hs with
      | nil =>
        match cs', hl with
        | [], _ => exact ⟨hj.1, j1, trivial⟩
      | cons b hs' =>
        match cs', hl with
        | d' :: cs'', hl => exact ⟨hj.1, ih (d' :: cs'') (by simpa using hl) hj.2⟩

theorem jf1_reverse (hs : List K) (cs : List (C4 K)) (hl : cs.length = hs.length) (hj : JF1 hs cs) :
    JF1 hs.reverse (List.zipWith revC hs cs).reverse := by
  induction hs generalizing cs with
  | nil => simp [JF1]
  | cons h hs ih =>
    match cs, hl with
    | c :: cs', hl =>
      cases hs with
      | nil => match cs', hl with
        | [], _ => simp [JF1]
      | cons h' hs' =>
        match cs', hl with
        | c' :: cs'', hl =>
          obtain ⟨j1, hrest⟩ := hj
          have ih' := ih (c' :: cs'') (by simpa using hl) hrest
          simp only [List.reverse_cons, List.zipWith_cons_cons, List.append_assoc, List.cons_append, List.nil_append] at ih' ⊢
          apply jf1_snoc hs'.reverse (List.zipWith revC hs' cs'').reverse h' (revC h' c') (revC h c)
            (by simp at hl ⊢; omega) ih'
          simp only [revC, ev1, ev, ev2] at j1 ⊢
          linear_combination j1

/-- the last piece of the reversed list is the reversed first piece; the first is the reversed last -/
theorem ends_reverse (v0 vn : K) (hs : List K) (cs : List (C4 K)) (hl : cs.length = hs.length) (hne0 : hs ≠ [])
    (hv : ∀ c cs', cs = c :: cs' → ev1 c 0 = v0) (hlast : LastV vn hs cs) :
    LastV (-v0) hs.reverse (List.zipWith revC hs cs).reverse ∧
    ∀ r rs, (List.zipWith revC hs cs).reverse = r :: rs → ev1 r 0 = -vn := by
  induction hs generalizing cs v0 with
  | nil => exact absurd rfl hne0
  | cons h hs ih =>
    match cs, hl with
    | c :: cs', hl =>
      have hc0 : ev1 c 0 = v0 := hv c cs' rfl
      cases hs with
      | nil =>
        match cs', hl with
        | [], _ =>
          simp only [LastV] at hlast
          simp only [List.zipWith_cons_cons, List.zipWith_nil_right, List.reverse_cons, List.reverse_nil, List.nil_append,
            LastV]
          refine ⟨?_, ?_⟩
          · simp only [revC, ev1, ev, ev2] at hc0 ⊢; linear_combination (-1 : K) * hc0
          · intro r rs e
            simp only [List.cons.injEq] at e
            rw [← e.1]
            simp only [revC, ev1] at hlast ⊢; linear_combination (-1 : K) * hlast
      | cons h' hs' =>
        match cs', hl with
        | c' :: cs'', hl =>
          simp only [LastV] at hlast
          obtain ⟨_, i2⟩ := ih (ev1 c' 0) (c' :: cs'') (by simpa using hl) (by simp)
            (by intro x xs e; simp only [List.cons.injEq] at e; rw [← e.1]) hlast
          simp only [List.reverse_cons, List.zipWith_cons_cons, List.append_assoc, List.cons_append, List.nil_append] at i2 ⊢
          refine ⟨?_, ?_⟩
          · -- the last element of `… ++ [revC h c]`
            have : ∀ (A : List K) (B : List (C4 K)) (x y : K) (p q : C4 K), A.length = B.length →
                LastV (-v0) [y] [q] → LastV (-v0) (A ++ [x, y]) (B ++ [p, q]) := by
              intro A
              induction A with
              | nil => intro B x y p q hAB hq; match B, hAB with
                | [], _ => exact hq
              | cons a A ihA =>
                intro B x y p q hAB hq
                match B, hAB with
                | b :: B', hAB =>
                  cases A with
                  | nil => match B', hAB with
                    | [], _ => exact hq
                  | cons a' A' => match B', hAB with
                    | b' :: B'', hAB => exact ihA (b' :: B'') x y p q (by simpa using hAB) hq
            apply this hs'.reverse (List.zipWith revC hs' cs'').reverse h' h (revC h' c') (revC h c)
              (by simp at hl ⊢; omega)
            simp only [LastV, revC, ev1, ev, ev2] at hc0 ⊢
            linear_combination (-1 : K) * hc0
          · intro r rs e
            cases hz : (List.zipWith revC hs' cs'').reverse with
            | nil =>
              rw [hz] at e i2
              simp only [List.nil_append, List.cons.injEq] at e
              exact i2 (revC h' c') [] (by simp) |> fun t => by rw [← e.1]; exact t
            | cons z zs =>
              rw [hz] at e i2
              simp only [List.cons_append, List.cons.injEq] at e
              rw [← e.1]
              exact i2 z (zs ++ [revC h' c']) (by simp)

/-- **C14 (cubic): time reversal** -/
theorem build_reverse (hs Ps : List K) (v0 vn : K) (hpos : PosList hs) (hne0 : hs ≠ []) (hP : Ps.length = hs.length + 1) :
    build hs.reverse Ps.reverse (-vn) (-v0) = (List.zipWith revC hs (build hs Ps v0 vn)).reverse := by
  obtain ⟨hspec, hfirst⟩ := cubic_build_spec v0 vn hs Ps hpos hne0 hP
  have hne : ∀ h ∈ hs, h ≠ 0 := by
    have : ∀ (l : List K), PosList l → ∀ y ∈ l, y ≠ 0 := by
      intro l; induction l with
      | nil => intro _ y hy; simp at hy
      | cons a l ih => intro hp y hy; rcases List.mem_cons.mp hy with rfl | h'
                       · exact hp.1.ne'
                       · exact ih hp.2 y h'
    exact this hs hpos
  set ms := knotM v0 vn (mkSegs hs Ps) with hms
  have hb : build hs Ps v0 vn = closure (mkSegs hs Ps) ms := rfl
  have hsegne : mkSegs hs Ps ≠ [] := by
    match hs, Ps, hne0, hP with
    | _ :: _, _ :: _ :: _, _, _ => simp [mkSegs]
  have hmlen : ms.length = hs.length + 1 := by
    rw [hms, knotM, CubicEG.thomas_length, CubicEG.rows_length _ _ _ hsegne, len_mkSegs hs Ps hP]
  have hcsl : (build hs Ps v0 vn).length = hs.length := by
    have := (analytic_core v0 vn (mkSegs hs Ps) (good_mkSegs hs Ps hpos) hsegne).1
    rw [hb]
    have hcl : ∀ (segs : List (Seg K)) (m : List K), m.length = segs.length + 1 → (closure segs m).length = segs.length := by
      intro segs
      induction segs with
      | nil => intro m hm; match m, hm with
        | [_], _ => simp [closure]
      | cons s ss ih => intro m hm; match m, hm with
        | a :: b :: m', hm => rw [closure_cons]; simp [ih (b :: m') (by simpa using hm)]
    rw [hcl _ _ (by rw [hmlen, len_mkSegs hs Ps hP]), len_mkSegs hs Ps hP]
  -- C¹ and the end velocity of the built spline
  have hjl : JF1 hs (build hs Ps v0 vn) ∧ LastV vn hs (build hs Ps v0 vn) := by
    have : ∀ (hs Ps : List K) (cs : List (C4 K)), CubicSpec vn hs Ps cs → JF1 hs cs ∧ LastV vn hs cs := by
      intro hs
      induction hs with
      | nil => intro Ps cs h; cases Ps <;> cases cs <;> simp [CubicSpec] at h
      | cons h hs ih =>
        intro Ps cs hsp
        cases hs with
        | nil => match Ps, cs, hsp with
          | [_, _], [c], hsp => exact ⟨trivial, hsp.2.2⟩
        | cons h' hs' => match Ps, cs, hsp with
          | p0 :: p1 :: Ps', c :: c' :: cs', hsp =>
            obtain ⟨_, _, e1, _, hrest⟩ := hsp
            obtain ⟨a, b⟩ := ih (p1 :: Ps') (c' :: cs') hrest
            exact ⟨⟨e1, a⟩, b⟩
    exact this hs Ps _ hspec
  obtain ⟨e1, e2⟩ := ends_reverse v0 vn hs (build hs Ps v0 vn) hcsl hne0 hfirst hjl.2
  have hj' := jf1_reverse hs _ hcsl hjl.1
  have hcl := closure_reverse hs Ps ms hne hP hmlen
  rw [← hb] at hcl
  rw [← hcl] at hj' e1 e2
  have hposr : PosList hs.reverse := posList_of_forall _ (by
    intro x hx
    have : ∀ (l : List K), PosList l → ∀ y ∈ l, 0 < y := by
      intro l; induction l with
      | nil => intro _ y hy; simp at hy
      | cons a l ih => intro hp y hy; rcases List.mem_cons.mp hy with rfl | h'
                       · exact hp.1
                       · exact ih hp.2 y h'
    exact this hs hpos x (List.mem_reverse.mp hx))
  have := closure_unique hs.reverse Ps.reverse (-vn) (-v0) ms.reverse hposr (by simpa using hne0) (by simp [hP])
    (by simp [hmlen]) hj' e1 e2
  rw [← this, hcl]

end CubicRev
