import STProofs.CubicRev
/-!
# C14 (cubic): the analytic energy gradients of the time-reversed spline are the mirrored gradients

With the reversed data (`CubicRev.build_reverse`): the duration gradients and the inner-point gradients are the original
ones in reverse order; the boundary gradients swap start and end, the velocity (odd) component changing sign.
-/
open ST ST.Cubic CubicEG CubicU

namespace CubicRev
variable {K : Type} [Field K] [LinearOrder K] [IsStrictOrderedRing K]

/-- the duration gradient is a first integral of the optimal piece: same value from either end -/
theorem gradTime_rev (h : K) (c : C4 K) : gradTime (revC h c) = gradTime c := by
  simp only [gradTime, revC, ev, ev1, ev2, lit_eq]
  push_cast
  ring

theorem gradTimes_reverse (hs : List K) (cs : List (C4 K)) (hl : cs.length = hs.length) :
    ((List.zipWith revC hs cs).reverse).map gradTime = (cs.map gradTime).reverse := by
  rw [List.map_reverse]
  congr 1
  induction hs generalizing cs with
  | nil =>
    have : cs = [] := List.eq_nil_of_length_eq_zero (by simpa using hl)
    subst this; simp
  | cons h hs ih =>
    match cs, hl with
    | c :: cs, hl => simp only [List.zipWith_cons_cons, List.map_cons, gradTime_rev, ih cs (by simpa using hl)]

theorem gradInner_snoc (l : List (C4 K)) (a b : C4 K) :
    gradInner (l ++ [a, b]) = gradInner (l ++ [a]) ++ [lit 12 * (b.c3 - a.c3)] := by
  induction l with
  | nil => simp [gradInner]
  | cons x l ih =>
    cases l with
    | nil => simp [gradInner]
    | cons y l' =>
      simp only [List.cons_append, gradInner] at ih ⊢
      rw [ih]

theorem gradInner_reverse (hs : List K) (cs : List (C4 K)) (hl : cs.length = hs.length) :
    gradInner ((List.zipWith revC hs cs).reverse) = (gradInner cs).reverse := by
  induction hs generalizing cs with
  | nil =>
    have : cs = [] := List.eq_nil_of_length_eq_zero (by simpa using hl)
    subst this; simp [gradInner]
  | cons h hs ih =>
    match cs, hl with
    | c :: cs, hl =>
      cases hs with
      | nil => match cs, hl with
        | [], _ => simp [gradInner]
      | cons h' hs' =>
        match cs, hl with
        | c' :: cs', hl =>
          have ih' := ih (c' :: cs') (by simpa using hl)
          simp only [List.zipWith_cons_cons, List.reverse_cons, List.append_assoc, List.cons_append, List.nil_append,
            gradInner] at ih' ⊢
          rw [gradInner_snoc, ih']
          simp only [revC, lit_eq]
          congr 2
          ring


theorem zipWith_getLast (hs : List K) (cs : List (C4 K)) (hl : cs.length = hs.length) (hne : hs ≠ []) :
    ∃ hL cL, hs.getLast? = some hL ∧ cs.getLast? = some cL ∧ (List.zipWith revC hs cs).getLast? = some (revC hL cL) := by
  induction hs generalizing cs with
  | nil => exact absurd rfl hne
  | cons h hs ih =>
    match cs, hl with
    | c :: cs, hl =>
      cases hs with
      | nil => match cs, hl with
        | [], _ => exact ⟨h, c, rfl, rfl, rfl⟩
      | cons h' hs' =>
        match cs, hl with
        | c' :: cs', hl =>
          obtain ⟨hL, cL, e1, e2, e3⟩ := ih (c' :: cs') (by simpa using hl) (by simp)
          refine ⟨hL, cL, ?_, ?_, ?_⟩
          · rw [List.getLast?_cons_cons]; exact e1
          · rw [List.getLast?_cons_cons]; exact e2
          · simp only [List.zipWith_cons_cons] at e3 ⊢
            rw [List.getLast?_cons_cons]; exact e3

/-- boundary gradient with the odd (velocity) component negated -/
def flipB (g : BGrad K) : BGrad K := ⟨g.p, -g.v⟩

theorem gradBoundary_reverse (hs : List K) (cs : List (C4 K)) (hl : cs.length = hs.length) (hne : hs ≠ []) :
    gradBoundary hs.reverse ((List.zipWith revC hs cs).reverse)
      = (flipB (gradBoundary hs cs).2, flipB (gradBoundary hs cs).1) := by
  obtain ⟨hL, cL, e1, e2, e3⟩ := zipWith_getLast hs cs hl hne
  match hs, cs, hl, hne with
  | h0 :: hs', c0 :: cs', hl, _ =>
    simp only [gradBoundary, List.head?_reverse, List.getLast?_reverse, e1, e2, e3]
    simp only [List.zipWith_cons_cons, List.head?_cons]
    simp only [flipB, revC, ev, ev1, ev2, lit_eq, Prod.mk.injEq, BGrad.mk.injEq]
    push_cast
    refine ⟨⟨?_, ?_⟩, ⟨?_, ?_⟩⟩ <;> ring

/-- **C14 (cubic): mirrored gradients** — analytic energy gradients of the time-reversed spline -/
theorem energyGrads_reverse (hs Ps : List K) (v0 vn : K) (hpos : PosList hs) (hne0 : hs ≠ [])
    (hP : Ps.length = hs.length + 1) :
    let cs := build hs Ps v0 vn
    let cs' := build hs.reverse Ps.reverse (-vn) (-v0)
    cs'.map gradTime = (cs.map gradTime).reverse ∧ gradInner cs' = (gradInner cs).reverse ∧
    gradBoundary hs.reverse cs' = (flipB (gradBoundary hs cs).2, flipB (gradBoundary hs cs).1) ∧
    energy hs.reverse cs' = energy hs cs := by
  intro cs cs'
  have hrev : cs' = (List.zipWith revC hs cs).reverse := build_reverse hs Ps v0 vn hpos hne0 hP
  have hcl : cs.length = hs.length := by
    have hsegne : mkSegs hs Ps ≠ [] := by
      match hs, Ps, hne0, hP with
      | _ :: _, _ :: _ :: _, _, _ => simp [mkSegs]
    have hM : (knotM v0 vn (mkSegs hs Ps)).length = hs.length + 1 := by
      rw [knotM, CubicEG.thomas_length, CubicEG.rows_length _ _ _ hsegne, len_mkSegs hs Ps hP]
    have : ∀ (segs : List (Seg K)) (ms : List K), ms.length = segs.length + 1 → (closure segs ms).length = segs.length := by
      intro segs
      induction segs with
      | nil => intro ms _; cases ms with
        | nil => simp [closure]
        | cons a l => cases l <;> simp [closure]
      | cons s ss ih =>
        intro ms hm
        match ms, hm with
        | m0 :: m1 :: ms', hm => simp [closure, ih (m1 :: ms') (by simpa using hm)]
    show (closure (mkSegs hs Ps) (knotM v0 vn (mkSegs hs Ps))).length = _
    rw [this _ _ (by rw [hM, len_mkSegs hs Ps hP]), len_mkSegs hs Ps hP]
  refine ⟨?_, ?_, ?_, ?_⟩
  · rw [hrev]; exact gradTimes_reverse hs cs hcl
  · rw [hrev]; exact gradInner_reverse hs cs hcl
  · rw [hrev]; exact gradBoundary_reverse hs cs hcl hne0
  · rw [hrev]
    have : ∀ (hs : List K) (cs : List (C4 K)), cs.length = hs.length →
        energy hs.reverse (List.zipWith revC hs cs).reverse = energy hs cs := by
      intro hs
      induction hs with
      | nil => intro cs _; simp [energy]
      | cons h hs ih =>
        intro cs hl
        match cs, hl with
        | c :: cs, hl =>
          have hsn : ∀ (A : List K) (B : List (C4 K)) (a : K) (b : C4 K), B.length = A.length →
              energy (A ++ [a]) (B ++ [b]) = energy A B + energySeg a b := by
            intro A
            induction A with
            | nil => intro B a b hB; match B, hB with
              | [], _ => simp [energy, lit_eq]
            | cons x A ihA => intro B a b hB; match B, hB with
              | y :: B, hB => simp only [List.cons_append, energy, ihA B a b (by simpa using hB)]; ring
          simp only [List.reverse_cons, List.zipWith_cons_cons]
          rw [hsn _ _ _ _ (by simp at hl ⊢; omega), ih cs (by simpa using hl), energySeg_rev, energy]
          ring
    exact this hs cs hcl

end CubicRev
