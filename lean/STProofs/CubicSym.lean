import STProofs.CubicEnergyGrad
import STProofs.Structure
/-!
# C14 (cubic): amplitude scaling and time scaling — every N

The tridiagonal system of the transformed data has the rows of the original one scaled (`a,b,c` by `α`, `d` by `β`), so
`γ·M` with `α·γ = β` solves it, and the solve is unique (`thomas_unique`).

* `build_scale` : waypoints and boundary velocities × λ ⇒ coefficients × λ; energy × λ².  (Translation: `CubicTr`.)
* `build_timescale` : durations × μ (μ > 0), boundary velocities ÷ μ ⇒ `c_k / μᵏ`; energy ÷ μ³.
-/
open ST ST.Cubic CubicEG

namespace CubicSym
variable {K : Type} [Field K] [LinearOrder K] [IsStrictOrderedRing K]

/-- segments related by `h' = α h`, `pd' = β pd` -/
def SegsRel (α β : K) : List (Seg K) → List (Seg K) → Prop
  | s' :: ss', s :: ss => (s'.h = α * s.h ∧ s'.pd = β * s.pd) ∧ SegsRel α β ss' ss
  | [], [] => True
  | _, _ => False

theorem solves_scale (α β γ : K) (hγ : α * γ = β) (rows' rows : List (Row K)) (xp : K) (xs : List K)
    (hr : List.Forall₂ (fun r' r => r'.a = α * r.a ∧ r'.b = α * r.b ∧ r'.c = α * r.c ∧ r'.d = β * r.d) rows' rows)
    (h : Solves xp rows xs) : Solves (γ * xp) rows' (xs.map (γ * ·)) := by
  induction hr generalizing xp xs with
  | nil => cases xs <;> simp_all [Solves]
  | cons hrr _ ih =>
    cases xs with
    | nil => simp [Solves] at h
    | cons x xs =>
      obtain ⟨hrow, hrest⟩ := h
      obtain ⟨ha, hb, hc, hd⟩ := hrr
      refine ⟨?_, ih x xs hrest⟩
      have hh : (xs.map (γ * ·)).headD 0 = γ * xs.headD 0 := by cases xs <;> simp
      rw [hh, ha, hb, hc, hd, ← hγ]
      linear_combination (α * γ) * hrow

theorem interiorRows_rel (α β vn : K) (prev' prev : Seg K) (rest' rest : List (Seg K))
    (hp : prev'.h = α * prev.h ∧ prev'.pd = β * prev.pd) (hr : SegsRel α β rest' rest) :
    List.Forall₂ (fun r' r => r'.a = α * r.a ∧ r'.b = α * r.b ∧ r'.c = α * r.c ∧ r'.d = β * r.d)
      (interiorRows (β * vn) prev' rest') (interiorRows vn prev rest) := by
  induction rest generalizing prev' prev rest' with
  | nil =>
    match rest', hr with
    | [], _ =>
      simp only [interiorRows]
      refine List.Forall₂.cons ⟨hp.1, ?_, ?_, ?_⟩ List.Forall₂.nil
      · rw [hp.1]; simp only [lit_eq]; ring
      · simp [lit_eq]
      · rw [hp.2]; simp only [lit_eq]; ring
  | cons s rest ih =>
    match rest', hr with
    | s' :: rest'', hr =>
      obtain ⟨hs, hr'⟩ := hr
      simp only [interiorRows]
      refine List.Forall₂.cons ⟨hp.1, ?_, hs.1, ?_⟩ (ih s' s rest'' hs hr')
      · rw [hp.1, hs.1]; simp only [lit_eq]; ring
      · rw [hp.2, hs.2]; simp only [lit_eq]; ring

theorem rows_rel (α β v0 vn : K) (segs' segs : List (Seg K)) (hr : SegsRel α β segs' segs) :
    List.Forall₂ (fun r' r => r'.a = α * r.a ∧ r'.b = α * r.b ∧ r'.c = α * r.c ∧ r'.d = β * r.d)
      (rows (β * v0) (β * vn) segs') (rows v0 vn segs) := by
  match segs', segs, hr with
  | [], [], _ => exact List.Forall₂.nil
  | s' :: ss', s :: ss, hr =>
    obtain ⟨hs, hr'⟩ := hr
    simp only [rows]
    refine List.Forall₂.cons ⟨by simp [lit_eq], ?_, hs.1, ?_⟩ (interiorRows_rel α β vn s' s ss' ss hs hr')
    · rw [hs.1]; simp only [lit_eq]; ring
    · rw [hs.2]; simp only [lit_eq]; ring

theorem allPos_rel (α β : K) (hα : 0 < α) (segs' segs : List (Seg K)) (hr : SegsRel α β segs' segs) (hp : AllPos segs) :
    AllPos segs' := by
  induction segs generalizing segs' with
  | nil => match segs', hr with
    | [], _ => trivial
  | cons s ss ih => match segs', hr with
    | s' :: ss', hr => exact ⟨by rw [hr.1.1]; exact mul_pos hα hp.1, ih ss' hr.2 hp.2⟩

/-- the knot second derivatives of the transformed problem -/
theorem knotM_rel (α β γ : K) (hα : 0 < α) (hγ : α * γ = β) (v0 vn : K) (segs' segs : List (Seg K))
    (hr : SegsRel α β segs' segs) (hp : AllPos segs) :
    knotM (β * v0) (β * vn) segs' = (knotM v0 vn segs).map (γ * ·) := by
  have hsol := knotM_solves v0 vn segs hp
  have hs' := solves_scale α β γ hγ _ _ 0 _ (rows_rel α β v0 vn segs' segs hr) hsol
  rw [mul_zero] at hs'
  have hp' := allPos_rel α β hα segs' segs hr hp
  refine (thomas_unique _ (pivok_cubic _ _ segs' hp') ?_ _ 0 hs').symm
  intro r rs h
  match segs', h with
  | s' :: ss', h => simp only [rows, List.cons.injEq] at h; rw [← h.1]; simp

/-! ## amplitude -/

def scSeg (lam : K) (s : Seg K) : Seg K := ⟨s.h, lam * s.p0, lam * s.dp, lam * s.pd⟩

theorem mkSegs_scale (lam : K) (h P : List K) : mkSegs h (P.map (lam * ·)) = (mkSegs h P).map (scSeg lam) := by
  induction h generalizing P with
  | nil => cases P <;> simp [mkSegs]
  | cons a h ih =>
    match P with
    | [] => simp [mkSegs]
    | [_] => simp [mkSegs]
    | p0 :: p1 :: P =>
      have := ih (p1 :: P)
      simp only [List.map_cons] at this
      simp only [List.map_cons, mkSegs, this, scSeg]
      congr 2 <;> ring

theorem segsRel_scale (lam : K) (segs : List (Seg K)) : SegsRel 1 lam (segs.map (scSeg lam)) segs := by
  induction segs with
  | nil => trivial
  | cons s ss ih => exact ⟨⟨by simp [scSeg], rfl⟩, ih⟩

def scC (lam : K) (c : C4 K) : C4 K := ⟨lam * c.c0, lam * c.c1, lam * c.c2, lam * c.c3⟩

theorem closure_scale (lam : K) (segs : List (Seg K)) (ms : List K) :
    closure (segs.map (scSeg lam)) (ms.map (lam * ·)) = (closure segs ms).map (scC lam) := by
  induction segs generalizing ms with
  | nil => cases ms <;> simp [closure]
  | cons s rest ih =>
    match ms with
    | [] => simp [closure]
    | [_] => simp [closure]
    | m0 :: m1 :: ms' =>
      have := ih (m1 :: ms')
      simp only [List.map_cons] at this
      simp only [List.map_cons, closure, this, scSeg, scC, lit_eq, C4.mk.injEq, List.cons.injEq, and_true]
      refine ⟨trivial, ?_, ?_, ?_⟩ <;> ring

/-- **C14: scaling waypoints and boundary velocities by λ scales the trajectory by λ** (cubic, every N) -/
theorem build_scale (lam : K) (hs Ps : List K) (v0 vn : K) (hpos : PosList hs) :
    build hs (Ps.map (lam * ·)) (lam * v0) (lam * vn) = (build hs Ps v0 vn).map (scC lam) := by
  simp only [build, mkSegs_scale]
  rw [knotM_rel 1 lam lam one_pos (one_mul _) v0 vn _ _ (segsRel_scale lam _) (allPos_mkSegs hs Ps hpos), closure_scale]

theorem energySeg_scale (lam T : K) (c : C4 K) : energySeg T (scC lam c) = lam ^ 2 * energySeg T c := by
  simp only [energySeg, scC, lit_eq]; ring

/-! ## time scaling -/

def tsSeg (mu : K) (s : Seg K) : Seg K := ⟨mu * s.h, s.p0, s.dp, s.pd / mu⟩

theorem mkSegs_timescale (mu : K) (hmu : mu ≠ 0) (h P : List K) (hne : ∀ x ∈ h, x ≠ 0) :
    mkSegs (h.map (mu * ·)) P = (mkSegs h P).map (tsSeg mu) := by
  induction h generalizing P with
  | nil => cases P <;> simp [mkSegs]
  | cons a h ih =>
    match P with
    | [] => simp [mkSegs]
    | [_] => simp [mkSegs]
    | p0 :: p1 :: P =>
      have := ih (p1 :: P) (fun x hx => hne x (by simp [hx]))
      simp only [List.map_cons, mkSegs, this, tsSeg, lit_eq]
      congr 2
      have ha : a ≠ 0 := hne a (by simp)
      field_simp

theorem segsRel_timescale (mu : K) (segs : List (Seg K)) : SegsRel mu (1 / mu) (segs.map (tsSeg mu)) segs := by
  induction segs with
  | nil => trivial
  | cons s ss ih => exact ⟨⟨rfl, by simp only [tsSeg]; ring⟩, ih⟩

def tsC (mu : K) (c : C4 K) : C4 K := ⟨c.c0, c.c1 / mu, c.c2 / mu ^ 2, c.c3 / mu ^ 3⟩

theorem closure_timescale (mu : K) (hmu : mu ≠ 0) (segs : List (Seg K)) (ms : List K) (hne : ∀ s ∈ segs, s.h ≠ 0) :
    closure (segs.map (tsSeg mu)) (ms.map (1 / mu ^ 2 * ·)) = (closure segs ms).map (tsC mu) := by
  induction segs generalizing ms with
  | nil => cases ms <;> simp [closure]
  | cons s rest ih =>
    match ms with
    | [] => simp [closure]
    | [_] => simp [closure]
    | m0 :: m1 :: ms' =>
      have := ih (m1 :: ms') (fun x hx => hne x (by simp [hx]))
      simp only [List.map_cons] at this
      have hs : s.h ≠ 0 := hne s (by simp)
      simp only [List.map_cons, closure, this, tsSeg, tsC, lit_eq, C4.mk.injEq, List.cons.injEq, and_true]
      refine ⟨trivial, ?_, ?_, ?_⟩ <;> (field_simp; try ring)

/-- **C14: scaling all durations by μ > 0** (boundary velocities ÷ μ) gives the same curve run at speed 1/μ (cubic) -/
theorem build_timescale (mu : K) (hmu : 0 < mu) (hs Ps : List K) (v0 vn : K) (hpos : PosList hs) :
    build (hs.map (mu * ·)) Ps (v0 / mu) (vn / mu) = (build hs Ps v0 vn).map (tsC mu) := by
  have hm : mu ≠ 0 := hmu.ne'
  have hne : ∀ x ∈ hs, x ≠ 0 := by
    intro x hx
    have : ∀ (l : List K), PosList l → ∀ y ∈ l, 0 < y := by
      intro l; induction l with
      | nil => intro _ y hy; simp at hy
      | cons a l ih => intro hp y hy; rcases List.mem_cons.mp hy with rfl | h'
                       · exact hp.1
                       · exact ih hp.2 y h'
    exact (this hs hpos x hx).ne'
  have hap := allPos_mkSegs hs Ps hpos
  simp only [build, mkSegs_timescale mu hm hs Ps hne]
  have e0 : v0 / mu = 1 / mu * v0 := by ring
  have en : vn / mu = 1 / mu * vn := by ring
  rw [e0, en, knotM_rel mu (1 / mu) (1 / mu ^ 2) hmu (by field_simp) v0 vn _ _ (segsRel_timescale mu _) hap,
    closure_timescale mu hm _ _ (fun s hs' => by
      have : ∀ (l : List (Seg K)), AllPos l → ∀ s ∈ l, 0 < s.h := by
        intro l; induction l with
        | nil => intro _ s hs; simp at hs
        | cons a l ih => intro hp s hs; rcases List.mem_cons.mp hs with rfl | h'
                         · exact hp.1
                         · exact ih hp.2 s h'
      exact (this _ hap s hs').ne')]

theorem energySeg_timescale (mu T : K) (hmu : mu ≠ 0) (c : C4 K) :
    energySeg (mu * T) (tsC mu c) = energySeg T c / mu ^ 3 := by
  simp only [energySeg, tsC, lit_eq]; field_simp

end CubicSym
