import STProofs.CubicEnergyGrad
/-!
# C02 (cubic): the C² interpolating spline with prescribed boundary velocities is unique — every N

Any list of cubic pieces satisfying the optimality conditions (`Chain`: interpolation, C¹, C², end velocity; plus the
start velocity) is the list the code builds: a cubic is determined by its end values and end second derivatives
(`piece_determined`), the knot second derivatives of such a list solve the tridiagonal system (`chain_solves`), and that
system has exactly one solution (`thomas_unique`).
-/
open ST ST.Cubic CubicEG

namespace CubicU
variable {K : Type} [Field K] [LinearOrder K] [IsStrictOrderedRing K]

theorem C4_ext (c d : C4 K) (h0 : c.c0 = d.c0) (h1 : c.c1 = d.c1) (h2 : c.c2 = d.c2) (h3 : c.c3 = d.c3) : c = d := by
  cases c; cases d; simp_all

/-- a cubic is its own closure piece -/
theorem piece_determined (s : Seg K) (c : C4 K) (hh : s.h ≠ 0) (h0 : ev c 0 = s.p0) (h1 : ev c s.h = s.p0 + s.pd * s.h) :
    piece s (ev2 c 0) (ev2 c s.h) = c := by
  simp only [ev] at h0 h1
  have hp0 : s.p0 = c.c0 := by rw [← h0]; ring
  have hpd : s.pd = c.c1 + c.c2 * s.h + c.c3 * s.h ^ 2 := by
    have : s.pd * s.h = (c.c1 + c.c2 * s.h + c.c3 * s.h ^ 2) * s.h := by rw [hp0] at h1; linear_combination -h1
    exact mul_right_cancel₀ hh this
  apply C4_ext
  · exact hp0
  · simp only [piece, ev2, hpd]; field_simp; ring
  · simp only [piece, ev2]; ring
  · simp only [piece, ev2]; field_simp; ring

/-- second derivatives at the right ends of the pieces -/
def endM : List (Seg K) → List (C4 K) → List K
  | s :: ss, c :: cs => ev2 c s.h :: endM ss cs
  | _, _ => []

theorem chain_solves (vn : K) (prev : Seg K) (rest : List (Seg K)) (c : C4 K) (cs : List (C4 K))
    (hprev : prev.h ≠ 0) (hne : ∀ s ∈ rest, s.h ≠ 0) (hc : Chain vn (prev :: rest) (c :: cs)) :
    closure (prev :: rest) (ev2 c 0 :: endM (prev :: rest) (c :: cs)) = c :: cs ∧
    Solves (ev2 c 0) (interiorRows vn prev rest) (endM (prev :: rest) (c :: cs)) := by
  induction rest generalizing prev c cs with
  | nil =>
    match cs, hc with
    | [], hc =>
      obtain ⟨e0, e1, e2⟩ := hc
      refine ⟨?_, ?_⟩
      · simp only [endM]
        rw [closure_cons]
        simp only [closure, piece_determined prev c hprev e0 e1]
      · simp only [endM, interiorRows, Solves, List.headD_nil, and_true, lit_eq]
        have hd := piece_determined prev c hprev e0 e1
        have h1 : c.c1 = prev.pd - prev.h / 6 * (2 * ev2 c 0 + ev2 c prev.h) := by
          have := congrArg C4.c1 hd; simp only [piece] at this; exact this.symm
        simp only [ev1, ev2] at e2 h1 ⊢
        push_cast
        linear_combination (6 : K) * e2 - (6 : K) * h1
  | cons s rest ih =>
    match cs, hc with
    | c' :: cs', hc =>
      obtain ⟨e0, e1, e2, e3, hrest⟩ := hc
      have hs : s.h ≠ 0 := hne s (by simp)
      obtain ⟨i1, i2⟩ := ih s c' cs' hs (fun x hx => hne x (by simp [hx])) hrest
      have hd := piece_determined prev c hprev e0 e1
      refine ⟨?_, ?_⟩
      · simp only [endM] at i1 ⊢
        rw [closure_cons, hd, e3, i1]
      · simp only [endM, interiorRows, Solves, List.headD_cons, lit_eq] at i2 ⊢
        refine ⟨?_, by rw [e3]; exact i2⟩
        -- C¹ at the knot
        have f0 : ev c' 0 = s.p0 := by
          cases rest <;> cases cs' <;> simp_all [Chain]
        have f1 : ev c' s.h = s.p0 + s.pd * s.h := by
          cases rest <;> cases cs' <;> simp_all [Chain]
        have hd' := piece_determined s c' hs f0 f1
        have h1 : c.c1 = prev.pd - prev.h / 6 * (2 * ev2 c 0 + ev2 c prev.h) := by
          have := congrArg C4.c1 hd; simp only [piece] at this; exact this.symm
        have h1' : c'.c1 = s.pd - s.h / 6 * (2 * ev2 c' 0 + ev2 c' s.h) := by
          have := congrArg C4.c1 hd'; simp only [piece] at this; exact this.symm
        simp only [ev1, ev2] at e2 e3 h1 h1' ⊢
        push_cast
        linear_combination (6 : K) * e2 - (6 : K) * h1 + (6 : K) * h1' + (2 * s.h) * e3

/-- **uniqueness (segments)**: pieces satisfying the optimality conditions are the built ones -/
theorem chain_unique (v0 vn : K) (segs : List (Seg K)) (hpos : AllPos segs) (c : C4 K) (cs : List (C4 K))
    (hc : Chain vn segs (c :: cs)) (hv : ev1 c 0 = v0) : c :: cs = closure segs (knotM v0 vn segs) := by
  match segs, hpos, hc with
  | prev :: rest, hpos, hc =>
    have hne := allPos_ne (prev :: rest) hpos
    have hprev : prev.h ≠ 0 := hne prev (by simp)
    obtain ⟨h1, h2⟩ := chain_solves vn prev rest c cs hprev (fun x hx => hne x (by simp [hx])) hc
    have e0 : ev c 0 = prev.p0 := by cases rest <;> cases cs <;> simp_all [Chain]
    have e1 : ev c prev.h = prev.p0 + prev.pd * prev.h := by cases rest <;> cases cs <;> simp_all [Chain]
    have hd := piece_determined prev c hprev e0 e1
    have hc1 : c.c1 = prev.pd - prev.h / 6 * (2 * ev2 c 0 + ev2 c prev.h) := by
      have := congrArg C4.c1 hd; simp only [piece] at this; exact this.symm
    have hS : Solves 0 (rows v0 vn (prev :: rest)) (ev2 c 0 :: endM (prev :: rest) (c :: cs)) := by
      simp only [rows, Solves, lit_eq]
      refine ⟨?_, h2⟩
      have hh : (endM (prev :: rest) (c :: cs)).headD 0 = ev2 c prev.h := rfl
      rw [hh]
      simp only [ev1, ev2] at hv hc1 ⊢
      push_cast
      linear_combination (-6 : K) * hv + (6 : K) * hc1
    have hu := thomas_unique _ (pivok_cubic v0 vn (prev :: rest) hpos)
      (by intro r rs h; simp only [rows, List.cons.injEq] at h; rw [← h.1]; simp) _ 0 hS
    rw [knotM, ← hu, h1]

theorem chain_of_spec (vn : K) (hs Ps : List K) (cs : List (C4 K)) (hne : ∀ h ∈ hs, h ≠ 0)
    (hspec : CubicSpec vn hs Ps cs) : Chain vn (mkSegs hs Ps) cs := by
  induction hs generalizing Ps cs with
  | nil => cases Ps <;> cases cs <;> simp [CubicSpec] at hspec
  | cons h hs ih =>
    have hh : h ≠ 0 := hne h (by simp)
    cases hs with
    | nil =>
      match Ps, cs, hspec with
      | [p0, p1], [c], hspec =>
        obtain ⟨a, b, c'⟩ := hspec
        simp only [mkSegs, Chain, lit_eq]
        refine ⟨a, ?_, c'⟩
        rw [b]; push_cast; field_simp; ring
    | cons h' hs' =>
      match Ps, cs, hspec with
      | p0 :: p1 :: Ps', c :: c' :: cs', hspec =>
        obtain ⟨a, b, e1, e2, hrest⟩ := hspec
        have ih' := ih (p1 :: Ps') (c' :: cs') (fun x hx => hne x (by simp [hx])) hrest
        match Ps', hrest with
        | p2 :: Ps'', _ =>
          simp only [mkSegs, Chain, lit_eq] at ih' ⊢
          refine ⟨a, ?_, e1, e2, ih'⟩
          rw [b]; push_cast; field_simp; ring

/-- **C02 (cubic): uniqueness** — every list of cubic pieces that interpolates the waypoints at the knot times, is C¹
and C² at the interior knots and has the prescribed boundary velocities is the list of published pieces -/
theorem cubic_unique (hs Ps : List K) (v0 vn : K) (hpos : PosList hs) (c : C4 K) (cs : List (C4 K))
    (hspec : CubicSpec vn hs Ps (c :: cs)) (hv : ev1 c 0 = v0) : c :: cs = build hs Ps v0 vn := by
  have hap := allPos_mkSegs hs Ps hpos
  have hne : ∀ h ∈ hs, h ≠ 0 := by
    have : ∀ (l : List K), PosList l → ∀ y ∈ l, y ≠ 0 := by
      intro l; induction l with
      | nil => intro _ y hy; simp at hy
      | cons a l ih => intro hp y hy; rcases List.mem_cons.mp hy with rfl | h'
                       · exact hp.1.ne'
                       · exact ih hp.2 y h'
    exact this hs hpos
  exact chain_unique v0 vn _ hap c cs (chain_of_spec vn hs Ps _ hne hspec) hv

end CubicU
