import STProofs.RoundTrip
/-!
# Pinning for an arbitrary scalar type — in particular IEEE doubles (C09)

`decode_pinned_waypoint` / `decode_pinned_block` re-checked without any law of arithmetic: for every scalar type carrying the
model's operations, and for **every** decision vector (of any length, with any entries — NaN included at `Float`), a waypoint
that is not optimised and a boundary block that is not flagged (or is gated by the order) come out of `decode` as the
reference data, untouched: at `Float`, bit for bit.
-/
open ST
set_option linter.unusedSectionVars false

namespace AnyNum
section
variable {K : Type} [NumOrd K]

theorem foldl_setRow_getD_ne (vs : List LayoutVar) (val : LayoutVar → Vec K) (w0 : List (Vec K)) (i : Nat)
    (h : ∀ v ∈ vs, v.point ≠ i) :
    (vs.foldl (fun w v => setRow w v.point (val v)) w0).getD i [] = w0.getD i [] := by
  induction vs generalizing w0 with
  | nil => rfl
  | cons v vs ih =>
    rw [List.foldl_cons, ih _ (fun x hx => h x (by simp [hx]))]
    simp only [setRow, List.getD_eq_getElem?_getD]
    rw [List.getElem?_set_ne (h v (by simp))]

theorem decode_pinned_waypoint (c : Config K) (x : List K) (i : Nat) (hn : 0 < c.n)
    (hi : spatialOptimized c.flags c.n i = false) :
    (decode c x).waypoints.getD i [] = c.refWaypoints.getD i [] := by
  have hne : c.n ≠ 0 := by omega
  simp only [decode, Config.layout, layout, hne, if_false]
  apply foldl_setRow_getD_ne
  intro v hv hvi
  have := ((RoundTrip.layoutFrom_packed c.flags c.n c.sm.udim (c.n + 1) 0 c.n).2 v hv).2
  rw [hvi, hi] at this
  exact Bool.false_ne_true this

theorem getBlock_setBlock_ne (bc : BC K) (b b' : DBlock) (v : Vec K) (h : b ≠ b') :
    (bc.setBlock b' v).getBlock b = bc.getBlock b := by
  cases b <;> cases b' <;> first | rfl | exact absurd rfl h

theorem decode_pinned_block (c : Config K) (x : List K) (b : DBlock) (hb : b ∉ derivBlocks c.order c.flags) :
    (decode c x).bc.getBlock b = c.refBC.getBlock b := by
  simp only [decode]
  generalize c.layout.derivOffset = off
  generalize c.refBC = bc
  generalize hbs : derivBlocks c.order c.flags = bs at hb
  clear hbs
  induction bs generalizing bc off with
  | nil => rfl
  | cons b' bs ih =>
    simp only [List.foldl_cons]
    rw [ih _ _ (fun hh => hb (by simp [hh])), getBlock_setBlock_ne bc b b' _ (fun e => hb (by simp [e]))]

end

/-- the IEEE-double instance -/
theorem decode_pinned_float (c : Config Float) (x : List Float) (hn : 0 < c.n) :
    (∀ i, spatialOptimized c.flags c.n i = false → (decode c x).waypoints.getD i [] = c.refWaypoints.getD i []) ∧
    (∀ b, b ∉ derivBlocks c.order c.flags → (decode c x).bc.getBlock b = c.refBC.getBlock b) :=
  ⟨fun i hi => decode_pinned_waypoint c x i hn hi, fun b hb => decode_pinned_block c x b hb⟩

end AnyNum
