import STProofs.CubicAdjoint
/-!
# Energy gradients (C06)

* the partial gradients by coefficients / by durations are the dual parts (= partial derivatives) of the closed-form
  segment energy, for all three orders;
* hence (chain rule over dual numbers) the derivative of the reported energy along any tangent of the inputs is the
  upstream pairing `Σ ∂E/∂c · dc + Σ ∂E/∂T · dT`, and by the adjoint theorem (C05) this is what *propagating the
  partials* returns — for the cubic for every N.
-/
open ST

variable {K : Type} [Field K]

/-- constants carry a zero tangent -/
def cst (x : K) : Dual K := ⟨x, 0⟩

namespace Cubic
open ST.Cubic
/-- `getEnergyPartialGradByCoeffs` is the derivative of the segment energy in the coefficients (T fixed) -/
theorem partialC_is_dual (T : K) (c : C4 (Dual K)) :
    (energySeg (cst T) c).du =
      (partialC T ⟨c.c0.re, c.c1.re, c.c2.re, c.c3.re⟩).c0 * c.c0.du + (partialC T ⟨c.c0.re, c.c1.re, c.c2.re, c.c3.re⟩).c1 * c.c1.du
      + (partialC T ⟨c.c0.re, c.c1.re, c.c2.re, c.c3.re⟩).c2 * c.c2.du + (partialC T ⟨c.c0.re, c.c1.re, c.c2.re, c.c3.re⟩).c3 * c.c3.du := by
  simp only [energySeg, partialC, cst]
  dual_proj
  simp only [lit_eq]
  push_cast
  ring

/-- `getEnergyPartialGradByTimes` is the derivative of the segment energy in the duration (coefficients fixed) -/
theorem partialT_is_dual (T : K) (c : C4 K) :
    (energySeg (⟨T, 1⟩ : Dual K) ⟨cst c.c0, cst c.c1, cst c.c2, cst c.c3⟩).du = partialT T c := by
  simp only [energySeg, partialT, cst]
  dual_proj
  simp only [lit_eq]
  push_cast
  ring

/-- chain rule for one segment: any joint tangent of (T, coefficients) -/
theorem energySeg_dual (T : Dual K) (c : C4 (Dual K)) :
    (energySeg T c).du =
      gdot (partialC T.re ⟨c.c0.re, c.c1.re, c.c2.re, c.c3.re⟩) c + partialT T.re ⟨c.c0.re, c.c1.re, c.c2.re, c.c3.re⟩ * T.du := by
  simp only [energySeg, partialC, partialT, gdot]
  dual_proj
  simp only [lit_eq]
  push_cast
  ring
end Cubic

namespace Quintic
open ST.Quintic
theorem energySeg_dual (T : Dual K) (c : C6 (Dual K)) :
    let r : C6 K := ⟨c.c0.re, c.c1.re, c.c2.re, c.c3.re, c.c4.re, c.c5.re⟩
    (energySeg T c).du =
      (partialC T.re r).c0 * c.c0.du + (partialC T.re r).c1 * c.c1.du + (partialC T.re r).c2 * c.c2.du
      + (partialC T.re r).c3 * c.c3.du + (partialC T.re r).c4 * c.c4.du + (partialC T.re r).c5 * c.c5.du
      + partialT T.re r * T.du := by
  intro r
  simp only [r, energySeg, partialC, partialT]
  dual_proj
  simp only [lit_eq]
  push_cast
  ring
end Quintic

namespace Septic
open ST.Septic
theorem energySeg_dual (T : Dual K) (c : C8 (Dual K)) :
    let r : C8 K := ⟨c.c0.re, c.c1.re, c.c2.re, c.c3.re, c.c4.re, c.c5.re, c.c6.re, c.c7.re⟩
    (energySeg T c).du =
      (partialC T.re r).c0 * c.c0.du + (partialC T.re r).c1 * c.c1.du + (partialC T.re r).c2 * c.c2.du
      + (partialC T.re r).c3 * c.c3.du + (partialC T.re r).c4 * c.c4.du + (partialC T.re r).c5 * c.c5.du
      + (partialC T.re r).c6 * c.c6.du + (partialC T.re r).c7 * c.c7.du
      + partialT T.re r * T.du := by
  intro r
  simp only [r, energySeg, partialC, partialT]
  dual_proj
  simp only [lit_eq]
  push_cast
  ring
end Septic

/-! ### total derivative of the cubic energy = propagated partials (every N) -/
section total
open ST.Cubic

def C4.re (c : C4 (Dual K)) : C4 K := ⟨c.c0.re, c.c1.re, c.c2.re, c.c3.re⟩

/-- summing the one-segment chain rule over the spline -/
theorem energy_dual (Ts : List (Dual K)) (cs : List (C4 (Dual K))) (hl : cs.length = Ts.length) :
    (energy Ts cs).du =
      gdotC (List.zipWith (fun T c => partialC T.re (C4.re c)) Ts cs) cs
      + dot (List.zipWith (fun T c => partialT T.re (C4.re c)) Ts cs) (Ts.map Dual.du) := by
  induction Ts generalizing cs with
  | nil => cases cs <;> simp [energy, gdotC]
  | cons T Ts ih =>
    match cs, hl with
    | c :: cs, hl =>
      have := ih cs (by simpa using hl)
      simp only [energy, Dual.add_du, Cubic.energySeg_dual, this, List.zipWith_cons_cons, gdotC, List.map_cons, dot_cons, C4.re]
      ring

variable [LinearOrder K] [IsStrictOrderedRing K]

theorem build_length (hs Ps : List (Dual K)) (v0 vn : Dual K) (hP : Ps.length = hs.length + 1)
    (hM : (knotM v0 vn (mkSegs hs Ps)).length = hs.length + 1) : (build hs Ps v0 vn).length = hs.length := by
  have : ∀ (segs : List (Seg (Dual K))) (ms : List (Dual K)), ms.length = segs.length + 1 → (closure segs ms).length = segs.length := by
    intro segs
    induction segs with
    | nil => intro ms _; cases ms with
      | nil => simp [closure]
      | cons a l => cases l <;> simp [closure]
    | cons s ss ih =>
      intro ms hm
      match ms, hm with
      | m0 :: m1 :: ms', hm => simp [closure, ih (m1 :: ms') (by simpa using hm)]
  simp only [build]
  rw [this _ _ (by rw [hM, len_mkSegs hs Ps hP]), len_mkSegs hs Ps hP]

/-- **C06 (cubic), every N**: the derivative of the reported energy along *any* tangent of durations, waypoints and
boundary velocities equals what `propagateGrad` returns for the partial gradients — "propagating the partials
reproduces the total derivative". -/
theorem cubic_energy_total_derivative (hs Ps : List (Dual K)) (v0 vn : Dual K)
    (hpos : ∀ h ∈ hs, 0 < h.re) (hne : hs ≠ []) (hP : Ps.length = hs.length + 1)
    (hM : (knotM v0 vn (mkSegs hs Ps)).length = hs.length + 1) :
    let cs := build hs Ps v0 vn
    let gC := List.zipWith (fun T c => partialC T.re (C4.re c)) hs cs
    let gT := List.zipWith (fun T c => partialT T.re (C4.re c)) hs cs
    let segsR := mkSegs (hs.map Dual.re) (Ps.map Dual.re)
    let out := propagate v0.re vn.re segsR (knotM v0.re vn.re segsR) gC
    (energy hs cs).du
      = dot out.points (Ps.map Dual.du) + dot (zipAdd gT out.times) (hs.map Dual.du) + out.v0 * v0.du + out.vn * vn.du := by
  intro cs gC gT segsR out
  have hcs : cs.length = hs.length := build_length hs Ps v0 vn hP hM
  rw [energy_dual hs cs hcs]
  have hg : gC.length = hs.length := by simp [gC, hcs]
  have hgT : gT.length = hs.length := by simp [gT, hcs]
  exact cubic_adjoint hs Ps v0 vn gC gT hpos hne hP hg hgT

end total
