import STProofs.Alg
import STProofs.CubicKKT
import Mathlib.Analysis.SpecialFunctions.Integrals.Basic
import Mathlib.Tactic.Ring
/-!
# The closed-form energies are genuine integrals (over ℝ)

`energySeg T c = ∫₀ᵀ (p⁽ˢ⁾(t))² dt` for the cubic (s = 2), quintic (s = 3) and septic (s = 4) pieces, for
every coefficient set and every `T`; hence the reported energy is the integral of the squared s-th derivative
of the published trajectory, it is non-negative for `T ≥ 0`, and a D-dimensional energy is the sum of its
coordinates' energies (the model sums columns).
-/
open ST intervalIntegral

theorem integral_poly (b : ℕ → ℝ) (n : ℕ) (T : ℝ) :
    ∫ t in (0:ℝ)..T, (∑ k ∈ Finset.range n, b k * t ^ k)
      = ∑ k ∈ Finset.range n, b k * T ^ (k + 1) / (k + 1) := by
  rw [intervalIntegral.integral_finset_sum]
  · apply Finset.sum_congr rfl
    intro k _
    rw [intervalIntegral.integral_const_mul, integral_pow]
    simp
    ring
  · intro i _
    exact (continuous_const.mul (continuous_pow i)).intervalIntegrable _ _

/-- second derivative of a cubic piece -/
def Cubic.acc (c : Cubic.C4 ℝ) (t : ℝ) : ℝ := 2 * c.c2 + 6 * c.c3 * t
/-- third derivative of a quintic piece -/
def Quintic.jerk (c : Quintic.C6 ℝ) (t : ℝ) : ℝ := 6 * c.c3 + 24 * c.c4 * t + 60 * c.c5 * t ^ 2
/-- fourth derivative of a septic piece -/
def Septic.snap (c : Septic.C8 ℝ) (t : ℝ) : ℝ :=
  24 * c.c4 + 120 * c.c5 * t + 360 * c.c6 * t ^ 2 + 840 * c.c7 * t ^ 3

theorem cubic_energy_integral (c : Cubic.C4 ℝ) (T : ℝ) :
    Cubic.energySeg T c = ∫ t in (0:ℝ)..T, (Cubic.acc c t) ^ 2 := by
  let b : ℕ → ℝ := fun k => if k = 0 then 4 * c.c2 ^ 2 else if k = 1 then 24 * c.c2 * c.c3 else 36 * c.c3 ^ 2
  have h : ∀ t : ℝ, (Cubic.acc c t) ^ 2 = ∑ k ∈ Finset.range 3, b k * t ^ k := by
    intro t; simp [Finset.sum_range_succ, b, Cubic.acc]; ring
  simp only [h, integral_poly]
  simp [Finset.sum_range_succ, b, Cubic.energySeg]
  ring

theorem quintic_energy_integral (c : Quintic.C6 ℝ) (T : ℝ) :
    Quintic.energySeg T c = ∫ t in (0:ℝ)..T, (Quintic.jerk c t) ^ 2 := by
  let b : ℕ → ℝ := fun k =>
    if k = 0 then 36 * c.c3 ^ 2 else if k = 1 then 288 * c.c3 * c.c4
    else if k = 2 then 576 * c.c4 ^ 2 + 720 * c.c3 * c.c5 else if k = 3 then 2880 * c.c4 * c.c5 else 3600 * c.c5 ^ 2
  have h : ∀ t : ℝ, (Quintic.jerk c t) ^ 2 = ∑ k ∈ Finset.range 5, b k * t ^ k := by
    intro t; simp [Finset.sum_range_succ, b, Quintic.jerk]; ring
  simp only [h, integral_poly]
  simp [Finset.sum_range_succ, b, Quintic.energySeg]
  ring

theorem septic_energy_integral (c : Septic.C8 ℝ) (T : ℝ) :
    Septic.energySeg T c = ∫ t in (0:ℝ)..T, (Septic.snap c t) ^ 2 := by
  let b : ℕ → ℝ := fun k =>
    if k = 0 then 576 * c.c4 ^ 2 else if k = 1 then 5760 * c.c4 * c.c5
    else if k = 2 then 14400 * c.c5 ^ 2 + 17280 * c.c4 * c.c6
    else if k = 3 then 86400 * c.c5 * c.c6 + 40320 * c.c4 * c.c7
    else if k = 4 then 129600 * c.c6 ^ 2 + 201600 * c.c5 * c.c7
    else if k = 5 then 604800 * c.c6 * c.c7 else 705600 * c.c7 ^ 2
  have h : ∀ t : ℝ, (Septic.snap c t) ^ 2 = ∑ k ∈ Finset.range 7, b k * t ^ k := by
    intro t; simp [Finset.sum_range_succ, b, Septic.snap]; ring
  simp only [h, integral_poly]
  simp [Finset.sum_range_succ, b, Septic.energySeg]
  ring

/-- the integrand is a square, so every segment energy is non-negative for `T ≥ 0` -/
theorem cubic_energy_nonneg (c : Cubic.C4 ℝ) (T : ℝ) (hT : 0 ≤ T) : 0 ≤ Cubic.energySeg T c := by
  rw [cubic_energy_integral]; exact intervalIntegral.integral_nonneg hT (fun t _ => sq_nonneg _)
theorem quintic_energy_nonneg (c : Quintic.C6 ℝ) (T : ℝ) (hT : 0 ≤ T) : 0 ≤ Quintic.energySeg T c := by
  rw [quintic_energy_integral]; exact intervalIntegral.integral_nonneg hT (fun t _ => sq_nonneg _)
theorem septic_energy_nonneg (c : Septic.C8 ℝ) (T : ℝ) (hT : 0 ≤ T) : 0 ≤ Septic.energySeg T c := by
  rw [septic_energy_integral]; exact intervalIntegral.integral_nonneg hT (fun t _ => sq_nonneg _)

/-- total energy of one coordinate = sum over segments of the integrals -/
noncomputable def Cubic.energyInt : List ℝ → List (Cubic.C4 ℝ) → ℝ
  | T :: Ts, c :: cs => (∫ t in (0:ℝ)..T, (Cubic.acc c t) ^ 2) + Cubic.energyInt Ts cs
  | _, _ => 0
noncomputable def Quintic.energyInt : List ℝ → List (Quintic.C6 ℝ) → ℝ
  | T :: Ts, c :: cs => (∫ t in (0:ℝ)..T, (Quintic.jerk c t) ^ 2) + Quintic.energyInt Ts cs
  | _, _ => 0
noncomputable def Septic.energyInt : List ℝ → List (Septic.C8 ℝ) → ℝ
  | T :: Ts, c :: cs => (∫ t in (0:ℝ)..T, (Septic.snap c t) ^ 2) + Septic.energyInt Ts cs
  | _, _ => 0

theorem cubic_energy_total (Ts : List ℝ) (cs : List (Cubic.C4 ℝ)) : Cubic.energy Ts cs = Cubic.energyInt Ts cs := by
  induction Ts generalizing cs with
  | nil => cases cs <;> simp [Cubic.energy, Cubic.energyInt]
  | cons T Ts ih =>
    cases cs with
    | nil => simp [Cubic.energy, Cubic.energyInt]
    | cons c cs => simp only [Cubic.energy, Cubic.energyInt, ih, cubic_energy_integral]
theorem quintic_energy_total (Ts : List ℝ) (cs : List (Quintic.C6 ℝ)) : Quintic.energy Ts cs = Quintic.energyInt Ts cs := by
  induction Ts generalizing cs with
  | nil => cases cs <;> simp [Quintic.energy, Quintic.energyInt]
  | cons T Ts ih =>
    cases cs with
    | nil => simp [Quintic.energy, Quintic.energyInt]
    | cons c cs => simp only [Quintic.energy, Quintic.energyInt, ih, quintic_energy_integral]
theorem septic_energy_total (Ts : List ℝ) (cs : List (Septic.C8 ℝ)) : Septic.energy Ts cs = Septic.energyInt Ts cs := by
  induction Ts generalizing cs with
  | nil => cases cs <;> simp [Septic.energy, Septic.energyInt]
  | cons T Ts ih =>
    cases cs with
    | nil => simp [Septic.energy, Septic.energyInt]
    | cons c cs => simp only [Septic.energy, Septic.energyInt, ih, septic_energy_integral]
