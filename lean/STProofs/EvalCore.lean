import STProofs.NDEnergy
import STProofs.TimeMap
/-!
# C07: the gradient `evaluate` computes w.r.t. the decoded quantities is the exact derivative of the returned cost

`evalCore` (spline construction, time cost, trapezoid integral cost, adjoint propagation, waypoint cost, energy term) is run
over dual numbers; the dual part of its cost equals the pairing of the gradient record the real run returns with the
tangent of (waypoints, durations, boundary states) — every order, N, dimension, number of quadrature steps, every cost
functor triple following the documented protocol.
-/
open ST QuadDual NDAdj NDEnergy
open scoped BigOperators

namespace EvalCore

section generic
variable {α : Type}

/-- the waypoint-cost gradient added to the point gradients (code: `grads.start.p += …; inner += …; end.p += …`) -/
def addWp [Num α] (n : Nat) (g0 : GradsND α) (gq : List (Vec α)) : GradsND α :=
  { g0 with start := { g0.start with p := vadd g0.start.p (gq.getD 0 []) },
            inner := List.zipWith vadd g0.inner ((gq.drop 1).take (n - 1)),
            fin := { g0.fin with p := vadd g0.fin.p (gq.getD n []) } }

/-- `ρ ·` analytic energy gradient added (boundary blocks gated by the order) -/
def addEnergy [Num α] (rho : α) (o : Order) (g1 eg : GradsND α) : GradsND α :=
  let ad (a b : Vec α) := vadd a (vscale rho b)
  { inner := List.zipWith ad g1.inner eg.inner,
    times := zipAdd g1.times (scale rho eg.times),
    start := ⟨ad g1.start.p eg.start.p, ad g1.start.v eg.start.v,
              if o.degree ≥ 5 then ad g1.start.a eg.start.a else g1.start.a,
              if o.degree ≥ 7 then ad g1.start.j eg.start.j else g1.start.j⟩,
    fin := ⟨ad g1.fin.p eg.fin.p, ad g1.fin.v eg.fin.v,
            if o.degree ≥ 5 then ad g1.fin.a eg.fin.a else g1.fin.a,
            if o.degree ≥ 7 then ad g1.fin.j eg.fin.j else g1.fin.j⟩ }

/-- the per-segment accumulators of the integral cost -/
def segAccs [Num α] (c : Config α) (dc : Decoded α) (costs : Costs α) : List (SegAcc α) :=
  (List.range c.n).map (fun i =>
    (quadSegment c.order c.dim c.steps costs.run i (dc.times.getD i (lit 0))
      ((segStarts c.startTime dc.times).getD i (lit 0))
      ((buildND c.order c.dim dc.times dc.waypoints c.startTime dc.bc).coeffs.getD i [])).1)

def gdT2 [Num α] (c : Config α) (dc : Decoded α) (costs : Costs α) : List α :=
  zipAdd (zipAdd (zipAdd (List.replicate c.n (lit 0)) (costs.time dc.times).2) ((segAccs c dc costs).map (·.gdT)))
    (suffixAdd ((segAccs c dc costs).map (·.expl)))

def g0 [Num α] (c : Config α) (dc : Decoded α) (costs : Costs α) : GradsND α :=
  propagateND c.order c.dim dc.times dc.waypoints dc.bc ((segAccs c dc costs).map (·.gdC)) (gdT2 c dc costs)

def cost1 [Num α] (c : Config α) (dc : Decoded α) (costs : Costs α) : α :=
  ((segAccs c dc costs).map (·.cost)).foldl (· + ·) (lit 0 + (costs.time dc.times).1)

/-- cost and gradient record after the waypoint-cost stage -/
def wpStage [Num α] (c : Config α) (dc : Decoded α) (costs : Costs α) : α × GradsND α :=
  match costs.waypoints with
  | none => (cost1 c dc costs, g0 c dc costs)
  | some wf => (cost1 c dc costs + (wf dc.waypoints).1, addWp c.n (g0 c dc costs) (wf dc.waypoints).2)

/-- `evalCore`, cost and gradient record, in named pieces -/
theorem evalCore_parts [NumOrd α] (c : Config α) (dc : Decoded α) (costs : Costs α) :
    let sp := buildND c.order c.dim dc.times dc.waypoints c.startTime dc.bc
    let cg : α × GradsND α := wpStage c dc costs
    (evalCore c dc costs).cost = (if NumOrd.lt (lit 0) c.rho then cg.1 + c.rho * sp.energy else cg.1) ∧
    (evalCore c dc costs).g = (if NumOrd.lt (lit 0) c.rho then addEnergy c.rho c.order cg.2 sp.energyGrad else cg.2) := by
  simp only [evalCore, wpStage, cost1, g0, gdT2, segAccs, addWp, addEnergy, List.map_map]
  cases costs.waypoints with
  | none => split <;> exact ⟨rfl, rfl⟩
  | some wf => split <;> exact ⟨rfl, rfl⟩

end generic

section lin
variable {K : Type} [Field K]

def pts (g : GradsND K) : List (Vec K) := g.start.p :: (g.inner ++ [g.fin.p])

theorem ndPair_eq (g : GradsND K) (dP : List (Vec K)) (dh : List K) (dbc : BC K) :
    ndPair g dP dh dbc = blockDot (pts g) dP + dot g.times dh
      + dot g.start.v dbc.v0 + dot g.start.a dbc.a0 + dot g.start.j dbc.j0
      + dot g.fin.v dbc.vn + dot g.fin.a dbc.an + dot g.fin.j dbc.jn := rfl

/-- shape of a gradient record for `n` segments in `d` dimensions -/
structure GShape (n d : Nat) (g : GradsND K) : Prop where
  inner : g.inner.length = n - 1
  rows : ∀ r ∈ pts g, r.length = d
  times : g.times.length = n
  sv : g.start.v.length = d
  sa : g.start.a.length = d
  sj : g.start.j.length = d
  ev : g.fin.v.length = d
  ea : g.fin.a.length = d
  ej : g.fin.j.length = d

theorem dot_ad (rho : K) (a b x : Vec K) (h : a.length = b.length) :
    dot (vadd a (vscale rho b)) x = dot a x + rho * dot b x := by
  rw [dot_vadd_left _ _ _ (by simp [vscale, h]), dot_vscale_left]

theorem blockDot_zipWith_ad (rho : K) (d : Nat) (A B V : List (Vec K)) (hl : A.length = B.length)
    (hA : ∀ a ∈ A, a.length = d) (hB : ∀ b ∈ B, b.length = d) :
    blockDot (List.zipWith (fun a b => vadd a (vscale rho b)) A B) V = blockDot A V + rho * blockDot B V := by
  induction A generalizing B V with
  | nil =>
    have : B = [] := List.eq_nil_of_length_eq_zero (by simpa using hl.symm)
    subst this; simp [blockDot]
  | cons a A ih =>
    match B, hl with
    | b :: B, hl =>
      cases V with
      | nil => simp [blockDot]
      | cons v V =>
        simp only [List.zipWith_cons_cons, blockDot]
        rw [ih B V (by simpa using hl) (fun x hx => hA x (by simp [hx])) (fun x hx => hB x (by simp [hx])),
          dot_ad rho a b v (by rw [hA a (by simp), hB b (by simp)])]
        ring

theorem blockDot_zipWith_vadd (d : Nat) (A B V : List (Vec K)) (hl : A.length = B.length)
    (hA : ∀ a ∈ A, a.length = d) (hB : ∀ b ∈ B, b.length = d) :
    blockDot (List.zipWith vadd A B) V = blockDot A V + blockDot B V := by
  induction A generalizing B V with
  | nil =>
    have : B = [] := List.eq_nil_of_length_eq_zero (by simpa using hl.symm)
    subst this; simp [blockDot]
  | cons a A ih =>
    match B, hl with
    | b :: B, hl =>
      cases V with
      | nil => simp [blockDot]
      | cons v V =>
        simp only [List.zipWith_cons_cons, blockDot]
        rw [ih B V (by simpa using hl) (fun x hx => hA x (by simp [hx])) (fun x hx => hB x (by simp [hx])),
          dot_vadd_left a b v (by rw [hA a (by simp), hB b (by simp)])]
        ring

theorem take_append_getD (m : Nat) (l : List (Vec K)) (hl : l.length = m + 1) : l.take m ++ [l.getD m []] = l := by
  induction m generalizing l with
  | zero => match l, hl with
    | [a], _ => simp
  | succ m ih => match l, hl with
    | a :: l', hl => simp only [List.take_succ_cons, List.cons_append, List.getD_cons_succ, ih l' (by simpa using hl)]

theorem pts_addWp (n : Nat) (g0 : GradsND K) (gq : List (Vec K)) (hn : 1 ≤ n) (hi : g0.inner.length = n - 1)
    (hq : gq.length = n + 1) : pts (EvalCore.addWp n g0 gq) = List.zipWith vadd (pts g0) gq := by
  obtain ⟨m, rfl⟩ : ∃ m, n = m + 1 := ⟨n - 1, by omega⟩
  match gq, hq with
  | a :: rest, hq =>
    have hr : rest.length = m + 1 := by simpa using hq
    have e := take_append_getD m rest hr
    simp only [pts, EvalCore.addWp, List.getD_cons_zero, List.getD_cons_succ, List.drop_succ_cons, List.drop_zero,
      Nat.add_sub_cancel, List.zipWith_cons_cons]
    congr 1
    conv_rhs => rw [← e]
    rw [List.zipWith_append (by rw [hi]; simp [hr])]
    simp

theorem pts_addEnergy (rho : K) (o : Order) (g1 eg : GradsND K) (hi : g1.inner.length = eg.inner.length) :
    pts (EvalCore.addEnergy rho o g1 eg) = List.zipWith (fun a b => vadd a (vscale rho b)) (pts g1) (pts eg) := by
  simp only [pts, EvalCore.addEnergy, List.zipWith_cons_cons]
  rw [List.zipWith_append hi]
  simp

theorem dot_zipAdd_scale (rho : K) (a b dh : List K) (ha : a.length = dh.length) (hb : b.length = dh.length) :
    dot (zipAdd a (scale rho b)) dh = dot a dh + rho * dot b dh := by
  rw [dot_zipAdd _ _ _ ha (by simp [scale, hb])]
  congr 1
  have : scale rho b = vscale rho b := rfl
  rw [this, dot_vscale_left]

theorem ndPair_addWp (n d : Nat) (g0 : GradsND K) (gq dP : List (Vec K)) (dh : List K) (dbc : BC K) (hn : 1 ≤ n)
    (hg : GShape n d g0) (hq : gq.length = n + 1) (hqr : ∀ r ∈ gq, r.length = d) :
    ndPair (EvalCore.addWp n g0 gq) dP dh dbc = ndPair g0 dP dh dbc + blockDot gq dP := by
  rw [ndPair_eq, ndPair_eq, pts_addWp n g0 gq hn hg.inner hq,
    blockDot_zipWith_vadd d _ _ _ (by simp [pts, hg.inner, hq]; omega) hg.rows hqr]
  simp only [EvalCore.addWp]
  ring

theorem ndPair_addEnergy (rho : K) (o : Order) (n d : Nat) (g1 eg : GradsND K) (dP : List (Vec K)) (dh : List K)
    (dbc : BC K) (h1 : GShape n d g1) (h2 : GShape n d eg) (hdh : dh.length = n)
    (ha : 5 ≤ o.degree ∨ (dot eg.start.a dbc.a0 = 0 ∧ dot eg.fin.a dbc.an = 0))
    (hj : 7 ≤ o.degree ∨ (dot eg.start.j dbc.j0 = 0 ∧ dot eg.fin.j dbc.jn = 0)) :
    ndPair (EvalCore.addEnergy rho o g1 eg) dP dh dbc = ndPair g1 dP dh dbc + rho * ndPair eg dP dh dbc := by
  rw [ndPair_eq, ndPair_eq, ndPair_eq, pts_addEnergy rho o g1 eg (by rw [h1.inner, h2.inner]),
    blockDot_zipWith_ad rho d _ _ _ (by simp [pts, h1.inner, h2.inner]) h1.rows h2.rows]
  simp only [EvalCore.addEnergy]
  rw [dot_zipAdd_scale rho _ _ _ (by rw [h1.times, hdh]) (by rw [h2.times, hdh]),
    dot_ad rho _ _ _ (by rw [h1.sv, h2.sv]), dot_ad rho _ _ _ (by rw [h1.ev, h2.ev])]
  have hA : dot (if o.degree ≥ 5 then vadd g1.start.a (vscale rho eg.start.a) else g1.start.a) dbc.a0
      = dot g1.start.a dbc.a0 + rho * dot eg.start.a dbc.a0 := by
    split
    · exact dot_ad rho _ _ _ (by rw [h1.sa, h2.sa])
    · rcases ha with h | h
      · omega
      · rw [h.1]; ring
  have hA' : dot (if o.degree ≥ 5 then vadd g1.fin.a (vscale rho eg.fin.a) else g1.fin.a) dbc.an
      = dot g1.fin.a dbc.an + rho * dot eg.fin.a dbc.an := by
    split
    · exact dot_ad rho _ _ _ (by rw [h1.ea, h2.ea])
    · rcases ha with h | h
      · omega
      · rw [h.2]; ring
  have hJ : dot (if o.degree ≥ 7 then vadd g1.start.j (vscale rho eg.start.j) else g1.start.j) dbc.j0
      = dot g1.start.j dbc.j0 + rho * dot eg.start.j dbc.j0 := by
    split
    · exact dot_ad rho _ _ _ (by rw [h1.sj, h2.sj])
    · rcases hj with h | h
      · omega
      · rw [h.1]; ring
  have hJ' : dot (if o.degree ≥ 7 then vadd g1.fin.j (vscale rho eg.fin.j) else g1.fin.j) dbc.jn
      = dot g1.fin.j dbc.jn + rho * dot eg.fin.j dbc.jn := by
    split
    · exact dot_ad rho _ _ _ (by rw [h1.ej, h2.ej])
    · rcases hj with h | h
      · omega
      · rw [h.2]; ring
  rw [hA, hA', hJ, hJ']
  ring

end lin

section shapes
variable {K : Type} [Field K] [LinearOrder K] [IsStrictOrderedRing K]

theorem gshape_propagateND (o : Order) (d : Nat) (hs : List K) (P : List (Vec K)) (bc : BC K) (gC : List (List (Vec K)))
    (gT : List K) (hne : hs ≠ []) (hP : P.length = hs.length + 1) (hgT : gT.length = hs.length) :
    GShape hs.length d (propagateND o d hs P bc gC gT) := by
  have hsum := (sumLists_pair hs.length d (fun j => (propCol o hs P bc gC j).2.1) (List.replicate hs.length 0)
    (by simp) (fun j _ => propCol_times_length o hs P bc gC j hne hP)).2
  constructor
  · simp [propagateND]
  · intro r hr
    simp only [pts, propagateND, List.mem_cons, List.mem_append, List.mem_map, List.mem_range, List.mem_singleton,
      List.not_mem_nil, or_false] at hr
    rcases hr with rfl | ⟨i, _, rfl⟩ | rfl <;> simp
  · simp only [propagateND, List.map_map]
    rw [zipAdd_length _ _ (by rw [hgT]; exact hsum.symm), hgT]
  all_goals simp [propagateND]

theorem gshape_energyGrad (o : Order) (d : Nat) (hs : List K) (P : List (Vec K)) (t0 : K) (bc : BC K)
    (hne : hs ≠ []) (hP : P.length = hs.length + 1) :
    GShape hs.length d (buildND o d hs P t0 bc).energyGrad := by
  have hsum := (sumLists_pair hs.length d (fun j => (colOf o hs P bc j).gradTimes) (List.replicate hs.length 0)
    (by simp) (fun j _ => (colOf_lengths o hs P bc j hne hP).2)).2
  constructor
  · simp [buildND]
  · intro r hr
    simp only [pts, buildND, List.mem_cons, List.mem_append, List.mem_map, List.mem_range, List.mem_singleton,
      List.not_mem_nil, or_false] at hr
    rcases hr with rfl | ⟨i, _, rfl⟩ | rfl <;> simp
  · simp only [buildND, List.map_map]
    exact hsum
  all_goals simp [buildND]

end shapes

section re
variable {K : Type} [Field K] [LinearOrder K] [IsStrictOrderedRing K]

theorem quintic_build_re (hs Ps : List (Dual K)) (bL bR : V2 (Dual K)) (hne : hs ≠ []) (hpos : ∀ h ∈ hs, 0 < h.re)
    (hP : Ps.length = hs.length + 1) :
    (Quintic.build hs Ps bL bR).map QuinticEG.C6re
      = Quintic.build (hs.map Dual.re) (Ps.map Dual.re) (QuinticAdj.V2re bL) (QuinticAdj.V2re bR) := by
  obtain ⟨hk, _, _⟩ := QuinticEG.knots_re hs Ps bL bR hne hpos hP
  show (Quintic.closure (Quintic.mkSegs hs Ps) (Quintic.buildFull hs Ps bL bR).knots).map QuinticEG.C6re = _
  rw [QuinticEG.closure_re, QuinticAdj.mkSegs_re, hk]
  rfl

theorem septic_build_re (hs Ps : List (Dual K)) (bL bR : V3 (Dual K)) (hne : hs ≠ []) (hpos : ∀ h ∈ hs, 0 < h.re)
    (hP : Ps.length = hs.length + 1) :
    (Septic.build hs Ps bL bR).map SepticEG.C8re
      = Septic.build (hs.map Dual.re) (Ps.map Dual.re) (SepticAdj.V3re bL) (SepticAdj.V3re bR) := by
  obtain ⟨hk, _, _⟩ := SepticEG.knots_re hs Ps bL bR hne hpos hP
  show (Septic.closure (Septic.mkSegs hs Ps) (Septic.buildFull hs Ps bL bR).knots).map SepticEG.C8re = _
  rw [SepticEG.closure_re, SepticAdj.mkSegs_re, hk]
  rfl

/-- real parts of a column's coefficient table -/
theorem colOf_coeffs_re (o : Order) (hs : List (Dual K)) (P : List (Vec (Dual K))) (bc : BC (Dual K)) (j : Nat)
    (hpos : ∀ h ∈ hs, 0 < h.re) (hne : hs ≠ []) (hP : P.length = hs.length + 1) :
    (colOf o hs P bc j).coeffs.map (·.map Dual.re) = (colOf o (hs.map Dual.re) (P.map vre) (bcRe bc) j).coeffs := by
  have hPj : (P.map (fun r => getC r j)).length = hs.length + 1 := by simp [hP]
  cases o with
  | cubic =>
    simp only [colOf, colCubic, bcRe, getC_vre, col_re]
    rw [← CubicEG.build_re, List.map_map, List.map_map]
    apply List.map_congr_left; intro c _; rfl
  | quintic =>
    have := quintic_build_re hs (P.map (fun r => getC r j)) ⟨getC bc.v0 j, getC bc.a0 j⟩ ⟨getC bc.vn j, getC bc.an j⟩
      hne hpos hPj
    simp only [colOf, colQuintic, bcRe, getC_vre, col_re]
    simp only [QuinticAdj.V2re] at this
    rw [← this, List.map_map, List.map_map]
    apply List.map_congr_left; intro c _; rfl
  | septic =>
    have := septic_build_re hs (P.map (fun r => getC r j)) ⟨getC bc.v0 j, getC bc.a0 j, getC bc.j0 j⟩
      ⟨getC bc.vn j, getC bc.an j, getC bc.jn j⟩ hne hpos hPj
    simp only [colOf, colSeptic, bcRe, getC_vre, col_re]
    simp only [SepticAdj.V3re] at this
    rw [← this, List.map_map, List.map_map]
    apply List.map_congr_left; intro c _; rfl

theorem getD2_re (l : List (List (Dual K))) (i k : Nat) :
    (((l.map (·.map Dual.re)).getD i []).getD k (lit 0)) = ((l.getD i []).getD k (lit 0)).re := by
  simp only [List.getD_eq_getElem?_getD, List.getElem?_map]
  cases l[i]? with
  | none => simp [lit_eq]
  | some r =>
    simp only [Option.map_some, Option.getD_some, List.getElem?_map]
    cases r[k]? <;> simp [lit_eq]

/-- **real parts of the published coefficient blocks** -/
theorem coeffs_re (o : Order) (d : Nat) (hs : List (Dual K)) (P : List (Vec (Dual K))) (t0 : Dual K) (t0' : K)
    (bc : BC (Dual K)) (hpos : ∀ h ∈ hs, 0 < h.re) (hne : hs ≠ []) (hP : P.length = hs.length + 1) :
    (buildND o d hs P t0 bc).coeffs.map (·.map vre)
      = (buildND o d (hs.map Dual.re) (P.map vre) t0' (bcRe bc)).coeffs := by
  simp only [buildND, stack, List.map_map, List.length_map]
  apply List.map_congr_left; intro i _
  simp only [Function.comp, List.map_map]
  apply List.map_congr_left; intro k _
  simp only [Function.comp, vre, List.map_map]
  apply List.map_congr_left; intro j _
  show _ = ((colOf o (hs.map Dual.re) (P.map vre) (bcRe bc) j).coeffs.getD i []).getD k (lit 0)
  rw [← colOf_coeffs_re o hs P bc j hpos hne hP, getD2_re]
  rfl

end re

section main
variable {K : Type} [Field K] [LinearOrder K] [IsStrictOrderedRing K] [FloorRing K]

/-- comparisons on dual numbers look at the real part (the model's `dualNumOrd`), with the theorems' `Num` instance -/
@[reducible] noncomputable instance (priority := high) ordNumDual : NumOrd (Dual K) :=
  { toNum := drNum, lt := fun a b => decide (a.re < b.re), le := fun a b => decide (a.re ≤ b.re),
    floor := fun a => Int.floor a.re }

/-- instance coherence: the model's `NumOrd (Dual K)` is this instance -/
theorem dualNumOrd_eq : (@dualNumOrd K ordNum : NumOrd (Dual K)) = ordNumDual := by
  have h := @dualNum_eq K _
  unfold dualNumOrd ordNumDual
  congr

def dcRe (dc : Decoded (Dual K)) : Decoded K := ⟨dc.times.map Dual.re, dc.waypoints.map vre, bcRe dc.bc⟩

/-- the documented protocol of the three cost functors, at the decoded point -/
structure CostsOK (n d : Nat) (costsD : Costs (Dual K)) (costsR : Costs K) (dc : Decoded (Dual K)) : Prop where
  run : RunOK d costsD.run costsR.run
  time_du : (costsD.time dc.times).1.du = dot (costsR.time (dc.times.map Dual.re)).2 (dc.times.map Dual.du)
  time_len : (costsR.time (dc.times.map Dual.re)).2.length = n
  wp : match costsD.waypoints, costsR.waypoints with
       | none, none => True
       | some wD, some wR =>
           (wD dc.waypoints).1.du = blockDot (wR (dc.waypoints.map vre)).2 (dc.waypoints.map vdu)
           ∧ (wR (dc.waypoints.map vre)).2.length = n + 1 ∧ ∀ r ∈ (wR (dc.waypoints.map vre)).2, r.length = d
       | _, _ => False

theorem foldl_add_du (l : List (Dual K)) (a : Dual K) :
    (l.foldl (· + ·) a).du = a.du + ST.sum (l.map Dual.du) := by
  induction l generalizing a with
  | nil => simp [ST.sum, lit_eq]
  | cons x l ih =>
    rw [List.foldl_cons, ih, List.map_cons, ST.sum]
    have : (a + x).du = a.du + x.du := by dual_proj
    rw [this]; ring

theorem segStarts_length {α : Type} [Num α] (t : α) (l : List α) : (segStarts t l).length = l.length := by
  induction l generalizing t with
  | nil => simp [segStarts]
  | cons a l ih => simp [segStarts, ih]

theorem suffixAdd_length (l : List K) : (suffixAdd l).length = l.length := by
  induction l with
  | nil => simp [suffixAdd]
  | cons e es ih => rw [suffixAdd_cons]; simp [ih]

theorem stack_shapeD (n nc : Nat) (cols : List (List (List (Dual K)))) :
    ∀ b ∈ stack n nc cols, ShapeD nc cols.length b := by
  intro b hb
  simp only [stack, List.mem_map, List.mem_range] at hb
  obtain ⟨i, _, rfl⟩ := hb
  refine ⟨by simp, ?_⟩
  intro r hr
  simp only [List.mem_map, List.mem_range] at hr
  obtain ⟨k, _, rfl⟩ := hr
  simp

/-- time cost + integral cost: the dual part of `cost1` is the pairing with what `propagateGrad` returns -/
theorem cost1_dual (cD : Config (Dual K)) (cR : Config K) (dc : Decoded (Dual K)) (costsD : Costs (Dual K))
    (costsR : Costs K) (ho : cR.order = cD.order) (hd : cR.dim = cD.dim) (hn : cR.n = cD.n) (hst : cR.steps = cD.steps)
    (ht0 : cD.startTime.re = cR.startTime) (ht0' : cD.startTime.du = 0)
    (hT : dc.times.length = cD.n) (hn1 : cD.n ≠ 0) (hW : dc.waypoints.length = cD.n + 1)
    (hpos : ∀ h ∈ dc.times, 0 < h.re) (hc : CostsOK cD.n cD.dim costsD costsR dc) :
    (cost1 cD dc costsD).du
      = ndPair (g0 cR (dcRe dc) costsR) (dc.waypoints.map vdu) (dc.times.map Dual.du) (bcDu dc.bc)
    ∧ GShape cD.n cD.dim (g0 cR (dcRe dc) costsR) := by
  have hne : dc.times ≠ [] := by
    intro h; rw [h] at hT; exact hn1 hT.symm
  have hP : dc.waypoints.length = dc.times.length + 1 := by rw [hW, hT]
  set spD := buildND cD.order cD.dim dc.times dc.waypoints cD.startTime dc.bc with hspD
  have hblen : spD.coeffs.length = dc.times.length := by simp [hspD, buildND, stack]
  have hblk : ∀ b ∈ spD.coeffs, ShapeD cD.order.coeffNum cD.dim b := by
    intro b hb
    rw [hspD] at hb
    simp only [buildND] at hb
    have := stack_shapeD _ _ _ b hb
    simpa using this
  -- the accumulators, both runs
  have haccD : segAccs cD dc costsD
      = intAcc cD.order cD.dim cD.steps costsD.run 0 dc.times (segStarts cD.startTime dc.times) spD.coeffs := by
    rw [intAcc_eq_range cD.order cD.dim cD.steps costsD.run cD.n dc.times _ _ hT
      (by rw [segStarts_length, hT]) (by rw [hblen, hT]) 0]
    simp only [segAccs, Nat.zero_add]
    rfl
  have haccR : segAccs cR (dcRe dc) costsR
      = intAcc cD.order cD.dim cD.steps costsR.run 0 (dc.times.map Dual.re)
          (segStarts cD.startTime.re (dc.times.map Dual.re)) (spD.coeffs.map (·.map vre)) := by
    rw [intAcc_eq_range cD.order cD.dim cD.steps costsR.run cD.n (dc.times.map Dual.re) _ _ (by simp [hT])
      (by rw [segStarts_length]; simp [hT]) (by simp [hblen, hT]) 0]
    simp only [segAccs, Nat.zero_add, ho, hd, hn, hst, dcRe, ht0]
    rw [coeffs_re cD.order cD.dim dc.times dc.waypoints cD.startTime cR.startTime dc.bc hpos hne hP]
  obtain ⟨_, hdu⟩ := integral_cost_dual cD.order cD.dim cD.steps costsD.run costsR.run hc.run cD.startTime dc.times
    spD.coeffs hblen hblk
  simp only [] at hdu
  rw [← haccD, ← haccR, ht0', mul_zero, add_zero] at hdu
  set accR := segAccs cR (dcRe dc) costsR with haccRdef
  have haccRlen : accR.length = cD.n := by
    rw [haccR]
    have : ∀ (i : Nat) (Ts ss : List K) (bs : List (List (Vec K))), ss.length = Ts.length → bs.length = Ts.length →
        (intAcc cD.order cD.dim cD.steps costsR.run i Ts ss bs).length = Ts.length := by
      intro i Ts
      induction Ts generalizing i with
      | nil => intro ss bs _ _; simp [intAcc]
      | cons T Ts ih =>
        intro ss bs h1 h2
        match ss, bs, h1, h2 with
        | s :: ss, b :: bs, h1, h2 => simp [intAcc, ih (i + 1) ss bs (by simpa using h1) (by simpa using h2)]
    rw [this _ _ _ _ (by rw [segStarts_length]) (by simp [hblen])]
    simp [hT]
  -- lengths of the duration-gradient pieces
  have hdT : (dc.times.map Dual.du).length = cD.n := by simp [hT]
  have hz : (zipAdd (List.replicate cD.n (lit 0 : K)) (costsR.time (dc.times.map Dual.re)).2).length = cD.n := by
    rw [zipAdd_length _ _ (by simp [hc.time_len])]; simp
  have hz2 : (zipAdd (zipAdd (List.replicate cD.n (lit 0 : K)) (costsR.time (dc.times.map Dual.re)).2)
      (accR.map (·.gdT))).length = cD.n := by
    rw [zipAdd_length _ _ (by rw [hz]; simp [haccRlen]), hz]
  have hgdT2 : gdT2 cR (dcRe dc) costsR
      = zipAdd (zipAdd (zipAdd (List.replicate cD.n (lit 0 : K)) (costsR.time (dc.times.map Dual.re)).2)
          (accR.map (·.gdT))) (suffixAdd (accR.map (·.expl))) := by
    simp only [gdT2, hn, dcRe, haccRdef]
  have hgdT2len : (gdT2 cR (dcRe dc) costsR).length = dc.times.length := by
    rw [hgdT2, zipAdd_length _ _ (by rw [hz2, suffixAdd_length]; simp [haccRlen]), hz2, hT]
  have hadj := propagateND_adjoint cD.order cD.dim dc.times dc.waypoints cD.startTime dc.bc (accR.map (·.gdC))
    (gdT2 cR (dcRe dc) costsR) hpos hne hP hgdT2len
  have hg0 : g0 cR (dcRe dc) costsR
      = propagateND cD.order cD.dim (dc.times.map Dual.re) (dc.waypoints.map vre) (bcRe dc.bc) (accR.map (·.gdC))
          (gdT2 cR (dcRe dc) costsR) := by
    simp only [g0, ho, hd, dcRe, haccRdef]
  refine ⟨?_, ?_⟩
  · rw [hg0, ← hadj]
    -- cost side
    simp only [cost1]
    rw [foldl_add_du, List.map_map]
    have hcomp : ((fun a : SegAcc (Dual K) => a.cost) ∘ fun x => x) = fun a => a.cost := rfl
    have e1 : ST.sum ((segAccs cD dc costsD).map (Dual.du ∘ fun a => a.cost))
        = ST.sum ((segAccs cD dc costsD).map (fun a => a.cost.du)) := rfl
    rw [e1, hdu]
    have e0 : (lit 0 + (costsD.time dc.times).1 : Dual K).du = (costsD.time dc.times).1.du := by dual_proj; ring
    rw [e0, hc.time_du, hgdT2]
    rw [dot_zipAdd (zipAdd (zipAdd (List.replicate cD.n (lit 0 : K)) (costsR.time (dc.times.map Dual.re)).2)
          (accR.map (·.gdT))) (suffixAdd (accR.map (·.expl))) (dc.times.map Dual.du)
        (by rw [hz2, hdT]) (by rw [suffixAdd_length]; simp [haccRlen, hT]),
      dot_zipAdd (zipAdd (List.replicate cD.n (lit 0 : K)) (costsR.time (dc.times.map Dual.re)).2) (accR.map (·.gdT))
        (dc.times.map Dual.du) (by rw [hz, hdT]) (by simp [haccRlen, hT]),
      dot_zipAdd (List.replicate cD.n (lit 0 : K)) (costsR.time (dc.times.map Dual.re)).2 (dc.times.map Dual.du)
        (by simp [hT]) (by rw [hc.time_len, hdT]),
      dot_zipAdd (accR.map (·.gdT)) (suffixAdd (accR.map (·.expl))) (dc.times.map Dual.du)
        (by simp [haccRlen, hT]) (by rw [suffixAdd_length]; simp [haccRlen, hT])]
    have hz0 : dot (List.replicate cD.n (lit 0 : K)) (dc.times.map Dual.du) = 0 := by
      simp only [lit_eq, Nat.cast_zero]; exact dot_zeros_left _ _
    rw [hz0]
    ring
  · rw [hg0]
    have := gshape_propagateND cD.order cD.dim (dc.times.map Dual.re) (dc.waypoints.map vre) (bcRe dc.bc)
      (accR.map (·.gdC)) (gdT2 cR (dcRe dc) costsR) (by simpa using hne) (by simp [hP]) (by simp [hgdT2len])
    simpa [hT] using this


theorem zipWith_vadd_rows (d : Nat) (A B : List (Vec K)) (hA : ∀ a ∈ A, a.length = d) (hB : ∀ b ∈ B, b.length = d) :
    ∀ r ∈ List.zipWith vadd A B, r.length = d := by
  induction A generalizing B with
  | nil => simp
  | cons a A ih =>
    cases B with
    | nil => simp
    | cons b B =>
      intro r hr
      simp only [List.zipWith_cons_cons, List.mem_cons] at hr
      rcases hr with rfl | hr
      · rw [vadd_length _ _ (by rw [hA a (by simp), hB b (by simp)]), hA a (by simp)]
      · exact ih B (fun x hx => hA x (by simp [hx])) (fun x hx => hB x (by simp [hx])) r hr

theorem gshape_addWp (n d : Nat) (g : GradsND K) (gq : List (Vec K)) (hn : 1 ≤ n) (hg : GShape n d g)
    (hq : gq.length = n + 1) (hqr : ∀ r ∈ gq, r.length = d) : GShape n d (addWp n g gq) := by
  have hp := pts_addWp n g gq hn hg.inner hq
  constructor
  · simp only [addWp, List.length_zipWith, List.length_take, List.length_drop, hg.inner, hq]; omega
  · rw [hp]; exact zipWith_vadd_rows d _ _ hg.rows hqr
  · exact hg.times
  · exact hg.sv
  · exact hg.sa
  · exact hg.sj
  · exact hg.ev
  · exact hg.ea
  · exact hg.ej

theorem zipWith_ad_rows (rho : K) (d : Nat) (A B : List (Vec K)) (hA : ∀ a ∈ A, a.length = d) (hB : ∀ b ∈ B, b.length = d) :
    ∀ r ∈ List.zipWith (fun a b => vadd a (vscale rho b)) A B, r.length = d := by
  induction A generalizing B with
  | nil => simp
  | cons a A ih =>
    cases B with
    | nil => simp
    | cons b B =>
      intro r hr
      simp only [List.zipWith_cons_cons, List.mem_cons] at hr
      rcases hr with rfl | hr
      · rw [vadd_length _ _ (by simp [vscale, hA a (by simp), hB b (by simp)]), hA a (by simp)]
      · exact ih B (fun x hx => hA x (by simp [hx])) (fun x hx => hB x (by simp [hx])) r hr

theorem ad_length (rho : K) (d : Nat) (a b : Vec K) (ha : a.length = d) (hb : b.length = d) :
    (vadd a (vscale rho b)).length = d := by
  rw [vadd_length _ _ (by simp [vscale, ha, hb]), ha]

theorem gshape_addEnergy (rho : K) (o : Order) (n d : Nat) (g1 eg : GradsND K) (h1 : GShape n d g1) (h2 : GShape n d eg) :
    GShape n d (addEnergy rho o g1 eg) := by
  have hp := pts_addEnergy rho o g1 eg (by rw [h1.inner, h2.inner])
  constructor
  · simp only [addEnergy, List.length_zipWith, h1.inner, h2.inner]; omega
  · rw [hp]; exact zipWith_ad_rows rho d _ _ h1.rows h2.rows
  · simp only [addEnergy]
    rw [zipAdd_length _ _ (by simp [scale, h1.times, h2.times]), h1.times]
  · exact ad_length rho d _ _ h1.sv h2.sv
  · simp only [addEnergy]; split
    · exact ad_length rho d _ _ h1.sa h2.sa
    · exact h1.sa
  · simp only [addEnergy]; split
    · exact ad_length rho d _ _ h1.sj h2.sj
    · exact h1.sj
  · exact ad_length rho d _ _ h1.ev h2.ev
  · simp only [addEnergy]; split
    · exact ad_length rho d _ _ h1.ea h2.ea
    · exact h1.ea
  · simp only [addEnergy]; split
    · exact ad_length rho d _ _ h1.ej h2.ej
    · exact h1.ej

theorem dot_const_zero (d : Nat) (x : Vec K) (f : Nat → K) (hf : ∀ j, f j = 0) : dot ((List.range d).map f) x = 0 := by
  rw [dot_map_range]
  apply Finset.sum_eq_zero
  intro j _; rw [hf j]; ring

/-- boundary blocks an order does not have carry a zero analytic energy gradient -/
theorem energyGrad_gate (o : Order) (d : Nat) (hs : List K) (P : List (Vec K)) (t0 : K) (bc dbc : BC K) :
    (5 ≤ o.degree ∨ (dot (buildND o d hs P t0 bc).energyGrad.start.a dbc.a0 = 0
        ∧ dot (buildND o d hs P t0 bc).energyGrad.fin.a dbc.an = 0))
    ∧ (7 ≤ o.degree ∨ (dot (buildND o d hs P t0 bc).energyGrad.start.j dbc.j0 = 0
        ∧ dot (buildND o d hs P t0 bc).energyGrad.fin.j dbc.jn = 0)) := by
  cases o with
  | cubic =>
    refine ⟨Or.inr ⟨?_, ?_⟩, Or.inr ⟨?_, ?_⟩⟩ <;>
    · simp only [buildND, List.map_map]
      apply dot_const_zero
      intro j; simp [colOf, colCubic, lit_eq]
  | quintic =>
    refine ⟨Or.inl (by simp [Order.degree]), Or.inr ⟨?_, ?_⟩⟩ <;>
    · simp only [buildND, List.map_map]
      apply dot_const_zero
      intro j; simp [colOf, colQuintic, lit_eq]
  | septic => exact ⟨Or.inl (by simp [Order.degree]), Or.inl (by simp [Order.degree])⟩

/-- **C07 (decoded quantities)**: the dual part of the cost `evaluate` returns is the pairing of the gradient record it
computes with the tangent of waypoints, durations and boundary states — every order, N, D, quadrature step count, for
every cost-functor triple following the protocol `CostsOK` -/
theorem evalCore_dual (cD : Config (Dual K)) (cR : Config K) (dc : Decoded (Dual K)) (costsD : Costs (Dual K))
    (costsR : Costs K) (ho : cR.order = cD.order) (hd : cR.dim = cD.dim) (hn : cR.n = cD.n) (hst : cR.steps = cD.steps)
    (hrho : cD.rho.re = cR.rho) (hrho' : cD.rho.du = 0)
    (ht0 : cD.startTime.re = cR.startTime) (ht0' : cD.startTime.du = 0)
    (hT : dc.times.length = cD.n) (hn1 : cD.n ≠ 0) (hW : dc.waypoints.length = cD.n + 1)
    (hpos : ∀ h ∈ dc.times, 0 < h.re) (hc : CostsOK cD.n cD.dim costsD costsR dc) :
    (evalCore cD dc costsD).cost.du
      = ndPair (evalCore cR (dcRe dc) costsR).g (dc.waypoints.map vdu) (dc.times.map Dual.du) (bcDu dc.bc)
    ∧ GShape cD.n cD.dim (evalCore cR (dcRe dc) costsR).g := by
  have hne : dc.times ≠ [] := by
    intro h; rw [h] at hT; exact hn1 hT.symm
  have hP : dc.waypoints.length = dc.times.length + 1 := by rw [hW, hT]
  have hn1' : 1 ≤ cD.n := Nat.one_le_iff_ne_zero.mpr hn1
  obtain ⟨h1, hsh0⟩ := cost1_dual cD cR dc costsD costsR ho hd hn hst ht0 ht0' hT hn1 hW hpos hc
  obtain ⟨pD1, _⟩ := evalCore_parts cD dc costsD
  obtain ⟨_, pR2⟩ := evalCore_parts cR (dcRe dc) costsR
  rw [pD1, pR2]
  -- the waypoint stage, as (cost.du, gradient record) with its pairing identity
  have hwp : (wpStage cD dc costsD).1.du
        = ndPair (wpStage cR (dcRe dc) costsR).2 (dc.waypoints.map vdu) (dc.times.map Dual.du) (bcDu dc.bc)
      ∧ GShape cD.n cD.dim (wpStage cR (dcRe dc) costsR).2 := by
    have hw := hc.wp
    have hw' : (dcRe dc).waypoints = dc.waypoints.map vre := rfl
    unfold wpStage
    cases hwD : costsD.waypoints with
    | none =>
      cases hwR : costsR.waypoints with
      | none => exact ⟨h1, hsh0⟩
      | some wR => rw [hwD, hwR] at hw; exact absurd hw id
    | some wD =>
      cases hwR : costsR.waypoints with
      | none => rw [hwD, hwR] at hw; exact absurd hw id
      | some wR =>
        rw [hwD, hwR] at hw
        obtain ⟨w1, w2, w3⟩ := hw
        simp only [hw', hn]
        refine ⟨?_, ?_⟩
        · rw [ndPair_addWp cD.n cD.dim _ _ _ _ _ hn1' hsh0 w2 w3]
          have : (cost1 cD dc costsD + (wD dc.waypoints).1).du = (cost1 cD dc costsD).du + (wD dc.waypoints).1.du := by
            dual_proj
          rw [this, h1, w1]
        · exact gshape_addWp cD.n cD.dim _ _ hn1' hsh0 w2 w3
  obtain ⟨e3, e4⟩ := hwp
  set cgR := (wpStage cR (dcRe dc) costsR).2 with hcgR
  split
  · -- energy term
    rename_i h
    have hR : NumOrd.lt (lit 0) cR.rho = true := by rw [← hrho]; exact h
    rw [if_pos hR]
    have hE := energyND_grad cD.order cD.dim dc.times dc.waypoints cD.startTime cR.startTime dc.bc hpos hne hP
    have hshE := gshape_energyGrad cD.order cD.dim (dc.times.map Dual.re) (dc.waypoints.map vre) cR.startTime
      (bcRe dc.bc) (by simpa using hne) (by simp [hP])
    simp only [List.length_map, hT] at hshE
    obtain ⟨ga, gj⟩ := energyGrad_gate cD.order cD.dim (dc.times.map Dual.re) (dc.waypoints.map vre) cR.startTime
      (bcRe dc.bc) (bcDu dc.bc)
    simp only [dcRe, ho, hd]
    refine ⟨?_, gshape_addEnergy cR.rho cD.order cD.n cD.dim cgR _ e4 hshE⟩
    rw [ndPair_addEnergy cR.rho cD.order cD.n cD.dim cgR _ _ _ _ e4 hshE (by simp [hT]) ga gj, ← hE, ← e3]
    have : ((wpStage cD dc costsD).1 + cD.rho * (buildND cD.order cD.dim dc.times dc.waypoints cD.startTime dc.bc).energy).du
        = (wpStage cD dc costsD).1.du + (cD.rho.re * (buildND cD.order cD.dim dc.times dc.waypoints cD.startTime dc.bc).energy.du
            + cD.rho.du * (buildND cD.order cD.dim dc.times dc.waypoints cD.startTime dc.bc).energy.re) := by
      dual_proj
    rw [this, hrho, hrho']
    ring
  · rename_i h
    have hR : ¬ (NumOrd.lt (lit 0) cR.rho = true) := by rw [← hrho]; exact h
    rw [if_neg hR]
    exact ⟨e3, e4⟩

end main

end EvalCore
