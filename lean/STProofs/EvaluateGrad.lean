import STProofs.EvalCore
/-!
# C07: the gradient `evaluate` returns is the exact gradient of the cost it returns

`evaluate = decode ; evalCore ; assemble`.  Run over dual numbers on a decision vector `x + ε·dx`, the dual part of the
returned cost equals `⟨grad, dx⟩` where `grad` is what the real run returns — for every order, N, dimension, flag set,
quadrature step count, every time/spatial map whose `backward`/`backwardGrad` are the transposed derivatives of
`toTime`/`toPhysical` (`MapsOK`), every cost-functor triple following the protocol (`CostsOK`), and constant
(tangent-free) reference data, start time and energy weight.
-/
open ST QuadDual NDAdj NDEnergy EvalCore Assemble
open scoped BigOperators

namespace EvaluateGrad
variable {K : Type} [Field K]

/-- the reference (fixed) data of the dual configuration are the real ones, with zero tangent -/
structure RefsOK (cD : Config (Dual K)) (cR : Config K) : Prop where
  wRe : cD.refWaypoints.map vre = cR.refWaypoints
  wDu : ∀ r ∈ cD.refWaypoints, ∀ e ∈ r, e.du = 0
  bRe : bcRe cD.refBC = cR.refBC
  bDu : ∀ (b : DBlock), ∀ e ∈ cD.refBC.getBlock b, e.du = 0

theorem getD_re (x : List (Dual K)) (i : Nat) : (x.getD i (lit 0)).re = (x.map Dual.re).getD i (lit 0) := by
  simp only [List.getD_eq_getElem?_getD, List.getElem?_map]
  cases x[i]? <;> simp [lit_eq]

theorem bcRe_setBlock (bc : BC (Dual K)) (b : DBlock) (v : Vec (Dual K)) :
    bcRe (bc.setBlock b v) = (bcRe bc).setBlock b (vre v) := by
  cases b <;> rfl

theorem decode_re {tdom : K → Prop} (cD : Config (Dual K)) (cR : Config K) (hm : MapsOK tdom cD cR) (hr : RefsOK cD cR)
    (x : List (Dual K)) (hdom : ∀ i, i < cR.n → tdom (x.getD i (lit 0)).re) :
    dcRe (decode cD x) = decode cR (x.map Dual.re) := by
  have ht : (decode cD x).times.map Dual.re = (decode cR (x.map Dual.re)).times := by
    simp only [decode, hm.n, List.map_map]
    apply List.map_congr_left; intro i hi
    simp only [Function.comp]
    rw [hm.tmRe _ (hdom i (List.mem_range.mp hi)), getD_re]
  have hw : (decode cD x).waypoints.map vre = (decode cR (x.map Dual.re)).waypoints := by
    simp only [decode, layout_eq cD cR hm]
    rw [← hr.wRe]
    generalize cD.refWaypoints = w0
    generalize cR.layout.vars = vars
    induction vars generalizing w0 with
    | nil => rfl
    | cons v vars ih =>
      rw [List.foldl_cons, List.foldl_cons, ih]
      congr 1
      simp only [setRow, List.map_set]
      rw [hm.smRe]
      simp only [vre, segment_map]
  have hb : bcRe (decode cD x).bc = (decode cR (x.map Dual.re)).bc := by
    simp only [decode, layout_eq cD cR hm, hm.order, hm.flags, hm.dim]
    rw [← hr.bRe]
    generalize cD.refBC = bc
    generalize cR.layout.derivOffset = off
    generalize derivBlocks cR.order cR.flags = blocks
    induction blocks generalizing bc off with
    | nil => rfl
    | cons b blocks ih =>
      rw [List.foldl_cons, List.foldl_cons, ih]
      congr 2
      simp only [bcRe_setBlock, vre, segment_map]
  simp only [dcRe, ht, hw, hb]


/-! ## sums over the optimised points / flagged blocks only -/

theorem sum_layoutFrom (f : Flags) (n : Nat) (udim : Nat → Nat) (F : Nat → K) (fuel i off : Nat)
    (hz : ∀ j, spatialOptimized f n j = false → F j = 0) :
    ∑ j ∈ Finset.Ico i (i + fuel), F j = ((layoutFrom f n udim fuel i off).1.map (fun v => F v.point)).sum := by
  induction fuel generalizing i off with
  | zero => simp [layoutFrom]
  | succ k ih =>
    rw [Finset.sum_eq_sum_Ico_succ_bot (by omega), show i + (k + 1) = (i + 1) + k by omega]
    simp only [layoutFrom]
    split
    · rename_i h
      rw [ih (i + 1) (off + udim i)]
      simp
    · rename_i h
      rw [ih (i + 1) off, hz i (by simpa using h), zero_add]

theorem dot_right_zero (g v : Vec K) (h : ∀ e ∈ v, e = 0) : dot g v = 0 := by
  induction g generalizing v with
  | nil => simp [dot, lit_eq]
  | cons a g ih =>
    cases v with
    | nil => simp [dot, lit_eq]
    | cons b v =>
      rw [dot_cons, h b (by simp), ih v (fun e he => h e (by simp [he]))]; ring

theorem foldl_setRow_length {β : Type} (vs : List LayoutVar) (val : LayoutVar → List β) (w0 : List (List β)) :
    (vs.foldl (fun w v => setRow w v.point (val v)) w0).length = w0.length := by
  induction vs generalizing w0 with
  | nil => rfl
  | cons v vs ih => rw [List.foldl_cons, ih]; simp [setRow]

theorem decode_wps_length {α : Type} [Num α] (c : Config α) (x : List α) :
    (decode c x).waypoints.length = c.refWaypoints.length := by
  simp only [decode]
  exact foldl_setRow_length _ _ _

/-- un-optimised waypoints are pinned to the reference (any scalar type) -/
theorem decode_pinned_wp {α : Type} [Num α] (c : Config α) (x : List α) (i : Nat) (hn : c.n ≠ 0)
    (hi : spatialOptimized c.flags c.n i = false) :
    (decode c x).waypoints.getD i [] = c.refWaypoints.getD i [] := by
  simp only [decode, Config.layout, layout, hn, if_false]
  apply RoundTrip.foldl_setRow_getD_ne'
  intro v hv hvi
  have := ((RoundTrip.layoutFrom_packed c.flags c.n c.sm.udim (c.n + 1) 0 c.n).2 v hv).2
  rw [hvi, hi] at this
  exact Bool.false_ne_true this

theorem pts_getD (n : Nat) (g : GradsND K) (j : Nat) (hn : 1 ≤ n) (hi : g.inner.length = n - 1) (hj : j ≤ n) :
    (pts g).getD j [] = pointGradOf n g j := by
  simp only [pts, pointGradOf]
  rcases j with _ | j
  · simp
  · rw [List.getD_cons_succ]
    by_cases hjn : j + 1 = n
    · rw [if_neg (by omega), if_pos hjn]
      rw [List.getD_eq_getElem?_getD, List.getElem?_append_right (by omega)]
      have : j - g.inner.length = 0 := by omega
      simp [this]
    · rw [if_neg (by omega), if_neg hjn]
      rw [List.getD_eq_getElem?_getD, List.getElem?_append_left (by omega)]
      simp

theorem map_eq_range_getD {β γ : Type} (l : List β) (m : Nat) (hl : l.length = m) (f : β → γ) (d : β) :
    l.map f = (List.range m).map (fun j => f (l.getD j d)) := by
  apply List.ext_getElem
  · simp [hl]
  · intro i h1 h2
    simp only [List.getElem_map, List.getElem_range]
    have : i < l.length := by simpa using h1
    simp [List.getD_eq_getElem?_getD, List.getElem?_eq_getElem this]


theorem blocks_sum (o : Order) (f : Flags) (F : DBlock → K) (hz : ∀ b, b ∉ derivBlocks o f → F b = 0) :
    ((derivBlocks o f).map F).sum = F .sv + F .sa + F .sj + F .ev + F .ea + F .ej := by
  have key : ∀ (l : List DBlock) (p : DBlock → Bool),
      ((l.filter p).map F).sum = (l.map (fun b => if p b then F b else 0)).sum := by
    intro l p
    induction l with
    | nil => simp
    | cons b l ih =>
      by_cases hb : p b = true
      · simp [List.filter_cons, hb, ih]
      · simp [List.filter_cons, hb, ih]
  have hspec := derivBlocks_spec o f
  have e : ∀ (p : DBlock → Bool), derivBlocks o f = [DBlock.sv, DBlock.sa, DBlock.sj, DBlock.ev, DBlock.ea, DBlock.ej].filter p →
      ∀ b, (if p b then F b else 0) = F b := by
    intro p hp b
    split
    · rfl
    · rename_i h
      symm; apply hz; rw [hp]; simp [List.mem_filter, h]
  rw [hspec, key]
  simp only [e _ hspec, List.map_cons, List.map_nil, List.sum_cons, List.sum_nil]
  ring

theorem decode_pinned_blk {α : Type} [Num α] (c : Config α) (x : List α) (b : DBlock) (hb : b ∉ derivBlocks c.order c.flags) :
    (decode c x).bc.getBlock b = c.refBC.getBlock b := by
  simp only [decode]
  exact fold_getBlock_ne c.dim x _ c.refBC _ b hb

section final
variable [LinearOrder K] [IsStrictOrderedRing K] [FloorRing K]

/-- **C07**: the gradient returned by `evaluate` is the exact gradient of the cost returned by `evaluate` -/
theorem evaluate_grad_exact {tdom : K → Prop} (cD : Config (Dual K)) (cR : Config K) (hm : MapsOK tdom cD cR)
    (hr : RefsOK cD cR) (x : List (Dual K)) (hdom : ∀ i, i < cR.n → tdom (x.getD i (lit 0)).re)
    (costsD : Costs (Dual K)) (costsR : Costs K)
    (hst : cR.steps = cD.steps) (hrho : cD.rho.re = cR.rho) (hrho' : cD.rho.du = 0)
    (ht0 : cD.startTime.re = cR.startTime) (ht0' : cD.startTime.du = 0)
    (hn : 0 < cR.n) (hx : x.length = cR.layout.total) (hwl : cD.refWaypoints.length = cR.n + 1)
    (hpos : ∀ h ∈ (decode cR (x.map Dual.re)).times, 0 < h)
    (hc : CostsOK cD.n cD.dim costsD costsR (decode cD x)) :
    (evaluate cD x costsD).cost.du = dot (evaluate cR (x.map Dual.re) costsR).grad (x.map Dual.du) := by
  have hdre := decode_re cD cR hm hr x hdom
  have hT : (decode cD x).times.length = cD.n := by simp [decode]
  have hW : (decode cD x).waypoints.length = cD.n + 1 := by rw [decode_wps_length, hwl, hm.n]
  have hn1 : cD.n ≠ 0 := by rw [hm.n]; omega
  have hposD : ∀ h ∈ (decode cD x).times, 0 < h.re := by
    intro h hh
    apply hpos
    rw [← hdre]
    exact List.mem_map.mpr ⟨h, hh, rfl⟩
  obtain ⟨h1, hsh⟩ := evalCore_dual cD cR (decode cD x) costsD costsR hm.order.symm hm.dim.symm hm.n.symm hst hrho hrho'
    ht0 ht0' hT hn1 hW hposD hc
  rw [hdre] at h1 hsh
  rw [hm.n, hm.dim] at hsh
  set g := (evalCore cR (decode cR (x.map Dual.re)) costsR).g with hg
  show (evalCore cD (decode cD x) costsD).cost.du
    = dot (assemble cR (x.map Dual.re) (decode cR (x.map Dual.re)).times g) (x.map Dual.du)
  have hbg : ∀ b ∈ derivBlocks cR.order cR.flags, (blockGradOf g b).length = cR.dim := by
    intro b _
    cases b
    · exact hsh.sv
    · exact hsh.sa
    · exact hsh.sj
    · exact hsh.ev
    · exact hsh.ea
    · exact hsh.ej
  have hpg : ∀ i, i ≤ cR.n → (pointGradOf cR.n g i).length = cR.dim := by
    intro i hi
    rw [← pts_getD cR.n g i hn hsh.inner hi]
    apply hsh.rows
    have hlen : i < (pts g).length := by simp [pts, hsh.inner]; omega
    rw [List.getD_eq_getElem?_getD, List.getElem?_eq_getElem hlen]; simp
  rw [h1, ← assemble_adjoint cD cR hm x hdom g hn hx hsh.times hbg hpg hwl, ndPair_eq]
  -- points
  have hpts : blockDot (pts g) ((decode cD x).waypoints.map vdu)
      = (cR.layout.vars.map (fun v => dot (pointGradOf cR.n g v.point)
          (vdu ((decode cD x).waypoints.getD v.point [])))).sum := by
    rw [map_eq_range_getD (decode cD x).waypoints (cR.n + 1) (by rw [hW, hm.n]) vdu [], blockDot_range]
    have hne : cR.n ≠ 0 := by omega
    have hlay : cR.layout.vars = (layoutFrom cR.flags cR.n cR.sm.udim (cR.n + 1) 0 cR.n).1 := by
      simp only [Config.layout, layout, hne, if_false]
    rw [hlay, ← sum_layoutFrom cR.flags cR.n cR.sm.udim
      (fun j => dot (pointGradOf cR.n g j) (vdu ((decode cD x).waypoints.getD j []))) (cR.n + 1) 0 cR.n]
    · rw [Nat.zero_add, ← Finset.range_eq_Ico]
      apply Finset.sum_congr rfl
      intro j hj
      rw [pts_getD cR.n g j hn hsh.inner (by have := Finset.mem_range.mp hj; omega)]
    · intro j hj
      rw [decode_pinned_wp cD x j hn1 (by rw [hm.flags, hm.n]; exact hj)]
      apply dot_right_zero
      intro e he
      simp only [vdu, List.mem_map] at he
      obtain ⟨a, ha, rfl⟩ := he
      by_cases hjl : j < cD.refWaypoints.length
      · have hmem : cD.refWaypoints.getD j [] ∈ cD.refWaypoints := by
          rw [List.getD_eq_getElem?_getD, List.getElem?_eq_getElem hjl]; simp
        exact hr.wDu _ hmem a ha
      · rw [List.getD_eq_getElem?_getD, List.getElem?_eq_none (by omega)] at ha
        simp at ha
  -- boundary blocks
  have hblk : ((derivBlocks cR.order cR.flags).map (fun b => dot (blockGradOf g b) (vdu ((decode cD x).bc.getBlock b)))).sum
      = dot g.start.v (bcDu (decode cD x).bc).v0 + dot g.start.a (bcDu (decode cD x).bc).a0
        + dot g.start.j (bcDu (decode cD x).bc).j0 + dot g.fin.v (bcDu (decode cD x).bc).vn
        + dot g.fin.a (bcDu (decode cD x).bc).an + dot g.fin.j (bcDu (decode cD x).bc).jn := by
    rw [blocks_sum]
    · simp only [blockGradOf, BC.getBlock, bcDu]
    · intro b hb
      rw [decode_pinned_blk cD x b (by rw [hm.order, hm.flags]; exact hb)]
      apply dot_right_zero
      intro e he
      simp only [vdu, List.mem_map] at he
      obtain ⟨a, ha, rfl⟩ := he
      exact hr.bDu b a ha
  rw [hpts]
  show _ = dot g.times ((decode cD x).times.map Dual.du)
      + (cR.layout.vars.map (fun v => dot (pointGradOf cR.n g v.point) (vdu ((decode cD x).waypoints.getD v.point [])))).sum
      + ((derivBlocks cR.order cR.flags).map (fun b => dot (blockGradOf g b) (vdu ((decode cD x).bc.getBlock b)))).sum
  rw [hblk]
  ring

end final

end EvaluateGrad
