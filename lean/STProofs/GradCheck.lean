import STProofs.TimeMap
/-!
# The gradient self-check (C19): loop logic

`checkGradients` perturbs one component at a time and restores it: the decision vector handed to the final
evaluation is the checked one, the numerical vector holds the central differences of the optimizer's own cost, the
analytical vector is what `evaluate` writes, and the verdict is exactly `‖analytical − numerical‖ < tol`.
-/
open ST

section
variable {K : Type} [Field K] [LinearOrder K] [FloorRing K]

theorem setAt_getD_self (x : List K) (i : Nat) (d : K) : setAt x i (x.getD i d) = x := by
  unfold setAt
  by_cases h : i < x.length
  · simp only [List.getD_eq_getElem?_getD, List.getElem?_eq_getElem h, Option.getD_some]
    exact List.set_getElem_self h
  · exact List.set_eq_of_length_le (by omega)

/-- central difference of the optimizer's own cost in component `i` -/
noncomputable def centralDiff (c : Config K) (x : List K) (costs : Costs K) (eps : K) (i : Nat) : K :=
  ((evaluate c (setAt x i (x.getD i (lit 0) + eps)) costs).cost
    - (evaluate c (setAt x i (x.getD i (lit 0) - eps)) costs).cost) / (lit 2 * eps)

/-- one iteration of the loop: perturb up, perturb down, restore, record the quotient -/
noncomputable def fdStep (c : Config K) (costs : Costs K) (eps : K) (st : List K × List K) (i : Nat) : List K × List K :=
  let xt := st.1
  let old := xt.getD i (lit 0)
  let cp := (evaluate c (setAt xt i (old + eps)) costs).cost
  let cm := (evaluate c (setAt xt i (old - eps)) costs).cost
  (setAt xt i old, st.2 ++ [(cp - cm) / (lit 2 * eps)])

/-- the loop keeps the working copy equal to `x` at every iteration boundary and appends the central differences -/
theorem fold_invariant (c : Config K) (x : List K) (costs : Costs K) (eps : K) (l : List Nat) (acc : List K) :
    l.foldl (fdStep c costs eps) (x, acc) = (x, acc ++ l.map (centralDiff c x costs eps)) := by
  induction l generalizing acc with
  | nil => simp
  | cons i l ih =>
    have h1 : fdStep c costs eps (x, acc) i = (x, acc ++ [centralDiff c x costs eps i]) := by
      simp only [fdStep, setAt_getD_self, centralDiff]
    rw [List.foldl_cons, h1, ih]
    simp [List.append_assoc]

/-- **C19**: what the self-check returns -/
theorem checkGradients_spec (c : Config K) (x : List K) (costs : Costs K) (eps tol : K) :
    let r := checkGradients c x costs eps tol
    r.final = evaluate c x costs ∧
    r.analytical = (evaluate c x costs).grad ∧
    r.numerical = (List.range x.length).map (centralDiff c x costs eps) ∧
    (r.valid = true ↔ r.errNormSq < tol * tol) ∧
    r.errNormSq = dot (List.zipWith (fun a b => a - b) (evaluate c x costs).grad r.numerical)
                      (List.zipWith (fun a b => a - b) (evaluate c x costs).grad r.numerical) := by
  intro r
  have hf := fold_invariant c x costs eps (List.range x.length) []
  simp only [List.nil_append] at hf
  have hr : r = { valid := NumOrd.lt (dot (List.zipWith (fun a b => a - b) (evaluate c x costs).grad ((List.range x.length).foldl (fdStep c costs eps) (x, [])).2)
                      (List.zipWith (fun a b => a - b) (evaluate c x costs).grad ((List.range x.length).foldl (fdStep c costs eps) (x, [])).2)) (tol * tol),
                  errNormSq := dot (List.zipWith (fun a b => a - b) (evaluate c x costs).grad ((List.range x.length).foldl (fdStep c costs eps) (x, [])).2)
                      (List.zipWith (fun a b => a - b) (evaluate c x costs).grad ((List.range x.length).foldl (fdStep c costs eps) (x, [])).2),
                  analytical := (evaluate c x costs).grad,
                  numerical := ((List.range x.length).foldl (fdStep c costs eps) (x, [])).2,
                  final := evaluate c x costs } := rfl
  rw [hr, hf]
  refine ⟨rfl, rfl, rfl, ?_, rfl⟩
  simp only [NumOrd.lt, decide_eq_true_eq]

/-- the workspace after the check holds the spline of the checked decision vector -/
theorem checkGradients_restores (c : Config K) (x : List K) (costs : Costs K) (eps tol : K) :
    (checkGradients c x costs eps tol).final.spline = (evaluate c x costs).spline :=
  congrArg EvalOut.spline (checkGradients_spec c x costs eps tol).1

/-- if the cost is a polynomial of degree ≤ 2 along coordinate `i` (value `a + b·s + q·s²` at offset `s`), the central
difference is exactly the derivative `b` there — so for such costs a correct analytic gradient gives error 0 -/
theorem central_diff_exact_quadratic (a b q eps : K) (he : eps ≠ 0) [CharZero K] :
    ((a + b * eps + q * eps ^ 2) - (a + b * (-eps) + q * (-eps) ^ 2)) / (2 * eps) = b := by
  field_simp; ring

end
