import STModel
import Mathlib.Tactic.Linarith
/-!
# The gradient self-check for an arbitrary scalar type — in particular IEEE doubles (C19)

`GradCheck.lean` re-checked without any law of arithmetic: for every scalar type carrying the model's operations the loop of
`checkGradients` leaves its working copy of the decision vector *exactly* as it found it after every component (the code saves
and restores the entry, it does not add and subtract the step), reports the central differences of the optimizer's own cost, the
analytic gradient of an evaluation at the unperturbed vector, and leaves the spline of that vector behind.  At `Float` this says:
bit for bit.
-/
open ST
set_option linter.unusedSectionVars false

namespace AnyNum
section
variable {K : Type} [NumOrd K]

theorem setAt_getD_self (x : List K) (i : Nat) (d : K) : setAt x i (x.getD i d) = x := by
  unfold setAt
  by_cases h : i < x.length
  · simp only [List.getD_eq_getElem?_getD, List.getElem?_eq_getElem h, Option.getD_some]
    exact List.set_getElem_self h
  · exact List.set_eq_of_length_le (by omega)

/-- central difference of the optimizer's own cost in component `i` -/
def centralDiff (c : Config K) (x : List K) (costs : Costs K) (eps : K) (i : Nat) : K :=
  ((evaluate c (setAt x i (x.getD i (lit 0) + eps)) costs).cost
    - (evaluate c (setAt x i (x.getD i (lit 0) - eps)) costs).cost) / (lit 2 * eps)

/-- one iteration of the loop: perturb up, perturb down, restore, record the quotient -/
def fdStep (c : Config K) (costs : Costs K) (eps : K) (st : List K × List K) (i : Nat) : List K × List K :=
  let xt := st.1
  let old := xt.getD i (lit 0)
  let cp := (evaluate c (setAt xt i (old + eps)) costs).cost
  let cm := (evaluate c (setAt xt i (old - eps)) costs).cost
  (setAt xt i old, st.2 ++ [(cp - cm) / (lit 2 * eps)])

/-- the loop keeps the working copy equal to `x` at every iteration boundary and appends the central differences -/
theorem fold_invariant (c : Config K) (x : List K) (costs : Costs K) (eps : K) (l : List Nat) (acc : List K) :
    l.foldl (fdStep c costs eps) (x, acc) = (x, acc ++ l.map (centralDiff c x costs eps)) := by
  induction l generalizing acc with
  | nil => simp
  | cons i l ih =>
    have h1 : fdStep c costs eps (x, acc) i = (x, acc ++ [centralDiff c x costs eps i]) := by
      simp only [fdStep, setAt_getD_self, centralDiff]
    rw [List.foldl_cons, h1, ih]
    simp [List.append_assoc]

/-- **C19**: what the self-check returns -/
theorem checkGradients_spec (c : Config K) (x : List K) (costs : Costs K) (eps tol : K) :
    let r := checkGradients c x costs eps tol
    r.final = evaluate c x costs ∧
    r.analytical = (evaluate c x costs).grad ∧
    r.numerical = (List.range x.length).map (centralDiff c x costs eps) ∧
    r.valid = NumOrd.lt r.errNormSq (tol * tol) ∧
    r.errNormSq = dot (List.zipWith (fun a b => a - b) (evaluate c x costs).grad r.numerical)
                      (List.zipWith (fun a b => a - b) (evaluate c x costs).grad r.numerical) := by
  intro r
  have hf := fold_invariant c x costs eps (List.range x.length) []
  simp only [List.nil_append] at hf
  have hr : r = { valid := NumOrd.lt (dot (List.zipWith (fun a b => a - b) (evaluate c x costs).grad ((List.range x.length).foldl (fdStep c costs eps) (x, [])).2)
                      (List.zipWith (fun a b => a - b) (evaluate c x costs).grad ((List.range x.length).foldl (fdStep c costs eps) (x, [])).2)) (tol * tol),
                  errNormSq := dot (List.zipWith (fun a b => a - b) (evaluate c x costs).grad ((List.range x.length).foldl (fdStep c costs eps) (x, [])).2)
                      (List.zipWith (fun a b => a - b) (evaluate c x costs).grad ((List.range x.length).foldl (fdStep c costs eps) (x, [])).2),
                  analytical := (evaluate c x costs).grad,
                  numerical := ((List.range x.length).foldl (fdStep c costs eps) (x, [])).2,
                  final := evaluate c x costs } := rfl
  rw [hr, hf]
  exact ⟨rfl, rfl, rfl, rfl, rfl⟩

/-- the workspace after the check holds the spline of the checked decision vector -/
theorem checkGradients_restores (c : Config K) (x : List K) (costs : Costs K) (eps tol : K) :
    (checkGradients c x costs eps tol).final.spline = (evaluate c x costs).spline :=
  congrArg EvalOut.spline (checkGradients_spec c x costs eps tol).1

end

/-- the IEEE-double instance -/
theorem checkGradients_restores_float (c : Config Float) (x : List Float) (costs : Costs Float) (eps tol : Float) :
    (checkGradients c x costs eps tol).final = evaluate c x costs ∧
    (checkGradients c x costs eps tol).analytical = (evaluate c x costs).grad :=
  ⟨(checkGradients_spec c x costs eps tol).1, (checkGradients_spec c x costs eps tol).2.1⟩

end AnyNum
