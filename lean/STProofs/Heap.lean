import STModel
import Mathlib.Logic.Function.Basic
import Mathlib.Tactic.Linarith
/-!
# Copies of optimizers are independent deep copies (C15): an abstract heap model

Each optimizer object owns a default time map, a default spatial map and possibly a built-in workspace.  Its two
*active-map pointers* either designate its own default map (`own`), a user-supplied map that outlives the optimizer
(`user n`), or — the state the copy operations must never produce — a default map embedded in *another* optimizer
(`foreign o`).  Copy construction and assignment are modelled exactly as the code performs them (pointer comparison
with the source's own default map, re-binding, deep copy of the workspace).
-/

inductive MapPtr where
  | own
  | user (n : Nat)
  | foreign (o : Nat)
deriving DecidableEq, Repr

/-- what an optimizer holds (values are abstracted to `V`: the default map parameters, the configuration, …) -/
structure OptObjM (V W : Type) where
  cfg : V                 -- reference state, flags, weights, default-map parameters: all copied by value
  tm : MapPtr
  sm : MapPtr
  ws : Option W           -- built-in workspace (owned)

/-- heap: live optimizers by id -/
abbrev OHeap (V W : Type) := Nat → Option (OptObjM V W)

/-- the pointer re-binding of the copy constructor / assignment: `other.active == &other.default ? &default : other.active`.
Seen from the destination object `dst`, a pointer of the source `src` that designates `src`'s own default map is
re-bound to `own`; anything else is copied verbatim. -/
def rebind (p : MapPtr) : MapPtr :=
  match p with
  | .own => .own
  | .user n => .user n
  | .foreign o => .foreign o

inductive HOp (V W : Type) where
  | copy (src dst : Nat)                -- copy-construct `dst` from `src`
  | assign (src dst : Nat)              -- `dst = src` (self-assignment allowed)
  | setTimeMap (o : Nat) (m : Option Nat)     -- `none` = nullptr = back to the own default
  | setSpatialMap (o : Nat) (m : Option Nat)
  | mutate (o : Nat) (f : V → V)        -- any reconfiguration of the values
  | touchWs (o : Nat) (w : W)           -- an evaluation with the built-in workspace (creates / overwrites it)
  | destroy (o : Nat)

variable {V W : Type}

def hstep (h : OHeap V W) : HOp V W → OHeap V W
  | .copy src dst =>
      match h src with
      | some s => Function.update h dst (some ⟨s.cfg, rebind s.tm, rebind s.sm, s.ws⟩)
      | none => h
  | .assign src dst =>
      if src = dst then h
      else match h src, h dst with
        | some s, some _ => Function.update h dst (some ⟨s.cfg, rebind s.tm, rebind s.sm, s.ws⟩)
        | _, _ => h
  | .setTimeMap o m =>
      match h o with
      | some x => Function.update h o (some { x with tm := match m with | some n => .user n | none => .own })
      | none => h
  | .setSpatialMap o m =>
      match h o with
      | some x => Function.update h o (some { x with sm := match m with | some n => .user n | none => .own })
      | none => h
  | .mutate o f =>
      match h o with
      | some x => Function.update h o (some { x with cfg := f x.cfg })
      | none => h
  | .touchWs o w =>
      match h o with
      | some x => Function.update h o (some { x with ws := some w })
      | none => h
  | .destroy o => Function.update h o none

def notForeign : MapPtr → Prop
  | .foreign _ => False
  | _ => True

/-- **no dangling pointers**: every live optimizer's active maps are its own defaults or user-supplied maps -/
def NoForeign (h : OHeap V W) : Prop := ∀ o x, h o = some x → notForeign x.tm ∧ notForeign x.sm

theorem rebind_notForeign (p : MapPtr) (hp : notForeign p) : notForeign (rebind p) := by
  cases p <;> simp_all [rebind, notForeign]

theorem hstep_noForeign (h : OHeap V W) (op : HOp V W) (inv : NoForeign h) : NoForeign (hstep h op) := by
  intro o x hx
  cases op with
  | copy src dst =>
    simp only [hstep] at hx
    cases hs : h src with
    | none => simp only [hs] at hx; exact inv o x hx
    | some s =>
      simp only [hs] at hx
      by_cases hod : o = dst
      · subst hod
        simp only [Function.update_self, Option.some.injEq] at hx
        subst hx
        exact ⟨rebind_notForeign _ (inv src s hs).1, rebind_notForeign _ (inv src s hs).2⟩
      · rw [Function.update_of_ne hod] at hx; exact inv o x hx
  | assign src dst =>
    simp only [hstep] at hx
    by_cases hsd : src = dst
    · simp only [hsd, if_true] at hx; exact inv o x hx
    · simp only [hsd, if_false] at hx
      cases hs : h src with
      | none => simp only [hs] at hx; exact inv o x hx
      | some s =>
        cases hd : h dst with
        | none => simp only [hs, hd] at hx; exact inv o x hx
        | some d =>
          simp only [hs, hd] at hx
          by_cases hod : o = dst
          · subst hod
            simp only [Function.update_self, Option.some.injEq] at hx
            subst hx
            exact ⟨rebind_notForeign _ (inv src s hs).1, rebind_notForeign _ (inv src s hs).2⟩
          · rw [Function.update_of_ne hod] at hx; exact inv o x hx
  | setTimeMap t m =>
    simp only [hstep] at hx
    cases ht : h t with
    | none => simp only [ht] at hx; exact inv o x hx
    | some y =>
      simp only [ht] at hx
      by_cases hot : o = t
      · subst hot
        simp only [Function.update_self, Option.some.injEq] at hx
        subst hx
        exact ⟨by cases m <;> simp [notForeign], (inv o y ht).2⟩
      · rw [Function.update_of_ne hot] at hx; exact inv o x hx
  | setSpatialMap t m =>
    simp only [hstep] at hx
    cases ht : h t with
    | none => simp only [ht] at hx; exact inv o x hx
    | some y =>
      simp only [ht] at hx
      by_cases hot : o = t
      · subst hot
        simp only [Function.update_self, Option.some.injEq] at hx
        subst hx
        exact ⟨(inv o y ht).1, by cases m <;> simp [notForeign]⟩
      · rw [Function.update_of_ne hot] at hx; exact inv o x hx
  | mutate t f =>
    simp only [hstep] at hx
    cases ht : h t with
    | none => simp only [ht] at hx; exact inv o x hx
    | some y =>
      simp only [ht] at hx
      by_cases hot : o = t
      · subst hot
        simp only [Function.update_self, Option.some.injEq] at hx
        subst hx
        exact inv o y ht
      · rw [Function.update_of_ne hot] at hx; exact inv o x hx
  | touchWs t w =>
    simp only [hstep] at hx
    cases ht : h t with
    | none => simp only [ht] at hx; exact inv o x hx
    | some y =>
      simp only [ht] at hx
      by_cases hot : o = t
      · subst hot
        simp only [Function.update_self, Option.some.injEq] at hx
        subst hx
        exact inv o y ht
      · rw [Function.update_of_ne hot] at hx; exact inv o x hx
  | destroy t =>
    simp only [hstep] at hx
    by_cases hot : o = t
    · subst hot; simp at hx
    · rw [Function.update_of_ne hot] at hx; exact inv o x hx

def hrun (h : OHeap V W) : List (HOp V W) → OHeap V W
  | [] => h
  | op :: ops => hrun (hstep h op) ops

/-- after **any** history of copy / assignment (incl. self-assignment) / map changes / mutations / destructions, every
live optimizer only references its own default maps or user-supplied ones: destroying or mutating any *other*
optimizer cannot invalidate or change what it evaluates with -/
theorem history_noForeign (h : OHeap V W) (ops : List (HOp V W)) (inv : NoForeign h) : NoForeign (hrun h ops) := by
  induction ops generalizing h with
  | nil => exact inv
  | cons op ops ih => exact ih _ (hstep_noForeign h op inv)

/-- the maps an optimizer evaluates with, given its own default-map value and the user maps -/
def resolve {M : Type} (ownDefault : M) (user : Nat → M) (foreign : Nat → M) : MapPtr → M
  | .own => ownDefault
  | .user n => user n
  | .foreign o => foreign o

/-- a copy evaluates identically to its source: same values, and the re-bound pointers resolve to maps with the same
parameters (its own default map was copied by value from the source's) -/
theorem copy_same_resolution {M : Type} (s : OptObjM V W) (dflt : V → M) (user : Nat → M) (foreign : Nat → M)
    (hs : notForeign s.tm) :
    resolve (dflt s.cfg) user foreign (rebind s.tm) = resolve (dflt s.cfg) user foreign s.tm := by
  cases h : s.tm <;> simp_all [rebind, resolve, notForeign]

/-- the object an operation writes -/
def HOp.target : HOp V W → Nat
  | .copy _ dst => dst
  | .assign _ dst => dst
  | .setTimeMap o _ => o
  | .setSpatialMap o _ => o
  | .mutate o _ => o
  | .touchWs o _ => o
  | .destroy o => o

/-- **frame**: an operation changes nothing but its target object — in particular mutating, re-mapping, evaluating
with or destroying the *source* after a copy leaves the copy exactly as it was, and vice versa -/
theorem hstep_frame (h : OHeap V W) (op : HOp V W) (d : Nat) (hd : d ≠ op.target) : hstep h op d = h d := by
  cases op with
  | copy src dst =>
    simp only [HOp.target] at hd
    cases hs : h src <;> simp [hstep, hs, Function.update_of_ne hd]
  | assign src dst =>
    simp only [HOp.target] at hd
    by_cases hsd : src = dst
    · simp [hstep, hsd]
    · cases hs : h src <;> cases hd2 : h dst <;> simp [hstep, hsd, hs, hd2, Function.update_of_ne hd]
  | setTimeMap o m =>
    simp only [HOp.target] at hd
    cases hs : h o <;> simp [hstep, hs, Function.update_of_ne hd]
  | setSpatialMap o m =>
    simp only [HOp.target] at hd
    cases hs : h o <;> simp [hstep, hs, Function.update_of_ne hd]
  | mutate o f =>
    simp only [HOp.target] at hd
    cases hs : h o <;> simp [hstep, hs, Function.update_of_ne hd]
  | touchWs o w =>
    simp only [HOp.target] at hd
    cases hs : h o <;> simp [hstep, hs, Function.update_of_ne hd]
  | destroy o =>
    simp only [HOp.target] at hd
    simp [hstep, Function.update_of_ne hd]

/-- a copy is unaffected by any later history of operations that do not target it -/
theorem copy_survives (h : OHeap V W) (d : Nat) (ops : List (HOp V W)) (hops : ∀ op ∈ ops, d ≠ op.target) :
    hrun h ops d = h d := by
  induction ops generalizing h with
  | nil => rfl
  | cons op ops ih =>
    simp only [hrun]
    rw [ih _ (fun o ho => hops o (by simp [ho])), hstep_frame h op d (hops op (by simp))]

/-- self-assignment is a no-op -/
theorem self_assign (h : OHeap V W) (o : Nat) : hstep h (.assign o o) = h := by simp [hstep]

/-- non-vacuity: a heap with one optimizer using a user time map -/
example : NoForeign (fun o => if o = 0 then some (⟨(), .user 1, .own, none⟩ : OptObjM Unit Unit) else none) := by
  intro o x hx
  simp only at hx
  split at hx
  · simp only [Option.some.injEq] at hx; subst hx; simp [notForeign]
  · simp at hx
