import STProofs.Alg
import Mathlib.Tactic.Ring
import Mathlib.Tactic.FieldSimp
/-!
# Hermite closures of the quintic and septic pieces (C01 for orders 5 and 7, unconditionally)

Whatever values the interior knot derivatives take — in particular whatever the block elimination returns — the
piece built by `closeSeg` from the knot data `(k0, k1)` of its two ends starts at `P_i` with derivatives `k0`,
and ends at `P_{i+1}` with derivatives `k1`.  Hence along the whole spline: every waypoint is interpolated from
both sides, velocity/acceleration (and jerk for the septic) are continuous at every interior knot, and the first /
last knot carry exactly the supplied boundary state — for every N ≥ 1 and every non-zero duration.
-/
open ST

theorem getLast?_cons_concat {α} (a b : α) (l : List α) : (a :: (l ++ [b])).getLast? = some b := by
  induction l generalizing a with
  | nil => rfl
  | cons x xs ih => rw [List.cons_append, List.getLast?_cons_cons]; exact ih x

section quintic
variable {K : Type} [Field K] [CharZero K]
open Quintic

def q_ev (c : C6 K) (t : K) : K := c.c0 + c.c1*t + c.c2*t^2 + c.c3*t^3 + c.c4*t^4 + c.c5*t^5
def q_ev1 (c : C6 K) (t : K) : K := c.c1 + 2*c.c2*t + 3*c.c3*t^2 + 4*c.c4*t^3 + 5*c.c5*t^4
def q_ev2 (c : C6 K) (t : K) : K := 2*c.c2 + 6*c.c3*t + 12*c.c4*t^2 + 20*c.c5*t^3
def q_ev3 (c : C6 K) (t : K) : K := 6*c.c3 + 24*c.c4*t + 60*c.c5*t^2
def q_ev4 (c : C6 K) (t : K) : K := 24*c.c4 + 120*c.c5*t

theorem mkTP_fields (h : K) :
    (mkTP h).h = h ∧ (mkTP h).i1 = 1/h ∧ (mkTP h).i2 = 1/h * (1/h) ∧ (mkTP h).i3 = 1/h*(1/h)*(1/h) ∧
    (mkTP h).i4 = 1/h*(1/h)*(1/h)*(1/h) ∧ (mkTP h).i5 = 1/h*(1/h)*(1/h)*(1/h*(1/h)) ∧
    (mkTP h).i6 = 1/h*(1/h)*(1/h)*(1/h*(1/h)*(1/h)) := by
  simp [mkTP, lit_eq]

/-- the quintic closure: start state `(P_i, k0)`, end state `(P_{i+1}, k1)` -/
theorem quintic_closeSeg (h p0 p1 : K) (k0 k1 : V2 K) (hh : h ≠ 0) :
    let c := closeSeg (⟨mkTP h, p0, p1 - p0⟩ : Seg K) k0 k1
    q_ev c 0 = p0 ∧ q_ev1 c 0 = k0.x ∧ q_ev2 c 0 = k0.y ∧
    q_ev c h = p1 ∧ q_ev1 c h = k1.x ∧ q_ev2 c h = k1.y := by
  intro c
  simp only [c, closeSeg, mkTP, q_ev, q_ev1, q_ev2, lit_eq]
  push_cast
  refine ⟨by ring, by ring, by ring, ?_, ?_, ?_⟩ <;> (field_simp; ring)

/-- along the whole spline: interpolation on both sides and C¹, C² at the knots, for *any* knot-derivative list -/
def QuinticHermite : List K → List K → List (V2 K) → List (C6 K) → Prop
  | h :: hs, p0 :: p1 :: ps, k0 :: k1 :: ks, c :: cs =>
      q_ev c 0 = p0 ∧ q_ev1 c 0 = k0.x ∧ q_ev2 c 0 = k0.y ∧ q_ev c h = p1 ∧ q_ev1 c h = k1.x ∧ q_ev2 c h = k1.y ∧
      QuinticHermite hs (p1 :: ps) (k1 :: ks) cs
  | [], _, _, [] => True
  | _, _, _, _ => False

theorem quintic_closure_hermite (hs Ps : List K) (ks : List (V2 K)) (hne : ∀ h ∈ hs, h ≠ 0)
    (hP : Ps.length = hs.length + 1) (hk : ks.length = hs.length + 1) :
    QuinticHermite hs Ps ks (closure (mkSegs hs Ps) ks) := by
  induction hs generalizing Ps ks with
  | nil =>
    match Ps, ks, hP, hk with
    | [_], [_], _, _ => simp [mkSegs, closure, QuinticHermite]
  | cons h hs ih =>
    match Ps, ks, hP, hk with
    | p0 :: p1 :: Ps, k0 :: k1 :: ks, hP, hk =>
      have hh : h ≠ 0 := hne h (by simp)
      obtain ⟨a1, a2, a3, a4, a5, a6⟩ := quintic_closeSeg h p0 p1 k0 k1 hh
      simp only [mkSegs, closure, QuinticHermite]
      exact ⟨a1, a2, a3, a4, a5, a6,
        ih (p1 :: Ps) (k1 :: ks) (fun x hx => hne x (by simp [hx])) (by simpa using hP) (by simpa using hk)⟩

/-- **C01 (quintic)**: the built spline interpolates every waypoint from both sides, is C¹ and C² at every interior
knot, and its first / last knot carry the supplied boundary velocity and acceleration — every N ≥ 1 -/
theorem quintic_build_hermite (hs Ps : List K) (bL bR : V2 K) (hne : ∀ h ∈ hs, h ≠ 0)
    (hP : Ps.length = hs.length + 1)
    (hin : (bback (bfwd none (rows bL bR (mkSegs hs Ps)))).length + 1 = hs.length) :
    QuinticHermite hs Ps (buildFull hs Ps bL bR).knots (build hs Ps bL bR) ∧
    (buildFull hs Ps bL bR).knots.head? = some bL ∧ (buildFull hs Ps bL bR).knots.getLast? = some bR := by
  refine ⟨?_, by simp [buildFull], ?_⟩
  · simp only [build, buildFull]
    apply quintic_closure_hermite hs Ps _ hne hP
    simp only [List.length_cons, List.length_append, List.length_nil]; omega
  · simp only [buildFull]
    exact getLast?_cons_concat _ _ _

end quintic

section septic
variable {K : Type} [Field K] [CharZero K]
open Septic

def s_ev (c : C8 K) (t : K) : K := c.c0 + c.c1*t + c.c2*t^2 + c.c3*t^3 + c.c4*t^4 + c.c5*t^5 + c.c6*t^6 + c.c7*t^7
def s_ev1 (c : C8 K) (t : K) : K := c.c1 + 2*c.c2*t + 3*c.c3*t^2 + 4*c.c4*t^3 + 5*c.c5*t^4 + 6*c.c6*t^5 + 7*c.c7*t^6
def s_ev2 (c : C8 K) (t : K) : K := 2*c.c2 + 6*c.c3*t + 12*c.c4*t^2 + 20*c.c5*t^3 + 30*c.c6*t^4 + 42*c.c7*t^5
def s_ev3 (c : C8 K) (t : K) : K := 6*c.c3 + 24*c.c4*t + 60*c.c5*t^2 + 120*c.c6*t^3 + 210*c.c7*t^4
def s_ev4 (c : C8 K) (t : K) : K := 24*c.c4 + 120*c.c5*t + 360*c.c6*t^2 + 840*c.c7*t^3
def s_ev5 (c : C8 K) (t : K) : K := 120*c.c5 + 720*c.c6*t + 2520*c.c7*t^2
def s_ev6 (c : C8 K) (t : K) : K := 720*c.c6 + 5040*c.c7*t

/-- the septic closure: start state `(P_i, v, a, j)`, end state `(P_{i+1}, v', a', j')` -/
theorem septic_closeSeg (h p0 p1 : K) (k0 k1 : V3 K) (hh : h ≠ 0) :
    let c := closeSeg (⟨mkTP h, p0, p1 - p0⟩ : Seg K) k0 k1
    s_ev c 0 = p0 ∧ s_ev1 c 0 = k0.x ∧ s_ev2 c 0 = k0.y ∧ s_ev3 c 0 = k0.z ∧
    s_ev c h = p1 ∧ s_ev1 c h = k1.x ∧ s_ev2 c h = k1.y ∧ s_ev3 c h = k1.z := by
  intro c
  simp only [c, closeSeg, mkTP, s_ev, s_ev1, s_ev2, s_ev3, lit_eq]
  push_cast
  refine ⟨by ring, by ring, by ring, by ring, ?_, ?_, ?_, ?_⟩ <;> (field_simp; ring)

def SepticHermite : List K → List K → List (V3 K) → List (C8 K) → Prop
  | h :: hs, p0 :: p1 :: ps, k0 :: k1 :: ks, c :: cs =>
      s_ev c 0 = p0 ∧ s_ev1 c 0 = k0.x ∧ s_ev2 c 0 = k0.y ∧ s_ev3 c 0 = k0.z ∧
      s_ev c h = p1 ∧ s_ev1 c h = k1.x ∧ s_ev2 c h = k1.y ∧ s_ev3 c h = k1.z ∧
      SepticHermite hs (p1 :: ps) (k1 :: ks) cs
  | [], _, _, [] => True
  | _, _, _, _ => False

theorem septic_closure_hermite (hs Ps : List K) (ks : List (V3 K)) (hne : ∀ h ∈ hs, h ≠ 0)
    (hP : Ps.length = hs.length + 1) (hk : ks.length = hs.length + 1) :
    SepticHermite hs Ps ks (closure (mkSegs hs Ps) ks) := by
  induction hs generalizing Ps ks with
  | nil =>
    match Ps, ks, hP, hk with
    | [_], [_], _, _ => simp [mkSegs, closure, SepticHermite]
  | cons h hs ih =>
    match Ps, ks, hP, hk with
    | p0 :: p1 :: Ps, k0 :: k1 :: ks, hP, hk =>
      have hh : h ≠ 0 := hne h (by simp)
      obtain ⟨a1, a2, a3, a4, a5, a6, a7, a8⟩ := septic_closeSeg h p0 p1 k0 k1 hh
      simp only [mkSegs, closure, SepticHermite]
      exact ⟨a1, a2, a3, a4, a5, a6, a7, a8,
        ih (p1 :: Ps) (k1 :: ks) (fun x hx => hne x (by simp [hx])) (by simpa using hP) (by simpa using hk)⟩

/-- **C01 (septic)**: interpolation from both sides, C¹–C³ at every interior knot, boundary velocity / acceleration /
jerk at the first and last knot — every N ≥ 1 -/
theorem septic_build_hermite (hs Ps : List K) (bL bR : V3 K) (hne : ∀ h ∈ hs, h ≠ 0)
    (hP : Ps.length = hs.length + 1)
    (hin : (bback (bfwd none (rows bL bR (mkSegs hs Ps)))).length + 1 = hs.length) :
    SepticHermite hs Ps (buildFull hs Ps bL bR).knots (build hs Ps bL bR) ∧
    (buildFull hs Ps bL bR).knots.head? = some bL ∧ (buildFull hs Ps bL bR).knots.getLast? = some bR := by
  refine ⟨?_, by simp [buildFull], ?_⟩
  · simp only [build, buildFull]
    apply septic_closure_hermite hs Ps _ hne hP
    simp only [List.length_cons, List.length_append, List.length_nil]; omega
  · simp only [buildFull]
    exact getLast?_cons_concat _ _ _

end septic
