import STModel
import Mathlib.Tactic.Ring
import Mathlib.Tactic.Linarith
/-!
# Decision-vector layout (C09) and the layout cache under reconfiguration

Pure combinatorics over `Nat` and lists: valid for every flag set, every order, every N ≥ 1 and every
per-point unconstrained dimension function `udim`.
-/
open ST

/-- spatial variables contributed by the points `i, i+1, …, i+k-1` -/
def spatialCount (f : Flags) (n : Nat) (udim : Nat → Nat) : Nat → Nat → Nat
  | 0, _ => 0
  | k + 1, i => (if spatialOptimized f n i then udim i else 0) + spatialCount f n udim k (i + 1)

theorem layoutFrom_offset (f : Flags) (n : Nat) (udim : Nat → Nat) (fuel i off : Nat) :
    (layoutFrom f n udim fuel i off).2 = off + spatialCount f n udim fuel i := by
  induction fuel generalizing i off with
  | zero => simp [layoutFrom, spatialCount]
  | succ k ih =>
    simp only [layoutFrom, spatialCount]
    split
    · rename_i h; simp only [ih, h, if_true]; ring
    · rename_i h; simp only [ih, h]; simp

/-- every variable block of the layout: optimised point, in increasing index order, offsets = running sums -/
def LayoutOK (f : Flags) (n : Nat) (udim : Nat → Nat) : Nat → Nat → List LayoutVar → Prop
  | _, _, [] => True
  | lo, off, v :: vs =>
      lo ≤ v.point ∧ v.point ≤ n ∧ spatialOptimized f n v.point = true ∧ v.dof = udim v.point ∧
      v.offset = off + spatialCount f n udim (v.point - lo) lo ∧
      LayoutOK f n udim (v.point + 1) (v.offset + v.dof) vs

theorem spatialCount_skip (f : Flags) (n : Nat) (udim : Nat → Nat) (i : Nat) (h : spatialOptimized f n i = false) (k : Nat) :
    spatialCount f n udim (k + 1) i = spatialCount f n udim k (i + 1) := by
  simp [spatialCount, h]

theorem layoutOK_shift (f : Flags) (n : Nat) (udim : Nat → Nat) (lo off : Nat) (vs : List LayoutVar)
    (hskip : spatialOptimized f n lo = false) (h : LayoutOK f n udim (lo + 1) off vs) : LayoutOK f n udim lo off vs := by
  cases vs with
  | nil => trivial
  | cons v vs =>
    obtain ⟨h1, h2, h3, h4, h5, h6⟩ := h
    refine ⟨by omega, h2, h3, h4, ?_, h6⟩
    have : v.point - lo = (v.point - (lo + 1)) + 1 := by omega
    rw [h5, this, spatialCount_skip f n udim lo hskip]

theorem layoutFrom_ok (f : Flags) (n : Nat) (udim : Nat → Nat) (fuel i off : Nat) (hi : i + fuel = n + 1) :
    LayoutOK f n udim i off (layoutFrom f n udim fuel i off).1 := by
  induction fuel generalizing i off with
  | zero => simp [layoutFrom, LayoutOK]
  | succ k ih =>
    simp only [layoutFrom]
    split
    · rename_i h
      refine ⟨le_refl _, (by show i ≤ n; omega), h, rfl, by simp [spatialCount], ?_⟩
      exact ih (i + 1) (off + udim i) (by omega)
    · rename_i h
      have hf : spatialOptimized f n i = false := by simpa using h
      exact layoutOK_shift f n udim i off _ hf (ih (i + 1) off (by omega))

/-- every optimised point appears in the layout (no point is forgotten) -/
theorem layoutFrom_complete (f : Flags) (n : Nat) (udim : Nat → Nat) (fuel i off : Nat) (j : Nat)
    (hj : i ≤ j ∧ j < i + fuel) (hopt : spatialOptimized f n j = true) :
    ∃ v ∈ (layoutFrom f n udim fuel i off).1, v.point = j := by
  induction fuel generalizing i off with
  | zero => omega
  | succ k ih =>
    simp only [layoutFrom]
    by_cases hij : i = j
    · subst hij
      simp only [hopt, if_true]
      exact ⟨_, List.mem_cons_self, rfl⟩
    · split
      · obtain ⟨v, hv, hp⟩ := ih (i + 1) (off + udim i) (by omega)
        exact ⟨v, List.mem_cons_of_mem _ hv, hp⟩
      · exact ih (i + 1) off (by omega)

/-- **C09 layout**: the spatial blocks start right after the N time variables, list exactly the optimised points
(inner ones always, first/last only when flagged) in index order with offsets = running sums of `udim`; the
derivative blocks follow; the reported dimension is the total. -/
theorem layout_spec (o : Order) (d : Nat) (f : Flags) (n : Nat) (udim : Nat → Nat) (hn : 0 < n) :
    let L := layout o d f n udim
    LayoutOK f n udim 0 n L.vars ∧
    L.derivOffset = n + spatialCount f n udim (n + 1) 0 ∧
    L.total = L.derivOffset + (derivBlocks o f).length * d ∧
    (∀ j, j ≤ n → spatialOptimized f n j = true → ∃ v ∈ L.vars, v.point = j) := by
  have hne : n ≠ 0 := by omega
  have hL : layout o d f n udim = ⟨(layoutFrom f n udim (n + 1) 0 n).1, (layoutFrom f n udim (n + 1) 0 n).2,
      (layoutFrom f n udim (n + 1) 0 n).2 + (derivBlocks o f).length * d⟩ := by
    simp [layout, hne]
  rw [hL]
  refine ⟨layoutFrom_ok f n udim (n + 1) 0 n (by omega), ?_, ?_, ?_⟩
  · simp only [layoutFrom_offset]
  · rfl
  · intro j hj hopt
    exact layoutFrom_complete f n udim (n + 1) 0 n j (by omega) hopt

/-- inner waypoints are always optimised; the first/last only when flagged -/
theorem spatialOptimized_iff (f : Flags) (n i : Nat) (hn : 0 < n) (hi : i ≤ n) :
    spatialOptimized f n i = true ↔ (0 < i ∧ i < n) ∨ (i = 0 ∧ f.startP = true) ∨ (i = n ∧ f.endP = true) := by
  unfold spatialOptimized
  by_cases h0 : i = 0
  · subst h0
    have : (0:Nat) ≠ n := by omega
    simp [this]
  · by_cases hnn : i = n
    · subst hnn; simp [h0]
    · simp [h0, hnn]; omega

/-- the derivative blocks: start v/a/j then end v/a/j, each present iff flagged *and* the order has it -/
theorem derivBlocks_spec (o : Order) (f : Flags) :
    derivBlocks o f =
      ([DBlock.sv, DBlock.sa, DBlock.sj, DBlock.ev, DBlock.ea, DBlock.ej].filter (fun b =>
        match b with
        | .sv => f.startV | .sa => decide (o.degree ≥ 5) && f.startA | .sj => decide (o.degree ≥ 7) && f.startJ
        | .ev => f.endV | .ea => decide (o.degree ≥ 5) && f.endA | .ej => decide (o.degree ≥ 7) && f.endJ)) := by
  cases o <;> rcases f with ⟨a, b, c, d, e, g, h, i⟩ <;>
    cases a <;> cases b <;> cases c <;> cases d <;> cases e <;> cases g <;> cases h <;> cases i <;> rfl

/-- a cubic spline ignores the acceleration and jerk flags, a quintic the jerk flags -/
theorem derivBlocks_cubic (f : Flags) :
    derivBlocks .cubic f = (if f.startV then [DBlock.sv] else []) ++ (if f.endV then [DBlock.ev] else []) := by
  rcases f with ⟨a, b, c, d, e, g, h, i⟩
  cases b <;> cases c <;> cases d <;> cases g <;> cases h <;> cases i <;> rfl

/-! ### the layout cache under reconfiguration (flags / spatial map / initial state) -/

structure LCfg where
  order : Order
  dim : Nat
  flags : Flags
  n : Nat
  udim : Nat → Nat

def LCfg.layout (c : LCfg) : Layout := ST.layout c.order c.dim c.flags c.n c.udim

structure LCache where
  cfg : LCfg
  cache : Layout
  dirty : Bool

inductive LOp where
  | setFlags (f : Flags)
  | setSpatialMap (udim : Nat → Nat)
  | setInitState (n : Nat)
  | query            -- getDimension / generateInitialGuess / evaluate: `ensureLayoutCache`

/-- the setters as the code has them since the repair of finding F1: mark dirty, then rebuild at once -/
def LCache.step (s : LCache) : LOp → LCache × Option Layout
  | .setFlags f => let c := { s.cfg with flags := f }; (⟨c, c.layout, false⟩, none)
  | .setSpatialMap u => let c := { s.cfg with udim := u }; (⟨c, c.layout, false⟩, none)
  | .setInitState n => let c := { s.cfg with n := n }; (⟨c, c.layout, false⟩, none)
  | .query => if s.dirty then (⟨s.cfg, s.cfg.layout, false⟩, some s.cfg.layout) else (s, some s.cache)

def LCache.Inv (s : LCache) : Prop := s.dirty = false → s.cache = s.cfg.layout

theorem lcache_step_inv (s : LCache) (op : LOp) (h : s.Inv) : (s.step op).1.Inv := by
  cases op with
  | setFlags f => intro _; rfl
  | setSpatialMap u => intro _; rfl
  | setInitState n => intro _; rfl
  | query =>
    show (if s.dirty then (⟨s.cfg, s.cfg.layout, false⟩, some s.cfg.layout) else (s, some s.cache) : LCache × Option Layout).1.Inv
    split
    · intro _; rfl
    · exact h

/-- a query always sees the layout of the *current* configuration -/
theorem lcache_query (s : LCache) (h : s.Inv) : (s.step .query).2 = some s.cfg.layout := by
  simp only [LCache.step]
  split
  · rfl
  · rename_i hd
    have : s.dirty = false := by simpa using hd
    rw [h this]

def LCache.run (s : LCache) : List LOp → LCache
  | [] => s
  | op :: ops => ((s.step op).1).run ops

theorem lcache_run_inv (s : LCache) (ops : List LOp) (h : s.Inv) : (s.run ops).Inv := by
  induction ops generalizing s with
  | nil => exact h
  | cons op ops ih => exact ih _ (lcache_step_inv s op h)

/-- **after any reconfiguration history a query reflects the current flags / map / state** -/
theorem lcache_history (s : LCache) (ops : List LOp) (h : s.Inv) :
    ((s.run ops).step .query).2 = some (s.run ops).cfg.layout :=
  lcache_query _ (lcache_run_inv s ops h)

/-- and no `const` query ever finds the cache dirty once any setter has run (model-level statement behind the
repair of the data race F1: queries then do not write the cache) -/
theorem lcache_clean_after_setter (s : LCache) (op : LOp) (hop : op ≠ .query) : (s.step op).1.dirty = false := by
  cases op <;> simp_all [LCache.step]

/-- a freshly constructed optimizer (constructor rebuilds) has a clean, correct cache -/
def LCache.fresh (c : LCfg) : LCache := ⟨c, c.layout, false⟩
theorem lcache_fresh_inv (c : LCfg) : (LCache.fresh c).Inv := fun _ => rfl

example : (layout .septic 2 { startP := true, endV := true, endJ := true } 2 (fun i => if i % 2 = 0 then 2 else 1)).total = 2 + (2 + 1) + 2 * 2 := by
  decide
