import STProofs.EvaluateGrad
/-!
# C07: the maps shipped with the optimizer / used by the harness satisfy `MapsOK`, and the user-facing form of the theorem

`liftCfg cR tmD smD` is the real configuration `cR` re-read over dual numbers (constants get zero tangent) with the
dual-number versions `tmD`, `smD` of its maps.  `TmOK` / `SmOK` say that `backward` / `backwardGrad` are the transposed
derivatives of `toTime` / `toPhysical`; they are proved for the identity, `QuadInv`, affine and reciprocal time maps and
for the identity and paraboloid (fewer unconstrained than physical coordinates) spatial maps.
-/
open ST QuadDual NDAdj NDEnergy EvalCore Assemble EvaluateGrad

namespace MapsInst
variable {K : Type} [Field K]

def lift (v : K) : Dual K := ⟨v, 0⟩
def vlift (v : Vec K) : Vec (Dual K) := v.map lift

@[simp] theorem lift_re (v : K) : (lift v).re = v := rfl
@[simp] theorem lift_du (v : K) : (lift v).du = 0 := rfl
theorem vre_vlift (v : Vec K) : vre (vlift v) = v := by
  simp only [vre, vlift, List.map_map]
  conv_rhs => rw [← List.map_id v]
  apply List.map_congr_left; intro a _; rfl

def bcLift (bc : BC K) : BC (Dual K) := ⟨vlift bc.v0, vlift bc.a0, vlift bc.j0, vlift bc.vn, vlift bc.an, vlift bc.jn⟩

/-- the real configuration read over dual numbers -/
def liftCfg (c : Config K) (tmD : TimeMap (Dual K)) (smD : SpatialMap (Dual K)) : Config (Dual K) :=
  { order := c.order, dim := c.dim, refTimes := c.refTimes.map lift, refWaypoints := c.refWaypoints.map vlift,
    refBC := bcLift c.refBC, startTime := lift c.startTime, flags := c.flags, rho := lift c.rho, steps := c.steps,
    tm := tmD, sm := smD }

/-- `backward` is the derivative of `toTime` (chain-rule factor) -/
structure TmOK (tdom : K → Prop) (tmD : TimeMap (Dual K)) (tmR : TimeMap K) : Prop where
  re : ∀ τ : Dual K, tdom τ.re → (tmD.toTime τ).re = tmR.toTime τ.re
  du : ∀ (τ : Dual K) (g : K), tdom τ.re → g * (tmD.toTime τ).du = tmR.backward τ.re (tmR.toTime τ.re) g * τ.du

/-- no restriction on the duration variables -/
def everywhere : K → Prop := fun _ => True

/-- `backwardGrad` is the transposed Jacobian of `toPhysical` -/
structure SmOK (d : Nat) (smD : SpatialMap (Dual K)) (smR : SpatialMap K) : Prop where
  udim : smD.udim = smR.udim
  re : ∀ (ξ : Vec (Dual K)) (i : Nat), vre (smD.toPhysical ξ i) = smR.toPhysical (vre ξ) i
  du : ∀ (ξ : Vec (Dual K)) (i : Nat) (g : Vec K), ξ.length = smR.udim i →
      dot g (vdu (smD.toPhysical ξ i)) = dot (smR.backwardGrad (vre ξ) g i) (vdu ξ)
  len : ∀ (ξ : Vec K) (i : Nat) (g : Vec K), ξ.length = smR.udim i → g.length = d → (smR.backwardGrad ξ g i).length = smR.udim i

theorem mapsOK_lift {tdom : K → Prop} (c : Config K) (tmD : TimeMap (Dual K)) (smD : SpatialMap (Dual K))
    (ht : TmOK tdom tmD c.tm) (hs : SmOK c.dim smD c.sm) : MapsOK tdom (liftCfg c tmD smD) c :=
  { order := rfl, dim := rfl, flags := rfl, n := by simp [Config.n, liftCfg], udim := hs.udim, tmRe := ht.re, tmDu := ht.du,
    smRe := hs.re, smDu := hs.du, smLen := hs.len }

theorem refsOK_lift (c : Config K) (tmD : TimeMap (Dual K)) (smD : SpatialMap (Dual K)) : RefsOK (liftCfg c tmD smD) c := by
  constructor
  · simp only [liftCfg, List.map_map]
    conv_rhs => rw [← List.map_id c.refWaypoints]
    apply List.map_congr_left; intro r _; exact vre_vlift r
  · intro r hr e he
    simp only [liftCfg, List.mem_map] at hr
    obtain ⟨r0, _, rfl⟩ := hr
    simp only [vlift, List.mem_map] at he
    obtain ⟨a, _, rfl⟩ := he
    rfl
  · simp only [liftCfg, bcRe, bcLift, vre_vlift]
  · intro b e he
    cases b <;> (simp only [liftCfg, bcLift, BC.getBlock, vlift, List.mem_map] at he; obtain ⟨a, _, rfl⟩ := he; rfl)

section final
variable [LinearOrder K] [IsStrictOrderedRing K] [FloorRing K]

/-- **C07, user-facing form**: for a real configuration `c`, a decision vector `x` and a direction `dx` (the dual parts),
the directional derivative of the returned cost along `dx` — computed by running the same `evaluate` over dual numbers —
is `⟨grad, dx⟩` for the gradient `evaluate` returns -/
theorem evaluate_grad_exact_lift {tdom : K → Prop} (c : Config K) (tmD : TimeMap (Dual K)) (smD : SpatialMap (Dual K))
    (ht : TmOK tdom tmD c.tm) (hs : SmOK c.dim smD c.sm) (x : List (Dual K))
    (hdom : ∀ i, i < c.n → tdom (x.getD i (lit 0)).re) (costsD : Costs (Dual K)) (costsR : Costs K)
    (hn : 0 < c.n) (hx : x.length = c.layout.total) (hwl : c.refWaypoints.length = c.n + 1)
    (hpos : ∀ h ∈ (decode c (x.map Dual.re)).times, 0 < h)
    (hc : CostsOK c.n c.dim costsD costsR (decode (liftCfg c tmD smD) x)) :
    (evaluate (liftCfg c tmD smD) x costsD).cost.du = dot (evaluate c (x.map Dual.re) costsR).grad (x.map Dual.du) := by
  have hm := mapsOK_lift c tmD smD ht hs
  apply evaluate_grad_exact (liftCfg c tmD smD) c hm (refsOK_lift c tmD smD) x hdom costsD costsR rfl rfl rfl rfl rfl hn hx
    (by simp [liftCfg, hwl]) hpos
  rw [hm.n]
  exact hc

end final

/-! ## the time maps -/

theorem tmOK_identity : TmOK everywhere (identityTimeMap : TimeMap (Dual K)) (identityTimeMap : TimeMap K) :=
  ⟨fun _ _ => rfl, fun _ _ _ => rfl⟩

theorem tmOK_affine (a b : K) : TmOK everywhere (affineTimeMap (lift a) (lift b)) (affineTimeMap a b) := by
  constructor
  · intro τ _; simp only [affineTimeMap]; dual_proj; simp
  · intro τ g _; simp only [affineTimeMap]; dual_proj; simp; ring

/-- the harness's reciprocal map `T = b/(1 − aτ)`, whose `backward` uses the decoded duration: away from its pole -/
theorem tmOK_recip (a b : K) (hb : b ≠ 0) :
    TmOK (fun τ => 1 - a * τ ≠ 0) (recipTimeMap (lift a) (lift b)) (recipTimeMap a b) := by
  constructor
  · intro τ _; simp only [recipTimeMap]; dual_proj; simp
  · intro τ g h
    simp only [recipTimeMap]; dual_proj; simp
    field_simp

section quadinv
variable [LinearOrder K] [IsStrictOrderedRing K] [FloorRing K]

/-- the default time map `QuadInvTimeMap` (any `sqrt`: `toTau` is not used by `evaluate`) -/
theorem tmOK_quadInv (sqD : Dual K → Dual K) (sqR : K → K) : TmOK everywhere (quadInvTimeMap sqD) (quadInvTimeMap sqR) := by
  have hden : ∀ t : K, (1 / 2 * t - 1) * t + 1 ≠ 0 := by
    intro t
    have : (1 / 2 * t - 1) * t + 1 = 1 / 2 * ((t - 1) ^ 2 + 1) := by ring
    rw [this]
    have : 0 < (t - 1) ^ 2 + 1 := by positivity
    positivity
  constructor
  · intro τ _
    simp only [quadInvTimeMap, QuadInv.toTime, NumOrd.lt, litq]
    by_cases hτ : (0 : K) < τ.re
    · have h1 : decide ((lit 0 : Dual K).re < τ.re) = true := by simpa using hτ
      have h2 : decide ((lit 0 : K) < τ.re) = true := by simpa using hτ
      rw [if_pos h1, if_pos h2]; dual_proj; simp
    · have h1 : ¬ decide ((lit 0 : Dual K).re < τ.re) = true := by simpa using hτ
      have h2 : ¬ decide ((lit 0 : K) < τ.re) = true := by simpa using hτ
      rw [if_neg h1, if_neg h2]; dual_proj; simp
  · intro τ g _
    simp only [quadInvTimeMap, QuadInv.toTime, QuadInv.backward, NumOrd.lt, litq]
    by_cases hτ : (0 : K) < τ.re
    · have h1 : decide ((lit 0 : Dual K).re < τ.re) = true := by simpa using hτ
      have h2 : decide ((lit 0 : K) < τ.re) = true := by simpa using hτ
      rw [if_pos h1, if_pos h2]; dual_proj; simp; ring
    · have h1 : ¬ decide ((lit 0 : Dual K).re < τ.re) = true := by simpa using hτ
      have h2 : ¬ decide ((lit 0 : K) < τ.re) = true := by simpa using hτ
      rw [if_neg h1, if_neg h2]
      have h := hden τ.re
      dual_proj; simp
      field_simp
      ring

end quadinv

/-! ## the spatial maps -/

theorem smOK_identity (d : Nat) : SmOK d (identitySpatialMap d : SpatialMap (Dual K)) (identitySpatialMap d : SpatialMap K) :=
  ⟨rfl, fun _ _ => rfl, fun _ _ _ _ => rfl, fun _ _ _ _ hg => hg⟩

theorem dot_snoc (g a : Vec K) (s : K) (m : Nat) (ha : a.length = m) :
    dot g (a ++ [s]) = dot (g.take m) a + g.getD m 0 * s := by
  induction m generalizing g a with
  | zero =>
    rw [List.eq_nil_of_length_eq_zero ha]
    cases g with
    | nil => simp [dot, lit_eq]
    | cons x g => simp [dot, lit_eq]
  | succ m ih =>
    match a, ha with
    | y :: a, ha =>
      cases g with
      | nil => simp [dot, lit_eq]
      | cons x g =>
        simp only [List.cons_append, dot_cons, List.take_succ_cons, List.getD_cons_succ, ih g a (by simpa using ha)]
        ring

theorem dot_zipWith_affine (gl k : K) (xr gt a : Vec K) (hx : xr.length = a.length) (hgt : gt.length ≤ xr.length) :
    dot (List.zipWith (fun x gk => gk + gl * (k * x)) xr gt) a
      = dot gt a + gl * k * dot (List.zipWith (fun x (_ : K) => x) xr gt) a := by
  induction xr generalizing gt a with
  | nil =>
    have : gt = [] := List.eq_nil_of_length_eq_zero (by simpa using hgt)
    subst this; simp [dot, lit_eq]
  | cons x xr ih =>
    match a, hx with
    | y :: a, hx =>
      cases gt with
      | nil => simp [dot, lit_eq]
      | cons gk gt =>
        simp only [List.zipWith_cons_cons, dot_cons, ih gt a (by simpa using hx) (by simpa using hgt)]
        ring

theorem sum_sq_du (ξ : Vec (Dual K)) :
    (ST.sum (ξ.map (fun x => x * x))).du = 2 * dot (vre ξ) (vdu ξ) := by
  induction ξ with
  | nil => simp [ST.sum, dot, vre, vdu, lit_eq]
  | cons x ξ ih =>
    simp only [List.map_cons, ST.sum, vre, vdu, dot_cons] at ih ⊢
    have : (x * x + ST.sum (ξ.map (fun x => x * x))).du = x.re * x.du + x.du * x.re + (ST.sum (ξ.map (fun x => x * x))).du := by
      dual_proj
    rw [this, ih]; ring

theorem sum_sq_re (ξ : Vec (Dual K)) :
    (ST.sum (ξ.map (fun x => x * x))).re = ST.sum ((vre ξ).map (fun x => x * x)) := by
  induction ξ with
  | nil => simp [ST.sum, vre, lit_eq]
  | cons x ξ ih =>
    simp only [List.map_cons, ST.sum, vre] at ih ⊢
    have : (x * x + ST.sum (ξ.map (fun x => x * x))).re = x.re * x.re + (ST.sum (ξ.map (fun x => x * x))).re := by
      dual_proj
    rw [this, ih]

theorem zipWith_fst_take (xr gt : Vec K) (a : Vec K) (m : Nat) (hx : xr.length = m) (ha : a.length = m)
    (hg : m ≤ gt.length) : dot (List.zipWith (fun x (_ : K) => x) xr gt) a = dot xr a := by
  induction m generalizing xr gt a with
  | zero => rw [List.eq_nil_of_length_eq_zero hx]; simp [dot]
  | succ m ih =>
    match xr, a, gt, hx, ha, hg with
    | x :: xr, y :: a, gk :: gt, hx, ha, hg =>
      simp only [List.zipWith_cons_cons, dot_cons, ih xr gt a (by simpa using hx) (by simpa using ha) (by simpa using hg)]

/-- the harness's reduced-coordinate map: points of one parity live on a paraboloid (`dof = D − 1`) -/
theorem smOK_paraboloid (d parity : Nat) (hd : 1 ≤ d) :
    SmOK d (paraboloidMap d parity : SpatialMap (Dual K)) (paraboloidMap d parity : SpatialMap K) := by
  constructor
  · rfl
  · intro ξ i
    simp only [paraboloidMap]
    split
    · rfl
    · simp only [vre, List.map_append, List.map_cons, List.map_nil]
      congr 2
      have := sum_sq_re ξ
      simp only [vre] at this
      dual_proj
      rw [this]
      simp [lit_eq]
  · intro ξ i g hξ
    simp only [paraboloidMap] at hξ ⊢
    split
    · rfl
    · rename_i hpar
      rw [if_neg hpar] at hξ
      simp only [vre, vdu, List.map_append, List.map_cons, List.map_nil]
      have hl : (ξ.map Dual.du).length = d - 1 := by simp [hξ]
      rw [dot_snoc g (ξ.map Dual.du) _ (d - 1) hl]
      have hs := sum_sq_du ξ
      simp only [vre, vdu] at hs
      rw [dot_zipWith_affine _ _ _ _ _ (by simp [hξ]) (by simp [hξ])]
      by_cases hg : d ≤ g.length
      · rw [zipWith_fst_take _ _ _ (d - 1) (by simp [hξ]) hl (by simp; omega)]
        dual_proj
        rw [hs]
        simp [lit_eq]
        ring
      · have hgl : g.getD (d - 1) (lit 0) = 0 := by
          rw [List.getD_eq_getElem?_getD, List.getElem?_eq_none (by omega)]; simp [lit_eq]
        have hgl' : g.getD (d - 1) 0 = 0 := by
          rw [List.getD_eq_getElem?_getD, List.getElem?_eq_none (by omega)]; simp
        rw [hgl, hgl']
        ring
  · intro ξ i g hξ hg
    simp only [paraboloidMap] at hξ ⊢
    split
    · rename_i hpar; rw [if_pos hpar] at hξ; rw [hg]
    · rename_i hpar
      rw [if_neg hpar] at hξ
      simp [hξ, hg]

end MapsInst
