import STProofs.StructureProp
import STProofs.QuadDual
import STProofs.QuinticUnique
import STProofs.SepticUnique
import STProofs.Assemble
import STProofs.CubicEnergyGrad
import STProofs.QuinticEnergyGrad
import STProofs.SepticEnergyGrad
import Mathlib.Algebra.BigOperators.Ring.Finset
import Mathlib.Algebra.BigOperators.Intervals
/-!
# C05 / C13 in D dimensions: `propagateGrad` of the D-dimensional spline is the exact adjoint of its construction map

The D-dimensional pairing of an upstream gradient with the derivative of the coefficient blocks splits into the sum over
coordinates of the 1-D pairings (`blockDot_cols`), and so does the pairing of the returned gradients with the tangent of
waypoints and boundary states; per coordinate the 1-D adjoint theorems of C05 apply.
-/
open ST QuadDual
open scoped BigOperators

namespace NDAdj
variable {K : Type} [Field K]

/-! ## sums over coordinates -/

theorem dot_eq_finsum (d : Nat) (a b : Vec K) (ha : a.length = d) (hb : b.length = d) :
    dot a b = ∑ j ∈ Finset.range d, getC a j * getC b j := by
  induction d generalizing a b with
  | zero =>
    rw [List.eq_nil_of_length_eq_zero ha]; simp [dot]
  | succ d ih =>
    match a, b, ha, hb with
    | x :: a, y :: b, ha, hb =>
      rw [dot_cons, Finset.sum_range_succ', ih a b (by simpa using ha) (by simpa using hb)]
      simp [getC, add_comm]

/-- pairing with a vector given coordinate-wise -/
theorem dot_map_range (d : Nat) (F : Nat → K) (v : Vec K) :
    dot ((List.range d).map F) v = ∑ j ∈ Finset.range d, F j * getC v j := by
  induction d generalizing F v with
  | zero => simp [dot]
  | succ d ih =>
    rw [List.range_succ_eq_map, List.map_cons, List.map_map, Finset.sum_range_succ']
    cases v with
    | nil =>
      simp only [dot, lit_eq, Nat.cast_zero, getC, List.getD_nil, mul_zero, Finset.sum_const_zero, add_zero]
    | cons y v =>
      rw [dot_cons, ih (F ∘ Nat.succ) v]
      simp [getC, add_comm]

theorem dot_map_range' (d : Nat) (F : Nat → K) (v : Vec K) :
    dot v ((List.range d).map F) = ∑ j ∈ Finset.range d, getC v j * F j := by
  have : ∀ (a b : List K), dot a b = dot b a := by
    intro a
    induction a with
    | nil => intro b; cases b <;> simp [dot]
    | cons x a ih => intro b; cases b with
      | nil => simp [dot]
      | cons y b => rw [dot_cons, dot_cons, ih b, mul_comm]
  rw [this, dot_map_range]
  apply Finset.sum_congr rfl
  intro j _; ring

/-- column `j` of a list of rows -/
def colv (rows : List (Vec K)) (j : Nat) : List K := rows.map (fun r => getC r j)

/-- **rows ↔ columns**: a sum of row pairings is the sum over coordinates of the column pairings -/
theorem blockDot_cols (d : Nat) (A B : List (Vec K)) (hA : ∀ a ∈ A, a.length = d) (hB : ∀ b ∈ B, b.length = d) :
    blockDot A B = ∑ j ∈ Finset.range d, dot (colv A j) (colv B j) := by
  induction A generalizing B with
  | nil => simp [blockDot, colv, dot]
  | cons a A ih =>
    cases B with
    | nil => simp [blockDot, colv, dot]
    | cons b B =>
      simp only [blockDot, colv, List.map_cons, dot_cons]
      rw [ih B (fun x hx => hA x (by simp [hx])) (fun x hx => hB x (by simp [hx])),
        dot_eq_finsum d a b (hA a (by simp)) (hB b (by simp)), ← Finset.sum_add_distrib]
      rfl

/-! ## one coordinate -/

/-- `Σ_i Σ_k G i k · d(c[i][k])` for a column's coefficient table -/
noncomputable def flatPair (G : Nat → Nat → K) (cs : List (List (Dual K))) (n nc : Nat) : K :=
  ∑ i ∈ Finset.range n, ∑ k ∈ Finset.range nc, G i k * ((cs.getD i []).getD k (lit 0)).du

/-- what one column of `propagateGrad` returns, paired with that column's tangent -/
def colPair (out : List K × List K × List K × List K) (dP dh : List K) (dv0 da0 dj0 dvn dan djn : K) : K :=
  dot out.1 dP + dot out.2.1 dh
    + out.2.2.1.getD 0 0 * dv0 + out.2.2.1.getD 1 0 * da0 + out.2.2.1.getD 2 0 * dj0
    + out.2.2.2.getD 0 0 * dvn + out.2.2.2.getD 1 0 * dan + out.2.2.2.getD 2 0 * djn

theorem zipAdd_zeros (t : List K) : zipAdd (List.replicate t.length (0 : K)) t = t := by
  induction t with
  | nil => simp [zipAdd]
  | cons a t ih => simp [List.replicate_succ, zipAdd, ih]

theorem dot_zipAdd_zeros (n : Nat) (t dh : List K) (hd : dh.length = n) :
    dot (zipAdd (List.replicate n (0 : K)) t) dh = dot t dh := by
  induction n generalizing t dh with
  | zero => rw [List.eq_nil_of_length_eq_zero hd]; cases t <;> simp [zipAdd, dot]
  | succ n ih =>
    match dh, hd with
    | y :: dh', hd =>
      cases t with
      | nil => simp [zipAdd, dot, List.replicate_succ]
      | cons a t' =>
        simp only [List.replicate_succ, zipAdd, dot_cons, ih t' dh' (by simpa using hd), zero_add]

theorem dot_zeros_left (n : Nat) (y : List K) : dot (List.replicate n (0 : K)) y = 0 :=
  Assemble.dot_replicate_zero n y

section cubic
variable [LinearOrder K] [IsStrictOrderedRing K]
open ST.Cubic

theorem gdotC_range (n : Nat) (G : Nat → C4 K) (cs : List (C4 (Dual K))) (hl : cs.length = n) :
    gdotC ((List.range n).map G) cs
      = ∑ i ∈ Finset.range n, gdot (G i) (cs.getD i ⟨0, 0, 0, 0⟩) := by
  induction n generalizing G cs with
  | zero => simp [gdotC]
  | succ n ih =>
    match cs, hl with
    | c :: cs', hl =>
      rw [List.range_succ_eq_map, List.map_cons, List.map_map, gdotC, Finset.sum_range_succ',
        ih (G ∘ Nat.succ) cs' (by simpa using hl)]
      simp [add_comm]

theorem cubic_col (hs : List (Dual K)) (Pj : List (Dual K)) (v0 vn : Dual K) (G : Nat → Nat → K)
    (hpos : ∀ h ∈ hs, 0 < h.re) (hne : hs ≠ []) (hP : Pj.length = hs.length + 1) :
    let cs := build hs Pj v0 vn
    let segsR := mkSegs (hs.map Dual.re) (Pj.map Dual.re)
    let gs := (List.range hs.length).map (fun i => (⟨G i 0, G i 1, G i 2, G i 3⟩ : C4 K))
    let r := propagate v0.re vn.re segsR (knotM v0.re vn.re segsR) gs
    flatPair G (cs.map C4.toList) hs.length 4
      = dot r.points (Pj.map Dual.du) + dot r.times (hs.map Dual.du) + r.v0 * v0.du + r.vn * vn.du := by
  intro cs segsR gs r
  have hsegne : mkSegs hs Pj ≠ [] := by
    match hs, Pj, hne, hP with
    | _ :: _, _ :: _ :: _, _, _ => simp [mkSegs]
  have hM : (knotM v0 vn (mkSegs hs Pj)).length = hs.length + 1 := by
    rw [knotM, CubicEG.thomas_length, CubicEG.rows_length _ _ _ hsegne, len_mkSegs hs Pj hP]
  have hcl : cs.length = hs.length := build_length hs Pj v0 vn hP hM
  have hadj := cubic_adjoint hs Pj v0 vn gs (List.replicate hs.length 0) hpos hne hP (by simp [gs]) (by simp)
  simp only [] at hadj
  rw [dot_zeros_left, add_zero, dot_zipAdd_zeros _ _ _ (by simp)] at hadj
  rw [← hadj]
  -- the flat pairing is the list pairing
  show flatPair G (cs.map C4.toList) hs.length 4 = gdotC gs cs
  rw [gdotC_range hs.length _ cs hcl]
  simp only [flatPair]
  apply Finset.sum_congr rfl
  intro i hi
  simp only [Finset.mem_range] at hi
  have hi' : i < cs.length := by omega
  simp only [List.getD_eq_getElem?_getD, List.getElem?_map, List.getElem?_eq_getElem hi', Option.map_some,
    Option.getD_some, C4.toList, Finset.sum_range_succ, Finset.sum_range_zero, gdot]
  simp

end cubic

section quintic
variable [LinearOrder K] [IsStrictOrderedRing K]
open ST.Quintic QuinticAdj

theorem gdotC6_range (n : Nat) (G : Nat → C6 K) (cs : List (C6 (Dual K))) (hl : cs.length = n) :
    gdotC6 ((List.range n).map G) cs
      = ∑ i ∈ Finset.range n, gdot6 (G i) (cs.getD i ⟨0, 0, 0, 0, 0, 0⟩) := by
  induction n generalizing G cs with
  | zero => simp [gdotC6]
  | succ n ih =>
    match cs, hl with
    | c :: cs', hl =>
      rw [List.range_succ_eq_map, List.map_cons, List.map_map, gdotC6, Finset.sum_range_succ',
        ih (G ∘ Nat.succ) cs' (by simpa using hl)]
      simp [add_comm]

theorem quintic_col (hs : List (Dual K)) (Pj : List (Dual K)) (bL bR : V2 (Dual K)) (G : Nat → Nat → K)
    (hpos : ∀ h ∈ hs, 0 < h.re) (hne : hs ≠ []) (hP : Pj.length = hs.length + 1) :
    let cs := build hs Pj bL bR
    let gs := (List.range hs.length).map (fun i => (⟨G i 0, G i 1, G i 2, G i 3, G i 4, G i 5⟩ : C6 K))
    let r := propagate (buildFull (hs.map Dual.re) (Pj.map Dual.re) (V2re bL) (V2re bR)) gs
    flatPair G (cs.map C6.toList) hs.length 6
      = dot r.points (Pj.map Dual.du) + dot r.times (hs.map Dual.du)
        + r.start.x * bL.x.du + r.start.y * bL.y.du + r.fin.x * bR.x.du + r.fin.y * bR.y.du := by
  intro cs gs r
  obtain ⟨_, hklen, _, _⟩ := QuinticEG.knots_re hs Pj bL bR hne hpos hP
  have hcl : cs.length = hs.length := by
    show (closure (mkSegs hs Pj) (buildFull hs Pj bL bR).knots).length = _
    rw [QuinticEG.closure_length _ _ (by rw [hklen, mkSegs_length hs Pj hP]), mkSegs_length hs Pj hP]
  have hadj := QuinticPiv.quintic_adjoint_pos hs Pj bL bR gs (List.replicate hs.length 0) hne hpos hP (by simp [gs]) (by simp)
  simp only [] at hadj
  rw [dot_zeros_left, add_zero, dot_zipAdd_zeros _ _ _ (by simp)] at hadj
  have e : dot r.points (Pj.map Dual.du) + dot r.times (hs.map Dual.du)
        + r.start.x * bL.x.du + r.start.y * bL.y.du + r.fin.x * bR.x.du + r.fin.y * bR.y.du
      = dot r.points (Pj.map Dual.du) + dot r.times (hs.map Dual.du) + ip2 r.start (V2du bL) + ip2 r.fin (V2du bR) := by
    simp only [ip2, V2du]; ring
  rw [e, ← hadj]
  show flatPair G (cs.map C6.toList) hs.length 6 = gdotC6 gs cs
  rw [gdotC6_range hs.length _ cs hcl]
  simp only [flatPair]
  apply Finset.sum_congr rfl
  intro i hi
  simp only [Finset.mem_range] at hi
  have hi' : i < cs.length := by omega
  simp only [List.getD_eq_getElem?_getD, List.getElem?_map, List.getElem?_eq_getElem hi', Option.map_some,
    Option.getD_some, C6.toList, Finset.sum_range_succ, Finset.sum_range_zero, gdot6]
  simp

end quintic

section septic
variable [LinearOrder K] [IsStrictOrderedRing K]
open ST.Septic SepticAdj

theorem gdotC8_range (n : Nat) (G : Nat → C8 K) (cs : List (C8 (Dual K))) (hl : cs.length = n) :
    gdotC8 ((List.range n).map G) cs
      = ∑ i ∈ Finset.range n, gdot8 (G i) (cs.getD i ⟨0, 0, 0, 0, 0, 0, 0, 0⟩) := by
  induction n generalizing G cs with
  | zero => simp [gdotC8]
  | succ n ih =>
    match cs, hl with
    | c :: cs', hl =>
      rw [List.range_succ_eq_map, List.map_cons, List.map_map, gdotC8, Finset.sum_range_succ',
        ih (G ∘ Nat.succ) cs' (by simpa using hl)]
      simp [add_comm]

theorem septic_col (hs : List (Dual K)) (Pj : List (Dual K)) (bL bR : V3 (Dual K)) (G : Nat → Nat → K)
    (hpos : ∀ h ∈ hs, 0 < h.re) (hne : hs ≠ []) (hP : Pj.length = hs.length + 1) :
    let cs := build hs Pj bL bR
    let gs := (List.range hs.length).map (fun i => (⟨G i 0, G i 1, G i 2, G i 3, G i 4, G i 5, G i 6, G i 7⟩ : C8 K))
    let r := propagate (buildFull (hs.map Dual.re) (Pj.map Dual.re) (V3re bL) (V3re bR)) gs
    flatPair G (cs.map C8.toList) hs.length 8
      = dot r.points (Pj.map Dual.du) + dot r.times (hs.map Dual.du)
        + r.start.x * bL.x.du + r.start.y * bL.y.du + r.start.z * bL.z.du
        + r.fin.x * bR.x.du + r.fin.y * bR.y.du + r.fin.z * bR.z.du := by
  intro cs gs r
  obtain ⟨_, hklen, _, _⟩ := SepticEG.knots_re hs Pj bL bR hne hpos hP
  have hcl : cs.length = hs.length := by
    show (closure (mkSegs hs Pj) (buildFull hs Pj bL bR).knots).length = _
    rw [SepticEG.closure_length _ _ (by rw [hklen, mkSegs_length hs Pj hP]), mkSegs_length hs Pj hP]
  have hadj := SepticPiv.septic_adjoint_pos hs Pj bL bR gs (List.replicate hs.length 0) hne hpos hP (by simp [gs]) (by simp)
  simp only [] at hadj
  rw [dot_zeros_left, add_zero, dot_zipAdd_zeros _ _ _ (by simp)] at hadj
  have e : dot r.points (Pj.map Dual.du) + dot r.times (hs.map Dual.du)
        + r.start.x * bL.x.du + r.start.y * bL.y.du + r.start.z * bL.z.du
        + r.fin.x * bR.x.du + r.fin.y * bR.y.du + r.fin.z * bR.z.du
      = dot r.points (Pj.map Dual.du) + dot r.times (hs.map Dual.du) + ip3 r.start (V3du bL) + ip3 r.fin (V3du bR) := by
    simp only [ip3, V3du]; ring
  rw [e, ← hadj]
  show flatPair G (cs.map C8.toList) hs.length 8 = gdotC8 gs cs
  rw [gdotC8_range hs.length _ cs hcl]
  simp only [flatPair]
  apply Finset.sum_congr rfl
  intro i hi
  simp only [Finset.mem_range] at hi
  have hi' : i < cs.length := by omega
  simp only [List.getD_eq_getElem?_getD, List.getElem?_map, List.getElem?_eq_getElem hi', Option.map_some,
    Option.getD_some, C8.toList, Finset.sum_range_succ, Finset.sum_range_zero, gdot8]
  simp

end septic

/-! ## lengths of what `propagateGrad` returns (structural, no solvability needed) -/

theorem oadd_length (l : List (K × K)) : (oadd l).length = l.length + 1 := by
  have : ∀ (c : K) (l : List (K × K)), (oaddAux c l).length = l.length + 1 := by
    intro c l; induction l generalizing c with
    | nil => simp [oaddAux]
    | cons p rest ih => obtain ⟨a, b'⟩ := p; simp [oaddAux, ih]
  exact this _ l

theorem zipAdd_length (a b : List K) (h : a.length = b.length) : (zipAdd a b).length = a.length := by
  induction a generalizing b with
  | nil => cases b <;> simp [zipAdd]
  | cons x xs ih => match b, h with
    | y :: ys, h => simp [zipAdd, ih ys (by simpa using h)]

theorem cubic_times_length [LinearOrder K] [IsStrictOrderedRing K] (v0 vn : K) (segs : List (Cubic.Seg K))
    (gs : List (Cubic.C4 K)) (hne : segs ≠ []) (hg : gs.length = segs.length) :
    (Cubic.propagate v0 vn segs (Cubic.knotM v0 vn segs) gs).times.length = segs.length := by
  simp only [Cubic.propagate, List.length_map]
  apply len_segContribs _ _ _ _ hg
  · rw [Cubic.knotM, CubicEG.thomas_length, CubicEG.rows_length _ _ _ hne]
  · rw [CubicEG.thomas_length, withRhs_length _ _ (by rw [oadd_length, len_zipLam _ _ hg, CubicEG.rows_length _ _ _ hne]),
      CubicEG.rows_length _ _ _ hne]

section quinticLen
variable [CharZero K]
open ST.Quintic QuinticAdj

theorem bfwd_length2 (st : Option (BFact (M2 K) (V2 K))) (l : List (BRow (M2 K) (V2 K))) : (bfwd st l).length = l.length := by
  induction l generalizing st with
  | nil => cases st <;> simp [bfwd]
  | cons a l ihl => cases st <;> simp [bfwd, ihl]

theorem bback_length2 (fs : List (BFact (M2 K) (V2 K))) : (bback fs).length = fs.length := by
  induction fs with
  | nil => simp [bback]
  | cons f fs ih =>
    simp only [bback]
    split
    · next h => simp [← ih, h]
    · next x xs h => simp [← ih, h]

theorem bfwdT_length2 (st : Option (BFact (M2 K) (V2 K) × V2 K)) (fs : List (BFact (M2 K) (V2 K))) (g : List (V2 K))
    (h : g.length = fs.length) : (bfwdT st fs g).length = fs.length := by
  induction fs generalizing st g with
  | nil => cases st <;> simp [bfwdT]
  | cons f fs ih =>
    match g, h with
    | g0 :: gs, h => cases st <;> simp [bfwdT, ih _ gs (by simpa using h)]

theorem bbackT_length2 (fs : List (BFact (M2 K) (V2 K))) (y : List (V2 K)) (h : y.length = fs.length) :
    (bbackT fs y).length = fs.length := by
  induction fs generalizing y with
  | nil => cases y <;> simp [bbackT]
  | cons f fs ih =>
    match y, h with
    | y0 :: ys, h =>
      cases fs with
      | nil => match ys, h with
        | [], _ => simp [bbackT]
      | cons f2 fs2 =>
        have := ih ys (by simpa using h)
        rw [bbackT]
        cases hb : bbackT (f2 :: fs2) ys with
        | nil => rw [hb] at this; simp at this
        | cons ln rest => rw [hb] at this; simp at this ⊢; omega

theorem loop1_length2 (segs : List (Seg K)) (gs : List (C6 K)) (ks : List (V2 K)) (hg : gs.length = segs.length)
    (hk : ks.length = segs.length + 1) : (loop1 segs gs ks).length = segs.length := by
  induction segs generalizing gs ks with
  | nil => cases gs <;> simp [loop1]
  | cons s ss ih =>
    match gs, ks, hg, hk with
    | g :: gs, k0 :: k1 :: ks, hg, hk => simp [loop1, ih gs (k1 :: ks) (by simpa using hg) (by simpa using hk)]

theorem loop2_length2 (segs : List (Seg K)) (ks : List (V2 K)) (lams : List (V2 K)) (hs : segs.length = lams.length + 1)
    (hk : ks.length = lams.length + 2) : (loop2 segs ks lams).length = lams.length := by
  induction lams generalizing segs ks with
  | nil => match segs, ks, hs, hk with
    | [_], [_, _], _, _ => simp [loop2]
  | cons lam lams ih =>
    match segs, ks, hs, hk with
    | sL :: sR :: ss, kp :: kc :: kn :: ks', hs, hk =>
      simp [loop2, ih (sR :: ss) (kc :: kn :: ks') (by simpa using hs) (by simpa using hk)]

theorem oaddV2_length (l : List (V2 K × V2 K)) : (oaddV2 l).length = l.length + 1 := by
  have : ∀ (c : V2 K) (l : List (V2 K × V2 K)), (oaddV2Aux c l).length = l.length + 1 := by
    intro c l; induction l generalizing c with
    | nil => simp [oaddV2Aux]
    | cons p rest ih => obtain ⟨a, b'⟩ := p; simp [oaddV2Aux, ih]
  exact this _ l

theorem quintic_times_length (hs Ps : List K) (bL bR : V2 K) (gs : List (C6 K)) (hne : hs ≠ [])
    (hP : Ps.length = hs.length + 1) (hg : gs.length = hs.length) :
    (propagate (buildFull hs Ps bL bR) gs).times.length = hs.length := by
  have h1 : 1 ≤ hs.length := by cases hs with
    | nil => exact absurd rfl hne
    | cons _ _ => simp
  have hsl : (mkSegs hs Ps).length = hs.length := by
    have : ∀ (a b : List K), b.length = a.length + 1 → (mkSegs a b).length = a.length := by
      intro a
      induction a with
      | nil => intro b _; cases b <;> simp [mkSegs]
      | cons x xs ih => intro b hb; match b, hb with
        | p0 :: p1 :: b', hb => simp [mkSegs, ih (p1 :: b') (by simpa using hb)]
    exact this hs Ps hP
  have hrl : (rows bL bR (mkSegs hs Ps)).length = hs.length - 1 := by rw [QuinticAdj.rows_length, hsl]
  have hfl : (buildFull hs Ps bL bR).facts.length = hs.length - 1 := by
    show (bfwd none (rows bL bR (mkSegs hs Ps))).length = _
    rw [bfwd_length2, hrl]
  have hkl : (buildFull hs Ps bL bR).knots.length = hs.length + 1 := by
    show (bL :: bback (bfwd none (rows bL bR (mkSegs hs Ps))) ++ [bR]).length = _
    simp only [List.length_cons, List.length_append, List.length_nil, bback_length2, bfwd_length2, hrl]; omega
  have hsegs : (buildFull hs Ps bL bR).segs.length = hs.length := hsl
  have hl1 := loop1_length2 _ gs _ (by rw [hg, hsegs]) (by rw [hkl, hsegs])
  simp only [propagate]
  have hgd : (oaddV2 ((loop1 (buildFull hs Ps bL bR).segs gs (buildFull hs Ps bL bR).knots).map (·.2.1))).tail.dropLast.length
      = hs.length - 1 := by
    simp [oaddV2_length, hl1, hsegs]
  have hlam := bbackT_length2 (buildFull hs Ps bL bR).facts _
    (bfwdT_length2 none _ _ (by rw [hgd, hfl]))
  have hl2 := loop2_length2 (buildFull hs Ps bL bR).segs (buildFull hs Ps bL bR).knots
    (bsolveT (buildFull hs Ps bL bR).facts
      (oaddV2 ((loop1 (buildFull hs Ps bL bR).segs gs (buildFull hs Ps bL bR).knots).map (·.2.1))).tail.dropLast)
    (by rw [bsolveT, hlam, hfl, hsegs]; omega) (by rw [bsolveT, hlam, hfl, hkl]; omega)
  rw [zipAdd_length _ _ (by rw [oadd_length]; simp only [List.length_map]; rw [hl1, hl2, bsolveT, hlam, hfl, hsegs]; omega)]
  simp only [List.length_map]; rw [hl1, hsegs]

end quinticLen

section septicLen
variable [CharZero K]
open ST.Septic SepticAdj

theorem bfwd_length3 (st : Option (BFact (M3 K) (V3 K))) (l : List (BRow (M3 K) (V3 K))) : (bfwd st l).length = l.length := by
  induction l generalizing st with
  | nil => cases st <;> simp [bfwd]
  | cons a l ihl => cases st <;> simp [bfwd, ihl]

theorem bback_length3 (fs : List (BFact (M3 K) (V3 K))) : (bback fs).length = fs.length := by
  induction fs with
  | nil => simp [bback]
  | cons f fs ih =>
    simp only [bback]
    split
    · next h => simp [← ih, h]
    · next x xs h => simp [← ih, h]

theorem bfwdT_length3 (st : Option (BFact (M3 K) (V3 K) × V3 K)) (fs : List (BFact (M3 K) (V3 K))) (g : List (V3 K))
    (h : g.length = fs.length) : (bfwdT st fs g).length = fs.length := by
  induction fs generalizing st g with
  | nil => cases st <;> simp [bfwdT]
  | cons f fs ih =>
    match g, h with
    | g0 :: gs, h => cases st <;> simp [bfwdT, ih _ gs (by simpa using h)]

theorem bbackT_length3 (fs : List (BFact (M3 K) (V3 K))) (y : List (V3 K)) (h : y.length = fs.length) :
    (bbackT fs y).length = fs.length := by
  induction fs generalizing y with
  | nil => cases y <;> simp [bbackT]
  | cons f fs ih =>
    match y, h with
    | y0 :: ys, h =>
      cases fs with
      | nil => match ys, h with
        | [], _ => simp [bbackT]
      | cons f2 fs2 =>
        have := ih ys (by simpa using h)
        rw [bbackT]
        cases hb : bbackT (f2 :: fs2) ys with
        | nil => rw [hb] at this; simp at this
        | cons ln rest => rw [hb] at this; simp at this ⊢; omega

theorem loop1_length3 (segs : List (Seg K)) (gs : List (C8 K)) (ks : List (V3 K)) (hg : gs.length = segs.length)
    (hk : ks.length = segs.length + 1) : (loop1 segs gs ks).length = segs.length := by
  induction segs generalizing gs ks with
  | nil => cases gs <;> simp [loop1]
  | cons s ss ih =>
    match gs, ks, hg, hk with
    | g :: gs, k0 :: k1 :: ks, hg, hk => simp [loop1, ih gs (k1 :: ks) (by simpa using hg) (by simpa using hk)]

theorem loop2_length3 (segs : List (Seg K)) (ks : List (V3 K)) (lams : List (V3 K)) (hs : segs.length = lams.length + 1)
    (hk : ks.length = lams.length + 2) : (loop2 segs ks lams).length = lams.length := by
  induction lams generalizing segs ks with
  | nil => match segs, ks, hs, hk with
    | [_], [_, _], _, _ => simp [loop2]
  | cons lam lams ih =>
    match segs, ks, hs, hk with
    | sL :: sR :: ss, kp :: kc :: kn :: ks', hs, hk =>
      simp [loop2, ih (sR :: ss) (kc :: kn :: ks') (by simpa using hs) (by simpa using hk)]

theorem oaddV3_length (l : List (V3 K × V3 K)) : (oaddV3 l).length = l.length + 1 := by
  have : ∀ (c : V3 K) (l : List (V3 K × V3 K)), (oaddV3Aux c l).length = l.length + 1 := by
    intro c l; induction l generalizing c with
    | nil => simp [oaddV3Aux]
    | cons p rest ih => obtain ⟨a, b'⟩ := p; simp [oaddV3Aux, ih]
  exact this _ l

theorem septic_times_length (hs Ps : List K) (bL bR : V3 K) (gs : List (C8 K)) (hne : hs ≠ [])
    (hP : Ps.length = hs.length + 1) (hg : gs.length = hs.length) :
    (propagate (buildFull hs Ps bL bR) gs).times.length = hs.length := by
  have h1 : 1 ≤ hs.length := by cases hs with
    | nil => exact absurd rfl hne
    | cons _ _ => simp
  have hsl : (mkSegs hs Ps).length = hs.length := by
    have : ∀ (a b : List K), b.length = a.length + 1 → (mkSegs a b).length = a.length := by
      intro a
      induction a with
      | nil => intro b _; cases b <;> simp [mkSegs]
      | cons x xs ih => intro b hb; match b, hb with
        | p0 :: p1 :: b', hb => simp [mkSegs, ih (p1 :: b') (by simpa using hb)]
    exact this hs Ps hP
  have hrl : (rows bL bR (mkSegs hs Ps)).length = hs.length - 1 := by rw [SepticAdj.rows_length, hsl]
  have hfl : (buildFull hs Ps bL bR).facts.length = hs.length - 1 := by
    show (bfwd none (rows bL bR (mkSegs hs Ps))).length = _
    rw [bfwd_length3, hrl]
  have hkl : (buildFull hs Ps bL bR).knots.length = hs.length + 1 := by
    show (bL :: bback (bfwd none (rows bL bR (mkSegs hs Ps))) ++ [bR]).length = _
    simp only [List.length_cons, List.length_append, List.length_nil, bback_length3, bfwd_length3, hrl]; omega
  have hsegs : (buildFull hs Ps bL bR).segs.length = hs.length := hsl
  have hl1 := loop1_length3 _ gs _ (by rw [hg, hsegs]) (by rw [hkl, hsegs])
  simp only [propagate]
  have hgd : (oaddV3 ((loop1 (buildFull hs Ps bL bR).segs gs (buildFull hs Ps bL bR).knots).map (·.2.1))).tail.dropLast.length
      = hs.length - 1 := by
    simp [oaddV3_length, hl1, hsegs]
  have hlam := bbackT_length3 (buildFull hs Ps bL bR).facts _
    (bfwdT_length3 none _ _ (by rw [hgd, hfl]))
  have hl2 := loop2_length3 (buildFull hs Ps bL bR).segs (buildFull hs Ps bL bR).knots
    (bsolveT (buildFull hs Ps bL bR).facts
      (oaddV3 ((loop1 (buildFull hs Ps bL bR).segs gs (buildFull hs Ps bL bR).knots).map (·.2.1))).tail.dropLast)
    (by rw [bsolveT, hlam, hfl, hsegs]; omega) (by rw [bsolveT, hlam, hfl, hkl]; omega)
  rw [zipAdd_length _ _ (by rw [oadd_length]; simp only [List.length_map]; rw [hl1, hl2, bsolveT, hlam, hfl, hsegs]; omega)]
  simp only [List.length_map]; rw [hl1, hsegs]

end septicLen

/-! ## one coordinate of the D-dimensional objects -/

def bcRe (bc : BC (Dual K)) : BC K := ⟨vre bc.v0, vre bc.a0, vre bc.j0, vre bc.vn, vre bc.an, vre bc.jn⟩
def bcDu (bc : BC (Dual K)) : BC K := ⟨vdu bc.v0, vdu bc.a0, vdu bc.j0, vdu bc.vn, vdu bc.an, vdu bc.jn⟩

theorem getC_vre (v : Vec (Dual K)) (j : Nat) : getC (vre v) j = (getC v j).re := by
  simp only [getC, vre, List.getD_eq_getElem?_getD, List.getElem?_map]
  cases v[j]? <;> simp [lit_eq]

theorem getC_vdu (v : Vec (Dual K)) (j : Nat) : getC (vdu v) j = (getC v j).du := by
  simp only [getC, vdu, List.getD_eq_getElem?_getD, List.getElem?_map]
  cases v[j]? <;> simp [lit_eq]

theorem col_re (P : List (Vec (Dual K))) (j : Nat) :
    (P.map vre).map (fun r => getC r j) = (P.map (fun r => getC r j)).map Dual.re := by
  simp only [List.map_map]; apply List.map_congr_left; intro r _; simp [Function.comp, getC_vre]

section col
variable [LinearOrder K] [IsStrictOrderedRing K]

theorem col_adjoint (o : Order) (hs : List (Dual K)) (P : List (Vec (Dual K))) (bc : BC (Dual K))
    (gC : List (List (Vec K))) (j : Nat) (hpos : ∀ h ∈ hs, 0 < h.re) (hne : hs ≠ []) (hP : P.length = hs.length + 1) :
    flatPair (fun i k => getC ((gC.getD i []).getD k []) j) (colOf o hs P bc j).coeffs hs.length o.coeffNum
      = colPair (propCol o (hs.map Dual.re) (P.map vre) (bcRe bc) gC j)
          ((P.map (fun r => getC r j)).map Dual.du) (hs.map Dual.du)
          (getC bc.v0 j).du (getC bc.a0 j).du (getC bc.j0 j).du (getC bc.vn j).du (getC bc.an j).du (getC bc.jn j).du := by
  have hPj : (P.map (fun r => getC r j)).length = hs.length + 1 := by simp [hP]
  cases o with
  | cubic =>
    have := cubic_col hs (P.map (fun r => getC r j)) (getC bc.v0 j) (getC bc.vn j)
      (fun i k => getC ((gC.getD i []).getD k []) j) hpos hne hPj
    simp only [] at this
    simp only [colOf, colCubic, propCol, colPair, bcRe, getC_vre, col_re, List.length_map, Order.coeffNum,
      List.getD_cons_zero, List.getD_cons_succ, lit_eq, Nat.cast_zero, zero_mul, add_zero]
    rw [this]
  | quintic =>
    have := quintic_col hs (P.map (fun r => getC r j)) ⟨getC bc.v0 j, getC bc.a0 j⟩ ⟨getC bc.vn j, getC bc.an j⟩
      (fun i k => getC ((gC.getD i []).getD k []) j) hpos hne hPj
    simp only [] at this
    simp only [colOf, colQuintic, propCol, colPair, bcRe, getC_vre, col_re, List.length_map, Order.coeffNum,
      List.getD_cons_zero, List.getD_cons_succ, lit_eq, Nat.cast_zero, zero_mul, add_zero]
    rw [this]
    simp only [QuinticAdj.V2re]
  | septic =>
    have := septic_col hs (P.map (fun r => getC r j)) ⟨getC bc.v0 j, getC bc.a0 j, getC bc.j0 j⟩
      ⟨getC bc.vn j, getC bc.an j, getC bc.jn j⟩ (fun i k => getC ((gC.getD i []).getD k []) j) hpos hne hPj
    simp only [] at this
    simp only [colOf, colSeptic, propCol, colPair, bcRe, getC_vre, col_re, List.length_map, Order.coeffNum,
      List.getD_cons_zero, List.getD_cons_succ, lit_eq, Nat.cast_zero, zero_mul, add_zero]
    rw [this]
    simp only [SepticAdj.V3re]

end col

/-! ## sums over ranges -/

theorem blockDot_range (A : List (Vec K)) (m : Nat) (F : Nat → Vec K) :
    blockDot A ((List.range m).map F) = ∑ k ∈ Finset.range m, dot (A.getD k []) (F k) := by
  induction m generalizing A F with
  | zero => cases A <;> simp [blockDot]
  | succ m ih =>
    rw [List.range_succ_eq_map, List.map_cons, List.map_map, Finset.sum_range_succ']
    cases A with
    | nil =>
      simp only [blockDot, List.getD_nil]
      have : ∀ (x : Vec K), dot ([] : Vec K) x = 0 := by intro x; simp [dot]
      simp [this]
    | cons a A =>
      rw [blockDot, ih A (F ∘ Nat.succ)]
      simp [add_comm]

def blockDotL' : List (List (Vec K)) → List (List (Vec K)) → K := blockDotL

theorem blockDotL_range (A : List (List (Vec K))) (n : Nat) (F : Nat → List (Vec K)) :
    blockDotL A ((List.range n).map F) = ∑ i ∈ Finset.range n, blockDot (A.getD i []) (F i) := by
  induction n generalizing A F with
  | zero => cases A <;> simp [blockDotL]
  | succ n ih =>
    rw [List.range_succ_eq_map, List.map_cons, List.map_map, Finset.sum_range_succ']
    cases A with
    | nil =>
      simp only [blockDotL, List.getD_nil]
      have : ∀ (x : List (Vec K)), blockDot ([] : List (Vec K)) x = 0 := by intro x; simp [blockDot]
      simp [this]
    | cons a A =>
      rw [blockDotL, ih A (F ∘ Nat.succ)]
      simp [add_comm]

theorem dot_eq_finsum_right (m : Nat) (a b : Vec K) (hb : b.length = m) :
    dot a b = ∑ i ∈ Finset.range m, getC a i * getC b i := by
  induction m generalizing a b with
  | zero => rw [List.eq_nil_of_length_eq_zero hb]; cases a <;> simp [dot]
  | succ m ih =>
    match b, hb with
    | y :: b', hb =>
      rw [Finset.sum_range_succ']
      cases a with
      | nil =>
        have : ∀ (x : Vec K), dot ([] : Vec K) x = 0 := by intro x; simp [dot]
        simp [this, getC]
      | cons x a' =>
        rw [dot_cons, ih a' b' (by simpa using hb)]
        simp [getC, add_comm]

theorem dot_zipAdd_ge (a b dh : List K) (ha : a.length = dh.length) (hb : b.length = dh.length) :
    dot (zipAdd a b) dh = dot a dh + dot b dh := dot_zipAdd a b dh ha hb

theorem sumLists_pair (n d : Nat) (T : Nat → List K) (dh : List K) (hd : dh.length = n) (hT : ∀ j, j < d → (T j).length = n) :
    dot (sumLists n ((List.range d).map T)) dh = ∑ j ∈ Finset.range d, dot (T j) dh
    ∧ (sumLists n ((List.range d).map T)).length = n := by
  simp only [sumLists]
  have gen : ∀ (l : List (List K)) (acc : List K), acc.length = n → (∀ x ∈ l, x.length = n) →
      dot (l.foldl zipAdd acc) dh = dot acc dh + (l.map (fun x => dot x dh)).sum ∧ (l.foldl zipAdd acc).length = n := by
    intro l
    induction l with
    | nil => intro acc ha _; simp [ha]
    | cons x l ih =>
      intro acc ha hl
      have hx := hl x (by simp)
      have hz : (zipAdd acc x).length = n := by rw [zipAdd_length _ _ (by rw [ha, hx]), ha]
      obtain ⟨i1, i2⟩ := ih (zipAdd acc x) hz (fun y hy => hl y (by simp [hy]))
      rw [List.foldl_cons]
      refine ⟨?_, i2⟩
      rw [i1, dot_zipAdd _ _ _ (by rw [ha, hd]) (by rw [hx, hd]), List.map_cons, List.sum_cons]; ring
  obtain ⟨g1, g2⟩ := gen ((List.range d).map T) (List.replicate n (lit 0)) (by simp)
    (by intro x hx; obtain ⟨j, hj, rfl⟩ := List.mem_map.mp hx; exact hT j (List.mem_range.mp hj))
  refine ⟨?_, g2⟩
  rw [g1]
  have hz : dot (List.replicate n (lit 0 : K)) dh = 0 := by
    simp only [lit_eq, Nat.cast_zero]; exact dot_zeros_left n dh
  rw [hz, zero_add, List.map_map]
  clear g1 g2 gen hT
  induction d with
  | zero => simp
  | succ d ih => rw [List.range_succ, List.map_append, List.sum_append, Finset.sum_range_succ, ih]; simp

theorem blockDot_range_left (m : Nat) (F : Nat → Vec K) (B : List (Vec K)) :
    blockDot ((List.range m).map F) B = ∑ k ∈ Finset.range m, dot (F k) (B.getD k []) := by
  induction m generalizing B F with
  | zero => simp [blockDot]
  | succ m ih =>
    rw [List.range_succ_eq_map, List.map_cons, List.map_map, Finset.sum_range_succ']
    cases B with
    | nil =>
      simp only [blockDot, List.getD_nil]
      have : ∀ (x : Vec K), dot x ([] : Vec K) = 0 := by intro x; cases x <;> simp [dot]
      simp [this]
    | cons b B =>
      rw [blockDot, ih (F ∘ Nat.succ) B]
      simp [add_comm]

/-- pairing of everything `propagateGrad` returns with a tangent of (waypoints, durations, boundary states) -/
def ndPair (out : GradsND K) (dP : List (Vec K)) (dh : List K) (dbc : BC K) : K :=
  blockDot (out.start.p :: (out.inner ++ [out.fin.p])) dP + dot out.times dh
    + dot out.start.v dbc.v0 + dot out.start.a dbc.a0 + dot out.start.j dbc.j0
    + dot out.fin.v dbc.vn + dot out.fin.a dbc.an + dot out.fin.j dbc.jn

section nd
variable [LinearOrder K] [IsStrictOrderedRing K]

theorem propCol_times_length (o : Order) (hs : List K) (P : List (Vec K)) (bc : BC K) (gC : List (List (Vec K))) (j : Nat)
    (hne : hs ≠ []) (hP : P.length = hs.length + 1) : (propCol o hs P bc gC j).2.1.length = hs.length := by
  have hPj : (P.map (fun r => getC r j)).length = hs.length + 1 := by simp [hP]
  cases o with
  | cubic =>
    simp only [propCol]
    have hsegne : Cubic.mkSegs hs (P.map (fun r => getC r j)) ≠ [] := by
      match hs, P, hne, hP with
      | _ :: _, _ :: _ :: _, _, _ => simp [Cubic.mkSegs]
    rw [cubic_times_length _ _ _ _ hsegne (by simp [len_mkSegs hs _ hPj]), len_mkSegs hs _ hPj]
  | quintic => simp only [propCol]; exact quintic_times_length hs _ _ _ _ hne hPj (by simp)
  | septic => simp only [propCol]; exact septic_times_length hs _ _ _ _ hne hPj (by simp)

/-- **C05 in D dimensions**: `propagateGrad` is the exact adjoint of the D-dimensional construction map -/
theorem propagateND_adjoint (o : Order) (d : Nat) (hs : List (Dual K)) (P : List (Vec (Dual K))) (t0 : Dual K)
    (bc : BC (Dual K)) (gC : List (List (Vec K))) (gT : List K)
    (hpos : ∀ h ∈ hs, 0 < h.re) (hne : hs ≠ []) (hP : P.length = hs.length + 1) (hgT : gT.length = hs.length) :
    blockDotL gC ((buildND o d hs P t0 bc).coeffs.map (·.map vdu)) + dot gT (hs.map Dual.du)
      = ndPair (propagateND o d (hs.map Dual.re) (P.map vre) (bcRe bc) gC gT) (P.map vdu) (hs.map Dual.du) (bcDu bc) := by
  have h1 : 1 ≤ hs.length := by cases hs with
    | nil => exact absurd rfl hne
    | cons _ _ => simp
  have hneR : hs.map Dual.re ≠ [] := by simpa using hne
  have hPR : (P.map vre).length = (hs.map Dual.re).length + 1 := by simp [hP]
  -- left-hand side as a triple sum
  have hcoef : (buildND o d hs P t0 bc).coeffs.map (·.map vdu)
      = (List.range hs.length).map (fun i => (List.range o.coeffNum).map (fun k => (List.range d).map (fun j =>
          (((colOf o hs P bc j).coeffs.getD i []).getD k (lit 0)).du))) := by
    simp only [buildND, stack, List.map_map]
    apply List.map_congr_left; intro i _
    simp only [Function.comp, List.map_map]
    apply List.map_congr_left; intro k _
    show vdu (List.map _ (List.range d)) = _
    simp only [vdu, List.map_map]
    rfl
  have hL : blockDotL gC ((buildND o d hs P t0 bc).coeffs.map (·.map vdu))
      = ∑ j ∈ Finset.range d, flatPair (fun i k => getC ((gC.getD i []).getD k []) j) (colOf o hs P bc j).coeffs
          hs.length o.coeffNum := by
    rw [hcoef, blockDotL_range]
    simp only [blockDot_range, dot_map_range', flatPair]
    calc ∑ i ∈ Finset.range hs.length, ∑ k ∈ Finset.range o.coeffNum, ∑ j ∈ Finset.range d,
            getC ((gC.getD i []).getD k []) j * (((colOf o hs P bc j).coeffs.getD i []).getD k (lit 0)).du
        = ∑ i ∈ Finset.range hs.length, ∑ j ∈ Finset.range d, ∑ k ∈ Finset.range o.coeffNum,
            getC ((gC.getD i []).getD k []) j * (((colOf o hs P bc j).coeffs.getD i []).getD k (lit 0)).du := by
          apply Finset.sum_congr rfl; intro i _; exact Finset.sum_comm
      _ = _ := Finset.sum_comm
  -- right-hand side, term by term
  set dh := hs.map Dual.du with hdh
  have hdhl : dh.length = hs.length := by simp [hdh]
  set col := fun j => propCol o (hs.map Dual.re) (P.map vre) (bcRe bc) gC j with hcol
  have hpts : (propagateND o d (hs.map Dual.re) (P.map vre) (bcRe bc) gC gT).start.p
        :: ((propagateND o d (hs.map Dual.re) (P.map vre) (bcRe bc) gC gT).inner
            ++ [(propagateND o d (hs.map Dual.re) (P.map vre) (bcRe bc) gC gT).fin.p])
      = (List.range (hs.length + 1)).map (fun i => (List.range d).map (fun j => (col j).1.getD i (lit 0))) := by
    simp only [propagateND, List.map_map, List.length_map, hcol]
    rw [List.range_succ_eq_map, List.map_cons, List.map_map]
    congr 1
    obtain ⟨m, hm⟩ : ∃ m, hs.length = m + 1 := ⟨hs.length - 1, by omega⟩
    rw [hm, Nat.add_sub_cancel, List.range_succ (n := m), List.map_append]
    simp [Function.comp]
  have hP1 : blockDot ((propagateND o d (hs.map Dual.re) (P.map vre) (bcRe bc) gC gT).start.p
        :: ((propagateND o d (hs.map Dual.re) (P.map vre) (bcRe bc) gC gT).inner
            ++ [(propagateND o d (hs.map Dual.re) (P.map vre) (bcRe bc) gC gT).fin.p])) (P.map vdu)
      = ∑ j ∈ Finset.range d, dot (col j).1 ((P.map (fun r => getC r j)).map Dual.du) := by
    rw [hpts, blockDot_range_left]
    simp only [dot_map_range]
    rw [Finset.sum_comm]
    apply Finset.sum_congr rfl
    intro j _
    rw [dot_eq_finsum_right (hs.length + 1) _ _ (by simp [hP])]
    apply Finset.sum_congr rfl
    intro i _
    congr 1
    simp only [getC, List.getD_eq_getElem?_getD, List.getElem?_map]
    cases P[i]? with
    | none => simp [lit_eq]
    | some r =>
      simp only [Option.map_some, Option.getD_some, vdu, List.getElem?_map]
      cases r[j]? <;> simp [lit_eq]
  have hT1 : dot (propagateND o d (hs.map Dual.re) (P.map vre) (bcRe bc) gC gT).times dh
      = dot gT dh + ∑ j ∈ Finset.range d, dot (col j).2.1 dh := by
    rw [propagateND_times]
    obtain ⟨s1, s2⟩ := sumLists_pair hs.length d (fun j => (col j).2.1) dh hdhl
      (fun j _ => by
        have := propCol_times_length o (hs.map Dual.re) (P.map vre) (bcRe bc) gC j hneR hPR
        simpa using this)
    simp only [List.length_map, hcol] at s1 s2 ⊢
    rw [dot_zipAdd _ _ _ (by rw [hgT, hdhl]) (by rw [s2, hdhl]), s1]
  have hB : ∀ (sel : List K × List K × List K × List K → K) (v : Vec (Dual K)),
      dot ((List.range d).map (sel ∘ propCol o (hs.map Dual.re) (P.map vre) (bcRe bc) gC)) (vdu v)
        = ∑ j ∈ Finset.range d, sel (propCol o (hs.map Dual.re) (P.map vre) (bcRe bc) gC j) * (getC v j).du := by
    intro sel v
    rw [show (sel ∘ propCol o (hs.map Dual.re) (P.map vre) (bcRe bc) gC)
        = fun j => sel (propCol o (hs.map Dual.re) (P.map vre) (bcRe bc) gC j) from rfl, dot_map_range]
    apply Finset.sum_congr rfl
    intro j _
    rw [getC_vdu]
  rw [hL]
  simp only [ndPair, hP1, hT1, bcDu]
  simp only [propagateND, List.map_map, hcol]
  rw [hB (fun c => c.2.2.1.getD 0 (lit 0)) bc.v0, hB (fun c => c.2.2.1.getD 1 (lit 0)) bc.a0,
    hB (fun c => c.2.2.1.getD 2 (lit 0)) bc.j0, hB (fun c => c.2.2.2.getD 0 (lit 0)) bc.vn,
    hB (fun c => c.2.2.2.getD 1 (lit 0)) bc.an, hB (fun c => c.2.2.2.getD 2 (lit 0)) bc.jn]
  have hcolj : ∀ j, flatPair (fun i k => getC ((gC.getD i []).getD k []) j) (colOf o hs P bc j).coeffs hs.length o.coeffNum
      = colPair (propCol o (hs.map Dual.re) (P.map vre) (bcRe bc) gC j)
          ((P.map (fun r => getC r j)).map Dual.du) (hs.map Dual.du)
          (getC bc.v0 j).du (getC bc.a0 j).du (getC bc.j0 j).du (getC bc.vn j).du (getC bc.an j).du (getC bc.jn j).du :=
    fun j => col_adjoint o hs P bc gC j hpos hne hP
  simp only [hcolj, colPair, Finset.sum_add_distrib, lit_eq, Nat.cast_zero, List.map_map, hdh]
  ring

end nd

end NDAdj
