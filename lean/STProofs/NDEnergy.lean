import STProofs.NDAdjoint
/-!
# C06 in D dimensions: the analytic energy gradients of the D-dimensional spline are the total derivative of its energy

`(buildND … ).energy` computed over dual numbers has as its dual part the pairing of the published `energyGrad`
(`getEnergyGradInnerPoints`, `getEnergyGradTimes`, `getEnergyGradBoundary` of the D-dimensional object) with the tangent of
waypoints, durations and boundary states: sum over coordinates of the 1-D theorems `*_energy_grad_exact`.
-/
open ST QuadDual NDAdj
open scoped BigOperators

namespace NDEnergy
variable {K : Type} [Field K]

theorem sum_du (l : List (Dual K)) : (ST.sum l).du = (l.map Dual.du).sum := by
  induction l with
  | nil => simp [ST.sum, lit_eq]
  | cons x xs ih => simp only [ST.sum, List.map_cons, List.sum_cons, ← ih]; dual_proj

theorem sum_map_range (d : Nat) (F : Nat → K) : ((List.range d).map F).sum = ∑ j ∈ Finset.range d, F j := by
  induction d with
  | zero => simp
  | succ d ih => rw [List.range_succ, List.map_append, List.sum_append, Finset.sum_range_succ, ih]; simp

/-- what one column of the analytic energy gradient pairs to -/
def colPairE (c : Col K) (dP dh : List K) (dv0 da0 dj0 dvn dan djn : K) : K :=
  dot (c.gbStart.getD 0 0 :: (c.gradInner ++ [c.gbEnd.getD 0 0])) dP + dot c.gradTimes dh
    + c.gbStart.getD 1 0 * dv0 + c.gbStart.getD 2 0 * da0 + c.gbStart.getD 3 0 * dj0
    + c.gbEnd.getD 1 0 * dvn + c.gbEnd.getD 2 0 * dan + c.gbEnd.getD 3 0 * djn

section col
variable [LinearOrder K] [IsStrictOrderedRing K]

theorem col_energy (o : Order) (hs : List (Dual K)) (P : List (Vec (Dual K))) (bc : BC (Dual K)) (j : Nat)
    (hpos : ∀ h ∈ hs, 0 < h.re) (hne : hs ≠ []) (hP : P.length = hs.length + 1) :
    (colOf o hs P bc j).energy.du
      = colPairE (colOf o (hs.map Dual.re) (P.map vre) (bcRe bc) j)
          ((P.map (fun r => getC r j)).map Dual.du) (hs.map Dual.du)
          (getC bc.v0 j).du (getC bc.a0 j).du (getC bc.j0 j).du (getC bc.vn j).du (getC bc.an j).du (getC bc.jn j).du := by
  have hPj : (P.map (fun r => getC r j)).length = hs.length + 1 := by simp [hP]
  cases o with
  | cubic =>
    have := CubicEG.cubic_energy_grad_exact hs (P.map (fun r => getC r j)) (getC bc.v0 j) (getC bc.vn j) hpos hne hPj
    simp only [] at this
    simp only [colOf, colCubic, colPairE, bcRe, getC_vre, col_re, List.getD_cons_zero, List.getD_cons_succ, lit_eq,
      Nat.cast_zero, zero_mul, add_zero]
    rw [this]
  | quintic =>
    have := QuinticEG.quintic_energy_grad_exact hs (P.map (fun r => getC r j)) ⟨getC bc.v0 j, getC bc.a0 j⟩
      ⟨getC bc.vn j, getC bc.an j⟩ hpos hne hPj
    simp only [colOf, colQuintic, colPairE, bcRe, getC_vre, col_re, List.getD_cons_zero, List.getD_cons_succ, lit_eq,
      Nat.cast_zero, zero_mul, add_zero]
    rw [this]
    simp only [QuinticAdj.V2re, QuinticAdj.V2du, QuinticAdj.ip2]
    ring
  | septic =>
    have := SepticEG.septic_energy_grad_exact hs (P.map (fun r => getC r j)) ⟨getC bc.v0 j, getC bc.a0 j, getC bc.j0 j⟩
      ⟨getC bc.vn j, getC bc.an j, getC bc.jn j⟩ hpos hne hPj
    simp only [colOf, colSeptic, colPairE, bcRe, getC_vre, col_re, List.getD_cons_zero, List.getD_cons_succ, lit_eq,
      Nat.cast_zero, zero_mul, add_zero]
    rw [this]
    simp only [SepticAdj.V3re, SepticAdj.V3du, SepticAdj.ip3]
    ring

end col


/-! ## lengths of the published gradient lists -/

theorem cubic_gradInner_length (cs : List (Cubic.C4 K)) : (Cubic.gradInner cs).length = cs.length - 1 := by
  induction cs with
  | nil => simp [Cubic.gradInner]
  | cons c cs ih => cases cs with
    | nil => simp [Cubic.gradInner]
    | cons c' cs' => simp only [Cubic.gradInner, List.length_cons, ih]; simp

theorem quintic_gradInner_length (cs : List (Quintic.C6 K)) : (Quintic.gradInner cs).length = cs.length - 1 := by
  induction cs with
  | nil => simp [Quintic.gradInner]
  | cons c cs ih => cases cs with
    | nil => simp [Quintic.gradInner]
    | cons c' cs' => simp only [Quintic.gradInner, List.length_cons, ih]; simp

theorem septic_gradInner_length (cs : List (Septic.C8 K)) : (Septic.gradInner cs).length = cs.length - 1 := by
  induction cs with
  | nil => simp [Septic.gradInner]
  | cons c cs ih => cases cs with
    | nil => simp [Septic.gradInner]
    | cons c' cs' => simp only [Septic.gradInner, List.length_cons, ih]; simp

theorem cubic_build_length (hs Ps : List K) (v0 vn : K) (hne : hs ≠ []) (hP : Ps.length = hs.length + 1) :
    (Cubic.build hs Ps v0 vn).length = hs.length := by
  have hsegne : Cubic.mkSegs hs Ps ≠ [] := by
    match hs, Ps, hne, hP with
    | _ :: _, _ :: _ :: _, _, _ => simp [Cubic.mkSegs]
  have hM : (Cubic.knotM v0 vn (Cubic.mkSegs hs Ps)).length = hs.length + 1 := by
    rw [Cubic.knotM, CubicEG.thomas_length, CubicEG.rows_length _ _ _ hsegne, len_mkSegs hs Ps hP]
  have : ∀ (segs : List (Cubic.Seg K)) (ms : List K), ms.length = segs.length + 1 →
      (Cubic.closure segs ms).length = segs.length := by
    intro segs
    induction segs with
    | nil => intro ms _; cases ms with
      | nil => simp [Cubic.closure]
      | cons a l => cases l <;> simp [Cubic.closure]
    | cons s ss ih =>
      intro ms hm
      match ms, hm with
      | m0 :: m1 :: ms', hm => simp [Cubic.closure, ih (m1 :: ms') (by simpa using hm)]
  simp only [Cubic.build]
  rw [this _ _ (by rw [hM, len_mkSegs hs Ps hP]), len_mkSegs hs Ps hP]

section lens
variable [CharZero K]

theorem qmkSegs_length (a b : List K) (hb : b.length = a.length + 1) : (Quintic.mkSegs a b).length = a.length := by
  induction a generalizing b with
  | nil => cases b <;> simp [Quintic.mkSegs]
  | cons x xs ih => match b, hb with
    | p0 :: p1 :: b', hb => simp [Quintic.mkSegs, ih (p1 :: b') (by simpa using hb)]

theorem smkSegs_length (a b : List K) (hb : b.length = a.length + 1) : (Septic.mkSegs a b).length = a.length := by
  induction a generalizing b with
  | nil => cases b <;> simp [Septic.mkSegs]
  | cons x xs ih => match b, hb with
    | p0 :: p1 :: b', hb => simp [Septic.mkSegs, ih (p1 :: b') (by simpa using hb)]

theorem quintic_build_length (hs Ps : List K) (bL bR : V2 K) (hne : hs ≠ []) (hP : Ps.length = hs.length + 1) :
    (Quintic.build hs Ps bL bR).length = hs.length := by
  have h1 : 1 ≤ hs.length := by cases hs with
    | nil => exact absurd rfl hne
    | cons _ _ => simp
  have hsl : (Quintic.mkSegs hs Ps).length = hs.length := qmkSegs_length hs Ps hP
  have hkl : (Quintic.buildFull hs Ps bL bR).knots.length = hs.length + 1 := by
    show (bL :: bback (bfwd none (Quintic.rows bL bR (Quintic.mkSegs hs Ps))) ++ [bR]).length = _
    simp only [List.length_cons, List.length_append, List.length_nil, bback_length2, bfwd_length2,
      QuinticAdj.rows_length, hsl]; omega
  show (Quintic.closure (Quintic.mkSegs hs Ps) (Quintic.buildFull hs Ps bL bR).knots).length = _
  rw [QuinticEG.closure_length _ _ (by rw [hkl, hsl]), hsl]

theorem septic_build_length (hs Ps : List K) (bL bR : V3 K) (hne : hs ≠ []) (hP : Ps.length = hs.length + 1) :
    (Septic.build hs Ps bL bR).length = hs.length := by
  have h1 : 1 ≤ hs.length := by cases hs with
    | nil => exact absurd rfl hne
    | cons _ _ => simp
  have hsl : (Septic.mkSegs hs Ps).length = hs.length := smkSegs_length hs Ps hP
  have hkl : (Septic.buildFull hs Ps bL bR).knots.length = hs.length + 1 := by
    show (bL :: bback (bfwd none (Septic.rows bL bR (Septic.mkSegs hs Ps))) ++ [bR]).length = _
    simp only [List.length_cons, List.length_append, List.length_nil, bback_length3, bfwd_length3,
      SepticAdj.rows_length, hsl]; omega
  show (Septic.closure (Septic.mkSegs hs Ps) (Septic.buildFull hs Ps bL bR).knots).length = _
  rw [SepticEG.closure_length _ _ (by rw [hkl, hsl]), hsl]

theorem colOf_lengths (o : Order) (hs : List K) (P : List (Vec K)) (bc : BC K) (j : Nat) (hne : hs ≠ [])
    (hP : P.length = hs.length + 1) :
    (colOf o hs P bc j).gradInner.length = hs.length - 1 ∧ (colOf o hs P bc j).gradTimes.length = hs.length := by
  have hPj : (P.map (fun r => getC r j)).length = hs.length + 1 := by simp [hP]
  cases o with
  | cubic =>
    simp only [colOf, colCubic, cubic_gradInner_length, List.length_map, cubic_build_length hs _ _ _ hne hPj, and_self]
  | quintic =>
    simp only [colOf, colQuintic, quintic_gradInner_length, List.length_map, quintic_build_length hs _ _ _ hne hPj,
      and_self]
  | septic =>
    simp only [colOf, colSeptic, septic_gradInner_length, List.length_map, septic_build_length hs _ _ _ hne hPj,
      and_self]

end lens

theorem getC_col (P : List (Vec (Dual K))) (i j : Nat) :
    getC ((P.map vdu).getD i []) j = getC ((P.map (fun r => getC r j)).map Dual.du) i := by
  simp only [getC, List.getD_eq_getElem?_getD, List.getElem?_map]
  cases P[i]? with
  | none => simp [lit_eq]
  | some r =>
    simp only [Option.map_some, Option.getD_some, vdu, List.getElem?_map]
    cases r[j]? <;> simp [lit_eq]

section nd
variable [LinearOrder K] [IsStrictOrderedRing K]

/-- **C06 in D dimensions**: the published analytic energy gradients are the total derivative of the energy -/
theorem energyND_grad (o : Order) (d : Nat) (hs : List (Dual K)) (P : List (Vec (Dual K))) (t0 : Dual K) (t0' : K)
    (bc : BC (Dual K)) (hpos : ∀ h ∈ hs, 0 < h.re) (hne : hs ≠ []) (hP : P.length = hs.length + 1) :
    (buildND o d hs P t0 bc).energy.du
      = ndPair (buildND o d (hs.map Dual.re) (P.map vre) t0' (bcRe bc)).energyGrad (P.map vdu) (hs.map Dual.du)
          (bcDu bc) := by
  have h1 : 1 ≤ hs.length := by cases hs with
    | nil => exact absurd rfl hne
    | cons _ _ => simp
  have hneR : hs.map Dual.re ≠ [] := by simpa using hne
  have hPR : (P.map vre).length = (hs.map Dual.re).length + 1 := by simp [hP]
  set dh := hs.map Dual.du with hdh
  have hdhl : dh.length = hs.length := by simp [hdh]
  set cR := fun j => colOf o (hs.map Dual.re) (P.map vre) (bcRe bc) j with hcR
  have hlen : ∀ j, (cR j).gradInner.length = hs.length - 1 ∧ (cR j).gradTimes.length = hs.length := by
    intro j
    have := colOf_lengths o (hs.map Dual.re) (P.map vre) (bcRe bc) j hneR hPR
    simpa using this
  -- left-hand side
  have hL : (buildND o d hs P t0 bc).energy.du = ∑ j ∈ Finset.range d, (colOf o hs P bc j).energy.du := by
    simp only [buildND]
    rw [sum_du, List.map_map, List.map_map, sum_map_range]
    rfl
  -- points
  set pts := fun j => (cR j).gbStart.getD 0 0 :: ((cR j).gradInner ++ [(cR j).gbEnd.getD 0 0]) with hptsdef
  have hpts : (buildND o d (hs.map Dual.re) (P.map vre) t0' (bcRe bc)).energyGrad.start.p
        :: ((buildND o d (hs.map Dual.re) (P.map vre) t0' (bcRe bc)).energyGrad.inner
            ++ [(buildND o d (hs.map Dual.re) (P.map vre) t0' (bcRe bc)).energyGrad.fin.p])
      = (List.range (hs.length + 1)).map (fun i => (List.range d).map (fun j => (pts j).getD i 0)) := by
    simp only [buildND, List.map_map, List.length_map]
    rw [List.range_succ_eq_map, List.map_cons, List.map_map]
    congr 1
    · simp [pts, cR, Function.comp, lit_eq]
    obtain ⟨m, hm⟩ : ∃ m, hs.length = m + 1 := ⟨hs.length - 1, by omega⟩
    rw [hm, Nat.add_sub_cancel, List.range_succ (n := m), List.map_append]
    congr 1
    · apply List.map_congr_left
      intro i hi
      simp only [Function.comp]
      apply List.map_congr_left
      intro j _
      have hl := (hlen j).1
      rw [hm, Nat.add_sub_cancel] at hl
      have hi' : i < (cR j).gradInner.length := by rw [hl]; exact List.mem_range.mp hi
      simp only [pts, List.getD_eq_getElem?_getD, lit_eq, Nat.cast_zero]
      show (cR j).gradInner[i]?.getD 0 = _
      rw [List.getElem?_cons_succ, List.getElem?_append_left hi']
    · simp only [List.map_cons, List.map_nil, Function.comp, List.cons.injEq, and_true]
      apply List.map_congr_left
      intro j _
      have hl := (hlen j).1
      rw [hm, Nat.add_sub_cancel] at hl
      simp only [pts, List.getD_eq_getElem?_getD, lit_eq, Nat.cast_zero]
      show (cR j).gbEnd[0]?.getD 0 = _
      rw [List.getElem?_cons_succ, List.getElem?_append_right (by rw [hl]), hl]
      simp
  have hP1 : blockDot ((buildND o d (hs.map Dual.re) (P.map vre) t0' (bcRe bc)).energyGrad.start.p
        :: ((buildND o d (hs.map Dual.re) (P.map vre) t0' (bcRe bc)).energyGrad.inner
            ++ [(buildND o d (hs.map Dual.re) (P.map vre) t0' (bcRe bc)).energyGrad.fin.p])) (P.map vdu)
      = ∑ j ∈ Finset.range d, dot (pts j) ((P.map (fun r => getC r j)).map Dual.du) := by
    rw [hpts, blockDot_range_left]
    simp only [dot_map_range]
    rw [Finset.sum_comm]
    apply Finset.sum_congr rfl
    intro j _
    rw [dot_eq_finsum_right (hs.length + 1) _ _ (by simp [hP])]
    apply Finset.sum_congr rfl
    intro i _
    rw [getC_col P i j]
    simp only [getC, lit_eq, Nat.cast_zero]
  have hT1 : dot (buildND o d (hs.map Dual.re) (P.map vre) t0' (bcRe bc)).energyGrad.times dh
      = ∑ j ∈ Finset.range d, dot (cR j).gradTimes dh := by
    obtain ⟨s1, _⟩ := sumLists_pair hs.length d (fun j => (cR j).gradTimes) dh hdhl (fun j _ => (hlen j).2)
    simp only [buildND, List.map_map, List.length_map]
    exact s1
  have hB : ∀ (sel : Col K → K) (v : Vec (Dual K)),
      dot ((List.range d).map (sel ∘ colOf o (hs.map Dual.re) (P.map vre) (bcRe bc))) (vdu v)
        = ∑ j ∈ Finset.range d, sel (cR j) * (getC v j).du := by
    intro sel v
    rw [show (sel ∘ colOf o (hs.map Dual.re) (P.map vre) (bcRe bc)) = fun j => sel (cR j) from rfl, dot_map_range]
    apply Finset.sum_congr rfl
    intro j _
    rw [getC_vdu]
  rw [hL]
  simp only [ndPair, hP1, hT1, bcDu]
  simp only [buildND, List.map_map]
  rw [hB (fun c => c.gbStart.getD 1 (lit 0)) bc.v0, hB (fun c => c.gbStart.getD 2 (lit 0)) bc.a0,
    hB (fun c => c.gbStart.getD 3 (lit 0)) bc.j0, hB (fun c => c.gbEnd.getD 1 (lit 0)) bc.vn,
    hB (fun c => c.gbEnd.getD 2 (lit 0)) bc.an, hB (fun c => c.gbEnd.getD 3 (lit 0)) bc.jn]
  have hcolj : ∀ j, (colOf o hs P bc j).energy.du
      = colPairE (cR j) ((P.map (fun r => getC r j)).map Dual.du) (hs.map Dual.du)
          (getC bc.v0 j).du (getC bc.a0 j).du (getC bc.j0 j).du (getC bc.vn j).du (getC bc.an j).du (getC bc.jn j).du :=
    fun j => col_energy o hs P bc j hpos hne hP
  simp only [hcolj, colPairE, Finset.sum_add_distrib, lit_eq, Nat.cast_zero, hdh, pts, List.map_map]

end nd

end NDEnergy
