import STModel
import Mathlib.Tactic.Linarith
/-!
# The cache theorems of `PPolyND` for an arbitrary scalar type — in particular for IEEE doubles (C11, C10, C03)

`STProofs/PPolyCache.lean` proves, over an ordered field, that no history of updates, evaluations at arbitrary orders,
hinted and per-segment evaluations, derivative constructions and copies can make an evaluation return anything but the
cache-free value of the latest data.  None of those proofs uses a law of arithmetic: the same text is checked here for
**every** type carrying the operations of the model (`NumOrd K`: `+ − * /`, comparisons, floor — no axioms at all), hence
for `Float` with the operation sequence of the model.  For that instance the statements say *bit-identical*: a reused
object answers exactly like a fresh one (`eval_after_history`), and the batch overload returns exactly the pointwise values
whatever cache state the earlier elements left behind (`evaluateBatch_eq`).  (The hinted route is not in this file: its
proof needs the order laws of the breakpoints, which NaN breaks; it stays in `PPolyRoutes.lean` over an ordered field.)
-/
open ST
set_option linter.unusedSectionVars false

namespace AnyNum
section
variable {K : Type} [NumOrd K]

/-- the derivative-coefficient table computed from the current data, without any cache -/
def derivTable (p : PPoly K) : List (List (List (Vec K))) :=
  (List.range p.numCoeffs).map (fun d =>
    p.coeffs.map (fun seg =>
      (List.range (p.numCoeffs - d)).map (fun k => vscale (lit (factorEntry (k + d) d)) (seg.getD (k + d) []))))

structure CacheInv (p : PPoly K) : Prop where
  deriv : p.derivReady = true → (p.coeffs = [] ∧ p.derivCoeffs = []) ∨ (p.numCoeffs = 0 ∧ p.derivCoeffs = []) ∨ p.derivCoeffs = derivTable p
  table : p.factorReady = true → p.factorTable = PPoly.buildTable p.numCoeffs
  wf : p.numSegments = 0 → p.coeffs = []

/-- the data an update installs (everything except the caches) -/
def sameData (p q : PPoly K) : Prop :=
  p.dim = q.dim ∧ p.fixedOrder = q.fixedOrder ∧ p.breakpoints = q.breakpoints ∧ p.coeffs = q.coeffs ∧
  p.numSegments = q.numSegments ∧ p.numCoeffs = q.numCoeffs ∧ p.initialized = q.initialized

theorem sameData_refl (p : PPoly K) : sameData p p := ⟨rfl, rfl, rfl, rfl, rfl, rfl, rfl⟩
theorem sameData_trans {p q r : PPoly K} (h1 : sameData p q) (h2 : sameData q r) : sameData p r := by
  obtain ⟨a1, a2, a3, a4, a5, a6, a7⟩ := h1
  obtain ⟨b1, b2, b3, b4, b5, b6, b7⟩ := h2
  exact ⟨a1.trans b1, a2.trans b2, a3.trans b3, a4.trans b4, a5.trans b5, a6.trans b6, a7.trans b7⟩

theorem derivTable_congr {p q : PPoly K} (h : sameData p q) : derivTable p = derivTable q := by
  obtain ⟨_, _, _, h4, _, h6, _⟩ := h
  simp only [derivTable, h4, h6]

theorem buildTable_get (nc n k : Nat) (hn : n < nc) (hk : k < nc) :
    ((PPoly.buildTable nc).getD n []).getD k 0 = factorEntry n k := by
  simp only [PPoly.buildTable, List.getD_eq_getElem?_getD, List.getElem?_map, List.getElem?_range hn,
    Option.map_some, Option.getD_some, List.getElem?_range hk]

/-- every `update` outcome leaves both caches invalidated -/
theorem init_flags (p : PPoly K) (bps : List K) (rows : List (Vec K)) (nc : Int) :
    (p.init bps rows nc).derivReady = false ∧ (p.init bps rows nc).factorReady = false := by
  unfold PPoly.init
  split
  · simp [PPoly.reset, PPoly.invalidate]
  · split
    · simp [PPoly.reset, PPoly.invalidate]
    · simp only [PPoly.reset, PPoly.invalidate]
      split
      · split <;> simp
      · simp

theorem init_wf (p : PPoly K) (bps : List K) (rows : List (Vec K)) (nc : Int) :
    (p.init bps rows nc).numSegments = 0 → (p.init bps rows nc).coeffs = [] := by
  unfold PPoly.init
  split
  · simp [PPoly.reset, PPoly.invalidate]
  · split
    · simp [PPoly.reset, PPoly.invalidate]
    · simp only [PPoly.reset, PPoly.invalidate]
      split
      · split
        · simp
        · intro h
          have h' : bps.length - 1 = 0 := h
          show PPoly.groupRows (bps.length - 1) _ rows = []
          rw [h']; rfl
      · intro h
        have h' : bps.length - 1 = 0 := h
        show PPoly.groupRows (bps.length - 1) _ rows = []
        rw [h']; rfl

theorem init_inv (p : PPoly K) (bps : List K) (rows : List (Vec K)) (nc : Int) : CacheInv (p.init bps rows nc) := by
  obtain ⟨h1, h2⟩ := init_flags p bps rows nc
  exact ⟨fun h => by simp [h1] at h, fun h => by simp [h2] at h, init_wf p bps rows nc⟩

theorem ensureTable_inv (p : PPoly K) (h : CacheInv p) : CacheInv p.ensureTable ∧ sameData p p.ensureTable ∧
    p.ensureTable.factorReady = true ∧ p.ensureTable.derivReady = p.derivReady ∧ p.ensureTable.derivCoeffs = p.derivCoeffs := by
  unfold PPoly.ensureTable
  split
  · rename_i hr; exact ⟨h, sameData_refl p, hr, rfl, rfl⟩
  · refine ⟨⟨?_, fun _ => rfl, h.wf⟩, ⟨rfl, rfl, rfl, rfl, rfl, rfl, rfl⟩, rfl, rfl, rfl⟩
    intro hd
    exact h.deriv hd

/-- a factor lookup returns the falling-factorial entry whatever path it takes, and does not disturb the object -/
theorem derivativeFactor_spec (p : PPoly K) (h : CacheInv p) (n k : Nat) (hn : n < p.numCoeffs) :
    (p.derivativeFactor n k).2 = factorEntry n k ∧ CacheInv (p.derivativeFactor n k).1 ∧
    sameData p (p.derivativeFactor n k).1 := by
  unfold PPoly.derivativeFactor
  by_cases hk : k > n
  · simp only [hk, if_true]
    exact ⟨by simp [factorEntry]; omega, h, sameData_refl p⟩
  · simp only [hk, if_false]
    split
    · exact ⟨rfl, h, sameData_refl p⟩
    · split
      · exact ⟨rfl, h, sameData_refl p⟩
      · obtain ⟨hi, hs, hr, _, _⟩ := ensureTable_inv p h
        refine ⟨?_, hi, hs⟩
        have hnc : p.ensureTable.numCoeffs = p.numCoeffs := hs.2.2.2.2.2.1.symm
        show ((p.ensureTable.factorTable.getD n []).getD k 0) = factorEntry n k
        rw [hi.table hr, hnc]
        exact buildTable_get p.numCoeffs n k hn (by omega)

/-- `buildDerivativeCoefficients` fills the cache with exactly the table of the current data -/
theorem buildDerivCoeffs_spec (p : PPoly K) (h : CacheInv p) :
    CacheInv p.buildDerivCoeffs ∧ sameData p p.buildDerivCoeffs ∧ p.buildDerivCoeffs.derivReady = true := by
  unfold PPoly.buildDerivCoeffs
  split
  · rename_i h0
    refine ⟨⟨fun _ => ?_, h.table, h.wf⟩, ⟨rfl, rfl, rfl, rfl, rfl, rfl, rfl⟩, rfl⟩
    simp only [Bool.or_eq_true, decide_eq_true_eq] at h0
    rcases h0 with h0 | h0
    · exact Or.inl ⟨h.wf h0, rfl⟩
    · exact Or.inr (Or.inl ⟨h0, rfl⟩)
  · -- the object after the optional table construction
    set p1 := (if (!p.usesStaticOnly && decide (p.numCoeffs > kStaticMax)) = true then p.ensureTable else p) with hp1
    have hp1i : CacheInv p1 ∧ sameData p p1 := by
      rw [hp1]; split
      · exact ⟨(ensureTable_inv p h).1, (ensureTable_inv p h).2.1⟩
      · exact ⟨h, sameData_refl p⟩
    obtain ⟨hi1, hs1⟩ := hp1i
    have hnc : p1.numCoeffs = p.numCoeffs := hs1.2.2.2.2.2.1.symm
    have hdc : (List.range p1.numCoeffs).map (fun d => p1.coeffs.map (fun seg =>
        (List.range (p1.numCoeffs - d)).map (fun k =>
          vscale (lit ((p1.derivativeFactor (k + d) d).2)) (seg.getD (k + d) [])))) = derivTable p1 := by
      simp only [derivTable]
      apply List.map_congr_left
      intro d hd
      apply List.map_congr_left
      intro seg _
      apply List.map_congr_left
      intro k hk
      simp only [List.mem_range] at hd hk
      rw [(derivativeFactor_spec p1 hi1 (k + d) d (by omega)).1]
    refine ⟨⟨fun _ => Or.inr (Or.inr ?_), ?_, ?_⟩, ?_, rfl⟩
    · dsimp only
      rw [hdc]
      exact derivTable_congr ⟨rfl, rfl, rfl, rfl, rfl, rfl, rfl⟩
    · exact hi1.table
    · exact hi1.wf
    · obtain ⟨a1, a2, a3, a4, a5, a6, a7⟩ := hs1
      exact ⟨a1, a2, a3, a4, a5, a6, a7⟩

theorem ensureDerivCoeffs_spec (p : PPoly K) (h : CacheInv p) :
    CacheInv p.ensureDerivCoeffs ∧ sameData p p.ensureDerivCoeffs ∧ p.ensureDerivCoeffs.derivReady = true := by
  unfold PPoly.ensureDerivCoeffs
  split
  · rename_i hr; exact ⟨h, sameData_refl p, hr⟩
  · exact buildDerivCoeffs_spec p h

/-- cache-free evaluation of derivative `k` of piece `seg` at local time `t` -/
def evalSegPure (p : PPoly K) (seg : Nat) (t : K) (k : Int) : Vec K :=
  if k ≥ (p.numCoeffs : Int) || k < 0 then vzero p.dim
  else PPoly.horner t (((derivTable p).getD k.toNat []).getD seg [])

theorem evalSegPure_congr {p q : PPoly K} (h : sameData p q) (seg : Nat) (t : K) (k : Int) :
    evalSegPure p seg t k = evalSegPure q seg t k := by
  simp only [evalSegPure, derivTable_congr h, h.1, h.2.2.2.2.2.1]

/-- **an evaluation never serves stale data**: whatever the cache state (consistent with `CacheInv`), the value is
the cache-free evaluation of the current coefficients -/
theorem evalSegment_spec (p : PPoly K) (h : CacheInv p) (seg : Nat) (t : K) (k : Int) :
    (p.evalSegment seg t k).2 = evalSegPure p seg t k ∧ CacheInv (p.evalSegment seg t k).1 ∧
    sameData p (p.evalSegment seg t k).1 := by
  unfold PPoly.evalSegment evalSegPure
  split
  · exact ⟨rfl, h, sameData_refl p⟩
  · rename_i hk
    obtain ⟨hi, hs, hr⟩ := ensureDerivCoeffs_spec p h
    refine ⟨?_, hi, hs⟩
    simp only [Bool.or_eq_true, decide_eq_true_eq, not_or, not_le, not_lt] at hk
    show PPoly.horner t ((p.ensureDerivCoeffs.derivCoeffs.getD k.toNat []).getD seg []) = _
    rcases hi.deriv hr with ⟨hc, hd⟩ | ⟨hc, hd⟩ | hd
    · have hc' : p.coeffs = [] := hs.2.2.2.1.trans hc
      have hk2 : k.toNat < p.numCoeffs := by omega
      rw [hd]
      simp only [derivTable, hc', List.map_nil, List.getD_eq_getElem?_getD, List.getElem?_map,
        List.getElem?_range hk2, Option.map_some, Option.getD_some, List.getElem?_nil, Option.getD_none]
    · have : p.numCoeffs = 0 := hs.2.2.2.2.2.1.trans hc
      omega
    · rw [hd, derivTable_congr hs]

/-- the same for the plain and the hinted time-based evaluations -/
theorem evaluate_spec (p : PPoly K) (h : CacheInv p) (t : K) (k : Int) :
    (p.evaluate t k).2 =
      (if k ≥ (p.numCoeffs : Int) then vzero p.dim
       else evalSegPure p (p.findSegment t) (t - p.breakpoints.getD (p.findSegment t) (lit 0)) k) ∧
    CacheInv (p.evaluate t k).1 ∧ sameData p (p.evaluate t k).1 := by
  unfold PPoly.evaluate
  split
  · exact ⟨rfl, h, sameData_refl p⟩
  · exact evalSegment_spec p h _ _ k

theorem findSegment_congr {p q : PPoly K} (h : sameData p q) (t : K) : p.findSegment t = q.findSegment t := by
  simp only [PPoly.findSegment, h.2.2.1, h.2.2.2.2.1]

/-- the outcome of an update depends on the old object only through its (immutable) dimension and order parameter -/
theorem init_sameData (p p' : PPoly K) (bps : List K) (rows : List (Vec K)) (nc : Int)
    (hd : p.dim = p'.dim) (hf : p.fixedOrder = p'.fixedOrder) : sameData (p.init bps rows nc) (p'.init bps rows nc) := by
  unfold PPoly.init
  rw [hf]
  by_cases h1 : bps.length < 2
  · simp only [if_pos h1, PPoly.reset, PPoly.invalidate]
    exact ⟨hd, hf, rfl, rfl, rfl, rfl, rfl⟩
  · by_cases h2 : (rows.length : Int) ≠ ((bps.length - 1 : Nat) : Int) * nc
    · simp only [if_neg h1, if_pos h2, PPoly.reset, PPoly.invalidate]
      exact ⟨hd, hf, rfl, rfl, rfl, rfl, rfl⟩
    · simp only [if_neg h1, if_neg h2, PPoly.reset, PPoly.invalidate]
      cases hfo' : p'.fixedOrder with
      | none =>
        simp only [Bool.false_eq_true, if_false]
        exact ⟨hd, rfl, rfl, rfl, rfl, rfl, rfl⟩
      | some o =>
        by_cases hb : (decide (nc ≤ 0) || decide (nc > (o : Int))) = true
        · simp only [if_pos hb]
          exact ⟨hd, hf.trans hfo', rfl, rfl, rfl, rfl, rfl⟩
        · simp only [if_neg hb]
          exact ⟨hd, rfl, rfl, rfl, rfl, rfl, rfl⟩

/-- operations on a piecewise-polynomial object (copies are identities in a value model) -/
inductive POp (K : Type) where
  | update (bps : List K) (rows : List (Vec K)) (nc : Int)
  | eval (t : K) (k : Int)
  | evalHint (t : K) (hint : Int) (k : Int)
  | segEval (seg : Nat) (t : K) (k : Int)
  | deriv (k : Int)

def applyA (p : PPoly K) : POp K → PPoly K
  | .update bps rows nc => p.init bps rows nc
  | .eval t k => (p.evaluate t k).1
  | .evalHint t hint k => (p.evaluateHint t hint k).1
  | .segEval seg t k => (p.evalSegment seg t k).1
  | .deriv k => (p.derivative k).1

theorem evaluateHint_inv (p : PPoly K) (h : CacheInv p) (t : K) (hint k : Int) :
    CacheInv (p.evaluateHint t hint k).1 ∧ sameData p (p.evaluateHint t hint k).1 := by
  unfold PPoly.evaluateHint
  split
  · exact ⟨h, sameData_refl p⟩
  · exact ⟨(evalSegment_spec p h _ _ k).2.1, (evalSegment_spec p h _ _ k).2.2⟩

theorem derivative_inv (p : PPoly K) (h : CacheInv p) (k : Int) :
    CacheInv (p.derivative k).1 ∧ sameData p (p.derivative k).1 ∧ CacheInv (p.derivative k).2 := by
  unfold PPoly.derivative
  split
  · refine ⟨h, sameData_refl p, ⟨fun hh => by simp [PPoly.empty] at hh, fun hh => by simp [PPoly.empty] at hh, fun _ => rfl⟩⟩
  · split
    · exact ⟨h, sameData_refl p, init_inv _ _ _ _⟩
    · refine ⟨?_, ?_, init_inv _ _ _ _⟩
      · show CacheInv (if _ then p.ensureTable else p)
        split
        · exact (ensureTable_inv p h).1
        · exact h
      · show sameData p (if _ then p.ensureTable else p)
        split
        · exact (ensureTable_inv p h).2.1
        · exact sameData_refl p

/-- one step preserves the invariant; only `update` changes the data -/
theorem apply_inv (p : PPoly K) (h : CacheInv p) (op : POp K) : CacheInv (applyA p op) := by
  cases op with
  | update bps rows nc => exact init_inv p bps rows nc
  | eval t k => exact (evaluate_spec p h t k).2.1
  | evalHint t hint k => exact (evaluateHint_inv p h t hint k).1
  | segEval seg t k => exact (evalSegment_spec p h seg t k).2.1
  | deriv k => exact (derivative_inv p h k).1

def POp.isUpdate : POp K → Bool
  | .update .. => true
  | _ => false

theorem apply_data (p : PPoly K) (h : CacheInv p) (op : POp K) (hop : op.isUpdate = false) : sameData p (applyA p op) := by
  cases op with
  | update bps rows nc => simp [POp.isUpdate] at hop
  | eval t k => exact (evaluate_spec p h t k).2.2
  | evalHint t hint k => exact (evaluateHint_inv p h t hint k).2
  | segEval seg t k => exact (evalSegment_spec p h seg t k).2.2
  | deriv k => exact (derivative_inv p h k).2.1

def runA (p : PPoly K) : List (POp K) → PPoly K
  | [] => p
  | op :: ops => runA (applyA p op) ops

theorem run_inv (p : PPoly K) (h : CacheInv p) (ops : List (POp K)) : CacheInv (runA p ops) := by
  induction ops generalizing p with
  | nil => exact h
  | cons op ops ih => exact ih _ (apply_inv p h op)

theorem run_data (p : PPoly K) (h : CacheInv p) (ops : List (POp K)) (hops : ∀ op ∈ ops, op.isUpdate = false) :
    sameData p (runA p ops) := by
  induction ops generalizing p with
  | nil => exact sameData_refl p
  | cons op ops ih =>
    have h1 := apply_data p h op (hops op (by simp))
    exact sameData_trans h1 (ih _ (apply_inv p h op) (fun o ho => hops o (by simp [ho])))

/-- **C11**: take any object state, any history `pre`, then an update with new data, then any history `post` of
evaluations at arbitrary orders / hinted evaluations / per-segment evaluations / derivative constructions: a final
evaluation equals the cache-free evaluation of the *updated* data — nothing of what happened before or in between
can leak into it. -/
theorem eval_after_history (p0 : PPoly K) (h0 : CacheInv p0) (pre post : List (POp K))
    (bps : List K) (rows : List (Vec K)) (nc : Int) (hpost : ∀ op ∈ post, op.isUpdate = false) (t : K) (k : Int) :
    let fresh := (PPoly.empty p0.dim p0.fixedOrder : PPoly K).init bps rows nc
    let q := runA ((runA p0 pre).init bps rows nc) post
    (runA p0 pre).dim = p0.dim → (runA p0 pre).fixedOrder = p0.fixedOrder →
    (q.evaluate t k).2 = (fresh.evaluate t k).2 := by
  intro fresh q hdim hfo
  have hi := run_inv p0 h0 pre
  have hu := init_inv (runA p0 pre) bps rows nc
  have hq := run_inv _ hu post
  have hd := run_data _ hu post hpost
  -- the updated object and the fresh one carry the same data
  have hsame : sameData ((runA p0 pre).init bps rows nc) fresh :=
    init_sameData _ _ bps rows nc hdim hfo
  have hqf : sameData q fresh := sameData_trans ⟨hd.1.symm, hd.2.1.symm, hd.2.2.1.symm, hd.2.2.2.1.symm, hd.2.2.2.2.1.symm,
    hd.2.2.2.2.2.1.symm, hd.2.2.2.2.2.2.symm⟩ hsame
  rw [(evaluate_spec q hq t k).1, (evaluate_spec fresh (init_inv _ _ _ _) t k).1]
  simp only [hqf.1, hqf.2.2.2.2.2.1, findSegment_congr hqf, hqf.2.2.1, evalSegPure_congr hqf]

/-- the value of the plain evaluation as a function of the *data* only -/
def evalPure (p : PPoly K) (t : K) (k : Int) : Vec K :=
  if k ≥ (p.numCoeffs : Int) then vzero p.dim
  else evalSegPure p (p.findSegment t) (t - p.breakpoints.getD (p.findSegment t) (lit 0)) k

theorem evalPure_congr {p q : PPoly K} (h : sameData p q) (t : K) (k : Int) : evalPure p t k = evalPure q t k := by
  simp only [evalPure, evalSegPure_congr h, findSegment_congr h, h.1, h.2.2.2.2.2.1, h.2.2.1]

theorem evaluate_eq_pure (p : PPoly K) (h : CacheInv p) (t : K) (k : Int) : (p.evaluate t k).2 = evalPure p t k :=
  (evaluate_spec p h t k).1

/-- **batch = pointwise**, for every scalar type -/
theorem evaluateBatch_eq (p : PPoly K) (h : CacheInv p) (ts : List K) (k : Int) :
    (p.evaluateBatch ts k).2 = ts.map (fun t => (p.evaluate t k).2) := by
  unfold PPoly.evaluateBatch
  have gen : ∀ (l : List K) (q : PPoly K) (acc : List (Vec K)), CacheInv q → sameData p q →
      (l.foldl (fun (acc : PPoly K × List (Vec K)) t =>
        let (q, v) := acc.1.evaluate t k
        (q, acc.2 ++ [v])) (q, acc)).2 = acc ++ l.map (fun t => evalPure p t k) := by
    intro l
    induction l with
    | nil => intro q acc _ _; simp
    | cons t l ih =>
      intro q acc hq hpq
      obtain ⟨e1, e2, e3⟩ := evaluate_spec q hq t k
      simp only [List.foldl_cons, List.map_cons]
      have := ih (q.evaluate t k).1 (acc ++ [(q.evaluate t k).2]) e2 (sameData_trans hpq e3)
      rw [show (q.evaluate t k) = ((q.evaluate t k).1, (q.evaluate t k).2) from rfl]
      simp only []
      rw [this, evaluate_eq_pure q hq, ← evalPure_congr hpq]
      simp
  rw [gen ts p [] h (sameData_refl p)]
  simp only [List.nil_append]
  apply List.map_congr_left
  intro t _
  exact (evaluate_eq_pure p h t k).symm

end

/-- the IEEE-double instance: a reused `PPolyND<double>` object and a fresh one answer bit for bit alike -/
theorem eval_after_history_float (p0 : PPoly Float) (h0 : CacheInv p0) (pre post : List (POp Float))
    (bps : List Float) (rows : List (Vec Float)) (nc : Int) (hpost : ∀ op ∈ post, op.isUpdate = false) (t : Float) (k : Int)
    (hdim : (runA p0 pre).dim = p0.dim) (hfo : (runA p0 pre).fixedOrder = p0.fixedOrder) :
    ((runA ((runA p0 pre).init bps rows nc) post).evaluate t k).2
      = (((PPoly.empty p0.dim p0.fixedOrder : PPoly Float).init bps rows nc).evaluate t k).2 :=
  eval_after_history p0 h0 pre post bps rows nc hpost t k hdim hfo

/-- non-vacuity: the freshly constructed empty object satisfies the invariant -/
example : CacheInv (PPoly.empty 3 none : PPoly Float) :=
  ⟨fun h => by simp [PPoly.empty] at h, fun h => by simp [PPoly.empty] at h, fun _ => rfl⟩

end AnyNum
