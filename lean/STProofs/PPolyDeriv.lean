import STProofs.PPolyRoutes
import Mathlib.Data.Nat.Factorial.Basic
/-!
# C03 — the derivative trajectory: evaluating `derivative(k)` at order `j` is evaluating the original at order `k + j`

For a well-formed (successfully initialised, strictly increasing breakpoints) piecewise polynomial and every cache state,
`derivative(k)` is again well-formed with the same breakpoints, and all its evaluations are the higher-order evaluations
of the original: the falling-factorial factors compose, `(m+j)_j · (m+j+k)_k = (m+j+k)_{j+k}`.
-/
open ST

theorem factorAux_eq_desc (n k : Nat) (hk : k ≤ n) : factorAux n k = n.descFactorial k := by
  induction k with
  | zero => simp [factorAux]
  | succ k ih =>
    rw [factorAux, ih (by omega), Nat.descFactorial_succ, mul_comm]
    congr 1
    omega

theorem factorEntry_comp (m j k : Nat) :
    factorEntry (m + j) j * factorEntry (m + j + k) k = factorEntry (m + j + k) (j + k) := by
  simp only [factorEntry, show j ≤ m + j by omega, show k ≤ m + j + k by omega, show j + k ≤ m + j + k by omega, if_true]
  rw [factorAux_eq_desc _ _ (by omega), factorAux_eq_desc _ _ (by omega), factorAux_eq_desc _ _ (by omega)]
  have h1 := Nat.factorial_mul_descFactorial (show j ≤ m + j by omega)
  have h2 := Nat.factorial_mul_descFactorial (show k ≤ m + j + k by omega)
  have h3 := Nat.factorial_mul_descFactorial (show j + k ≤ m + j + k by omega)
  have e1 : m + j - j = m := by omega
  have e2 : m + j + k - k = m + j := by omega
  have e3 : m + j + k - (j + k) = m := by omega
  rw [e1] at h1; rw [e2] at h2; rw [e3] at h3
  have hm : 0 < m.factorial := Nat.factorial_pos m
  have hmj : 0 < (m + j).factorial := Nat.factorial_pos _
  apply Nat.eq_of_mul_eq_mul_left hm
  rw [h3, ← mul_assoc, h1, h2]

section
variable {K : Type} [Field K] [LinearOrder K] [FloorRing K]

/-- a successfully initialised object with strictly increasing breakpoints -/
structure WF (p : PPoly K) : Prop where
  bps : p.breakpoints.length = p.numSegments + 1
  ns : 1 ≤ p.numSegments
  nc : 1 ≤ p.numCoeffs
  cl : p.coeffs.length = p.numSegments
  fo : ∀ o, p.fixedOrder = some o → p.numCoeffs ≤ o
  sorted : Sorted p.breakpoints

theorem groupRows_flatMap {β : Type} (l : List β) (f : β → List (Vec K)) (m : Nat) (h : ∀ x ∈ l, (f x).length = m) :
    PPoly.groupRows l.length m (l.flatMap f) = l.map f := by
  induction l with
  | nil => simp [PPoly.groupRows]
  | cons a l ih =>
    have ha := h a (by simp)
    simp only [List.length_cons, PPoly.groupRows, List.flatMap_cons, List.map_cons]
    rw [List.take_append_of_le_length (by omega), List.take_of_length_le (by omega),
      List.drop_append_of_le_length (by omega), List.drop_of_length_le (by omega), List.nil_append,
      ih (fun x hx => h x (by simp [hx]))]

theorem init_ok (dim : Nat) (fo : Option Nat) (bps : List K) (rows : List (Vec K)) (nc : Nat)
    (h1 : 2 ≤ bps.length) (h2 : rows.length = (bps.length - 1) * nc) (h3 : ∀ o, fo = some o → 1 ≤ nc ∧ nc ≤ o) :
    PPoly.init (PPoly.empty dim fo) bps rows (nc : Int)
      = { dim := dim, fixedOrder := fo, breakpoints := bps, coeffs := PPoly.groupRows (bps.length - 1) nc rows,
          numSegments := bps.length - 1, numCoeffs := nc, initialized := true, derivCoeffs := [], derivReady := false,
          factorTable := [], factorReady := false } := by
  unfold PPoly.init
  have a1 : ¬ (bps.length < 2) := by omega
  have a2 : ¬ ((rows.length : Int) ≠ ((bps.length - 1 : Nat) : Int) * (nc : Int)) := by
    rw [h2]; push_cast; simp
  simp only [a1, if_false, a2]
  cases fo with
  | none => simp [PPoly.empty, PPoly.invalidate]
  | some o =>
    obtain ⟨b1, b2⟩ := h3 o rfl
    have c1 : ¬ ((nc : Int) ≤ 0) := by omega
    have c2 : ¬ ((nc : Int) > (o : Int)) := by omega
    simp [PPoly.empty, PPoly.invalidate, c1, c2]
    intro hz; omega

/-- the coefficient table of `derivative(k)` for `k < numCoeffs` -/
def dCoeffs (p : PPoly K) (k : Nat) : List (List (Vec K)) :=
  p.coeffs.map (fun seg => (List.range (p.numCoeffs - k)).map (fun i =>
    vscale (lit (factorEntry (i + k) k)) (seg.getD (i + k) [])))

theorem derivative_data (p : PPoly K) (hi : CacheInv p) (hw : WF p) (k : Nat) (hk : k < p.numCoeffs) :
    let q := (p.derivative (k : Int)).2
    q.breakpoints = p.breakpoints ∧ q.numSegments = p.numSegments ∧ q.numCoeffs = p.numCoeffs - k ∧ q.dim = p.dim ∧
    q.coeffs = dCoeffs p k := by
  intro q
  have hns : p.numSegments ≠ 0 := by have := hw.ns; omega
  have hkk : ¬ ((k : Int) ≥ (p.numCoeffs : Int)) := by omega
  -- the object after the optional table construction
  obtain ⟨p1, hp1⟩ : ∃ p1, p1 = (if (!p.usesStaticOnly && !decide (p.numCoeffs ≤ kStaticMax)) = true then p.ensureTable else p) :=
    ⟨_, rfl⟩
  have hp1i : CacheInv p1 ∧ sameData p p1 := by
    rw [hp1]; split
    · exact ⟨(ensureTable_inv p hi).1, (ensureTable_inv p hi).2.1⟩
    · exact ⟨hi, sameData_refl p⟩
  obtain ⟨hi1, hs1⟩ := hp1i
  have hnc1 : p1.numCoeffs = p.numCoeffs := hs1.2.2.2.2.2.1.symm
  have hco1 : p1.coeffs = p.coeffs := hs1.2.2.2.1.symm
  have hrows : p1.coeffs.flatMap (fun seg => (List.range (p.numCoeffs - k)).map (fun j =>
        vscale (lit ((p1.derivativeFactor (j + k) k).2)) (seg.getD (j + k) [])))
      = p.coeffs.flatMap (fun seg => (List.range (p.numCoeffs - k)).map (fun i =>
        vscale (lit (factorEntry (i + k) k)) (seg.getD (i + k) []))) := by
    rw [hco1]
    apply List.flatMap_congr
    intro seg _
    apply List.map_congr_left
    intro i hi'
    simp only [List.mem_range] at hi'
    rw [(derivativeFactor_spec p1 hi1 (i + k) k (by omega)).1]
  have hq : q = PPoly.init (PPoly.empty p.dim p.fixedOrder) p.breakpoints
      (p.coeffs.flatMap (fun seg => (List.range (p.numCoeffs - k)).map (fun i =>
        vscale (lit (factorEntry (i + k) k)) (seg.getD (i + k) [])))) ((p.numCoeffs - k : Nat) : Int) := by
    show (p.derivative (k : Int)).2 = _
    unfold PPoly.derivative
    simp only [hns, if_false, hkk, Int.toNat_natCast, ← hp1]
    rw [hrows]
  have hlen : (p.coeffs.flatMap (fun seg => (List.range (p.numCoeffs - k)).map (fun i =>
        vscale (lit (factorEntry (i + k) k)) (seg.getD (i + k) [])))).length = p.numSegments * (p.numCoeffs - k) := by
    rw [List.length_flatMap]
    simp only [List.length_map, List.length_range, List.map_const', List.sum_replicate, smul_eq_mul, hw.cl]
  rw [hq, init_ok p.dim p.fixedOrder p.breakpoints _ (p.numCoeffs - k) (by have := hw.bps; have := hw.ns; omega)
    (by rw [hlen, hw.bps]; simp) (by intro o ho; have := hw.fo o ho; omega)]
  refine ⟨rfl, by simp [hw.bps], rfl, rfl, ?_⟩
  simp only []
  rw [hw.bps, Nat.add_sub_cancel, ← hw.cl]
  exact groupRows_flatMap p.coeffs _ _ (by intro x _; simp)

theorem vscale_vscale (a b : K) (v : Vec K) : vscale a (vscale b v) = vscale (a * b) v := by
  simp [vscale, mul_assoc]

theorem findSegment_lt (p : PPoly K) (hw : WF p) (t : K) : p.findSegment t < p.numSegments := by
  rw [findSegment_spec p t hw.sorted hw.bps hw.ns]
  have := hw.bps; have := hw.ns
  simp only [specIdx]
  omega

theorem findSegment_data (p q : PPoly K) (hb : q.breakpoints = p.breakpoints) (hn : q.numSegments = p.numSegments) (t : K) :
    q.findSegment t = p.findSegment t := by
  simp only [PPoly.findSegment, hb, hn]

/-- rows of derivative `j` of `derivative(k)` = rows of derivative `k + j` of the original -/
theorem table_comp (p q : PPoly K) (k j s : Nat) (hk : k < p.numCoeffs) (hq1 : q.numCoeffs = p.numCoeffs - k)
    (hq2 : q.coeffs = dCoeffs p k) (hj : j < p.numCoeffs - k) (hs : s < p.coeffs.length) :
    ((derivTable q).getD j []).getD s [] = ((derivTable p).getD (k + j) []).getD s [] := by
  have hkj : k + j < p.numCoeffs := by omega
  have hjq : j < q.numCoeffs := by omega
  have hsq : s < q.coeffs.length := by rw [hq2]; simp [dCoeffs, hs]
  simp only [derivTable, List.getD_eq_getElem?_getD, List.getElem?_map, List.getElem?_range hjq, List.getElem?_range hkj,
    Option.map_some, Option.getD_some, List.getElem?_eq_getElem hs, List.getElem?_eq_getElem hsq]
  have hsegq : q.coeffs[s] = (List.range (p.numCoeffs - k)).map (fun i =>
      vscale (lit (factorEntry (i + k) k)) ((p.coeffs[s]).getD (i + k) [])) := by
    simp only [hq2, dCoeffs, List.getElem_map]
  rw [hq1, hsegq, show p.numCoeffs - k - j = p.numCoeffs - (k + j) by omega]
  apply List.map_congr_left
  intro m hm
  simp only [List.mem_range] at hm
  have hmj : m + j < p.numCoeffs - k := by omega
  simp only [List.getD_eq_getElem?_getD, List.getElem?_map, List.getElem?_range hmj, Option.map_some, Option.getD_some]
  rw [vscale_vscale, show m + j + k = m + (k + j) by omega]
  congr 1
  have := factorEntry_comp m j k
  rw [show m + j + k = m + (k + j) by omega, show j + k = k + j by omega] at this
  simp only [lit_eq, ← this]; push_cast; ring

theorem groupRows_replicate (n : Nat) (z : Vec K) : PPoly.groupRows n 1 (List.replicate n z) = List.replicate n [z] := by
  induction n with
  | zero => simp [PPoly.groupRows]
  | succ n ih => simp [PPoly.groupRows, List.replicate_succ, ih]

theorem vscale_vzero (c : K) (d : Nat) : vscale c (vzero d : Vec K) = vzero d := by
  simp [vscale, vzero, lit_eq]

theorem zero_obj_eval (p q : PPoly K) (hw : WF p) (t : K) (hb : q.breakpoints = p.breakpoints)
    (hn : q.numSegments = p.numSegments) (hc : q.numCoeffs = 1) (hd : q.dim = p.dim)
    (hco : q.coeffs = List.replicate p.numSegments [vzero p.dim]) (j : Nat) :
    evalPure q t (j : Int) = vzero p.dim := by
  have hsl := findSegment_lt p hw t
  simp only [evalPure, hc, hd]
  by_cases hj : j = 0
  · subst hj
    simp only [Nat.cast_zero, Nat.cast_one, show ¬ ((0 : Int) ≥ 1) by omega, if_false, evalSegPure, hc, hd,
      show ¬ (((0 : Int) ≥ 1) ∨ (0 : Int) < 0) by omega, Bool.or_eq_true, decide_eq_true_eq, Int.toNat_zero]
    rw [findSegment_data p q hb hn t]
    simp only [derivTable, hc, hco, List.range_one, List.map_cons, List.map_nil, List.getD_cons_zero, List.map_replicate]
    have hrep : ∀ (X : List (Vec K)), (List.replicate p.numSegments X).getD (p.findSegment t) [] = X := by
      intro X; simp [List.getD_eq_getElem?_getD, List.getElem?_replicate, hsl]
    rw [hrep]
    simp [PPoly.horner, vscale_vzero]
  · have c1 : ((j : Int) ≥ ((1 : Nat) : Int)) := by omega
    simp only [c1, if_true]

/-- **the derivative-trajectory route** -/
theorem derivative_route (p : PPoly K) (hi : CacheInv p) (hw : WF p) (k j : Nat) (t : K) :
    (((p.derivative (k : Int)).2).evaluate t (j : Int)).2 = (p.evaluate t ((k : Int) + (j : Int))).2 := by
  have hqi := (derivative_inv p hi (k : Int)).2.2
  rw [evaluate_eq_pure _ hqi, evaluate_eq_pure p hi]
  have hsl := findSegment_lt p hw t
  by_cases hk : k < p.numCoeffs
  · obtain ⟨q1, q2, q3, q4, q5⟩ := derivative_data p hi hw k hk
    have hfs := findSegment_data p _ q1 q2 t
    simp only [evalPure, q1, q3, q4, hfs]
    by_cases hj : j < p.numCoeffs - k
    · have c1 : ¬ ((j : Int) ≥ ((p.numCoeffs - k : Nat) : Int)) := by omega
      have c2 : ¬ ((k : Int) + (j : Int) ≥ (p.numCoeffs : Int)) := by omega
      simp only [c1, c2, if_false, evalSegPure, q3, q4]
      have d1 : ¬ (((j : Int) ≥ ((p.numCoeffs - k : Nat) : Int)) ∨ (j : Int) < 0) := by omega
      have d2 : ¬ (((k : Int) + (j : Int) ≥ (p.numCoeffs : Int)) ∨ (k : Int) + (j : Int) < 0) := by omega
      simp only [Bool.or_eq_true, decide_eq_true_eq, d1, d2, if_false, Int.toNat_natCast]
      rw [show ((k : Int) + (j : Int)).toNat = k + j by omega,
        table_comp p _ k j (p.findSegment t) hk q3 q5 hj (by rw [hw.cl]; exact hsl)]
      simp [show ¬ ((j : Int) < 0) by omega, show ¬ ((k : Int) + (j : Int) < 0) by omega]
    · have c1 : ((j : Int) ≥ ((p.numCoeffs - k : Nat) : Int)) := by omega
      have c2 : ((k : Int) + (j : Int) ≥ (p.numCoeffs : Int)) := by omega
      simp only [c1, c2, if_true]
  · -- `k ≥ numCoeffs`: the zero trajectory
    have hns : p.numSegments ≠ 0 := by have := hw.ns; omega
    have hkk : ((k : Int) ≥ (p.numCoeffs : Int)) := by omega
    have hq : (p.derivative (k : Int)).2 = PPoly.init (PPoly.empty p.dim p.fixedOrder) p.breakpoints
        (List.replicate p.numSegments (vzero p.dim)) ((1 : Nat) : Int) := by
      unfold PPoly.derivative; simp only [hns, if_false, hkk, if_true]; rfl
    rw [hq, init_ok p.dim p.fixedOrder p.breakpoints _ 1 (by have := hw.bps; have := hw.ns; omega)
      (by simp [hw.bps]) (by intro o ho; have := hw.fo o ho; have := hw.nc; omega)]
    have c2 : ((k : Int) + (j : Int) ≥ (p.numCoeffs : Int)) := by omega
    refine Eq.trans (zero_obj_eval p _ hw t ?_ ?_ ?_ ?_ ?_ j) ?_
    · rfl
    · simp [hw.bps]
    · rfl
    · rfl
    · simp [hw.bps, groupRows_replicate]
    · simp only [evalPure, c2, if_true]

end
