import STProofs.PPolyCache
import Mathlib.Data.List.Sort
/-!
# Segment lookup (C03): half-open intervals, clamping, and hint independence

For strictly increasing breakpoints `b₀ < … < bₙ` (n ≥ 1 segments) `findSegment t` is
`specIdx = min (#{i | bᵢ ≤ t} − 1) (n − 1)`: the piece whose half-open interval `[bᵢ, bᵢ₊₁)` contains `t`, the
first piece before `b₀`, the last piece from `bₙ` on.  Both code paths (linear scan below 32 segments, binary
search above) compute it, and the hinted lookup returns the same index for *every* hint value and leaves the
hint equal to it.
-/
open ST

section
variable {K : Type} [Field K] [LinearOrder K] [FloorRing K]

/-- number of breakpoints `≤ t` -/
def countLE (t : K) : List K → Nat
  | [] => 0
  | b :: rest => (if b ≤ t then 1 else 0) + countLE t rest

/-- the index the statement of C03 prescribes -/
def specIdx (bs : List K) (t : K) : Nat := min (countLE t bs - 1) (bs.length - 2)

abbrev Sorted (bs : List K) : Prop := bs.Pairwise (· < ·)

theorem countLE_le_length (t : K) (bs : List K) : countLE t bs ≤ bs.length := by
  induction bs with
  | nil => simp [countLE]
  | cons b rest ih => simp only [countLE, List.length_cons]; split <;> omega

theorem countLE_all_gt (t : K) (bs : List K) (h : ∀ b ∈ bs, t < b) : countLE t bs = 0 := by
  induction bs with
  | nil => rfl
  | cons b rest ih =>
    have hb : ¬ b ≤ t := not_le.mpr (h b (by simp))
    simp [countLE, hb, ih (fun x hx => h x (by simp [hx]))]

theorem countLE_all_le (t : K) (bs : List K) (h : ∀ b ∈ bs, b ≤ t) : countLE t bs = bs.length := by
  induction bs with
  | nil => rfl
  | cons b rest ih =>
    simp [countLE, h b (by simp), ih (fun x hx => h x (by simp [hx]))]; omega

theorem countLE_append (t : K) (xs ys : List K) : countLE t (xs ++ ys) = countLE t xs + countLE t ys := by
  induction xs with
  | nil => simp [countLE]
  | cons b rest ih => simp only [List.cons_append, countLE, ih]; omega

/-- `std::upper_bound` on a sorted range = number of elements `≤ t` -/
theorem upperBound_eq_countLE (t : K) (bs : List K) (hs : Sorted bs) : PPoly.upperBound t bs = countLE t bs := by
  induction bs with
  | nil => rfl
  | cons b rest ih =>
    replace hs := List.pairwise_cons.mp hs
    simp only [PPoly.upperBound, countLE, NumOrd.lt, decide_eq_true_eq]
    by_cases h : t < b
    · have : ¬ b ≤ t := not_le.mpr h
      simp only [h, if_true, this, if_false, zero_add]
      exact (countLE_all_gt t rest (fun x hx => lt_trans h (hs.1 x hx))).symm
    · have : b ≤ t := not_lt.mp h
      simp only [h, if_false, this, if_true, ih hs.2]

/-- the linear scan: index of the first breakpoint (after the first) that exceeds `t` -/
theorem scanLinear_eq (t : K) (i : Nat) (b : K) (rest : List K) (last : Nat) (hs : Sorted (b :: rest))
    (hex : ∃ x ∈ rest, t < x) : PPoly.scanLinear t i (b :: rest) last = i + countLE t rest := by
  induction rest generalizing i b with
  | nil => obtain ⟨x, hx, _⟩ := hex; simp at hx
  | cons b1 rest ih =>
    replace hs := List.pairwise_cons.mp hs
    have hstep : PPoly.scanLinear t i (b :: b1 :: rest) last
        = if NumOrd.lt t b1 = true then i else PPoly.scanLinear t (i + 1) (b1 :: rest) last := by
      rw [PPoly.scanLinear]
    rw [hstep]
    simp only [NumOrd.lt, decide_eq_true_eq, countLE]
    by_cases h : t < b1
    · have hn : ¬ b1 ≤ t := not_le.mpr h
      have hs2 := List.pairwise_cons.mp hs.2
      simp only [h, if_true, hn, if_false, zero_add]
      rw [countLE_all_gt t rest (fun x hx => lt_trans h (hs2.1 x hx))]; omega
    · have hle : b1 ≤ t := not_lt.mp h
      simp only [h, if_false, hle, if_true]
      have hex' : ∃ x ∈ rest, t < x := by
        obtain ⟨x, hx, hlt⟩ := hex
        rcases List.mem_cons.mp hx with rfl | hx'
        · exact absurd hlt h
        · exact ⟨x, hx', hlt⟩
      rw [ih (i + 1) b1 hs.2 hex']; omega

theorem sorted_head_le_all (b : K) (rest : List K) (hs : Sorted (b :: rest)) : ∀ x ∈ rest, b < x := by
  replace hs := List.pairwise_cons.mp hs; exact hs.1

theorem sorted_all_le_getLast (bs : List K) (hs : Sorted bs) (l : K) (hl : bs.getLast? = some l) : ∀ x ∈ bs, x ≤ l := by
  induction bs with
  | nil => simp
  | cons b rest ih =>
    intro x hx
    replace hs := List.pairwise_cons.mp hs
    cases rest with
    | nil =>
      simp at hl hx; rw [hx, hl]
    | cons b1 r2 =>
      have hl' : (b1 :: r2).getLast? = some l := by simpa [List.getLast?_cons_cons] using hl
      have hin : l ∈ b1 :: r2 := List.mem_of_getLast? hl'
      rcases List.mem_cons.mp hx with rfl | hx'
      · exact le_of_lt (hs.1 l hin)
      · exact ih hs.2 hl' x hx'

/-- **`findSegment` computes the prescribed index**, whichever search it uses -/
theorem findSegment_spec (p : PPoly K) (t : K) (hs : Sorted p.breakpoints)
    (hlen : p.breakpoints.length = p.numSegments + 1) (hn : 1 ≤ p.numSegments) :
    p.findSegment t = specIdx p.breakpoints t := by
  unfold PPoly.findSegment specIdx
  match hb : p.breakpoints, hlen with
  | b0 :: rest, hlen =>
    replace hs : Sorted (b0 :: rest) := hb ▸ hs
    have hrl : rest.length = p.numSegments := by simpa using hlen
    obtain ⟨bn, hbn⟩ : ∃ bn, (b0 :: rest).getLast? = some bn := ⟨_, List.getLast?_eq_some_getLast (by simp)⟩
    have hbn_rest : rest.getLast? = some bn := by
      cases rest with
      | nil => simp at hrl; omega
      | cons r1 r2 => simpa [List.getLast?_cons_cons] using hbn
    have hbn_mem : bn ∈ rest := List.mem_of_getLast? hbn_rest
    simp only [List.head?_cons, hbn]
    have hn0 : p.numSegments ≠ 0 := by omega
    simp only [hn0, if_false, NumOrd.le, decide_eq_true_eq, List.length_cons]
    by_cases h1 : t ≤ b0
    · simp only [h1, if_true]
      have : countLE t rest = 0 := countLE_all_gt t rest (fun x hx => lt_of_le_of_lt h1 (sorted_head_le_all b0 rest hs x hx))
      simp only [countLE, this]; split <;> omega
    · simp only [h1, if_false]
      have hb0 : b0 ≤ t := le_of_lt (not_le.mp h1)
      by_cases h2 : bn ≤ t
      · simp only [h2, if_true]
        have hall : ∀ x ∈ b0 :: rest, x ≤ t := fun x hx => le_trans (sorted_all_le_getLast _ hs bn hbn x hx) h2
        rw [countLE_all_le t _ hall]; simp only [List.length_cons]; omega
      · simp only [h2, if_false]
        have hlt : t < bn := not_le.mp h2
        have hcr : countLE t rest < rest.length := by
          -- the last breakpoint exceeds t
          obtain ⟨pre, hpre⟩ : ∃ pre, rest = pre ++ [bn] := by
            refine ⟨rest.dropLast, ?_⟩
            have := List.dropLast_append_getLast? bn hbn_rest
            exact this.symm
          rw [hpre, countLE_append]
          have : countLE t [bn] = 0 := by simp [countLE, not_le.mpr hlt]
          have := countLE_le_length t pre
          simp only [List.length_append, List.length_singleton]; omega
        have hc : countLE t (b0 :: rest) = 1 + countLE t rest := by simp [countLE, hb0]
        split
        · rw [scanLinear_eq t 0 b0 rest _ hs ⟨bn, hbn_mem, hlt⟩, hc]; omega
        · rw [upperBound_eq_countLE t _ hs, hc]; omega

/-- the prescribed index is the piece whose half-open interval contains `t` -/
theorem specIdx_of_interval (bs : List K) (t : K) (hs : Sorted bs) (idx : Nat) (bi bi1 : K) (rest : List K)
    (hd : bs.drop idx = bi :: bi1 :: rest) (h1 : bi ≤ t) (h2 : t < bi1) : specIdx bs t = idx := by
  have hsplit : bs = bs.take idx ++ (bi :: bi1 :: rest) := by rw [← hd, List.take_append_drop]
  have hlen : idx + 2 ≤ bs.length := by
    have := congrArg List.length hd
    simp only [List.length_drop, List.length_cons] at this; omega
  have htake : ∀ x ∈ bs.take idx, x ≤ t := by
    intro x hx
    rw [hsplit] at hs
    have := (List.pairwise_append.mp hs).2.2 x (by simpa using hx) bi (by simp)
    exact le_trans (le_of_lt this) h1
  have hrest : ∀ x ∈ rest, t < x := by
    intro x hx
    rw [hsplit] at hs
    have h3 := List.pairwise_cons.mp (List.pairwise_append.mp hs).2.1
    have h4 := List.pairwise_cons.mp h3.2
    exact lt_trans h2 (h4.1 x hx)
  unfold specIdx
  rw [hsplit, countLE_append, countLE_all_le t _ htake]
  simp only [countLE, h1, if_true, not_le.mpr h2, if_false, countLE_all_gt t rest hrest]
  simp only [List.length_append, List.length_take, List.length_cons]
  omega

/-- **the hint never matters**: for every hint value (valid, stale, negative, too large) the hinted lookup returns the
same index as the plain one and leaves the hint equal to it -/
theorem findSegmentHint_eq (p : PPoly K) (t : K) (hint : Int) (hs : Sorted p.breakpoints)
    (hlen : p.breakpoints.length = p.numSegments + 1) (hn : 1 ≤ p.numSegments) :
    (p.findSegmentHint t hint).1 = p.findSegment t ∧ (p.findSegmentHint t hint).2 = (p.findSegment t : Int) := by
  have hspec := findSegment_spec p t hs hlen hn
  unfold PPoly.findSegmentHint
  by_cases hr : (decide (0 ≤ hint) && decide (hint < (p.numSegments : Int))) = true
  · simp only [hr, if_true]
    simp only [Bool.and_eq_true, decide_eq_true_eq] at hr
    have hidx : hint.toNat + 2 ≤ p.breakpoints.length := by omega
    obtain ⟨bi, bi1, rest, hd⟩ : ∃ bi bi1 rest, p.breakpoints.drop hint.toNat = bi :: bi1 :: rest := by
      match hdd : p.breakpoints.drop hint.toNat with
      | [] => have := congrArg List.length hdd; simp at this; omega
      | [_] => have := congrArg List.length hdd; simp at this; omega
      | a :: b :: c => exact ⟨a, b, c, rfl⟩
    simp only [hd, NumOrd.le, NumOrd.lt, Bool.and_eq_true, decide_eq_true_eq]
    by_cases hin : bi ≤ t ∧ t < bi1
    · simp only [hin, and_self, if_true]
      have := specIdx_of_interval p.breakpoints t hs hint.toNat bi bi1 rest hd hin.1 hin.2
      rw [hspec, this]
      exact ⟨rfl, by omega⟩
    · simp only [hin, if_false]
      by_cases hnx : hint.toNat + 1 < p.numSegments
      · simp only [hnx, if_true]
        cases rest with
        | nil => simp
        | cons bi2 r2 =>
          by_cases hin2 : bi1 ≤ t ∧ t < bi2
          · simp only [hin2, and_self, if_true]
            have hd2 : p.breakpoints.drop (hint.toNat + 1) = bi1 :: bi2 :: r2 := by
              rw [← List.drop_drop, hd]; rfl
            have := specIdx_of_interval p.breakpoints t hs (hint.toNat + 1) bi1 bi2 r2 hd2 hin2.1 hin2.2
            rw [hspec, this]
            exact ⟨rfl, by omega⟩
          · simp only [hin2, if_false]; simp
      · simp only [hnx, if_false]; simp
  · simp only [hr]; simp

/-- the clamped/half-open characterisation of the prescribed index -/
theorem specIdx_char (bs : List K) (t : K) (hs : Sorted bs) (n : Nat) (hlen : bs.length = n + 1) (hn : 1 ≤ n) :
    let i := specIdx bs t
    i ≤ n - 1 ∧
    (t < bs.headD 0 → i = 0) ∧
    (bs.getLastD 0 ≤ t → i = n - 1) ∧
    (∀ j bj bj1 rest, bs.drop j = bj :: bj1 :: rest → bj ≤ t → t < bj1 → i = j) := by
  intro i
  refine ⟨?_, ?_, ?_, ?_⟩
  · simp only [i, specIdx]; omega
  · intro h
    obtain ⟨b0, rest, rfl⟩ : ∃ b0 rest, bs = b0 :: rest := by
      cases bs with
      | nil => simp at hlen
      | cons a l => exact ⟨a, l, rfl⟩
    simp only [List.headD_cons] at h
    have : countLE t (b0 :: rest) = 0 := by
      apply countLE_all_gt
      intro x hx
      rcases List.mem_cons.mp hx with rfl | hx'
      · exact h
      · exact lt_trans h (sorted_head_le_all b0 rest hs x hx')
    simp [i, specIdx, this]
  · intro h
    have hne : bs ≠ [] := by intro he; simp [he] at hlen
    have hl : bs.getLast? = some (bs.getLastD 0) := by
      rw [List.getLastD_eq_getLast?, List.getLast?_eq_some_getLast hne]; simp
    have hall : ∀ x ∈ bs, x ≤ t := fun x hx => le_trans (sorted_all_le_getLast bs hs _ hl x hx) h
    simp only [i, specIdx, countLE_all_le t bs hall]; omega
  · intro j bj bj1 rest hd h1 h2
    exact specIdx_of_interval bs t hs j bj bj1 rest hd h1 h2

end
