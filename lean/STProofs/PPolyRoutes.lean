import STProofs.PPolyLookup
/-!
# C03 — route independence: hinted = plain, batch = pointwise (every history of cached state)

Under the cache invariant (`CacheInv`, established by `init` and preserved by every operation) and strictly increasing
breakpoints:

* `evaluateHint_eq` : the hinted evaluation returns the same value as the plain one for *every* hint, and leaves the hint
  equal to the index of the piece used whenever `k < numCoeffs` (and untouched otherwise);
* `evaluateBatch_eq` : the batch overload returns exactly the list of pointwise evaluations, whatever cache state the
  earlier elements of the batch left behind.
-/
open ST

section
variable {K : Type} [Field K] [LinearOrder K] [FloorRing K]

/-- the value of the plain evaluation as a function of the *data* only -/
noncomputable def evalPure (p : PPoly K) (t : K) (k : Int) : Vec K :=
  if k ≥ (p.numCoeffs : Int) then vzero p.dim
  else evalSegPure p (p.findSegment t) (t - p.breakpoints.getD (p.findSegment t) (lit 0)) k

theorem evalPure_congr {p q : PPoly K} (h : sameData p q) (t : K) (k : Int) : evalPure p t k = evalPure q t k := by
  simp only [evalPure, evalSegPure_congr h, findSegment_congr h, h.1, h.2.2.2.2.2.1, h.2.2.1]

theorem evaluate_eq_pure (p : PPoly K) (h : CacheInv p) (t : K) (k : Int) : (p.evaluate t k).2 = evalPure p t k :=
  (evaluate_spec p h t k).1

/-- **hinted = plain**, for every hint value -/
theorem evaluateHint_eq (p : PPoly K) (h : CacheInv p) (t : K) (hint k : Int) (hs : Sorted p.breakpoints)
    (hlen : p.breakpoints.length = p.numSegments + 1) (hn : 1 ≤ p.numSegments) :
    (p.evaluateHint t hint k).2.1 = (p.evaluate t k).2 ∧
    (p.evaluateHint t hint k).2.2 = (if k ≥ (p.numCoeffs : Int) then hint else (p.findSegment t : Int)) := by
  obtain ⟨h1, h2⟩ := findSegmentHint_eq p t hint hs hlen hn
  unfold PPoly.evaluateHint PPoly.evaluate
  split
  · exact ⟨rfl, rfl⟩
  · simp only []
    rw [show (p.findSegmentHint t hint) = ((p.findSegmentHint t hint).1, (p.findSegmentHint t hint).2) from rfl]
    simp only [h1, h2]
    exact ⟨trivial, trivial⟩

/-- **batch = pointwise** -/
theorem evaluateBatch_eq (p : PPoly K) (h : CacheInv p) (ts : List K) (k : Int) :
    (p.evaluateBatch ts k).2 = ts.map (fun t => (p.evaluate t k).2) := by
  unfold PPoly.evaluateBatch
  have gen : ∀ (l : List K) (q : PPoly K) (acc : List (Vec K)), CacheInv q → sameData p q →
      (l.foldl (fun (acc : PPoly K × List (Vec K)) t =>
        let (q, v) := acc.1.evaluate t k
        (q, acc.2 ++ [v])) (q, acc)).2 = acc ++ l.map (fun t => evalPure p t k) := by
    intro l
    induction l with
    | nil => intro q acc _ _; simp
    | cons t l ih =>
      intro q acc hq hpq
      obtain ⟨e1, e2, e3⟩ := evaluate_spec q hq t k
      simp only [List.foldl_cons, List.map_cons]
      have := ih (q.evaluate t k).1 (acc ++ [(q.evaluate t k).2]) e2 (sameData_trans hpq e3)
      rw [show (q.evaluate t k) = ((q.evaluate t k).1, (q.evaluate t k).2) from rfl]
      simp only []
      rw [this, evaluate_eq_pure q hq, ← evalPure_congr hpq]
      simp
  rw [gen ts p [] h (sameData_refl p)]
  simp only [List.nil_append]
  apply List.map_congr_left
  intro t _
  exact (evaluate_eq_pure p h t k).symm

end
