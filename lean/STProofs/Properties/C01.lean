import STProofs.CubicKKT
import STProofs.Hermite
import STProofs.TimeForms
import STProofs.QuinticUnique
import STProofs.SepticUnique
import STProofs.Trajectory
/-!
# C01 — interpolation, boundary states (property theorems)

Cubic: `cubic_build_spec` (every N ≥ 1, every positive duration vector, unconditional: all pivots are proved
positive).  Quintic / septic interpolation and boundary states: `quintic_build_hermite`, `septic_build_hermite` (closure
identities; the solvability side condition is discharged by the pivot theorems `QuinticPiv/SepticPiv.detOK_of_pos`).
Time specification: `buildNDtp_cumulative` (absolute time points ≡ durations + start time), `cumulative_last`,
`cumulative_length` (knot-time bookkeeping).

End to end, on the object the user queries: `Traj.traj_eval` — the trajectory a D-dimensional spline publishes
(`initializePPoly` on the cumulative times and the stacked blocks, then `findSegment` + Horner evaluation) evaluates at any
time `t`, coordinate by coordinate, to the polynomial of the segment containing `t` at local time `t − t_i`; and
`Traj.traj_at_knot` — it passes through waypoint `i` at knot time `i`, for every order, dimension, N ≥ 1 and all positive
durations (`specIdx_knot`, `specIdx_last`, `colOf_interp`); `Traj.traj_eval_k` — the same for every derivative order
(`evaluate(t, k)` is the `k`-th derivative of that polynomial); `Traj.traj_boundary` — the derivatives `1 … s−1` of the
published trajectory at the first / last knot are the start / end boundary states (velocity; acceleration for quintic and
septic; jerk for septic).
-/
open ST ST.Cubic

/-- C01 (cubic) restated: the published pieces interpolate both waypoints of every segment, are C¹/C² and honour
both boundary velocities. -/
theorem C01_cubic {K : Type} [Field K] [LinearOrder K] [IsStrictOrderedRing K]
    (v0 vn : K) (h P : List K) (hp : PosList h) (hne : h ≠ []) (hlen : P.length = h.length + 1) :
    CubicSpec vn h P (build h P v0 vn) ∧ ∀ p ps, build h P v0 vn = p :: ps → ev1 p 0 = v0 :=
  cubic_build_spec v0 vn h P hp hne hlen

/-- non-vacuity: a concrete 3-segment problem meets every hypothesis -/
example : PosList ([1, 1/2, 2] : List ℚ) ∧ ([1, 1/2, 2] : List ℚ) ≠ [] ∧ ([0, 1, 3, 4] : List ℚ).length = ([1, 1/2, 2] : List ℚ).length + 1 := by
  refine ⟨⟨by norm_num, by norm_num, by norm_num, trivial⟩, by simp, by simp⟩
