import STProofs.CubicKKT
import STProofs.QuinticKKT
import STProofs.SepticKKT
import STProofs.EnergyIntegral
import STProofs.CubicMinimal
import STProofs.QuinticMinimal
import STProofs.SepticMinimal
import STProofs.CubicUnique
import Mathlib.Analysis.Calculus.ContDiff.Deriv
/-!
# C02 — minimum acceleration / jerk / snap interpolant (property theorems, every N, positive durations)

All three parts of the property are theorems:

* **optimality conditions**: interpolation, C¹…C^{s−1} and the boundary states (`cubic_build_spec`,
  `quintic_build_hermite`, `septic_build_hermite`) and continuity of the derivatives s…2s−2 at every interior knot
  (`cubic_build_spec`, `QuinticPiv.quintic_KKT`, `SepticPiv.septic_KKT`) — unconditionally, because no pivot of the block
  elimination vanishes (`pivok_cubic`, `QuinticPiv.detOK_of_pos`, `SepticPiv.detOK_of_pos`);
* **uniqueness**: any knot derivatives whose Hermite closure satisfies the optimality conditions are the computed ones
  (`CubicU.cubic_unique`, `QuinticPiv.quintic_unique`, `SepticPiv.septic_unique`);
* **minimality among all sufficiently smooth curves**: `C02_minimiser_cubic` (for `C²` competitors, stated with
  `ContDiff` / `deriv`), `CubicMin.cubic_minimal`, `QuinticMin.quintic_minimal`, `SepticMin.septic_minimal` (competitor
  given by its derivative chain with a continuous top derivative).
-/
open ST

theorem thru_of_getD (g : ℝ → ℝ) (a : ℝ) (h P : List ℝ) (hP : P.length = h.length + 1)
    (hk : ∀ i, i ≤ h.length → g ((cumulative a h).getD i 0) = P.getD i 0) : CubicMin.Thru g a h P := by
  induction h generalizing a P with
  | nil =>
    match P, hP with
    | [p], _ => simpa [CubicMin.Thru, cumulative] using hk 0 (le_refl _)
  | cons x xs ih =>
    match P, hP with
    | p0 :: p1 :: ps, hP =>
      refine ⟨by simpa [cumulative] using hk 0 (Nat.zero_le _), ?_⟩
      apply ih (a + x) (p1 :: ps) (by simpa using hP)
      intro i hi
      have := hk (i + 1) (by simp only [List.length_cons]; omega)
      simpa [cumulative] using this

/-- **the full variational statement (cubic)**: among all C² curves through the same waypoints at the same knot times
with the same boundary velocities, the built spline has the least ∫ (second derivative)² — the left-hand side is the
reported energy (`cubic_energy_total`: it *is* the integral of the squared second derivative of the built pieces). -/
theorem C02_minimiser_cubic (h P : List ℝ) (v0 vn : ℝ) (hpos : PosList h) (hne : h ≠ []) (hP : P.length = h.length + 1)
    (g : ℝ → ℝ) (hg : ContDiff ℝ 2 g)
    (hk : ∀ i, i ≤ h.length → g ((cumulative (0:ℝ) h).getD i 0) = P.getD i 0)
    (hv0 : deriv g 0 = v0) (hvn : deriv g h.sum = vn) :
    Cubic.energy h (Cubic.build h P v0 vn) ≤ ∫ t in (0:ℝ)..h.sum, (deriv (deriv g) t) ^ 2 := by
  have h2 : ContDiff ℝ (1 + 1) g := by rw [one_add_one_eq_two]; exact hg
  obtain ⟨hd, -, h1⟩ := contDiff_succ_iff_deriv.mp h2
  have h1' : ContDiff ℝ (0 + 1) (deriv g) := by rw [zero_add]; exact h1
  obtain ⟨hd1, -, h0⟩ := contDiff_succ_iff_deriv.mp h1'
  have comp : CubicMin.Comp g (deriv g) (deriv (deriv g)) :=
    ⟨fun t => (hd t).hasDerivAt, fun t => (hd1 t).hasDerivAt, h0.continuous⟩
  have := CubicMin.cubic_minimal h P v0 vn hpos hne hP g (deriv g) (deriv (deriv g)) comp 0
    (thru_of_getD g 0 h P hP hk) hv0 (by simpa using hvn)
  simpa using this

theorem C02_cubic_partial {K : Type} [Field K] [LinearOrder K] [IsStrictOrderedRing K]
    (v0 vn : K) (h P : List K) (hp : PosList h) (hne : h ≠ []) (hlen : P.length = h.length + 1) :
    CubicSpec vn h P (Cubic.build h P v0 vn) ∧ ∀ p ps, Cubic.build h P v0 vn = p :: ps → ev1 p 0 = v0 :=
  cubic_build_spec v0 vn h P hp hne hlen

/-- quintic: optimality conditions, unconditional -/
theorem C02_quintic_KKT {K : Type} [Field K] [LinearOrder K] [IsStrictOrderedRing K]
    (hs Ps : List K) (bL bR : V2 K) (hpos : ∀ h ∈ hs, 0 < h) (hP : Ps.length = hs.length + 1) :
    QuinticK.JumpFree34 hs (Quintic.build hs Ps bL bR) :=
  QuinticPiv.quintic_KKT hs Ps bL bR hpos hP

/-- septic: optimality conditions, unconditional -/
theorem C02_septic_KKT {K : Type} [Field K] [LinearOrder K] [IsStrictOrderedRing K]
    (hs Ps : List K) (bL bR : V3 K) (hpos : ∀ h ∈ hs, 0 < h) (hP : Ps.length = hs.length + 1) :
    SepticK.JumpFree456 hs (Septic.build hs Ps bL bR) :=
  SepticPiv.septic_KKT hs Ps bL bR hpos hP

/-- non-vacuity (minimality): the straight line through collinear waypoints is a competitor of the cubic theorem -/
example : CubicMin.Comp (fun t => 2 * t) (fun _ => 2) (fun _ => 0) ∧
    CubicMin.Thru (fun t => 2 * t) 0 [1, 2] [0, 2, 6] := by
  refine ⟨⟨fun t => by simpa using (hasDerivAt_id t).const_mul (2:ℝ), fun t => hasDerivAt_const t (2:ℝ),
    continuous_const⟩, ?_⟩
  simp only [CubicMin.Thru]
  norm_num

/-- non-vacuity of the positivity hypothesis -/
example : ∀ h ∈ ([1, 2, 1/2] : List ℚ), 0 < h := by
  intro h hh; simp at hh; rcases hh with rfl | rfl | rfl <;> norm_num
