import STProofs.CubicKKT
import STProofs.QuinticKKT
import STProofs.SepticKKT
import STProofs.EnergyIntegral
import STProofs.CubicMinimal
import STProofs.QuinticMinimal
import STProofs.SepticMinimal
import STProofs.CubicUnique
import Mathlib.Analysis.Calculus.ContDiff.Deriv
import STProofs.Structure
import Mathlib.Algebra.BigOperators.Intervals
/-!
# C02 — minimum acceleration / jerk / snap interpolant (property theorems, every N, positive durations)

All three parts of the property are theorems:

* **optimality conditions**: interpolation, C¹…C^{s−1} and the boundary states (`cubic_build_spec`,
  `quintic_build_hermite`, `septic_build_hermite`) and continuity of the derivatives s…2s−2 at every interior knot
  (`cubic_build_spec`, `QuinticPiv.quintic_KKT`, `SepticPiv.septic_KKT`) — unconditionally, because no pivot of the block
  elimination vanishes (`pivok_cubic`, `QuinticPiv.detOK_of_pos`, `SepticPiv.detOK_of_pos`);
* **uniqueness**: any knot derivatives whose Hermite closure satisfies the optimality conditions are the computed ones
  (`CubicU.cubic_unique`, `QuinticPiv.quintic_unique`, `SepticPiv.septic_unique`);
* **minimality among all sufficiently smooth curves**: `C02_minimiser_cubic` (for `C²` competitors, stated with
  `ContDiff` / `deriv`), `CubicMin.cubic_minimal`, `QuinticMin.quintic_minimal`, `SepticMin.septic_minimal` (competitor
  given by its derivative chain with a continuous top derivative).
-/
open ST

theorem thru_of_getD (g : ℝ → ℝ) (a : ℝ) (h P : List ℝ) (hP : P.length = h.length + 1)
    (hk : ∀ i, i ≤ h.length → g ((cumulative a h).getD i 0) = P.getD i 0) : CubicMin.Thru g a h P := by
  induction h generalizing a P with
  | nil =>
    match P, hP with
    | [p], _ => simpa [CubicMin.Thru, cumulative] using hk 0 (le_refl _)
  | cons x xs ih =>
    match P, hP with
    | p0 :: p1 :: ps, hP =>
      refine ⟨by simpa [cumulative] using hk 0 (Nat.zero_le _), ?_⟩
      apply ih (a + x) (p1 :: ps) (by simpa using hP)
      intro i hi
      have := hk (i + 1) (by simp only [List.length_cons]; omega)
      simpa [cumulative] using this

/-- **the full variational statement (cubic)**: among all C² curves through the same waypoints at the same knot times
with the same boundary velocities, the built spline has the least ∫ (second derivative)² — the left-hand side is the
reported energy (`cubic_energy_total`: it *is* the integral of the squared second derivative of the built pieces). -/
theorem C02_minimiser_cubic (h P : List ℝ) (v0 vn : ℝ) (hpos : PosList h) (hne : h ≠ []) (hP : P.length = h.length + 1)
    (g : ℝ → ℝ) (hg : ContDiff ℝ 2 g)
    (hk : ∀ i, i ≤ h.length → g ((cumulative (0:ℝ) h).getD i 0) = P.getD i 0)
    (hv0 : deriv g 0 = v0) (hvn : deriv g h.sum = vn) :
    Cubic.energy h (Cubic.build h P v0 vn) ≤ ∫ t in (0:ℝ)..h.sum, (deriv (deriv g) t) ^ 2 := by
  have h2 : ContDiff ℝ (1 + 1) g := by rw [one_add_one_eq_two]; exact hg
  obtain ⟨hd, -, h1⟩ := contDiff_succ_iff_deriv.mp h2
  have h1' : ContDiff ℝ (0 + 1) (deriv g) := by rw [zero_add]; exact h1
  obtain ⟨hd1, -, h0⟩ := contDiff_succ_iff_deriv.mp h1'
  have comp : CubicMin.Comp g (deriv g) (deriv (deriv g)) :=
    ⟨fun t => (hd t).hasDerivAt, fun t => (hd1 t).hasDerivAt, h0.continuous⟩
  have := CubicMin.cubic_minimal h P v0 vn hpos hne hP g (deriv g) (deriv (deriv g)) comp 0
    (thru_of_getD g 0 h P hP hk) hv0 (by simpa using hvn)
  simpa using this

/-- **the full variational statement (quintic)**: among all C³ curves through the same waypoints at the same knot times with
the same boundary velocities and accelerations, the built spline has the least ∫ (third derivative)² -/
theorem C02_minimiser_quintic (h P : List ℝ) (bL bR : V2 ℝ) (hpos : ∀ x ∈ h, 0 < x) (hne : h ≠ [])
    (hP : P.length = h.length + 1) (g : ℝ → ℝ) (hg : ContDiff ℝ 3 g)
    (hk : ∀ i, i ≤ h.length → g ((cumulative (0:ℝ) h).getD i 0) = P.getD i 0)
    (hv0 : deriv g 0 = bL.x) (ha0 : deriv (deriv g) 0 = bL.y)
    (hvn : deriv g h.sum = bR.x) (han : deriv (deriv g) h.sum = bR.y) :
    Quintic.energy h (Quintic.build h P bL bR) ≤ ∫ t in (0:ℝ)..h.sum, (deriv (deriv (deriv g)) t) ^ 2 := by
  have h3 : ContDiff ℝ (2 + 1) g := by norm_num; exact hg
  obtain ⟨hd, -, h2⟩ := contDiff_succ_iff_deriv.mp h3
  have h2' : ContDiff ℝ (1 + 1) (deriv g) := by rw [one_add_one_eq_two]; exact h2
  obtain ⟨hd1, -, h1⟩ := contDiff_succ_iff_deriv.mp h2'
  have h1' : ContDiff ℝ (0 + 1) (deriv (deriv g)) := by rw [zero_add]; exact h1
  obtain ⟨hd2, -, h0⟩ := contDiff_succ_iff_deriv.mp h1'
  have comp : QuinticMin.Comp g (deriv g) (deriv (deriv g)) (deriv (deriv (deriv g))) :=
    ⟨fun t => (hd t).hasDerivAt, fun t => (hd1 t).hasDerivAt, fun t => (hd2 t).hasDerivAt, h0.continuous⟩
  have := QuinticMin.quintic_minimal h P bL bR hpos hne hP g _ _ _ comp 0
    (thru_of_getD g 0 h P hP hk) hv0 ha0 (by simpa using hvn) (by simpa using han)
  simpa using this

/-- **the full variational statement (septic)**: among all C⁴ curves through the same waypoints at the same knot times with
the same boundary velocities, accelerations and jerks, the built spline has the least ∫ (fourth derivative)² -/
theorem C02_minimiser_septic (h P : List ℝ) (bL bR : V3 ℝ) (hpos : ∀ x ∈ h, 0 < x) (hne : h ≠ [])
    (hP : P.length = h.length + 1) (g : ℝ → ℝ) (hg : ContDiff ℝ 4 g)
    (hk : ∀ i, i ≤ h.length → g ((cumulative (0:ℝ) h).getD i 0) = P.getD i 0)
    (hv0 : deriv g 0 = bL.x) (ha0 : deriv (deriv g) 0 = bL.y) (hj0 : deriv (deriv (deriv g)) 0 = bL.z)
    (hvn : deriv g h.sum = bR.x) (han : deriv (deriv g) h.sum = bR.y) (hjn : deriv (deriv (deriv g)) h.sum = bR.z) :
    Septic.energy h (Septic.build h P bL bR) ≤ ∫ t in (0:ℝ)..h.sum, (deriv (deriv (deriv (deriv g))) t) ^ 2 := by
  have h4 : ContDiff ℝ (3 + 1) g := by norm_num; exact hg
  obtain ⟨hd, -, h3⟩ := contDiff_succ_iff_deriv.mp h4
  have h3' : ContDiff ℝ (2 + 1) (deriv g) := by norm_num; exact h3
  obtain ⟨hd1, -, h2⟩ := contDiff_succ_iff_deriv.mp h3'
  have h2' : ContDiff ℝ (1 + 1) (deriv (deriv g)) := by rw [one_add_one_eq_two]; exact h2
  obtain ⟨hd2, -, h1⟩ := contDiff_succ_iff_deriv.mp h2'
  have h1' : ContDiff ℝ (0 + 1) (deriv (deriv (deriv g))) := by rw [zero_add]; exact h1
  obtain ⟨hd3, -, h0⟩ := contDiff_succ_iff_deriv.mp h1'
  have comp : SepticMin.Comp g (deriv g) (deriv (deriv g)) (deriv (deriv (deriv g))) (deriv (deriv (deriv (deriv g)))) :=
    ⟨fun t => (hd t).hasDerivAt, fun t => (hd1 t).hasDerivAt, fun t => (hd2 t).hasDerivAt, fun t => (hd3 t).hasDerivAt,
      h0.continuous⟩
  have := SepticMin.septic_minimal h P bL bR hpos hne hP g _ _ _ _ comp 0
    (thru_of_getD g 0 h P hP hk) hv0 ha0 hj0 (by simpa using hvn) (by simpa using han) (by simpa using hjn)
  simpa using this

theorem C02_cubic_partial {K : Type} [Field K] [LinearOrder K] [IsStrictOrderedRing K]
    (v0 vn : K) (h P : List K) (hp : PosList h) (hne : h ≠ []) (hlen : P.length = h.length + 1) :
    CubicSpec vn h P (Cubic.build h P v0 vn) ∧ ∀ p ps, Cubic.build h P v0 vn = p :: ps → ev1 p 0 = v0 :=
  cubic_build_spec v0 vn h P hp hne hlen

/-- quintic: optimality conditions, unconditional -/
theorem C02_quintic_KKT {K : Type} [Field K] [LinearOrder K] [IsStrictOrderedRing K]
    (hs Ps : List K) (bL bR : V2 K) (hpos : ∀ h ∈ hs, 0 < h) (hP : Ps.length = hs.length + 1) :
    QuinticK.JumpFree34 hs (Quintic.build hs Ps bL bR) :=
  QuinticPiv.quintic_KKT hs Ps bL bR hpos hP

/-- septic: optimality conditions, unconditional -/
theorem C02_septic_KKT {K : Type} [Field K] [LinearOrder K] [IsStrictOrderedRing K]
    (hs Ps : List K) (bL bR : V3 K) (hpos : ∀ h ∈ hs, 0 < h) (hP : Ps.length = hs.length + 1) :
    SepticK.JumpFree456 hs (Septic.build hs Ps bL bR) :=
  SepticPiv.septic_KKT hs Ps bL bR hpos hP

/-- non-vacuity (minimality): the straight line through collinear waypoints is a competitor of the cubic theorem -/
example : CubicMin.Comp (fun t => 2 * t) (fun _ => 2) (fun _ => 0) ∧
    CubicMin.Thru (fun t => 2 * t) 0 [1, 2] [0, 2, 6] := by
  refine ⟨⟨fun t => by simpa using (hasDerivAt_id t).const_mul (2:ℝ), fun t => hasDerivAt_const t (2:ℝ),
    continuous_const⟩, ?_⟩
  simp only [CubicMin.Thru]
  norm_num

/-- non-vacuity of the positivity hypothesis -/
example : ∀ h ∈ ([1, 2, 1/2] : List ℚ), 0 < h := by
  intro h hh; simp at hh; rcases hh with rfl | rfl | rfl <;> norm_num

/-! ### D dimensions: the object the user holds

The energy the D-dimensional object reports is the sum over coordinates of the 1-D energies (`energy_is_sum`, C13), and each
coordinate is the 1-D minimiser; hence for every D-tuple of competitors through the same waypoints / knot times / boundary
states the reported energy is at most the sum of their energies ∑ⱼ ∫ (gⱼ⁽ˢ⁾)². -/
open scoped BigOperators

namespace MinimalND

theorem stsum_range (d : Nat) (F : Nat → ℝ) : ST.sum ((List.range d).map F) = ∑ j ∈ Finset.range d, F j := by
  have h : ∀ l : List ℝ, ST.sum l = l.sum := by
    intro l; induction l with
    | nil => simp [ST.sum, lit_eq]
    | cons x xs ih => simp [ST.sum, ih]
  rw [h]
  induction d with
  | zero => simp
  | succ d ih => rw [List.range_succ, List.map_append, List.sum_append, Finset.sum_range_succ, ih]; simp

theorem col_getD (P : List (Vec ℝ)) (i j : Nat) :
    (P.map (fun r => getC r j)).getD i 0 = getC (P.getD i []) j := by
  simp only [getC, List.getD_eq_getElem?_getD, List.getElem?_map]
  cases P[i]? <;> simp [lit_eq]

/-- cubic, D dimensions -/
theorem minimiser_ND_cubic (d : Nat) (h : List ℝ) (P : List (Vec ℝ)) (t0 : ℝ) (bc : BC ℝ) (hpos : PosList h) (hne : h ≠ [])
    (hP : P.length = h.length + 1) (g : Nat → ℝ → ℝ) (hg : ∀ j, j < d → ContDiff ℝ 2 (g j))
    (hk : ∀ j, j < d → ∀ i, i ≤ h.length → g j ((cumulative (0:ℝ) h).getD i 0) = getC (P.getD i []) j)
    (hv0 : ∀ j, j < d → deriv (g j) 0 = getC bc.v0 j) (hvn : ∀ j, j < d → deriv (g j) h.sum = getC bc.vn j) :
    (buildND .cubic d h P t0 bc).energy
      ≤ ∑ j ∈ Finset.range d, ∫ t in (0:ℝ)..h.sum, (deriv (deriv (g j)) t) ^ 2 := by
  rw [(energy_is_sum .cubic d h P t0 bc).1, stsum_range]
  apply Finset.sum_le_sum
  intro j hj
  have hj' := Finset.mem_range.mp hj
  exact C02_minimiser_cubic h (P.map (fun r => getC r j)) (getC bc.v0 j) (getC bc.vn j) hpos hne (by simp [hP]) (g j)
    (hg j hj') (fun i hi => by rw [col_getD]; exact hk j hj' i hi) (hv0 j hj') (hvn j hj')

/-- quintic, D dimensions -/
theorem minimiser_ND_quintic (d : Nat) (h : List ℝ) (P : List (Vec ℝ)) (t0 : ℝ) (bc : BC ℝ) (hpos : ∀ x ∈ h, 0 < x)
    (hne : h ≠ []) (hP : P.length = h.length + 1) (g : Nat → ℝ → ℝ) (hg : ∀ j, j < d → ContDiff ℝ 3 (g j))
    (hk : ∀ j, j < d → ∀ i, i ≤ h.length → g j ((cumulative (0:ℝ) h).getD i 0) = getC (P.getD i []) j)
    (hv0 : ∀ j, j < d → deriv (g j) 0 = getC bc.v0 j) (ha0 : ∀ j, j < d → deriv (deriv (g j)) 0 = getC bc.a0 j)
    (hvn : ∀ j, j < d → deriv (g j) h.sum = getC bc.vn j) (han : ∀ j, j < d → deriv (deriv (g j)) h.sum = getC bc.an j) :
    (buildND .quintic d h P t0 bc).energy
      ≤ ∑ j ∈ Finset.range d, ∫ t in (0:ℝ)..h.sum, (deriv (deriv (deriv (g j))) t) ^ 2 := by
  rw [(energy_is_sum .quintic d h P t0 bc).1, stsum_range]
  apply Finset.sum_le_sum
  intro j hj
  have hj' := Finset.mem_range.mp hj
  exact C02_minimiser_quintic h (P.map (fun r => getC r j)) ⟨getC bc.v0 j, getC bc.a0 j⟩ ⟨getC bc.vn j, getC bc.an j⟩ hpos hne
    (by simp [hP]) (g j) (hg j hj') (fun i hi => by rw [col_getD]; exact hk j hj' i hi) (hv0 j hj') (ha0 j hj')
    (hvn j hj') (han j hj')

/-- septic, D dimensions -/
theorem minimiser_ND_septic (d : Nat) (h : List ℝ) (P : List (Vec ℝ)) (t0 : ℝ) (bc : BC ℝ) (hpos : ∀ x ∈ h, 0 < x)
    (hne : h ≠ []) (hP : P.length = h.length + 1) (g : Nat → ℝ → ℝ) (hg : ∀ j, j < d → ContDiff ℝ 4 (g j))
    (hk : ∀ j, j < d → ∀ i, i ≤ h.length → g j ((cumulative (0:ℝ) h).getD i 0) = getC (P.getD i []) j)
    (hv0 : ∀ j, j < d → deriv (g j) 0 = getC bc.v0 j) (ha0 : ∀ j, j < d → deriv (deriv (g j)) 0 = getC bc.a0 j)
    (hj0 : ∀ j, j < d → deriv (deriv (deriv (g j))) 0 = getC bc.j0 j)
    (hvn : ∀ j, j < d → deriv (g j) h.sum = getC bc.vn j) (han : ∀ j, j < d → deriv (deriv (g j)) h.sum = getC bc.an j)
    (hjn : ∀ j, j < d → deriv (deriv (deriv (g j))) h.sum = getC bc.jn j) :
    (buildND .septic d h P t0 bc).energy
      ≤ ∑ j ∈ Finset.range d, ∫ t in (0:ℝ)..h.sum, (deriv (deriv (deriv (deriv (g j)))) t) ^ 2 := by
  rw [(energy_is_sum .septic d h P t0 bc).1, stsum_range]
  apply Finset.sum_le_sum
  intro j hj
  have hj' := Finset.mem_range.mp hj
  exact C02_minimiser_septic h (P.map (fun r => getC r j)) ⟨getC bc.v0 j, getC bc.a0 j, getC bc.j0 j⟩
    ⟨getC bc.vn j, getC bc.an j, getC bc.jn j⟩ hpos hne (by simp [hP]) (g j) (hg j hj')
    (fun i hi => by rw [col_getD]; exact hk j hj' i hi) (hv0 j hj') (ha0 j hj') (hj0 j hj') (hvn j hj') (han j hj') (hjn j hj')

end MinimalND
