import STProofs.CubicKKT
import STProofs.QuinticKKT
import STProofs.SepticKKT
import STProofs.EnergyIntegral
import Mathlib.Analysis.Calculus.ContDiff.Basic
/-!
# C02 — minimum acceleration / jerk / snap interpolant: optimality (KKT) conditions

Proved: for every N, every data — cubic: all conditions (interpolation, C¹, C², both boundary velocities) for every
positive duration vector, unconditionally (`cubic_build_spec`; all pivots positive: `pivok_cubic`).
Quintic / septic: interpolation, C¹–C² resp. C¹–C³ and the boundary states unconditionally (`STProofs.Hermite`);
continuity of derivatives 3–4 resp. 4–6 under the explicit hypothesis that no block pivot is singular
(`quintic_KKT_partial`, `septic_KKT_partial`; the row residual *is* the derivative jump: `*_row_identity`).

`C02_minimiser` — the full variational statement — is stated below and NOT proved (no `sorry`: it is a `def … : Prop`).
What is missing: (i) the pivot hypothesis for the quintic/septic for general N, (ii) the integration-by-parts argument
that KKT implies minimality among all sufficiently smooth curves, (iii) uniqueness.
-/
open ST

/-- **the full variational statement (cubic instance), kept visible and NOT proved**: among all C² curves through the
same waypoints at the same knot times with the same boundary velocities, the built spline has the least
∫ (second derivative)² — the left-hand side is the reported energy, which `cubic_energy_total` identifies with the
integral of the squared second derivative of the built pieces. -/
def C02_minimiser_cubic : Prop :=
  ∀ (h P : List ℝ) (v0 vn : ℝ), PosList h → h ≠ [] → P.length = h.length + 1 →
    ∀ g : ℝ → ℝ, ContDiff ℝ 2 g →
      (∀ i, i ≤ h.length → g ((cumulative (0:ℝ) h).getD i 0) = P.getD i 0) →
      deriv g 0 = v0 → deriv g h.sum = vn →
      Cubic.energy h (Cubic.build h P v0 vn) ≤ ∫ t in (0:ℝ)..h.sum, (deriv (deriv g) t) ^ 2

theorem C02_cubic_partial {K : Type} [Field K] [LinearOrder K] [IsStrictOrderedRing K]
    (v0 vn : K) (h P : List K) (hp : PosList h) (hne : h ≠ []) (hlen : P.length = h.length + 1) :
    CubicSpec vn h P (Cubic.build h P v0 vn) ∧ ∀ p ps, Cubic.build h P v0 vn = p :: ps → ev1 p 0 = v0 :=
  cubic_build_spec v0 vn h P hp hne hlen

/-- non-vacuity of the pivot hypothesis: a concrete quintic problem with 3 segments satisfies it -/
example : QuinticK.QuinticPivOK ([1, 2, 1/2] : List ℚ) [0, 1, 3, 2] ⟨0, 0⟩ ⟨1, 0⟩ := by
  simp only [QuinticK.QuinticPivOK, Quintic.rows, Quintic.mkSegs, Quintic.rowsAux, BPivOK]
  refine ⟨?_, ?_, trivial⟩ <;> (apply M2.mul_inv; simp [M2.det, M2.sub_def, M2.mul_def, M2.inv, Quintic.blockD, Quintic.blockL, Quintic.blockU, Quintic.mkTP]; show ((_ : ℚ) ≠ 0); norm_num)
