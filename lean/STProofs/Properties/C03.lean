import STProofs.PPolyLookup
import STProofs.PPolyRoutes
/-! # C03 — lookup is the half-open-interval piece, clamped; the hint never matters; caches never change a value;
hinted = plain (`evaluateHint_eq`) and batch = pointwise (`evaluateBatch_eq`) for every cache state.
Not a theorem: evaluation of the derivative trajectory = higher-order evaluation (decided by the correspondence and the exact oracle). -/
open ST
example : specIdx ([0, 1, 3] : List ℚ) 1 = 1 ∧ specIdx ([0, 1, 3] : List ℚ) (1/2) = 0 ∧ specIdx ([0, 1, 3] : List ℚ) 7 = 1 ∧ specIdx ([0, 1, 3] : List ℚ) (-2) = 0 := by
  simp [specIdx, countLE]; norm_num
