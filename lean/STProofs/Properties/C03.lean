import STProofs.PPolyLookup
/-! # C03 — lookup is the half-open-interval piece, clamped; the hint never matters; caches never change a value -/
open ST
example : specIdx ([0, 1, 3] : List ℚ) 1 = 1 ∧ specIdx ([0, 1, 3] : List ℚ) (1/2) = 0 ∧ specIdx ([0, 1, 3] : List ℚ) 7 = 1 ∧ specIdx ([0, 1, 3] : List ℚ) (-2) = 0 := by
  simp [specIdx, countLE]; norm_num
