import STProofs.PPolyLookup
import STProofs.PPolyRoutes
import STProofs.PPolyCacheAny
import STProofs.PPolyDeriv
import STProofs.Trajectory
/-! # C03 — lookup is the half-open-interval piece, clamped; the hint never matters; caches never change a value;
hinted = plain (`evaluateHint_eq`) and batch = pointwise (`evaluateBatch_eq`) for every cache state.
derivative trajectory: `derivative_route` — evaluating `derivative(k)` at order `j` is evaluating the original at order `k+j`
(well-formed object, every cache state; the falling-factorial factors compose: `factorEntry_comp`). 
Joined with the spline builders: `Traj.traj_eval` — evaluating the trajectory a spline publishes at any `t` is the
Horner value of the stacked block of segment `specIdx t` at local time `t − t_i` (lookup + evaluation + publication in one
statement).
-/
open ST
example : specIdx ([0, 1, 3] : List ℚ) 1 = 1 ∧ specIdx ([0, 1, 3] : List ℚ) (1/2) = 0 ∧ specIdx ([0, 1, 3] : List ℚ) 7 = 1 ∧ specIdx ([0, 1, 3] : List ℚ) (-2) = 0 := by
  simp [specIdx, countLE]; norm_num
