import STProofs.EnergyIntegral
import STProofs.Structure
import Mathlib.Algebra.BigOperators.Intervals
/-!
# C04 — reported energy = ∫ ‖x⁽ˢ⁾‖² (over ℝ), non-negative, sum over coordinates

Per coordinate: `cubic/quintic/septic_energy_integral` (closed form of one segment = ∫₀ᵀ (p⁽ˢ⁾)²), `…_energy_total` (sum over
segments), `…_energy_nonneg`.  For the D-dimensional object the user holds: `C04.energyND_integral` — the energy it reports is
the sum over coordinates and segments of those integrals, i.e. ∫ ‖x⁽ˢ⁾(t)‖² dt of the published trajectory, and it is
non-negative (`C04.energyND_nonneg`).
-/
open ST
open scoped BigOperators

namespace C04

/-- ∑ over segments of ∫₀^{T_i} (s-th derivative of coordinate j's piece i)², for the three orders -/
noncomputable def colEnergyInt (o : Order) (h : List ℝ) (P : List (Vec ℝ)) (bc : BC ℝ) (j : Nat) : ℝ :=
  let Pj := P.map (fun r => getC r j)
  match o with
  | .cubic => Cubic.energyInt h (Cubic.build h Pj (getC bc.v0 j) (getC bc.vn j))
  | .quintic => Quintic.energyInt h (Quintic.build h Pj ⟨getC bc.v0 j, getC bc.a0 j⟩ ⟨getC bc.vn j, getC bc.an j⟩)
  | .septic => Septic.energyInt h (Septic.build h Pj ⟨getC bc.v0 j, getC bc.a0 j, getC bc.j0 j⟩
                  ⟨getC bc.vn j, getC bc.an j, getC bc.jn j⟩)

theorem stsum_range (d : Nat) (F : Nat → ℝ) : ST.sum ((List.range d).map F) = ∑ j ∈ Finset.range d, F j := by
  have h : ∀ l : List ℝ, ST.sum l = l.sum := by
    intro l; induction l with
    | nil => simp [ST.sum, lit_eq]
    | cons x xs ih => simp [ST.sum, ih]
  rw [h]
  induction d with
  | zero => simp
  | succ d ih => rw [List.range_succ, List.map_append, List.sum_append, Finset.sum_range_succ, ih]; simp

/-- **the energy reported by the D-dimensional spline is the integral of the squared s-th derivative of its trajectory**
(sum over coordinates and segments), for every order, dimension, N and duration vector -/
theorem energyND_integral (o : Order) (d : Nat) (h : List ℝ) (P : List (Vec ℝ)) (t0 : ℝ) (bc : BC ℝ) :
    (buildND o d h P t0 bc).energy = ∑ j ∈ Finset.range d, colEnergyInt o h P bc j := by
  rw [(energy_is_sum o d h P t0 bc).1, stsum_range]
  apply Finset.sum_congr rfl
  intro j _
  cases o with
  | cubic => simp only [colOf, colCubic, colEnergyInt, cubic_energy_total]
  | quintic => simp only [colOf, colQuintic, colEnergyInt, quintic_energy_total]
  | septic => simp only [colOf, colSeptic, colEnergyInt, septic_energy_total]

theorem cubic_energyInt_nonneg (Ts : List ℝ) (cs : List (Cubic.C4 ℝ)) (hT : ∀ T ∈ Ts, 0 ≤ T) : 0 ≤ Cubic.energyInt Ts cs := by
  induction Ts generalizing cs with
  | nil => cases cs <;> simp [Cubic.energyInt]
  | cons T Ts ih =>
    cases cs with
    | nil => simp [Cubic.energyInt]
    | cons c cs =>
      simp only [Cubic.energyInt]
      exact add_nonneg (intervalIntegral.integral_nonneg (hT T (by simp)) (fun t _ => sq_nonneg _))
        (ih cs (fun x hx => hT x (by simp [hx])))

theorem quintic_energyInt_nonneg (Ts : List ℝ) (cs : List (Quintic.C6 ℝ)) (hT : ∀ T ∈ Ts, 0 ≤ T) : 0 ≤ Quintic.energyInt Ts cs := by
  induction Ts generalizing cs with
  | nil => cases cs <;> simp [Quintic.energyInt]
  | cons T Ts ih =>
    cases cs with
    | nil => simp [Quintic.energyInt]
    | cons c cs =>
      simp only [Quintic.energyInt]
      exact add_nonneg (intervalIntegral.integral_nonneg (hT T (by simp)) (fun t _ => sq_nonneg _))
        (ih cs (fun x hx => hT x (by simp [hx])))

theorem septic_energyInt_nonneg (Ts : List ℝ) (cs : List (Septic.C8 ℝ)) (hT : ∀ T ∈ Ts, 0 ≤ T) : 0 ≤ Septic.energyInt Ts cs := by
  induction Ts generalizing cs with
  | nil => cases cs <;> simp [Septic.energyInt]
  | cons T Ts ih =>
    cases cs with
    | nil => simp [Septic.energyInt]
    | cons c cs =>
      simp only [Septic.energyInt]
      exact add_nonneg (intervalIntegral.integral_nonneg (hT T (by simp)) (fun t _ => sq_nonneg _))
        (ih cs (fun x hx => hT x (by simp [hx])))

/-- the reported energy is non-negative (non-negative durations suffice) -/
theorem energyND_nonneg (o : Order) (d : Nat) (h : List ℝ) (P : List (Vec ℝ)) (t0 : ℝ) (bc : BC ℝ) (hT : ∀ T ∈ h, 0 ≤ T) :
    0 ≤ (buildND o d h P t0 bc).energy := by
  rw [energyND_integral]
  apply Finset.sum_nonneg
  intro j _
  cases o with
  | cubic => exact cubic_energyInt_nonneg _ _ hT
  | quintic => exact quintic_energyInt_nonneg _ _ hT
  | septic => exact septic_energyInt_nonneg _ _ hT

end C04
