import STProofs.EnergyIntegral
/-! # C04 — reported energy = ∫ ‖x⁽ˢ⁾‖² (over ℝ), non-negative, sum over coordinates -/
