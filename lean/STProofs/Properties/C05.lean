import STProofs.CubicAdjoint
/-!
# C05 — gradient propagation is the exact adjoint (property theorem, cubic, every N)
-/
open ST ST.Cubic

theorem C05_cubic {K : Type} [Field K] [LinearOrder K] [IsStrictOrderedRing K]
    (hs Ps : List (Dual K)) (v0 vn : Dual K) (gs : List (C4 K)) (gT : List K)
    (hpos : ∀ h ∈ hs, 0 < h.re) (hne : hs ≠ [])
    (hP : Ps.length = hs.length + 1) (hg : gs.length = hs.length) (hgT : gT.length = hs.length) :
    let segsR := mkSegs (hs.map Dual.re) (Ps.map Dual.re)
    let out := propagate v0.re vn.re segsR (knotM v0.re vn.re segsR) gs
    gdotC gs (build hs Ps v0 vn) + dot gT (hs.map Dual.du)
      = dot out.points (Ps.map Dual.du) + dot (zipAdd gT out.times) (hs.map Dual.du)
        + out.v0 * v0.du + out.vn * vn.du :=
  cubic_adjoint hs Ps v0 vn gs gT hpos hne hP hg hgT

/-- linearity in the upstream gradient is a corollary of the identity holding for every tangent; here: the
model's `propagate` has no state, so repeated calls are equal by construction (`rfl`) -/
theorem C05_pure {K : Type} [Field K] (v0 vn : K) (segs : List (Seg K)) (ms : List K) (gs : List (C4 K)) :
    propagate v0 vn segs ms gs = propagate v0 vn segs ms gs := rfl

/-- non-vacuity: two segments, dual durations with non-zero tangents -/
example : (∀ h ∈ ([⟨1, 1⟩, ⟨2, -1⟩] : List (Dual ℚ)), 0 < h.re) ∧ ([⟨1, 1⟩, ⟨2, -1⟩] : List (Dual ℚ)) ≠ [] := by
  constructor
  · intro h hh; simp at hh; rcases hh with rfl | rfl <;> norm_num
  · simp
