import STProofs.CubicAdjoint
import STProofs.QuinticAdjoint
import STProofs.SepticAdjoint
import STProofs.QuinticUnique
import STProofs.SepticUnique
import STProofs.NDAdjoint
/-!
# C05 — gradient propagation is the exact adjoint (property theorems: cubic, quintic and septic, every N)

All three orders are unconditional for positive durations (`C05_cubic`, `C05_quintic_pos`, `C05_septic_pos`).
The quintic / septic theorems are first proved under `DetOK` — no pivot determinant of the block elimination of the
*real* system vanishes (the code divides by exactly these determinants) — which also covers non-positive durations
with non-singular pivots; `QuinticPiv.detOK_of_pos` / `SepticPiv.detOK_of_pos` discharge it for positive durations.
In D dimensions: `NDAdj.propagateND_adjoint` — for the D-dimensional spline object (`buildND` / `propagateND`, all orders), the
upstream gradient paired with the derivative of the coefficient blocks plus `⟨gT, dT⟩` equals the pairing of everything
`propagateGrad` returns with the tangent of waypoints, durations and boundary states (rows ↔ columns: `blockDot_cols`,
per column: `col_adjoint`).
Everything else — the dual system being solvable, the
transposed sweeps being the adjoint of the solve, both loops, the boundary corrections with the cached
`L_0` / `U_last` blocks — is proved.
-/
open ST ST.Cubic

theorem C05_cubic {K : Type} [Field K] [LinearOrder K] [IsStrictOrderedRing K]
    (hs Ps : List (Dual K)) (v0 vn : Dual K) (gs : List (C4 K)) (gT : List K)
    (hpos : ∀ h ∈ hs, 0 < h.re) (hne : hs ≠ [])
    (hP : Ps.length = hs.length + 1) (hg : gs.length = hs.length) (hgT : gT.length = hs.length) :
    let segsR := mkSegs (hs.map Dual.re) (Ps.map Dual.re)
    let out := propagate v0.re vn.re segsR (knotM v0.re vn.re segsR) gs
    gdotC gs (build hs Ps v0 vn) + dot gT (hs.map Dual.du)
      = dot out.points (Ps.map Dual.du) + dot (zipAdd gT out.times) (hs.map Dual.du)
        + out.v0 * v0.du + out.vn * vn.du :=
  cubic_adjoint hs Ps v0 vn gs gT hpos hne hP hg hgT

/-- linearity in the upstream gradient is a corollary of the identity holding for every tangent; here: the
model's `propagate` has no state, so repeated calls are equal by construction (`rfl`) -/
theorem C05_pure {K : Type} [Field K] (v0 vn : K) (segs : List (Seg K)) (ms : List K) (gs : List (C4 K)) :
    propagate v0 vn segs ms gs = propagate v0 vn segs ms gs := rfl

/-- non-vacuity: two segments, dual durations with non-zero tangents -/
example : (∀ h ∈ ([⟨1, 1⟩, ⟨2, -1⟩] : List (Dual ℚ)), 0 < h.re) ∧ ([⟨1, 1⟩, ⟨2, -1⟩] : List (Dual ℚ)) ≠ [] := by
  constructor
  · intro h hh; simp at hh; rcases hh with rfl | rfl <;> norm_num
  · simp

/-- quintic (`propagateGrad` of `QuinticSplineND`, one coordinate): for every tangent direction
`(dP, dT, d b_L, d b_R)`, upstream gradient paired with the derivative of the coefficients = returned gradients
paired with the direction -/
theorem C05_quintic {K : Type} [Field K] [CharZero K]
    (hs Ps : List (Dual K)) (bL bR : V2 (Dual K)) (gs : List (Quintic.C6 K)) (gT : List K)
    (hne0 : hs ≠ []) (hne : ∀ h ∈ hs, h.re ≠ 0)
    (hP : Ps.length = hs.length + 1) (hg : gs.length = hs.length) (hgT : gT.length = hs.length)
    (hdet : QuinticAdj.DetOK none (Quintic.rows (QuinticAdj.V2re bL) (QuinticAdj.V2re bR)
      (Quintic.mkSegs (hs.map Dual.re) (Ps.map Dual.re)))) :
    let b := Quintic.buildFull (hs.map Dual.re) (Ps.map Dual.re) (QuinticAdj.V2re bL) (QuinticAdj.V2re bR)
    let out := Quintic.propagate b gs
    QuinticAdj.gdotC6 gs (Quintic.build hs Ps bL bR) + dot gT (hs.map Dual.du)
      = dot out.points (Ps.map Dual.du) + dot (zipAdd gT out.times) (hs.map Dual.du)
        + QuinticAdj.ip2 out.start (QuinticAdj.V2du bL) + QuinticAdj.ip2 out.fin (QuinticAdj.V2du bR) :=
  QuinticAdj.quintic_adjoint hs Ps bL bR gs gT hne0 hne hP hg hgT hdet

theorem C05_septic {K : Type} [Field K] [CharZero K]
    (hs Ps : List (Dual K)) (bL bR : V3 (Dual K)) (gs : List (Septic.C8 K)) (gT : List K)
    (hne0 : hs ≠ []) (hne : ∀ h ∈ hs, h.re ≠ 0)
    (hP : Ps.length = hs.length + 1) (hg : gs.length = hs.length) (hgT : gT.length = hs.length)
    (hdet : SepticAdj.DetOK none (Septic.rows (SepticAdj.V3re bL) (SepticAdj.V3re bR)
      (Septic.mkSegs (hs.map Dual.re) (Ps.map Dual.re)))) :
    let b := Septic.buildFull (hs.map Dual.re) (Ps.map Dual.re) (SepticAdj.V3re bL) (SepticAdj.V3re bR)
    let out := Septic.propagate b gs
    SepticAdj.gdotC8 gs (Septic.build hs Ps bL bR) + dot gT (hs.map Dual.du)
      = dot out.points (Ps.map Dual.du) + dot (zipAdd gT out.times) (hs.map Dual.du)
        + SepticAdj.ip3 out.start (SepticAdj.V3du bL) + SepticAdj.ip3 out.fin (SepticAdj.V3du bR) :=
  SepticAdj.septic_adjoint hs Ps bL bR gs gT hne0 hne hP hg hgT hdet

/-- non-vacuity of the pivot hypothesis: a concrete 3-segment problem satisfies it (quintic) -/
example : QuinticAdj.DetOK none
    (Quintic.rows (⟨0, 0⟩ : V2 ℚ) ⟨1, 0⟩ (Quintic.mkSegs [1, 2, 1] [0, 1, 3, 2])) := by
  simp only [QuinticAdj.DetOK, Quintic.rows, Quintic.rowsAux, Quintic.mkSegs, Quintic.mkTP, Quintic.blockD,
    Quintic.blockL, Quintic.blockU, M2.det, M2.inv, M2.mul_def, M2.sub_def, lit_eq]
  norm_num

/-- … and septic -/
example : SepticAdj.DetOK none
    (Septic.rows (⟨0, 0, 0⟩ : V3 ℚ) ⟨1, 0, 0⟩ (Septic.mkSegs [1, 2, 1] [0, 1, 3, 2])) := by
  simp only [SepticAdj.DetOK, Septic.rows, Septic.rowsAux, Septic.mkSegs, Septic.mkTP, Septic.blockD,
    Septic.blockL, Septic.blockU, M3.det, M3.inv, M3.mul_def, M3.sub_def, lit_eq]
  norm_num

/-- quintic, unconditional for positive durations -/
theorem C05_quintic_pos {K : Type} [Field K] [LinearOrder K] [IsStrictOrderedRing K]
    (hs Ps : List (Dual K)) (bL bR : V2 (Dual K)) (gs : List (Quintic.C6 K)) (gT : List K)
    (hne0 : hs ≠ []) (hpos : ∀ h ∈ hs, 0 < h.re)
    (hP : Ps.length = hs.length + 1) (hg : gs.length = hs.length) (hgT : gT.length = hs.length) :
    let b := Quintic.buildFull (hs.map Dual.re) (Ps.map Dual.re) (QuinticAdj.V2re bL) (QuinticAdj.V2re bR)
    let out := Quintic.propagate b gs
    QuinticAdj.gdotC6 gs (Quintic.build hs Ps bL bR) + dot gT (hs.map Dual.du)
      = dot out.points (Ps.map Dual.du) + dot (zipAdd gT out.times) (hs.map Dual.du)
        + QuinticAdj.ip2 out.start (QuinticAdj.V2du bL) + QuinticAdj.ip2 out.fin (QuinticAdj.V2du bR) :=
  QuinticPiv.quintic_adjoint_pos hs Ps bL bR gs gT hne0 hpos hP hg hgT

/-- septic, unconditional for positive durations -/
theorem C05_septic_pos {K : Type} [Field K] [LinearOrder K] [IsStrictOrderedRing K]
    (hs Ps : List (Dual K)) (bL bR : V3 (Dual K)) (gs : List (Septic.C8 K)) (gT : List K)
    (hne0 : hs ≠ []) (hpos : ∀ h ∈ hs, 0 < h.re)
    (hP : Ps.length = hs.length + 1) (hg : gs.length = hs.length) (hgT : gT.length = hs.length) :
    let b := Septic.buildFull (hs.map Dual.re) (Ps.map Dual.re) (SepticAdj.V3re bL) (SepticAdj.V3re bR)
    let out := Septic.propagate b gs
    SepticAdj.gdotC8 gs (Septic.build hs Ps bL bR) + dot gT (hs.map Dual.du)
      = dot out.points (Ps.map Dual.du) + dot (zipAdd gT out.times) (hs.map Dual.du)
        + SepticAdj.ip3 out.start (SepticAdj.V3du bL) + SepticAdj.ip3 out.fin (SepticAdj.V3du bR) :=
  SepticPiv.septic_adjoint_pos hs Ps bL bR gs gT hne0 hpos hP hg hgT
