import STProofs.EnergyGrad
/-! # C06 — energy gradients: partials are dual parts (all orders); cubic total derivative = propagated partials (every N)

Not proved: that the closed-form analytic gradients `getEnergyGradTimes / InnerPoints / Boundary` coincide with the
propagated partials for every N (the correspondence check and the dual-number oracle decide that on the implementation);
quintic/septic total derivative (needs the quintic/septic adjoint theorem). -/
