import STProofs.EnergyGrad
import STProofs.CubicEnergyGrad
import STProofs.QuinticEnergyGrad
import STProofs.SepticEnergyGrad
import STProofs.NDEnergy
/-!
# C06 — analytic energy gradients equal the true derivatives of the reported energy (every N, positive durations)

All three sentences of the property are theorems, for all three orders:

* **partials** (`Cubic/Quintic/Septic.energySeg_dual`): `getEnergyPartialGradByCoeffs/ByTimes` are the partial
  derivatives of the closed-form energy (which `C04` identifies with the integral);
* **propagating the partials reproduces the total derivative** (`cubic_energy_total_derivative`,
  `quintic_energy_total_derivative`, `septic_energy_total_derivative`): chain rule over dual numbers + the adjoint
  theorems of C05;
* **the closed-form analytic gradients are the total derivatives** (`cubic_energy_grad_exact`,
  `quintic_energy_grad_exact`, `septic_energy_grad_exact`): for every tangent of durations, waypoints and boundary
  states, `d(energy) = ⟨getEnergyGradTimes, dT⟩ + ⟨getEnergyGradInnerPoints & boundary .p, dP⟩ + ⟨boundary .v/.a/.j, d b⟩`.
  Cubic: the adjoint variable of the energy is `M/3` in closed form (`lam_energy`, via `thomas_unique`), which also gives
  `cubic_analytic_grads`: `propagateGrad(partials)` *is* the closed forms, component by component.  Quintic / septic:
  envelope argument — the pull-back onto interior knot derivatives cancels by the optimality conditions
  (`seg1_energy`, `segPairV_jump`, `quintic_KKT` / `septic_KKT`).

In D dimensions (the object the user holds): `NDEnergy.energyND_grad` — the dual part of the D-dimensional spline's energy is
the pairing of its published `energyGrad` (inner points, durations, boundary blocks) with the tangent of waypoints,
durations and boundary states; Σ over coordinates of the 1-D theorems (`col_energy`).
-/
open ST

/-- cubic, in the property's words -/
theorem C06_cubic {K : Type} [Field K] [LinearOrder K] [IsStrictOrderedRing K]
    (hs Ps : List (Dual K)) (v0 vn : Dual K)
    (hpos : ∀ h ∈ hs, 0 < h.re) (hne : hs ≠ []) (hP : Ps.length = hs.length + 1) :
    let csR := Cubic.build (hs.map Dual.re) (Ps.map Dual.re) v0.re vn.re
    let gb := Cubic.gradBoundary (hs.map Dual.re) csR
    (Cubic.energy hs (Cubic.build hs Ps v0 vn)).du
      = dot (gb.1.p :: (Cubic.gradInner csR ++ [gb.2.p])) (Ps.map Dual.du)
        + dot (csR.map Cubic.gradTime) (hs.map Dual.du) + gb.1.v * v0.du + gb.2.v * vn.du :=
  CubicEG.cubic_energy_grad_exact hs Ps v0 vn hpos hne hP

/-- non-vacuity -/
example : (∀ h ∈ ([⟨1, 1⟩, ⟨2, -1⟩] : List (Dual ℚ)), 0 < h.re) := by
  intro h hh; simp at hh; rcases hh with rfl | rfl <;> norm_num
