import STProofs.CostDecomp
import STProofs.EnergyGrad
import STProofs.TimeMap
import STProofs.Layout
import STProofs.QuadDual
import STProofs.Assemble
import STProofs.QuinticUnique
import STProofs.SepticUnique
import STProofs.CubicEnergyGrad
import STProofs.QuinticEnergyGrad
import STProofs.SepticEnergyGrad
import STProofs.NDAdjoint
import STProofs.NDEnergy
import STProofs.EvalCore
import STProofs.EvaluateGrad
import STProofs.MapsInst
/-!
# C07 — optimizer gradient = gradient of the returned cost

**Headline theorem** `EvaluateGrad.evaluate_grad_exact` (user-facing form `MapsInst.evaluate_grad_exact_lift`): run the
model's `evaluate` over dual numbers on `x + ε·dx`; the dual part of the returned cost equals `⟨grad, dx⟩` with `grad` the
gradient the real run of `evaluate` returns.  One statement for every order, N ≥ 1, dimension, flag set (all 256), energy
weight (zero and positive), quadrature step count, every time map / spatial map pair whose `backward` / `backwardGrad`
are the transposed derivatives of `toTime` / `toPhysical` (`TmOK`, `SmOK`; proved for the identity, `QuadInv`, affine and
reciprocal time maps and for the identity and the reduced-coordinate paraboloid spatial maps), and every time / waypoint / running
cost functor following the documented protocol (`CostsOK`: the reported gradients are the partial derivatives, explicit
time dependence through global time).  Only hypotheses besides the protocol: the decoded durations are positive, the
decision vector has the layout's length, there are N+1 reference waypoints.

`evaluate = decode ; evalCore ; assemble` and the theorem is the composition of

* `Assemble.assemble_adjoint` — gradient assembly (`backward`, `backwardGrad`, scatter into the packed layout slices) is
  the adjoint of decoding; un-optimised points and un-flagged (or order-gated) boundary blocks are pinned to the
  constant reference data (`decode_pinned_wp`, `decode_pinned_blk`), so they carry no tangent;
* `EvalCore.evalCore_dual` — the gradient record w.r.t. (waypoints, durations, boundary states) is the derivative of the
  cost: time cost (protocol), integral cost (`QuadDual.integral_cost_dual`: basis rows, trapezoid weights, `dt/dT` term,
  drift term, explicit-time term and its suffix accumulation), D-dimensional adjoint propagation
  (`NDAdj.propagateND_adjoint` = Σ over coordinates of the C05 theorems), waypoint cost (protocol), energy term
  (`NDEnergy.energyND_grad` = Σ over coordinates of the C06 theorems, order-gated boundary blocks: `energyGrad_gate`);
* `EvalCore.coeffs_re`, `EvaluateGrad.decode_re` — the real parts of the dual run are the real run.

`TmOK` carries a domain predicate for the duration variables, so maps with a pole are covered away from it: the
reciprocal time map of the harness (`T = b/(1 − aτ)`, whose `backward` uses the decoded duration) is `tmOK_recip`.
-/
open ST

/-- non-vacuity of the protocol hypothesis: a quadratic position cost with explicit global-time dependence -/
example : QuadDual.RunOK (K := ℚ) 1
    (fun _ tg _ p _ _ _ _ => ⟨dot p p + tg * tg, [], [], [], [], [], 0⟩)
    (fun _ tg _ p _ _ _ _ => ⟨dot p p + tg * tg, vscale 2 p, vzero 1, vzero 1, vzero 1, vzero 1, 2 * tg⟩) := by
  constructor
  · intro t tg i p v a j s
    have hre : ∀ (x y : Vec (Dual ℚ)), (dot x y).re = dot (QuadDual.vre x) (QuadDual.vre y) := by
      intro x; induction x with
      | nil => intro y; simp [dot, QuadDual.vre, lit_eq]
      | cons a x ih => intro y; cases y with
        | nil => simp [dot, QuadDual.vre, lit_eq]
        | cons b y => simp only [dot, QuadDual.vre, List.map_cons, Dual.add_re, Dual.mul_re] at ih ⊢; rw [ih]
    have hdu : ∀ (x : Vec (Dual ℚ)), (dot x x).du = dot (vscale 2 (QuadDual.vre x)) (QuadDual.vdu x) := by
      intro x; induction x with
      | nil => simp [dot, QuadDual.vre, QuadDual.vdu, vscale, lit_eq]
      | cons a x ih =>
        simp only [dot, QuadDual.vre, QuadDual.vdu, vscale, List.map_cons, Dual.add_du, Dual.mul_du] at ih ⊢
        rw [ih]; ring
    refine ⟨?_, ?_⟩
    · simp only [Dual.add_re, Dual.mul_re, hre]
    · simp only [Dual.add_du, Dual.mul_du, hdu]
      have z : ∀ (y : Vec ℚ), dot (vzero 1 : Vec ℚ) y = 0 := fun y => QuadDual.dot_vzero_left 1 y
      simp only [z]; ring
  · intro t tg i p v a j s hp _ _ _ _
    simp [vscale, vzero, hp]

/-! ### non-vacuity of the whole hypothesis set: a concrete problem with all three cost functors -/
section nonvacuous
open QuadDual NDAdj EvalCore EvaluateGrad MapsInst

/-- time cost `Σ T`, waypoint cost `Σ |q|²`, running cost `|p|² + t_global²` -/
def exCosts (α : Type) [Num α] : Costs α :=
  { time := fun Ts => (ST.sum Ts, Ts.map (fun _ => lit 1)),
    waypoints := some (fun W => (ST.sum (W.map (fun q => dot q q)), W.map (vscale (lit 2)))),
    run := fun _ tg _ p _ _ _ _ => ⟨dot p p + tg * tg, vscale (lit 2) p, vzero p.length, vzero p.length, vzero p.length,
      vzero p.length, lit 2 * tg⟩ }

theorem dot_self_re (x y : Vec (Dual ℚ)) : (dot x y).re = dot (vre x) (vre y) := by
  induction x generalizing y with
  | nil => simp [dot, vre, lit_eq]
  | cons a x ih => cases y with
    | nil => simp [dot, vre, lit_eq]
    | cons b y => simp only [dot, vre, List.map_cons, Dual.add_re, Dual.mul_re] at ih ⊢; rw [ih]

theorem dot_self_du (x : Vec (Dual ℚ)) : (dot x x).du = dot (vscale 2 (vre x)) (vdu x) := by
  induction x with
  | nil => simp [dot, vre, vdu, vscale, lit_eq]
  | cons a x ih =>
    simp only [dot, vre, vdu, vscale, List.map_cons, Dual.add_du, Dual.mul_du] at ih ⊢
    rw [ih]; ring

theorem exCosts_ok (n d : Nat) (dc : Decoded (Dual ℚ)) (hT : dc.times.length = n) (hW : dc.waypoints.length = n + 1)
    (hrows : ∀ r ∈ dc.waypoints, r.length = d) : CostsOK n d (exCosts (Dual ℚ)) (exCosts ℚ) dc := by
  constructor
  · constructor
    · intro t tg i p v a j s
      refine ⟨?_, ?_⟩
      · simp only [exCosts, Dual.add_re, Dual.mul_re, dot_self_re]
      · simp only [exCosts, Dual.add_du, Dual.mul_du, dot_self_du, lit_eq]
        have z : ∀ (m : Nat) (y : Vec ℚ), dot (vzero m : Vec ℚ) y = 0 := fun m y => QuadDual.dot_vzero_left m y
        simp only [z]; push_cast; ring
    · intro t tg i p v a j s hp _ _ _ _
      simp [exCosts, vscale, vzero, hp]
  · simp only [exCosts]
    rw [NDEnergy.sum_du]
    generalize dc.times = Ts
    induction Ts with
    | nil => simp [dot]
    | cons T Ts ih => simp only [List.map_cons, List.sum_cons, dot_cons, ih, lit_eq]; push_cast; ring
  · simp [exCosts, hT]
  · simp only [exCosts]
    refine ⟨?_, by simp [hW], ?_⟩
    · rw [NDEnergy.sum_du, List.map_map]
      generalize dc.waypoints = W
      induction W with
      | nil => simp [blockDot]
      | cons q W ih =>
        simp only [List.map_cons, List.sum_cons, blockDot, ih, Function.comp, dot_self_du, lit_eq]
        push_cast; ring
    · intro r hr
      simp only [List.mem_map] at hr
      obtain ⟨q, hq, rfl⟩ := hr
      obtain ⟨q0, hq0, rfl⟩ := hq
      simp [vscale, vre, hrows q0 hq0]

/-- quintic, 2-D, two segments, default maps, end position and start velocity optimised, ρ = 1/2, 4 quadrature steps -/
noncomputable def exCfg : Config ℚ :=
  { order := .quintic, dim := 2, refTimes := [1, 2], refWaypoints := [[0, 0], [1, 2], [3, 1]],
    refBC := BC.zero 2, startTime := 1, flags := { endP := true, startV := true }, rho := 1 / 2, steps := 4,
    tm := quadInvTimeMap id, sm := identitySpatialMap 2 }

/-- every hypothesis of the headline theorem is met by this problem at every decision vector of the right length whose
decoded waypoint rows have the right length -/
example (x : List (Dual ℚ)) (hx : x.length = exCfg.layout.total)
    (hrows : ∀ r ∈ (decode (liftCfg exCfg (quadInvTimeMap id) (identitySpatialMap 2)) x).waypoints, r.length = 2)
    (hpos : ∀ h ∈ (decode exCfg (x.map Dual.re)).times, 0 < h) :
    (evaluate (liftCfg exCfg (quadInvTimeMap id) (identitySpatialMap 2)) x (exCosts (Dual ℚ))).cost.du
      = dot (evaluate exCfg (x.map Dual.re) (exCosts ℚ)).grad (x.map Dual.du) := by
  apply evaluate_grad_exact_lift exCfg _ _ (tmOK_quadInv id id) (smOK_identity 2) x (fun _ _ => trivial) _ _ (by simp [exCfg, Config.n]) hx (by simp [exCfg, Config.n]) hpos
  apply exCosts_ok _ _ _ _ _ hrows
  · simp [decode, liftCfg, exCfg, Config.n]
  · rw [decode_wps_length]; simp [liftCfg, exCfg, Config.n]

end nonvacuous

