import STProofs.CostDecomp
import STProofs.EnergyGrad
import STProofs.TimeMap
import STProofs.Layout
/-! # C07 — optimizer gradient = gradient of the returned cost (modular ingredients)

Proved ingredients: time-map chain rule (`backward_is_chain_rule`), spline adjoint (cubic, every N: `cubic_adjoint`),
energy chain rule (`cubic_energy_total_derivative`), layout (`layout_spec`), structure of the quadrature
(`quadSegment_cost`, `quadStep_sample`).  NOT proved: the assembled statement `(evaluate_D (x+ε·dx)).cost.du =
⟨(evaluate x).grad, dx⟩` for the whole `evaluate`; it is decided on the implementation by the exact dual-number oracle
(the model's gradient equals the dual part of the model's cost on every generated case, as an exact rational identity). -/
