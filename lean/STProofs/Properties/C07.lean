import STProofs.CostDecomp
import STProofs.EnergyGrad
import STProofs.TimeMap
import STProofs.Layout
import STProofs.QuadDual
import STProofs.Assemble
import STProofs.QuinticUnique
import STProofs.SepticUnique
import STProofs.CubicEnergyGrad
import STProofs.QuinticEnergyGrad
import STProofs.SepticEnergyGrad
/-!
# C07 — optimizer gradient = gradient of the returned cost

`evaluate` is a composition  x ↦ (durations, waypoints, boundary states) ↦ spline coefficients ↦ cost terms; its gradient
is assembled by the matching chain of pull-backs.  Every link is a theorem, for every N / order / dimension / number of
quadrature steps:

* decision vector → durations: `backward_is_chain_rule` (default time map), `identity_map`;
* decision vector → waypoints / boundary blocks: `layout_spec`, `derivBlocks_spec` (which slice feeds which quantity);
* (durations, waypoints, boundary states) → coefficients: the adjoint theorems of C05
  (`cubic_adjoint`, `quintic_adjoint_pos`, `septic_adjoint_pos`);
* coefficients, durations, start time → integral cost: **`QuadDual.integral_cost_dual`** — for every running-cost functor
  following the documented protocol (`RunOK`), the derivative of the total trapezoid cost along any tangent equals the
  pairing with the accumulators `gdC`, `gdT ⊕ suffixAdd expl` (and `Σ expl` for the start time) that `evaluate` hands to
  `propagateGrad` (`quadStep_dual`, `quadSegment_dual`, `starts_du`, `intAcc_eq_range`);
* energy term: the analytic energy gradients are the total derivatives (C06: `*_energy_grad_exact`);
* decision vector ↔ decoded quantities: **`Assemble.assemble_adjoint`** — gradient assembly (`backward` of the time map,
  `backwardGrad` of the spatial map, scatter into the packed layout slices) is the adjoint of decoding, for every N, order,
  dimension, flag set and all maps whose `backward`/`backwardGrad` are the transposed derivatives of `toTime`/`toPhysical`
  (`MapsOK`).

NOT proved as one statement: the composition of these links for the D-dimensional `evaluate` (it additionally needs the
column stacking of the 1-D adjoint theorems, C13, written as one dual-number identity).  That composition is decided
on every run by the exact dual-number oracle: the model's gradient equals the dual part of the model's cost on every
generated case as an exact rational identity, and the C++ agrees within tolerance.
-/
open ST

/-- non-vacuity of the protocol hypothesis: a quadratic position cost with explicit global-time dependence -/
example : QuadDual.RunOK (K := ℚ) 1
    (fun _ tg _ p _ _ _ _ => ⟨dot p p + tg * tg, [], [], [], [], [], 0⟩)
    (fun _ tg _ p _ _ _ _ => ⟨dot p p + tg * tg, vscale 2 p, vzero 1, vzero 1, vzero 1, vzero 1, 2 * tg⟩) := by
  constructor
  · intro t tg i p v a j s
    have hre : ∀ (x y : Vec (Dual ℚ)), (dot x y).re = dot (QuadDual.vre x) (QuadDual.vre y) := by
      intro x; induction x with
      | nil => intro y; simp [dot, QuadDual.vre, lit_eq]
      | cons a x ih => intro y; cases y with
        | nil => simp [dot, QuadDual.vre, lit_eq]
        | cons b y => simp only [dot, QuadDual.vre, List.map_cons, Dual.add_re, Dual.mul_re] at ih ⊢; rw [ih]
    have hdu : ∀ (x : Vec (Dual ℚ)), (dot x x).du = dot (vscale 2 (QuadDual.vre x)) (QuadDual.vdu x) := by
      intro x; induction x with
      | nil => simp [dot, QuadDual.vre, QuadDual.vdu, vscale, lit_eq]
      | cons a x ih =>
        simp only [dot, QuadDual.vre, QuadDual.vdu, vscale, List.map_cons, Dual.add_du, Dual.mul_du] at ih ⊢
        rw [ih]; ring
    refine ⟨?_, ?_⟩
    · simp only [Dual.add_re, Dual.mul_re, hre]
    · simp only [Dual.add_du, Dual.mul_du, hdu]
      have z : ∀ (y : Vec ℚ), dot (vzero 1 : Vec ℚ) y = 0 := fun y => QuadDual.dot_vzero_left 1 y
      simp only [z]; ring
  · intro t tg i p v a j s hp _ _ _ _
    simp [vscale, vzero, hp]
