import STProofs.CostDecomp
/-! # C08 — cost decomposition and sample fidelity -/
