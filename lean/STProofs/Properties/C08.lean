import STProofs.CostDecomp
import STProofs.SampleTraj
import STProofs.SamplesAny
/-!
# C08 — cost decomposition and sample fidelity

* `evaluate_cost`: the returned cost is time cost + Σ segment integrals + waypoint cost + (ρ·energy when ρ > 0), at the
  decoded durations / waypoints / trajectory; `evaluate_segCost`, `quadSegment_cost`: each segment integral is the trapezoid
  sum over `K + 1` nodes with weights `½, 1, …, 1, ½` times `T/K`;
* `quadStep_sample`, `quadSegment_samples`, `segStarts_spec`: node `k` of segment `i` carries the segment index, local time
  `(k/K)·T_i`, global time `start + Σ_{j<i} T_j + (k/K)·T_i`;
* `basis_cubic/quintic/septic`: the basis rows give value and derivatives of the segment's polynomial;
* **joined with the trajectory object** (`SampleTraj.sample_block`, `SampleTraj.sample_is_trajectory`): the position, velocity,
  acceleration, jerk and snap handed to the running cost are, coordinate by coordinate, what `getTrajectory().evaluate(t_global, m)`
  returns — the optimizer's table of basis-row constants and `PPolyND`'s falling-factorial derivative tables compute the same
  derivatives (`basis_dRow_*`), for every order, dimension, N and node inside its segment's half-open interval.
-/
