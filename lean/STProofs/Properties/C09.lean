import STProofs.Layout
/-! # C09 — decision-vector layout, dimension, layout cache under reconfiguration -/
