import STProofs.Layout
import STProofs.RoundTrip
import STProofs.DecodeAny
/-!
# C09 — decision-vector layout, dimension, initial-guess round trip, pinning, exposed spline

* layout and dimension: `layout_spec` (times, then the optimised waypoints in index order at consecutive offsets, then the
  flagged derivative blocks the order has; total = the sum), `derivBlocks_spec`, `spatialOptimized_iff`;
  slices are packed: `RoundTrip.layoutFrom_packed`;
* **round trip**: `RoundTrip.roundtrip` — for maps that invert each other on the reference data (`RefOK`; e.g. the
  identity maps, `refOK_identity`, or the default time map by `toTime_toTau`), the generated initial guess decodes back to
  the reference durations, waypoints and boundary states, for every N, order, dimension and flag set;
* **pinning**: `RoundTrip.decode_pinned_waypoint`, `RoundTrip.decode_pinned_block` — for *every* decision vector a
  waypoint that is not optimised and a boundary block that is not flagged keep their reference values;
* **exposed spline**: `C09_exposed_spline` — the spline an evaluation leaves behind is the one built from the decoded
  decision vector;
* layout cache under reconfiguration: `lcache_history`.
-/
open ST

/-- the spline exposed after an evaluation is the spline of the decoded decision vector -/
theorem C09_exposed_spline {α : Type} [NumOrd α] (c : Config α) (x : List α) (costs : Costs α) :
    (evaluate c x costs).spline
      = buildND c.order c.dim (decode c x).times (decode c x).waypoints c.startTime (decode c x).bc := rfl

theorem C09_decoded {α : Type} [NumOrd α] (c : Config α) (x : List α) (costs : Costs α) :
    (evaluate c x costs).decoded = decode c x := rfl
