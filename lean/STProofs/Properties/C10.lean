import STProofs.Slots
import STProofs.PPolyCache
import STProofs.PPolyCacheAny
/-! # C10 — results depend on the latest inputs only: slot access summaries + stateless specification model

The specification model of the spline classes is a pure function of the latest inputs (definitional).  The content
proved here is about the *objects*: every cache slot a query reads was written by the latest update
(`no_stale_read`, `reads_latest` over arbitrary histories), query workspaces are (re)initialised by the query itself
(`queries_self_contained`), the optimizer workspace is fully rewritten per evaluation (`ws_no_stale_read`).
For the piecewise-polynomial object bit-identity of a reused object with a fresh one is a theorem about the IEEE-double
instance of the model (`AnyNum.eval_after_history_float`); for the spline classes it is a property of the compiled code: explored by the correspondence
check (C++ reused vs. C++ fresh, bitwise), not proved. -/
