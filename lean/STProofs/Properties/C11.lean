import STProofs.PPolyCache
/-! # C11 — lazy caches and copies never serve stale data -/
