import STProofs.PPolyCache
import STProofs.PPolyCacheAny
/-! # C11 — lazy caches and copies never serve stale data -/
/-! `AnyNum.eval_after_history` / `AnyNum.eval_after_history_float`: the same theorem for every scalar type that carries the
model's operations (no law of arithmetic is used), hence for IEEE doubles: a reused object answers *bit for bit* like a fresh one. -/
