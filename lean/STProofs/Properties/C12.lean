import STProofs.Sched
import STProofs.Layout
/-! # C12 — schedule independence (bit-exact, arbitrary arithmetic) and conflict-freedom of concurrent evaluations

Data-race freedom of the compiled code is a runtime fact: the model proves that the access summaries are disjoint;
ThreadSanitizer ties the summaries to the code on every run. -/
