import STProofs.Structure
import STProofs.StructureProp
import STProofs.NDAdjoint
import STProofs.NDEnergy
/-!
# C13 — coordinates are solved independently (every order, N, D)

* construction: `colOf_eq_1D`, `colOf_congr` (everything computed for coordinate `j` is what the 1-D model computes from
  coordinate `j` alone), `coeff_of_column`, `energy_is_sum` (energy, duration gradients and duration partials are sums over
  coordinates), `colOf_permute` (permuting coordinates permutes outputs);
* propagation: `propagateND_inner`, `propagateND_boundary` (coordinate `j` of every propagated point / boundary gradient is
  the output of the 1-D propagation of column `j`), `propCol_eq_1D` (which reads only coordinate `j` of waypoints, boundary
  states and upstream gradient), `propagateND_times` (duration gradient = upstream + sum over coordinates).

Together with the 1-D adjoint theorems of C05 this gives `NDAdj.propagateND_adjoint`: the D-dimensional `propagateGrad` is
the exact adjoint of the D-dimensional construction map (sum over coordinates of the 1-D identities); likewise
`NDEnergy.energyND_grad` for the analytic energy gradients.
-/
