import STProofs.Structure
/-! # C13 — coordinates are solved independently -/
