import STProofs.Structure
/-! # C14 — time shift and translation (proved, every N; translation for the cubic); scaling and reversal: NOT proved
(decided on the implementation by exact power-of-two relations and the toleranced reversal check) -/
