import STProofs.Structure
import STProofs.CubicSym
import STProofs.QuinticSym
import STProofs.SepticSym
import STProofs.QuinticRev
import STProofs.SepticRev
import STProofs.CubicRev
import STProofs.CubicRevGrad
import STProofs.QuinticRevGrad
import STProofs.SepticRevGrad
/-!
# C14 — time shift, translation, amplitude scaling, time scaling (every N, positive durations, all three orders)

* time shift: `cumulative_shift`, `shift_invariant` (knot times shift, per-segment polynomials and all queries unchanged);
* translation / amplitude scaling: `CubicTr.build_translate`, `CubicSym.build_scale`, `QuinticSym.build_affine`,
  `SepticSym.build_affine` (waypoints `λ·P + a`, boundary states `λ·b` ⇒ coefficients `λ·c + (a,0,…)`), with
  `energySeg_scale` / `energySeg_affine` (energy × λ², independent of `a`);
* time scaling: `CubicSym/QuinticSym/SepticSym.build_timescale` (durations × μ, k-th boundary derivative ÷ μᵏ ⇒ `c_k / μᵏ`, the
  same curve run at speed 1/μ), `energySeg_timescale` (energy × μ^-(2s−1)).

The quintic / septic statements are obtained from the uniqueness theorems of C02 (`build_transform`): a transformation
that maps Hermite closures to Hermite closures and preserves the optimality conditions maps the spline to the spline.

* time reversal (all orders): `CubicRev.build_reverse`, `QuinticRev.build_reverse`, `SepticRev.build_reverse` — reversed waypoints and durations,
  odd boundary derivatives negated, start/end swapped ⇒ piece `i` of the new spline is `τ ↦ c_{N-1-i}(h − τ)`;
  `energySeg_rev` (same energy).

* mirrored gradients (all orders): `CubicRev/QuinticRev/SepticRev.energyGrads_reverse` — for the reversed problem the
  duration gradients (`getEnergyGradTimes`) and inner-point gradients (`getEnergyGradInnerPoints`) are the original ones in
  reverse order, the boundary gradients swap start and end with the odd components (velocity, jerk) negated, and the energy
  is the same.  The duration gradient is a first integral of the optimal piece (`gradTime_rev`), which is why it can be
  read off at either end.
-/
open ST

/-- cubic, amplitude -/
theorem C14_cubic_scale {K : Type} [Field K] [LinearOrder K] [IsStrictOrderedRing K]
    (lam : K) (hs Ps : List K) (v0 vn : K) (hpos : PosList hs) :
    Cubic.build hs (Ps.map (lam * ·)) (lam * v0) (lam * vn) = (Cubic.build hs Ps v0 vn).map (CubicSym.scC lam) :=
  CubicSym.build_scale lam hs Ps v0 vn hpos

/-- non-vacuity -/
example : PosList ([1, 2, 1/2] : List ℚ) := by simp [PosList]
