import STProofs.Heap
/-! # C15 — copies are independent deep copies (abstract heap model) -/
