import STProofs.ValidateProofs
/-! # C16 — validation verdicts -/
