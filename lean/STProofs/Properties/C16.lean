import STProofs.ValidateProofs
import STProofs.ValidateAny
/-! # C16 — validation verdicts -/
