import STProofs.TimeMap
/-! # C17 — QuadInvTimeMap over ℝ -/
