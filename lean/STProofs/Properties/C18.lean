import STProofs.CubicKKT
import STProofs.QuinticKKT
import STProofs.SepticKKT
/-! # C18 — in exact arithmetic every defining equation has residual zero (so any residual of the code is rounding)

No theorem bounds the rounding error: Lean's `Float` is opaque to the kernel and a backward-error analysis of the
unpivoted block elimination is out of reach here.  The property is decided by exploration (residual search). -/
