import STProofs.GradCheck
/-! # C19 — gradient self-check: loop logic -/
