import STProofs.GradCheck
import STProofs.GradCheckAny
/-! # C19 — gradient self-check: loop logic -/
