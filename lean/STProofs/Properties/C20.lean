import STProofs.Sampling
import STProofs.PPolyCache
/-! # C20 — sampling helpers: time sequence contract in exact arithmetic

Not proved: the arc-length error bound `|L − arc length| ≤ dt·∫‖a‖` (`length_error_bound`), and the behaviour under
rounding (explored against the IEEE-double instance of the model). -/
