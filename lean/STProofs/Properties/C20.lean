import STProofs.Sampling
import STProofs.PPolyCache
import STProofs.PPolyRoutes
import STProofs.ArcLength
/-!
# C20 — sampling, arc length and batch helpers

* time sequence contract in exact arithmetic: `timeSequence_shape`, `_head`, `_le_end`, `_last`, `_strictMono`,
  `appended_end_iff`, `regular_step`;
* batch evaluation over it equals pointwise evaluation: `evaluateBatch_eq` (every cache state);
* the reported length **is** the left-endpoint Riemann sum of speed over that sequence: `trajLength_eq_riemann`;
* **error bound**: `riemann_error_bound` — for any curve whose velocity has a continuous derivative `a` (any complete normed
  space) and any non-decreasing sample sequence with steps ≤ δ: `|Σ ‖v(t_i)‖ Δ_i − ∫ ‖v‖| ≤ δ · ∫ ‖a‖`; hence convergence as
  the step shrinks.

Not covered by theorems: behaviour under rounding (explored against the IEEE-double instance of the model).
-/
open ST

/-- non-vacuity of the bound's hypotheses: uniform motion on a line sampled with step 1/2 -/
example : Steps (1/2 : ℝ) [0, 1/2, 1, 3/2] := by
  simp only [Steps]; norm_num
