import STProofs.Alg
import STProofs.CubicAdjoint
import STModel.Optimizer
import Mathlib.Tactic.Ring
import Mathlib.Tactic.FieldSimp
/-!
# C07 — the quadrature accumulators are the exact derivative of the trapezoid cost of a segment

For a segment evaluated on dual numbers (duration `T`, segment start time `s₀`, coefficient block `C`, each with an
arbitrary tangent) and a running-cost functor that follows the documented protocol (`RunOK`: its reported gradients are
its partial derivatives in position … snap and in *global* time, no other time dependence),

    d(segment cost) = ⟨gdC, dC⟩ + gdT·dT + expl·ds₀

where `gdC`, `gdT`, `expl` are exactly the accumulators of the per-segment lambda of `calculateIntegralCost`
(`quadSegment`), for every order, dimension and number of steps.
-/
open ST

namespace QuadDual
variable {K : Type} [Field K]

def vre (v : Vec (Dual K)) : Vec K := v.map Dual.re
def vdu (v : Vec (Dual K)) : Vec K := v.map Dual.du

/-! ## vector plumbing -/

theorem vadd_re (x y : Vec (Dual K)) : vre (vadd x y) = vadd (vre x) (vre y) := by
  induction x generalizing y with
  | nil => simp [vadd, vre]
  | cons a x ih => cases y with
    | nil => simp [vadd, vre]
    | cons b y => simp only [vadd, vre, List.map_cons] at ih ⊢; rw [ih]; rfl

theorem vadd_du (x y : Vec (Dual K)) : vdu (vadd x y) = vadd (vdu x) (vdu y) := by
  induction x generalizing y with
  | nil => simp [vadd, vdu]
  | cons a x ih => cases y with
    | nil => simp [vadd, vdu]
    | cons b y => simp only [vadd, vdu, List.map_cons] at ih ⊢; rw [ih]; rfl

theorem vscale_re (c : Dual K) (v : Vec (Dual K)) : vre (vscale c v) = vscale c.re (vre v) := by
  simp [vscale, vre, Function.comp_def]

theorem vadd_length (x y : Vec K) (h : x.length = y.length) : (vadd x y).length = x.length := by
  induction x generalizing y with
  | nil => simp [vadd]
  | cons a x ih => cases y with
    | nil => simp at h
    | cons b y => simp [vadd, ih y (by simpa using h)]

theorem foldl_vadd_re (S : List (Vec (Dual K))) (z : Vec (Dual K)) :
    vre (S.foldl vadd z) = (S.map vre).foldl vadd (vre z) := by
  induction S generalizing z with
  | nil => rfl
  | cons s S ih => simp only [List.foldl_cons, List.map_cons, ih, vadd_re]

theorem foldl_vadd_du (S : List (Vec (Dual K))) (z : Vec (Dual K)) :
    vdu (S.foldl vadd z) = (S.map vdu).foldl vadd (vdu z) := by
  induction S generalizing z with
  | nil => rfl
  | cons s S ih => simp only [List.foldl_cons, List.map_cons, ih, vadd_du]

theorem vzero_re (d : Nat) : vre (vzero d : Vec (Dual K)) = vzero d := by
  simp [vzero, vre]
theorem vzero_du (d : Nat) : vdu (vzero d : Vec (Dual K)) = vzero d := by
  simp [vzero, vdu]

theorem zipWith_vscale_re (b : List (Dual K)) (blk : List (Vec (Dual K))) :
    (List.zipWith vscale b blk).map vre = List.zipWith vscale (b.map Dual.re) (blk.map vre) := by
  induction b generalizing blk with
  | nil => simp
  | cons c b ih => cases blk with
    | nil => simp
    | cons r blk => simp only [List.zipWith_cons_cons, List.map_cons, ih, vscale_re]

/-- real part of `b · C` -/
theorem rtb_re (d : Nat) (b : List (Dual K)) (blk : List (Vec (Dual K))) :
    vre (rowTimesBlock d b blk) = rowTimesBlock d (b.map Dual.re) (blk.map vre) := by
  simp only [rowTimesBlock, foldl_vadd_re, zipWith_vscale_re, vzero_re]

theorem dot_vadd (g x y : Vec K) (h : x.length = y.length) : dot g (vadd x y) = dot g x + dot g y := by
  induction g generalizing x y with
  | nil => simp [dot]
  | cons a g ih =>
    cases x with
    | nil => cases y with
      | nil => simp [vadd, dot]
      | cons _ _ => simp at h
    | cons b x => cases y with
      | nil => simp at h
      | cons c y => simp only [vadd, dot_cons, ih x y (by simpa using h)]; ring

theorem dot_vzero (g : Vec K) (d : Nat) : dot g (vzero d) = 0 := by
  induction g generalizing d with
  | nil => simp [dot]
  | cons a g ih => cases d with
    | zero => simp [vzero, dot]
    | succ d =>
      have : (vzero (d + 1) : Vec K) = 0 :: vzero d := by simp [vzero, List.replicate_succ]
      rw [this, dot_cons, ih]; ring

theorem dot_foldl (g : Vec K) (n : Nat) (S : List (Vec K)) (z : Vec K) (hz : z.length = n)
    (hS : ∀ s ∈ S, s.length = n) : dot g (S.foldl vadd z) = dot g z + (S.map (dot g)).sum := by
  induction S generalizing z with
  | nil => simp
  | cons s S ih =>
    have hs : s.length = n := hS s (by simp)
    rw [List.foldl_cons, ih (vadd z s) (by rw [vadd_length z s (by rw [hz, hs]), hz]) (fun x hx => hS x (by simp [hx])),
      dot_vadd g z s (by rw [hz, hs])]
    simp only [List.map_cons, List.sum_cons]; ring

theorem dot_vscale (g : Vec K) (c : K) (v : Vec K) : dot g (vscale c v) = c * dot g v := by
  induction g generalizing v with
  | nil => simp [dot]
  | cons a g ih => cases v with
    | nil => simp [vscale, dot]
    | cons b v =>
      have := ih v
      simp only [vscale, List.map_cons, dot_cons] at this ⊢
      rw [this]; ring

theorem dot_vscale_du (g : Vec K) (c : Dual K) (v : Vec (Dual K)) :
    dot g (vdu (vscale c v)) = c.re * dot g (vdu v) + c.du * dot g (vre v) := by
  induction g generalizing v with
  | nil => simp [dot]
  | cons a g ih => cases v with
    | nil => simp [vscale, vdu, vre, dot]
    | cons b v =>
      have := ih v
      simp only [vscale, vdu, vre, List.map_cons, dot_cons, Dual.mul_du] at this ⊢
      rw [this]; ring

/-- `Σ_k b_k · ⟨g, X_k⟩` -/
def pairSum (g : Vec K) : List K → List (Vec K) → K
  | b :: bs, x :: xs => b * dot g x + pairSum g bs xs
  | _, _ => 0

theorem pairSum_eq_dot (d : Nat) (g : Vec K) (b : List K) (X : List (Vec K)) (hX : ∀ r ∈ X, r.length = d) :
    dot g (rowTimesBlock d b X) = pairSum g b X := by
  rw [rowTimesBlock, dot_foldl g d _ _ (by simp [vzero]) ?_, dot_vzero, zero_add]
  · induction b generalizing X with
    | nil => simp [pairSum]
    | cons c b ih => cases X with
      | nil => simp [pairSum]
      | cons r X =>
        simp only [List.zipWith_cons_cons, List.map_cons, List.sum_cons, pairSum, dot_vscale,
          ih X (fun x hx => hX x (by simp [hx]))]
  · intro s hs
    obtain ⟨i, hi, rfl⟩ := List.getElem_of_mem hs
    simp only [List.getElem_zipWith, vscale, List.length_map]
    exact hX _ (List.getElem_mem _)

/-- product rule for `b · C` paired with a real vector -/
theorem rtb_du_pair (d : Nat) (g : Vec K) (b : List (Dual K)) (blk : List (Vec (Dual K)))
    (hblk : ∀ r ∈ blk, r.length = d) :
    dot g (vdu (rowTimesBlock d b blk))
      = pairSum g (b.map Dual.re) (blk.map vdu) + pairSum g (b.map Dual.du) (blk.map vre) := by
  rw [rowTimesBlock, foldl_vadd_du, dot_foldl g d _ _ (by simp [vzero, vdu]) ?_, vzero_du, dot_vzero, zero_add]
  · induction b generalizing blk with
    | nil => simp [pairSum]
    | cons c b ih => cases blk with
      | nil => simp [pairSum]
      | cons r blk =>
        simp only [List.zipWith_cons_cons, List.map_cons, List.sum_cons, pairSum, dot_vscale_du,
          ih blk (fun x hx => hblk x (by simp [hx]))]
        ring
  · intro s hs
    obtain ⟨s', hs', rfl⟩ := List.mem_map.mp hs
    obtain ⟨i, hi, rfl⟩ := List.getElem_of_mem hs'
    simp only [List.getElem_zipWith, vscale, vdu, List.length_map]
    exact hblk _ (List.getElem_mem _)


theorem rtb_length (d : Nat) (b : List K) (X : List (Vec K)) (hX : ∀ r ∈ X, r.length = d) :
    (rowTimesBlock d b X).length = d := by
  have : ∀ (S : List (Vec K)) (z : Vec K), z.length = d → (∀ s ∈ S, s.length = d) → (S.foldl vadd z).length = d := by
    intro S
    induction S with
    | nil => intro z hz _; exact hz
    | cons s S ih =>
      intro z hz hS
      rw [List.foldl_cons]
      exact ih _ (by rw [vadd_length z s (by rw [hz, hS s (by simp)]), hz]) (fun x hx => hS x (by simp [hx]))
  apply this
  · simp [vzero]
  · intro s hs
    obtain ⟨i, hi, rfl⟩ := List.getElem_of_mem hs
    simp only [List.getElem_zipWith, vscale, List.length_map]
    exact hX _ (List.getElem_mem _)

/-! ## blocks (nc × d) -/

def blockDot : List (Vec K) → List (Vec K) → K
  | a :: as, x :: xs => dot a x + blockDot as xs
  | _, _ => 0

def Shape (nc d : Nat) (A : List (Vec K)) : Prop := A.length = nc ∧ ∀ r ∈ A, r.length = d

theorem dot_vscale_left (c : K) (g x : Vec K) : dot (vscale c g) x = c * dot g x := by
  induction g generalizing x with
  | nil => simp [vscale, dot]
  | cons a g ih => cases x with
    | nil => simp [vscale, dot]
    | cons b x =>
      have := ih x
      simp only [vscale, List.map_cons, dot_cons] at this ⊢
      rw [this]; ring

theorem dot_vadd_left (a b x : Vec K) (h : a.length = b.length) : dot (vadd a b) x = dot a x + dot b x := by
  induction a generalizing b x with
  | nil => cases b with
    | nil => simp [vadd, dot]
    | cons _ _ => simp at h
  | cons p a ih => cases b with
    | nil => simp at h
    | cons q b => cases x with
      | nil => simp [vadd, dot]
      | cons y x => simp only [vadd, dot_cons, ih b x (by simpa using h)]; ring

theorem blockDot_outer (b : List K) (g : Vec K) (X : List (Vec K)) : blockDot (outer b g) X = pairSum g b X := by
  induction b generalizing X with
  | nil => simp [outer, blockDot, pairSum]
  | cons c b ih => cases X with
    | nil => simp [outer, blockDot, pairSum]
    | cons x X =>
      have := ih X
      simp only [outer, List.map_cons, blockDot, pairSum, dot_vscale_left] at this ⊢
      rw [this]

theorem blockDot_add (nc d : Nat) (A B X : List (Vec K)) (hA : Shape nc d A) (hB : Shape nc d B) :
    blockDot (blockAdd A B) X = blockDot A X + blockDot B X := by
  induction A generalizing nc B X with
  | nil => cases B with
    | nil => simp [blockAdd, blockDot]
    | cons b B => have h1 := hA.1; have h2 := hB.1; simp at h1 h2; omega
  | cons a A ih => cases B with
    | nil => have h1 := hA.1; have h2 := hB.1; simp at h1 h2; omega
    | cons b B => cases X with
      | nil => simp [blockAdd, blockDot]
      | cons x X =>
        have hl : a.length = b.length := by rw [hA.2 a (by simp), hB.2 b (by simp)]
        have := ih (nc - 1) B X ⟨by have := hA.1; simp at this; omega, fun r hr => hA.2 r (by simp [hr])⟩
          ⟨by have := hB.1; simp at this; omega, fun r hr => hB.2 r (by simp [hr])⟩
        simp only [blockAdd, List.zipWith_cons_cons, blockDot, dot_vadd_left a b x hl] at this ⊢
        rw [this]; ring

theorem blockDot_scale (c : K) (A X : List (Vec K)) : blockDot (blockScale c A) X = c * blockDot A X := by
  induction A generalizing X with
  | nil => simp [blockScale, blockDot]
  | cons a A ih => cases X with
    | nil => simp [blockScale, blockDot]
    | cons x X =>
      have := ih X
      simp only [blockScale, List.map_cons, blockDot, dot_vscale_left] at this ⊢
      rw [this]; ring

theorem dot_vzero_left (d : Nat) (x : Vec K) : dot (vzero d : Vec K) x = 0 := by
  induction d generalizing x with
  | zero => simp [vzero, dot]
  | succ d ih => cases x with
    | nil => simp [vzero, dot, List.replicate_succ]
    | cons b x =>
      have : (vzero (d + 1) : Vec K) = 0 :: vzero d := by simp [vzero, List.replicate_succ]
      rw [this, dot_cons, ih]; ring

theorem blockDot_zero (nc d : Nat) (X : List (Vec K)) : blockDot (List.replicate nc (vzero d : Vec K)) X = 0 := by
  induction nc generalizing X with
  | zero => simp [blockDot]
  | succ n ih => cases X with
    | nil => simp [blockDot, List.replicate_succ]
    | cons x X => simp only [List.replicate_succ, blockDot, dot_vzero_left, ih, add_zero]

theorem shape_outer (b : List K) (g : Vec K) : Shape b.length g.length (outer b g) :=
  ⟨by simp [outer], by intro r hr; obtain ⟨c, _, rfl⟩ := List.mem_map.mp hr; simp [vscale]⟩

theorem shape_blockAdd (nc d : Nat) (A B : List (Vec K)) (hA : Shape nc d A) (hB : Shape nc d B) :
    Shape nc d (blockAdd A B) := by
  refine ⟨by simp [blockAdd, hA.1, hB.1], ?_⟩
  intro r hr
  obtain ⟨i, hi, rfl⟩ := List.getElem_of_mem hr
  simp only [blockAdd, List.getElem_zipWith]
  rw [vadd_length _ _ (by rw [hA.2 _ (List.getElem_mem _), hB.2 _ (List.getElem_mem _)]), hA.2 _ (List.getElem_mem _)]

theorem shape_blockScale (nc d : Nat) (c : K) (A : List (Vec K)) (hA : Shape nc d A) : Shape nc d (blockScale c A) :=
  ⟨by simp [blockScale, hA.1], by
    intro r hr; obtain ⟨a, ha, rfl⟩ := List.mem_map.mp hr; simp [vscale, hA.2 a ha]⟩

theorem shape_zero (nc d : Nat) : Shape nc d (List.replicate nc (vzero d : Vec K)) :=
  ⟨by simp, by intro r hr; rw [List.eq_of_mem_replicate hr]; simp [vzero]⟩

theorem pairSum_scale (g : Vec K) (c : K) (b : List K) (X : List (Vec K)) :
    pairSum g (b.map (· * c)) X = c * pairSum g b X := by
  induction b generalizing X with
  | nil => simp [pairSum]
  | cons p b ih => cases X with
    | nil => simp [pairSum]
    | cons x X => simp only [List.map_cons, pairSum, ih X]; ring


/-! ## the basis rows on dual numbers: row `m+1` is the derivative of row `m` -/
section basis
variable [CharZero K]

theorem basis_re (o : Order) (t : Dual K) (m : Nat) :
    ((basisRows o t).getD m []).map Dual.re = (basisRows o t.re).getD m [] := by
  cases o <;> rcases m with _ | _ | _ | _ | _ | _ | m <;>
    simp only [basisRows, List.getD_cons_zero, List.getD_cons_succ, List.getD_nil, List.map_cons, List.map_nil] <;>
    dual_proj <;> simp only [lit_eq]

theorem basis_du (o : Order) (t : Dual K) (m : Nat) (hm : m ≤ 4) :
    ((basisRows o t).getD m []).map Dual.du = ((basisRows o t.re).getD (m + 1) []).map (· * t.du) := by
  cases o <;> rcases m with _ | _ | _ | _ | _ | m <;>
    first
    | omega
    | (simp only [basisRows, List.getD_cons_zero, List.getD_cons_succ, List.getD_nil, List.map_cons, List.map_nil]
       dual_proj
       simp only [lit_eq, List.cons.injEq, and_true]
       push_cast
       repeat' constructor
       all_goals ring)

end basis


/-! ## one quadrature node -/
section node
variable [CharZero K]

def ShapeD (nc d : Nat) (A : List (Vec (Dual K))) : Prop := A.length = nc ∧ ∀ r ∈ A, r.length = d

/-- the documented protocol of a running-cost functor: the reported gradients are the partial derivatives of the value
in position, velocity, acceleration, jerk, snap and *global* time; the value has no other dependence on time -/
structure RunOK (d : Nat) (runD : RunFn (Dual K)) (runR : RunFn K) : Prop where
  ok : ∀ (t tg : Dual K) (i : Nat) (p v a j s : Vec (Dual K)),
      (runD t tg i p v a j s).val.re = (runR t.re tg.re i (vre p) (vre v) (vre a) (vre j) (vre s)).val ∧
      (runD t tg i p v a j s).val.du
        = dot (runR t.re tg.re i (vre p) (vre v) (vre a) (vre j) (vre s)).gp (vdu p)
          + dot (runR t.re tg.re i (vre p) (vre v) (vre a) (vre j) (vre s)).gv (vdu v)
          + dot (runR t.re tg.re i (vre p) (vre v) (vre a) (vre j) (vre s)).ga (vdu a)
          + dot (runR t.re tg.re i (vre p) (vre v) (vre a) (vre j) (vre s)).gj (vdu j)
          + dot (runR t.re tg.re i (vre p) (vre v) (vre a) (vre j) (vre s)).gs (vdu s)
          + (runR t.re tg.re i (vre p) (vre v) (vre a) (vre j) (vre s)).gt * tg.du
  len : ∀ (t tg : K) (i : Nat) (p v a j s : Vec K),
      p.length = d → v.length = d → a.length = d → j.length = d → s.length = d →
      (runR t tg i p v a j s).gp.length = d ∧ (runR t tg i p v a j s).gv.length = d ∧
      (runR t tg i p v a j s).ga.length = d ∧ (runR t tg i p v a j s).gj.length = d ∧
      (runR t tg i p v a j s).gs.length = d

/-- invariant relating the dual run's cost accumulator to the real run's gradient accumulators -/
def Rel (nc d : Nat) (dblk : List (Vec K)) (dT ds : K) (aD : SegAcc (Dual K)) (aR : SegAcc K) : Prop :=
  aD.cost.re = aR.cost ∧ aD.cost.du = blockDot aR.gdC dblk + aR.gdT * dT + aR.expl * ds ∧ Shape nc d aR.gdC

theorem basis_len (o : Order) (t : K) (m : Nat) (hm : m ≤ 5) : ((basisRows o t).getD m []).length = o.coeffNum := by
  cases o <;> rcases m with _ | _ | _ | _ | _ | _ | m <;>
    first
    | omega
    | simp [basisRows, Order.coeffNum]

/-- derivative of `row_m(t) · C` paired with a real vector `g` -/
theorem node_vec (o : Order) (d : Nat) (t : Dual K) (blk : List (Vec (Dual K))) (hblk : ShapeD o.coeffNum d blk)
    (m : Nat) (hm : m ≤ 4) (g : Vec K) :
    vre (rowTimesBlock d ((basisRows o t).getD m []) blk)
        = rowTimesBlock d ((basisRows o t.re).getD m []) (blk.map vre)
    ∧ dot g (vdu (rowTimesBlock d ((basisRows o t).getD m []) blk))
        = blockDot (outer ((basisRows o t.re).getD m []) g) (blk.map vdu)
          + t.du * dot g (rowTimesBlock d ((basisRows o t.re).getD (m + 1) []) (blk.map vre)) := by
  refine ⟨by rw [rtb_re, basis_re], ?_⟩
  rw [rtb_du_pair d g _ blk hblk.2, basis_re, basis_du o t m hm, pairSum_scale, blockDot_outer,
    pairSum_eq_dot d g _ (blk.map vre) (by
      intro r hr; obtain ⟨r', hr', rfl⟩ := List.mem_map.mp hr; simp [vre, hblk.2 r' hr'])]

/-- **one node**: the invariant is preserved by `quadStep` -/
theorem quadStep_dual (o : Order) (d K' : Nat) (runD : RunFn (Dual K)) (runR : RunFn K) (hrun : RunOK d runD runR)
    (i : Nat) (T s0 : Dual K) (blk : List (Vec (Dual K))) (hblk : ShapeD o.coeffNum d blk)
    (aD : SegAcc (Dual K)) (aR : SegAcc K) (h : Rel o.coeffNum d (blk.map vdu) T.du s0.du aD aR) (k : Nat) :
    Rel o.coeffNum d (blk.map vdu) T.du s0.du (quadStep o d K' runD i T s0 blk aD k).1
      (quadStep o d K' runR i T.re s0.re (blk.map vre) aR k).1 := by
  obtain ⟨hre, hdu, hshape⟩ := h
  simp only [quadStep, Rel]
  -- node time, weights
  have htre : (lit k * (lit 1 / lit K') * T.re : K) = (lit k * (lit 1 / lit K') * T : Dual K).re := by
    dual_proj; simp only [lit_eq]
  have htgre : (s0.re + (lit k * (lit 1 / lit K') * T : Dual K).re : K) = (s0 + lit k * (lit 1 / lit K') * T : Dual K).re := by
    dual_proj
  rw [htre, htgre]
  generalize htdef : (lit k * (lit 1 / lit K') * T : Dual K) = t
  have htdu : t.du = (k : K) * (1 / (K' : K)) * T.du := by
    rw [← htdef]; dual_proj; push_cast; ring
  have htre' : t.re = (k : K) * (1 / (K' : K)) * T.re := by
    rw [← htdef]; dual_proj; push_cast; ring
  generalize hwD : (if (decide (k = 0) || decide (k = K')) = true then (litq 1 2 : Dual K) else lit 1) = wD
  generalize hwR : (if (decide (k = 0) || decide (k = K')) = true then (litq 1 2 : K) else lit 1) = wR
  have hw : wD.re = wR ∧ wD.du = 0 := by
    rw [← hwD, ← hwR]
    split_ifs
    · simp only [litq]; dual_proj; simp [lit_eq]
    · dual_proj; simp [lit_eq]
  have hiK : ((lit 1 / lit K' : Dual K)).re = (lit 1 / lit K' : K) ∧ ((lit 1 / lit K' : Dual K)).du = 0 := by
    dual_proj; simp [lit_eq]
  -- the sample vectors
  have hv := fun (m : Nat) (hm : m ≤ 4) (g : Vec K) => node_vec o d t blk hblk m hm g
  have hx0 := (hv 0 (by omega) []).1
  have hx1 := (hv 1 (by omega) []).1
  have hx2 := (hv 2 (by omega) []).1
  have hx3 := (hv 3 (by omega) []).1
  have hx4 := (hv 4 (by omega) []).1
  have hok := hrun.ok t (s0 + t) i
    (rowTimesBlock d ((basisRows o t).getD 0 []) blk) (rowTimesBlock d ((basisRows o t).getD 1 []) blk)
    (rowTimesBlock d ((basisRows o t).getD 2 []) blk) (rowTimesBlock d ((basisRows o t).getD 3 []) blk)
    (rowTimesBlock d ((basisRows o t).getD 4 []) blk)
  rw [hx0, hx1, hx2, hx3, hx4] at hok
  generalize hrD : runD t (s0 + t) i
    (rowTimesBlock d ((basisRows o t).getD 0 []) blk) (rowTimesBlock d ((basisRows o t).getD 1 []) blk)
    (rowTimesBlock d ((basisRows o t).getD 2 []) blk) (rowTimesBlock d ((basisRows o t).getD 3 []) blk)
    (rowTimesBlock d ((basisRows o t).getD 4 []) blk) = rD at hok ⊢
  have hblkR : ∀ r ∈ blk.map vre, r.length = d := by
    intro r hr; obtain ⟨r', hr', rfl⟩ := List.mem_map.mp hr; simp [vre, hblk.2 r' hr']
  have hlen := hrun.len t.re (s0 + t).re i
    (rowTimesBlock d ((basisRows o t.re).getD 0 []) (blk.map vre))
    (rowTimesBlock d ((basisRows o t.re).getD 1 []) (blk.map vre))
    (rowTimesBlock d ((basisRows o t.re).getD 2 []) (blk.map vre))
    (rowTimesBlock d ((basisRows o t.re).getD 3 []) (blk.map vre))
    (rowTimesBlock d ((basisRows o t.re).getD 4 []) (blk.map vre))
    (rtb_length d _ _ hblkR) (rtb_length d _ _ hblkR) (rtb_length d _ _ hblkR) (rtb_length d _ _ hblkR)
    (rtb_length d _ _ hblkR)
  generalize hrR : runR t.re (s0 + t).re i
    (rowTimesBlock d ((basisRows o t.re).getD 0 []) (blk.map vre))
    (rowTimesBlock d ((basisRows o t.re).getD 1 []) (blk.map vre))
    (rowTimesBlock d ((basisRows o t.re).getD 2 []) (blk.map vre))
    (rowTimesBlock d ((basisRows o t.re).getD 3 []) (blk.map vre))
    (rowTimesBlock d ((basisRows o t.re).getD 4 []) (blk.map vre)) = rR at hok hlen ⊢
  obtain ⟨hvre, hvdu⟩ := hok
  obtain ⟨lp, lv, la, lj, ls⟩ := hlen
  have hs0 := shape_outer ((basisRows o t.re).getD 0 []) rR.gp
  have hs1 := shape_outer ((basisRows o t.re).getD 1 []) rR.gv
  have hs2 := shape_outer ((basisRows o t.re).getD 2 []) rR.ga
  have hs3 := shape_outer ((basisRows o t.re).getD 3 []) rR.gj
  have hs4 := shape_outer ((basisRows o t.re).getD 4 []) rR.gs
  rw [basis_len o t.re 0 (by omega), lp] at hs0
  rw [basis_len o t.re 1 (by omega), lv] at hs1
  rw [basis_len o t.re 2 (by omega), la] at hs2
  rw [basis_len o t.re 3 (by omega), lj] at hs3
  rw [basis_len o t.re 4 (by omega), ls] at hs4
  have hg1 := shape_blockAdd _ _ _ _ hs0 hs1
  have hg2 := shape_blockAdd _ _ _ _ hg1 hs2
  have hg3 := shape_blockAdd _ _ _ _ hg2 hs3
  have hg4 := shape_blockAdd _ _ _ _ hg3 hs4
  refine ⟨?_, ?_, ?_⟩
  · dual_proj
    rw [hre, hvre, hw.1]; simp only [lit_eq]
  · dual_proj
    rw [hdu, hvdu, (hv 0 (by omega) rR.gp).2, (hv 1 (by omega) rR.gv).2, (hv 2 (by omega) rR.ga).2,
      (hv 3 (by omega) rR.gj).2, (hv 4 (by omega) rR.gs).2, hw.1, hw.2, hvre]
    rw [blockDot_add _ _ _ _ _ hshape (shape_blockScale _ _ _ _ hg4), blockDot_scale,
      blockDot_add _ _ _ _ _ hg3 hs4, blockDot_add _ _ _ _ _ hg2 hs3, blockDot_add _ _ _ _ _ hg1 hs2,
      blockDot_add _ _ _ _ _ hs0 hs1]
    simp only [vdot, lit_eq, ST.Dual.add_du, htdu]
    push_cast
    ring
  · exact shape_blockAdd _ _ _ _ hshape (shape_blockScale _ _ _ _ hg4)

/-- **C07, one segment**: the derivative of the segment's trapezoid cost along any tangent of its coefficient block,
duration and start time is the pairing with the accumulators `gdC`, `gdT`, `expl` of `calculateIntegralCost` -/
theorem quadSegment_dual (o : Order) (d K' : Nat) (runD : RunFn (Dual K)) (runR : RunFn K) (hrun : RunOK d runD runR)
    (i : Nat) (T s0 : Dual K) (blk : List (Vec (Dual K))) (hblk : ShapeD o.coeffNum d blk) :
    (quadSegment o d K' runD i T s0 blk).1.cost.re = (quadSegment o d K' runR i T.re s0.re (blk.map vre)).1.cost ∧
    (quadSegment o d K' runD i T s0 blk).1.cost.du
      = blockDot (quadSegment o d K' runR i T.re s0.re (blk.map vre)).1.gdC (blk.map vdu)
        + (quadSegment o d K' runR i T.re s0.re (blk.map vre)).1.gdT * T.du
        + (quadSegment o d K' runR i T.re s0.re (blk.map vre)).1.expl * s0.du := by
  have gen : ∀ (l : List Nat) (stD : SegAcc (Dual K) × List (Sample (Dual K))) (stR : SegAcc K × List (Sample K)),
      Rel o.coeffNum d (blk.map vdu) T.du s0.du stD.1 stR.1 →
      Rel o.coeffNum d (blk.map vdu) T.du s0.du
        (l.foldl (fun (st : SegAcc (Dual K) × List (Sample (Dual K))) k =>
          let (acc', smp) := quadStep o d K' runD i T s0 blk st.1 k
          (acc', st.2 ++ [smp])) stD).1
        (l.foldl (fun (st : SegAcc K × List (Sample K)) k =>
          let (acc', smp) := quadStep o d K' runR i T.re s0.re (blk.map vre) st.1 k
          (acc', st.2 ++ [smp])) stR).1 := by
    intro l
    induction l with
    | nil => intro stD stR h; exact h
    | cons k l ih =>
      intro stD stR h
      simp only [List.foldl_cons]
      exact ih _ _ (quadStep_dual o d K' runD runR hrun i T s0 blk hblk stD.1 stR.1 h k)
  have h0 : Rel o.coeffNum d (blk.map vdu) T.du s0.du
      (⟨lit 0, lit 0, lit 0, List.replicate o.coeffNum (vzero d)⟩ : SegAcc (Dual K))
      (⟨lit 0, lit 0, lit 0, List.replicate o.coeffNum (vzero d)⟩ : SegAcc K) := by
    refine ⟨by simp [lit_eq], ?_, shape_zero _ _⟩
    simp only [blockDot_zero]; dual_proj; simp [lit_eq]
  have := gen (List.range (K' + 1)) (⟨lit 0, lit 0, lit 0, List.replicate o.coeffNum (vzero d)⟩, [])
    (⟨lit 0, lit 0, lit 0, List.replicate o.coeffNum (vzero d)⟩, []) h0
  exact ⟨this.1, this.2.1⟩

end node


/-! ## all segments: explicit time dependence through the segment start times -/
section spline
variable [CharZero K]

theorem suffixAdd_cons (e : K) (es : List K) : suffixAdd (e :: es) = ST.sum es :: suffixAdd es := by
  induction es generalizing e with
  | nil => simp [suffixAdd, ST.sum, lit_eq]
  | cons e' es ih =>
    have := ih e'
    rw [suffixAdd, this]
    · simp [ST.sum]
    · simp

/-- `Σ_i expl_i · d(start_i) = (Σ expl)·dt₀ + ⟨suffixAdd expl, dT⟩` -/
theorem starts_du (t0 : Dual K) (Ts : List (Dual K)) (expl : List K) (hl : expl.length = Ts.length) :
    dot expl ((segStarts t0 Ts).map Dual.du) = ST.sum expl * t0.du + dot (suffixAdd expl) (Ts.map Dual.du) := by
  induction Ts generalizing t0 expl with
  | nil => match expl, hl with
    | [], _ => simp [segStarts, ST.sum, suffixAdd, dot, lit_eq]
  | cons T Ts ih =>
    match expl, hl with
    | e :: es, hl =>
      have := ih (t0 + T) es (by simpa using hl)
      rw [segStarts, List.map_cons, dot_cons, this, suffixAdd_cons, List.map_cons, dot_cons]
      simp only [ST.sum, Dual.add_du]
      ring

/-- the per-segment accumulators of all segments (`i` = index of the first one) -/
def intAcc {α : Type} [Num α] (o : Order) (d K' : Nat) (run : RunFn α) :
    Nat → List α → List α → List (List (Vec α)) → List (SegAcc α)
  | i, T :: Ts, s :: ss, b :: bs => (quadSegment o d K' run i T s b).1 :: intAcc o d K' run (i + 1) Ts ss bs
  | _, _, _, _ => []

def blockDotL : List (List (Vec K)) → List (List (Vec K)) → K
  | a :: as, x :: xs => blockDot a x + blockDotL as xs
  | _, _ => 0

theorem intAcc_dual (o : Order) (d K' : Nat) (runD : RunFn (Dual K)) (runR : RunFn K) (hrun : RunOK d runD runR)
    (i : Nat) (Ts ss : List (Dual K)) (blks : List (List (Vec (Dual K))))
    (hs : ss.length = Ts.length) (hb : blks.length = Ts.length) (hblk : ∀ b ∈ blks, ShapeD o.coeffNum d b) :
    let aD := intAcc o d K' runD i Ts ss blks
    let aR := intAcc o d K' runR i (Ts.map Dual.re) (ss.map Dual.re) (blks.map (·.map vre))
    ST.sum (aD.map (·.cost.re)) = ST.sum (aR.map (·.cost)) ∧
    ST.sum (aD.map (·.cost.du))
      = blockDotL (aR.map (·.gdC)) (blks.map (·.map vdu)) + dot (aR.map (·.gdT)) (Ts.map Dual.du)
        + dot (aR.map (·.expl)) (ss.map Dual.du) ∧
    aR.length = Ts.length := by
  induction Ts generalizing i ss blks with
  | nil => match ss, blks, hs, hb with
    | [], [], _, _ => simp [intAcc, ST.sum, blockDotL, dot]
  | cons T Ts ih =>
    match ss, blks, hs, hb with
    | s :: ss', b :: bs', hs, hb =>
      obtain ⟨h1, h2, h3⟩ := ih (i + 1) ss' bs' (by simpa using hs) (by simpa using hb)
        (fun x hx => hblk x (by simp [hx]))
      obtain ⟨q1, q2⟩ := quadSegment_dual o d K' runD runR hrun i T s b (hblk b (by simp))
      simp only [intAcc, List.map_cons, ST.sum, blockDotL, dot_cons, List.length_cons] at h1 h2 h3 ⊢
      refine ⟨by rw [h1, q1], ?_, by rw [h3]⟩
      rw [h2, q2]; ring

/-- **C07, the integral term of the cost**: total trapezoid cost of all segments, differentiated along any tangent of
the coefficients, the durations and the start time, equals the pairing with `gdC`, `gdT + suffixAdd expl` and `Σ expl` -/
theorem integral_cost_dual (o : Order) (d K' : Nat) (runD : RunFn (Dual K)) (runR : RunFn K) (hrun : RunOK d runD runR)
    (t0 : Dual K) (Ts : List (Dual K)) (blks : List (List (Vec (Dual K))))
    (hb : blks.length = Ts.length) (hblk : ∀ b ∈ blks, ShapeD o.coeffNum d b) :
    let aD := intAcc o d K' runD 0 Ts (segStarts t0 Ts) blks
    let aR := intAcc o d K' runR 0 (Ts.map Dual.re) (segStarts t0.re (Ts.map Dual.re)) (blks.map (·.map vre))
    ST.sum (aD.map (·.cost.re)) = ST.sum (aR.map (·.cost)) ∧
    ST.sum (aD.map (·.cost.du))
      = blockDotL (aR.map (·.gdC)) (blks.map (·.map vdu))
        + dot (zipAdd (aR.map (·.gdT)) (suffixAdd (aR.map (·.expl)))) (Ts.map Dual.du)
        + ST.sum (aR.map (·.expl)) * t0.du := by
  have hsl : ∀ (t : Dual K) (l : List (Dual K)), (segStarts t l).length = l.length := by
    intro t l; induction l generalizing t with
    | nil => simp [segStarts]
    | cons a l ih => simp [segStarts, ih]
  have hsre : ∀ (t : Dual K) (l : List (Dual K)), (segStarts t l).map Dual.re = segStarts t.re (l.map Dual.re) := by
    intro t l; induction l generalizing t with
    | nil => simp [segStarts]
    | cons a l ih => simp only [segStarts, List.map_cons, ih]; rfl
  obtain ⟨h1, h2, h3⟩ := intAcc_dual o d K' runD runR hrun 0 Ts (segStarts t0 Ts) blks (hsl t0 Ts) hb hblk
  simp only [hsre] at h1 h2 h3
  intro aD aR
  refine ⟨h1, ?_⟩
  have hel : (aR.map (·.expl)).length = Ts.length := by simp [aR, h3]
  have hgl : (aR.map (·.gdT)).length = Ts.length := by simp [aR, h3]
  have hsuf : ∀ (l : List K), (suffixAdd l).length = l.length := by
    intro l; induction l with
    | nil => simp [suffixAdd]
    | cons e es ih => rw [suffixAdd_cons]; simp [ih]
  rw [h2, starts_du t0 Ts _ hel, dot_zipAdd _ _ _ (by simp [hgl]) (by rw [hsuf, hel]; simp)]
  ring

/-- `evaluate` computes exactly these accumulators (it maps over `range n` with `getD`) -/
theorem intAcc_eq_range {α : Type} [Num α] (o : Order) (d K' : Nat) (run : RunFn α) (n : Nat)
    (Ts ss : List α) (bs : List (List (Vec α))) (hT : Ts.length = n) (hs : ss.length = n) (hb : bs.length = n) (i0 : Nat) :
    intAcc o d K' run i0 Ts ss bs
      = (List.range n).map (fun i =>
          (quadSegment o d K' run (i0 + i) (Ts.getD i (lit 0)) (ss.getD i (lit 0)) (bs.getD i [])).1) := by
  induction n generalizing Ts ss bs i0 with
  | zero =>
    match Ts, ss, bs, hT, hs, hb with
    | [], [], [], _, _, _ => simp [intAcc]
  | succ n ih =>
    match Ts, ss, bs, hT, hs, hb with
    | T :: Ts', s :: ss', b :: bs', hT, hs, hb =>
      rw [intAcc, ih Ts' ss' bs' (by simpa using hT) (by simpa using hs) (by simpa using hb) (i0 + 1),
        List.range_succ_eq_map, List.map_cons, List.map_map]
      simp only [List.getD_cons_zero, add_zero, List.cons.injEq, true_and]
      apply List.map_congr_left
      intro i _
      simp only [Function.comp, List.getD_cons_succ]
      congr 2
      omega

end spline

end QuadDual
