import STProofs.Blocks
import STProofs.CubicAdjoint
/-!
# `propagateGrad` of the quintic spline is the exact adjoint of the construction map — every N
(under the hypothesis that no pivot determinant of the block elimination vanishes)

Same architecture as the cubic: the construction map on dual numbers; per-segment pull-back identity (first loop);
the differentiated block system; the code's transposed sweeps are the adjoint of the solve (`bsolveT_adjoint`);
per-block identity (second loop); boundary corrections.
-/
open ST ST.Quintic

namespace QuinticAdj
variable {K : Type} [Field K]

/-! ## real / dual parts of blocks -/
def M2re (a : M2 (Dual K)) : M2 K := ⟨a.a00.re, a.a01.re, a.a10.re, a.a11.re⟩
def M2du (a : M2 (Dual K)) : M2 K := ⟨a.a00.du, a.a01.du, a.a10.du, a.a11.du⟩
def V2re (v : V2 (Dual K)) : V2 K := ⟨v.x.re, v.y.re⟩
def V2du (v : V2 (Dual K)) : V2 K := ⟨v.x.du, v.y.du⟩

theorem smul_re (a : M2 (Dual K)) (v : V2 (Dual K)) : V2re (a • v) = M2re a • V2re v := by
  ext <;> simp [V2re, M2re, V2.smul_def]
theorem smul_du (a : M2 (Dual K)) (v : V2 (Dual K)) : V2du (a • v) = M2re a • V2du v + M2du a • V2re v := by
  ext <;> simp [V2du, V2re, M2re, M2du, V2.smul_def, V2.add_def] <;> ring
theorem add_re (v w : V2 (Dual K)) : V2re (v + w) = V2re v + V2re w := by ext <;> simp [V2re, V2.add_def]
theorem add_du (v w : V2 (Dual K)) : V2du (v + w) = V2du v + V2du w := by ext <;> simp [V2du, V2.add_def]
theorem sub_re (v w : V2 (Dual K)) : V2re (v - w) = V2re v - V2re w := by ext <;> simp [V2re, V2.sub_def]
theorem sub_du (v w : V2 (Dual K)) : V2du (v - w) = V2du v - V2du w := by ext <;> simp [V2du, V2.sub_def]
theorem zero_re : V2re (0 : V2 (Dual K)) = 0 := by ext <;> simp [V2re, V2.zero_def]
theorem zero_du : V2du (0 : V2 (Dual K)) = 0 := by ext <;> simp [V2du, V2.zero_def]
theorem mul_re (a b : M2 (Dual K)) : M2re (a * b) = M2re a * M2re b := by ext <;> simp [M2re, M2.mul_def]
theorem msub_re (a b : M2 (Dual K)) : M2re (a - b) = M2re a - M2re b := by ext <;> simp [M2re, M2.sub_def]
theorem inv_re (a : M2 (Dual K)) : M2re (M2.inv a) = M2.inv (M2re a) := by
  ext <;> simp only [M2re, M2.inv] <;> dual_proj <;> simp only [lit_eq]
theorem det_re (a : M2 (Dual K)) : (M2.det a).re = M2.det (M2re a) := by simp [M2.det, M2re]

/-- the dot product of 2-vectors and the transpose form a pairing -/
def ip2 (a b : V2 K) : K := a.x * b.x + a.y * b.y
theorem ip2_pairing : IsPairing (R := M2 K) (V := V2 K) M2.transpose ip2 where
  add_left a b c := by simp [ip2, V2.add_def]; ring
  add_right a b c := by simp [ip2, V2.add_def]; ring
  adj m v w := by simp [ip2, V2.smul_def, M2.transpose]; ring

/-! ## the differentiated block system -/

def rowRe (r : BRow (M2 (Dual K)) (V2 (Dual K))) : BRow (M2 K) (V2 K) := ⟨M2re r.l, M2re r.d, M2re r.u, V2re r.b⟩

/-- right-hand side of the differentiated system `A·dX = b' − A'·X` -/
def rhoB : V2 K → List (BRow (M2 (Dual K)) (V2 (Dual K))) → List (V2 K) → List (V2 K)
  | xp, r :: rs, x :: xs => (V2du r.b - (M2du r.l • xp + M2du r.d • x + M2du r.u • xs.headD 0)) :: rhoB x rs xs
  | _, _, _ => []

def withB : List (BRow (M2 K) (V2 K)) → List (V2 K) → List (BRow (M2 K) (V2 K))
  | r :: rs, b :: bs => ⟨r.l, r.d, r.u, b⟩ :: withB rs bs
  | _, _ => []

theorem headD_map_V2re (l : List (V2 (Dual K))) : (l.map V2re).headD 0 = V2re (l.headD 0) := by
  cases l <;> simp [zero_re]
theorem headD_map_V2du (l : List (V2 (Dual K))) : (l.map V2du).headD 0 = V2du (l.headD 0) := by
  cases l <;> simp [zero_du]

theorem bsolves_re (xp : V2 (Dual K)) (rows : List (BRow (M2 (Dual K)) (V2 (Dual K)))) (xs : List (V2 (Dual K)))
    (h : BSolves xp rows xs) : BSolves (V2re xp) (rows.map rowRe) (xs.map V2re) := by
  induction rows generalizing xp xs with
  | nil => cases xs <;> simp_all [BSolves]
  | cons r rs ih =>
    cases xs with
    | nil => simp [BSolves] at h
    | cons x xs =>
      obtain ⟨hrow, hrest⟩ := h
      refine ⟨?_, ih x xs hrest⟩
      have := congrArg V2re hrow
      simp only [add_re, smul_re] at this
      simp only [rowRe, headD_map_V2re]
      exact this

theorem bsolves_du (xp : V2 (Dual K)) (rows : List (BRow (M2 (Dual K)) (V2 (Dual K)))) (xs : List (V2 (Dual K)))
    (h : BSolves xp rows xs) :
    BSolves (V2du xp) (withB (rows.map rowRe) (rhoB (V2re xp) rows (xs.map V2re))) (xs.map V2du) := by
  induction rows generalizing xp xs with
  | nil => cases xs <;> simp_all [BSolves, withB, rhoB]
  | cons r rs ih =>
    cases xs with
    | nil => simp [BSolves] at h
    | cons x xs =>
      obtain ⟨hrow, hrest⟩ := h
      simp only [List.map_cons, rhoB, withB, BSolves]
      refine ⟨?_, ih x xs hrest⟩
      have := congrArg V2du hrow
      simp only [add_du, smul_du] at this
      simp only [rowRe, headD_map_V2re, headD_map_V2du]
      rw [← this]; abel

end QuinticAdj

namespace QuinticAdj
variable {K : Type} [Field K] [CharZero K]

/-- upstream gradient of one piece paired with the dual parts of its coefficients -/
def gdot6 (g : C6 K) (c : C6 (Dual K)) : K :=
  g.c0 * c.c0.du + g.c1 * c.c1.du + g.c2 * c.c2.du + g.c3 * c.c3.du + g.c4 * c.c4.du + g.c5 * c.c5.du

/-- **first loop, one segment**: the pull-back of one piece through the Hermite closure -/
theorem seg1_identity (h p0 p1 : Dual K) (k0 k1 : V2 (Dual K)) (g : C6 K) (hh : h.re ≠ 0) :
    let s : Seg (Dual K) := ⟨mkTP h, p0, p1 - p0⟩
    let sr : Seg K := ⟨mkTP h.re, p0.re, p1.re - p0.re⟩
    let out := seg1 sr g (V2re k0) (V2re k1)
    gdot6 g (closeSeg s k0 k1)
      = out.1.1 * p0.du + out.1.2 * p1.du + out.2.2 * h.du + ip2 out.2.1.1 (V2du k0) + ip2 out.2.1.2 (V2du k1) := by
  intro s sr out
  simp only [s, sr, out, gdot6, closeSeg, seg1, mkTP, ip2, V2re, V2du, litq]
  dual_proj
  simp only [lit_eq]
  push_cast
  field_simp
  ring

end QuinticAdj

namespace QuinticAdj
variable {K : Type} [Field K] [CharZero K]

/-- **second loop, one block**: the adjoint variable of a knot paired with the derivative of that knot's block row -/
theorem block2_identity (hL hR pp pc pn : Dual K) (kp kc kn : V2 (Dual K)) (lam : V2 K) (h1 : hL.re ≠ 0) (h2 : hR.re ≠ 0) :
    let sL : Seg (Dual K) := ⟨mkTP hL, pp, pc - pp⟩
    let sR : Seg (Dual K) := ⟨mkTP hR, pc, pn - pc⟩
    let sLr : Seg K := ⟨mkTP hL.re, pp.re, pc.re - pp.re⟩
    let sRr : Seg K := ⟨mkTP hR.re, pc.re, pn.re - pc.re⟩
    let out := block2 sLr sRr (V2re kp) (V2re kc) (V2re kn) lam
    ip2 lam (V2du (blockRhs sL sR)
        - (M2du (blockL sL.tp) • V2re kp + M2du (blockD sL.tp sR.tp) • V2re kc + M2du (blockU sR.tp) • V2re kn))
      = out.1.1 * pp.du + out.1.2.1 * pc.du + out.1.2.2 * pn.du + out.2.1 * hL.du + out.2.2 * hR.du := by
  intro sL sR sLr sRr out
  simp only [sL, sR, sLr, sRr, out, block2, blockRhs, blockL, blockD, blockU, mkTP, ip2, V2re, V2du, M2du,
    V2.smul_def, V2.add_def, V2.sub_def]
  dual_proj
  simp only [lit_eq]
  push_cast
  field_simp
  ring

end QuinticAdj
