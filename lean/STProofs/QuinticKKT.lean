import STProofs.Hermite
import STProofs.Blocks
/-!
# Quintic spline: the block rows are exactly "jerk and snap are continuous at the interior knot", hence under the
pivot hypothesis the built pieces are C⁴ (with C⁰–C² and the boundary states from `STProofs.Hermite`): the
optimality (KKT) conditions of the minimum-jerk interpolant, for every N.
-/
open ST ST.Quintic

namespace QuinticK
variable {K : Type} [Field K] [CharZero K]

/-- **row identity**: residual of the block row of a knot = jump of (snap, jerk) across it, with factor exactly 1 -/
theorem quintic_row_identity (hL hR p0 p1 p2 : K) (kp kc kn : V2 K) (h1 : hL ≠ 0) (h2 : hR ≠ 0) :
    let sL : Seg K := ⟨mkTP hL, p0, p1 - p0⟩
    let sR : Seg K := ⟨mkTP hR, p1, p2 - p1⟩
    let cL := closeSeg sL kp kc
    let cR := closeSeg sR kc kn
    let res := (blockL sL.tp • kp + blockD sL.tp sR.tp • kc + blockU sR.tp • kn) - blockRhs sL sR
    res.x = q_ev4 cL hL - q_ev4 cR 0 ∧ res.y = q_ev3 cL hL - q_ev3 cR 0 := by
  intro sL sR cL cR res
  simp only [res, cL, cR, sL, sR, closeSeg, mkTP, blockL, blockD, blockU, blockRhs, q_ev3, q_ev4, lit_eq,
    V2.smul_def, V2.add_def, V2.sub_def]
  push_cast
  constructor <;> (field_simp; ring)

/-- the same equation at every interior knot, with the boundary states as the outermost knot data -/
def UniformRows : List (Seg K) → List (V2 K) → Prop
  | sL :: sR :: ss, kp :: kc :: kn :: ks =>
      (blockL sL.tp • kp + blockD sL.tp sR.tp • kc + blockU sR.tp • kn = blockRhs sL sR) ∧
      UniformRows (sR :: ss) (kc :: kn :: ks)
  | _, _ => True

theorem uniform_of_solves (bL bR : V2 K) (first : Bool) (xp : V2 K) (sL : Seg K) (rest : List (Seg K)) (xs : List (V2 K))
    (hxp : first = true → xp = 0)
    (h : BSolves xp (rowsAux bR first bL sL rest) xs) :
    UniformRows (sL :: rest) ((if first then bL else xp) :: xs ++ [bR]) := by
  induction rest generalizing first xp sL xs with
  | nil => cases xs <;> simp [UniformRows]
  | cons sR rest ih =>
    cases xs with
    | nil => simp [rowsAux, BSolves] at h
    | cons x xs =>
      simp only [rowsAux, BSolves] at h
      obtain ⟨hrow, hrest⟩ := h
      have ih' := ih false x sR xs (by simp) hrest
      simp only [Bool.false_eq_true, if_false] at ih'
      cases rest with
      | nil =>
        cases xs with
        | cons _ _ => simp [rowsAux, BSolves] at hrest
        | nil =>
          simp only [List.nil_append, List.cons_append, UniformRows, and_true]
          simp only [List.headD_nil, smul_zero, add_zero] at hrow
          cases first with
          | true =>
            simp only [if_true] at hrow ⊢
            rw [hxp rfl, smul_zero, zero_add] at hrow
            have : V2.sub (V2.sub (blockRhs sL sR) (M2.act (blockL sL.tp) bL)) (M2.act (blockU sR.tp) bR)
                = blockRhs sL sR - blockL sL.tp • bL - blockU sR.tp • bR := rfl
            rw [this] at hrow
            rw [hrow]; abel
          | false =>
            simp only [Bool.false_eq_true, if_false] at hrow ⊢
            have : V2.sub (blockRhs sL sR) (M2.act (blockU sR.tp) bR) = blockRhs sL sR - blockU sR.tp • bR := rfl
            rw [this] at hrow
            rw [hrow]; abel
      | cons sR2 rest2 =>
        cases xs with
        | nil => simp [rowsAux, BSolves] at hrest
        | cons x2 xs2 =>
          simp only [List.cons_append, UniformRows] at ih' ⊢
          refine ⟨?_, ih'⟩
          simp only [List.headD_cons] at hrow
          cases first with
          | true =>
            simp only [if_true] at hrow ⊢
            rw [hxp rfl, smul_zero, zero_add] at hrow
            have : V2.sub (blockRhs sL sR) (M2.act (blockL sL.tp) bL) = blockRhs sL sR - blockL sL.tp • bL := rfl
            rw [this] at hrow
            rw [add_assoc, hrow]; abel
          | false =>
            simp only [Bool.false_eq_true, if_false] at hrow ⊢
            exact hrow

/-- consecutive pieces agree in jerk and snap at their common knot -/
def JumpFree34 : List K → List (C6 K) → Prop
  | h :: hs, c :: c' :: cs => q_ev3 c h = q_ev3 c' 0 ∧ q_ev4 c h = q_ev4 c' 0 ∧ JumpFree34 hs (c' :: cs)
  | _, _ => True

theorem jumpFree_of_uniform (hs Ps : List K) (ks : List (V2 K)) (hne : ∀ h ∈ hs, h ≠ 0)
    (hP : Ps.length = hs.length + 1) (hk : ks.length = hs.length + 1)
    (hu : UniformRows (mkSegs hs Ps) ks) : JumpFree34 hs (closure (mkSegs hs Ps) ks) := by
  induction hs generalizing Ps ks with
  | nil => simp [JumpFree34]
  | cons hL hs ih =>
    match Ps, ks, hP, hk with
    | p0 :: p1 :: Ps, kp :: kc :: ks, hP, hk =>
      cases hs with
      | nil =>
        match Ps, ks with
        | [], [] => simp [mkSegs, closure, JumpFree34]
      | cons hR hs' =>
        match Ps, ks, hP, hk with
        | p2 :: Ps', kn :: ks', hP, hk =>
          simp only [mkSegs, UniformRows] at hu
          obtain ⟨hrow, hrest⟩ := hu
          have hhL : hL ≠ 0 := hne hL (by simp)
          have hhR : hR ≠ 0 := hne hR (by simp)
          obtain ⟨i1, i2⟩ := quintic_row_identity hL hR p0 p1 p2 kp kc kn hhL hhR
          simp only at i1 i2
          rw [hrow, sub_self] at i1 i2
          have ih' := ih (p1 :: p2 :: Ps') (kc :: kn :: ks') (fun x hx => hne x (by simp [hx]))
            (by simpa using hP) (by simpa using hk) (by simpa [mkSegs] using hrest)
          simp only [mkSegs, closure, JumpFree34] at ih' ⊢
          refine ⟨?_, ?_, ih'⟩
          · have : (0 : V2 K).y = 0 := rfl
            rw [this] at i2; exact (sub_eq_zero.mp i2.symm)
          · have : (0 : V2 K).x = 0 := rfl
            rw [this] at i1; exact (sub_eq_zero.mp i1.symm)

/-- pivot hypothesis of the quintic block elimination for given durations (the determinants the code divides by) -/
def QuinticPivOK (hs Ps : List K) (bL bR : V2 K) : Prop :=
  BPivOK M2.inv none (rows bL bR (mkSegs hs Ps))

/-- **C02 (quintic), every N, under the pivot hypothesis**: jerk and snap are continuous at every interior knot;
together with `quintic_build_hermite` (C⁰–C², interpolation, boundary states) these are all optimality conditions of
the minimum-jerk interpolant. -/
theorem quintic_KKT_partial (hs Ps : List K) (bL bR : V2 K) (hne : ∀ h ∈ hs, h ≠ 0)
    (hP : Ps.length = hs.length + 1) (hpiv : QuinticPivOK hs Ps bL bR) :
    JumpFree34 hs (build hs Ps bL bR) := by
  have hsol := bthomas_correct M2.inv M2.transpose (rows bL bR (mkSegs hs Ps)) hpiv
  rw [← blkOps_M2] at hsol
  match hs, Ps, hP with
  | [], [_], _ => simp [build, buildFull, mkSegs, closure, JumpFree34]
  | h :: hs', p0 :: p1 :: Ps', hP =>
    have hrl : (rows bL bR (mkSegs (h :: hs') (p0 :: p1 :: Ps'))).length = hs'.length := by
      have : ∀ (first : Bool) (s : Seg K) (rest : List (Seg K)), (rowsAux bR first bL s rest).length = rest.length := by
        intro first s rest
        induction rest generalizing first s with
        | nil => simp [rowsAux]
        | cons a r ih => simp [rowsAux, ih]
      simp only [mkSegs, rows, this]
      have : ∀ (a b : List K), b.length = a.length + 1 → (mkSegs a b).length = a.length := by
        intro a; induction a with
        | nil => intro b _; cases b <;> simp [mkSegs]
        | cons x xs ih =>
          intro b hb
          match b, hb with
          | q0 :: q1 :: qs, hb => simp [mkSegs, ih (q1 :: qs) (by simpa using hb)]
      exact this hs' (p1 :: Ps') (by simpa using hP)
    have hlen : (bback (bfwd none (rows bL bR (mkSegs (h :: hs') (p0 :: p1 :: Ps'))))).length = hs'.length :=
      (bsolves_length _ _ _ hsol).trans hrl
    have hu := uniform_of_solves bL bR true 0 _ _ _ (fun _ => rfl) (by simpa [mkSegs, rows] using hsol)
    simp only [if_true] at hu
    simp only [build, buildFull]
    apply jumpFree_of_uniform (h :: hs') (p0 :: p1 :: Ps') _ hne hP
    · simp only [List.length_cons, List.length_append, List.length_nil]
      omega
    · simpa [mkSegs, bthomas, rows] using hu

end QuinticK
