import STProofs.QuinticUnique
import STProofs.CubicMinimal
import STProofs.Hermite
/-!
# The quintic spline is *the* minimum-jerk interpolant (the variational statement of C02, every N)

For every competitor `g` with a continuous third derivative through the same waypoints at the same knot times with
the same boundary velocity and acceleration:  reported energy of the built spline ≤ ∫ (g''')².

Per segment `∫ (g'''² − s'''²) ≥ 2 [F]₀ʰ` with `F = s'''(g'' − s'') − s''''(g' − s') + s'''''(g − s)` (`s⁽⁶⁾ = 0`);
the `F` terms telescope because `s', s''` (Hermite closure) and `s''', s''''` (`quintic_KKT`, which rests on the
pivot theorem `detOK_of_pos`) are continuous at the knots and `g − s` vanishes there.
-/
open ST ST.Quintic intervalIntegral

namespace QuinticMin

noncomputable def F (c : C6 ℝ) (g0 g1 g2 : ℝ → ℝ) (a τ : ℝ) : ℝ :=
  q_ev3 c τ * (g2 (a + τ) - q_ev2 c τ) - q_ev4 c τ * (g1 (a + τ) - q_ev1 c τ)
    + 120 * c.c5 * (g0 (a + τ) - q_ev c τ)

theorem hasDerivAt_q (c : C6 ℝ) (τ : ℝ) : HasDerivAt (fun t => q_ev c t) (q_ev1 c τ) τ := by
  have h := (((((hasDerivAt_const τ c.c0).add ((hasDerivAt_id τ).const_mul c.c1)).add
    (((hasDerivAt_id τ).pow 2).const_mul c.c2)).add (((hasDerivAt_id τ).pow 3).const_mul c.c3)).add
    (((hasDerivAt_id τ).pow 4).const_mul c.c4)).add (((hasDerivAt_id τ).pow 5).const_mul c.c5)
  refine (h.congr_of_eventuallyEq ?_).congr_deriv ?_
  · exact Filter.Eventually.of_forall (fun t => by simp [q_ev])
  · simp [q_ev1]; ring

theorem hasDerivAt_q1 (c : C6 ℝ) (τ : ℝ) : HasDerivAt (fun t => q_ev1 c t) (q_ev2 c τ) τ := by
  have h := ((((hasDerivAt_const τ c.c1).add ((hasDerivAt_id τ).const_mul (2 * c.c2))).add
    (((hasDerivAt_id τ).pow 2).const_mul (3 * c.c3))).add (((hasDerivAt_id τ).pow 3).const_mul (4 * c.c4))).add
    (((hasDerivAt_id τ).pow 4).const_mul (5 * c.c5))
  refine (h.congr_of_eventuallyEq ?_).congr_deriv ?_
  · exact Filter.Eventually.of_forall (fun t => by simp [q_ev1])
  · simp [q_ev2]; ring

theorem hasDerivAt_q2 (c : C6 ℝ) (τ : ℝ) : HasDerivAt (fun t => q_ev2 c t) (q_ev3 c τ) τ := by
  have h := (((hasDerivAt_const τ (2 * c.c2)).add ((hasDerivAt_id τ).const_mul (6 * c.c3))).add
    (((hasDerivAt_id τ).pow 2).const_mul (12 * c.c4))).add (((hasDerivAt_id τ).pow 3).const_mul (20 * c.c5))
  refine (h.congr_of_eventuallyEq ?_).congr_deriv ?_
  · exact Filter.Eventually.of_forall (fun t => by simp [q_ev2])
  · simp [q_ev3]; ring

theorem hasDerivAt_q3 (c : C6 ℝ) (τ : ℝ) : HasDerivAt (fun t => q_ev3 c t) (q_ev4 c τ) τ := by
  have h := ((hasDerivAt_const τ (6 * c.c3)).add ((hasDerivAt_id τ).const_mul (24 * c.c4))).add
    (((hasDerivAt_id τ).pow 2).const_mul (60 * c.c5))
  refine (h.congr_of_eventuallyEq ?_).congr_deriv ?_
  · exact Filter.Eventually.of_forall (fun t => by simp [q_ev3])
  · simp [q_ev4]; ring

theorem hasDerivAt_q4 (c : C6 ℝ) (τ : ℝ) : HasDerivAt (fun t => q_ev4 c t) (120 * c.c5) τ := by
  have h := (hasDerivAt_const τ (24 * c.c4)).add ((hasDerivAt_id τ).const_mul (120 * c.c5))
  refine (h.congr_of_eventuallyEq ?_).congr_deriv ?_
  · exact Filter.Eventually.of_forall (fun t => by simp [q_ev4])
  · simp

theorem jerk_eq (c : C6 ℝ) (t : ℝ) : Quintic.jerk c t = q_ev3 c t := rfl

/-- a competitor given by its derivative chain, third derivative continuous -/
structure Comp (g0 g1 g2 g3 : ℝ → ℝ) : Prop where
  d0 : ∀ t, HasDerivAt g0 (g1 t) t
  d1 : ∀ t, HasDerivAt g1 (g2 t) t
  d2 : ∀ t, HasDerivAt g2 (g3 t) t
  c3 : Continuous g3

theorem hasDerivAt_F (c : C6 ℝ) (g0 g1 g2 g3 : ℝ → ℝ) (hg : Comp g0 g1 g2 g3) (a τ : ℝ) :
    HasDerivAt (fun t => F c g0 g1 g2 a t) (q_ev3 c τ * (g3 (a + τ) - q_ev3 c τ)) τ := by
  have s0 : HasDerivAt (fun t => g0 (a + t)) (g1 (a + τ)) τ := by
    simpa using (hg.d0 (a + τ)).comp_const_add a τ
  have s1 : HasDerivAt (fun t => g1 (a + t)) (g2 (a + τ)) τ := by
    simpa using (hg.d1 (a + τ)).comp_const_add a τ
  have s2 : HasDerivAt (fun t => g2 (a + t)) (g3 (a + τ)) τ := by
    simpa using (hg.d2 (a + τ)).comp_const_add a τ
  have h := (((hasDerivAt_q3 c τ).mul (s2.sub (hasDerivAt_q2 c τ))).sub
    ((hasDerivAt_q4 c τ).mul (s1.sub (hasDerivAt_q1 c τ)))).add
    ((s0.sub (hasDerivAt_q c τ)).const_mul (120 * c.c5))
  refine (h.congr_of_eventuallyEq ?_).congr_deriv ?_
  · exact Filter.Eventually.of_forall (fun t => by simp [F])
  · simp only [Pi.sub_apply]; ring

theorem continuous_q3 (c : C6 ℝ) : Continuous (fun t => q_ev3 c t) := by
  unfold q_ev3; fun_prop

/-- **one segment** -/
theorem seg_ineq (c : C6 ℝ) (g0 g1 g2 g3 : ℝ → ℝ) (hg : Comp g0 g1 g2 g3) (a h : ℝ) (hh : 0 ≤ h) :
    2 * (F c g0 g1 g2 a h - F c g0 g1 g2 a 0)
      ≤ (∫ τ in (0:ℝ)..h, (g3 (a + τ)) ^ 2) - ∫ τ in (0:ℝ)..h, (Quintic.jerk c τ) ^ 2 := by
  have hcg : Continuous (fun τ => g3 (a + τ)) := hg.c3.comp (continuous_const.add continuous_id)
  have hca := continuous_q3 c
  have hcg2 : Continuous (fun τ => g3 (a + τ) ^ 2) := hcg.pow 2
  have hca2 : Continuous (fun τ => q_ev3 c τ ^ 2) := hca.pow 2
  have hftc : ∫ τ in (0:ℝ)..h, q_ev3 c τ * (g3 (a + τ) - q_ev3 c τ) = F c g0 g1 g2 a h - F c g0 g1 g2 a 0 :=
    integral_eq_sub_of_hasDerivAt (fun τ _ => hasDerivAt_F c g0 g1 g2 g3 hg a τ)
      ((hca.mul (hcg.sub hca)).intervalIntegrable _ _)
  have hsub : (∫ τ in (0:ℝ)..h, (g3 (a + τ)) ^ 2) - ∫ τ in (0:ℝ)..h, (Quintic.jerk c τ) ^ 2
      = ∫ τ in (0:ℝ)..h, ((g3 (a + τ)) ^ 2 - (q_ev3 c τ) ^ 2) :=
    (integral_sub (hcg2.intervalIntegrable 0 h) (hca2.intervalIntegrable 0 h)).symm
  rw [hsub, ← hftc, ← integral_const_mul]
  apply integral_mono_on hh
  · exact (continuous_const.mul (hca.mul (hcg.sub hca))).intervalIntegrable _ _
  · exact (hcg2.sub hca2).intervalIntegrable _ _
  · intro τ _
    nlinarith [sq_nonneg (g3 (a + τ) - q_ev3 c τ)]

theorem herm_head (h : ℝ) (hs : List ℝ) (p : ℝ) (ps : List ℝ) (k : V2 ℝ) (ks : List (V2 ℝ)) (c : C6 ℝ) (cs : List (C6 ℝ))
    (hh : QuinticHermite (h :: hs) (p :: ps) (k :: ks) (c :: cs)) :
    q_ev c 0 = p ∧ q_ev1 c 0 = k.x ∧ q_ev2 c 0 = k.y := by
  match ps, ks, hh with
  | _ :: _, _ :: _, hh => exact ⟨hh.1, hh.2.1, hh.2.2.1⟩

theorem min_aux (g0 g1 g2 g3 : ℝ → ℝ) (hg : Comp g0 g1 g2 g3) (hs Ps : List ℝ) (ks : List (V2 ℝ)) (cs : List (C6 ℝ))
    (a : ℝ) (kN : V2 ℝ)
    (hpos : ∀ h ∈ hs, 0 < h) (hherm : QuinticHermite hs Ps ks cs) (hjf : QuinticK.JumpFree34 hs cs)
    (hthru : CubicMin.Thru g0 a hs Ps) (hklen : ks.length = hs.length + 1) (hlast : ks.getLast? = some kN)
    (hend1 : g1 (a + hs.sum) = kN.x) (hend2 : g2 (a + hs.sum) = kN.y) :
    ∀ c cs', cs = c :: cs' → -(2 * F c g0 g1 g2 a 0) ≤ CubicMin.energyG g3 a hs - Quintic.energyInt hs cs := by
  induction hs generalizing Ps ks cs a with
  | nil =>
    intro c cs' hcs; subst hcs
    simp [QuinticHermite] at hherm
  | cons h hs ih =>
    intro c cs' hcs
    subst hcs
    have hh : 0 < h := hpos h (by simp)
    have hseg := seg_ineq c g0 g1 g2 g3 hg a h hh.le
    match Ps, ks, hherm with
    | p0 :: p1 :: Ps', k0 :: k1 :: ks', hherm =>
      obtain ⟨e0, e1, e2, e3, e4, e5, hrest⟩ := hherm
      obtain ⟨t0, hthru'⟩ := hthru
      have t1 : g0 (a + h) = p1 := CubicMin.thru_head g0 (a + h) _ p1 Ps' hthru'
      cases hs with
      | nil =>
        match cs', hrest with
        | [], _ =>
          simp only [List.sum_cons, List.sum_nil, add_zero] at hend1 hend2
          have hk : k1 = kN := by
            match ks', hklen with
            | [], _ => simpa using hlast
          have hFh : F c g0 g1 g2 a h = 0 := by
            simp only [F]; rw [hend1, hend2, e4, e5, t1, e3, hk]; ring
          simp only [CubicMin.energyG, Quintic.energyInt, add_zero]
          rw [hFh] at hseg
          linarith
      | cons h' hs' =>
        match cs', hrest, hjf with
        | [], hrest, _ => exact absurd hrest (by cases Ps' <;> cases ks' <;> simp [QuinticHermite])
        | c' :: cs'', hrest, hjf =>
          obtain ⟨j3, j4, hjf'⟩ := hjf
          have hlast' : (k1 :: ks').getLast? = some kN := by
            rw [← hlast]; exact (List.getLast?_cons_cons).symm
          have ih' := ih (p1 :: Ps') (k1 :: ks') (c' :: cs'') (a + h) (fun x hx => hpos x (by simp [hx])) hrest hjf'
            hthru' (by simpa using hklen) hlast' (by rw [← hend1]; simp only [List.sum_cons]; ring_nf)
            (by rw [← hend2]; simp only [List.sum_cons]; ring_nf) c' cs'' rfl
          obtain ⟨f0, f1, f2⟩ := herm_head h' hs' p1 Ps' k1 ks' c' cs'' hrest
          have hFh : F c g0 g1 g2 a h = F c' g0 g1 g2 (a + h) 0 := by
            simp only [F, add_zero]
            rw [j3, j4, e4, e5, e3, t1, f0, f1, f2]
            ring
          have u1 : CubicMin.energyG g3 a (h :: h' :: hs')
              = (∫ τ in (0:ℝ)..h, (g3 (a + τ)) ^ 2) + CubicMin.energyG g3 (a + h) (h' :: hs') := rfl
          have u2 : Quintic.energyInt (h :: h' :: hs') (c :: c' :: cs'')
              = (∫ t in (0:ℝ)..h, (Quintic.jerk c t) ^ 2) + Quintic.energyInt (h' :: hs') (c' :: cs'') := rfl
          rw [u1, u2]
          rw [hFh] at hseg
          linarith

/-- **C02 (quintic): the built spline minimises ∫(g''')² among all competitors through the same data — every N** -/
theorem quintic_minimal (hs Ps : List ℝ) (bL bR : V2 ℝ) (hpos : ∀ h ∈ hs, 0 < h) (hne0 : hs ≠ [])
    (hP : Ps.length = hs.length + 1)
    (g0 g1 g2 g3 : ℝ → ℝ) (hg : Comp g0 g1 g2 g3) (t0 : ℝ) (hthru : CubicMin.Thru g0 t0 hs Ps)
    (hv0 : g1 t0 = bL.x) (ha0 : g2 t0 = bL.y) (hvn : g1 (t0 + hs.sum) = bR.x) (han : g2 (t0 + hs.sum) = bR.y) :
    Quintic.energy hs (build hs Ps bL bR) ≤ ∫ t in t0..(t0 + hs.sum), (g3 t) ^ 2 := by
  have hne : ∀ h ∈ hs, h ≠ 0 := fun h hh => (hpos h hh).ne'
  have hpiv := QuinticPiv.pivOK2_of_pos hs Ps bL bR hpos
  have hsol := bthomas_correct M2.inv M2.transpose _ (bpivOK_of_2 M2.inv none _ hpiv)
  have hsl : (mkSegs hs Ps).length = hs.length := by
    have : ∀ (a b : List ℝ), b.length = a.length + 1 → (mkSegs a b).length = a.length := by
      intro a
      induction a with
      | nil => intro b _; cases b <;> simp [mkSegs]
      | cons x xs ih =>
        intro b hb
        match b, hb with
        | p0 :: p1 :: b', hb => simp [mkSegs, ih (p1 :: b') (by simpa using hb)]
    exact this hs Ps hP
  have hrl : (rows bL bR (mkSegs hs Ps)).length = hs.length - 1 := by
    rw [QuinticAdj.rows_length, hsl]
  have hin : (bback (bfwd none (rows bL bR (mkSegs hs Ps)))).length + 1 = hs.length := by
    have := bsolves_length _ _ _ hsol
    rw [← blkOps_M2] at this
    have h1 : 1 ≤ hs.length := by cases hs with
      | nil => exact absurd rfl hne0
      | cons _ _ => simp
    show (bthomas (rows bL bR (mkSegs hs Ps))).length + 1 = hs.length
    rw [this, hrl]; omega
  obtain ⟨hherm, hhead, hlast⟩ := quintic_build_hermite hs Ps bL bR hne hP hin
  have hjf := QuinticPiv.quintic_KKT hs Ps bL bR hpos hP
  rw [quintic_energy_total, ← CubicMin.energyG_eq_integral g3 hg.c3]
  match hb : build hs Ps bL bR with
  | [] =>
    rw [hb] at hherm
    exfalso
    generalize (buildFull hs Ps bL bR).knots = kk at hherm
    cases hs with
    | nil => exact hne0 rfl
    | cons h hs' =>
      rcases Ps with _ | ⟨p0, _ | ⟨p1, ps⟩⟩ <;> rcases kk with _ | ⟨k0, _ | ⟨k1, ks⟩⟩ <;>
        simp [QuinticHermite] at hherm
  | c :: cs' =>
    have h0 := min_aux g0 g1 g2 g3 hg hs Ps _ (build hs Ps bL bR) t0 bR hpos hherm hjf hthru
      (by simp only [buildFull, List.length_cons, List.length_append, List.length_nil]
          have := hin; simp only [bthomas] at *; omega) hlast hvn han c cs' hb
    have hF0 : F c g0 g1 g2 t0 0 = 0 := by
      rw [hb] at hherm
      match hs, hne0, Ps, hP with
      | h :: hs', _, p0 :: ps, _ =>
        have hk : (buildFull (h :: hs') (p0 :: ps) bL bR).knots
            = bL :: (bthomas (rows bL bR (mkSegs (h :: hs') (p0 :: ps))) ++ [bR]) := rfl
        rw [hk] at hherm
        obtain ⟨f0, f1, f2⟩ := herm_head h hs' p0 ps bL _ c cs' hherm
        simp only [F, add_zero]
        rw [hv0, ha0, f0, f1, f2, CubicMin.thru_head g0 t0 _ p0 ps hthru]; ring
    rw [hF0] at h0
    rw [hb] at h0
    linarith

end QuinticMin
