import STProofs.QuinticAdjoint
import STProofs.QuinticKKT
import Mathlib.Tactic.Linarith
import Mathlib.Tactic.Positivity
/-!
# The pivots of the quintic block elimination never vanish (positive durations, every N)

The block rows of the code are, up to the constant sign matrix `Jm = diag(−1, 1)`, the gradient of the
jerk energy with respect to the knot derivatives `(v, a)`.  So the Schur complements of the elimination are Hessians of
partially minimised energies, bounded below by the energy of the next segment alone, which is positive definite.

* `energyForm h w v` : the energy of one quintic piece of duration `h` with zero end positions, `(v,a) = w` at its
  left end and `v` at its right end, written with the code's blocks (`Jm·D_R`, `Jm·U`, `Jm·L`, `Jm·D_L`);
* `energyForm_sos` : it is an explicit sum of three squares with positive weights (shifted Legendre components of the jerk);
* invariant carried by the forward sweep: `wᵀ Jm S w ≥ wᵀ Jm D_R(h) w` for the current pivot `S`;
* `detOK_of_pos` : hence no pivot determinant vanishes — the hypothesis of `quintic_KKT_partial`,
  `quintic_adjoint` and of uniqueness is discharged for all positive durations.
-/
open ST ST.Quintic QuinticAdj

namespace QuinticPiv
variable {K : Type} [Field K] [LinearOrder K] [IsStrictOrderedRing K]

def Jm : M2 K := ⟨-1, 0, 0, 1⟩
/-- the part of `blockD` contributed by the segment left of the knot / right of the knot -/
def DLm (h : K) : M2 K := ⟨(-192) * (1/h)^3, 36 * (1/h)^2, (-36) * (1/h)^2, 9 * (1/h)⟩
def DRm (h : K) : M2 K := ⟨(-192) * (1/h)^3, (-36) * (1/h)^2, 36 * (1/h)^2, 9 * (1/h)⟩

theorem blockD_split (hL hR : K) : blockD (mkTP hL) (mkTP hR) = DLm hL + DRm hR := by
  ext <;> simp only [blockD, mkTP, DLm, DRm, M2.add_def, lit_eq] <;> push_cast <;> ring

/-- energy of one piece (zero end positions) as a quadratic form in the end derivatives, in the code's blocks -/
def energyForm (h : K) (w v : V2 K) : K :=
  ip2 w ((Jm * DRm h) • w) + ip2 w ((Jm * blockU (mkTP h)) • v) + ip2 v ((Jm * blockL (mkTP h)) • w)
    + ip2 v ((Jm * DLm h) • v)

theorem energyForm_sos (h : K) (hh : h ≠ 0) (w v : V2 K) :
    energyForm h w v
      = h * (((v.y - w.y) / h) ^ 2
          + h ^ 2 / 12 * (6 * (h * v.y + h * w.y - 2 * v.x + 2 * w.x) / h ^ 3) ^ 2
          + h ^ 4 / 180 * (30 * (h * v.y - h * w.y - 6 * v.x - 6 * w.x) / h ^ 4) ^ 2) := by
  simp only [energyForm, ip2, Jm, DRm, DLm, blockU, blockL, mkTP, M2.mul_def, V2.smul_def, lit_eq]
  push_cast
  field_simp
  ring

theorem energyForm_nonneg (h : K) (hh : 0 < h) (w v : V2 K) : 0 ≤ energyForm h w v := by
  rw [energyForm_sos h hh.ne']
  positivity

/-- the right-of-knot part is positive definite -/
theorem wr_form (h : K) (hh : h ≠ 0) (w : V2 K) :
    ip2 w ((Jm * DRm h) • w) = 9 * (1/h) * (w.y + 4 * (1/h) * w.x) ^ 2 + 48 * (1/h) ^ 3 * w.x ^ 2 := by
  simp only [ip2, Jm, DRm, M2.mul_def, V2.smul_def]
  field_simp
  ring

theorem wr_posdef (h : K) (hh : 0 < h) (w : V2 K) (hw : ip2 w ((Jm * DRm h) • w) ≤ 0) : w = 0 := by
  rw [wr_form h hh.ne'] at hw
  have hi : 0 < 1 / h := by positivity
  have h1 : 0 ≤ 9 * (1/h) * (w.y + 4 * (1/h) * w.x) ^ 2 := by positivity
  have h2 : 0 ≤ 48 * (1/h) ^ 3 * w.x ^ 2 := by positivity
  have e2 : 48 * (1/h) ^ 3 * w.x ^ 2 = 0 := le_antisymm (by linarith) h2
  have e1 : 9 * (1/h) * (w.y + 4 * (1/h) * w.x) ^ 2 = 0 := le_antisymm (by linarith) h1
  have hx : w.x = 0 := by
    have : (48 * (1/h) ^ 3) ≠ 0 := by positivity
    have := (mul_eq_zero.mp e2).resolve_left this
    exact pow_eq_zero_iff (two_ne_zero) |>.mp this
  have hy : w.y = 0 := by
    have : (9 * (1/h)) ≠ 0 := by positivity
    have := (mul_eq_zero.mp e1).resolve_left this
    have := pow_eq_zero_iff (two_ne_zero) |>.mp this
    rw [hx] at this; simpa using this
  ext <;> simp [hx, hy, V2.zero_def]

/-- a singular 2×2 block has a non-zero kernel vector -/
theorem exists_ker (S : M2 K) (h : M2.det S = 0) : ∃ w : V2 K, w ≠ 0 ∧ S • w = 0 := by
  simp only [M2.det] at h
  by_cases h0 : S.a00 = 0 ∧ S.a01 = 0
  · by_cases h1 : S.a10 = 0 ∧ S.a11 = 0
    · refine ⟨⟨1, 0⟩, ?_, ?_⟩
      · intro e; have := congrArg V2.x e; simp [V2.zero_def] at this
      · ext <;> simp [V2.smul_def, V2.zero_def, h0.1, h1.1]
    · refine ⟨⟨-S.a11, S.a10⟩, ?_, ?_⟩
      · intro e
        have e1 := congrArg V2.x e; have e2 := congrArg V2.y e
        simp [V2.zero_def] at e1 e2; exact h1 ⟨e2, e1⟩
      · ext <;> simp only [V2.smul_def, V2.zero_def]
        · linear_combination -h
        · ring
  · refine ⟨⟨-S.a01, S.a00⟩, ?_, ?_⟩
    · intro e
      have e1 := congrArg V2.x e; have e2 := congrArg V2.y e
      simp [V2.zero_def] at e1 e2; exact h0 ⟨e2, e1⟩
    · ext <;> simp only [V2.smul_def, V2.zero_def]
      · ring
      · linear_combination h

/-! ## the invariant of the forward sweep -/

/-- the current pivot dominates the energy Hessian of the next segment alone -/
def Inv (S : M2 K) (h : K) : Prop := ∀ w : V2 K, ip2 w ((Jm * DRm h) • w) ≤ ip2 w ((Jm * S) • w)

theorem ip2_neg_right (a b : V2 K) : ip2 a (-b) = -ip2 a b := by
  simp only [ip2, V2.neg_def]; ring

theorem ip2_zero_left (x : V2 K) : ip2 (0 : V2 K) x = 0 := by simp [ip2, V2.zero_def]
theorem ip2_zero_right (x : V2 K) : ip2 x (0 : V2 K) = 0 := by simp [ip2, V2.zero_def]

theorem det_ne_of_inv (S : M2 K) (h : K) (hh : 0 < h) (hI : Inv S h) : M2.det S ≠ 0 := by
  intro hd
  obtain ⟨w, hw, hSw⟩ := exists_ker S hd
  have := hI w
  rw [mul_smul Jm S, hSw, smul_zero] at this
  have h0 : ip2 w (0 : V2 K) = 0 := by simp [ip2, V2.zero_def]
  rw [h0] at this
  exact hw (wr_posdef h hh w this)

theorem inv_first (hL hR : K) (hhL : 0 < hL) : Inv (blockD (mkTP hL) (mkTP hR)) hR := by
  intro w
  rw [blockD_split, mul_add, add_smul, ip2_pairing.add_right]
  have := energyForm_nonneg hL hhL 0 w
  simp only [energyForm, ip2_zero_left, smul_zero, ip2_zero_right, zero_add] at this
  linarith

theorem inv_step (S : M2 K) (hL hR : K) (hhL : 0 < hL) (hI : Inv S hL) :
    Inv (blockD (mkTP hL) (mkTP hR) - blockL (mkTP hL) * (M2.inv S * blockU (mkTP hL))) hR := by
  have hdet := det_ne_of_inv S hL hhL hI
  intro v
  set w : V2 K := -((M2.inv S * blockU (mkTP hL)) • v) with hw
  have hSw : S • w = -(blockU (mkTP hL) • v) := by
    rw [hw, smul_neg, ← mul_smul, ← mul_assoc, M2.mul_inv S hdet, one_mul]
  have hS'v : (blockD (mkTP hL) (mkTP hR) - blockL (mkTP hL) * (M2.inv S * blockU (mkTP hL))) • v
      = DLm hL • v + DRm hR • v + blockL (mkTP hL) • w := by
    rw [blockD_split, sub_smul, add_smul, mul_smul (blockL (mkTP hL)), hw, smul_neg]
    abel
  rw [mul_smul Jm (_ - _), hS'v, smul_add, smul_add, ip2_pairing.add_right, ip2_pairing.add_right,
    ← mul_smul, ← mul_smul, ← mul_smul]
  have hE := energyForm_nonneg hL hhL w v
  have hIw := hI w
  have hIw' : ip2 w ((Jm * S) • w) = -ip2 w ((Jm * blockU (mkTP hL)) • v) := by
    rw [mul_smul Jm S, hSw, smul_neg, ip2_neg_right, ← mul_smul]
  simp only [energyForm] at hE
  linarith

/-! ## no pivot determinant vanishes -/

/-- segments with positive durations -/
def PosSegs : List (Seg K) → Prop
  | [] => True
  | s :: ss => (∃ h : K, 0 < h ∧ s.tp = mkTP h) ∧ PosSegs ss

theorem detOK_aux (bL bR : V2 K) (first : Bool) (sL : Seg K) (rest : List (Seg K))
    (hL : K) (hhL : 0 < hL) (htp : sL.tp = mkTP hL) (hrest : PosSegs rest)
    (p : BFact (M2 K) (V2 K)) (S : M2 K) (hpd : p.dinv = M2.inv S) (hpu : p.u = blockU sL.tp) (hI : Inv S hL) :
    DetOK (some p) (rowsAux bR first bL sL rest) := by
  induction rest generalizing first sL hL p S with
  | nil => simp [rowsAux, DetOK]
  | cons sR rest ih =>
    obtain ⟨⟨hR, hhR, htpR⟩, hrest'⟩ := hrest
    simp only [rowsAux, DetOK]
    rw [hpd, hpu, htp, htpR]
    have hI' := inv_step S hL hR hhL hI
    exact ⟨det_ne_of_inv _ hR hhR hI', ih false sR hR hhR htpR hrest' _ _ rfl (by rw [htpR]) hI'⟩

theorem posSegs_mkSegs (hs Ps : List K) (hpos : ∀ h ∈ hs, 0 < h) : PosSegs (mkSegs hs Ps) := by
  induction hs generalizing Ps with
  | nil => cases Ps <;> simp [mkSegs, PosSegs]
  | cons h hs ih =>
    match Ps with
    | [] => simp [mkSegs, PosSegs]
    | [_] => simp [mkSegs, PosSegs]
    | p0 :: p1 :: Ps =>
      simp only [mkSegs, PosSegs]
      exact ⟨⟨h, hpos h (by simp), rfl⟩, ih (p1 :: Ps) (fun x hx => hpos x (by simp [hx]))⟩

/-- **pivot non-singularity, every N**: for positive durations no pivot determinant of the block elimination vanishes -/
theorem detOK_of_pos (hs Ps : List K) (bL bR : V2 K) (hpos : ∀ h ∈ hs, 0 < h) :
    DetOK none (rows bL bR (mkSegs hs Ps)) := by
  have hp := posSegs_mkSegs hs Ps hpos
  match hsegs : mkSegs hs Ps, hp with
  | [], _ => simp [rows, DetOK]
  | [s0], _ => simp [rows, rowsAux, DetOK]
  | s0 :: s1 :: rest, hp =>
    obtain ⟨⟨h0, hh0, htp0⟩, ⟨h1, hh1, htp1⟩, hrest⟩ := hp
    simp only [rows, rowsAux, DetOK]
    rw [htp0, htp1]
    have hI := inv_first h0 h1 hh0
    exact ⟨det_ne_of_inv _ h1 hh1 hI,
      detOK_aux bL bR false s1 rest h1 hh1 htp1 hrest _ _ rfl (by rw [htp1]) hI⟩

end QuinticPiv
