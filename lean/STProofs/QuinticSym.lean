import STProofs.QuinticUnique
import STProofs.Hermite
/-!
# C14 (quintic): translation, amplitude scaling and time scaling — every N, via uniqueness

If a transformation of the data `(durations, waypoints, boundary states)` maps, piece by piece, Hermite closures to
transformed Hermite closures and preserves continuity of jerk and snap, then — because the optimality system has exactly
one solution (`quintic_unique`) — the spline built from the transformed data is the transformed spline.

* `build_affine`  : waypoints `λ·P + a`, boundary states `λ·b`  ⇒ coefficients `λ·c + (a,0,…)`; energy × λ².
* `build_timescale` : durations `μ·T` (μ > 0), boundary `(v/μ, a/μ²)` ⇒ coefficients `c_k/μᵏ` (the same curve run at
  speed 1/μ); energy × μ⁻⁵.
-/
open ST ST.Quintic QuinticAdj QuinticK

namespace QuinticSym
variable {K : Type} [Field K] [LinearOrder K] [IsStrictOrderedRing K]

theorem C6_ext (c d : C6 K) (h0 : c.c0 = d.c0) (h1 : c.c1 = d.c1) (h2 : c.c2 = d.c2) (h3 : c.c3 = d.c3)
    (h4 : c.c4 = d.c4) (h5 : c.c5 = d.c5) : c = d := by
  cases c; cases d; simp_all

def sc (lam : K) (k : V2 K) : V2 K := ⟨lam * k.x, lam * k.y⟩

theorem closure_map (φ ψ : K → K) (gk : V2 K → V2 K) (f : C6 K → C6 K)
    (hseg : ∀ h p0 p1 k0 k1, h ≠ 0 →
      closeSeg (⟨mkTP (φ h), ψ p0, ψ p1 - ψ p0⟩ : Seg K) (gk k0) (gk k1)
        = f (closeSeg (⟨mkTP h, p0, p1 - p0⟩ : Seg K) k0 k1))
    (hs Ps : List K) (ks : List (V2 K)) (hne : ∀ h ∈ hs, h ≠ 0) :
    closure (mkSegs (hs.map φ) (Ps.map ψ)) (ks.map gk) = (closure (mkSegs hs Ps) ks).map f := by
  induction hs generalizing Ps ks with
  | nil => cases Ps <;> simp [mkSegs, closure]
  | cons h hs ih =>
    match Ps with
    | [] => simp [mkSegs, closure]
    | [_] => simp [mkSegs, closure]
    | p0 :: p1 :: Ps' =>
      match ks with
      | [] => simp [mkSegs, closure]
      | [_] => simp [mkSegs, closure]
      | k0 :: k1 :: ks' =>
        have := ih (p1 :: Ps') (k1 :: ks') (fun x hx => hne x (by simp [hx]))
        simp only [List.map_cons, mkSegs, closure] at this ⊢
        rw [this, hseg h p0 p1 k0 k1 (hne h (by simp))]

theorem jumpFree_map (φ : K → K) (f : C6 K → C6 K)
    (h3 : ∀ h c c', q_ev3 c h = q_ev3 c' 0 → q_ev3 (f c) (φ h) = q_ev3 (f c') 0)
    (h4 : ∀ h c c', q_ev4 c h = q_ev4 c' 0 → q_ev4 (f c) (φ h) = q_ev4 (f c') 0)
    (hs : List K) (cs : List (C6 K)) (hj : JumpFree34 hs cs) : JumpFree34 (hs.map φ) (cs.map f) := by
  induction hs generalizing cs with
  | nil => simp [JumpFree34]
  | cons h hs ih =>
    match cs, hj with
    | [], _ => simp [JumpFree34]
    | [_], _ => simp [JumpFree34]
    | c :: c' :: cs', hj =>
      obtain ⟨j3, j4, hj'⟩ := hj
      exact ⟨h3 h c c' j3, h4 h c c' j4, ih (c' :: cs') hj'⟩

/-- **transfer principle** -/
theorem build_transform (φ ψ : K → K) (gk : V2 K → V2 K) (f : C6 K → C6 K)
    (hφ : ∀ h, 0 < h → 0 < φ h)
    (hseg : ∀ h p0 p1 k0 k1, h ≠ 0 →
      closeSeg (⟨mkTP (φ h), ψ p0, ψ p1 - ψ p0⟩ : Seg K) (gk k0) (gk k1)
        = f (closeSeg (⟨mkTP h, p0, p1 - p0⟩ : Seg K) k0 k1))
    (h3 : ∀ h c c', q_ev3 c h = q_ev3 c' 0 → q_ev3 (f c) (φ h) = q_ev3 (f c') 0)
    (h4 : ∀ h c c', q_ev4 c h = q_ev4 c' 0 → q_ev4 (f c) (φ h) = q_ev4 (f c') 0)
    (hs Ps : List K) (bL bR : V2 K) (hpos : ∀ h ∈ hs, 0 < h) (hne0 : hs ≠ []) (hP : Ps.length = hs.length + 1) :
    build (hs.map φ) (Ps.map ψ) (gk bL) (gk bR) = (build hs Ps bL bR).map f := by
  have hne : ∀ h ∈ hs, h ≠ 0 := fun h hh => (hpos h hh).ne'
  have hjf := QuinticPiv.quintic_KKT hs Ps bL bR hpos hP
  set inner := bthomas (rows bL bR (mkSegs hs Ps)) with hinner
  have hb : build hs Ps bL bR = closure (mkSegs hs Ps) (bL :: inner ++ [bR]) := rfl
  have hcm := closure_map φ ψ gk f hseg hs Ps (bL :: inner ++ [bR]) hne
  have hlen : inner.length + 1 = hs.length := by
    have hpiv := QuinticPiv.pivOK2_of_pos hs Ps bL bR hpos
    have hsol := bthomas_correct M2.inv M2.transpose _ (bpivOK_of_2 M2.inv none _ hpiv)
    have := bsolves_length _ _ _ hsol
    rw [← blkOps_M2] at this
    have hsl : (mkSegs hs Ps).length = hs.length := by
      have : ∀ (a b : List K), b.length = a.length + 1 → (mkSegs a b).length = a.length := by
        intro a
        induction a with
        | nil => intro b _; cases b <;> simp [mkSegs]
        | cons x xs ih =>
          intro b hb
          match b, hb with
          | p0 :: p1 :: b', hb => simp [mkSegs, ih (p1 :: b') (by simpa using hb)]
      exact this hs Ps hP
    have h1 : 1 ≤ hs.length := by cases hs with
      | nil => exact absurd rfl hne0
      | cons _ _ => simp
    rw [hinner, this, QuinticAdj.rows_length, hsl]; omega
  have hj' := jumpFree_map φ f h3 h4 hs _ hjf
  rw [hb, ← hcm] at hj'
  simp only [List.map_cons, List.map_append, List.map_nil] at hj' hcm
  have := QuinticPiv.quintic_unique (hs.map φ) (Ps.map ψ) (gk bL) (gk bR) (inner.map gk)
    (by intro h hh; obtain ⟨a, ha, rfl⟩ := List.mem_map.mp hh; exact hφ a (hpos a ha))
    (by simpa using hne0) (by simp [hP]) (by simpa using hlen) hj'
  rw [← this, hcm, hb]

/-! ## affine change of amplitude -/

def affC (lam a : K) (c : C6 K) : C6 K := ⟨lam * c.c0 + a, lam * c.c1, lam * c.c2, lam * c.c3, lam * c.c4, lam * c.c5⟩

/-- **C14: translation and amplitude scaling** (`lam = 1`: translation by `a`; `a = 0`: scaling by `lam`) -/
theorem build_affine (lam a : K) (hs Ps : List K) (bL bR : V2 K) (hpos : ∀ h ∈ hs, 0 < h) (hne0 : hs ≠ [])
    (hP : Ps.length = hs.length + 1) :
    build hs (Ps.map (fun p => lam * p + a)) (sc lam bL) (sc lam bR) = (build hs Ps bL bR).map (affC lam a) := by
  have := build_transform id (fun p => lam * p + a) (sc lam) (affC lam a) (fun h hh => hh)
    (by
      intro h p0 p1 k0 k1 hh
      simp only [closeSeg, mkTP, affC, id, sc, lit_eq]
      push_cast
      apply C6_ext <;> (simp only []; try field_simp; try ring))
    (by intro h c c' e; simp only [q_ev3, affC, id] at e ⊢; linear_combination lam * e)
    (by intro h c c' e; simp only [q_ev4, affC, id] at e ⊢; linear_combination lam * e)
    hs Ps bL bR hpos hne0 hP
  simpa using this

theorem energySeg_affine (lam a T : K) (c : C6 K) : energySeg T (affC lam a c) = lam ^ 2 * energySeg T c := by
  simp only [energySeg, affC, lit_eq]; ring

/-! ## time scaling -/

def tsC (mu : K) (c : C6 K) : C6 K :=
  ⟨c.c0, c.c1 / mu, c.c2 / mu ^ 2, c.c3 / mu ^ 3, c.c4 / mu ^ 4, c.c5 / mu ^ 5⟩

/-- **C14: scaling all durations by `μ > 0`** with boundary velocity `/μ` and acceleration `/μ²` gives the same curve run
at speed `1/μ` -/
theorem build_timescale (mu : K) (hmu : 0 < mu) (hs Ps : List K) (bL bR : V2 K) (hpos : ∀ h ∈ hs, 0 < h)
    (hne0 : hs ≠ []) (hP : Ps.length = hs.length + 1) :
    build (hs.map (mu * ·)) Ps ⟨bL.x / mu, bL.y / mu ^ 2⟩ ⟨bR.x / mu, bR.y / mu ^ 2⟩
      = (build hs Ps bL bR).map (tsC mu) := by
  have hm : mu ≠ 0 := hmu.ne'
  have := build_transform (mu * ·) id (fun k => ⟨k.x / mu, k.y / mu ^ 2⟩) (tsC mu) (fun h hh => mul_pos hmu hh)
    (by
      intro h p0 p1 k0 k1 hh
      simp only [closeSeg, mkTP, tsC, id, lit_eq]
      push_cast
      apply C6_ext <;> (simp only []; try field_simp; try ring))
    (by
      intro h c c' e
      simp only [q_ev3, tsC] at e ⊢
      have : (6 * (c.c3 / mu ^ 3) + 24 * (c.c4 / mu ^ 4) * (mu * h) + 60 * (c.c5 / mu ^ 5) * (mu * h) ^ 2)
          = (6 * c.c3 + 24 * c.c4 * h + 60 * c.c5 * h ^ 2) / mu ^ 3 := by field_simp
      rw [this, e]; field_simp; ring)
    (by
      intro h c c' e
      simp only [q_ev4, tsC] at e ⊢
      have : (24 * (c.c4 / mu ^ 4) + 120 * (c.c5 / mu ^ 5) * (mu * h)) = (24 * c.c4 + 120 * c.c5 * h) / mu ^ 4 := by
        field_simp
      rw [this, e]; field_simp; ring)
    hs Ps bL bR hpos hne0 hP
  simpa using this

theorem energySeg_timescale (mu T : K) (hmu : mu ≠ 0) (c : C6 K) :
    energySeg (mu * T) (tsC mu c) = energySeg T c / mu ^ 5 := by
  simp only [energySeg, tsC, lit_eq]; field_simp

end QuinticSym
