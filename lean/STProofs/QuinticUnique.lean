import STProofs.QuinticPivots
/-!
# Quintic spline: unconditional optimality conditions, uniqueness, unconditional adjoint (positive durations, every N)

With `QuinticPiv.detOK_of_pos` the pivot hypothesis disappears:

* `quintic_KKT` : jerk and snap are continuous at every interior knot of the built spline;
* `quintic_unique` : *any* choice of knot derivatives (with the prescribed boundary states) whose Hermite closure has
  continuous jerk and snap is the one the code computes — the optimality system has exactly one solution;
* `quintic_adjoint_pos` : `propagateGrad` is the exact adjoint of the construction map.
-/
open ST ST.Quintic QuinticAdj QuinticK

namespace QuinticPiv
variable {K : Type} [Field K] [LinearOrder K] [IsStrictOrderedRing K]

theorem pivOK2_of_pos (hs Ps : List K) (bL bR : V2 K) (hpos : ∀ h ∈ hs, 0 < h) :
    BPivOK2 M2.inv none (rows bL bR (mkSegs hs Ps)) :=
  detOK_pivOK2 none _ (detOK_of_pos hs Ps bL bR hpos)

/-- **C02 (quintic), every N, positive durations**: jerk and snap are continuous at every interior knot -/
theorem quintic_KKT (hs Ps : List K) (bL bR : V2 K) (hpos : ∀ h ∈ hs, 0 < h) (hP : Ps.length = hs.length + 1) :
    JumpFree34 hs (build hs Ps bL bR) :=
  quintic_KKT_partial hs Ps bL bR (fun h hh => (hpos h hh).ne') hP
    (bpivOK_of_2 M2.inv none _ (pivOK2_of_pos hs Ps bL bR hpos))

/-! ## converse directions: continuous jerk and snap ⇒ the block rows hold -/

theorem uniform_of_jumpFree (hs Ps : List K) (ks : List (V2 K)) (hne : ∀ h ∈ hs, h ≠ 0)
    (hP : Ps.length = hs.length + 1) (hk : ks.length = hs.length + 1)
    (hj : JumpFree34 hs (closure (mkSegs hs Ps) ks)) : UniformRows (mkSegs hs Ps) ks := by
  induction hs generalizing Ps ks with
  | nil => cases Ps <;> simp [mkSegs, UniformRows]
  | cons hL hs ih =>
    match Ps, ks, hP, hk with
    | p0 :: p1 :: Ps, kp :: kc :: ks, hP, hk =>
      cases hs with
      | nil =>
        match Ps, ks with
        | [], [] => simp [mkSegs, UniformRows]
      | cons hR hs' =>
        match Ps, ks, hP, hk with
        | p2 :: Ps', kn :: ks', hP, hk =>
          simp only [mkSegs, closure, JumpFree34] at hj
          obtain ⟨j3, j4, hrest⟩ := hj
          have hhL : hL ≠ 0 := hne hL (by simp)
          have hhR : hR ≠ 0 := hne hR (by simp)
          obtain ⟨i1, i2⟩ := quintic_row_identity hL hR p0 p1 p2 kp kc kn hhL hhR
          simp only at i1 i2
          rw [j4, sub_self] at i1
          rw [j3, sub_self] at i2
          have ih' := ih (p1 :: p2 :: Ps') (kc :: kn :: ks') (fun x hx => hne x (by simp [hx]))
            (by simpa using hP) (by simpa using hk) (by simpa [mkSegs, closure] using hrest)
          simp only [mkSegs, UniformRows] at ih' ⊢
          refine ⟨?_, ih'⟩
          have : ∀ a b : V2 K, (a - b).x = 0 → (a - b).y = 0 → a = b := by
            intro a b hx hy
            simp only [V2.sub_def] at hx hy
            ext
            · exact sub_eq_zero.mp hx
            · exact sub_eq_zero.mp hy
          exact this _ _ i1 i2

theorem solves_of_uniform (bL bR : V2 K) (first : Bool) (xp : V2 K) (sL : Seg K) (rest : List (Seg K)) (xs : List (V2 K))
    (hxp : first = true → xp = 0) (hlen : xs.length = rest.length)
    (h : UniformRows (sL :: rest) ((if first then bL else xp) :: xs ++ [bR])) :
    BSolves xp (rowsAux bR first bL sL rest) xs := by
  induction rest generalizing first xp sL xs with
  | nil =>
    match xs, hlen with
    | [], _ => simp [rowsAux, BSolves]
  | cons sR rest ih =>
    match xs, hlen with
    | x :: xs, hlen =>
      cases rest with
      | nil =>
        match xs, hlen with
        | [], _ =>
          simp only [List.nil_append, List.cons_append, UniformRows, and_true] at h
          simp only [rowsAux, BSolves, List.headD_nil, smul_zero, add_zero, and_true]
          cases first with
          | true =>
            simp only [if_true] at h ⊢
            rw [hxp rfl, smul_zero, zero_add]
            have : V2.sub (V2.sub (blockRhs sL sR) (M2.act (blockL sL.tp) bL)) (M2.act (blockU sR.tp) bR)
                = blockRhs sL sR - blockL sL.tp • bL - blockU sR.tp • bR := rfl
            rw [this, ← h]; abel
          | false =>
            simp only [Bool.false_eq_true, if_false] at h ⊢
            have : V2.sub (blockRhs sL sR) (M2.act (blockU sR.tp) bR) = blockRhs sL sR - blockU sR.tp • bR := rfl
            rw [this, ← h]; abel
      | cons sR2 rest2 =>
        match xs, hlen with
        | x2 :: xs2, hlen =>
          simp only [List.cons_append, UniformRows] at h
          obtain ⟨hrow, hrest⟩ := h
          have ih' := ih false x sR (x2 :: xs2) (by simp) (by simpa using hlen)
            (by simpa [UniformRows] using hrest)
          simp only [rowsAux, BSolves, List.headD_cons]
          refine ⟨?_, ih'⟩
          cases first with
          | true =>
            simp only [if_true] at hrow ⊢
            rw [hxp rfl, smul_zero, zero_add]
            have : V2.sub (blockRhs sL sR) (M2.act (blockL sL.tp) bL) = blockRhs sL sR - blockL sL.tp • bL := rfl
            rw [this, ← hrow]; abel
          | false =>
            simp only [Bool.false_eq_true, if_false] at hrow ⊢
            exact hrow

/-- **uniqueness of the optimality system (quintic, every N)**: knot derivatives `bL :: inner ++ [bR]` whose Hermite closure
has continuous jerk and snap are exactly those the code computes, hence the pieces are the published ones -/
theorem quintic_unique (hs Ps : List K) (bL bR : V2 K) (inner : List (V2 K))
    (hpos : ∀ h ∈ hs, 0 < h) (hne0 : hs ≠ []) (hP : Ps.length = hs.length + 1) (hin : inner.length + 1 = hs.length)
    (hj : JumpFree34 hs (closure (mkSegs hs Ps) (bL :: inner ++ [bR]))) :
    closure (mkSegs hs Ps) (bL :: inner ++ [bR]) = build hs Ps bL bR := by
  have hne : ∀ h ∈ hs, h ≠ 0 := fun h hh => (hpos h hh).ne'
  have hu := uniform_of_jumpFree hs Ps (bL :: inner ++ [bR]) hne hP (by simp; omega) hj
  have hseglen : (mkSegs hs Ps).length = hs.length := by
    have : ∀ (a b : List K), b.length = a.length + 1 → (mkSegs a b).length = a.length := by
      intro a
      induction a with
      | nil => intro b _; cases b <;> simp [mkSegs]
      | cons x xs ih =>
        intro b hb
        match b, hb with
        | p0 :: p1 :: b', hb => simp [mkSegs, ih (p1 :: b') (by simpa using hb)]
    exact this hs Ps hP
  match hsegs : mkSegs hs Ps, hseglen with
  | [], hl => exact absurd (List.eq_nil_of_length_eq_zero hl.symm) hne0
  | s0 :: rest, hl =>
    rw [hsegs] at hu
    have hsol := solves_of_uniform bL bR true 0 s0 rest inner (fun _ => rfl)
      (by simp only [List.length_cons] at hl; omega) (by simpa using hu)
    have hpiv := pivOK2_of_pos hs Ps bL bR hpos
    rw [hsegs] at hpiv
    have hrows : rows bL bR (s0 :: rest) = rowsAux bR true bL s0 rest := rfl
    rw [hrows] at hpiv
    have huniq := bthomas_unique M2.inv M2.transpose _ hpiv inner hsol
    show _ = (buildFull hs Ps bL bR).coeffs
    simp only [buildFull, hsegs, hrows]
    rw [huniq]
    rfl

/-- **C05 (quintic), every N, positive durations** -/
theorem quintic_adjoint_pos (hs Ps : List (Dual K)) (bL bR : V2 (Dual K)) (gs : List (C6 K)) (gT : List K)
    (hne0 : hs ≠ []) (hpos : ∀ h ∈ hs, 0 < h.re)
    (hP : Ps.length = hs.length + 1) (hg : gs.length = hs.length) (hgT : gT.length = hs.length) :
    let b := buildFull (hs.map Dual.re) (Ps.map Dual.re) (V2re bL) (V2re bR)
    let out := propagate b gs
    gdotC6 gs (build hs Ps bL bR) + dot gT (hs.map Dual.du)
      = dot out.points (Ps.map Dual.du) + dot (zipAdd gT out.times) (hs.map Dual.du)
        + ip2 out.start (V2du bL) + ip2 out.fin (V2du bR) :=
  quintic_adjoint hs Ps bL bR gs gT hne0 (fun h hh => (hpos h hh).ne') hP hg hgT
    (detOK_of_pos _ _ _ _ (by intro h hh; obtain ⟨a, ha, rfl⟩ := List.mem_map.mp hh; exact hpos a ha))

end QuinticPiv
