import STProofs.Layout
import STProofs.Alg
/-!
# C09 — the initial guess decodes back to the reference; unflagged quantities stay pinned (every N, flags, maps)

`generateInitialGuess` writes `toTau(T_ref)`, then `toUnconstrained(P_ref[i])` for every optimised waypoint at its
layout offset, then every flagged boundary block; `decode` reads the same slices.  The slices are packed (each starts
where the previous one ends: `layoutFrom_packed`), hence disjoint, so every read returns what was written
(`applyW_spec`), and with maps that invert each other on the reference data the decoded problem is the reference problem
(`roundtrip`).  Independently of the decision vector, a waypoint that is not optimised and a boundary block that is not
flagged keep their reference value (`decode_pinned_waypoint`, `decode_pinned_block`).
-/
open ST

namespace RoundTrip
variable {α : Type}

/-! ## slices -/

theorem writeAt_length (x : List α) (off : Nat) (v : List α) (h : off + v.length ≤ x.length) :
    (writeAt x off v).length = x.length := by
  simp only [writeAt, List.length_append, List.length_take, List.length_drop]; omega

theorem segment_writeAt_same (x : List α) (off : Nat) (v : List α) (h : off + v.length ≤ x.length) :
    segment (writeAt x off v) off v.length = v := by
  simp only [segment, writeAt]
  have h1 : (x.take off).length = off := by simp; omega
  rw [List.append_assoc, List.drop_append_of_le_length (by omega), List.drop_of_length_le (by omega), List.nil_append,
    List.take_append_of_le_length (by omega), List.take_length]

theorem segment_writeAt_before (x : List α) (off : Nat) (v : List α) (off' len' : Nat) (hd : off' + len' ≤ off)
    (h : off + v.length ≤ x.length) : segment (writeAt x off v) off' len' = segment x off' len' := by
  simp only [segment, writeAt]
  have h1 : (x.take off).length = off := by simp; omega
  rw [List.append_assoc, List.drop_append_of_le_length (by omega), List.take_append_of_le_length (by simp; omega)]
  rw [List.drop_take, List.take_take]
  congr 1
  omega

theorem segment_writeAt_after (x : List α) (off : Nat) (v : List α) (off' len' : Nat) (hd : off + v.length ≤ off')
    (h : off + v.length ≤ x.length) : segment (writeAt x off v) off' len' = segment x off' len' := by
  simp only [segment, writeAt]
  have h1 : (x.take off ++ v).length = off + v.length := by simp; omega
  rw [List.drop_append (l₁ := x.take off ++ v), List.drop_of_length_le (by rw [h1]; omega), List.nil_append, h1, List.drop_drop]
  congr 2
  omega

/-! ## a sequence of writes to packed slices -/

def applyW (x : List α) (ws : List (Nat × List α)) : List α := ws.foldl (fun x w => writeAt x w.1 w.2) x

def PackedW (hi : Nat) : Nat → List (Nat × List α) → Prop
  | lo, [] => lo ≤ hi
  | lo, w :: ws => lo ≤ w.1 ∧ PackedW hi (w.1 + w.2.length) ws

theorem packedW_le (hi lo : Nat) (ws : List (Nat × List α)) (h : PackedW hi lo ws) : lo ≤ hi := by
  induction ws generalizing lo with
  | nil => exact h
  | cons w ws ih => have := ih _ h.2; have := h.1; omega

theorem applyW_spec (x : List α) (ws : List (Nat × List α)) (lo hi : Nat) (hp : PackedW hi lo ws) (hx : hi ≤ x.length) :
    (applyW x ws).length = x.length ∧
    (∀ w ∈ ws, segment (applyW x ws) w.1 w.2.length = w.2) ∧
    (∀ off len, off + len ≤ lo → segment (applyW x ws) off len = segment x off len) ∧
    (∀ off len, hi ≤ off → segment (applyW x ws) off len = segment x off len) := by
  induction ws generalizing x lo with
  | nil => exact ⟨rfl, by simp, fun _ _ _ => rfl, fun _ _ _ => rfl⟩
  | cons w ws ih =>
    obtain ⟨hlo, hp'⟩ := hp
    have hle := packedW_le hi _ ws hp'
    have hb : w.1 + w.2.length ≤ x.length := by omega
    have hlen := writeAt_length x w.1 w.2 hb
    obtain ⟨i1, i2, i3, i4⟩ := ih (writeAt x w.1 w.2) (w.1 + w.2.length) hp' (by rw [hlen]; exact hx)
    refine ⟨by simp only [applyW, List.foldl_cons] at i1 ⊢; rw [i1, hlen], ?_, ?_, ?_⟩
    · intro w' hw'
      rcases List.mem_cons.mp hw' with rfl | hin
      · show segment (applyW (writeAt x w'.1 w'.2) ws) w'.1 w'.2.length = w'.2
        rw [i3 w'.1 w'.2.length (le_refl _), segment_writeAt_same x w'.1 w'.2 hb]
      · exact i2 w' hin
    · intro off len hol
      show segment (applyW (writeAt x w.1 w.2) ws) off len = _
      rw [i3 off len (by omega), segment_writeAt_before x w.1 w.2 off len (by omega) hb]
    · intro off len hol
      show segment (applyW (writeAt x w.1 w.2) ws) off len = _
      rw [i4 off len hol, segment_writeAt_after x w.1 w.2 off len (by omega) hb]

/-! ## the layout packs its slices -/

/-- slices of the spatial variables: consecutive, starting at `off`; points strictly increasing from `i` -/
def PackedL (hi : Nat) : Nat → Nat → List LayoutVar → Prop
  | _, off, [] => off = hi
  | i, off, v :: vs => i ≤ v.point ∧ v.offset = off ∧ PackedL hi (v.point + 1) (off + v.dof) vs

theorem layoutFrom_packed (f : Flags) (n : Nat) (udim : Nat → Nat) (fuel i off : Nat) :
    PackedL (layoutFrom f n udim fuel i off).2 i off (layoutFrom f n udim fuel i off).1 ∧
    ∀ v ∈ (layoutFrom f n udim fuel i off).1, v.dof = udim v.point ∧ spatialOptimized f n v.point = true := by
  induction fuel generalizing i off with
  | zero => simp [layoutFrom, PackedL]
  | succ k ih =>
    simp only [layoutFrom]
    split
    · rename_i h
      obtain ⟨h1, h2⟩ := ih (i + 1) (off + udim i)
      refine ⟨⟨le_refl _, rfl, h1⟩, ?_⟩
      intro v hv
      rcases List.mem_cons.mp hv with rfl | hin
      · exact ⟨rfl, h⟩
      · exact h2 v hin
    · obtain ⟨h1, h2⟩ := ih (i + 1) off
      refine ⟨?_, h2⟩
      -- skipping a point keeps the packing (points only need a lower bound)
      have : ∀ (vs : List LayoutVar) (hi' lo off' : Nat), PackedL hi' (lo + 1) off' vs → PackedL hi' lo off' vs := by
        intro vs hi' lo off' hh
        cases vs with
        | nil => exact hh
        | cons v vs => exact ⟨by have := hh.1; omega, hh.2.1, hh.2.2⟩
      exact this _ _ _ _ h1


theorem foldl_setRow_getD_ne' {β : Type} (vs : List LayoutVar) (val : LayoutVar → List β) (w0 : List (List β)) (i : Nat)
    (h : ∀ v ∈ vs, v.point ≠ i) :
    (vs.foldl (fun w v => setRow w v.point (val v)) w0).getD i [] = w0.getD i [] := by
  induction vs generalizing w0 with
  | nil => rfl
  | cons v vs ih =>
    rw [List.foldl_cons, ih _ (fun x hx => h x (by simp [hx]))]
    simp only [setRow, List.getD_eq_getElem?_getD]
    rw [List.getElem?_set_ne (h v (by simp))]

/-! ## decode ∘ initialGuess -/
section rt
variable {K : Type} [Field K]

/-- what the maps and the reference data have to satisfy (all of it holds for the built-in maps on valid problems) -/
structure RefOK (c : Config K) : Prop where
  hn : 0 < c.n
  tmInv : ∀ T ∈ c.refTimes, c.tm.toTime (c.tm.toTau T) = T
  smInv : ∀ i, i ≤ c.n → c.sm.toPhysical (c.sm.toUnconstrained (c.refWaypoints.getD i []) i) i = c.refWaypoints.getD i []
  smLen : ∀ i, i ≤ c.n → (c.sm.toUnconstrained (c.refWaypoints.getD i []) i).length = c.sm.udim i
  bcLen : ∀ b ∈ derivBlocks c.order c.flags, (c.refBC.getBlock b).length = c.dim

def blockW (d : Nat) (val : DBlock → List K) : Nat → List DBlock → List (Nat × List K)
  | _, [] => []
  | off, b :: bs => (off, val b) :: blockW d val (off + d) bs

theorem blocks_foldl (d : Nat) (val : DBlock → List K) (bs : List DBlock) (x : List K) (off : Nat) :
    (bs.foldl (fun (acc : List K × Nat) b => (writeAt acc.1 acc.2 (val b), acc.2 + d)) (x, off)).1
      = applyW x (blockW d val off bs) := by
  induction bs generalizing x off with
  | nil => rfl
  | cons b bs ih => simp only [List.foldl_cons, blockW, applyW] at ih ⊢; exact ih _ _

theorem packedW_blocks (d : Nat) (val : DBlock → List K) (bs : List DBlock) (off : Nat)
    (hl : ∀ b ∈ bs, (val b).length = d) : PackedW (off + bs.length * d) off (blockW d val off bs) := by
  induction bs generalizing off with
  | nil => simp [blockW, PackedW]
  | cons b bs ih =>
    refine ⟨le_refl _, ?_⟩
    have := ih (off + d) (fun x hx => hl x (by simp [hx]))
    simp only [hl b (by simp), List.length_cons]
    have e : off + d + bs.length * d = off + (bs.length + 1) * d := by ring
    rw [← e]; exact this

/-- packing of `ws1 ++ ws2` when `ws1` ends exactly where `ws2` starts -/
def EndsAt : Nat → List (Nat × List K) → Nat → Prop
  | lo, [], e => lo = e
  | _, w :: ws, e => EndsAt (w.1 + w.2.length) ws e

theorem packedW_concat (hi lo e : Nat) (ws1 ws2 : List (Nat × List K))
    (h1 : ∀ h', e ≤ h' → PackedW h' lo ws1) (he : EndsAt lo ws1 e) (h2 : PackedW hi e ws2) :
    PackedW hi lo (ws1 ++ ws2) := by
  induction ws1 generalizing lo with
  | nil => simp only [EndsAt] at he; subst he; exact h2
  | cons w ws ih =>
    have hp := h1 e (le_refl _)
    refine ⟨hp.1, ih _ (fun h' hh => (h1 h' hh).2) he⟩

theorem vars_packedW (val : LayoutVar → List K) (vs : List LayoutVar) (hi i off : Nat) (hp : PackedL hi i off vs)
    (hl : ∀ v ∈ vs, (val v).length = v.dof) :
    (∀ h', hi ≤ h' → PackedW h' off (vs.map (fun v => (v.offset, val v)))) ∧
    EndsAt off (vs.map (fun v => (v.offset, val v))) hi := by
  induction vs generalizing i off with
  | nil => simp only [PackedL] at hp; subst hp; exact ⟨fun h' hh => hh, rfl⟩
  | cons v vs ih =>
    obtain ⟨_, ho, hp'⟩ := hp
    have hlv := hl v (by simp)
    obtain ⟨a, b⟩ := ih (v.point + 1) (off + v.dof) hp' (fun x hx => hl x (by simp [hx]))
    simp only [List.map_cons, PackedW, EndsAt, ho, hlv]
    exact ⟨fun h' hh => ⟨le_refl _, a h' hh⟩, b⟩

theorem foldl_setRow_id (vs : List LayoutVar) (val : LayoutVar → Vec K) (w0 : List (Vec K))
    (h : ∀ v ∈ vs, val v = w0.getD v.point []) :
    vs.foldl (fun w v => setRow w v.point (val v)) w0 = w0 := by
  induction vs with
  | nil => rfl
  | cons v vs ih =>
    rw [List.foldl_cons, h v (by simp)]
    have : setRow w0 v.point (w0.getD v.point []) = w0 := by
      simp only [setRow]
      by_cases hp : v.point < w0.length
      · have : w0.getD v.point [] = w0[v.point] := by simp [List.getD_eq_getElem?_getD, hp]
        rw [this]; exact List.set_getElem_self hp
      · exact List.set_eq_of_length_le (by omega)
    rw [this]
    exact ih (fun x hx => h x (by simp [hx]))

theorem setBlock_getBlock (bc : BC K) (b : DBlock) : bc.setBlock b (bc.getBlock b) = bc := by
  cases b <;> rfl

theorem blocks_decode_id (d : Nat) (x : List K) (bc : BC K) (bs : List DBlock) (off : Nat)
    (h : ∀ w ∈ blockW d bc.getBlock off bs, segment x w.1 d = w.2) :
    (bs.foldl (fun (acc : BC K × Nat) b => (acc.1.setBlock b (segment x acc.2 d), acc.2 + d)) (bc, off)).1 = bc := by
  induction bs generalizing off with
  | nil => rfl
  | cons b bs ih =>
    simp only [List.foldl_cons]
    have h0 := h (off, bc.getBlock b) (by simp [blockW])
    simp only at h0
    rw [h0, setBlock_getBlock]
    exact ih (off + d) (fun w hw => h w (by simp [blockW, hw]))

theorem layoutFrom_point_lt (f : Flags) (n : Nat) (udim : Nat → Nat) (fuel i off : Nat) :
    ∀ v ∈ (layoutFrom f n udim fuel i off).1, v.point < i + fuel := by
  induction fuel generalizing i off with
  | zero => simp [layoutFrom]
  | succ k ih =>
    simp only [layoutFrom]
    split
    · intro v hv
      rcases List.mem_cons.mp hv with rfl | hin
      · simp
      · have := ih (i + 1) _ v hin; omega
    · intro v hv; have := ih (i + 1) _ v hv; omega

theorem blockW_len (d : Nat) (val : DBlock → List K) (bs : List DBlock) (off : Nat) (hl : ∀ b ∈ bs, (val b).length = d) :
    ∀ w ∈ blockW d val off bs, w.2.length = d := by
  induction bs generalizing off with
  | nil => simp [blockW]
  | cons b bs ih =>
    intro w hw
    simp only [blockW, List.mem_cons] at hw
    rcases hw with rfl | hin
    · exact hl b (by simp)
    · exact ih (off + d) (fun x hx => hl x (by simp [hx])) w hin

theorem applyW_append (x : List K) (a b : List (Nat × List K)) : applyW (applyW x a) b = applyW x (a ++ b) := by
  simp [applyW, List.foldl_append]

/-- **C09: the generated initial guess decodes back to the reference durations, waypoints and boundary states** -/
theorem roundtrip (c : Config K) (h : RefOK c) :
    (decode c (initialGuess c)).times = c.refTimes ∧ (decode c (initialGuess c)).waypoints = c.refWaypoints ∧
    (decode c (initialGuess c)).bc = c.refBC := by
  have hn := h.hn
  have hne : c.n ≠ 0 := by omega
  -- the layout
  obtain ⟨vars, hvars⟩ : ∃ v, v = (layoutFrom c.flags c.n c.sm.udim (c.n + 1) 0 c.n).1 := ⟨_, rfl⟩
  obtain ⟨doff, hdoff⟩ : ∃ v, v = (layoutFrom c.flags c.n c.sm.udim (c.n + 1) 0 c.n).2 := ⟨_, rfl⟩
  obtain ⟨blocks, hblocks⟩ : ∃ v, v = derivBlocks c.order c.flags := ⟨_, rfl⟩
  have hL : c.layout = ⟨vars, doff, doff + blocks.length * c.dim⟩ := by
    simp only [Config.layout, layout, hne, if_false, hvars, hdoff, hblocks]
  obtain ⟨hpk, hvs⟩ := layoutFrom_packed c.flags c.n c.sm.udim (c.n + 1) 0 c.n
  have hpt := layoutFrom_point_lt c.flags c.n c.sm.udim (c.n + 1) 0 c.n
  rw [← hvars, ← hdoff] at hpk
  rw [← hvars] at hvs hpt
  -- the writes
  obtain ⟨taus, htaus⟩ : ∃ v, v = c.refTimes.map c.tm.toTau := ⟨_, rfl⟩
  obtain ⟨tu, htu⟩ : ∃ f : LayoutVar → List K, f = fun v => c.sm.toUnconstrained (c.refWaypoints.getD v.point []) v.point :=
    ⟨_, rfl⟩
  obtain ⟨W, hW⟩ : ∃ w : List (Nat × List K), w = (0, taus) :: (vars.map (fun v => (v.offset, tu v))
      ++ blockW c.dim c.refBC.getBlock doff blocks) := ⟨_, rfl⟩
  obtain ⟨x0, hx0⟩ : ∃ x : List K, x = List.replicate (doff + blocks.length * c.dim) (lit 0) := ⟨_, rfl⟩
  have hig : initialGuess c = applyW x0 W := by
    simp only [initialGuess, hL, ← hblocks]
    rw [blocks_foldl, hW, hx0, htaus, htu]
    simp only [applyW, List.foldl_cons, List.foldl_append, List.foldl_map]
  -- the writes are packed
  have htl : taus.length = c.n := by rw [htaus]; simp [Config.n]
  have htul : ∀ v ∈ vars, (tu v).length = v.dof := by
    intro v hv
    rw [htu, (hvs v hv).1]
    exact h.smLen v.point (by have := hpt v hv; omega)
  have hbl : ∀ b ∈ blocks, (c.refBC.getBlock b).length = c.dim := by rw [hblocks]; exact h.bcLen
  obtain ⟨pv1, pv2⟩ := vars_packedW tu vars doff 0 c.n hpk htul
  have hpW : PackedW (doff + blocks.length * c.dim) 0 W := by
    rw [hW]
    refine ⟨le_refl _, ?_⟩
    simp only [zero_add, htl]
    exact packedW_concat _ _ doff _ _ pv1 pv2 (packedW_blocks c.dim c.refBC.getBlock blocks doff hbl)
  obtain ⟨slen, sseg, _, _⟩ := applyW_spec x0 W 0 (doff + blocks.length * c.dim) hpW (by rw [hx0]; simp)
  rw [← hig] at slen sseg
  refine ⟨?_, ?_, ?_⟩
  · -- durations
    have h0 := sseg (0, taus) (by rw [hW]; simp)
    simp only [segment, List.drop_zero, htl] at h0
    simp only [decode]
    apply List.ext_getElem
    · simp [Config.n]
    · intro i h1 h2
      simp only [List.length_map, List.length_range] at h1
      simp only [List.getElem_map, List.getElem_range]
      have hi : (initialGuess c)[i]? = taus[i]? := by
        rw [← h0, List.getElem?_take_of_lt h1]
      have hti : taus[i]? = some (c.tm.toTau c.refTimes[i]) := by
        rw [htaus, List.getElem?_map, List.getElem?_eq_getElem h2]; rfl
      rw [List.getD_eq_getElem?_getD, hi, hti]
      exact h.tmInv _ (List.getElem_mem _)
  · -- waypoints
    simp only [decode, hL]
    apply foldl_setRow_id
    intro v hv
    have h0 := sseg (v.offset, tu v) (by
      rw [hW]; refine List.mem_cons_of_mem _ (List.mem_append_left _ ?_)
      exact List.mem_map.mpr ⟨v, hv, rfl⟩)
    simp only [htul v hv] at h0
    rw [h0, htu]
    exact h.smInv v.point (by have := hpt v hv; omega)
  · -- boundary blocks
    simp only [decode, hL, ← hblocks]
    apply blocks_decode_id
    intro w hw
    have h0 := sseg w (by rw [hW]; exact List.mem_cons_of_mem _ (List.mem_append_right _ hw))
    rw [blockW_len c.dim c.refBC.getBlock blocks doff hbl w hw] at h0
    exact h0

/-! ## pinning: what is not flagged keeps its reference value for every decision vector -/

theorem foldl_setRow_getD_ne (vs : List LayoutVar) (val : LayoutVar → Vec K) (w0 : List (Vec K)) (i : Nat)
    (h : ∀ v ∈ vs, v.point ≠ i) :
    (vs.foldl (fun w v => setRow w v.point (val v)) w0).getD i [] = w0.getD i [] := by
  induction vs generalizing w0 with
  | nil => rfl
  | cons v vs ih =>
    rw [List.foldl_cons, ih _ (fun x hx => h x (by simp [hx]))]
    simp only [setRow, List.getD_eq_getElem?_getD]
    rw [List.getElem?_set_ne (h v (by simp))]

theorem decode_pinned_waypoint (c : Config K) (x : List K) (i : Nat) (hn : 0 < c.n)
    (hi : spatialOptimized c.flags c.n i = false) :
    (decode c x).waypoints.getD i [] = c.refWaypoints.getD i [] := by
  have hne : c.n ≠ 0 := by omega
  simp only [decode, Config.layout, layout, hne, if_false]
  apply foldl_setRow_getD_ne
  intro v hv hvi
  have := ((layoutFrom_packed c.flags c.n c.sm.udim (c.n + 1) 0 c.n).2 v hv).2
  rw [hvi, hi] at this
  exact Bool.false_ne_true this

theorem getBlock_setBlock_ne (bc : BC K) (b b' : DBlock) (v : Vec K) (h : b ≠ b') :
    (bc.setBlock b' v).getBlock b = bc.getBlock b := by
  cases b <;> cases b' <;> first | rfl | exact absurd rfl h

theorem decode_pinned_block (c : Config K) (x : List K) (b : DBlock) (hb : b ∉ derivBlocks c.order c.flags) :
    (decode c x).bc.getBlock b = c.refBC.getBlock b := by
  simp only [decode]
  generalize c.layout.derivOffset = off
  generalize c.refBC = bc
  generalize hbs : derivBlocks c.order c.flags = bs at hb
  clear hbs
  induction bs generalizing bc off with
  | nil => rfl
  | cons b' bs ih =>
    simp only [List.foldl_cons]
    rw [ih _ _ (fun hh => hb (by simp [hh])), getBlock_setBlock_ne bc b b' _ (fun e => hb (by simp [e]))]

/-- non-vacuity: the identity maps satisfy `RefOK` on a well-formed reference problem -/
theorem refOK_identity (c : Config K) (d : Nat) (hn : 0 < c.n) (htm : c.tm = identityTimeMap)
    (hsm : c.sm = identitySpatialMap d) (hw : ∀ i, i ≤ c.n → (c.refWaypoints.getD i []).length = d)
    (hb : ∀ b ∈ derivBlocks c.order c.flags, (c.refBC.getBlock b).length = c.dim) : RefOK c := by
  refine ⟨hn, ?_, ?_, ?_, hb⟩
  · intro T _; rw [htm]; rfl
  · intro i _; rw [hsm]; rfl
  · intro i hi; rw [hsm]; exact hw i hi

end rt

end RoundTrip
