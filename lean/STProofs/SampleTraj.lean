import STProofs.Trajectory
import STProofs.CostDecomp
/-!
# C08 joined with C01/C03: what the optimizer samples is what the published trajectory evaluates to

The running cost receives `p, v, a, j, s` computed from the optimizer's own basis rows (`computeBasisFunctions`) times the
coefficient block of the segment.  These are, coordinate by coordinate, the derivatives of the same polynomial that
`getTrajectory().evaluate(t_global, m)` evaluates through `PPolyND`'s derivative tables: two independent tables of
constants in the code (basis rows vs. falling-factorial factors) that this theorem ties together.
-/
open ST Traj

namespace SampleTraj
variable {K : Type} [Field K] [LinearOrder K] [IsStrictOrderedRing K] [FloorRing K]

theorem vadd_range (d : Nat) (f g : Nat → K) :
    vadd ((List.range d).map f) ((List.range d).map g) = (List.range d).map (fun j => f j + g j) := by
  induction d generalizing f g with
  | zero => simp [vadd]
  | succ d ih =>
    rw [List.range_succ_eq_map]
    simp only [List.map_cons, List.map_map, vadd]
    rw [ih]
    rfl

/-- row vector times stacked block, coordinate by coordinate -/
theorem rtb_stack (d : Nat) (b : List K) (a : Nat → Nat → K) (acc : Nat → K) :
    (List.zipWith (fun bk row => vscale bk row) b ((List.range b.length).map (fun k => (List.range d).map (fun j => a j k)))).foldl
        vadd ((List.range d).map acc)
      = (List.range d).map (fun j => acc j + dot b ((List.range b.length).map (a j))) := by
  induction b generalizing a acc with
  | nil => simp [dot, lit_eq]
  | cons x b ih =>
    simp only [List.length_cons]
    rw [List.range_succ_eq_map]
    simp only [List.map_cons, List.map_map, List.zipWith_cons_cons, List.foldl_cons]
    have hv : vscale x ((List.range d).map (fun j => a j 0)) = (List.range d).map (fun j => x * a j 0) := by
      simp [vscale, List.map_map, Function.comp]
    rw [hv, vadd_range]
    have := ih (fun j k => a j (k + 1)) (fun j => acc j + x * a j 0)
    rw [show ((fun k => List.map (fun j => a j k) (List.range d)) ∘ Nat.succ) = (fun k => List.map (fun j => a j (k + 1)) (List.range d)) from rfl, this]
    apply List.map_congr_left
    intro j _
    rw [dot_cons]
    have e : (List.range b.length).map (a j ∘ Nat.succ) = (List.range b.length).map (fun k => a j (k + 1)) := rfl
    rw [e]
    ring

theorem basis_dRow_cubic (t a0 a1 a2 a3 : K) (m : Nat) (hm : m ≤ 4) :
    dot ((basisRows .cubic t).getD m []) [a0, a1, a2, a3] = hornerS t (dRow 4 m [a0, a1, a2, a3]) := by
  rcases m with _ | _ | _ | _ | _ | m
  · simp [basisRows, dRow, factorEntry, factorAux, hornerS, dot, List.range_succ, lit_eq] <;> first | ring1 | (left; norm_num)
  · simp [basisRows, dRow, factorEntry, factorAux, hornerS, dot, List.range_succ, lit_eq] <;> first | ring1 | (left; norm_num)
  · simp [basisRows, dRow, factorEntry, factorAux, hornerS, dot, List.range_succ, lit_eq] <;> first | ring1 | (left; norm_num)
  · simp [basisRows, dRow, factorEntry, factorAux, hornerS, dot, List.range_succ, lit_eq] <;> first | ring1 | (left; norm_num)
  · simp [basisRows, dRow, factorEntry, factorAux, hornerS, dot, List.range_succ, lit_eq] <;> first | ring1 | (left; norm_num)
  · omega

theorem basis_dRow_quintic (t a0 a1 a2 a3 a4 a5 : K) (m : Nat) (hm : m ≤ 4) :
    dot ((basisRows .quintic t).getD m []) [a0, a1, a2, a3, a4, a5] = hornerS t (dRow 6 m [a0, a1, a2, a3, a4, a5]) := by
  rcases m with _ | _ | _ | _ | _ | m
  · simp [basisRows, dRow, factorEntry, factorAux, hornerS, dot, List.range_succ, lit_eq] <;> first | ring1 | (left; norm_num)
  · simp [basisRows, dRow, factorEntry, factorAux, hornerS, dot, List.range_succ, lit_eq] <;> first | ring1 | (left; norm_num)
  · simp [basisRows, dRow, factorEntry, factorAux, hornerS, dot, List.range_succ, lit_eq] <;> first | ring1 | (left; norm_num)
  · simp [basisRows, dRow, factorEntry, factorAux, hornerS, dot, List.range_succ, lit_eq] <;> first | ring1 | (left; norm_num)
  · simp [basisRows, dRow, factorEntry, factorAux, hornerS, dot, List.range_succ, lit_eq] <;> first | ring1 | (left; norm_num)
  · omega

theorem basis_dRow_septic (t a0 a1 a2 a3 a4 a5 a6 a7 : K) (m : Nat) (hm : m ≤ 4) :
    dot ((basisRows .septic t).getD m []) [a0, a1, a2, a3, a4, a5, a6, a7]
      = hornerS t (dRow 8 m [a0, a1, a2, a3, a4, a5, a6, a7]) := by
  rcases m with _ | _ | _ | _ | _ | m
  · simp [basisRows, dRow, factorEntry, factorAux, hornerS, dot, List.range_succ, lit_eq] <;> first | ring1 | (left; norm_num)
  · simp [basisRows, dRow, factorEntry, factorAux, hornerS, dot, List.range_succ, lit_eq] <;> first | ring1 | (left; norm_num)
  · simp [basisRows, dRow, factorEntry, factorAux, hornerS, dot, List.range_succ, lit_eq] <;> first | ring1 | (left; norm_num)
  · simp [basisRows, dRow, factorEntry, factorAux, hornerS, dot, List.range_succ, lit_eq] <;> first | ring1 | (left; norm_num)
  · simp [basisRows, dRow, factorEntry, factorAux, hornerS, dot, List.range_succ, lit_eq] <;> first | ring1 | (left; norm_num)
  · omega


/-- basis row `m` of the optimizer against a coordinate's coefficient list = Horner value of its `m`-th derivative list -/
theorem basis_dRow (o : Order) (hs : List K) (P : List (Vec K)) (bc : BC K) (j i : Nat) (hne : hs ≠ [])
    (hP : P.length = hs.length + 1) (hi : i < hs.length) (t : K) (m : Nat) (hm : m ≤ 4) :
    dot ((basisRows o t).getD m []) ((colOf o hs P bc j).coeffs.getD i [])
      = hornerS t (dRow o.coeffNum m ((colOf o hs P bc j).coeffs.getD i [])) := by
  have hPj : (P.map (fun r => getC r j)).length = hs.length + 1 := by simp [hP]
  cases o with
  | cubic =>
    have hcl := NDEnergy.cubic_build_length hs _ (getC bc.v0 j) (getC bc.vn j) hne hPj
    simp only [colOf, colCubic, Order.coeffNum]
    rw [map_getD' _ _ i ⟨0, 0, 0, 0⟩ (by rw [hcl]; exact hi)]
    exact basis_dRow_cubic t _ _ _ _ m hm
  | quintic =>
    have hcl := NDEnergy.quintic_build_length hs _ (⟨getC bc.v0 j, getC bc.a0 j⟩ : V2 K) ⟨getC bc.vn j, getC bc.an j⟩ hne hPj
    simp only [colOf, colQuintic, Order.coeffNum]
    rw [map_getD' _ _ i ⟨0, 0, 0, 0, 0, 0⟩ (by rw [hcl]; exact hi)]
    exact basis_dRow_quintic t _ _ _ _ _ _ m hm
  | septic =>
    have hcl := NDEnergy.septic_build_length hs _ (⟨getC bc.v0 j, getC bc.a0 j, getC bc.j0 j⟩ : V3 K)
      ⟨getC bc.vn j, getC bc.an j, getC bc.jn j⟩ hne hPj
    simp only [colOf, colSeptic, Order.coeffNum]
    rw [map_getD' _ _ i ⟨0, 0, 0, 0, 0, 0, 0, 0⟩ (by rw [hcl]; exact hi)]
    exact basis_dRow_septic t _ _ _ _ _ _ _ _ m hm

/-- **what a quadrature node hands to the running cost** (position `m = 0`, velocity, acceleration, jerk, snap `m = 4`):
basis row `m` at local time `t` times the block of segment `i` is, coordinate by coordinate, the Horner value of the
`m`-th derivative list of that coordinate's polynomial -/
theorem sample_block (o : Order) (d : Nat) (hs : List K) (P : List (Vec K)) (t0 : K) (bc : BC K) (hne : hs ≠ [])
    (hP : P.length = hs.length + 1) (i : Nat) (hi : i < hs.length) (t : K) (m : Nat) (hm : m ≤ 4) :
    rowTimesBlock d ((basisRows o t).getD m []) ((buildND o d hs P t0 bc).coeffs.getD i [])
      = (List.range d).map (fun j => hornerS t (dRow o.coeffNum m ((colOf o hs P bc j).coeffs.getD i []))) := by
  have hcl : (buildND o d hs P t0 bc).coeffs.length = hs.length := by simp [buildND, stack]
  have hblk : (buildND o d hs P t0 bc).coeffs.getD i []
      = (List.range o.coeffNum).map (fun q => (List.range d).map (fun j =>
          ((colOf o hs P bc j).coeffs.getD i []).getD q (lit 0))) := by
    rw [List.getD_eq_getElem?_getD, List.getElem?_eq_getElem (by rw [hcl]; exact hi)]
    simp only [buildND, stack, List.getElem_map, List.getElem_range, List.map_map, Option.getD_some]
    rfl
  have hbl : ((basisRows o t).getD m []).length = o.coeffNum := QuadDual.basis_len o t m (by omega)
  rw [hblk, rowTimesBlock]
  have hz : (vzero d : Vec K) = (List.range d).map (fun _ => (0 : K)) := by
    simp only [vzero, lit_eq, Nat.cast_zero]
    apply List.ext_getElem <;> simp
  rw [hz, ← hbl, rtb_stack]
  apply List.map_congr_left
  intro j _
  rw [zero_add, hbl]
  obtain ⟨c1, c2⟩ := colOf_coeffs_shape o hs P bc j hne hP
  have hmem : (colOf o hs P bc j).coeffs.getD i [] ∈ (colOf o hs P bc j).coeffs := by
    rw [List.getD_eq_getElem?_getD, List.getElem?_eq_getElem (by rw [c1]; exact hi)]; simp
  rw [range_getD_eq (c2 _ hmem)]
  exact basis_dRow o hs P bc j i hne hP hi t m hm

/-- **the optimizer samples the published trajectory**: for a node at local time `t` of segment `i` whose global time lies in
that segment's half-open interval (`specIdx = i`: every node except a segment's right end, and every node of the last
segment), the sampled position / velocity / acceleration / jerk / snap are `getTrajectory().evaluate(t_i + t, m)` -/
theorem sample_is_trajectory (o : Order) (d : Nat) (hs : List K) (P : List (Vec K)) (t0 : K) (bc : BC K) (hne : hs ≠ [])
    (hpos : ∀ h ∈ hs, 0 < h) (hP : P.length = hs.length + 1) (i : Nat) (hi : i < hs.length) (t : K) (m : Nat) (hm : m ≤ 4)
    (hmc : m < o.coeffNum) (hseg : specIdx (cumulative t0 hs) ((cumulative t0 hs).getD i 0 + t) = i) :
    rowTimesBlock d ((basisRows o t).getD m []) ((buildND o d hs P t0 bc).coeffs.getD i [])
      = ((buildND o d hs P t0 bc).ppoly.evaluate ((cumulative t0 hs).getD i 0 + t) (m : Int)).2 := by
  rw [sample_block o d hs P t0 bc hne hP i hi t m hm, traj_eval_k o d hs P t0 bc hne hpos hP _ m hmc, hseg, add_sub_cancel_left]

end SampleTraj
