import STModel
import Mathlib.Tactic.Linarith
/-!
# The samples handed to the running cost, for an arbitrary scalar type — in particular IEEE doubles (C08)

Without any law of arithmetic: the quadrature of a segment hands the running cost exactly one sample per node `k = 0 … K`, in
node order, tagged with the segment index, and each sample (local time, global time, p, v, a, j, s) is a function of the segment's
data and of `k` alone — it does not depend on the accumulated cost or gradients, i.e. on what the functor returned at earlier
nodes.  At `Float`: the sample stream of an evaluation is bit for bit the same whatever the user functor answers.
-/
open ST
set_option linter.unusedSectionVars false

namespace AnyNum
section
variable {K : Type} [NumOrd K]

theorem quadStep_sample_indep (o : Order) (d K' : Nat) (run : RunFn K) (i : Nat) (T s0 : K) (blk : List (Vec K)) (a b : SegAcc K) (k : Nat) :
    (quadStep o d K' run i T s0 blk a k).2 = (quadStep o d K' run i T s0 blk b k).2 := rfl

/-- a sample does not depend on the functor either -/
theorem quadStep_sample_run_indep (o : Order) (d K' : Nat) (run run' : RunFn K) (i : Nat) (T s0 : K) (blk : List (Vec K)) (a b : SegAcc K) (k : Nat) :
    (quadStep o d K' run i T s0 blk a k).2 = (quadStep o d K' run' i T s0 blk b k).2 := rfl

theorem quadStep_sample_seg (o : Order) (d K' : Nat) (run : RunFn K) (i : Nat) (T s0 : K) (blk : List (Vec K)) (acc : SegAcc K) (k : Nat) :
    let smp := (quadStep o d K' run i T s0 blk acc k).2
    smp.seg = i ∧
    smp.p = rowTimesBlock d ((basisRows o smp.t).getD 0 []) blk ∧
    smp.v = rowTimesBlock d ((basisRows o smp.t).getD 1 []) blk ∧
    smp.a = rowTimesBlock d ((basisRows o smp.t).getD 2 []) blk ∧
    smp.j = rowTimesBlock d ((basisRows o smp.t).getD 3 []) blk ∧
    smp.s = rowTimesBlock d ((basisRows o smp.t).getD 4 []) blk := ⟨rfl, rfl, rfl, rfl, rfl, rfl⟩

/-- one sample per node, `K+1` per segment, in node order -/
theorem quadSegment_samples (o : Order) (d K' : Nat) (run : RunFn K) (i : Nat) (T s0 : K) (blk : List (Vec K)) :
    (quadSegment o d K' run i T s0 blk).2 =
      (List.range (K' + 1)).map (fun k => (quadStep o d K' run i T s0 blk ⟨lit 0, lit 0, lit 0, []⟩ k).2) := by
  unfold quadSegment
  have gen : ∀ (l : List Nat) (st : SegAcc K × List (Sample K)),
      (l.foldl (fun (st : SegAcc K × List (Sample K)) k =>
        let (acc', smp) := quadStep o d K' run i T s0 blk st.1 k
        (acc', st.2 ++ [smp])) st).2 = st.2 ++ l.map (fun k => (quadStep o d K' run i T s0 blk ⟨lit 0, lit 0, lit 0, []⟩ k).2) := by
    intro l
    induction l with
    | nil => intro st; simp
    | cons k l ih =>
      intro st
      rw [List.foldl_cons, ih]
      simp only [List.map_cons, List.append_assoc, List.singleton_append]
      rfl
  rw [gen]; simp

/-- the sample stream of a segment is the same for every running-cost functor -/
theorem quadSegment_samples_functor_indep (o : Order) (d K' : Nat) (run run' : RunFn K) (i : Nat) (T s0 : K) (blk : List (Vec K)) :
    (quadSegment o d K' run i T s0 blk).2 = (quadSegment o d K' run' i T s0 blk).2 := by
  rw [quadSegment_samples, quadSegment_samples]
  rfl

end
end AnyNum
