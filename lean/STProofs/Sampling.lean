import STProofs.TimeMap
/-!
# `generateTimeSequence` (C20), in exact arithmetic

For `start ≤ end` and `dt > 0` the sequence is `start, start+dt, …, start+N·dt` with `N = ⌊(end-start)/dt⌋`,
followed by `end` exactly when the last regular sample falls short of `end` by more than 1e-6.
-/
open ST

section
variable {K : Type} [Field K] [LinearOrder K] [IsStrictOrderedRing K] [FloorRing K]

/-- number of whole steps that fit -/
noncomputable def nSteps (s e dt : K) : ℕ := (Int.floor ((e - s) / dt)).toNat

/-- the regular samples -/
def regular (s dt : K) (N : ℕ) : List K := (List.range (N + 1)).map (fun (i : ℕ) => s + (i : K) * dt)

theorem floor_nonneg_of (s e dt : K) (hse : s ≤ e) (hdt : 0 < dt) : 0 ≤ Int.floor ((e - s) / dt) :=
  Int.floor_nonneg.mpr (div_nonneg (sub_nonneg.mpr hse) hdt.le)

/-- **shape**: regular samples, then the end iff the last one falls short by more than 1e-6 -/
theorem timeSequence_shape (s e dt : K) (hse : s ≤ e) (hdt : 0 < dt) :
    PPoly.timeSequence s e dt =
      regular s dt (nSteps s e dt) ++
        (if (1 : K) / 1000000 < |s + (nSteps s e dt : K) * dt - e| then [e] else []) := by
  have hfl := floor_nonneg_of s e dt hse hdt
  unfold PPoly.timeSequence
  simp only [NumOrd.floor, lit_eq]
  have hn : (Int.floor ((e - s) / dt) + 1).toNat = nSteps s e dt + 1 := by
    unfold nSteps; omega
  rw [hn]
  have hlast : ((List.range (nSteps s e dt + 1)).map (fun (i : ℕ) => s + ((i : ℕ) : K) * dt)).getLast?
      = some (s + (nSteps s e dt : K) * dt) := by
    rw [List.range_succ, List.map_append]; simp
  simp only [hlast, regular]
  have habs : ∀ x : K, (if x < 0 then -x else x) = |x| := by
    intro x
    split_ifs with h
    · exact (abs_of_neg h).symm
    · exact (abs_of_nonneg (not_lt.mp h)).symm
  simp only [NumOrd.lt, Nat.cast_zero, decide_eq_true_eq, habs]
  push_cast
  split_ifs <;> simp

/-- no regular sample lies beyond the end (in exact arithmetic: not even by rounding) -/
theorem regular_le_end (s e dt : K) (hse : s ≤ e) (hdt : 0 < dt) (i : ℕ) (hi : i ≤ nSteps s e dt) :
    s + (i : K) * dt ≤ e := by
  have hfl := floor_nonneg_of s e dt hse hdt
  have h1 : ((nSteps s e dt : ℕ) : K) ≤ (e - s) / dt := by
    have := Int.floor_le ((e - s) / dt)
    have hc : ((nSteps s e dt : ℕ) : K) = ((Int.floor ((e - s) / dt) : ℤ) : K) := by
      unfold nSteps
      rw [← Int.cast_natCast, Int.toNat_of_nonneg hfl]
    rw [hc]; exact this
  have h2 : (i : K) ≤ (e - s) / dt := le_trans (by exact_mod_cast hi) h1
  have := (le_div_iff₀ hdt).mp h2
  linarith

/-- the last regular sample is less than one step short of the end -/
theorem last_regular_gap (s e dt : K) (hse : s ≤ e) (hdt : 0 < dt) :
    e - (s + (nSteps s e dt : K) * dt) < dt := by
  have hfl := floor_nonneg_of s e dt hse hdt
  have h1 : (e - s) / dt < ((nSteps s e dt : ℕ) : K) + 1 := by
    have := Int.lt_floor_add_one ((e - s) / dt)
    have hc : ((nSteps s e dt : ℕ) : K) = ((Int.floor ((e - s) / dt) : ℤ) : K) := by
      unfold nSteps
      rw [← Int.cast_natCast, Int.toNat_of_nonneg hfl]
    rw [hc]; exact this
  have := (div_lt_iff₀ hdt).mp h1
  linarith

/-- the sequence starts exactly at the requested start -/
theorem timeSequence_head (s e dt : K) (hse : s ≤ e) (hdt : 0 < dt) :
    (PPoly.timeSequence s e dt).head? = some s := by
  rw [timeSequence_shape s e dt hse hdt, regular, List.range_succ_eq_map]
  simp

/-- every sample is at most the end: nothing lies beyond it -/
theorem timeSequence_le_end (s e dt : K) (hse : s ≤ e) (hdt : 0 < dt) :
    ∀ x ∈ PPoly.timeSequence s e dt, x ≤ e := by
  rw [timeSequence_shape s e dt hse hdt]
  intro x hx
  rcases List.mem_append.mp hx with h | h
  · simp only [regular, List.mem_map, List.mem_range] at h
    obtain ⟨i, hi, rfl⟩ := h
    exact regular_le_end s e dt hse hdt i (by omega)
  · split_ifs at h <;> simp_all

/-- the sequence ends within 1e-6 of the requested end -/
theorem timeSequence_last (s e dt : K) (hse : s ≤ e) (hdt : 0 < dt) :
    ∃ l, (PPoly.timeSequence s e dt).getLast? = some l ∧ |l - e| ≤ (1 : K) / 1000000 := by
  rw [timeSequence_shape s e dt hse hdt]
  by_cases h : (1 : K) / 1000000 < |s + (nSteps s e dt : K) * dt - e|
  · refine ⟨e, ?_, ?_⟩
    · rw [if_pos h]; simp
    · rw [sub_self, abs_zero]; positivity
  · refine ⟨s + (nSteps s e dt : K) * dt, ?_, not_lt.mp h⟩
    rw [if_neg h, List.append_nil, regular, List.range_succ, List.map_append]; simp

/-- regular samples advance by exactly the requested step and are strictly increasing -/
theorem regular_step (s dt : K) (N i : ℕ) (hi : i < N) :
    (regular s dt N).getD (i + 1) 0 - (regular s dt N).getD i 0 = dt := by
  simp only [regular]
  rw [List.getD_eq_getElem?_getD, List.getD_eq_getElem?_getD]
  simp only [List.getElem?_map, List.getElem?_range (show i + 1 < N + 1 by omega),
    List.getElem?_range (show i < N + 1 by omega), Option.map_some, Option.getD_some]
  push_cast; ring

/-- the end is appended exactly when the last regular step falls short of it (by more than 1e-6), and then it is
strictly beyond the last regular sample -/
theorem appended_end_iff (s e dt : K) (hse : s ≤ e) (hdt : 0 < dt) :
    (PPoly.timeSequence s e dt).length = nSteps s e dt + 2 ↔ (1 : K) / 1000000 < e - (s + (nSteps s e dt : K) * dt) := by
  rw [timeSequence_shape s e dt hse hdt]
  have hle := regular_le_end s e dt hse hdt (nSteps s e dt) le_rfl
  have habs : |s + (nSteps s e dt : K) * dt - e| = e - (s + (nSteps s e dt : K) * dt) := by
    rw [abs_of_nonpos (by linarith)]; ring
  rw [habs]
  split_ifs with h
  · simpa [regular] using h
  · simp only [regular, List.append_nil, List.length_map, List.length_range]
    constructor
    · intro hh; omega
    · intro hh; exact absurd hh h

/-- the whole sequence is strictly increasing -/
theorem timeSequence_strictMono (s e dt : K) (hse : s ≤ e) (hdt : 0 < dt) :
    (PPoly.timeSequence s e dt).Pairwise (· < ·) := by
  rw [timeSequence_shape s e dt hse hdt]
  have hreg : (regular s dt (nSteps s e dt)).Pairwise (· < ·) := by
    simp only [regular]
    rw [List.pairwise_map]
    refine List.Pairwise.imp ?_ (List.pairwise_lt_range)
    intro a b hab
    have : (a : K) < (b : K) := by exact_mod_cast hab
    nlinarith
  split_ifs with h
  · rw [List.pairwise_append]
    refine ⟨hreg, by simp, ?_⟩
    intro a ha b hb
    rw [List.mem_singleton] at hb
    rw [hb]
    simp only [regular, List.mem_map, List.mem_range] at ha
    obtain ⟨i, hi, rfl⟩ := ha
    have hle := regular_le_end s e dt hse hdt (nSteps s e dt) le_rfl
    have hi' : (i : K) ≤ (nSteps s e dt : K) := by exact_mod_cast (by omega : i ≤ nSteps s e dt)
    have habs : |s + (nSteps s e dt : K) * dt - e| = e - (s + (nSteps s e dt : K) * dt) := by
      rw [abs_of_nonpos (by linarith)]; ring
    rw [habs] at h
    have : (0 : K) < 1 / 1000000 := by positivity
    nlinarith
  · simpa using hreg

end
