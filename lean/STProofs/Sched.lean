import STModel
import Mathlib.Logic.Function.Basic
import Mathlib.Data.List.Perm.Basic
import Mathlib.Data.List.Nodup
/-!
# Schedule independence of the per-segment quadrature (C12), for arbitrary — possibly non-associative —
arithmetic

`calculateIntegralCost` hands the executor a lambda which, for segment `i`, reads only read-only inputs
(decoded durations, coefficients, start times computed beforehand) and slot `i` of four per-segment arrays, and
writes only slot `i` of those arrays; the cross-segment reductions (`cost += …`, the suffix sums of the explicit-time
term) happen afterwards, serially.  So every executor schedule that calls each index once produces the *same bits*:
no floating-point operation is ever re-associated.
-/

/-- per-segment arrays of the workspace (`gdT`, `gdC` block, `segment_costs`, `explicit_time_grad_buffer`) -/
structure SegArrays (β γ : Type) where
  gdT : Nat → β
  gdC : Nat → γ
  cost : Nat → β
  expl : Nat → β

/-- the lambda: `res i` is what segment `i` computes from the read-only inputs; `addβ`, `addγ` are the (arbitrary)
accumulation operations `+=` -/
def segStep {β γ : Type} (addβ : β → β → β) (addγ : γ → γ → γ) (res : Nat → β × γ × β × β)
    (st : SegArrays β γ) (i : Nat) : SegArrays β γ :=
  { gdT := Function.update st.gdT i (addβ (st.gdT i) (res i).1),
    gdC := Function.update st.gdC i (addγ (st.gdC i) (res i).2.1),
    cost := Function.update st.cost i (res i).2.2.1,
    expl := Function.update st.expl i (addβ (st.expl i) (res i).2.2.2) }

variable {β γ : Type} (addβ : β → β → β) (addγ : γ → γ → γ) (res : Nat → β × γ × β × β)

/-- frame condition: step `i` leaves every other slot untouched -/
theorem segStep_frame (st : SegArrays β γ) (i j : Nat) (h : j ≠ i) :
    (segStep addβ addγ res st i).gdT j = st.gdT j ∧ (segStep addβ addγ res st i).gdC j = st.gdC j ∧
    (segStep addβ addγ res st i).cost j = st.cost j ∧ (segStep addβ addγ res st i).expl j = st.expl j := by
  simp [segStep, Function.update_of_ne h]

/-- steps on different segments commute exactly (no arithmetic is shared) -/
theorem segStep_comm (st : SegArrays β γ) (i j : Nat) (h : i ≠ j) :
    segStep addβ addγ res (segStep addβ addγ res st i) j = segStep addβ addγ res (segStep addβ addγ res st j) i := by
  have hji : j ≠ i := fun e => h e.symm
  simp only [segStep, Function.update_of_ne h, Function.update_of_ne hji]
  congr 1 <;> exact Function.update_comm hji _ _ _ |>.symm

/-- **every schedule gives the same result**: any two orders in which the executor visits the same set of segments
(each once) produce identical arrays -/
theorem perm_invariant (st : SegArrays β γ) (l₁ l₂ : List Nat) (hp : l₁.Perm l₂) (hnd : l₁.Nodup) :
    l₁.foldl (segStep addβ addγ res) st = l₂.foldl (segStep addβ addγ res) st := by
  induction hp generalizing st with
  | nil => rfl
  | cons x _ ih => exact ih _ (List.nodup_cons.mp hnd).2
  | swap x y l =>
    simp only [List.foldl_cons]
    have hxy : y ≠ x := by
      intro e
      have := (List.nodup_cons.mp hnd).1
      simp [e] at this
    rw [segStep_comm addβ addγ res st y x hxy]
  | trans h1 _ ih1 ih2 => rw [ih1 st hnd, ih2 st (h1.nodup_iff.mp hnd)]

/-- in particular any permutation of `0 … N-1` equals serial execution -/
theorem schedule_eq_serial (st : SegArrays β γ) (n : Nat) (σ : List Nat) (hσ : σ.Perm (List.range n)) :
    σ.foldl (segStep addβ addγ res) st = (List.range n).foldl (segStep addβ addγ res) st :=
  perm_invariant addβ addγ res st σ (List.range n) hσ (hσ.nodup_iff.mpr List.nodup_range)

/-- a partition onto threads is a schedule too: running the chunks one after another, in any order, is a permutation -/
theorem chunks_eq_serial (st : SegArrays β γ) (n : Nat) (chunks : List (List Nat)) (hσ : chunks.flatten.Perm (List.range n)) :
    chunks.flatten.foldl (segStep addβ addγ res) st = (List.range n).foldl (segStep addβ addγ res) st :=
  schedule_eq_serial addβ addγ res st n _ hσ

/-! ### concurrent evaluations with per-thread workspaces -/

/-- optimizer-level state: the shared configuration (read-only once the layout is clean) and one workspace per thread -/
structure Shared (S W : Type) where
  cfg : S
  ws : Nat → W

/-- an evaluation by thread `k` with a clean layout cache: reads the configuration, rewrites only its own workspace -/
def evalOp {S W : Type} (F : S → W → W) (st : Shared S W) (k : Nat) : Shared S W :=
  { st with ws := Function.update st.ws k (F st.cfg (st.ws k)) }

theorem evalOp_comm {S W : Type} (F : S → W → W) (st : Shared S W) (k k' : Nat) (h : k ≠ k') :
    evalOp F (evalOp F st k) k' = evalOp F (evalOp F st k') k := by
  have h' : k' ≠ k := fun e => h e.symm
  simp only [evalOp, Function.update_of_ne h, Function.update_of_ne h']
  congr 1
  exact (Function.update_comm h' _ _ _).symm

/-- each thread obtains exactly the value of the same call made alone, whatever the other threads do -/
theorem evalOp_result {S W : Type} (F : S → W → W) (st : Shared S W) (others : List Nat) (k : Nat) (hk : k ∉ others) :
    (evalOp F (others.foldl (evalOp F) st) k).ws k = F st.cfg (st.ws k) := by
  have hcfg : ∀ (l : List Nat) (s : Shared S W), (l.foldl (evalOp F) s).cfg = s.cfg := by
    intro l; induction l with
    | nil => intro s; rfl
    | cons a l ih => intro s; rw [List.foldl_cons, ih]; rfl
  have hws : ∀ (l : List Nat) (s : Shared S W), k ∉ l → (l.foldl (evalOp F) s).ws k = s.ws k := by
    intro l; induction l with
    | nil => intro s _; rfl
    | cons a l ih =>
      intro s hn
      rw [List.foldl_cons, ih _ (fun h => hn (List.mem_cons_of_mem _ h))]
      have : k ≠ a := fun e => hn (by simp [e])
      simp [evalOp, Function.update_of_ne this]
  simp [evalOp, hcfg, hws others st hk]

/-- with a *dirty* layout cache an evaluation also writes the shared configuration (`ensureLayoutCache`): two
concurrent evaluations then both write the same location — the model-level statement of finding F1.  After the
repair the setters leave the cache clean (`lcache_clean_after_setter` in `STProofs.Layout`), so this path is
unreachable from `evaluate`. -/
def evalOpDirty {S W : Type} (rebuild : S → S) (F : S → W → W) (st : Shared S W) (k : Nat) : Shared S W :=
  { cfg := rebuild st.cfg, ws := Function.update st.ws k (F (rebuild st.cfg) (st.ws k)) }

theorem dirty_both_write {S W : Type} (rebuild : S → S) (F : S → W → W) (st : Shared S W) (k k' : Nat) :
    (evalOpDirty rebuild F st k).cfg = rebuild st.cfg ∧ (evalOpDirty rebuild F st k').cfg = rebuild st.cfg := ⟨rfl, rfl⟩

example : [2, 0, 1].Perm (List.range 3) := by decide
