import STProofs.Blocks
import STProofs.CubicAdjoint
/-!
# `propagateGrad` of the septic spline is the exact adjoint of the construction map — every N
(under the hypothesis that no pivot determinant of the block elimination vanishes)

Same architecture as the cubic: the construction map on dual numbers; per-segment pull-back identity (first loop);
the differentiated block system; the code's transposed sweeps are the adjoint of the solve (`bsolveT_adjoint`);
per-block identity (second loop); boundary corrections.
-/
open ST ST.Septic

namespace SepticAdj
variable {K : Type} [Field K]

/-! ## real / dual parts of blocks -/
def M3re (a : M3 (Dual K)) : M3 K := ⟨a.a00.re, a.a01.re, a.a02.re, a.a10.re, a.a11.re, a.a12.re, a.a20.re, a.a21.re, a.a22.re⟩
def M3du (a : M3 (Dual K)) : M3 K := ⟨a.a00.du, a.a01.du, a.a02.du, a.a10.du, a.a11.du, a.a12.du, a.a20.du, a.a21.du, a.a22.du⟩
def V3re (v : V3 (Dual K)) : V3 K := ⟨v.x.re, v.y.re, v.z.re⟩
def V3du (v : V3 (Dual K)) : V3 K := ⟨v.x.du, v.y.du, v.z.du⟩

theorem smul_re (a : M3 (Dual K)) (v : V3 (Dual K)) : V3re (a • v) = M3re a • V3re v := by
  ext <;> simp [V3re, M3re, V3.smul_def]
theorem smul_du (a : M3 (Dual K)) (v : V3 (Dual K)) : V3du (a • v) = M3re a • V3du v + M3du a • V3re v := by
  ext <;> simp [V3du, V3re, M3re, M3du, V3.smul_def, V3.add_def] <;> ring
theorem add_re (v w : V3 (Dual K)) : V3re (v + w) = V3re v + V3re w := by ext <;> simp [V3re, V3.add_def]
theorem add_du (v w : V3 (Dual K)) : V3du (v + w) = V3du v + V3du w := by ext <;> simp [V3du, V3.add_def]
theorem sub_re (v w : V3 (Dual K)) : V3re (v - w) = V3re v - V3re w := by ext <;> simp [V3re, V3.sub_def]
theorem sub_du (v w : V3 (Dual K)) : V3du (v - w) = V3du v - V3du w := by ext <;> simp [V3du, V3.sub_def]
theorem zero_re : V3re (0 : V3 (Dual K)) = 0 := by ext <;> simp [V3re, V3.zero_def]
theorem zero_du : V3du (0 : V3 (Dual K)) = 0 := by ext <;> simp [V3du, V3.zero_def]
theorem mul_re (a b : M3 (Dual K)) : M3re (a * b) = M3re a * M3re b := by ext <;> simp [M3re, M3.mul_def]
theorem msub_re (a b : M3 (Dual K)) : M3re (a - b) = M3re a - M3re b := by ext <;> simp [M3re, M3.sub_def]
theorem inv_re (a : M3 (Dual K)) : M3re (M3.inv a) = M3.inv (M3re a) := by
  ext <;> simp only [M3re, M3.inv] <;> dual_proj <;> simp only [lit_eq]
theorem det_re (a : M3 (Dual K)) : (M3.det a).re = M3.det (M3re a) := by simp [M3.det, M3re]

/-- the dot product of 2-vectors and the transpose form a pairing -/
def ip3 (a b : V3 K) : K := a.x * b.x + a.y * b.y + a.z * b.z
theorem ip3_pairing : IsPairing (R := M3 K) (V := V3 K) M3.transpose ip3 where
  add_left a b c := by simp [ip3, V3.add_def]; ring
  add_right a b c := by simp [ip3, V3.add_def]; ring
  adj m v w := by simp [ip3, V3.smul_def, M3.transpose]; ring

/-! ## the differentiated block system -/

def rowRe (r : BRow (M3 (Dual K)) (V3 (Dual K))) : BRow (M3 K) (V3 K) := ⟨M3re r.l, M3re r.d, M3re r.u, V3re r.b⟩

/-- right-hand side of the differentiated system `A·dX = b' − A'·X` -/
def rhoB : V3 K → List (BRow (M3 (Dual K)) (V3 (Dual K))) → List (V3 K) → List (V3 K)
  | xp, r :: rs, x :: xs => (V3du r.b - (M3du r.l • xp + M3du r.d • x + M3du r.u • xs.headD 0)) :: rhoB x rs xs
  | _, _, _ => []

def withB : List (BRow (M3 K) (V3 K)) → List (V3 K) → List (BRow (M3 K) (V3 K))
  | r :: rs, b :: bs => ⟨r.l, r.d, r.u, b⟩ :: withB rs bs
  | _, _ => []

theorem headD_map_V3re (l : List (V3 (Dual K))) : (l.map V3re).headD 0 = V3re (l.headD 0) := by
  cases l <;> simp [zero_re]
theorem headD_map_V3du (l : List (V3 (Dual K))) : (l.map V3du).headD 0 = V3du (l.headD 0) := by
  cases l <;> simp [zero_du]

theorem bsolves_re (xp : V3 (Dual K)) (rows : List (BRow (M3 (Dual K)) (V3 (Dual K)))) (xs : List (V3 (Dual K)))
    (h : BSolves xp rows xs) : BSolves (V3re xp) (rows.map rowRe) (xs.map V3re) := by
  induction rows generalizing xp xs with
  | nil => cases xs <;> simp_all [BSolves]
  | cons r rs ih =>
    cases xs with
    | nil => simp [BSolves] at h
    | cons x xs =>
      obtain ⟨hrow, hrest⟩ := h
      refine ⟨?_, ih x xs hrest⟩
      have := congrArg V3re hrow
      simp only [add_re, smul_re] at this
      simp only [rowRe, headD_map_V3re]
      exact this

theorem bsolves_du (xp : V3 (Dual K)) (rows : List (BRow (M3 (Dual K)) (V3 (Dual K)))) (xs : List (V3 (Dual K)))
    (h : BSolves xp rows xs) :
    BSolves (V3du xp) (withB (rows.map rowRe) (rhoB (V3re xp) rows (xs.map V3re))) (xs.map V3du) := by
  induction rows generalizing xp xs with
  | nil => cases xs <;> simp_all [BSolves, withB, rhoB]
  | cons r rs ih =>
    cases xs with
    | nil => simp [BSolves] at h
    | cons x xs =>
      obtain ⟨hrow, hrest⟩ := h
      simp only [List.map_cons, rhoB, withB, BSolves]
      refine ⟨?_, ih x xs hrest⟩
      have := congrArg V3du hrow
      simp only [add_du, smul_du] at this
      simp only [rowRe, headD_map_V3re, headD_map_V3du]
      rw [← this]; abel

end SepticAdj

namespace SepticAdj
variable {K : Type} [Field K] [CharZero K]

/-- upstream gradient of one piece paired with the dual parts of its coefficients -/
def gdot8 (g : C8 K) (c : C8 (Dual K)) : K :=
  g.c0 * c.c0.du + g.c1 * c.c1.du + g.c2 * c.c2.du + g.c3 * c.c3.du + g.c4 * c.c4.du + g.c5 * c.c5.du
    + g.c6 * c.c6.du + g.c7 * c.c7.du

/-- **first loop, one segment**: the pull-back of one piece through the Hermite closure -/
theorem seg1_identity (h p0 p1 : Dual K) (k0 k1 : V3 (Dual K)) (g : C8 K) (hh : h.re ≠ 0) :
    let s : Seg (Dual K) := ⟨mkTP h, p0, p1 - p0⟩
    let sr : Seg K := ⟨mkTP h.re, p0.re, p1.re - p0.re⟩
    let out := seg1 sr g (V3re k0) (V3re k1)
    gdot8 g (closeSeg s k0 k1)
      = out.1.1 * p0.du + out.1.2 * p1.du + out.2.2 * h.du + ip3 out.2.1.1 (V3du k0) + ip3 out.2.1.2 (V3du k1) := by
  intro s sr out
  simp only [s, sr, out, gdot8, closeSeg, seg1, mkTP, ip3, V3re, V3du, litq]
  dual_proj
  simp only [lit_eq]
  push_cast
  field_simp
  ring

end SepticAdj

namespace SepticAdj
variable {K : Type} [Field K] [CharZero K]

/-- **second loop, one block**: the adjoint variable of a knot paired with the derivative of that knot's block row -/
theorem block2_identity (hL hR pp pc pn : Dual K) (kp kc kn : V3 (Dual K)) (lam : V3 K) (h1 : hL.re ≠ 0) (h2 : hR.re ≠ 0) :
    let sL : Seg (Dual K) := ⟨mkTP hL, pp, pc - pp⟩
    let sR : Seg (Dual K) := ⟨mkTP hR, pc, pn - pc⟩
    let sLr : Seg K := ⟨mkTP hL.re, pp.re, pc.re - pp.re⟩
    let sRr : Seg K := ⟨mkTP hR.re, pc.re, pn.re - pc.re⟩
    let out := block2 sLr sRr (V3re kp) (V3re kc) (V3re kn) lam
    ip3 lam (V3du (blockRhs sL sR)
        - (M3du (blockL sL.tp) • V3re kp + M3du (blockD sL.tp sR.tp) • V3re kc + M3du (blockU sR.tp) • V3re kn))
      = out.1.1 * pp.du + out.1.2.1 * pc.du + out.1.2.2 * pn.du + out.2.1 * hL.du + out.2.2 * hR.du := by
  intro sL sR sLr sRr out
  simp only [sL, sR, sLr, sRr, out, block2, blockRhs, blockL, blockD, blockU, mkTP, ip3, V3re, V3du, M3du,
    V3.smul_def, V3.add_def, V3.sub_def]
  dual_proj
  simp only [lit_eq]
  push_cast
  field_simp
  ring

end SepticAdj

namespace SepticAdj
variable {K : Type} [Field K] [CharZero K]

/-! ## list-level bookkeeping -/

def gdotC8 : List (C8 K) → List (C8 (Dual K)) → K
  | g :: gs, c :: cs => gdot8 g c + gdotC8 gs cs
  | _, _ => 0

/-- pairing of per-segment (left-knot, right-knot) vector contributions with a knot list -/
def segPairV : List (V3 K × V3 K) → List (V3 K) → K
  | (l, r) :: rest, x :: y :: ys => ip3 l x + ip3 r y + segPairV rest (y :: ys)
  | _, _ => 0

theorem ipSum_oaddV3Aux (c : V3 K) (lr : List (V3 K × V3 K)) (xs : List (V3 K)) (hlen : xs.length = lr.length + 1) :
    ipSum ip3 (oaddV3Aux c lr) xs = ip3 c (xs.headD 0) + segPairV lr xs := by
  induction lr generalizing c xs with
  | nil =>
    match xs, hlen with
    | [x], _ => simp [oaddV3Aux, segPairV, ipSum]
  | cons p rest ih =>
    obtain ⟨l, r⟩ := p
    match xs, hlen with
    | x :: y :: ys, hlen =>
      have := ih r (y :: ys) (by simpa using hlen)
      simp only [oaddV3Aux, ipSum, this, segPairV, List.headD_cons]
      have : ip3 (V3.add c l) x = ip3 c x + ip3 l x := ip3_pairing.add_left c l x
      rw [this]; ring

theorem ipSum_oaddV3 (lr : List (V3 K × V3 K)) (xs : List (V3 K)) (hlen : xs.length = lr.length + 1) :
    ipSum ip3 (oaddV3 lr) xs = segPairV lr xs := by
  rw [oaddV3, ipSum_oaddV3Aux _ _ _ hlen]
  have : ip3 (V3.zero : V3 K) (xs.headD 0) = 0 := by simp [ip3, V3.zero]
  rw [this, zero_add]

/-- pairing of per-block (prev, curr, next) contributions with a list -/
def segPair3 : List (K × K × K) → List K → K
  | (a, b, c) :: rest, x :: y :: z :: zs => a * x + b * y + c * z + segPair3 rest (y :: z :: zs)
  | _, _ => 0

theorem dot_oadd3Aux (c0 c1 : K) (l : List (K × K × K)) (xs : List K) (hlen : xs.length = l.length + 2) :
    dot (oadd3Aux c0 c1 l) xs = c0 * xs.headD 0 + c1 * (xs.tail.headD 0) + segPair3 l xs := by
  induction l generalizing c0 c1 xs with
  | nil =>
    match xs, hlen with
    | [x, y], _ => simp [oadd3Aux, segPair3]
  | cons p rest ih =>
    obtain ⟨a, b, c⟩ := p
    match xs, hlen with
    | x :: y :: z :: zs, hlen =>
      have := ih (c1 + b) c (y :: z :: zs) (by simpa using hlen)
      simp only [oadd3Aux, dot_cons, this, segPair3, List.headD_cons, List.tail_cons]
      ring

theorem dot_oadd3 (l : List (K × K × K)) (xs : List K) (hlen : xs.length = l.length + 2) :
    dot (oadd3 l) xs = segPair3 l xs := by
  rw [oadd3, dot_oadd3Aux _ _ _ _ hlen]; simp

/-- real parts of the dual segments -/
def segRe (s : Seg (Dual K)) : Seg K :=
  ⟨⟨s.tp.h.re, s.tp.i1.re, s.tp.i2.re, s.tp.i3.re, s.tp.i4.re, s.tp.i5.re, s.tp.i6.re, s.tp.i7.re⟩, s.p0.re, s.dp.re⟩

theorem mkTP_re (h : Dual K) : (⟨(mkTP h).h.re, (mkTP h).i1.re, (mkTP h).i2.re, (mkTP h).i3.re, (mkTP h).i4.re,
    (mkTP h).i5.re, (mkTP h).i6.re, (mkTP h).i7.re⟩ : TP K) = mkTP h.re := by
  simp only [mkTP]; dual_proj; simp only [lit_eq]

theorem mkSegs_re (hs Ps : List (Dual K)) :
    (mkSegs hs Ps).map segRe = mkSegs (hs.map Dual.re) (Ps.map Dual.re) := by
  induction hs generalizing Ps with
  | nil => cases Ps <;> simp [mkSegs]
  | cons h hs ih =>
    match Ps with
    | [] => simp [mkSegs]
    | [_] => simp [mkSegs]
    | p0 :: p1 :: Ps =>
      simp only [mkSegs, List.map_cons, ih (p1 :: Ps)]
      congr 1

/-- **first loop summed over the spline** -/
theorem loop1_sum (hs Ps : List (Dual K)) (ks : List (V3 (Dual K))) (gs : List (C8 K))
    (hP : Ps.length = hs.length + 1) (hk : ks.length = hs.length + 1) (hg : gs.length = hs.length)
    (hne : ∀ h ∈ hs, h.re ≠ 0) :
    let l1 := loop1 (mkSegs (hs.map Dual.re) (Ps.map Dual.re)) gs (ks.map V3re)
    gdotC8 gs (closure (mkSegs hs Ps) ks)
      = segPair (l1.map (·.1)) (Ps.map Dual.du) + dot (l1.map (·.2.2)) (hs.map Dual.du)
        + segPairV (l1.map (·.2.1)) (ks.map V3du) := by
  induction hs generalizing Ps ks gs with
  | nil =>
    match gs, hg with
    | [], _ => simp [mkSegs, closure, gdotC8, loop1, segPair, segPairV]
  | cons h hs ih =>
    match Ps, ks, gs, hP, hk, hg with
    | p0 :: p1 :: Ps, k0 :: k1 :: ks, g :: gs, hP, hk, hg =>
      have hh : h.re ≠ 0 := hne h (by simp)
      have ih' := ih (p1 :: Ps) (k1 :: ks) gs (by simpa using hP) (by simpa using hk) (by simpa using hg)
        (fun x hx => hne x (by simp [hx]))
      have sid := seg1_identity h p0 p1 k0 k1 g hh
      simp only [List.map_cons, mkSegs, closure, gdotC8, loop1, segPair, segPairV, dot_cons] at ih' sid ⊢
      rw [ih', sid]
      ring

end SepticAdj

namespace SepticAdj
variable {K : Type} [Field K] [CharZero K]

/-- derivative of the (uniform) block row of an interior knot: `rhs' − (L'·k_prev + D'·k_curr + U'·k_next)` -/
def rhoInt (sL sR : Seg (Dual K)) (kp kc kn : V3 (Dual K)) : V3 K :=
  V3du (blockRhs sL sR)
    - (M3du (blockL sL.tp) • V3re kp + M3du (blockD sL.tp sR.tp) • V3re kc + M3du (blockU sR.tp) • V3re kn)

def blockSum : List (Seg (Dual K)) → List (V3 (Dual K)) → List (V3 K) → K
  | sL :: sR :: ss, kp :: kc :: kn :: ks, lam :: lams =>
      ip3 lam (rhoInt sL sR kp kc kn) + blockSum (sR :: ss) (kc :: kn :: ks) lams
  | _, _, _ => 0

/-- the end-boundary correction: the last adjoint variable paired with `U_last · d(b_R)` -/
def endCorr (bR : V3 (Dual K)) : Seg (Dual K) → List (Seg (Dual K)) → List (V3 K) → K
  | _, [sR], [lam] => ip3 lam (M3re (blockU sR.tp) • V3du bR)
  | _, sR :: s2 :: ss, _ :: lams => endCorr bR sR (s2 :: ss) lams
  | _, _, _ => 0

/-- the differentiated right-hand sides of the code's rows (which carry the boundary corrections) paired with the
adjoint variables = the uniform block sum minus the two boundary corrections -/
theorem rho_sum (bL bR : V3 (Dual K)) (first : Bool) (xp : V3 (Dual K)) (sL : Seg (Dual K)) (rest : List (Seg (Dual K)))
    (xs : List (V3 (Dual K))) (lams : List (V3 K)) (hxp : first = true → xp = 0)
    (hx : xs.length = rest.length) (hl : lams.length = rest.length) :
    ipSum ip3 lams (rhoB (V3re xp) (rowsAux bR first bL sL rest) (xs.map V3re))
      = blockSum (sL :: rest) ((if first then bL else xp) :: xs ++ [bR]) lams
        - (if first then ip3 (lams.headD 0) (M3re (blockL sL.tp) • V3du bL) else 0)
        - endCorr bR sL rest lams := by
  induction rest generalizing first xp sL xs lams with
  | nil =>
    match xs, lams, hx, hl with
    | [], [], _, _ => cases first <;> simp [rowsAux, rhoB, ipSum, blockSum, endCorr, ip3, V3.zero_def]
  | cons sR rest ih =>
    match xs, lams, hx, hl with
    | x :: xs, lam :: lams, hx, hl =>
      have ih' := ih false x sR xs lams (by simp) (by simpa using hx) (by simpa using hl)
      simp only [Bool.false_eq_true, if_false, sub_zero] at ih'
      simp only [rowsAux, List.map_cons, rhoB, ipSum, List.headD_cons]
      rw [ih']
      cases rest with
      | nil =>
        match xs, lams with
        | [], [] =>
          simp only [List.map_nil, List.headD_nil, List.nil_append, List.cons_append, blockSum, endCorr, rhoInt, add_zero, sub_zero]
          cases first with
          | true =>
            simp only [if_true]
            rw [hxp rfl]
            have e1 : V3.sub (V3.sub (blockRhs sL sR) (M3.act (blockL sL.tp) bL)) (M3.act (blockU sR.tp) bR)
                = blockRhs sL sR - blockL sL.tp • bL - blockU sR.tp • bR := rfl
            rw [e1]
            simp only [sub_du, smul_du, zero_re, smul_zero]
            simp only [ip3_pairing.sub_right, ip3_pairing.add_right]
            have z : ip3 lam (0 : V3 K) = 0 := ip3_pairing.zero_right lam
            rw [z]; ring
          | false =>
            simp only [Bool.false_eq_true, if_false, sub_zero]
            have e1 : V3.sub (blockRhs sL sR) (M3.act (blockU sR.tp) bR) = blockRhs sL sR - blockU sR.tp • bR := rfl
            rw [e1]
            simp only [sub_du, smul_du, zero_re, smul_zero]
            simp only [ip3_pairing.sub_right, ip3_pairing.add_right]
            have z : ip3 lam (0 : V3 K) = 0 := ip3_pairing.zero_right lam
            rw [z]; ring
      | cons s2 rest2 =>
        match xs, lams, hx, hl with
        | x2 :: xs2, lam2 :: lams2, _, _ =>
          simp only [List.map_cons, List.headD_cons, List.cons_append, blockSum, endCorr, rhoInt]
          cases first with
          | true =>
            simp only [if_true]
            rw [hxp rfl]
            have e1 : V3.sub (blockRhs sL sR) (M3.act (blockL sL.tp) bL) = blockRhs sL sR - blockL sL.tp • bL := rfl
            rw [e1]
            simp only [sub_du, smul_du, zero_re, smul_zero]
            simp only [ip3_pairing.sub_right, ip3_pairing.add_right]
            have z : ip3 lam (0 : V3 K) = 0 := ip3_pairing.zero_right lam
            rw [z]; ring
          | false =>
            simp only [Bool.false_eq_true, if_false, sub_zero]
            simp only [ip3_pairing.sub_right, ip3_pairing.add_right]
            ring

/-- **second loop summed over the blocks** -/
theorem loop2_sum (hs Ps : List (Dual K)) (ks : List (V3 (Dual K))) (lams : List (V3 K))
    (hP : Ps.length = hs.length + 1) (hk : ks.length = hs.length + 1) (hl : lams.length + 1 = hs.length)
    (hne : ∀ h ∈ hs, h.re ≠ 0) :
    let l2 := loop2 (mkSegs (hs.map Dual.re) (Ps.map Dual.re)) (ks.map V3re) lams
    blockSum (mkSegs hs Ps) ks lams
      = segPair3 (l2.map (·.1)) (Ps.map Dual.du) + segPair (l2.map (·.2)) (hs.map Dual.du) := by
  induction hs generalizing Ps ks lams with
  | nil => simp at hl
  | cons hL hs ih =>
    match Ps, ks, hP, hk with
    | p0 :: p1 :: Ps, kp :: kc :: ks, hP, hk =>
      cases hs with
      | nil =>
        match lams, hl with
        | [], _ =>
          match Ps, ks with
          | [], [] => simp [mkSegs, blockSum, loop2, segPair3, segPair]
      | cons hR hs' =>
        match Ps, ks, lams, hP, hk, hl with
        | p2 :: Ps', kn :: ks', lam :: lams', hP, hk, hl =>
          have hhL : hL.re ≠ 0 := hne hL (by simp)
          have hhR : hR.re ≠ 0 := hne hR (by simp)
          have bid := block2_identity hL hR p0 p1 p2 kp kc kn lam hhL hhR
          by_cases hlast : hs' = []
          · subst hlast
            match Ps', ks', lams', hP, hk, hl with
            | [], [], [], _, _, _ =>
              simp only [List.map_cons, List.map_nil, mkSegs, blockSum, loop2, segPair3, segPair, rhoInt] at bid ⊢
              rw [bid]; ring
          · have ih' := ih (p1 :: p2 :: Ps') (kc :: kn :: ks') lams' (by simpa using hP) (by simpa using hk)
              (by simpa using hl) (fun x hx => hne x (by simp [hx]))
            obtain ⟨h3, hs'', rfl⟩ : ∃ a l, hs' = a :: l := by
              cases hs' with
              | nil => exact absurd rfl hlast
              | cons a l => exact ⟨a, l, rfl⟩
            match Ps', ks', hP, hk with
            | p3 :: Ps'', k3 :: ks'', hP, hk =>
              simp only [List.map_cons, mkSegs, blockSum, loop2, segPair3, segPair, rhoInt] at bid ih' ⊢
              rw [bid, ih']; ring

end SepticAdj

namespace SepticAdj
variable {K : Type} [Field K] [CharZero K]

/-! ## pivots: the determinant condition on the real system gives everything needed -/

/-- no pivot determinant of the (real) block elimination vanishes — a decidable condition on the durations -/
def DetOK : Option (BFact (M3 K) (V3 K)) → List (BRow (M3 K) (V3 K)) → Prop
  | _, [] => True
  | none, r :: rs => M3.det r.d ≠ 0 ∧ DetOK (some ⟨M3.inv r.d, r.u, r.l, r.b⟩) rs
  | some p, r :: rs =>
      M3.det (r.d - r.l * (p.dinv * p.u)) ≠ 0 ∧
        DetOK (some ⟨M3.inv (r.d - r.l * (p.dinv * p.u)), r.u, r.l, r.b - r.l • (p.dinv • p.b)⟩) rs

theorem detOK_pivOK2 (st : Option (BFact (M3 K) (V3 K))) (rows : List (BRow (M3 K) (V3 K))) (h : DetOK st rows) :
    BPivOK2 M3.inv st rows := by
  induction rows generalizing st with
  | nil => cases st <;> trivial
  | cons r rs ih =>
    cases st with
    | none => exact ⟨⟨M3.mul_inv _ h.1, M3.inv_mul _ h.1⟩, ih _ h.2⟩
    | some p => exact ⟨⟨M3.mul_inv _ h.1, M3.inv_mul _ h.1⟩, ih _ h.2⟩

/-- the condition does not depend on the right-hand sides -/
def sameMat (rows rows' : List (BRow (M3 K) (V3 K))) : Prop :=
  List.Forall₂ (fun a b => a.l = b.l ∧ a.d = b.d ∧ a.u = b.u) rows rows'

theorem detOK_congr (st st' : Option (BFact (M3 K) (V3 K))) (rows rows' : List (BRow (M3 K) (V3 K)))
    (hst : match st, st' with
      | none, none => True
      | some p, some p' => p.dinv = p'.dinv ∧ p.u = p'.u
      | _, _ => False)
    (hm : sameMat rows rows') (h : DetOK st rows) : DetOK st' rows' := by
  induction hm generalizing st st' with
  | nil => cases st' <;> trivial
  | cons hab _ ih =>
    rename_i a b l1 l2
    obtain ⟨e1, e2, e3⟩ := hab
    match st, st', hst with
    | none, none, _ =>
      refine ⟨by rw [← e2]; exact h.1, ih _ _ ?_ h.2⟩
      exact ⟨by rw [e2], e3⟩
    | some p, some p', ⟨hp1, hp2⟩ =>
      refine ⟨by rw [← e1, ← e2, ← hp1, ← hp2]; exact h.1, ih _ _ ?_ h.2⟩
      exact ⟨by rw [e1, e2, hp1, hp2], e3⟩

theorem sameMat_withB (rows : List (BRow (M3 K) (V3 K))) (b : List (V3 K)) (hb : b.length = rows.length) :
    sameMat rows (withB rows b) := by
  induction rows generalizing b with
  | nil => cases b <;> exact List.Forall₂.nil
  | cons r rs ih =>
    match b, hb with
    | b0 :: bs, hb => exact List.Forall₂.cons ⟨rfl, rfl, rfl⟩ (ih bs (by simpa using hb))

theorem withB_b (rows : List (BRow (M3 K) (V3 K))) (b : List (V3 K)) (hb : b.length = rows.length) :
    (withB rows b).map (·.b) = b := by
  induction rows generalizing b with
  | nil => cases b <;> simp_all [withB]
  | cons r rs ih =>
    match b, hb with
    | b0 :: bs, hb => simp [withB, ih bs (by simpa using hb)]

/-- facts of systems with the same matrix agree in `D⁻¹`, `U`, `L` -/
theorem bfwd_sameLU (st st' : Option (BFact (M3 K) (V3 K))) (rows rows' : List (BRow (M3 K) (V3 K)))
    (hst : match st, st' with
      | none, none => True
      | some p, some p' => p.dinv = p'.dinv ∧ p.u = p'.u
      | _, _ => False)
    (hm : sameMat rows rows') :
    sameLU (@bfwd _ _ (ringBlk M3.inv M3.transpose) st rows) (@bfwd _ _ (ringBlk M3.inv M3.transpose) st' rows') := by
  induction hm generalizing st st' with
  | nil => cases st <;> cases st' <;> exact List.Forall₂.nil
  | cons hab _ ih =>
    obtain ⟨e1, e2, e3⟩ := hab
    match st, st', hst with
    | none, none, _ =>
      simp only [bfwd, BlkOps.inv]
      exact List.Forall₂.cons ⟨by rw [e2], e3, e1⟩ (ih _ _ ⟨by rw [e2], e3⟩)
    | some p, some p', ⟨hp1, hp2⟩ =>
      simp only [bfwd, BlkOps.inv, BlkOps.sub, BlkOps.mul]
      exact List.Forall₂.cons ⟨by rw [e1, e2, hp1, hp2], e3, e1⟩ (ih _ _ ⟨by rw [e1, e2, hp1, hp2], e3⟩)

theorem bfwdT_congr (fs fs' : List (BFact (M3 K) (V3 K))) (h : sameLU fs fs') (g : List (V3 K))
    (st st' : Option (BFact (M3 K) (V3 K) × V3 K))
    (hst : match st, st' with
      | none, none => True
      | some (p, l), some (p', l') => p.u = p'.u ∧ l = l'
      | _, _ => False) :
    @bfwdT _ _ (ringBlk M3.inv M3.transpose) st fs g = @bfwdT _ _ (ringBlk M3.inv M3.transpose) st' fs' g := by
  induction h generalizing st st' g with
  | nil => cases st <;> cases st' <;> cases g <;> simp [bfwdT]
  | cons hab _ ih =>
    obtain ⟨e1, e2, e3⟩ := hab
    cases g with
    | nil => cases st <;> cases st' <;> simp [bfwdT]
    | cons g0 gs =>
      match st, st', hst with
      | none, none, _ =>
        simp only [bfwdT, BlkOps.act, BlkOps.tr, e1]
        congr 1
        exact ih gs _ _ ⟨e2, rfl⟩
      | some (p, l), some (p', l'), ⟨hp, hl⟩ =>
        simp only [bfwdT, BlkOps.act, BlkOps.tr, BlkOps.vsub, e1, hp, hl]
        congr 1
        exact ih gs _ _ ⟨e2, rfl⟩

theorem bbackT_congr (fs fs' : List (BFact (M3 K) (V3 K))) (h : sameLU fs fs') (y : List (V3 K)) :
    @bbackT _ _ (ringBlk M3.inv M3.transpose) fs y = @bbackT _ _ (ringBlk M3.inv M3.transpose) fs' y := by
  induction h generalizing y with
  | nil => cases y <;> simp [bbackT]
  | cons hab htl ih =>
    rename_i a b l1 l2
    obtain ⟨e1, e2, e3⟩ := hab
    cases htl with
    | nil => cases y with
      | nil => simp [bbackT]
      | cons y0 ys => cases ys <;> simp [bbackT]
    | cons hab2 htl2 =>
      rename_i a2 b2 l3 l4
      obtain ⟨f1, f2, f3⟩ := hab2
      cases y with
      | nil => simp [bbackT]
      | cons y0 ys =>
        have := ih ys
        simp only [bbackT, this, BlkOps.act, BlkOps.tr, BlkOps.vsub, BlkOps.mul, e1, f3]

theorem bsolveT_congr (fs fs' : List (BFact (M3 K) (V3 K))) (h : sameLU fs fs') (g : List (V3 K)) :
    @bsolveT _ _ (ringBlk M3.inv M3.transpose) fs g = @bsolveT _ _ (ringBlk M3.inv M3.transpose) fs' g := by
  simp only [bsolveT]
  rw [bfwdT_congr fs fs' h g none none trivial, bbackT_congr fs fs' h]

end SepticAdj

namespace SepticAdj
variable {K : Type} [Field K] [CharZero K]

def tpRe (t : TP (Dual K)) : TP K := ⟨t.h.re, t.i1.re, t.i2.re, t.i3.re, t.i4.re, t.i5.re, t.i6.re, t.i7.re⟩

theorem blockL_re (t : TP (Dual K)) : M3re (blockL t) = blockL (tpRe t) := by
  simp only [blockL, M3re, tpRe]; dual_proj; simp only [lit_eq]
theorem blockU_re (t : TP (Dual K)) : M3re (blockU t) = blockU (tpRe t) := by
  simp only [blockU, M3re, tpRe]; dual_proj; simp only [lit_eq]
theorem blockD_re (a b : TP (Dual K)) : M3re (blockD a b) = blockD (tpRe a) (tpRe b) := by
  simp only [blockD, M3re, tpRe]; dual_proj; simp only [lit_eq]
theorem blockRhs_re (a b : Seg (Dual K)) : V3re (blockRhs a b) = blockRhs (segRe a) (segRe b) := by
  simp only [blockRhs, V3re, segRe]; dual_proj; simp only [lit_eq]

theorem rowsAux_re (bL bR : V3 (Dual K)) (first : Bool) (sL : Seg (Dual K)) (rest : List (Seg (Dual K))) :
    (rowsAux bR first bL sL rest).map rowRe = rowsAux (V3re bR) first (V3re bL) (segRe sL) (rest.map segRe) := by
  induction rest generalizing first sL with
  | nil => simp [rowsAux]
  | cons sR rest ih =>
    simp only [rowsAux, List.map_cons, ih false sR]
    congr 1
    have hsub : ∀ a b : V3 (Dual K), V3re (V3.sub a b) = V3.sub (V3re a) (V3re b) := fun a b => sub_re a b
    have hact : ∀ (m : M3 (Dual K)) (v : V3 (Dual K)), V3re (M3.act m v) = M3.act (M3re m) (V3re v) := fun m v => smul_re m v
    cases rest with
    | nil =>
      cases first <;>
        simp only [rowRe, blockL_re, blockU_re, blockD_re, blockRhs_re, hsub, hact, segRe, tpRe, List.map_nil, if_true,
          Bool.false_eq_true, if_false]
    | cons s2 r2 =>
      cases first <;>
        simp only [rowRe, blockL_re, blockU_re, blockD_re, blockRhs_re, hsub, hact, segRe, tpRe, List.map_cons, if_true,
          Bool.false_eq_true, if_false]

theorem rows_re (bL bR : V3 (Dual K)) (segs : List (Seg (Dual K))) :
    (rows bL bR segs).map rowRe = rows (V3re bL) (V3re bR) (segs.map segRe) := by
  cases segs with
  | nil => rfl
  | cons s rest => simp only [rows, List.map_cons]; exact rowsAux_re bL bR true s rest

def factRe (f : BFact (M3 (Dual K)) (V3 (Dual K))) : BFact (M3 K) (V3 K) := ⟨M3re f.dinv, M3re f.u, M3re f.l, V3re f.b⟩

/-- the dual pivots are invertible as soon as the real pivot determinants do not vanish -/
theorem pivOK_dual (st : Option (BFact (M3 (Dual K)) (V3 (Dual K)))) (rowsD : List (BRow (M3 (Dual K)) (V3 (Dual K))))
    (h : DetOK (st.map factRe) (rowsD.map rowRe)) : BPivOK M3.inv st rowsD := by
  induction rowsD generalizing st with
  | nil => cases st <;> trivial
  | cons r rs ih =>
    cases st with
    | none =>
      simp only [Option.map_none, List.map_cons, DetOK] at h
      refine ⟨M3.mul_inv _ ?_, ih _ ?_⟩
      · show (M3.det r.d).re ≠ 0
        rw [det_re]; exact h.1
      · simpa [factRe, rowRe, inv_re] using h.2
    | some p =>
      simp only [Option.map_some, List.map_cons, DetOK, factRe, rowRe] at h
      refine ⟨M3.mul_inv _ ?_, ih _ ?_⟩
      · show (M3.det (r.d - r.l * (p.dinv * p.u))).re ≠ 0
        rw [det_re, msub_re, mul_re, mul_re]; exact h.1
      · simpa [factRe, rowRe, inv_re, msub_re, mul_re, sub_re, smul_re] using h.2

end SepticAdj

namespace SepticAdj
variable {K : Type} [Field K] [CharZero K]

theorem endU_re (s0 : Seg (Dual K)) (rest : List (Seg (Dual K))) :
    M3re (endU s0 rest) = endU (segRe s0) (rest.map segRe) := by
  induction rest generalizing s0 with
  | nil => simp only [endU, List.map_nil, blockU_re]; rfl
  | cons s1 r ih =>
    cases r with
    | nil => simp only [endU, List.map_cons, List.map_nil, blockU_re]; rfl
    | cons s2 r2 => simp only [endU, List.map_cons]; exact ih s1

theorem endCorr_eq (bR : V3 (Dual K)) (s0 : Seg (Dual K)) (rest : List (Seg (Dual K))) (lams : List (V3 K))
    (hl : lams.length = rest.length) (hr : rest ≠ []) :
    endCorr bR s0 rest lams = ip3 (lams.getLastD 0) (M3re (endU s0 rest) • V3du bR) := by
  induction rest generalizing s0 lams with
  | nil => exact absurd rfl hr
  | cons s1 r ih =>
    match lams, hl with
    | lam :: lams', hl =>
      cases r with
      | nil =>
        match lams', hl with
        | [], _ => simp [endCorr, endU]
      | cons s2 r2 =>
        match lams', hl with
        | l2 :: lams'', hl =>
          have := ih s1 (l2 :: lams'') (by simpa using hl) (by simp)
          simp only [endCorr, endU]
          rw [this]
          simp [List.getLastD_cons]

/-- split a pairing along `first :: middle ++ [last]` -/
theorem ipSum_split (a0 aN : V3 K) (as : List (V3 K)) (b0 bN : V3 K) (bs : List (V3 K)) (h : as.length = bs.length) :
    ipSum ip3 (a0 :: as ++ [aN]) (b0 :: bs ++ [bN]) = ip3 a0 b0 + ipSum ip3 as bs + ip3 aN bN := by
  simp only [List.cons_append, ipSum]
  have : ∀ (as bs : List (V3 K)), as.length = bs.length → ipSum ip3 (as ++ [aN]) (bs ++ [bN]) = ipSum ip3 as bs + ip3 aN bN := by
    intro as
    induction as with
    | nil => intro bs hb; cases bs with
      | nil => simp [ipSum]
      | cons _ _ => simp at hb
    | cons a as ih =>
      intro bs hb
      cases bs with
      | nil => simp at hb
      | cons b bs => simp only [List.cons_append, ipSum, ih bs (by simpa using hb)]; ring
  rw [this as bs h]; ring

theorem rows_length (bL bR : V3 K) (segs : List (Seg K)) : (rows bL bR segs).length = segs.length - 1 := by
  have : ∀ (first : Bool) (s : Seg K) (rest : List (Seg K)), (rowsAux bR first bL s rest).length = rest.length := by
    intro first s rest
    induction rest generalizing first s with
    | nil => simp [rowsAux]
    | cons a r ih => simp [rowsAux, ih]
  cases segs with
  | nil => rfl
  | cons s rest => simp [rows, this]

theorem rowsD_length (bL bR : V3 (Dual K)) (segs : List (Seg (Dual K))) : (rows bL bR segs).length = segs.length - 1 := by
  have := congrArg List.length (rows_re bL bR segs)
  simp only [List.length_map] at this
  rw [this, rows_length]; simp

theorem mkSegs_length (hs Ps : List (Dual K)) (hP : Ps.length = hs.length + 1) : (mkSegs hs Ps).length = hs.length := by
  induction hs generalizing Ps with
  | nil => cases Ps <;> simp [mkSegs]
  | cons h hs ih =>
    match Ps, hP with
    | p0 :: p1 :: Ps, hP => simp [mkSegs, ih (p1 :: Ps) (by simpa using hP)]

end SepticAdj

namespace SepticAdj
variable {K : Type} [Field K] [CharZero K]

theorem propagate_ends_single (b : Built K) (gs : List (C8 K)) (s0 : Seg K) (h : b.segs = [s0]) :
    (propagate b gs).start = (oaddV3 ((loop1 b.segs gs b.knots).map (·.2.1))).headD V3.zero
    ∧ (propagate b gs).fin = (oaddV3 ((loop1 b.segs gs b.knots).map (·.2.1))).getLastD V3.zero := by
  simp only [propagate]
  split
  · next s0' s1 rest heq => rw [h] at heq; simp at heq
  · exact ⟨rfl, rfl⟩

theorem propagate_ends_multi (b : Built K) (gs : List (C8 K)) (s0 s1 : Seg K) (rest : List (Seg K))
    (h : b.segs = s0 :: s1 :: rest) :
    let gd := oaddV3 ((loop1 b.segs gs b.knots).map (·.2.1))
    let lam := bsolveT b.facts (gd.tail.dropLast)
    (propagate b gs).start = V3.sub (gd.headD V3.zero) (M3.actT (blockL s0.tp) (lam.headD V3.zero))
    ∧ (propagate b gs).fin = V3.sub (gd.getLastD V3.zero) (M3.actT (endU s0 (s1 :: rest)) (lam.getLastD V3.zero)) := by
  simp only [propagate]
  split
  · next s0' s1' rest' heq =>
    rw [h] at heq
    obtain ⟨rfl, rfl, rfl⟩ : s0 = s0' ∧ s1 = s1' ∧ rest = rest' := by simpa using heq
    exact ⟨rfl, rfl⟩
  · next hno => exact absurd h (hno s0 s1 rest)

/-- **C05 (septic): `propagateGrad` is the exact transpose-Jacobian product of the construction map, for every N ≥ 1**,
every duration vector with non-zero entries whose block pivots are non-singular (`DetOK`), every waypoint / boundary
data, every upstream gradient and every tangent. -/
theorem septic_adjoint (hs Ps : List (Dual K)) (bL bR : V3 (Dual K)) (gs : List (C8 K)) (gT : List K)
    (hne0 : hs ≠ []) (hne : ∀ h ∈ hs, h.re ≠ 0)
    (hP : Ps.length = hs.length + 1) (hg : gs.length = hs.length) (hgT : gT.length = hs.length)
    (hdet : DetOK none (rows (V3re bL) (V3re bR) (mkSegs (hs.map Dual.re) (Ps.map Dual.re)))) :
    let b := buildFull (hs.map Dual.re) (Ps.map Dual.re) (V3re bL) (V3re bR)
    let out := propagate b gs
    gdotC8 gs (build hs Ps bL bR) + dot gT (hs.map Dual.du)
      = dot out.points (Ps.map Dual.du) + dot (zipAdd gT out.times) (hs.map Dual.du)
        + ip3 out.start (V3du bL) + ip3 out.fin (V3du bR) := by
  intro b out
  -- names
  set segsD := mkSegs hs Ps with hsegsD
  set rowsD := rows bL bR segsD with hrowsD
  set segsR := mkSegs (hs.map Dual.re) (Ps.map Dual.re) with hsegsR
  set rowsR := rows (V3re bL) (V3re bR) segsR with hrowsR
  have hsegs : segsD.map segRe = segsR := mkSegs_re hs Ps
  have hrowsRe : rowsD.map rowRe = rowsR := by rw [hrowsD, rows_re, hsegs]
  have hlenSegs : segsD.length = hs.length := mkSegs_length hs Ps hP
  have hlenRows : rowsD.length = hs.length - 1 := by rw [hrowsD, rowsD_length, hlenSegs]
  have hlenRowsR : rowsR.length = hs.length - 1 := by rw [← hrowsRe, List.length_map, hlenRows]
  -- dual solve
  have hpivD : BPivOK M3.inv none rowsD := pivOK_dual none rowsD (by simpa [hrowsRe] using hdet)
  have hsolD : BSolves 0 rowsD (bthomas rowsD) := by
    have := bthomas_correct M3.inv M3.transpose rowsD hpivD
    rwa [← blkOps_M3] at this
  set inner := bthomas rowsD with hinner
  have hlenInner : inner.length = hs.length - 1 := by rw [bsolves_length _ _ _ hsolD, hlenRows]
  -- real part of the dual solution = the real solution
  have hpivR : BPivOK2 M3.inv none rowsR := detOK_pivOK2 none rowsR hdet
  have hreal : inner.map V3re = bthomas rowsR := by
    have h1 := bsolves_re 0 rowsD inner hsolD
    rw [zero_re, hrowsRe] at h1
    have u := bthomas_unique M3.inv M3.transpose rowsR hpivR _ h1
    rwa [← blkOps_M3] at u
  -- knots
  have hknotsD : (buildFull hs Ps bL bR).knots = bL :: inner ++ [bR] := rfl
  have hknotsR : b.knots = V3re bL :: inner.map V3re ++ [V3re bR] := by
    show V3re bL :: bback (bfwd none rowsR) ++ [V3re bR] = _
    rw [hreal]; rfl
  have hknotsMap : ((buildFull hs Ps bL bR).knots).map V3re = b.knots := by
    rw [hknotsD, hknotsR]; simp
  have hlenKnots : (buildFull hs Ps bL bR).knots.length = hs.length + 1 := by
    rw [hknotsD]; simp only [List.length_cons, List.length_append, List.length_nil, hlenInner]
    have : 1 ≤ hs.length := by cases hs with
      | nil => exact absurd rfl hne0
      | cons _ _ => simp
    omega
  -- first loop
  have hL1 := loop1_sum hs Ps (buildFull hs Ps bL bR).knots gs hP hlenKnots hg hne
  simp only [hknotsMap] at hL1
  have hbuild : build hs Ps bL bR = closure segsD (buildFull hs Ps bL bR).knots := rfl
  rw [hbuild, hL1]
  set l1 := loop1 segsR gs b.knots with hl1
  have hl1len : l1.length = hs.length := by
    have : ∀ (segs : List (Seg K)) (gs : List (C8 K)) (ks : List (V3 K)), gs.length = segs.length → ks.length = segs.length + 1 →
        (loop1 segs gs ks).length = segs.length := by
      intro segs
      induction segs with
      | nil => intro gs ks _ _; cases gs <;> simp [loop1]
      | cons s ss ih =>
        intro gs ks hg hk
        match gs, ks, hg, hk with
        | g :: gs, k0 :: k1 :: ks, hg, hk => simp [loop1, ih gs (k1 :: ks) (by simpa using hg) (by simpa using hk)]
    have hsR : segsR.length = hs.length := by rw [← hsegs, List.length_map, hlenSegs]
    rw [hl1, this segsR gs b.knots (by rw [hg, hsR]) (by rw [← hknotsMap, List.length_map, hlenKnots, hsR]), hsR]
  -- knot-derivative gradients
  set gd := oaddV3 (l1.map (·.2.1)) with hgd
  have hgdPair : segPairV (l1.map (·.2.1)) ((buildFull hs Ps bL bR).knots.map V3du) = ipSum ip3 gd ((buildFull hs Ps bL bR).knots.map V3du) := by
    rw [hgd, ipSum_oaddV3]; simp [hl1len, hlenKnots]
  rw [hgdPair]
  have hN1 : 1 ≤ hs.length := by
    cases hs with
    | nil => exact absurd rfl hne0
    | cons _ _ => simp
  -- split the knot lists into first / inner / last
  have hgdlen : gd.length = hs.length + 1 := by
    have : ∀ (c : V3 K) (l : List (V3 K × V3 K)), (oaddV3Aux c l).length = l.length + 1 := by
      intro c l; induction l generalizing c with
      | nil => simp [oaddV3Aux]
      | cons p rest ih => obtain ⟨a, b'⟩ := p; simp [oaddV3Aux, ih]
    rw [hgd, oaddV3, this]; simp [hl1len]
  obtain ⟨g0, gmid, gN, hgdsplit, hgmid⟩ : ∃ g0 gmid gN, gd = g0 :: gmid ++ [gN] ∧ gmid.length = hs.length - 1 := by
    have : ∀ (l : List (V3 K)), 2 ≤ l.length → ∃ a m z, l = a :: m ++ [z] ∧ m.length = l.length - 2 := by
      intro l hl
      match l, hl with
      | a :: rest, hl =>
        have hr : rest ≠ [] := by intro e; simp [e] at hl
        refine ⟨a, rest.dropLast, rest.getLast hr, ?_, by simp⟩
        rw [List.cons_append, List.dropLast_append_getLast hr]
    obtain ⟨a, m, z, h1, h2⟩ := this gd (by omega)
    exact ⟨a, m, z, h1, by rw [h2, hgdlen]; omega⟩
  have hknotsDu : (buildFull hs Ps bL bR).knots.map V3du = V3du bL :: inner.map V3du ++ [V3du bR] := by
    rw [hknotsD]; simp
  rw [hknotsDu, hgdsplit, ipSum_split g0 gN gmid (V3du bL) (V3du bR) (inner.map V3du) (by simp [hgmid, hlenInner])]
  -- the differentiated system and the adjoint of the solve
  set rho := rhoB (V3re 0) rowsD (inner.map V3re) with hrho
  have hdu := bsolves_du 0 rowsD inner hsolD
  rw [zero_du, hrowsRe] at hdu
  have hrholen : rho.length = rowsR.length := by
    have : ∀ (xp : V3 K) (rs : List (BRow (M3 (Dual K)) (V3 (Dual K)))) (xs : List (V3 K)), xs.length = rs.length →
        (rhoB xp rs xs).length = rs.length := by
      intro xp rs
      induction rs generalizing xp with
      | nil => intro xs _; cases xs <;> simp [rhoB]
      | cons r rs ih =>
        intro xs hx
        match xs, hx with
        | x :: xs, hx => simp [rhoB, ih x xs (by simpa using hx)]
    rw [hrho, this _ _ _ (by simp [hlenInner, hlenRows]), hlenRows, hlenRowsR]
  have hsame := sameMat_withB rowsR rho hrholen
  have hpivR' : BPivOK2 M3.inv none (withB rowsR rho) :=
    detOK_pivOK2 none _ (detOK_congr none none rowsR _ trivial hsame hdet)
  have hadj := bsolveT_adjoint M3.inv ip3_pairing (withB rowsR rho) hpivR' (inner.map V3du) gmid hdu
    (by rw [hgmid, ← hlenRowsR]; exact (List.Forall₂.length_eq hsame))
  rw [withB_b rowsR rho hrholen] at hadj
  rw [← bsolveT_congr _ _ (bfwd_sameLU none none rowsR _ trivial hsame)] at hadj
  rw [hadj]
  set lam := @bsolveT _ _ (ringBlk M3.inv M3.transpose) (@bfwd _ _ (ringBlk M3.inv M3.transpose) none rowsR) gmid with hlam
  have hlamlen : lam.length = hs.length - 1 := by
    have hF : ∀ (s : Option (BFact (M3 K) (V3 K))) (l : List (BRow (M3 K) (V3 K))), (@bfwd _ _ (ringBlk M3.inv M3.transpose) s l).length = l.length := by
      intro s l; induction l generalizing s with
      | nil => cases s <;> simp [bfwd]
      | cons a l ihl => cases s <;> simp [bfwd, ihl]
    have hBT : ∀ (fs : List (BFact (M3 K) (V3 K))) (y : List (V3 K)), y.length = fs.length →
        (@bbackT _ _ (ringBlk M3.inv M3.transpose) fs y).length = fs.length := by
      intro fs
      induction fs with
      | nil => intro y _; cases y <;> simp [bbackT]
      | cons f fs ih =>
        intro y hy
        match y, hy with
        | y0 :: ys, hy =>
          cases fs with
          | nil => match ys, hy with
            | [], _ => simp [bbackT]
          | cons f2 fs2 =>
            have := ih ys (by simpa using hy)
            rw [bbackT_cons_cons M3.inv f f2 fs2 y0 ys (by simpa using hy)]
            simp only [List.length_cons] at this ⊢
            omega
    rw [hlam, bsolveT, hBT _ _ (by rw [bfwdT_length M3.inv none _ gmid (by rw [hF, hgmid, hlenRowsR]), hF]), hF, hlenRowsR]
  have hmid : gd.tail.dropLast = gmid := by rw [hgdsplit]; simp
  set l2 := loop2 segsR b.knots lam with hl2
  have hpoints : out.points = zipAdd (oadd (l1.map (·.1))) (oadd3 (l2.map (·.1))) := by
    show (propagate b gs).points = _
    simp only [propagate]; rw [show b.segs = segsR from rfl, ← hl1, ← hgd, hmid]; rfl
  have htimes : out.times = zipAdd (l1.map (·.2.2)) (oadd (l2.map (·.2))) := by
    show (propagate b gs).times = _
    simp only [propagate]; rw [show b.segs = segsR from rfl, ← hl1, ← hgd, hmid]; rfl
  have hsRlen : segsR.length = hs.length := by rw [← hsegs, List.length_map, hlenSegs]
  have hkRlen : b.knots.length = hs.length + 1 := by rw [← hknotsMap, List.length_map, hlenKnots]
  have hl2len : l2.length = hs.length - 1 := by
    have : ∀ (segs : List (Seg K)) (ks : List (V3 K)) (lams : List (V3 K)), segs.length = lams.length + 1 → ks.length = lams.length + 2 →
        (loop2 segs ks lams).length = lams.length := by
      intro segs ks lams
      induction lams generalizing segs ks with
      | nil => intro _ _; match segs, ks with
        | [_], [_, _] => simp [loop2]
        | [], _ => simp [loop2]
        | _ :: _ :: _, [] => simp [loop2]
        | _ :: _ :: _, [_] => simp [loop2]
        | _ :: _ :: _, [_, _] => simp [loop2]
        | _ :: _ :: _, _ :: _ :: _ :: _ => simp [loop2]
        | [_], [] => simp [loop2]
        | [_], [_] => simp [loop2]
        | [_], _ :: _ :: _ :: _ => simp [loop2]
      | cons lam lams ih =>
        intro hs' hk'
        match segs, ks, hs', hk' with
        | sL :: sR :: ss, kp :: kc :: kn :: ks', hs', hk' =>
          simp [loop2, ih (sR :: ss) (kc :: kn :: ks') (by simpa using hs') (by simpa using hk')]
    rw [hl2, this segsR b.knots lam (by rw [hsRlen, hlamlen]; omega) (by rw [hkRlen, hlamlen]; omega), hlamlen]
  -- pairings of the outputs
  have hoaddlen : ∀ (l : List (K × K)), (oadd l).length = l.length + 1 := by
    intro l
    have : ∀ (c : K) (l : List (K × K)), (oaddAux c l).length = l.length + 1 := by
      intro c l; induction l generalizing c with
      | nil => simp [oaddAux]
      | cons p rest ih => obtain ⟨a, b'⟩ := p; simp [oaddAux, ih]
    exact this _ l
  have hoadd3len : ∀ (l : List (K × K × K)), (oadd3 l).length = l.length + 2 := by
    intro l
    have : ∀ (c0 c1 : K) (l : List (K × K × K)), (oadd3Aux c0 c1 l).length = l.length + 2 := by
      intro c0 c1 l; induction l generalizing c0 c1 with
      | nil => simp [oadd3Aux]
      | cons p rest ih => obtain ⟨a, b', c⟩ := p; simp [oadd3Aux, ih]
    exact this _ _ l
  have hdotP : dot out.points (Ps.map Dual.du) = segPair (l1.map (·.1)) (Ps.map Dual.du) + segPair3 (l2.map (·.1)) (Ps.map Dual.du) := by
    rw [hpoints, dot_zipAdd _ _ _ (by rw [hoaddlen]; simp [hl1len, hP]) (by rw [hoadd3len]; simp [hl2len, hP]; omega),
      dot_oadd _ _ (by simp [hl1len, hP]), dot_oadd3 _ _ (by simp [hl2len, hP]; omega)]
  have hdotT : dot (zipAdd gT out.times) (hs.map Dual.du)
      = dot gT (hs.map Dual.du) + dot (l1.map (·.2.2)) (hs.map Dual.du) + segPair (l2.map (·.2)) (hs.map Dual.du) := by
    have hzl : (zipAdd (l1.map (·.2.2)) (oadd (l2.map (·.2)))).length = hs.length := by
      have : ∀ (a b' : List K), a.length = b'.length → (zipAdd a b').length = a.length := by
        intro a; induction a with
        | nil => intro b' _; cases b' <;> simp [zipAdd]
        | cons x xs ih => intro b' hb; match b', hb with
          | y :: ys, hb => simp [zipAdd, ih ys (by simpa using hb)]
      rw [this _ _ (by rw [hoaddlen]; simp [hl1len, hl2len]; omega)]; simp [hl1len]
    rw [htimes, dot_zipAdd gT _ _ (by simp [hgT]) (by rw [hzl]; simp),
      dot_zipAdd _ _ _ (by simp [hl1len]) (by rw [hoaddlen]; simp [hl2len]; omega),
      dot_oadd _ _ (by simp [hl2len]; omega)]
    ring
  rw [hdotP, hdotT]
  have hgd0 : gd.headD V3.zero = g0 := by rw [hgdsplit]; rfl
  have hgdN : gd.getLastD V3.zero = gN := by
    rw [hgdsplit]
    have : ∀ (a z : V3 K) (m : List (V3 K)) (d : V3 K), (a :: m ++ [z]).getLastD d = z := by
      intro a z m d
      rw [List.getLastD_eq_getLast?, List.getLast?_append]; rfl
    exact this _ _ _ _
  rcases hcase : segsD with _ | ⟨s0, _ | ⟨s1, rest⟩⟩
  · -- impossible: at least one segment
    rw [hcase] at hlenSegs; simp at hlenSegs; omega
  · -- N = 1: no interior knot
    have hN : hs.length = 1 := by rw [hcase] at hlenSegs; simpa using hlenSegs.symm
    have hlam0 : lam = [] := List.eq_nil_of_length_eq_zero (by rw [hlamlen, hN])
    have hl20 : l2 = [] := List.eq_nil_of_length_eq_zero (by rw [hl2len, hN])
    obtain ⟨hst, hfi⟩ := propagate_ends_single b gs (segRe s0) (by show segsR = _; rw [← hsegs, hcase]; rfl)
    have hst' : out.start = g0 := hst.trans hgd0
    have hfi' : out.fin = gN := hfi.trans hgdN
    rw [hst', hfi', hlam0, hl20]
    simp only [ipSum, List.map_nil, segPair3, segPair]
    ring
  · -- N ≥ 2
    have hsR2 : segsR = segRe s0 :: segRe s1 :: rest.map segRe := by rw [← hsegs, hcase]; rfl
    obtain ⟨hst, hfi⟩ := propagate_ends_multi b gs (segRe s0) (segRe s1) (rest.map segRe) hsR2
    have hst' : out.start = V3.sub g0 (M3.actT (blockL (segRe s0).tp) (lam.headD V3.zero)) := by
      show (propagate b gs).start = _
      rw [hst]
      show V3.sub (gd.headD V3.zero) (M3.actT _ ((bsolveT b.facts gd.tail.dropLast).headD V3.zero)) = _
      rw [hmid, hgd0]; rfl
    have hfi' : out.fin = V3.sub gN (M3.actT (endU (segRe s0) (segRe s1 :: rest.map segRe)) (lam.getLastD V3.zero)) := by
      show (propagate b gs).fin = _
      rw [hfi]
      show V3.sub (gd.getLastD V3.zero) (M3.actT _ ((bsolveT b.facts gd.tail.dropLast).getLastD V3.zero)) = _
      rw [hmid, hgdN]; rfl
    have hrestlen : (s1 :: rest).length = hs.length - 1 := by
      rw [hcase] at hlenSegs; simp only [List.length_cons] at hlenSegs ⊢; omega
    have hrs := rho_sum bL bR true 0 s0 (s1 :: rest) inner lam (fun _ => rfl)
      (by rw [hlenInner, hrestlen]) (by rw [hlamlen, hrestlen])
    have hrowsD2 : rowsD = rowsAux bR true bL s0 (s1 :: rest) := by rw [hrowsD, hcase]; rfl
    rw [← hrowsD2, ← hrho] at hrs
    simp only [if_true] at hrs
    have hl2s := loop2_sum hs Ps (buildFull hs Ps bL bR).knots lam hP hlenKnots (by rw [hlamlen]; omega) hne
    simp only [] at hl2s
    rw [hknotsMap, ← hsegsR, ← hl2, ← hsegsD, hcase] at hl2s
    rw [hknotsD] at hl2s
    rw [hl2s] at hrs
    have hec := endCorr_eq bR s0 (s1 :: rest) lam (by rw [hlamlen, hrestlen]) (by simp)
    rw [hec, endU_re, blockL_re] at hrs
    rw [hrs, hst', hfi']
    have e1 : ∀ (g : V3 K) (m : M3 K) (l d : V3 K), ip3 (V3.sub g (M3.actT m l)) d = ip3 g d - ip3 l (m • d) := by
      intro g m l d
      have := ip3_pairing.adj m l d
      show ip3 (g - M3.transpose m • l) d = _
      rw [ip3_pairing.sub_left, this]
    rw [e1, e1]
    have hz : (V3.zero : V3 K) = 0 := by ext <;> simp [V3.zero, V3.zero_def, lit_eq]
    have a1 : ip3 (lam.headD V3.zero) (blockL (segRe s0).tp • V3du bL)
        = ip3 (lam.headD 0) (blockL (tpRe s0.tp) • V3du bL) := by rw [hz]; rfl
    have a2 : ip3 (lam.getLastD V3.zero) (endU (segRe s0) (segRe s1 :: List.map segRe rest) • V3du bR)
        = ip3 (lam.getLastD 0) (endU (segRe s0) (List.map segRe (s1 :: rest)) • V3du bR) := by rw [hz]; rfl
    rw [a1, a2]
    ring

end SepticAdj
