import STProofs.SepticUnique
import STProofs.EnergyGrad
/-!
# C06 (septic): the closed-form analytic energy gradients are the total derivatives of the reported energy — every N

Envelope argument: `E.du = Σ ∂E/∂c·dc + ∂E/∂T·dT` (chain rule on dual numbers), the first sum is pulled back through
the Hermite closure (`loop1_sum`); for the energy partials the pull-back onto the knot derivatives is
`(−2 s⁽⁶⁾, 2 s⁽⁵⁾, −2 s⁗)` at the left end and `(2 s⁽⁶⁾, −2 s⁽⁵⁾, 2 s⁗)` at the right end of every piece (`seg1_energy`), so at every
interior knot it cancels by the optimality conditions (`septic_KKT`) whatever the derivative of the knot values is;
what remains are exactly the closed forms `getEnergyGradTimes`, `getEnergyGradInnerPoints`, `getEnergyGradBoundary`.
-/
open ST ST.Septic SepticAdj SepticK

namespace SepticEG
variable {K : Type} [Field K] [LinearOrder K] [IsStrictOrderedRing K]

/-- **one segment, abstract piece**: the first loop applied to the energy partials of an arbitrary degree-7 piece `c`,
with the segment data (end-point difference, end derivatives) read off `c` itself -/
theorem seg1_energy_abs (h p0 : K) (c : C8 K) (hh : h ≠ 0) :
    seg1 (⟨mkTP h, p0, s_ev c h - c.c0⟩ : Seg K) (partialC h c) ⟨c.c1, 2 * c.c2, 6 * c.c3⟩
        ⟨s_ev1 c h, s_ev2 c h, s_ev3 c h⟩
      = ((10080 * c.c7, -(10080 * c.c7)),
         (⟨-(2 * s_ev6 c 0), 2 * s_ev5 c 0, -(2 * s_ev4 c 0)⟩, ⟨2 * s_ev6 c h, -(2 * s_ev5 c h), 2 * s_ev4 c h⟩),
         gradTime c - partialT h c) := by
  simp only [seg1, partialC, partialT, gradTime, mkTP, s_ev, s_ev1, s_ev2, s_ev3, s_ev4, s_ev5, s_ev6, lit_eq, litq]
  push_cast
  refine Prod.ext (Prod.ext ?_ ?_) (Prod.ext (Prod.ext ?_ ?_) ?_)
  · simp only []; field_simp; ring
  · simp only []; field_simp; ring
  · ext <;> (simp only []; field_simp; ring)
  · ext <;> (simp only []; field_simp; ring)
  · simp only []; field_simp; ring

/-- **one segment**: the first loop applied to the energy partials of the piece's own coefficients -/
theorem seg1_energy (h p0 dp : K) (k0 k1 : V3 K) (hh : h ≠ 0) :
    let s : Seg K := ⟨mkTP h, p0, dp⟩
    let c := closeSeg s k0 k1
    seg1 s (partialC h c) k0 k1
      = ((10080 * c.c7, -(10080 * c.c7)),
         (⟨-(2 * s_ev6 c 0), 2 * s_ev5 c 0, -(2 * s_ev4 c 0)⟩, ⟨2 * s_ev6 c h, -(2 * s_ev5 c h), 2 * s_ev4 c h⟩),
         gradTime c - partialT h c) := by
  intro s c
  obtain ⟨a0, a1, a2, a3, a4, a5, a6, a7⟩ := septic_closeSeg h p0 (p0 + dp) k0 k1 hh
  have hs : (⟨mkTP h, p0, p0 + dp - p0⟩ : Seg K) = s := by simp only [s, add_sub_cancel_left]
  simp only [hs] at a0 a1 a2 a3 a4 a5 a6 a7
  have hc0 : c.c0 = p0 := rfl
  have e1 : c.c1 = k0.x := by have := a1; simp [s_ev1] at this; exact this
  have e2 : 2 * c.c2 = k0.y := by have := a2; simp [s_ev2] at this; exact this
  have e3 : 6 * c.c3 = k0.z := by have := a3; simp [s_ev3] at this; exact this
  have hs' : s = ⟨mkTP h, p0, s_ev c h - c.c0⟩ := by
    have : s_ev c h - c.c0 = dp := by rw [hc0]; show s_ev (closeSeg s k0 k1) h - p0 = dp; rw [a4, add_sub_cancel_left]
    rw [this]
  have hk0 : k0 = ⟨c.c1, 2 * c.c2, 6 * c.c3⟩ := by ext <;> simp [e1, e2, e3]
  have hk1 : k1 = ⟨s_ev1 c h, s_ev2 c h, s_ev3 c h⟩ := by
    ext
    · exact a5.symm
    · exact a6.symm
    · exact a7.symm
  have := seg1_energy_abs h p0 c hh
  rw [← hs', ← hk0, ← hk1] at this
  exact this

/-! ## list level -/

def C8re (c : C8 (Dual K)) : C8 K := ⟨c.c0.re, c.c1.re, c.c2.re, c.c3.re, c.c4.re, c.c5.re, c.c6.re, c.c7.re⟩

theorem energy_dual (Ts : List (Dual K)) (cs : List (C8 (Dual K))) (hl : cs.length = Ts.length) :
    (energy Ts cs).du =
      gdotC8 (List.zipWith (fun T c => partialC T.re (C8re c)) Ts cs) cs
      + dot (List.zipWith (fun T c => partialT T.re (C8re c)) Ts cs) (Ts.map Dual.du) := by
  induction Ts generalizing cs with
  | nil => cases cs <;> simp [energy, gdotC8]
  | cons T Ts ih =>
    match cs, hl with
    | c :: cs, hl =>
      have := ih cs (by simpa using hl)
      have hseg := Septic.energySeg_dual T c
      simp only [] at hseg
      simp only [energy, Dual.add_du, hseg, this, List.zipWith_cons_cons, gdotC8, gdot8, List.map_cons, dot_cons, C8re]
      ring

theorem closeSeg_re (s : Seg (Dual K)) (k0 k1 : V3 (Dual K)) :
    C8re (closeSeg s k0 k1) = closeSeg (segRe s) (V3re k0) (V3re k1) := by
  simp only [C8re, closeSeg, segRe, V3re]
  dual_proj
  simp only [lit_eq]

theorem closure_re (segs : List (Seg (Dual K))) (ks : List (V3 (Dual K))) :
    (closure segs ks).map C8re = closure (segs.map segRe) (ks.map V3re) := by
  induction segs generalizing ks with
  | nil => cases ks <;> simp [closure]
  | cons s rest ih =>
    match ks with
    | [] => simp [closure]
    | [_] => simp [closure]
    | k0 :: k1 :: ks' => simp only [closure, List.map_cons, ih (k1 :: ks'), closeSeg_re]

/-- what the first loop returns for the energy partials -/
def expL1 : List K → List (C8 K) → List ((K × K) × (V3 K × V3 K) × K)
  | h :: hs, c :: cs =>
      ((10080 * c.c7, -(10080 * c.c7)),
       (⟨-(2 * s_ev6 c 0), 2 * s_ev5 c 0, -(2 * s_ev4 c 0)⟩, ⟨2 * s_ev6 c h, -(2 * s_ev5 c h), 2 * s_ev4 c h⟩),
       gradTime c - partialT h c) :: expL1 hs cs
  | _, _ => []

theorem loop1_energy (hs Ps : List K) (ks : List (V3 K)) (hne : ∀ h ∈ hs, h ≠ 0)
    (hP : Ps.length = hs.length + 1) (hk : ks.length = hs.length + 1) :
    loop1 (mkSegs hs Ps) (List.zipWith partialC hs (closure (mkSegs hs Ps) ks)) ks
      = expL1 hs (closure (mkSegs hs Ps) ks) := by
  induction hs generalizing Ps ks with
  | nil => match Ps, ks, hP, hk with
    | [_], [_], _, _ => simp [mkSegs, closure, loop1, expL1]
  | cons h hs ih =>
    match Ps, ks, hP, hk with
    | p0 :: p1 :: Ps', k0 :: k1 :: ks', hP, hk =>
      have hh : h ≠ 0 := hne h (by simp)
      have := seg1_energy h p0 (p1 - p0) k0 k1 hh
      simp only [] at this
      simp only [mkSegs, closure, List.zipWith_cons_cons, loop1, expL1, this]
      rw [ih (p1 :: Ps') (k1 :: ks') (fun x hx => hne x (by simp [hx])) (by simpa using hP) (by simpa using hk)]

/-- pull-back onto the right knot of the last piece -/
def lastR : List K → List (C8 K) → V3 K
  | [h], [c] => ⟨2 * s_ev6 c h, -(2 * s_ev5 c h), 2 * s_ev4 c h⟩
  | _ :: h' :: hs, _ :: c' :: cs => lastR (h' :: hs) (c' :: cs)
  | _, _ => 0

theorem ip3_add_left (a b c : V3 K) : ip3 (a + b) c = ip3 a c + ip3 b c := ip3_pairing.add_left a b c

/-- at interior knots the pulled-back knot gradients cancel (optimality conditions) -/
theorem segPairV_jump (h : K) (hs : List K) (c : C8 K) (cs : List (C8 K)) (d0 : V3 K) (ds : List (V3 K))
    (hl : cs.length = hs.length) (hd : ds.length = hs.length + 1) (hj : JumpFree456 (h :: hs) (c :: cs)) :
    segPairV ((expL1 (h :: hs) (c :: cs)).map (·.2.1)) (d0 :: ds)
      = ip3 ⟨-(2 * s_ev6 c 0), 2 * s_ev5 c 0, -(2 * s_ev4 c 0)⟩ d0 + ip3 (lastR (h :: hs) (c :: cs)) (ds.getLastD 0) := by
  induction hs generalizing h c cs d0 ds with
  | nil =>
    match cs, ds, hl, hd with
    | [], [d1], _, _ => simp [expL1, segPairV, lastR]
  | cons h' hs ih =>
    match cs, ds, hl, hd with
    | c' :: cs', d1 :: d2 :: ds', hl, hd =>
      obtain ⟨j4, j5, j6, hj'⟩ := hj
      have ih' := ih h' c' cs' d1 (d2 :: ds') (by simpa using hl) (by simpa using hd) hj'
      have e : expL1 (h :: h' :: hs) (c :: c' :: cs')
          = ((10080 * c.c7, -(10080 * c.c7)),
              (⟨-(2 * s_ev6 c 0), 2 * s_ev5 c 0, -(2 * s_ev4 c 0)⟩, ⟨2 * s_ev6 c h, -(2 * s_ev5 c h), 2 * s_ev4 c h⟩),
              gradTime c - partialT h c) :: expL1 (h' :: hs) (c' :: cs') := rfl
      rw [e, List.map_cons, segPairV, ih']
      simp only [lastR, List.getLastD_cons, ip3, j4, j5, j6]
      ring

theorem lastR_eq (hs : List K) (cs : List (C8 K)) (l : C8 K) (T : K) (hl : cs.length = hs.length)
    (h1 : cs.getLast? = some l) (h2 : hs.getLast? = some T) :
    lastR hs cs = ⟨2 * s_ev6 l T, -(2 * s_ev5 l T), 2 * s_ev4 l T⟩ := by
  induction hs generalizing cs with
  | nil => simp at h2
  | cons h hs ih =>
    match cs, hl with
    | c :: cs', hl =>
      cases hs with
      | nil =>
        match cs', hl with
        | [], _ => simp at h1 h2; simp [lastR, h1, h2]
      | cons h' hs' =>
        match cs', hl with
        | c' :: cs'', hl =>
          rw [List.getLast?_cons_cons] at h1 h2
          simp only [lastR]
          exact ih (c' :: cs'') (by simpa using hl) h1 h2

theorem oadd_points (carry : K) (cL : C8 K) (cs : List (C8 K)) (hc : carry = -(10080 * cL.c7)) :
    oaddAux carry (cs.map (fun c => (10080 * c.c7, -(10080 * c.c7))))
      = gradInner (cL :: cs) ++ [-(10080 * ((cL :: cs).getLast (by simp)).c7)] := by
  induction cs generalizing carry cL with
  | nil => simp [oaddAux, gradInner, hc]
  | cons c cs ih =>
    simp only [List.map_cons, oaddAux, gradInner, List.cons_append]
    rw [ih (-(10080 * c.c7)) c rfl]
    simp only [lit_eq, List.getLast_cons_cons]
    rw [hc]; push_cast; congr 1; ring

theorem expL1_fst (hs : List K) (cs : List (C8 K)) (hl : cs.length = hs.length) :
    (expL1 hs cs).map (·.1) = cs.map (fun c => (10080 * c.c7, -(10080 * c.c7))) := by
  induction hs generalizing cs with
  | nil => match cs, hl with
    | [], _ => simp [expL1]
  | cons h hs ih => match cs, hl with
    | c :: cs', hl => simp only [expL1, List.map_cons, ih cs' (by simpa using hl)]

theorem expL1_times (hs : List K) (cs : List (C8 K)) (hl : cs.length = hs.length) :
    zipAdd (List.zipWith partialT hs cs) ((expL1 hs cs).map (·.2.2)) = cs.map gradTime := by
  induction hs generalizing cs with
  | nil => match cs, hl with
    | [], _ => simp [expL1, zipAdd]
  | cons h hs ih => match cs, hl with
    | c :: cs', hl =>
      simp only [expL1, List.map_cons, List.zipWith_cons_cons, zipAdd, ih cs' (by simpa using hl)]
      congr 1; ring


/-! ## real parts of the dual construction -/

theorem knots_re (hs Ps : List (Dual K)) (bL bR : V3 (Dual K)) (hne0 : hs ≠ []) (hpos : ∀ h ∈ hs, 0 < h.re)
    (hP : Ps.length = hs.length + 1) :
    (buildFull hs Ps bL bR).knots.map V3re
        = (buildFull (hs.map Dual.re) (Ps.map Dual.re) (V3re bL) (V3re bR)).knots
    ∧ (buildFull hs Ps bL bR).knots.length = hs.length + 1
    ∧ ∃ inner, (buildFull hs Ps bL bR).knots = bL :: (inner ++ [bR]) := by
  have hposR : ∀ h ∈ hs.map Dual.re, 0 < h := by
    intro h hh; obtain ⟨a, ha, rfl⟩ := List.mem_map.mp hh; exact hpos a ha
  have hdet := SepticPiv.detOK_of_pos (hs.map Dual.re) (Ps.map Dual.re) (V3re bL) (V3re bR) hposR
  set segsD := mkSegs hs Ps with hsegsD
  set rowsD := rows bL bR segsD with hrowsD
  set segsR := mkSegs (hs.map Dual.re) (Ps.map Dual.re) with hsegsR
  set rowsR := rows (V3re bL) (V3re bR) segsR with hrowsR
  have hsegs : segsD.map segRe = segsR := SepticAdj.mkSegs_re hs Ps
  have hrowsRe : rowsD.map rowRe = rowsR := by rw [hrowsD, SepticAdj.rows_re, hsegs]
  have hlenSegs : segsD.length = hs.length := mkSegs_length hs Ps hP
  have hlenRows : rowsD.length = hs.length - 1 := by rw [hrowsD, rowsD_length, hlenSegs]
  have hpivD : BPivOK M3.inv none rowsD := pivOK_dual none rowsD (by simpa [hrowsRe] using hdet)
  have hsolD : BSolves 0 rowsD (bthomas rowsD) := by
    have := bthomas_correct M3.inv M3.transpose rowsD hpivD
    rwa [← blkOps_M3] at this
  set inner := bthomas rowsD with hinner
  have hlenInner : inner.length = hs.length - 1 := by rw [bsolves_length _ _ _ hsolD, hlenRows]
  have hpivR : BPivOK2 M3.inv none rowsR := detOK_pivOK2 none rowsR hdet
  have hreal : inner.map V3re = bthomas rowsR := by
    have h1 := bsolves_re 0 rowsD inner hsolD
    rw [zero_re, hrowsRe] at h1
    have u := bthomas_unique M3.inv M3.transpose rowsR hpivR _ h1
    rwa [← blkOps_M3] at u
  have hknotsD : (buildFull hs Ps bL bR).knots = bL :: inner ++ [bR] := rfl
  refine ⟨?_, ?_, inner, hknotsD⟩
  · have hknotsR : (buildFull (hs.map Dual.re) (Ps.map Dual.re) (V3re bL) (V3re bR)).knots
        = V3re bL :: inner.map V3re ++ [V3re bR] := by
      show V3re bL :: bback (bfwd none rowsR) ++ [V3re bR] = _
      rw [hreal]; rfl
    rw [hknotsD, hknotsR]; simp
  · rw [hknotsD]; simp only [List.length_cons, List.length_append, List.length_nil, hlenInner]
    have : 1 ≤ hs.length := by cases hs with
      | nil => exact absurd rfl hne0
      | cons _ _ => simp
    omega

theorem zipWith_re {β : Type} (hs : List (Dual K)) (cs : List (C8 (Dual K))) (f : K → C8 K → β) :
    List.zipWith (fun T c => f T.re (C8re c)) hs cs = List.zipWith f (hs.map Dual.re) (cs.map C8re) := by
  induction hs generalizing cs with
  | nil => simp
  | cons h hs ih => cases cs with
    | nil => simp
    | cons c cs => simp only [List.zipWith_cons_cons, List.map_cons, ih]

theorem closure_length {α : Type} [Num α] (segs : List (Seg α)) (ks : List (V3 α)) (hk : ks.length = segs.length + 1) :
    (closure segs ks).length = segs.length := by
  induction segs generalizing ks with
  | nil => match ks, hk with
    | [_], _ => simp [closure]
  | cons s rest ih => match ks, hk with
    | k0 :: k1 :: ks', hk => simp [closure, ih (k1 :: ks') (by simpa using hk)]

/-- real-level core: for pieces with continuous derivatives 4–6, the first-loop pull-back of the energy partials paired
with *any* tangent (whatever the tangent of the interior knot derivatives) is the pairing with the closed forms -/
theorem envelope_core (hs : List K) (cs : List (C8 K)) (hne0 : hs ≠ []) (hl : cs.length = hs.length)
    (hj : JumpFree456 hs cs) (dP dh : List K) (dk0 dkN : V3 K) (dmid : List (V3 K))
    (hdP : dP.length = hs.length + 1) (hdh : dh.length = hs.length) (hdm : dmid.length + 1 = hs.length) :
    segPair ((expL1 hs cs).map (·.1)) dP + dot ((expL1 hs cs).map (·.2.2)) dh
        + segPairV ((expL1 hs cs).map (·.2.1)) (dk0 :: (dmid ++ [dkN]))
        + dot (List.zipWith partialT hs cs) dh
      = dot ((gradBoundary hs cs).1.p :: (gradInner cs ++ [(gradBoundary hs cs).2.p])) dP
        + dot (cs.map gradTime) dh
        + ip3 ⟨(gradBoundary hs cs).1.v, (gradBoundary hs cs).1.a, (gradBoundary hs cs).1.j⟩ dk0
        + ip3 ⟨(gradBoundary hs cs).2.v, (gradBoundary hs cs).2.a, (gradBoundary hs cs).2.j⟩ dkN := by
  match hs, cs, hne0, hl with
  | h :: hs', c :: cs', _, hcl =>
    have hpts : segPair ((expL1 (h :: hs') (c :: cs')).map (·.1)) dP
        = dot (oadd ((c :: cs').map (fun c => (10080 * c.c7, -(10080 * c.c7))))) dP := by
      rw [expL1_fst _ _ hcl, dot_oadd _ _ (by simp only [List.length_map, hdP, hcl])]
    have elen : (expL1 (h :: hs') (c :: cs')).length = (c :: cs').length := by
      have := congrArg List.length (expL1_fst (h :: hs') (c :: cs') hcl)
      simpa using this
    have htimes : dot ((expL1 (h :: hs') (c :: cs')).map (·.2.2)) dh
        + dot (List.zipWith partialT (h :: hs') (c :: cs')) dh = dot ((c :: cs').map gradTime) dh := by
      rw [← expL1_times _ _ hcl, dot_zipAdd]
      · ring
      · simp only [List.length_zipWith, hcl, min_self, hdh]
      · simp only [List.length_map, elen, hcl, hdh]
    have hgd := segPairV_jump h hs' c cs' dk0 (dmid ++ [dkN]) (by simpa using hcl)
      (by simp only [List.length_cons, List.length_append, List.length_nil] at hdm ⊢; omega) hj
    have hlastd : (dmid ++ [dkN]).getLastD 0 = dkN := by
      rw [List.getLastD_eq_getLast?, List.getLast?_append]; rfl
    rw [hgd, hpts, hlastd]
    obtain ⟨l, hl⟩ : ∃ l, (c :: cs').getLast? = some l := ⟨_, List.getLast?_eq_some_getLast (by simp)⟩
    obtain ⟨T, hT⟩ : ∃ T, (h :: hs').getLast? = some T := ⟨_, List.getLast?_eq_some_getLast (by simp)⟩
    have hgb : gradBoundary (h :: hs') (c :: cs')
        = (⟨10080 * c.c7, (-(1440)) * c.c6, 240 * c.c5, (-(48)) * c.c4⟩,
           ⟨(-(2)) * (5040 * l.c7), 2 * (720 * l.c6 + 5040 * l.c7 * T),
            (-(2)) * (120 * l.c5 + 720 * l.c6 * T + 2520 * l.c7 * (T * T)),
            2 * (24 * l.c4 + 120 * l.c5 * T + 360 * l.c6 * (T * T) + 840 * l.c7 * (T * T * T))⟩) := by
      simp only [gradBoundary, hl, hT, List.head?_cons, lit_eq]
      push_cast; rfl
    rw [hgb, lastR_eq _ _ l T hcl hl hT]
    simp only [oadd, List.map_cons, oaddAux, lit_eq, Nat.cast_zero, zero_add]
    rw [oadd_points _ c _ rfl]
    have hl' : (c :: cs').getLast (by simp) = l := by
      rw [List.getLast?_eq_some_getLast (by simp)] at hl; exact Option.some.inj hl
    rw [hl']
    have e1 : dot (List.zipWith partialT (h :: hs') (c :: cs')) dh
        = dot ((c :: cs').map gradTime) dh - dot ((expL1 (h :: hs') (c :: cs')).map (·.2.2)) dh := by
      rw [← htimes]; ring
    rw [e1]
    simp only [List.map_cons, ip3, s_ev4, s_ev5, s_ev6]
    ring_nf

/-- **C06 (septic), every N**: the derivative of the reported energy along any tangent of durations, waypoints and
boundary states is the pairing of the tangent with the closed-form analytic gradients -/
theorem septic_energy_grad_exact (hs Ps : List (Dual K)) (bL bR : V3 (Dual K))
    (hpos : ∀ h ∈ hs, 0 < h.re) (hne0 : hs ≠ []) (hP : Ps.length = hs.length + 1) :
    (energy hs (build hs Ps bL bR)).du
      = dot ((gradBoundary (hs.map Dual.re) (build (hs.map Dual.re) (Ps.map Dual.re) (V3re bL) (V3re bR))).1.p
              :: (gradInner (build (hs.map Dual.re) (Ps.map Dual.re) (V3re bL) (V3re bR))
                  ++ [(gradBoundary (hs.map Dual.re) (build (hs.map Dual.re) (Ps.map Dual.re) (V3re bL) (V3re bR))).2.p]))
            (Ps.map Dual.du)
        + dot ((build (hs.map Dual.re) (Ps.map Dual.re) (V3re bL) (V3re bR)).map gradTime) (hs.map Dual.du)
        + ip3 ⟨(gradBoundary (hs.map Dual.re) (build (hs.map Dual.re) (Ps.map Dual.re) (V3re bL) (V3re bR))).1.v, (gradBoundary (hs.map Dual.re) (build (hs.map Dual.re) (Ps.map Dual.re) (V3re bL) (V3re bR))).1.a, (gradBoundary (hs.map Dual.re) (build (hs.map Dual.re) (Ps.map Dual.re) (V3re bL) (V3re bR))).1.j⟩ (V3du bL)
        + ip3 ⟨(gradBoundary (hs.map Dual.re) (build (hs.map Dual.re) (Ps.map Dual.re) (V3re bL) (V3re bR))).2.v, (gradBoundary (hs.map Dual.re) (build (hs.map Dual.re) (Ps.map Dual.re) (V3re bL) (V3re bR))).2.a, (gradBoundary (hs.map Dual.re) (build (hs.map Dual.re) (Ps.map Dual.re) (V3re bL) (V3re bR))).2.j⟩ (V3du bR) := by
  have hne : ∀ h ∈ hs, h.re ≠ 0 := fun h hh => (hpos h hh).ne'
  have hposR : ∀ h ∈ hs.map Dual.re, 0 < h := by
    intro h hh; obtain ⟨a, ha, rfl⟩ := List.mem_map.mp hh; exact hpos a ha
  obtain ⟨hkre, hklen, inner, hkD⟩ := knots_re hs Ps bL bR hne0 hpos hP
  have hcsR' : build (hs.map Dual.re) (Ps.map Dual.re) (V3re bL) (V3re bR)
      = closure (mkSegs (hs.map Dual.re) (Ps.map Dual.re)) ((buildFull hs Ps bL bR).knots.map V3re) := by
    rw [hkre]; rfl
  have hsl : (mkSegs hs Ps).length = hs.length := mkSegs_length hs Ps hP
  have hbuild : build hs Ps bL bR = closure (mkSegs hs Ps) (buildFull hs Ps bL bR).knots := rfl
  have hcslen : (build hs Ps bL bR).length = hs.length := by
    rw [hbuild, closure_length _ _ (by rw [hklen, hsl]), hsl]
  have hre : (build hs Ps bL bR).map C8re = build (hs.map Dual.re) (Ps.map Dual.re) (V3re bL) (V3re bR) := by
    rw [hbuild, closure_re, SepticAdj.mkSegs_re, hcsR']
  have hcsRlen : (build (hs.map Dual.re) (Ps.map Dual.re) (V3re bL) (V3re bR)).length = (hs.map Dual.re).length := by
    rw [← hre]; simp [hcslen]
  rw [energy_dual hs _ hcslen, zipWith_re, zipWith_re, hre]
  have hL1 := loop1_sum hs Ps (buildFull hs Ps bL bR).knots
    (List.zipWith partialC (hs.map Dual.re) (build (hs.map Dual.re) (Ps.map Dual.re) (V3re bL) (V3re bR)))
    hP hklen (by simp [hcsRlen]) hne
  simp only [] at hL1
  rw [hbuild, hL1]
  have hl1 : loop1 (mkSegs (hs.map Dual.re) (Ps.map Dual.re))
      (List.zipWith partialC (hs.map Dual.re) (build (hs.map Dual.re) (Ps.map Dual.re) (V3re bL) (V3re bR)))
      ((buildFull hs Ps bL bR).knots.map V3re)
      = expL1 (hs.map Dual.re) (build (hs.map Dual.re) (Ps.map Dual.re) (V3re bL) (V3re bR)) := by
    rw [hcsR']
    exact loop1_energy _ _ _ (fun h hh => (hposR h hh).ne') (by simp [hP]) (by simp [hklen])
  rw [hl1]
  have hjf := SepticPiv.septic_KKT (hs.map Dual.re) (Ps.map Dual.re) (V3re bL) (V3re bR) hposR (by simp [hP])
  have hkdu : (buildFull hs Ps bL bR).knots.map V3du = V3du bL :: (inner.map V3du ++ [V3du bR]) := by rw [hkD]; simp
  rw [hkdu]
  have hinner : inner.length + 1 = hs.length := by
    rw [hkD] at hklen; simp only [List.length_cons, List.length_append, List.length_nil] at hklen; omega
  exact envelope_core (hs.map Dual.re) _ (by simpa using hne0) hcsRlen hjf (Ps.map Dual.du) (hs.map Dual.du)
    (V3du bL) (V3du bR) (inner.map V3du) (by simp [hP]) (by simp) (by simpa using hinner)

/-- **C06 (septic), every N**: the derivative of the reported energy along any tangent equals what `propagateGrad`
returns for the partial gradients ("propagating the partials reproduces the total derivative") -/
theorem septic_energy_total_derivative (hs Ps : List (Dual K)) (bL bR : V3 (Dual K))
    (hpos : ∀ h ∈ hs, 0 < h.re) (hne0 : hs ≠ []) (hP : Ps.length = hs.length + 1) :
    let csR := build (hs.map Dual.re) (Ps.map Dual.re) (V3re bL) (V3re bR)
    let gC := List.zipWith partialC (hs.map Dual.re) csR
    let gT := List.zipWith partialT (hs.map Dual.re) csR
    let out := propagate (buildFull (hs.map Dual.re) (Ps.map Dual.re) (V3re bL) (V3re bR)) gC
    (energy hs (build hs Ps bL bR)).du
      = dot out.points (Ps.map Dual.du) + dot (zipAdd gT out.times) (hs.map Dual.du)
        + ip3 out.start (V3du bL) + ip3 out.fin (V3du bR) := by
  intro csR gC gT out
  obtain ⟨hkre, hklen, inner, hkD⟩ := knots_re hs Ps bL bR hne0 hpos hP
  have hcsR' : csR = closure (mkSegs (hs.map Dual.re) (Ps.map Dual.re)) ((buildFull hs Ps bL bR).knots.map V3re) := by
    rw [hkre]; rfl
  have hsl : (mkSegs hs Ps).length = hs.length := mkSegs_length hs Ps hP
  have hbuild : build hs Ps bL bR = closure (mkSegs hs Ps) (buildFull hs Ps bL bR).knots := rfl
  have hcslen : (build hs Ps bL bR).length = hs.length := by
    rw [hbuild, closure_length _ _ (by rw [hklen, hsl]), hsl]
  have hre : (build hs Ps bL bR).map C8re = csR := by
    rw [hbuild, closure_re, SepticAdj.mkSegs_re, hcsR']
  have hcsRlen : csR.length = hs.length := by rw [← hre]; simp [hcslen]
  rw [energy_dual hs _ hcslen, zipWith_re, zipWith_re, hre]
  exact SepticPiv.septic_adjoint_pos hs Ps bL bR gC gT hne0 hpos hP (by simp [gC, hcsRlen]) (by simp [gT, hcsRlen])

end SepticEG
