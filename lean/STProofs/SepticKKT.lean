import STProofs.Hermite
import STProofs.Blocks
/-!
# Septic spline: the block rows are exactly "the 4th, 5th and 6th derivatives are continuous at the interior knot",
hence under the pivot hypothesis the built pieces are C⁶ (with C⁰–C³ and the boundary states from
`STProofs.Hermite`): the optimality (KKT) conditions of the minimum-snap interpolant, for every N.
-/
open ST ST.Septic

namespace SepticK
variable {K : Type} [Field K] [CharZero K]

/-- **row identity**: residual of the block row of a knot = jump of derivatives (4, 5, 6) across it, with factor exactly 1 -/
theorem septic_row_identity (hL hR p0 p1 p2 : K) (kp kc kn : V3 K) (h1 : hL ≠ 0) (h2 : hR ≠ 0) :
    let sL : Seg K := ⟨mkTP hL, p0, p1 - p0⟩
    let sR : Seg K := ⟨mkTP hR, p1, p2 - p1⟩
    let cL := closeSeg sL kp kc
    let cR := closeSeg sR kc kn
    let res := (blockL sL.tp • kp + blockD sL.tp sR.tp • kc + blockU sR.tp • kn) - blockRhs sL sR
    res.x = s_ev4 cL hL - s_ev4 cR 0 ∧ res.y = s_ev5 cL hL - s_ev5 cR 0 ∧ res.z = s_ev6 cL hL - s_ev6 cR 0 := by
  intro sL sR cL cR res
  simp only [res, cL, cR, sL, sR, closeSeg, mkTP, blockL, blockD, blockU, blockRhs, s_ev4, s_ev5, s_ev6, lit_eq,
    V3.smul_def, V3.add_def, V3.sub_def]
  push_cast
  refine ⟨?_, ?_, ?_⟩ <;> (field_simp; ring)

/-- the same equation at every interior knot, with the boundary states as the outermost knot data -/
def UniformRows : List (Seg K) → List (V3 K) → Prop
  | sL :: sR :: ss, kp :: kc :: kn :: ks =>
      (blockL sL.tp • kp + blockD sL.tp sR.tp • kc + blockU sR.tp • kn = blockRhs sL sR) ∧
      UniformRows (sR :: ss) (kc :: kn :: ks)
  | _, _ => True

theorem uniform_of_solves (bL bR : V3 K) (first : Bool) (xp : V3 K) (sL : Seg K) (rest : List (Seg K)) (xs : List (V3 K))
    (hxp : first = true → xp = 0)
    (h : BSolves xp (rowsAux bR first bL sL rest) xs) :
    UniformRows (sL :: rest) ((if first then bL else xp) :: xs ++ [bR]) := by
  induction rest generalizing first xp sL xs with
  | nil => cases xs <;> simp [UniformRows]
  | cons sR rest ih =>
    cases xs with
    | nil => simp [rowsAux, BSolves] at h
    | cons x xs =>
      simp only [rowsAux, BSolves] at h
      obtain ⟨hrow, hrest⟩ := h
      have ih' := ih false x sR xs (by simp) hrest
      simp only [Bool.false_eq_true, if_false] at ih'
      cases rest with
      | nil =>
        cases xs with
        | cons _ _ => simp [rowsAux, BSolves] at hrest
        | nil =>
          simp only [List.nil_append, List.cons_append, UniformRows, and_true]
          simp only [List.headD_nil, smul_zero, add_zero] at hrow
          cases first with
          | true =>
            simp only [if_true] at hrow ⊢
            rw [hxp rfl, smul_zero, zero_add] at hrow
            have : V3.sub (V3.sub (blockRhs sL sR) (M3.act (blockL sL.tp) bL)) (M3.act (blockU sR.tp) bR)
                = blockRhs sL sR - blockL sL.tp • bL - blockU sR.tp • bR := rfl
            rw [this] at hrow
            rw [hrow]; abel
          | false =>
            simp only [Bool.false_eq_true, if_false] at hrow ⊢
            have : V3.sub (blockRhs sL sR) (M3.act (blockU sR.tp) bR) = blockRhs sL sR - blockU sR.tp • bR := rfl
            rw [this] at hrow
            rw [hrow]; abel
      | cons sR2 rest2 =>
        cases xs with
        | nil => simp [rowsAux, BSolves] at hrest
        | cons x2 xs2 =>
          simp only [List.cons_append, UniformRows] at ih' ⊢
          refine ⟨?_, ih'⟩
          simp only [List.headD_cons] at hrow
          cases first with
          | true =>
            simp only [if_true] at hrow ⊢
            rw [hxp rfl, smul_zero, zero_add] at hrow
            have : V3.sub (blockRhs sL sR) (M3.act (blockL sL.tp) bL) = blockRhs sL sR - blockL sL.tp • bL := rfl
            rw [this] at hrow
            rw [add_assoc, hrow]; abel
          | false =>
            simp only [Bool.false_eq_true, if_false] at hrow ⊢
            exact hrow

/-- consecutive pieces agree in derivatives 4, 5, 6 at their common knot -/
def JumpFree456 : List K → List (C8 K) → Prop
  | h :: hs, c :: c' :: cs =>
      s_ev4 c h = s_ev4 c' 0 ∧ s_ev5 c h = s_ev5 c' 0 ∧ s_ev6 c h = s_ev6 c' 0 ∧ JumpFree456 hs (c' :: cs)
  | _, _ => True

theorem jumpFree_of_uniform (hs Ps : List K) (ks : List (V3 K)) (hne : ∀ h ∈ hs, h ≠ 0)
    (hP : Ps.length = hs.length + 1) (hk : ks.length = hs.length + 1)
    (hu : UniformRows (mkSegs hs Ps) ks) : JumpFree456 hs (closure (mkSegs hs Ps) ks) := by
  induction hs generalizing Ps ks with
  | nil => simp [JumpFree456]
  | cons hL hs ih =>
    match Ps, ks, hP, hk with
    | p0 :: p1 :: Ps, kp :: kc :: ks, hP, hk =>
      cases hs with
      | nil =>
        match Ps, ks with
        | [], [] => simp [mkSegs, closure, JumpFree456]
      | cons hR hs' =>
        match Ps, ks, hP, hk with
        | p2 :: Ps', kn :: ks', hP, hk =>
          simp only [mkSegs, UniformRows] at hu
          obtain ⟨hrow, hrest⟩ := hu
          have hhL : hL ≠ 0 := hne hL (by simp)
          have hhR : hR ≠ 0 := hne hR (by simp)
          obtain ⟨i1, i2, i3⟩ := septic_row_identity hL hR p0 p1 p2 kp kc kn hhL hhR
          simp only at i1 i2 i3
          rw [hrow, sub_self] at i1 i2 i3
          have ih' := ih (p1 :: p2 :: Ps') (kc :: kn :: ks') (fun x hx => hne x (by simp [hx]))
            (by simpa using hP) (by simpa using hk) (by simpa [mkSegs] using hrest)
          simp only [mkSegs, closure, JumpFree456] at ih' ⊢
          refine ⟨?_, ?_, ?_, ih'⟩
          · have : (0 : V3 K).x = 0 := rfl
            rw [this] at i1; exact (sub_eq_zero.mp i1.symm)
          · have : (0 : V3 K).y = 0 := rfl
            rw [this] at i2; exact (sub_eq_zero.mp i2.symm)
          · have : (0 : V3 K).z = 0 := rfl
            rw [this] at i3; exact (sub_eq_zero.mp i3.symm)

/-- pivot hypothesis of the septic block elimination for given durations (the determinants the code divides by) -/
def SepticPivOK (hs Ps : List K) (bL bR : V3 K) : Prop :=
  BPivOK M3.inv none (rows bL bR (mkSegs hs Ps))

/-- **C02 (septic), every N, under the pivot hypothesis**: derivatives 4–6 are continuous at every interior knot;
together with `septic_build_hermite` (C⁰–C³, interpolation, boundary states) these are all optimality conditions of
the minimum-snap interpolant. -/
theorem septic_KKT_partial (hs Ps : List K) (bL bR : V3 K) (hne : ∀ h ∈ hs, h ≠ 0)
    (hP : Ps.length = hs.length + 1) (hpiv : SepticPivOK hs Ps bL bR) :
    JumpFree456 hs (build hs Ps bL bR) := by
  have hsol := bthomas_correct M3.inv M3.transpose (rows bL bR (mkSegs hs Ps)) hpiv
  rw [← blkOps_M3] at hsol
  match hs, Ps, hP with
  | [], [_], _ => simp [build, buildFull, mkSegs, closure, JumpFree456]
  | h :: hs', p0 :: p1 :: Ps', hP =>
    have hrl : (rows bL bR (mkSegs (h :: hs') (p0 :: p1 :: Ps'))).length = hs'.length := by
      have : ∀ (first : Bool) (s : Seg K) (rest : List (Seg K)), (rowsAux bR first bL s rest).length = rest.length := by
        intro first s rest
        induction rest generalizing first s with
        | nil => simp [rowsAux]
        | cons a r ih => simp [rowsAux, ih]
      simp only [mkSegs, rows, this]
      have : ∀ (a b : List K), b.length = a.length + 1 → (mkSegs a b).length = a.length := by
        intro a; induction a with
        | nil => intro b _; cases b <;> simp [mkSegs]
        | cons x xs ih =>
          intro b hb
          match b, hb with
          | q0 :: q1 :: qs, hb => simp [mkSegs, ih (q1 :: qs) (by simpa using hb)]
      exact this hs' (p1 :: Ps') (by simpa using hP)
    have hlen : (bback (bfwd none (rows bL bR (mkSegs (h :: hs') (p0 :: p1 :: Ps'))))).length = hs'.length :=
      (bsolves_length _ _ _ hsol).trans hrl
    have hu := uniform_of_solves bL bR true 0 _ _ _ (fun _ => rfl) (by simpa [mkSegs, rows] using hsol)
    simp only [if_true] at hu
    simp only [build, buildFull]
    apply jumpFree_of_uniform (h :: hs') (p0 :: p1 :: Ps') _ hne hP
    · simp only [List.length_cons, List.length_append, List.length_nil]
      omega
    · simpa [mkSegs, bthomas, rows] using hu

end SepticK
