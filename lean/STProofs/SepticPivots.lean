import STProofs.SepticAdjoint
import STProofs.SepticKKT
import Mathlib.Tactic.Linarith
import Mathlib.Tactic.Positivity
import Mathlib.LinearAlgebra.Matrix.ToLinearEquiv
import Mathlib.LinearAlgebra.Matrix.Determinant.Basic
import Mathlib.Tactic.FinCases
/-!
# The pivots of the septic block elimination never vanish (positive durations, every N)

The block rows of the code are, up to the constant sign matrix `Jm = antidiag(1, −1, 1)`, the gradient of the
snap energy with respect to the knot derivatives `(v, a, j)`.  So the Schur complements of the elimination are Hessians of
partially minimised energies, bounded below by the energy of the next segment alone, which is positive definite.

* `energyForm h w v` : the energy of one septic piece of duration `h` with zero end positions, `(v,a) = w` at its
  left end and `v` at its right end, written with the code's blocks (`Jm·D_R`, `Jm·U`, `Jm·L`, `Jm·D_L`);
* `energyForm_sos` : it is an explicit sum of four squares with positive weights (shifted Legendre components of the snap);
* invariant carried by the forward sweep: `wᵀ Jm S w ≥ wᵀ Jm D_R(h) w` for the current pivot `S`;
* `detOK_of_pos` : hence no pivot determinant vanishes — the hypothesis of `septic_KKT_partial`,
  `septic_adjoint` and of uniqueness is discharged for all positive durations.
-/
open ST ST.Septic SepticAdj

namespace SepticPiv
variable {K : Type} [Field K] [LinearOrder K] [IsStrictOrderedRing K]

def Jm : M3 K := ⟨0, 0, 1, 0, -1, 0, 1, 0, 0⟩
/-- the part of `blockD` contributed by the segment left of the knot / right of the knot -/
def DLm (h : K) : M3 K :=
  ⟨480 * (1/h)^3, (-120) * (1/h)^2, 16 * (1/h),
   5400 * (1/h)^4, (-1200) * (1/h)^3, 120 * (1/h)^2,
   25920 * (1/h)^5, (-5400) * (1/h)^4, 480 * (1/h)^3⟩
def DRm (h : K) : M3 K :=
  ⟨480 * (1/h)^3, 120 * (1/h)^2, 16 * (1/h),
   (-5400) * (1/h)^4, (-1200) * (1/h)^3, (-120) * (1/h)^2,
   25920 * (1/h)^5, 5400 * (1/h)^4, 480 * (1/h)^3⟩

theorem blockD_split (hL hR : K) : blockD (mkTP hL) (mkTP hR) = DLm hL + DRm hR := by
  ext <;> simp only [blockD, mkTP, DLm, DRm, M3.add_def, lit_eq] <;> push_cast <;> ring

/-- energy of one piece (zero end positions) as a quadratic form in the end derivatives, in the code's blocks -/
def energyForm (h : K) (w v : V3 K) : K :=
  ip3 w ((Jm * DRm h) • w) + ip3 w ((Jm * blockU (mkTP h)) • v) + ip3 v ((Jm * blockL (mkTP h)) • w)
    + ip3 v ((Jm * DLm h) • v)

theorem energyForm_sos (h : K) (hh : h ≠ 0) (w v : V3 K) :
    energyForm h w v
      = h * (((v.z - w.z) / h) ^ 2
          + (3 * (h * v.z + h * w.z - 2 * v.y + 2 * w.y) / h ^ 2) ^ 2 / 3
          + (5 * (h ^ 2 * v.z - h ^ 2 * w.z - 6 * h * v.y - 6 * h * w.y + 12 * v.x - 12 * w.x) / h ^ 3) ^ 2 / 5
          + (7 * (h ^ 2 * v.z + h ^ 2 * w.z - 12 * h * v.y + 12 * h * w.y + 60 * v.x + 60 * w.x) / h ^ 3) ^ 2 / 7) := by
  simp only [energyForm, ip3, Jm, DRm, DLm, blockU, blockL, mkTP, M3.mul_def, V3.smul_def, lit_eq]
  push_cast
  field_simp
  ring

theorem energyForm_nonneg (h : K) (hh : 0 < h) (w v : V3 K) : 0 ≤ energyForm h w v := by
  rw [energyForm_sos h hh.ne']
  positivity

/-- the right-of-knot part is positive definite -/
theorem wr_form (h : K) (hh : h ≠ 0) (w : V3 K) :
    ip3 w ((Jm * DRm h) • w) = 16 * (1/h) * (w.z + 15 / 2 * (1/h) * w.y + 30 * (1/h) ^ 2 * w.x) ^ 2
      + 300 * (1/h) ^ 3 * (w.y + 6 * (1/h) * w.x) ^ 2 + 720 * (1/h) ^ 5 * w.x ^ 2 := by
  simp only [ip3, Jm, DRm, M3.mul_def, V3.smul_def]
  field_simp
  ring

theorem wr_posdef (h : K) (hh : 0 < h) (w : V3 K) (hw : ip3 w ((Jm * DRm h) • w) ≤ 0) : w = 0 := by
  rw [wr_form h hh.ne'] at hw
  have hi : 0 < 1 / h := by positivity
  have h1 : 0 ≤ 16 * (1/h) * (w.z + 15 / 2 * (1/h) * w.y + 30 * (1/h) ^ 2 * w.x) ^ 2 := by positivity
  have h2 : 0 ≤ 300 * (1/h) ^ 3 * (w.y + 6 * (1/h) * w.x) ^ 2 := by positivity
  have h3 : 0 ≤ 720 * (1/h) ^ 5 * w.x ^ 2 := by positivity
  have e3 : 720 * (1/h) ^ 5 * w.x ^ 2 = 0 := le_antisymm (by linarith) h3
  have e2 : 300 * (1/h) ^ 3 * (w.y + 6 * (1/h) * w.x) ^ 2 = 0 := le_antisymm (by linarith) h2
  have e1 : 16 * (1/h) * (w.z + 15 / 2 * (1/h) * w.y + 30 * (1/h) ^ 2 * w.x) ^ 2 = 0 := le_antisymm (by linarith) h1
  have hx : w.x = 0 := by
    have : (720 * (1/h) ^ 5) ≠ 0 := by positivity
    have := (mul_eq_zero.mp e3).resolve_left this
    exact pow_eq_zero_iff (two_ne_zero) |>.mp this
  have hy : w.y = 0 := by
    have : (300 * (1/h) ^ 3) ≠ 0 := by positivity
    have := (mul_eq_zero.mp e2).resolve_left this
    have := pow_eq_zero_iff (two_ne_zero) |>.mp this
    rw [hx] at this; simpa using this
  have hz : w.z = 0 := by
    have : (16 * (1/h)) ≠ 0 := by positivity
    have := (mul_eq_zero.mp e1).resolve_left this
    have := pow_eq_zero_iff (two_ne_zero) |>.mp this
    rw [hx, hy] at this; simpa using this
  ext <;> simp [hx, hy, hz, V3.zero_def]

/-- a singular 3×3 block has a non-zero kernel vector (Mathlib: `Matrix.exists_mulVec_eq_zero_iff`) -/
theorem exists_ker (S : M3 K) (h : M3.det S = 0) : ∃ w : V3 K, w ≠ 0 ∧ S • w = 0 := by
  let A : Matrix (Fin 3) (Fin 3) K := !![S.a00, S.a01, S.a02; S.a10, S.a11, S.a12; S.a20, S.a21, S.a22]
  have hA : A.det = 0 := by
    simp only [M3.det] at h
    simp [A, Matrix.det_fin_three]
    linear_combination h
  obtain ⟨v, hv, hAv⟩ := Matrix.exists_mulVec_eq_zero_iff.mpr hA
  refine ⟨⟨v 0, v 1, v 2⟩, ?_, ?_⟩
  · intro e
    apply hv
    have e0 := congrArg V3.x e; have e1 := congrArg V3.y e; have e2 := congrArg V3.z e
    simp only [V3.zero_def] at e0 e1 e2
    funext i; fin_cases i <;> simp [e0, e1, e2]
  · have r0 := congrFun hAv 0; have r1 := congrFun hAv 1; have r2 := congrFun hAv 2
    simp only [A, Matrix.mulVec, Matrix.of_apply, Matrix.cons_val', Matrix.cons_val_zero, Matrix.cons_val_one,
      dotProduct, Fin.sum_univ_three, Pi.zero_apply] at r0 r1 r2
    ext <;> simp only [V3.smul_def, V3.zero_def]
    · simpa using r0
    · simpa using r1
    · simpa using r2

/-! ## the invariant of the forward sweep -/

/-- the current pivot dominates the energy Hessian of the next segment alone -/
def Inv (S : M3 K) (h : K) : Prop := ∀ w : V3 K, ip3 w ((Jm * DRm h) • w) ≤ ip3 w ((Jm * S) • w)

theorem ip3_neg_right (a b : V3 K) : ip3 a (-b) = -ip3 a b := by
  simp only [ip3, V3.neg_def]; ring

theorem ip3_zero_left (x : V3 K) : ip3 (0 : V3 K) x = 0 := by simp [ip3, V3.zero_def]
theorem ip3_zero_right (x : V3 K) : ip3 x (0 : V3 K) = 0 := by simp [ip3, V3.zero_def]

theorem det_ne_of_inv (S : M3 K) (h : K) (hh : 0 < h) (hI : Inv S h) : M3.det S ≠ 0 := by
  intro hd
  obtain ⟨w, hw, hSw⟩ := exists_ker S hd
  have := hI w
  rw [mul_smul Jm S, hSw, smul_zero] at this
  have h0 : ip3 w (0 : V3 K) = 0 := by simp [ip3, V3.zero_def]
  rw [h0] at this
  exact hw (wr_posdef h hh w this)

theorem inv_first (hL hR : K) (hhL : 0 < hL) : Inv (blockD (mkTP hL) (mkTP hR)) hR := by
  intro w
  rw [blockD_split, mul_add, add_smul, ip3_pairing.add_right]
  have := energyForm_nonneg hL hhL 0 w
  simp only [energyForm, ip3_zero_left, smul_zero, ip3_zero_right, zero_add] at this
  linarith

theorem inv_step (S : M3 K) (hL hR : K) (hhL : 0 < hL) (hI : Inv S hL) :
    Inv (blockD (mkTP hL) (mkTP hR) - blockL (mkTP hL) * (M3.inv S * blockU (mkTP hL))) hR := by
  have hdet := det_ne_of_inv S hL hhL hI
  intro v
  set w : V3 K := -((M3.inv S * blockU (mkTP hL)) • v) with hw
  have hSw : S • w = -(blockU (mkTP hL) • v) := by
    rw [hw, smul_neg, ← mul_smul, ← mul_assoc, M3.mul_inv S hdet, one_mul]
  have hS'v : (blockD (mkTP hL) (mkTP hR) - blockL (mkTP hL) * (M3.inv S * blockU (mkTP hL))) • v
      = DLm hL • v + DRm hR • v + blockL (mkTP hL) • w := by
    rw [blockD_split, sub_smul, add_smul, mul_smul (blockL (mkTP hL)), hw, smul_neg]
    abel
  rw [mul_smul Jm (_ - _), hS'v, smul_add, smul_add, ip3_pairing.add_right, ip3_pairing.add_right,
    ← mul_smul, ← mul_smul, ← mul_smul]
  have hE := energyForm_nonneg hL hhL w v
  have hIw := hI w
  have hIw' : ip3 w ((Jm * S) • w) = -ip3 w ((Jm * blockU (mkTP hL)) • v) := by
    rw [mul_smul Jm S, hSw, smul_neg, ip3_neg_right, ← mul_smul]
  simp only [energyForm] at hE
  linarith

/-! ## no pivot determinant vanishes -/

/-- segments with positive durations -/
def PosSegs : List (Seg K) → Prop
  | [] => True
  | s :: ss => (∃ h : K, 0 < h ∧ s.tp = mkTP h) ∧ PosSegs ss

theorem detOK_aux (bL bR : V3 K) (first : Bool) (sL : Seg K) (rest : List (Seg K))
    (hL : K) (hhL : 0 < hL) (htp : sL.tp = mkTP hL) (hrest : PosSegs rest)
    (p : BFact (M3 K) (V3 K)) (S : M3 K) (hpd : p.dinv = M3.inv S) (hpu : p.u = blockU sL.tp) (hI : Inv S hL) :
    DetOK (some p) (rowsAux bR first bL sL rest) := by
  induction rest generalizing first sL hL p S with
  | nil => simp [rowsAux, DetOK]
  | cons sR rest ih =>
    obtain ⟨⟨hR, hhR, htpR⟩, hrest'⟩ := hrest
    simp only [rowsAux, DetOK]
    rw [hpd, hpu, htp, htpR]
    have hI' := inv_step S hL hR hhL hI
    exact ⟨det_ne_of_inv _ hR hhR hI', ih false sR hR hhR htpR hrest' _ _ rfl (by rw [htpR]) hI'⟩

theorem posSegs_mkSegs (hs Ps : List K) (hpos : ∀ h ∈ hs, 0 < h) : PosSegs (mkSegs hs Ps) := by
  induction hs generalizing Ps with
  | nil => cases Ps <;> simp [mkSegs, PosSegs]
  | cons h hs ih =>
    match Ps with
    | [] => simp [mkSegs, PosSegs]
    | [_] => simp [mkSegs, PosSegs]
    | p0 :: p1 :: Ps =>
      simp only [mkSegs, PosSegs]
      exact ⟨⟨h, hpos h (by simp), rfl⟩, ih (p1 :: Ps) (fun x hx => hpos x (by simp [hx]))⟩

/-- **pivot non-singularity, every N**: for positive durations no pivot determinant of the block elimination vanishes -/
theorem detOK_of_pos (hs Ps : List K) (bL bR : V3 K) (hpos : ∀ h ∈ hs, 0 < h) :
    DetOK none (rows bL bR (mkSegs hs Ps)) := by
  have hp := posSegs_mkSegs hs Ps hpos
  match hsegs : mkSegs hs Ps, hp with
  | [], _ => simp [rows, DetOK]
  | [s0], _ => simp [rows, rowsAux, DetOK]
  | s0 :: s1 :: rest, hp =>
    obtain ⟨⟨h0, hh0, htp0⟩, ⟨h1, hh1, htp1⟩, hrest⟩ := hp
    simp only [rows, rowsAux, DetOK]
    rw [htp0, htp1]
    have hI := inv_first h0 h1 hh0
    exact ⟨det_ne_of_inv _ h1 hh1 hI,
      detOK_aux bL bR false s1 rest h1 hh1 htp1 hrest _ _ rfl (by rw [htp1]) hI⟩

end SepticPiv
