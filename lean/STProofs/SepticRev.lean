import STProofs.SepticSym
/-!
# C14 (septic): time reversal — every N, via uniqueness

Reversing the order of waypoints and durations, negating the odd boundary derivatives (velocity, jerk) and swapping start and
end yields the time-reversed trajectory: piece `i` of the new spline is `τ ↦ c_{N-1-i}(h − τ)`; the energy is unchanged.
-/
open ST ST.Septic SepticAdj SepticK

namespace SepticRev
variable {K : Type} [Field K] [LinearOrder K] [IsStrictOrderedRing K]

/-- coefficients of `τ ↦ c(h − τ)` -/
def revC (h : K) (c : C8 K) : C8 K :=
  ⟨s_ev c h, -(s_ev1 c h), s_ev2 c h / 2, -(s_ev3 c h / 6), s_ev4 c h / 24, -(s_ev5 c h / 120), s_ev6 c h / 720, -c.c7⟩

def flip (k : V3 K) : V3 K := ⟨-k.x, k.y, -k.z⟩

theorem closeSeg_rev (h p0 p1 : K) (k0 k1 : V3 K) (hh : h ≠ 0) :
    closeSeg (⟨mkTP h, p1, p0 - p1⟩ : Seg K) (flip k1) (flip k0)
      = revC h (closeSeg (⟨mkTP h, p0, p1 - p0⟩ : Seg K) k0 k1) := by
  simp only [closeSeg, mkTP, revC, flip, s_ev, s_ev1, s_ev2, s_ev3, s_ev4, s_ev5, s_ev6, lit_eq]
  push_cast
  apply SepticSym.C8_ext <;> (simp only []; field_simp; try ring)

theorem energySeg_rev (h : K) (c : C8 K) : energySeg h (revC h c) = energySeg h c := by
  simp only [energySeg, revC, s_ev, s_ev1, s_ev2, s_ev3, s_ev4, s_ev5, s_ev6, lit_eq]; ring

/-! ## snoc forms -/

theorem mkSegs_snoc (A B : List K) (h b q : K) (hl : B.length = A.length) :
    mkSegs (A ++ [h]) (B ++ [b, q]) = mkSegs A (B ++ [b]) ++ [⟨mkTP h, b, q - b⟩] := by
  induction A generalizing B with
  | nil => match B, hl with
    | [], _ => simp [mkSegs]
  | cons a A ih =>
    match B, hl with
    | p :: B', hl =>
      cases B' with
      | nil =>
        have : A = [] := List.eq_nil_of_length_eq_zero (by simpa using hl.symm)
        subst this
        simp [mkSegs]
      | cons p' B'' =>
        have := ih (p' :: B'') (by simpa using hl)
        simp only [List.cons_append, mkSegs] at this ⊢
        rw [this]

theorem mkSegs_length' (A B : List K) (hl : B.length = A.length + 1) : (mkSegs A B).length = A.length := by
  induction A generalizing B with
  | nil => cases B <;> simp [mkSegs]
  | cons a A ih => match B, hl with
    | p0 :: p1 :: B', hl => simp [mkSegs, ih (p1 :: B') (by simpa using hl)]

theorem closure_snoc (S : List (Seg K)) (s : Seg K) (Kn : List (V3 K)) (kl k : V3 K) (hl : Kn.length = S.length) :
    closure (S ++ [s]) (Kn ++ [kl, k]) = closure S (Kn ++ [kl]) ++ [closeSeg s kl k] := by
  induction S generalizing Kn with
  | nil => match Kn, hl with
    | [], _ => simp [closure]
  | cons a S ih =>
    match Kn, hl with
    | k0 :: Kn', hl =>
      cases Kn' with
      | nil =>
        have : S = [] := List.eq_nil_of_length_eq_zero (by simpa using hl.symm)
        subst this
        simp [closure]
      | cons k1 Kn'' =>
        have := ih (k1 :: Kn'') (by simpa using hl)
        simp only [List.cons_append, closure] at this ⊢
        rw [this]

theorem closure_length' (segs : List (Seg K)) (ks : List (V3 K)) (hk : ks.length = segs.length + 1) :
    (closure segs ks).length = segs.length := by
  induction segs generalizing ks with
  | nil => match ks, hk with
    | [_], _ => simp [closure]
  | cons s rest ih => match ks, hk with
    | k0 :: k1 :: ks', hk => simp [closure, ih (k1 :: ks') (by simpa using hk)]

/-- closures of the reversed data are the reversed, reversed-in-time closures -/
theorem closure_reverse (hs Ps : List K) (ks : List (V3 K)) (hne : ∀ h ∈ hs, h ≠ 0)
    (hP : Ps.length = hs.length + 1) (hk : ks.length = hs.length + 1) :
    closure (mkSegs hs.reverse Ps.reverse) ((ks.map flip).reverse)
      = (List.zipWith revC hs (closure (mkSegs hs Ps) ks)).reverse := by
  induction hs generalizing Ps ks with
  | nil =>
    match Ps, ks, hP, hk with
    | [_], [_], _, _ => simp [mkSegs, closure]
  | cons h hs ih =>
    match Ps, ks, hP, hk with
    | p0 :: p1 :: Ps', k0 :: k1 :: ks', hP, hk =>
      have ih' := ih (p1 :: Ps') (k1 :: ks') (fun x hx => hne x (by simp [hx])) (by simpa using hP) (by simpa using hk)
      have hh : h ≠ 0 := hne h (by simp)
      have hP' : Ps'.length = hs.length := by simpa using hP
      have hk' : ks'.length = hs.length := by simpa using hk
      simp only [List.reverse_cons, List.map_cons, mkSegs, closure, List.zipWith_cons_cons, List.append_assoc,
        List.cons_append, List.nil_append] at ih' ⊢
      rw [mkSegs_snoc hs.reverse Ps'.reverse h p1 p0 (by simp [hP']),
        closure_snoc _ _ ((ks'.map flip).reverse) (flip k1) (flip k0) (by
          rw [mkSegs_length' _ _ (by simp [hP'])]; simp [hk']),
        ih', closeSeg_rev h p0 p1 k0 k1 hh]

/-! ## the optimality conditions are preserved -/

theorem jumpFree_snoc (hs : List K) (cs : List (C8 K)) (h : K) (c c' : C8 K) (hl : cs.length = hs.length)
    (hj : JumpFree456 (hs ++ [h]) (cs ++ [c]))  (j3 : s_ev4 c h = s_ev4 c' 0) (j4 : s_ev5 c h = s_ev5 c' 0)
    (j5 : s_ev6 c h = s_ev6 c' 0) (h' : K) :
    JumpFree456 (hs ++ [h, h']) (cs ++ [c, c']) := by
  induction hs generalizing cs with
  | nil => match cs, hl with
    | [], _ => exact ⟨j3, j4, j5, trivial⟩
  | cons a hs ih =>
    match cs, hl with
    | d :: cs', hl =>
      cases hs with
      | nil =>
        match cs', hl with
        | [], _ =>
          obtain ⟨a3, a4, a5, _⟩ := hj
          exact ⟨a3, a4, a5, j3, j4, j5, trivial⟩
      | cons b hs' =>
        match cs', hl with
        | d' :: cs'', hl =>
          obtain ⟨a3, a4, a5, hrest⟩ := hj
          exact ⟨a3, a4, a5, ih (d' :: cs'') (by simpa using hl) hrest⟩

theorem jumpFree_reverse (hs : List K) (cs : List (C8 K)) (hl : cs.length = hs.length) (hj : JumpFree456 hs cs) :
    JumpFree456 hs.reverse (List.zipWith revC hs cs).reverse := by
  induction hs generalizing cs with
  | nil => simp [JumpFree456]
  | cons h hs ih =>
    match cs, hl with
    | c :: cs', hl =>
      cases hs with
      | nil => match cs', hl with
        | [], _ => simp [JumpFree456]
      | cons h' hs' =>
        match cs', hl with
        | c' :: cs'', hl =>
          obtain ⟨j3, j4, j5, hrest⟩ := hj
          have ih' := ih (c' :: cs'') (by simpa using hl) hrest
          simp only [List.reverse_cons, List.zipWith_cons_cons, List.append_assoc, List.cons_append, List.nil_append] at ih' ⊢
          apply jumpFree_snoc hs'.reverse (List.zipWith revC hs' cs'').reverse h' (revC h' c') (revC h c)
            (by simp at hl ⊢; omega) ih'
          · simp only [revC, s_ev4, s_ev5, s_ev6] at j3 j4 j5 ⊢
            linear_combination (-1 : K) * j3
          · simp only [revC, s_ev4, s_ev5, s_ev6] at j3 j4 j5 ⊢
            linear_combination j4
          · simp only [revC, s_ev4, s_ev5, s_ev6] at j3 j4 j5 ⊢
            linear_combination (-1 : K) * j5

/-- **C14: time reversal** -/
theorem build_reverse (hs Ps : List K) (bL bR : V3 K) (hpos : ∀ h ∈ hs, 0 < h) (hne0 : hs ≠ [])
    (hP : Ps.length = hs.length + 1) :
    build hs.reverse Ps.reverse (flip bR) (flip bL) = (List.zipWith revC hs (build hs Ps bL bR)).reverse := by
  have hne : ∀ h ∈ hs, h ≠ 0 := fun h hh => (hpos h hh).ne'
  have hjf := SepticPiv.septic_KKT hs Ps bL bR hpos hP
  obtain ⟨inner, hinner⟩ : ∃ v, v = bthomas (rows bL bR (mkSegs hs Ps)) := ⟨_, rfl⟩
  have hb : build hs Ps bL bR = closure (mkSegs hs Ps) (bL :: inner ++ [bR]) := by rw [hinner]; rfl
  have hlen : inner.length + 1 = hs.length := by
    have hpiv := SepticPiv.pivOK2_of_pos hs Ps bL bR hpos
    have hsol := bthomas_correct M3.inv M3.transpose _ (bpivOK_of_2 M3.inv none _ hpiv)
    have := bsolves_length _ _ _ hsol
    rw [← blkOps_M3] at this
    have h1 : 1 ≤ hs.length := by cases hs with
      | nil => exact absurd rfl hne0
      | cons _ _ => simp
    rw [hinner, this, SepticAdj.rows_length, mkSegs_length' hs Ps hP]; omega
  have hcl := closure_reverse hs Ps (bL :: inner ++ [bR]) hne hP (by simp; omega)
  have hcsl : (build hs Ps bL bR).length = hs.length := by
    rw [hb, closure_length' _ _ (by rw [mkSegs_length' hs Ps hP]; simp; omega), mkSegs_length' hs Ps hP]
  have hj' := jumpFree_reverse hs _ hcsl hjf
  rw [hb, ← hcl] at hj'
  have hks : ((bL :: inner ++ [bR]).map flip).reverse = flip bR :: (inner.map flip).reverse ++ [flip bL] := by
    simp
  rw [hks] at hj' hcl
  have := SepticPiv.septic_unique hs.reverse Ps.reverse (flip bR) (flip bL) (inner.map flip).reverse
    (by intro h hh; exact hpos h (List.mem_reverse.mp hh)) (by simpa using hne0) (by simp [hP]) (by simpa using hlen) hj'
  rw [← this, hcl, hb]

end SepticRev
