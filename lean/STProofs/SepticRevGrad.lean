import STProofs.SepticRev
/-!
# C14 (septic): the analytic energy gradients of the time-reversed spline are the mirrored gradients

With the reversed data (`SepticRev.build_reverse`): the duration gradients and the inner-point gradients are the original
ones in reverse order; the boundary gradients swap start and end, the velocity and jerk (odd) components changing sign.
-/
open ST ST.Septic SepticAdj SepticK

namespace SepticRev
variable {K : Type} [Field K] [LinearOrder K] [IsStrictOrderedRing K]

/-- the duration gradient is a first integral of the optimal piece: same value from either end -/
theorem gradTime_rev (h : K) (c : C8 K) : gradTime (revC h c) = gradTime c := by
  simp only [gradTime, revC, s_ev, s_ev1, s_ev2, s_ev3, s_ev4, s_ev5, s_ev6, lit_eq]
  push_cast
  ring

theorem gradTimes_reverse (hs : List K) (cs : List (C8 K)) (hl : cs.length = hs.length) :
    ((List.zipWith revC hs cs).reverse).map gradTime = (cs.map gradTime).reverse := by
  rw [List.map_reverse]
  congr 1
  induction hs generalizing cs with
  | nil =>
    have : cs = [] := List.eq_nil_of_length_eq_zero (by simpa using hl)
    subst this; simp
  | cons h hs ih =>
    match cs, hl with
    | c :: cs, hl => simp only [List.zipWith_cons_cons, List.map_cons, gradTime_rev, ih cs (by simpa using hl)]

theorem gradInner_snoc (l : List (C8 K)) (a b : C8 K) :
    gradInner (l ++ [a, b]) = gradInner (l ++ [a]) ++ [lit 10080 * (b.c7 - a.c7)] := by
  induction l with
  | nil => simp [gradInner]
  | cons x l ih =>
    cases l with
    | nil => simp [gradInner]
    | cons y l' =>
      simp only [List.cons_append, gradInner] at ih ⊢
      rw [ih]

theorem gradInner_reverse (hs : List K) (cs : List (C8 K)) (hl : cs.length = hs.length) :
    gradInner ((List.zipWith revC hs cs).reverse) = (gradInner cs).reverse := by
  induction hs generalizing cs with
  | nil =>
    have : cs = [] := List.eq_nil_of_length_eq_zero (by simpa using hl)
    subst this; simp [gradInner]
  | cons h hs ih =>
    match cs, hl with
    | c :: cs, hl =>
      cases hs with
      | nil => match cs, hl with
        | [], _ => simp [gradInner]
      | cons h' hs' =>
        match cs, hl with
        | c' :: cs', hl =>
          have ih' := ih (c' :: cs') (by simpa using hl)
          simp only [List.zipWith_cons_cons, List.reverse_cons, List.append_assoc, List.cons_append, List.nil_append,
            gradInner] at ih' ⊢
          rw [gradInner_snoc, ih']
          simp only [revC, lit_eq]
          congr 2
          ring


theorem zipWith_getLast (hs : List K) (cs : List (C8 K)) (hl : cs.length = hs.length) (hne : hs ≠ []) :
    ∃ hL cL, hs.getLast? = some hL ∧ cs.getLast? = some cL ∧ (List.zipWith revC hs cs).getLast? = some (revC hL cL) := by
  induction hs generalizing cs with
  | nil => exact absurd rfl hne
  | cons h hs ih =>
    match cs, hl with
    | c :: cs, hl =>
      cases hs with
      | nil => match cs, hl with
        | [], _ => exact ⟨h, c, rfl, rfl, rfl⟩
      | cons h' hs' =>
        match cs, hl with
        | c' :: cs', hl =>
          obtain ⟨hL, cL, e1, e2, e3⟩ := ih (c' :: cs') (by simpa using hl) (by simp)
          refine ⟨hL, cL, ?_, ?_, ?_⟩
          · rw [List.getLast?_cons_cons]; exact e1
          · rw [List.getLast?_cons_cons]; exact e2
          · simp only [List.zipWith_cons_cons] at e3 ⊢
            rw [List.getLast?_cons_cons]; exact e3

/-- boundary gradient with the odd (velocity) component negated -/
def flipB (g : BGrad K) : BGrad K := ⟨g.p, -g.v, g.a, -g.j⟩

theorem gradBoundary_reverse (hs : List K) (cs : List (C8 K)) (hl : cs.length = hs.length) (hne : hs ≠ []) :
    gradBoundary hs.reverse ((List.zipWith revC hs cs).reverse)
      = (flipB (gradBoundary hs cs).2, flipB (gradBoundary hs cs).1) := by
  obtain ⟨hL, cL, e1, e2, e3⟩ := zipWith_getLast hs cs hl hne
  match hs, cs, hl, hne with
  | h0 :: hs', c0 :: cs', hl, _ =>
    simp only [gradBoundary, List.head?_reverse, List.getLast?_reverse, e1, e2, e3]
    simp only [List.zipWith_cons_cons, List.head?_cons]
    simp only [flipB, revC, s_ev, s_ev1, s_ev2, s_ev3, s_ev4, s_ev5, s_ev6, lit_eq, Prod.mk.injEq, BGrad.mk.injEq]
    push_cast
    refine ⟨⟨?_, ?_, ?_, ?_⟩, ⟨?_, ?_, ?_, ?_⟩⟩ <;> ring

/-- **C14 (septic): mirrored gradients** — analytic energy gradients of the time-reversed spline -/
theorem energyGrads_reverse (hs Ps : List K) (bL bR : V3 K) (hpos : ∀ h ∈ hs, 0 < h) (hne0 : hs ≠ [])
    (hP : Ps.length = hs.length + 1) :
    let cs := build hs Ps bL bR
    let cs' := build hs.reverse Ps.reverse (flip bR) (flip bL)
    cs'.map gradTime = (cs.map gradTime).reverse ∧ gradInner cs' = (gradInner cs).reverse ∧
    gradBoundary hs.reverse cs' = (flipB (gradBoundary hs cs).2, flipB (gradBoundary hs cs).1) ∧
    energy hs.reverse cs' = energy hs cs := by
  intro cs cs'
  have hrev : cs' = (List.zipWith revC hs cs).reverse := build_reverse hs Ps bL bR hpos hne0 hP
  have hcl : cs.length = hs.length := by
    have hne : ∀ h ∈ hs, h ≠ 0 := fun h hh => (hpos h hh).ne'
    have hpiv := SepticPiv.pivOK2_of_pos hs Ps bL bR hpos
    have hsol := bthomas_correct M3.inv M3.transpose _ (bpivOK_of_2 M3.inv none _ hpiv)
    have := bsolves_length _ _ _ hsol
    rw [← blkOps_M3] at this
    have h1 : 1 ≤ hs.length := by cases hs with
      | nil => exact absurd rfl hne0
      | cons _ _ => simp
    show (closure (mkSegs hs Ps) (bL :: bthomas (rows bL bR (mkSegs hs Ps)) ++ [bR])).length = _
    rw [closure_length' _ _ (by
      rw [mkSegs_length' hs Ps hP]; simp only [List.length_cons, List.length_append, List.length_nil]
      rw [this, SepticAdj.rows_length, mkSegs_length' hs Ps hP]; omega), mkSegs_length' hs Ps hP]
  refine ⟨?_, ?_, ?_, ?_⟩
  · rw [hrev]; exact gradTimes_reverse hs cs hcl
  · rw [hrev]; exact gradInner_reverse hs cs hcl
  · rw [hrev]; exact gradBoundary_reverse hs cs hcl hne0
  · rw [hrev]
    have : ∀ (hs : List K) (cs : List (C8 K)), cs.length = hs.length →
        energy hs.reverse (List.zipWith revC hs cs).reverse = energy hs cs := by
      intro hs
      induction hs with
      | nil => intro cs _; simp [energy]
      | cons h hs ih =>
        intro cs hl
        match cs, hl with
        | c :: cs, hl =>
          have hsn : ∀ (A : List K) (B : List (C8 K)) (a : K) (b : C8 K), B.length = A.length →
              energy (A ++ [a]) (B ++ [b]) = energy A B + energySeg a b := by
            intro A
            induction A with
            | nil => intro B a b hB; match B, hB with
              | [], _ => simp [energy, lit_eq]
            | cons x A ihA => intro B a b hB; match B, hB with
              | y :: B, hB => simp only [List.cons_append, energy, ihA B a b (by simpa using hB)]; ring
          simp only [List.reverse_cons, List.zipWith_cons_cons]
          rw [hsn _ _ _ _ (by simp at hl ⊢; omega), ih cs (by simpa using hl), energySeg_rev, energy]
          ring
    exact this hs cs hcl

end SepticRev
