import STModel
import Mathlib.Tactic.Linarith
/-!
# No query ever reads a cache slot that the latest update did not write (C10)

Access summaries of the three spline classes and of the optimizer workspace, written down from the code: for an
update with `N` segments, which indices of every cache / workspace array are (re)written, and which indices each query
reads afterwards.  The arrays survive from earlier updates (they are only `resize`d), so a slot that is read but not
rewritten would leak history.  `no_stale_read`: for every order, every `N ≥ 1`, every array and every index, *read
⇒ written by this update* — including the early-return paths (`num_blocks ≤ 0` leaves the block caches untouched,
and then nothing reads them) and the `max(0, num_blocks−1)` cache.

The model follows a slot array through an arbitrary history of updates by tagging each slot with the generation that
last wrote it.
-/

inductive Ord3 where
  | cubic | quintic | septic
deriving DecidableEq, Repr

/-- the arrays that outlive an update -/
inductive Cache where
  | timePowers | pointDiffs | cumulative | coeffs | knotDerivs      -- all orders (knotDerivs: M resp. vel/acc/jerk)
  | cPrime | invDenoms                                              -- cubic LU cache
  | dInv | uBlk | lBlk | dltCache | rhsMod | solution               -- quintic / septic block caches
  | wsLambda | wsGd                                                 -- adjoint workspaces (written by the query itself)
deriving DecidableEq, Repr

def coeffNum : Ord3 → Nat
  | .cubic => 4 | .quintic => 6 | .septic => 8
def blockSize : Ord3 → Nat
  | .cubic => 1 | .quintic => 2 | .septic => 3

/-- number of interior block rows of the quintic/septic solve: `num_blocks = n_points − 2` -/
def numBlocks (n : Nat) : Nat := n - 1

/-- indices of array `c` that `update` with `n ≥ 1` segments writes (order `o`) -/
def written (o : Ord3) (n : Nat) (c : Cache) (i : Nat) : Prop :=
  match c with
  | .timePowers => i < n
  | .pointDiffs => i < n
  | .cumulative => i < n + 1
  | .coeffs => i < n * coeffNum o
  | .knotDerivs => i < n + 1
  | .cPrime => o = .cubic ∧ i < n
  | .invDenoms => o = .cubic ∧ i < n + 1
  | .dInv | .uBlk | .lBlk => o ≠ .cubic ∧ i < numBlocks n           -- the loop `for i < num_blocks` (not entered when 0)
  | .dltCache => o ≠ .cubic ∧ i + 1 < numBlocks n                    -- written at `i-1` for `i > 0`
  | .rhsMod | .solution => o ≠ .cubic ∧ i < numBlocks n * blockSize o
  | .wsLambda | .wsGd => False                                       -- query workspaces: see `queryWrites`

/-- indices the read-only queries and `propagateGrad` read after an update with `n` segments -/
def readBy (o : Ord3) (n : Nat) (c : Cache) (i : Nat) : Prop :=
  match c with
  | .timePowers => i < n
  | .pointDiffs => i < n
  | .cumulative => i < n + 1
  | .coeffs => i < n * coeffNum o
  | .knotDerivs => i < n + 1
  | .cPrime => o = .cubic ∧ i + 1 < n + 1                            -- back substitution `i = n-2 … 0` of n+1 rows
  | .invDenoms => o = .cubic ∧ i < n + 1                             -- bounded by `cached_inv_denoms_.size()`
  | .dInv => o ≠ .cubic ∧ 0 < numBlocks n ∧ i < numBlocks n          -- guarded by `num_blocks > 0`
  | .uBlk => o ≠ .cubic ∧ 0 < numBlocks n ∧ i < numBlocks n
  | .lBlk => o ≠ .cubic ∧ 0 < numBlocks n ∧ i = 0
  | .dltCache => o ≠ .cubic ∧ 0 < numBlocks n ∧ i + 2 ≤ numBlocks n
  | .rhsMod | .solution => False                                     -- only used inside the update itself
  | .wsLambda | .wsGd => False

/-- **no stale read**: every slot any query reads was written by the latest update -/
theorem no_stale_read (o : Ord3) (n : Nat) (hn : 1 ≤ n) (c : Cache) (i : Nat) (h : readBy o n c i) : written o n c i := by
  cases c <;> simp only [readBy, written] at h ⊢
  all_goals first
    | exact h
    | (obtain ⟨h1, h2⟩ := h; exact ⟨h1, by omega⟩)
    | (obtain ⟨h1, h2, h3⟩ := h; exact ⟨h1, by omega⟩)
    | exact h.elim

/-- the adjoint workspaces are sized and fully (re)initialised by the query itself before it reads them:
`ws_lambda_.resize(…); setZero()/assignment of every row`, `ws_gd_internal_.resize(n_pts, …); setZero()` -/
def queryWrites (o : Ord3) (n : Nat) (c : Cache) (i : Nat) : Prop :=
  match c with
  | .wsLambda => if o = .cubic then i < n + 1 else i < numBlocks n * blockSize o
  | .wsGd => o ≠ .cubic ∧ i < n + 1
  | _ => False
def queryReads (o : Ord3) (n : Nat) (c : Cache) (i : Nat) : Prop :=
  match c with
  | .wsLambda => if o = .cubic then i < n + 1 else (0 < numBlocks n ∧ i < numBlocks n * blockSize o)
  | .wsGd => o ≠ .cubic ∧ i < n + 1
  | _ => False

theorem queries_self_contained (o : Ord3) (n : Nat) (c : Cache) (i : Nat) (h : queryReads o n c i) : queryWrites o n c i := by
  cases c <;> simp only [queryReads, queryWrites] at h ⊢
  all_goals first
    | exact h
    | (split at h <;> simp_all)

/-! ### following one array through a history of updates: generations -/

/-- a slot array where each slot remembers the generation (update number) that last wrote it; `resize` keeps old
slots, as `std::vector::resize` / Eigen `resize`-then-write does for the slots that are rewritten anyway -/
abbrev Gens := Nat → Option Nat      -- index ↦ generation of last write (`none`: never written)

def applyUpdate (g : Gens) (gen : Nat) (w : Nat → Prop) [DecidablePred w] : Gens :=
  fun i => if w i then some gen else g i

/-- run a history of updates (segment counts) on one array of one spline object -/
def runUpdates (o : Ord3) (c : Cache) [∀ n, DecidablePred (written o n c)] : Gens → Nat → List Nat → Gens × Nat
  | g, gen, [] => (g, gen)
  | g, gen, n :: ns => runUpdates o c (applyUpdate g (gen + 1) (written o n c)) (gen + 1) ns

instance (o : Ord3) (n : Nat) (c : Cache) : DecidablePred (written o n c) := by
  intro i; cases c <;> simp only [written] <;> infer_instance

/-- **after any history of updates of any sizes (growing, shrinking, through N = 1 and N = 2), every slot that a query
reads carries the generation of the latest update** -/
theorem reads_latest (o : Ord3) (c : Cache) (g : Gens) (gen : Nat) (ns : List Nat) (n : Nat) (hn : 1 ≤ n) (i : Nat)
    (hr : readBy o n c i) :
    (runUpdates o c g gen (ns ++ [n])).1 i = some (runUpdates o c g gen (ns ++ [n])).2 := by
  induction ns generalizing g gen with
  | nil =>
    simp only [List.nil_append, runUpdates, applyUpdate]
    rw [if_pos (no_stale_read o n hn c i hr)]
  | cons m ms ih =>
    simp only [List.cons_append, runUpdates]
    exact ih _ _

/-- the optimizer workspace: `Workspace::resize(n)` re-sizes only on a size change, and `evaluate` overwrites or zeroes
every array it later reads, for the current `n`, on every call -/
inductive WsArray where
  | cacheTimes | cacheWaypoints | cacheGdT | cacheGdC | userGdT | explicitTime | discreteGradQ | segStart | segCosts
deriving DecidableEq, Repr

def wsWritten (nc : Nat) (n : Nat) : WsArray → Nat → Prop
  | .cacheTimes, i => i < n            -- loop `for i < num_segments_`
  | .cacheWaypoints, i => i < n + 1    -- assignment `= ref_waypoints_`
  | .cacheGdT, i => i < n              -- setZero
  | .cacheGdC, i => i < n * nc         -- setZero
  | .userGdT, i => i < n               -- setZero
  | .explicitTime, i => i < n          -- setZero
  | .discreteGradQ, i => i < n + 1     -- setZero (when a waypoint cost is present; not read otherwise)
  | .segStart, i => i < n              -- loop
  | .segCosts, i => i < n              -- std::fill

def wsRead (nc : Nat) (n : Nat) : WsArray → Nat → Prop
  | .cacheTimes, i => i < n
  | .cacheWaypoints, i => i < n + 1
  | .cacheGdT, i => i < n
  | .cacheGdC, i => i < n * nc
  | .userGdT, i => i < n
  | .explicitTime, i => i < n
  | .discreteGradQ, i => i < n + 1
  | .segStart, i => i < n
  | .segCosts, i => i < n

theorem ws_no_stale_read (nc n : Nat) (a : WsArray) (i : Nat) (h : wsRead nc n a i) : wsWritten nc n a i := by
  cases a <;> exact h

example : readBy .septic 3 .dltCache 0 := by simp [readBy, numBlocks]
example : ¬ readBy .quintic 1 .dInv 0 := by simp [readBy, numBlocks]
