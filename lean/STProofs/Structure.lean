import STProofs.Alg
import STProofs.Thomas
/-!
# Structural theorems: coordinates are independent (C13); time shift and translation (C14)
-/
open ST

section c13
variable {K : Type} [Field K]

/-- the 1-D problem of coordinate `j` -/
def bcCol (bc : BC K) (j : Nat) : BC K :=
  ⟨[getC bc.v0 j], [getC bc.a0 j], [getC bc.j0 j], [getC bc.vn j], [getC bc.an j], [getC bc.jn j]⟩

/-- **a D-dimensional spline is the stack of the D one-dimensional splines**: everything the model computes for
coordinate `j` is what the 1-D model computes from coordinate `j` of the waypoints and boundary states alone -/
theorem colOf_eq_1D (o : Order) (h : List K) (P : List (Vec K)) (bc : BC K) (j : Nat) :
    colOf o h P bc j = colOf o h (P.map (fun r => [getC r j])) (bcCol bc j) 0 := by
  have hm : (P.map (fun r => [getC r j])).map (fun r => getC r 0) = P.map (fun r => getC r j) := by
    rw [List.map_map]; apply List.map_congr_left; intro r _; simp [getC]
  cases o <;> simp only [colOf, hm] <;> simp [bcCol, getC]

/-- hence no output of coordinate `j` can depend on another coordinate's data -/
theorem colOf_congr (o : Order) (h : List K) (P P' : List (Vec K)) (bc bc' : BC K) (j : Nat)
    (hP : P.map (fun r => getC r j) = P'.map (fun r => getC r j))
    (hbc : bcCol bc j = bcCol bc' j) : colOf o h P bc j = colOf o h P' bc' j := by
  rw [colOf_eq_1D o h P, colOf_eq_1D o h P', hbc]
  congr 1
  have := congrArg (List.map (fun x : K => [x])) hP
  rw [List.map_map, List.map_map] at this
  exact this

/-- the energy and the duration gradients are sums over the coordinates -/
theorem energy_is_sum (o : Order) (d : Nat) (h : List K) (P : List (Vec K)) (t0 : K) (bc : BC K) :
    (buildND o d h P t0 bc).energy = sum ((List.range d).map (fun j => (colOf o h P bc j).energy)) ∧
    (buildND o d h P t0 bc).energyGrad.times = sumLists h.length ((List.range d).map (fun j => (colOf o h P bc j).gradTimes)) ∧
    (buildND o d h P t0 bc).partialT = sumLists h.length ((List.range d).map (fun j => (colOf o h P bc j).partialT)) := by
  simp only [buildND, List.map_map]
  exact ⟨rfl, rfl, rfl⟩

/-- coefficient `(segment i, power k)` of the D-dimensional spline, coordinate `j`, is that of column `j` -/
theorem coeff_of_column (o : Order) (d : Nat) (h : List K) (P : List (Vec K)) (t0 : K) (bc : BC K) (i k j : Nat)
    (hi : i < h.length) (hk : k < o.coeffNum) (hj : j < d) :
    (((buildND o d h P t0 bc).coeffs.getD i []).getD k []).getD j 0 = (((colOf o h P bc j).coeffs.getD i []).getD k 0) := by
  simp only [buildND, stack, List.getD_eq_getElem?_getD, List.getElem?_map, List.getElem?_range hi, List.getElem?_range hk,
    List.getElem?_range hj, Option.map_some, Option.getD_some, List.map_map, Function.comp, lit_eq, Nat.cast_zero]

/-- permuting the coordinates of the inputs permutes the outputs the same way -/
def permuteVec (d : Nat) (σ : Nat → Nat) (r : Vec K) : Vec K := (List.range d).map (fun j => getC r (σ j))
def permuteBC (d : Nat) (σ : Nat → Nat) (bc : BC K) : BC K :=
  ⟨permuteVec d σ bc.v0, permuteVec d σ bc.a0, permuteVec d σ bc.j0, permuteVec d σ bc.vn, permuteVec d σ bc.an, permuteVec d σ bc.jn⟩

theorem getC_permuteVec (d : Nat) (σ : Nat → Nat) (r : Vec K) (j : Nat) (hj : j < d) : getC (permuteVec d σ r) j = getC r (σ j) := by
  simp [getC, permuteVec, List.getD_eq_getElem?_getD, List.getElem?_map, List.getElem?_range hj]

theorem colOf_permute (o : Order) (d : Nat) (σ : Nat → Nat) (h : List K) (P : List (Vec K)) (bc : BC K) (j : Nat) (hj : j < d) :
    colOf o h (P.map (permuteVec d σ)) (permuteBC d σ bc) j = colOf o h P bc (σ j) := by
  rw [colOf_eq_1D o h (P.map (permuteVec d σ)), colOf_eq_1D o h P bc (σ j)]
  congr 1
  · rw [List.map_map]; apply List.map_congr_left; intro r _
    simp only [Function.comp, getC_permuteVec d σ r j hj]
  · simp only [bcCol, permuteBC, getC_permuteVec d σ _ j hj]

end c13

section c14
variable {K : Type} [Field K]

/-- shifting the start time shifts every knot time … -/
theorem cumulative_shift (t0 s : K) (h : List K) : cumulative (t0 + s) h = (cumulative t0 h).map (· + s) := by
  induction h generalizing t0 with
  | nil => simp [cumulative]
  | cons a h ih =>
    simp only [cumulative, List.map_cons]
    rw [show t0 + s + a = (t0 + a) + s by ring, ih]

/-- … and leaves the per-segment polynomials, the energy and every gradient unchanged -/
theorem shift_invariant (o : Order) (d : Nat) (h : List K) (P : List (Vec K)) (t0 t0' : K) (bc : BC K) :
    (buildND o d h P t0 bc).coeffs = (buildND o d h P t0' bc).coeffs ∧
    (buildND o d h P t0 bc).energy = (buildND o d h P t0' bc).energy ∧
    (buildND o d h P t0 bc).energyGrad.times = (buildND o d h P t0' bc).energyGrad.times ∧
    (buildND o d h P t0 bc).energyGrad.inner = (buildND o d h P t0' bc).energyGrad.inner ∧
    (buildND o d h P t0 bc).partialC = (buildND o d h P t0' bc).partialC := ⟨rfl, rfl, rfl, rfl, rfl⟩

namespace CubicTr
open ST.Cubic
def trSeg (v : K) (s : Seg K) : Seg K := ⟨s.h, s.p0 + v, s.dp, s.pd⟩

theorem mkSegs_translate (v : K) (h P : List K) : mkSegs h (P.map (· + v)) = (mkSegs h P).map (trSeg v) := by
  induction h generalizing P with
  | nil => cases P <;> simp [mkSegs]
  | cons a h ih =>
    match P with
    | [] => simp [mkSegs]
    | [_] => simp [mkSegs]
    | p0 :: p1 :: P =>
      have := ih (p1 :: P)
      simp only [List.map_cons] at this
      simp only [List.map_cons, mkSegs, this, trSeg]
      congr 2 <;> ring

theorem interiorRows_translate (v vn : K) (prev : Seg K) (rest : List (Seg K)) :
    interiorRows vn (trSeg v prev) (rest.map (trSeg v)) = interiorRows vn prev rest := by
  induction rest generalizing prev with
  | nil => simp [interiorRows, trSeg]
  | cons s rest ih => simp [interiorRows, trSeg, ih s]; exact ih s

theorem rows_translate (v v0 vn : K) (segs : List (Seg K)) : rows v0 vn (segs.map (trSeg v)) = rows v0 vn segs := by
  cases segs with
  | nil => rfl
  | cons s rest =>
    simp only [List.map_cons, rows]
    rw [interiorRows_translate]
    simp [trSeg]

theorem closure_translate (v : K) (segs : List (Seg K)) (ms : List K) :
    closure (segs.map (trSeg v)) ms = (closure segs ms).map (fun c => ⟨c.c0 + v, c.c1, c.c2, c.c3⟩) := by
  induction segs generalizing ms with
  | nil => simp [closure]
  | cons s rest ih =>
    match ms with
    | [] => simp [closure]
    | [_] => simp [closure]
    | m0 :: m1 :: ms => simp [closure, ih (m1 :: ms), trSeg]

/-- **translating all waypoints translates the trajectory** (constant coefficient shifts, all others — hence every
derivative, the energy and its gradients — are unchanged), cubic, every N -/
theorem build_translate (v v0 vn : K) (h P : List K) :
    build h (P.map (· + v)) v0 vn = (build h P v0 vn).map (fun c => ⟨c.c0 + v, c.c1, c.c2, c.c3⟩) := by
  simp only [build, knotM, mkSegs_translate, rows_translate, closure_translate]

theorem energy_translate (v v0 vn : K) (h P : List K) :
    energy h (build h (P.map (· + v)) v0 vn) = energy h (build h P v0 vn) := by
  rw [build_translate]
  generalize build h P v0 vn = cs
  induction h generalizing cs with
  | nil => cases cs <;> simp [energy]
  | cons T Ts ih =>
    cases cs with
    | nil => simp [energy]
    | cons c cs => simp only [List.map_cons, energy, ih cs, energySeg]
end CubicTr

end c14
