import STProofs.Structure
/-!
# C13 — `propagateGrad` in D dimensions is the stack of the 1-D propagations

Coordinate `j` of every point / boundary gradient returned by `propagateND` is the corresponding output of the 1-D
propagation of column `j` (`propCol`), which reads only coordinate `j` of the waypoints, boundary states and upstream
gradient; the duration gradient is the upstream one plus the sum over coordinates.
-/
open ST

section
variable {K : Type} [Field K]

theorem propagateND_times (o : Order) (d : Nat) (h : List K) (P : List (Vec K)) (bc : BC K)
    (gC : List (List (Vec K))) (gT : List K) :
    (propagateND o d h P bc gC gT).times
      = zipAdd gT (sumLists h.length ((List.range d).map (fun j => (propCol o h P bc gC j).2.1))) := by
  simp only [propagateND, List.map_map]; rfl

theorem propagateND_inner (o : Order) (d : Nat) (h : List K) (P : List (Vec K)) (bc : BC K)
    (gC : List (List (Vec K))) (gT : List K) (i j : Nat) (hi : i + 1 < h.length) (hj : j < d) :
    getC ((propagateND o d h P bc gC gT).inner.getD i []) j = (propCol o h P bc gC j).1.getD (i + 1) 0 := by
  have hi' : i < h.length - 1 := by omega
  simp only [propagateND, getC, List.getD_eq_getElem?_getD, List.getElem?_map, List.getElem?_range hi',
    List.getElem?_range hj, Option.map_some, Option.getD_some, lit_eq, Nat.cast_zero]

theorem propagateND_boundary (o : Order) (d : Nat) (h : List K) (P : List (Vec K)) (bc : BC K)
    (gC : List (List (Vec K))) (gT : List K) (j : Nat) (hj : j < d) :
    getC (propagateND o d h P bc gC gT).start.p j = (propCol o h P bc gC j).1.getD 0 0 ∧
    getC (propagateND o d h P bc gC gT).fin.p j = (propCol o h P bc gC j).1.getD h.length 0 ∧
    getC (propagateND o d h P bc gC gT).start.v j = (propCol o h P bc gC j).2.2.1.getD 0 0 ∧
    getC (propagateND o d h P bc gC gT).start.a j = (propCol o h P bc gC j).2.2.1.getD 1 0 ∧
    getC (propagateND o d h P bc gC gT).start.j j = (propCol o h P bc gC j).2.2.1.getD 2 0 ∧
    getC (propagateND o d h P bc gC gT).fin.v j = (propCol o h P bc gC j).2.2.2.getD 0 0 ∧
    getC (propagateND o d h P bc gC gT).fin.a j = (propCol o h P bc gC j).2.2.2.getD 1 0 ∧
    getC (propagateND o d h P bc gC gT).fin.j j = (propCol o h P bc gC j).2.2.2.getD 2 0 := by
  simp only [propagateND, getC, List.getD_eq_getElem?_getD, List.getElem?_map, List.getElem?_range hj,
    Option.map_some, Option.getD_some, lit_eq, Nat.cast_zero, and_self]

/-- column `j` of the propagation depends only on column `j` of the data -/
theorem propCol_eq_1D (o : Order) (h : List K) (P : List (Vec K)) (bc : BC K) (gC : List (List (Vec K))) (j : Nat) :
    propCol o h P bc gC j
      = propCol o h (P.map (fun r => [getC r j])) (bcCol bc j)
          (gC.map (fun blk => blk.map (fun r => [getC r j]))) 0 := by
  have hm : (P.map (fun r => [getC r j])).map (fun r => getC r 0) = P.map (fun r => getC r j) := by
    rw [List.map_map]; apply List.map_congr_left; intro r _; simp [getC]
  have hg : ∀ i k, getC (((gC.map (fun blk => blk.map (fun r => [getC r j]))).getD i []).getD k []) 0
      = getC ((gC.getD i []).getD k []) j := by
    intro i k
    simp only [getC, List.getD_eq_getElem?_getD, List.getElem?_map]
    cases h1 : gC[i]? with
    | none => simp
    | some blk =>
      simp only [Option.map_some, Option.getD_some, List.getElem?_map]
      cases h2 : blk[k]? with
      | none => simp
      | some r => simp
  cases o <;> simp only [propCol, hm, hg] <;> simp [bcCol, getC]

end
