import STProofs.Alg
/-!
# The scalar tridiagonal elimination solves its system — every size, every `DivRing`

`Solves xp rows xs`: row-wise, `a·x_{i-1} + b·x_i + c·x_{i+1} = d` (with `xp` the value left of the first
unknown and 0 right of the last).  `PivOK`: every denominator the sweep divides by is a unit.
Because the statement holds over any `DivRing` it holds over the dual numbers, which gives the
differentiated system (`solves_project`) without differentiating through the recursion.
-/
open ST

section generic
variable {R : Type} [DivRing R]

def Solves : R → List (Row R) → List R → Prop
  | _, [], [] => True
  | xp, r :: rs, x :: xs => r.a * xp + r.b * x + r.c * (xs.headD 0) = r.d ∧ Solves x rs xs
  | _, _, _ => False

def PivOK : Option (R × R) → List (Row R) → Prop
  | _, [] => True
  | none, r :: rs => DivRing.U r.b ∧ PivOK (some (r.c * (1 / r.b), r.d * (1 / r.b))) rs
  | some (cp0, dp0), r :: rs =>
      DivRing.U (r.b - r.a * cp0) ∧
        PivOK (some (r.c * (1 / (r.b - r.a*cp0)), (r.d - r.a*dp0) * (1 / (r.b - r.a*cp0)))) rs

theorem back_cons (cp dp : R) (rest : List (R × R)) :
    back ((cp, dp) :: rest) = (dp - cp * (back rest).headD 0) :: back rest := by
  simp only [back]
  cases h : back rest with
  | nil => simp
  | cons x xs => simp

theorem thomas_some (cp0 dp0 : R) (rows : List (Row R)) (hp : PivOK (some (cp0, dp0)) rows) :
    let xs := back (fwd (some (cp0, dp0)) rows)
    Solves (dp0 - cp0 * xs.headD 0) rows xs := by
  induction rows generalizing cp0 dp0 with
  | nil => simp [fwd, back, Solves]
  | cons r rs ih =>
    obtain ⟨hden, hrest⟩ := hp
    have := ih _ _ hrest
    simp only [fwd, back_cons, List.headD_cons, lit_eq, Nat.cast_one] at this ⊢
    refine ⟨?_, this⟩
    set den := r.b - r.a * cp0 with hd
    set y := (back (fwd (some (r.c * (1 / den), (r.d - r.a * dp0) * (1 / den))) rs)).headD 0
    have h1 := DivRing.div_mul (1:R) den hden
    linear_combination (r.d - r.a * dp0 - r.c * y) * h1

/-- **Thomas elimination is correct** for every number of rows, over every `DivRing`. -/
theorem thomas_correct (rows : List (Row R)) (hp : PivOK none rows) (xp : R)
    (h0 : ∀ r rs, rows = r :: rs → r.a = 0) :
    Solves xp rows (thomas rows) := by
  cases rows with
  | nil => simp [thomas, fwd, back, Solves]
  | cons r rs =>
    obtain ⟨hb, hrest⟩ := hp
    have ha := h0 r rs rfl
    have := thomas_some _ _ rs hrest
    simp only [thomas, fwd, back_cons, lit_eq, Nat.cast_one] at this ⊢
    refine ⟨?_, this⟩
    simp only [ha, List.headD_cons]
    set y := (back (fwd (some (r.c * (1 / r.b), r.d * (1 / r.b))) rs)).headD 0
    have h1 := DivRing.div_mul (1:R) r.b hb
    linear_combination (r.d - r.c * y) * h1

theorem solves_length (xp : R) (rows : List (Row R)) (xs : List R) (h : Solves xp rows xs) :
    xs.length = rows.length := by
  induction rows generalizing xp xs with
  | nil => cases xs <;> simp_all [Solves]
  | cons r rs ih =>
    cases xs with
    | nil => simp [Solves] at h
    | cons x xs => simp [ih x xs h.2]

/-- the solve depends on the right-hand sides only through `withRhs` (same matrix) -/
theorem withRhs_length (rows : List (Row R)) (b : List R) (h : b.length = rows.length) :
    (withRhs rows b).length = rows.length := by
  induction rows generalizing b with
  | nil => cases b <;> simp [withRhs]
  | cons r rs ih =>
    cases b with
    | nil => simp at h
    | cons x xs => simp [withRhs, ih xs (by simpa using h)]

end generic

/-! ### systems with the right-hand side given separately; symmetric pairing -/
section field
variable {K : Type} [Field K]

def SolvesR : K → List (Row K) → List K → List K → Prop
  | _, [], [], [] => True
  | xp, r :: rs, x :: xs, b :: bs => r.a * xp + r.b * x + r.c * (xs.headD 0) = b ∧ SolvesR x rs xs bs
  | _, _, _, _ => False

theorem solvesR_length (xp : K) (rows : List (Row K)) (xs b : List K) (h : SolvesR xp rows xs b) :
    xs.length = rows.length := by
  induction rows generalizing xp xs b with
  | nil =>
    match xs, b, h with
    | [], [], _ => rfl
  | cons r rs ih =>
    match xs, b, h with
    | x :: xs, b0 :: bs, h => simp [ih x xs bs h.2]

theorem solvesR_of_withRhs (xp : K) (rows : List (Row K)) (b xs : List K) (hb : b.length = rows.length)
    (h : Solves xp (withRhs rows b) xs) : SolvesR xp rows xs b := by
  induction rows generalizing xp b xs with
  | nil =>
    cases b with
    | nil => cases xs <;> simp_all [withRhs, Solves, SolvesR]
    | cons _ _ => simp at hb
  | cons r rs ih =>
    cases b with
    | nil => simp at hb
    | cons b0 bs =>
      cases xs with
      | nil => simp [withRhs, Solves] at h
      | cons x xs =>
        simp only [withRhs, Solves] at h
        exact ⟨h.1, ih x bs xs (by simpa using hb) h.2⟩

/-- pivots do not depend on the right-hand side -/
theorem pivOK_withRhs (st : Option (K × K)) (st' : Option (K × K)) (rows : List (Row K)) (b : List K)
    (hb : b.length = rows.length)
    (hst : ∀ c d, st = some (c, d) → ∃ d', st' = some (c, d')) (hn : st = none → st' = none)
    (h : PivOK st rows) : PivOK st' (withRhs rows b) := by
  induction rows generalizing st st' b with
  | nil => cases b <;> simp [withRhs, PivOK]
  | cons r rs ih =>
    cases b with
    | nil => simp at hb
    | cons b0 bs =>
      have hlen : bs.length = rs.length := by simpa using hb
      cases st with
      | none =>
        rw [hn rfl]
        simp only [withRhs, PivOK] at h ⊢
        refine ⟨h.1, ih _ _ bs hlen ?_ ?_ h.2⟩
        · intro c d hcd; simp only [Option.some.injEq, Prod.mk.injEq] at hcd; exact ⟨_, by rw [hcd.1]⟩
        · intro hh; simp at hh
      | some p =>
        obtain ⟨c0, d0⟩ := p
        obtain ⟨d', hd'⟩ := hst c0 d0 rfl
        rw [hd']
        simp only [withRhs, PivOK] at h ⊢
        refine ⟨h.1, ih _ _ bs hlen ?_ ?_ h.2⟩
        · intro c d hcd; simp only [Option.some.injEq, Prod.mk.injEq] at hcd; exact ⟨_, by rw [hcd.1]⟩
        · intro hh; simp at hh

def SymAux : K → List (Row K) → Prop
  | _, [] => True
  | cprev, r :: rs => r.a = cprev ∧ SymAux r.c rs

@[simp] theorem dot_cons (x y : K) (xs ys : List K) : dot (x :: xs) (y :: ys) = x * y + dot xs ys := rfl
@[simp] theorem dot_nil_l (ys : List K) : dot ([] : List K) ys = 0 := by cases ys <;> simp [dot]
@[simp] theorem dot_nil_r (xs : List K) : dot xs ([] : List K) = 0 := by cases xs <;> simp [dot]

/-- `Σ u·(A w) = Σ (A u)·w` for a symmetric tridiagonal matrix, with the boundary terms explicit -/
theorem sym_pair (cprev up wp : K) (rows : List (Row K)) (u w ru rw : List K)
    (hs : SymAux cprev rows) (hu : SolvesR up rows u ru) (hw : SolvesR wp rows w rw) :
    dot u rw - dot ru w = cprev * (u.headD 0 * wp - w.headD 0 * up) := by
  induction rows generalizing cprev up wp u w ru rw with
  | nil =>
    match u, w, ru, rw, hu, hw with
    | [], [], [], [], _, _ => simp
  | cons r rs ih =>
    match u, w, ru, rw, hu, hw with
    | u0 :: us, w0 :: ws, a :: rus, b :: rws, hu, hw =>
      obtain ⟨ha, hs'⟩ := hs
      obtain ⟨hu0, hu'⟩ := hu
      obtain ⟨hw0, hw'⟩ := hw
      have := ih r.c u0 w0 us ws rus rws hs' hu' hw'
      simp only [dot_cons, List.headD_cons]
      rw [← hu0, ← hw0, ← ha]
      linear_combination this

/-! ### projecting a dual solution: real part solves the real system, dual part the differentiated one -/

def reRow (r : Row (Dual K)) : Row K := ⟨r.a.re, r.b.re, r.c.re, r.d.re⟩

theorem headD_map_re (l : List (Dual K)) : (l.map Dual.re).headD 0 = (l.headD 0).re := by
  cases l <;> simp
theorem headD_map_du (l : List (Dual K)) : (l.map Dual.du).headD 0 = (l.headD 0).du := by
  cases l <;> simp

/-- right-hand side of the differentiated system `A·dx = d' − A'·x` -/
def rhoList : K → List (Row (Dual K)) → List K → List K
  | xp, r :: rs, x :: xs =>
      (r.d.du - (r.a.du * xp + r.b.du * x + r.c.du * xs.headD 0)) :: rhoList x rs xs
  | _, _, _ => []

theorem solves_re (xp : Dual K) (rows : List (Row (Dual K))) (xs : List (Dual K))
    (h : Solves xp rows xs) : Solves xp.re (rows.map reRow) (xs.map Dual.re) := by
  induction rows generalizing xp xs with
  | nil => cases xs <;> simp_all [Solves]
  | cons r rs ih =>
    cases xs with
    | nil => simp [Solves] at h
    | cons x xs =>
      obtain ⟨hrow, hrest⟩ := h
      have e1 := congrArg Dual.re hrow
      simp only [Dual.add_re, Dual.mul_re] at e1
      refine ⟨?_, ih x xs hrest⟩
      simp only [reRow, headD_map_re]; exact e1

theorem solves_projectR (xp : Dual K) (rows : List (Row (Dual K))) (xs : List (Dual K))
    (h : Solves xp rows xs) :
    SolvesR xp.du (rows.map reRow) (xs.map Dual.du) (rhoList xp.re rows (xs.map Dual.re)) := by
  induction rows generalizing xp xs with
  | nil => cases xs <;> simp_all [Solves, SolvesR, rhoList]
  | cons r rs ih =>
    cases xs with
    | nil => simp [Solves] at h
    | cons x xs =>
      obtain ⟨hrow, hrest⟩ := h
      have i2 := ih x xs hrest
      have e2 := congrArg Dual.du hrow
      simp only [Dual.add_du, Dual.mul_du] at e2
      refine ⟨?_, i2⟩
      simp only [reRow, headD_map_re, headD_map_du]
      linear_combination e2

end field
