import STProofs.Structure
/-!
# C01 — durations-plus-start and absolute time points describe the same spline

`convertTimePointsToSegments` (`diffs`) inverts the cumulative knot times exactly (over a field), so constructing from
the time points `t₀, t₀+T₀, t₀+T₀+T₁, …` is constructing from `(T, t₀)`; conversely the knot times published for
`(T, t₀)` are those time points.
-/
open ST

section
variable {K : Type} [Field K]

theorem diffs_cumulative (t0 : K) (hs : List K) : diffs (cumulative t0 hs) = hs := by
  induction hs generalizing t0 with
  | nil => simp [cumulative, diffs]
  | cons h hs ih =>
    have := ih (t0 + h)
    cases hs with
    | nil => simp [cumulative, diffs]
    | cons h' hs' =>
      simp only [cumulative, diffs] at this ⊢
      rw [this]; simp

theorem cumulative_head (t0 : K) (hs : List K) : (cumulative t0 hs).headD (lit 0) = t0 := by
  cases hs <;> simp [cumulative]

/-- **the two time specifications give the same spline** (every order, dimension, N) -/
theorem buildNDtp_cumulative (o : Order) (d : Nat) (t0 : K) (hs : List K) (P : List (Vec K)) (bc : BC K) :
    buildNDtp o d (cumulative t0 hs) P bc = buildND o d hs P t0 bc := by
  simp only [buildNDtp, diffs_cumulative, cumulative_head]

theorem cumulative_length (t0 : K) (hs : List K) : (cumulative t0 hs).length = hs.length + 1 := by
  induction hs generalizing t0 with
  | nil => simp [cumulative]
  | cons h hs ih => simp [cumulative, ih]

/-- the last knot time is the start time plus the total duration -/
theorem cumulative_last (t0 : K) (hs : List K) : (cumulative t0 hs).getLast? = some (t0 + hs.sum) := by
  induction hs generalizing t0 with
  | nil => simp [cumulative]
  | cons h hs ih =>
    have := ih (t0 + h)
    simp only [cumulative, List.sum_cons]
    cases hc : cumulative (t0 + h) hs with
    | nil => have hl := cumulative_length (t0 + h) hs; rw [hc] at hl; simp at hl
    | cons a l =>
      rw [hc] at this
      rw [List.getLast?_cons_cons, this, add_assoc]

end
