import STProofs.Alg
import Mathlib.Analysis.Calculus.Deriv.Inv
import Mathlib.Analysis.Calculus.Deriv.Mul
import Mathlib.Analysis.Calculus.Deriv.Add
import Mathlib.Analysis.Calculus.Deriv.Pow
import Mathlib.Analysis.SpecialFunctions.Sqrt
import Mathlib.Algebra.Order.Floor.Ring
import Mathlib.Tactic.Linarith
import Mathlib.Tactic.Positivity
import Mathlib.Tactic.FieldSimp
import Mathlib.Tactic.Ring
import Mathlib.Analysis.Calculus.Deriv.MeanValue
import Mathlib.Tactic.FunProp
/-!
# `QuadInvTimeMap` over ℝ

The model's `QuadInv.toTime / toTau / backward`, instantiated at ℝ (with `Real.sqrt`), form a strictly
increasing C¹ bijection ℝ → (0, ∞) whose derivative is exactly the factor `backward` multiplies by.
-/
open ST Set

/-- comparisons and floor of the theorems' scalar types -/
@[reducible] noncomputable instance (priority := high) ordNum {K : Type} [Field K] [LinearOrder K] [FloorRing K] :
    NumOrd K :=
  { toNum := drNum, lt := fun a b => decide (a < b), le := fun a b => decide (a ≤ b), floor := Int.floor }

noncomputable def toTime (τ : ℝ) : ℝ := QuadInv.toTime τ
noncomputable def toTau (T : ℝ) : ℝ := QuadInv.toTau Real.sqrt T
noncomputable def backward (τ T g : ℝ) : ℝ := QuadInv.backward τ T g
/-- the derivative claimed by `backward` -/
noncomputable def dToTime (τ : ℝ) : ℝ :=
  if τ > 0 then τ + 1 else (1 - τ) / (((1/2 * τ - 1) * τ + 1) * ((1/2 * τ - 1) * τ + 1))

theorem toTime_eq (τ : ℝ) : toTime τ = if τ > 0 then (1/2 * τ + 1) * τ + 1 else 1 / ((1/2 * τ - 1) * τ + 1) := by
  simp only [toTime, QuadInv.toTime, NumOrd.lt, litq, lit_eq, gt_iff_lt]
  push_cast
  simp only [decide_eq_true_eq]

theorem toTau_eq (T : ℝ) : toTau T = if T > 1 then Real.sqrt (2 * T - 1) - 1 else 1 - Real.sqrt (2 / T - 1) := by
  simp only [toTau, QuadInv.toTau, NumOrd.lt, lit_eq, gt_iff_lt]
  push_cast
  simp only [decide_eq_true_eq]

theorem backward_eq (τ T g : ℝ) : backward τ T g = g * dToTime τ := by
  simp only [backward, QuadInv.backward, NumOrd.lt, litq, lit_eq, dToTime, gt_iff_lt]
  push_cast
  simp only [decide_eq_true_eq]
  split_ifs <;> ring

theorem den_pos (τ : ℝ) (h : τ ≤ 0) : 0 < (1/2 * τ - 1) * τ + 1 := by nlinarith [sq_nonneg τ]

/-- every optimisation variable is sent to a strictly positive duration -/
theorem toTime_pos (τ : ℝ) : 0 < toTime τ := by
  rw [toTime_eq]; split_ifs with h
  · nlinarith
  · exact one_div_pos.mpr (den_pos τ (not_lt.mp h))

/-- the inverse recovers the variable from the duration -/
theorem toTau_toTime (τ : ℝ) : toTau (toTime τ) = τ := by
  rw [toTime_eq]; split_ifs with h
  · have h1 : (1/2 * τ + 1) * τ + 1 > 1 := by nlinarith
    rw [toTau_eq, if_pos h1]
    have : 2 * ((1/2 * τ + 1) * τ + 1) - 1 = (τ + 1) ^ 2 := by ring
    rw [this, Real.sqrt_sq (by linarith)]; ring
  · have hτ : τ ≤ 0 := not_lt.mp h
    have hd := den_pos τ hτ
    have h1 : ¬ (1 / ((1/2 * τ - 1) * τ + 1) > 1) := by
      rw [not_lt, div_le_one hd]; nlinarith [sq_nonneg τ]
    rw [toTau_eq, if_neg h1]
    have : 2 / (1 / ((1/2 * τ - 1) * τ + 1)) - 1 = (1 - τ) ^ 2 := by field_simp; ring
    rw [this, Real.sqrt_sq (by linarith)]; ring

/-- … and vice versa, for every positive duration -/
theorem toTime_toTau (T : ℝ) (hT : 0 < T) : toTime (toTau T) = T := by
  rw [toTau_eq]; split_ifs with h
  · have hs : 0 < Real.sqrt (2 * T - 1) - 1 := by
      have : 1 < Real.sqrt (2 * T - 1) := Real.lt_sqrt_of_sq_lt (by linarith)
      linarith
    rw [toTime_eq, if_pos hs]
    have hsq : Real.sqrt (2 * T - 1) ^ 2 = 2 * T - 1 := Real.sq_sqrt (by linarith)
    nlinarith [hsq]
  · have hT1 : T ≤ 1 := not_lt.mp h
    have hq : 0 ≤ 2 / T - 1 := by
      have : 1 ≤ 2 / T := by rw [le_div_iff₀ hT]; linarith
      linarith
    have hs : ¬ (1 - Real.sqrt (2 / T - 1) > 0) := by
      have h2 : 2 ≤ 2 / T := by rw [le_div_iff₀ hT]; linarith
      have : 1 ≤ Real.sqrt (2 / T - 1) := Real.le_sqrt_of_sq_le (by linarith)
      linarith
    rw [toTime_eq, if_neg hs]
    have hsq : Real.sqrt (2 / T - 1) ^ 2 = 2 / T - 1 := Real.sq_sqrt hq
    have hden : (1/2 * (1 - Real.sqrt (2 / T - 1)) - 1) * (1 - Real.sqrt (2 / T - 1)) + 1 = 1 / T := by
      have : (1/2 * (1 - Real.sqrt (2 / T - 1)) - 1) * (1 - Real.sqrt (2 / T - 1)) + 1
           = 1/2 * Real.sqrt (2 / T - 1) ^ 2 + 1/2 := by ring
      rw [this, hsq]; field_simp; ring
    rw [hden]; field_simp

theorem hasDerivAt_posBranch (τ : ℝ) : HasDerivAt (fun τ : ℝ => (1/2 * τ + 1) * τ + 1) (τ + 1) τ := by
  have h1 : HasDerivAt (fun x : ℝ => x ^ 2) (2 * τ) τ := by simpa using hasDerivAt_pow 2 τ
  have h := ((h1.const_mul (1/2:ℝ)).add (hasDerivAt_id τ)).add_const (1:ℝ)
  have e : (fun τ : ℝ => (1/2 * τ + 1) * τ + 1) = fun x => 1/2 * x ^ 2 + id x + 1 := by
    funext x; simp only [id]; ring
  rw [e]
  refine h.congr_deriv ?_
  ring

theorem hasDerivAt_den (τ : ℝ) : HasDerivAt (fun τ : ℝ => (1/2 * τ - 1) * τ + 1) (τ - 1) τ := by
  have h1 : HasDerivAt (fun x : ℝ => x ^ 2) (2 * τ) τ := by simpa using hasDerivAt_pow 2 τ
  have h := ((h1.const_mul (1/2:ℝ)).sub (hasDerivAt_id τ)).add_const (1:ℝ)
  have e : (fun τ : ℝ => (1/2 * τ - 1) * τ + 1) = fun x => 1/2 * x ^ 2 - id x + 1 := by
    funext x; simp only [id]; ring
  rw [e]
  refine h.congr_deriv ?_
  ring

theorem hasDerivAt_negBranch (τ : ℝ) (hτ : τ ≤ 0) :
    HasDerivAt (fun τ : ℝ => 1 / ((1/2 * τ - 1) * τ + 1))
      ((1 - τ) / (((1/2 * τ - 1) * τ + 1) * ((1/2 * τ - 1) * τ + 1))) τ := by
  have hd := den_pos τ hτ
  have h := (hasDerivAt_den τ).inv (ne_of_gt hd)
  have e : (fun τ : ℝ => 1 / ((1/2 * τ - 1) * τ + 1)) = fun y => ((1/2 * y - 1) * y + 1)⁻¹ := by
    funext x; rw [one_div]
  rw [e]
  refine h.congr_deriv ?_
  field_simp
  ring

/-- **C¹ across the switch point**: the two-sided derivative exists at every τ and equals the branch formula,
which is the factor `backward` multiplies by -/
theorem toTime_hasDerivAt (τ : ℝ) : HasDerivAt toTime (dToTime τ) τ := by
  have hfun : toTime = fun τ : ℝ => if τ > 0 then (1/2 * τ + 1) * τ + 1 else 1 / ((1/2 * τ - 1) * τ + 1) := by
    funext x; exact toTime_eq x
  rw [hfun]
  rcases lt_trichotomy τ 0 with h | h | h
  · have : dToTime τ = (1 - τ) / (((1/2 * τ - 1) * τ + 1) * ((1/2 * τ - 1) * τ + 1)) := by
      unfold dToTime; rw [if_neg (by linarith)]
    rw [this]
    refine (hasDerivAt_negBranch τ h.le).congr_of_eventuallyEq ?_
    filter_upwards [Iio_mem_nhds h] with x hx
    rw [if_neg (by simpa using le_of_lt hx)]
  · subst h
    have hd : dToTime 0 = 1 := by unfold dToTime; norm_num
    rw [hd]
    have hL : HasDerivWithinAt (fun τ : ℝ => if τ > 0 then (1/2 * τ + 1) * τ + 1 else 1 / ((1/2 * τ - 1) * τ + 1)) 1 (Iic 0) 0 := by
      have h0 := hasDerivAt_negBranch 0 le_rfl
      have e : (1 - 0) / (((1/2 * 0 - 1) * 0 + 1) * ((1/2 * 0 - 1) * 0 + 1)) = (1:ℝ) := by norm_num
      rw [e] at h0
      refine (h0.hasDerivWithinAt (s := Iic 0)).congr (fun x hx => ?_) ?_
      · rw [if_neg (by simpa using hx)]
      · norm_num
    have hR : HasDerivWithinAt (fun τ : ℝ => if τ > 0 then (1/2 * τ + 1) * τ + 1 else 1 / ((1/2 * τ - 1) * τ + 1)) 1 (Ici 0) 0 := by
      have h0 := hasDerivAt_posBranch 0
      rw [zero_add] at h0
      refine (h0.hasDerivWithinAt (s := Ici 0)).congr (fun x hx => ?_) ?_
      · rcases eq_or_lt_of_le (show (0:ℝ) ≤ x from hx) with h0 | h0
        · subst h0; norm_num
        · rw [if_pos h0]
      · norm_num
    have := hL.union hR
    rwa [Iic_union_Ici, hasDerivWithinAt_univ] at this
  · have : dToTime τ = τ + 1 := by unfold dToTime; rw [if_pos h]
    rw [this]
    refine (hasDerivAt_posBranch τ).congr_of_eventuallyEq ?_
    filter_upwards [Ioi_mem_nhds h] with x hx
    rw [if_pos (show x > 0 from hx)]

theorem dToTime_pos (τ : ℝ) : 0 < dToTime τ := by
  unfold dToTime; split_ifs with h
  · linarith
  · have hτ : τ ≤ 0 := not_lt.mp h
    have hd := den_pos τ hτ
    apply div_pos (by linarith) (mul_pos hd hd)

theorem den_pos' (τ : ℝ) : 0 < (1/2 * τ - 1) * τ + 1 := by nlinarith [sq_nonneg (τ - 1)]

/-- the derivative is continuous (so the map is C¹, also across the switch point) -/
theorem dToTime_continuous : Continuous dToTime := by
  have e : dToTime = fun τ : ℝ => if τ ≤ 0 then (1 - τ) / (((1/2 * τ - 1) * τ + 1) * ((1/2 * τ - 1) * τ + 1)) else τ + 1 := by
    funext τ; unfold dToTime
    by_cases h : τ > 0
    · rw [if_pos h, if_neg (not_le.mpr h)]
    · rw [if_neg h, if_pos (not_lt.mp h)]
  rw [e]
  apply Continuous.if_le
  · apply Continuous.div (by fun_prop) (by fun_prop)
    intro x; exact ne_of_gt (mul_pos (den_pos' x) (den_pos' x))
  · fun_prop
  · exact continuous_id
  · exact continuous_const
  · intro x hx; subst hx; norm_num

/-- strictly increasing: positive derivative everywhere -/
theorem toTime_strictMono : StrictMono toTime := by
  apply strictMono_of_deriv_pos
  intro x
  rw [(toTime_hasDerivAt x).deriv]
  exact dToTime_pos x

/-- `backward` multiplies the incoming gradient by exactly the derivative of the map -/
theorem backward_is_chain_rule (τ T g : ℝ) : backward τ T g = g * deriv toTime τ := by
  rw [backward_eq, (toTime_hasDerivAt τ).deriv]

/-- the identity map passes values and gradients through unchanged -/
theorem identity_map (x g : ℝ) :
    (identityTimeMap (α := ℝ)).toTime x = x ∧ (identityTimeMap (α := ℝ)).toTau x = x ∧
    (identityTimeMap (α := ℝ)).backward x x g = g := ⟨rfl, rfl, rfl⟩
