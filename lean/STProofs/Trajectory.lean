import STProofs.PPolyDeriv
import STProofs.Structure
import STProofs.NDEnergy
import STProofs.TimeForms
/-!
# C01 / C03 end to end: the trajectory object a spline publishes evaluates to the spline's own pieces

`SplineND.ppoly` (what `getTrajectory()` hands out: `initializePPoly` on the cumulative times and the stacked coefficient
blocks) evaluated at any time `t` is, coordinate by coordinate, the polynomial of the segment that contains `t` (the
prescribed index `specIdx`), evaluated at `t − t_i`.  With the per-piece interpolation theorems of C01 this gives: the
trajectory passes through waypoint `i` at knot time `i`.
-/
open ST
open scoped BigOperators

namespace Traj
variable {K : Type} [Field K] [LinearOrder K] [IsStrictOrderedRing K] [FloorRing K]

/-- scalar Horner scheme, lowest coefficient first -/
def hornerS (t : K) : List K → K
  | [] => 0
  | [c] => c
  | c :: rest => hornerS t rest * t + c

theorem vmulAdd_range (d : Nat) (f g : Nat → K) (t : K) :
    vmulAdd ((List.range d).map f) t ((List.range d).map g) = (List.range d).map (fun j => f j * t + g j) := by
  induction d generalizing f g with
  | zero => simp [vmulAdd]
  | succ d ih =>
    rw [List.range_succ_eq_map]
    simp only [List.map_cons, List.map_map, vmulAdd]
    rw [ih]
    rfl

/-- Horner on stacked rows is Horner per coordinate -/
theorem horner_stack (d nc : Nat) (a : Nat → Nat → K) (t : K) :
    PPoly.horner t ((List.range (nc + 1)).map (fun k => (List.range d).map (fun j => a j k)))
      = (List.range d).map (fun j => hornerS t ((List.range (nc + 1)).map (a j))) := by
  induction nc generalizing a with
  | zero => simp [PPoly.horner, hornerS]
  | succ nc ih =>
    rw [List.range_succ_eq_map]
    simp only [List.map_cons, List.map_map]
    have hstep : ∀ (c : Vec K) (r0 : Vec K) (rest : List (Vec K)),
        PPoly.horner t (c :: r0 :: rest) = vmulAdd (PPoly.horner t (r0 :: rest)) t c := by
      intro c r0 rest; rfl
    have e : (List.range (nc + 1)).map ((fun k => (List.range d).map (fun j => a j k)) ∘ Nat.succ)
        = (List.range (nc + 1)).map (fun k => (List.range d).map (fun j => (fun j k => a j (k + 1)) j k)) := rfl
    rw [e]
    have hne : (List.range (nc + 1)).map (fun k => (List.range d).map (fun j => (fun j k => a j (k + 1)) j k))
        = ((List.range d).map (fun j => a j 1)) :: (List.range nc).map (fun k => (List.range d).map (fun j => a j (k + 2))) := by
      rw [List.range_succ_eq_map]; simp [Function.comp]
    rw [hne, hstep, ← hne, ih (fun j k => a j (k + 1)), vmulAdd_range]
    apply List.map_congr_left
    intro j _
    have hs : ∀ (c r0 : K) (rest : List K), hornerS t (c :: r0 :: rest) = hornerS t (r0 :: rest) * t + c := by
      intro c r0 rest; rfl
    have e2 : (List.range (nc + 1)).map (a j ∘ Nat.succ) = a j 1 :: (List.range nc).map (fun k => a j (k + 2)) := by
      rw [List.range_succ_eq_map]; simp [Function.comp]
    rw [e2, hs, ← e2]
    rfl


theorem cumulative_sorted (t0 : K) (hs : List K) (hpos : ∀ h ∈ hs, 0 < h) : Sorted (cumulative t0 hs) := by
  have hge : ∀ (hs : List K) (t0 : K), (∀ h ∈ hs, 0 < h) → ∀ b ∈ cumulative t0 hs, t0 ≤ b := by
    intro hs
    induction hs with
    | nil => intro t0 _ b hb; simp [cumulative] at hb; rw [hb]
    | cons h hs ih =>
      intro t0 hp b hb
      simp only [cumulative, List.mem_cons] at hb
      rcases hb with rfl | hb
      · exact le_refl _
      · have := ih (t0 + h) (fun x hx => hp x (by simp [hx])) b hb
        have := hp h (by simp)
        linarith
  induction hs generalizing t0 with
  | nil => simp [cumulative, Sorted]
  | cons h hs ih =>
    simp only [cumulative, Sorted, List.pairwise_cons]
    refine ⟨?_, ih (t0 + h) (fun x hx => hpos x (by simp [hx]))⟩
    intro b hb
    have := hge hs (t0 + h) (fun x hx => hpos x (by simp [hx])) b hb
    have := hpos h (by simp)
    linarith

theorem stack_length (n nc : Nat) (cols : List (List (List K))) : (stack n nc cols).length = n := by simp [stack]

/-- the published trajectory object, explicitly -/
def pubPoly (o : Order) (d : Nat) (hs : List K) (P : List (Vec K)) (t0 : K) (bc : BC K) : PPoly K :=
  { dim := d, fixedOrder := some o.coeffNum, breakpoints := cumulative t0 hs,
    coeffs := (buildND o d hs P t0 bc).coeffs, numSegments := hs.length, numCoeffs := o.coeffNum,
    initialized := true, derivCoeffs := [], derivReady := false, factorTable := [], factorReady := false }

theorem ppoly_eq (o : Order) (d : Nat) (hs : List K) (P : List (Vec K)) (t0 : K) (bc : BC K) (hne : hs ≠ []) :
    (buildND o d hs P t0 bc).ppoly = pubPoly o d hs P t0 bc := by
  have h1 : 1 ≤ hs.length := by cases hs with
    | nil => exact absurd rfl hne
    | cons _ _ => simp
  have hcl : (buildND o d hs P t0 bc).coeffs.length = hs.length := by simp [buildND, stack]
  have hblk : ∀ x ∈ (buildND o d hs P t0 bc).coeffs, (id x).length = o.coeffNum := by
    intro x hx
    simp only [buildND, stack, List.mem_map, List.mem_range] at hx
    obtain ⟨i, _, rfl⟩ := hx
    simp
  have hflat : ((buildND o d hs P t0 bc).coeffs.flatMap id).length = hs.length * o.coeffNum := by
    have : ∀ (l : List (List (Vec K))) (m : Nat), (∀ x ∈ l, x.length = m) → (l.flatMap id).length = l.length * m := by
      intro l m
      induction l with
      | nil => simp
      | cons a l ih =>
        intro h
        simp only [List.flatMap_cons, List.length_append, List.length_cons, id, h a (by simp),
          ih (fun x hx => h x (by simp [hx]))]
        ring
    rw [this _ o.coeffNum hblk, hcl]
  have hnc : 1 ≤ o.coeffNum := by cases o <;> simp [Order.coeffNum]
  simp only [SplineND.ppoly]
  have hcum : (buildND o d hs P t0 bc).cum = cumulative t0 hs := rfl
  have hdim : (buildND o d hs P t0 bc).dim = d := rfl
  have hord : (buildND o d hs P t0 bc).order = o := rfl
  rw [hcum, hdim, hord, init_ok d (some o.coeffNum) (cumulative t0 hs) _ o.coeffNum
    (by rw [cumulative_length]; omega) (by rw [hflat, cumulative_length]; simp)
    (by intro o' ho'; cases ho'; exact ⟨hnc, le_refl _⟩)]
  have hg := groupRows_flatMap (buildND o d hs P t0 bc).coeffs id o.coeffNum hblk
  rw [hcl] at hg
  simp only [pubPoly, cumulative_length, Nat.add_sub_cancel, hg, List.map_id]


theorem colOf_coeffs_shape (o : Order) (hs : List K) (P : List (Vec K)) (bc : BC K) (j : Nat) (hne : hs ≠ [])
    (hP : P.length = hs.length + 1) :
    (colOf o hs P bc j).coeffs.length = hs.length ∧ ∀ r ∈ (colOf o hs P bc j).coeffs, r.length = o.coeffNum := by
  have hPj : (P.map (fun r => getC r j)).length = hs.length + 1 := by simp [hP]
  cases o with
  | cubic =>
    simp only [colOf, colCubic, List.length_map, NDEnergy.cubic_build_length hs _ _ _ hne hPj, true_and]
    intro r hr; obtain ⟨c, _, rfl⟩ := List.mem_map.mp hr; rfl
  | quintic =>
    simp only [colOf, colQuintic, List.length_map, NDEnergy.quintic_build_length hs _ _ _ hne hPj, true_and]
    intro r hr; obtain ⟨c, _, rfl⟩ := List.mem_map.mp hr; rfl
  | septic =>
    simp only [colOf, colSeptic, List.length_map, NDEnergy.septic_build_length hs _ _ _ hne hPj, true_and]
    intro r hr; obtain ⟨c, _, rfl⟩ := List.mem_map.mp hr; rfl

theorem range_getD_eq {l : List K} {m : Nat} (h : l.length = m) : (List.range m).map (fun k => l.getD k (lit 0)) = l := by
  apply List.ext_getElem
  · simp [h]
  · intro i h1 h2
    simp only [List.getElem_map, List.getElem_range, List.getD_eq_getElem?_getD, List.getElem?_eq_getElem h2,
      Option.getD_some]

/-- **the published trajectory evaluates to the spline's own pieces**: at any time `t`, coordinate `j` of
`getTrajectory().evaluate(t)` is the polynomial of the segment containing `t` (index `specIdx`), at local time `t − t_i` -/
theorem traj_eval (o : Order) (d : Nat) (hs : List K) (P : List (Vec K)) (t0 : K) (bc : BC K) (hne : hs ≠ [])
    (hpos : ∀ h ∈ hs, 0 < h) (hP : P.length = hs.length + 1) (t : K) :
    specIdx (cumulative t0 hs) t < hs.length ∧
    ((buildND o d hs P t0 bc).ppoly.evaluate t 0).2 = (List.range d).map (fun j =>
      hornerS (t - (cumulative t0 hs).getD (specIdx (cumulative t0 hs) t) 0)
        ((colOf o hs P bc j).coeffs.getD (specIdx (cumulative t0 hs) t) [])) := by
  have h1 : 1 ≤ hs.length := by cases hs with
    | nil => exact absurd rfl hne
    | cons _ _ => simp
  obtain ⟨nc, hnc⟩ : ∃ nc, o.coeffNum = nc + 1 := by cases o <;> simp [Order.coeffNum]
  have hsorted := cumulative_sorted t0 hs hpos
  have hidx : specIdx (cumulative t0 hs) t < hs.length := by
    have := (specIdx_char (cumulative t0 hs) t hsorted hs.length (cumulative_length t0 hs) h1).1
    omega
  refine ⟨hidx, ?_⟩
  rw [ppoly_eq o d hs P t0 bc hne]
  obtain ⟨p, hp⟩ : ∃ p : PPoly K, p = pubPoly o d hs P t0 bc := ⟨_, rfl⟩
  rw [← hp]
  have hci : CacheInv p := by
    constructor
    · intro h; rw [hp] at h; simp [pubPoly] at h
    · intro h; rw [hp] at h; simp [pubPoly] at h
    · intro h; exfalso; rw [hp] at h; simp only [pubPoly] at h; omega
  obtain ⟨he, _, _⟩ := evaluate_spec p hci t 0
  have hpn : p.numCoeffs = o.coeffNum := by rw [hp]; rfl
  have hpb : p.breakpoints = cumulative t0 hs := by rw [hp]; rfl
  have hps : p.numSegments = hs.length := by rw [hp]; rfl
  have hpc : p.coeffs = (buildND o d hs P t0 bc).coeffs := by rw [hp]; rfl
  have hfs := findSegment_spec p t (by rw [hpb]; exact hsorted) (by rw [hpb, hps, cumulative_length]) (by rw [hps]; exact h1)
  rw [he, if_neg (by rw [hpn, hnc]; push_cast; omega), hfs, hpb]
  set i := specIdx (cumulative t0 hs) t with hi
  simp only [lit_eq, Nat.cast_zero]
  -- derivative order 0: the coefficient rows themselves
  unfold evalSegPure
  rw [if_neg (by rw [hpn, hnc]; simp)]
  have hcl : (buildND o d hs P t0 bc).coeffs.length = hs.length := by simp [buildND, stack]
  have hrow0 : ((derivTable p).getD (0 : Int).toNat []).getD i []
      = (List.range o.coeffNum).map (fun k => vscale (lit (factorEntry k 0) : K)
          (((buildND o d hs P t0 bc).coeffs.getD i []).getD k [])) := by
    have h0 : (0 : Nat) < o.coeffNum := by rw [hnc]; omega
    have hi' : i < (buildND o d hs P t0 bc).coeffs.length := by rw [hcl]; exact hidx
    simp only [derivTable, hpn, hpc, Int.toNat_zero, List.getD_eq_getElem?_getD, List.getElem?_map,
      List.getElem?_range h0, Option.map_some, Option.getD_some, Nat.sub_zero, Nat.add_zero,
      List.getElem?_eq_getElem hi']
  rw [hrow0]
  -- the block of segment i, as stacked rows
  have hblk : (buildND o d hs P t0 bc).coeffs.getD i []
      = (List.range o.coeffNum).map (fun k => (List.range d).map (fun j =>
          ((colOf o hs P bc j).coeffs.getD i []).getD k (lit 0))) := by
    rw [List.getD_eq_getElem?_getD, List.getElem?_eq_getElem (by rw [hcl]; exact hidx)]
    simp only [buildND, stack, List.getElem_map, List.getElem_range, List.map_map, Option.getD_some]
    rfl
  rw [hblk]
  have hrows : (List.range o.coeffNum).map (fun k => vscale (lit (factorEntry k 0) : K)
        (((List.range o.coeffNum).map (fun k => (List.range d).map (fun j =>
          ((colOf o hs P bc j).coeffs.getD i []).getD k (lit 0)))).getD k []))
      = (List.range o.coeffNum).map (fun k => (List.range d).map (fun j =>
          ((colOf o hs P bc j).coeffs.getD i []).getD k (lit 0))) := by
    apply List.map_congr_left
    intro k hk
    have hk' := List.mem_range.mp hk
    rw [List.getD_eq_getElem?_getD, List.getElem?_map, List.getElem?_range hk']
    simp only [Option.map_some, Option.getD_some, factorEntry, factorAux, Nat.zero_le, if_true, vscale,
      lit_eq, Nat.cast_one, one_mul, List.map_map]
    apply List.map_congr_left; intro j _; simp
  rw [hrows, hnc, horner_stack]
  apply List.map_congr_left
  intro j _
  congr 1
  obtain ⟨c1, c2⟩ := colOf_coeffs_shape o hs P bc j hne hP
  have hmem : (colOf o hs P bc j).coeffs.getD i [] ∈ (colOf o hs P bc j).coeffs := by
    rw [List.getD_eq_getElem?_getD, List.getElem?_eq_getElem (by rw [c1]; exact hidx)]; simp
  rw [← hnc]
  exact range_getD_eq (c2 _ hmem)


/-- coefficient list of the `k`-th derivative of a polynomial given by its coefficient list (falling-factorial factors, as the
derivative tables of `PPolyND` store them) -/
def dRow (nc k : Nat) (l : List K) : List K :=
  (List.range (nc - k)).map (fun m => (lit (factorEntry (m + k) k) : K) * l.getD (m + k) (lit 0))

/-- **every derivative order**: coordinate `j` of `getTrajectory().evaluate(t, k)` is the `k`-th derivative of the polynomial
of the segment containing `t`, at local time `t − t_i` -/
theorem traj_eval_k (o : Order) (d : Nat) (hs : List K) (P : List (Vec K)) (t0 : K) (bc : BC K) (hne : hs ≠ [])
    (hpos : ∀ h ∈ hs, 0 < h) (hP : P.length = hs.length + 1) (t : K) (k : Nat) (hk : k < o.coeffNum) :
    ((buildND o d hs P t0 bc).ppoly.evaluate t (k : Int)).2 = (List.range d).map (fun j =>
      hornerS (t - (cumulative t0 hs).getD (specIdx (cumulative t0 hs) t) 0)
        (dRow o.coeffNum k ((colOf o hs P bc j).coeffs.getD (specIdx (cumulative t0 hs) t) []))) := by
  have h1 : 1 ≤ hs.length := by cases hs with
    | nil => exact absurd rfl hne
    | cons _ _ => simp
  obtain ⟨nk, hnk⟩ : ∃ nk, o.coeffNum - k = nk + 1 := ⟨o.coeffNum - k - 1, by omega⟩
  have hsorted := cumulative_sorted t0 hs hpos
  have hidx : specIdx (cumulative t0 hs) t < hs.length := by
    have := (specIdx_char (cumulative t0 hs) t hsorted hs.length (cumulative_length t0 hs) h1).1
    omega
  rw [ppoly_eq o d hs P t0 bc hne]
  obtain ⟨p, hp⟩ : ∃ p : PPoly K, p = pubPoly o d hs P t0 bc := ⟨_, rfl⟩
  rw [← hp]
  have hci : CacheInv p := by
    constructor
    · intro h; rw [hp] at h; simp [pubPoly] at h
    · intro h; rw [hp] at h; simp [pubPoly] at h
    · intro h; exfalso; rw [hp] at h; simp only [pubPoly] at h; omega
  obtain ⟨he, _, _⟩ := evaluate_spec p hci t (k : Int)
  have hpn : p.numCoeffs = o.coeffNum := by rw [hp]; rfl
  have hpb : p.breakpoints = cumulative t0 hs := by rw [hp]; rfl
  have hps : p.numSegments = hs.length := by rw [hp]; rfl
  have hpc : p.coeffs = (buildND o d hs P t0 bc).coeffs := by rw [hp]; rfl
  have hfs := findSegment_spec p t (by rw [hpb]; exact hsorted) (by rw [hpb, hps, cumulative_length]) (by rw [hps]; exact h1)
  rw [he, if_neg (by rw [hpn]; push_cast; omega), hfs, hpb]
  set i := specIdx (cumulative t0 hs) t with hi
  simp only [lit_eq, Nat.cast_zero]
  unfold evalSegPure
  rw [if_neg (by rw [hpn]; simp; omega)]
  have hcl : (buildND o d hs P t0 bc).coeffs.length = hs.length := by simp [buildND, stack]
  have hi' : i < (buildND o d hs P t0 bc).coeffs.length := by rw [hcl]; exact hidx
  have hrowk : ((derivTable p).getD (k : Int).toNat []).getD i []
      = (List.range (o.coeffNum - k)).map (fun m => vscale (lit (factorEntry (m + k) k) : K)
          (((buildND o d hs P t0 bc).coeffs.getD i []).getD (m + k) [])) := by
    simp only [derivTable, hpn, hpc, Int.toNat_natCast, List.getD_eq_getElem?_getD, List.getElem?_map,
      List.getElem?_range hk, Option.map_some, Option.getD_some, List.getElem?_eq_getElem hi']
  rw [hrowk]
  have hblk : (buildND o d hs P t0 bc).coeffs.getD i []
      = (List.range o.coeffNum).map (fun q => (List.range d).map (fun j =>
          ((colOf o hs P bc j).coeffs.getD i []).getD q (lit 0))) := by
    rw [List.getD_eq_getElem?_getD, List.getElem?_eq_getElem hi']
    simp only [buildND, stack, List.getElem_map, List.getElem_range, List.map_map, Option.getD_some]
    rfl
  rw [hblk]
  have hrows : (List.range (o.coeffNum - k)).map (fun m => vscale (lit (factorEntry (m + k) k) : K)
        (((List.range o.coeffNum).map (fun q => (List.range d).map (fun j =>
          ((colOf o hs P bc j).coeffs.getD i []).getD q (lit 0)))).getD (m + k) []))
      = (List.range (o.coeffNum - k)).map (fun m => (List.range d).map (fun j =>
          (lit (factorEntry (m + k) k) : K) * ((colOf o hs P bc j).coeffs.getD i []).getD (m + k) (lit 0))) := by
    apply List.map_congr_left
    intro m hm
    have hm' : m + k < o.coeffNum := by have := List.mem_range.mp hm; omega
    rw [List.getD_eq_getElem?_getD, List.getElem?_map, List.getElem?_range hm']
    simp only [Option.map_some, Option.getD_some, vscale, List.map_map]
    rfl
  rw [hrows, hnk, horner_stack]
  apply List.map_congr_left
  intro j _
  rw [dRow, hnk]

/-! ## knots -/

theorem cum_getD_succ (t0 : K) (hs : List K) (i : Nat) (hi : i < hs.length) :
    (cumulative t0 hs).getD (i + 1) 0 = (cumulative t0 hs).getD i 0 + hs.getD i 0 := by
  induction hs generalizing t0 i with
  | nil => simp at hi
  | cons h hs ih =>
    cases i with
    | zero =>
      cases hs <;> simp [cumulative]
    | succ i =>
      simp only [cumulative, List.getD_cons_succ]
      exact ih (t0 + h) i (by simpa using hi)

theorem drop_two {β : Type} (l : List β) (i : Nat) (d : β) (hi : i + 1 < l.length) :
    l.drop i = l.getD i d :: l.getD (i + 1) d :: l.drop (i + 2) := by
  have h1 : i < l.length := by omega
  rw [List.drop_eq_getElem_cons h1, List.drop_eq_getElem_cons hi]
  simp [List.getD_eq_getElem?_getD, List.getElem?_eq_getElem h1, List.getElem?_eq_getElem hi]

theorem specIdx_knot (t0 : K) (hs : List K) (hpos : ∀ h ∈ hs, 0 < h) (i : Nat) (hi : i < hs.length) :
    specIdx (cumulative t0 hs) ((cumulative t0 hs).getD i 0) = i := by
  have h1 : 1 ≤ hs.length := by omega
  have hch := (specIdx_char (cumulative t0 hs) ((cumulative t0 hs).getD i 0) (cumulative_sorted t0 hs hpos) hs.length
    (cumulative_length t0 hs) h1).2.2.2
  apply hch i _ _ _ (drop_two (cumulative t0 hs) i 0 (by rw [cumulative_length]; omega)) (le_refl _)
  rw [cum_getD_succ t0 hs i hi]
  have : 0 < hs.getD i 0 := by
    rw [List.getD_eq_getElem?_getD, List.getElem?_eq_getElem hi]; exact hpos _ (List.getElem_mem hi)
  linarith

theorem specIdx_last (t0 : K) (hs : List K) (hpos : ∀ h ∈ hs, 0 < h) (hne : hs ≠ []) :
    specIdx (cumulative t0 hs) ((cumulative t0 hs).getD hs.length 0) = hs.length - 1 := by
  have h1 : 1 ≤ hs.length := by cases hs with
    | nil => exact absurd rfl hne
    | cons _ _ => simp
  have hch := (specIdx_char (cumulative t0 hs) ((cumulative t0 hs).getD hs.length 0) (cumulative_sorted t0 hs hpos)
    hs.length (cumulative_length t0 hs) h1).2.2.1
  apply hch
  have hl := cumulative_length t0 hs
  have : ∀ (l : List K) (n : Nat), l.length = n + 1 → l.getLastD 0 = l.getD n 0 := by
    intro l
    induction l with
    | nil => intro n h; simp at h
    | cons a l ih =>
      intro n h
      cases l with
      | nil => simp at h; subst h; simp
      | cons b l' =>
        cases n with
        | zero => simp at h
        | succ n =>
          have := ih n (by simpa using h)
          simp only [List.getLastD_cons] at this ⊢
          simp only [List.getD_cons_succ]
          rw [← this]
  rw [this _ _ hl]

/-- every segment's coefficient list interpolates its two waypoints -/
def Interp (hs Ps : List K) (rows : List (List K)) : Prop :=
  ∀ i, i < hs.length → hornerS 0 (rows.getD i []) = Ps.getD i 0 ∧ hornerS (hs.getD i 0) (rows.getD i []) = Ps.getD (i + 1) 0

theorem hornerS_cubic (c : Cubic.C4 K) (t : K) : hornerS t c.toList = ev c t := by
  simp only [Cubic.C4.toList, hornerS, ev]; ring
theorem hornerS_quintic (c : Quintic.C6 K) (t : K) : hornerS t c.toList = q_ev c t := by
  simp only [Quintic.C6.toList, hornerS, q_ev]; ring
theorem hornerS_septic (c : Septic.C8 K) (t : K) : hornerS t c.toList = s_ev c t := by
  simp only [Septic.C8.toList, hornerS, s_ev]; ring

theorem interp_cubic (vn : K) (hs Ps : List K) (cs : List (Cubic.C4 K)) (h : CubicSpec vn hs Ps cs) :
    Interp hs Ps (cs.map Cubic.C4.toList) := by
  induction hs generalizing Ps cs with
  | nil => intro i hi; simp at hi
  | cons a hs ih =>
    cases hs with
    | nil =>
      match Ps, cs, h with
      | [p0, p1], [c], h =>
        intro i hi
        have : i = 0 := by simpa using hi
        subst this
        simp only [List.map_cons, List.getD_cons_zero, hornerS_cubic, List.getD_cons_succ]
        exact ⟨h.1, h.2.1⟩
    | cons a' hs' =>
      match Ps, cs, h with
      | p0 :: p1 :: ps, c :: c' :: cs', h =>
        obtain ⟨e0, e1, _, _, hrest⟩ := h
        have ih' := ih (p1 :: ps) (c' :: cs') hrest
        intro i hi
        cases i with
        | zero => simp only [List.map_cons, List.getD_cons_zero, hornerS_cubic, List.getD_cons_succ]; exact ⟨e0, e1⟩
        | succ i =>
          have := ih' i (by simpa using hi)
          simpa only [List.map_cons, List.getD_cons_succ] using this

theorem interp_quintic (hs Ps : List K) (ks : List (V2 K)) (cs : List (Quintic.C6 K)) (h : QuinticHermite hs Ps ks cs) :
    Interp hs Ps (cs.map Quintic.C6.toList) := by
  induction hs generalizing Ps ks cs with
  | nil => intro i hi; simp at hi
  | cons a hs ih =>
    match Ps, ks, cs, h with
    | p0 :: p1 :: ps, k0 :: k1 :: ks', c :: cs', h =>
      obtain ⟨e0, _, _, e1, _, _, hrest⟩ := h
      have ih' := ih (p1 :: ps) (k1 :: ks') cs' hrest
      intro i hi
      cases i with
      | zero => simp only [List.map_cons, List.getD_cons_zero, hornerS_quintic, List.getD_cons_succ]; exact ⟨e0, e1⟩
      | succ i =>
        have := ih' i (by simpa using hi)
        simpa only [List.map_cons, List.getD_cons_succ] using this

theorem interp_septic (hs Ps : List K) (ks : List (V3 K)) (cs : List (Septic.C8 K)) (h : SepticHermite hs Ps ks cs) :
    Interp hs Ps (cs.map Septic.C8.toList) := by
  induction hs generalizing Ps ks cs with
  | nil => intro i hi; simp at hi
  | cons a hs ih =>
    match Ps, ks, cs, h with
    | p0 :: p1 :: ps, k0 :: k1 :: ks', c :: cs', h =>
      obtain ⟨e0, _, _, _, e1, _, _, _, hrest⟩ := h
      have ih' := ih (p1 :: ps) (k1 :: ks') cs' hrest
      intro i hi
      cases i with
      | zero => simp only [List.map_cons, List.getD_cons_zero, hornerS_septic, List.getD_cons_succ]; exact ⟨e0, e1⟩
      | succ i =>
        have := ih' i (by simpa using hi)
        simpa only [List.map_cons, List.getD_cons_succ] using this


theorem colOf_interp (o : Order) (hs : List K) (P : List (Vec K)) (bc : BC K) (j : Nat) (hpos : ∀ h ∈ hs, 0 < h)
    (hne : hs ≠ []) (hP : P.length = hs.length + 1) :
    Interp hs (P.map (fun r => getC r j)) (colOf o hs P bc j).coeffs := by
  have hPj : (P.map (fun r => getC r j)).length = hs.length + 1 := by simp [hP]
  have hne0 : ∀ h ∈ hs, h ≠ 0 := fun h hh => (hpos h hh).ne'
  have h1 : 1 ≤ hs.length := by cases hs with
    | nil => exact absurd rfl hne
    | cons _ _ => simp
  cases o with
  | cubic =>
    simp only [colOf, colCubic]
    exact interp_cubic _ hs _ _ (cubic_build_spec _ _ hs _ (posList_of_forall hs hpos) hne hPj).1
  | quintic =>
    simp only [colOf, colQuintic]
    have hin : (bback (bfwd none (Quintic.rows ⟨getC bc.v0 j, getC bc.a0 j⟩ ⟨getC bc.vn j, getC bc.an j⟩
        (Quintic.mkSegs hs (P.map (fun r => getC r j)))))).length + 1 = hs.length := by
      rw [NDAdj.bback_length2, NDAdj.bfwd_length2, QuinticAdj.rows_length, NDEnergy.qmkSegs_length hs _ hPj]; omega
    exact interp_quintic hs _ _ _ (quintic_build_hermite hs _ _ _ hne0 hPj hin).1
  | septic =>
    simp only [colOf, colSeptic]
    have hin : (bback (bfwd none (Septic.rows ⟨getC bc.v0 j, getC bc.a0 j, getC bc.j0 j⟩
        ⟨getC bc.vn j, getC bc.an j, getC bc.jn j⟩
        (Septic.mkSegs hs (P.map (fun r => getC r j)))))).length + 1 = hs.length := by
      rw [NDAdj.bback_length3, NDAdj.bfwd_length3, SepticAdj.rows_length, NDEnergy.smkSegs_length hs _ hPj]; omega
    exact interp_septic hs _ _ _ (septic_build_hermite hs _ _ _ hne0 hPj hin).1

/-- **C01, end to end**: the trajectory a spline publishes passes through waypoint `i` at knot time `i`, every
order, dimension, N ≥ 1 and all positive durations (interior knots are answered by the segment that starts there, the
last knot by the last segment at its right end) -/
theorem traj_at_knot (o : Order) (d : Nat) (hs : List K) (P : List (Vec K)) (t0 : K) (bc : BC K) (hne : hs ≠ [])
    (hpos : ∀ h ∈ hs, 0 < h) (hP : P.length = hs.length + 1) (i : Nat) (hi : i ≤ hs.length) :
    ((buildND o d hs P t0 bc).ppoly.evaluate ((cumulative t0 hs).getD i 0) 0).2
      = (List.range d).map (fun j => getC (P.getD i []) j) := by
  have h1 : 1 ≤ hs.length := by cases hs with
    | nil => exact absurd rfl hne
    | cons _ _ => simp
  rw [(traj_eval o d hs P t0 bc hne hpos hP _).2]
  apply List.map_congr_left
  intro j _
  have hint := colOf_interp o hs P bc j hpos hne hP
  have hcol : ∀ k, (P.map (fun r => getC r j)).getD k 0 = getC (P.getD k []) j := by
    intro k
    simp only [getC, List.getD_eq_getElem?_getD, List.getElem?_map]
    cases P[k]? <;> simp [lit_eq]
  by_cases hlt : i < hs.length
  · rw [specIdx_knot t0 hs hpos i hlt, sub_self, (hint i hlt).1, hcol]
  · have hin : i = hs.length := by omega
    subst hin
    rw [specIdx_last t0 hs hpos hne]
    have hm : hs.length - 1 < hs.length := by omega
    have hstep := cum_getD_succ t0 hs (hs.length - 1) hm
    rw [Nat.sub_add_cancel h1] at hstep
    rw [hstep, add_sub_cancel_left, (hint (hs.length - 1) hm).2, hcol, Nat.sub_add_cancel h1]


/-! ## boundary states through the published trajectory -/

theorem dRow_cubic1 (c : Cubic.C4 K) (t : K) : hornerS t (dRow 4 1 c.toList) = ev1 c t := by
  simp [dRow, factorEntry, factorAux, Cubic.C4.toList, hornerS, List.range_succ, ev1, lit_eq]
  ring
theorem dRow_quintic1 (c : Quintic.C6 K) (t : K) : hornerS t (dRow 6 1 c.toList) = q_ev1 c t := by
  simp [dRow, factorEntry, factorAux, Quintic.C6.toList, hornerS, List.range_succ, q_ev1, lit_eq]
  ring
theorem dRow_quintic2 (c : Quintic.C6 K) (t : K) : hornerS t (dRow 6 2 c.toList) = q_ev2 c t := by
  simp [dRow, factorEntry, factorAux, Quintic.C6.toList, hornerS, List.range_succ, q_ev2, lit_eq]
  ring
theorem dRow_septic1 (c : Septic.C8 K) (t : K) : hornerS t (dRow 8 1 c.toList) = s_ev1 c t := by
  simp [dRow, factorEntry, factorAux, Septic.C8.toList, hornerS, List.range_succ, s_ev1, lit_eq]
  ring
theorem dRow_septic2 (c : Septic.C8 K) (t : K) : hornerS t (dRow 8 2 c.toList) = s_ev2 c t := by
  simp [dRow, factorEntry, factorAux, Septic.C8.toList, hornerS, List.range_succ, s_ev2, lit_eq]
  ring
theorem dRow_septic3 (c : Septic.C8 K) (t : K) : hornerS t (dRow 8 3 c.toList) = s_ev3 c t := by
  simp [dRow, factorEntry, factorAux, Septic.C8.toList, hornerS, List.range_succ, s_ev3, lit_eq]
  ring

theorem cubicSpec_last (vn : K) (hs Ps : List K) (cs : List (Cubic.C4 K)) (h : CubicSpec vn hs Ps cs) (z : Cubic.C4 K) :
    ev1 (cs.getD (hs.length - 1) z) (hs.getD (hs.length - 1) 0) = vn := by
  induction hs generalizing Ps cs with
  | nil => cases Ps <;> cases cs <;> simp [CubicSpec] at h
  | cons a hs ih =>
    cases hs with
    | nil =>
      match Ps, cs, h with
      | [p0, p1], [c], h => simpa using h.2.2
    | cons a' hs' =>
      match Ps, cs, h with
      | p0 :: p1 :: ps, c :: c' :: cs', h =>
        have := ih (p1 :: ps) (c' :: cs') h.2.2.2.2
        simpa using this

/-- per-piece end conditions carried by `QuinticHermite` -/
theorem quinticHermite_piece (hs Ps : List K) (ks : List (V2 K)) (cs : List (Quintic.C6 K)) (h : QuinticHermite hs Ps ks cs)
    (i : Nat) (hi : i < hs.length) (z : Quintic.C6 K) (zk : V2 K) :
    q_ev1 (cs.getD i z) 0 = (ks.getD i zk).x ∧ q_ev2 (cs.getD i z) 0 = (ks.getD i zk).y ∧
    q_ev1 (cs.getD i z) (hs.getD i 0) = (ks.getD (i + 1) zk).x ∧ q_ev2 (cs.getD i z) (hs.getD i 0) = (ks.getD (i + 1) zk).y := by
  induction hs generalizing Ps ks cs i with
  | nil => simp at hi
  | cons a hs ih =>
    match Ps, ks, cs, h with
    | p0 :: p1 :: ps, k0 :: k1 :: ks', c :: cs', h =>
      obtain ⟨_, e1, e2, _, e4, e5, hrest⟩ := h
      cases i with
      | zero => simp only [List.getD_cons_zero, List.getD_cons_succ]; exact ⟨e1, e2, e4, e5⟩
      | succ i =>
        have := ih (p1 :: ps) (k1 :: ks') cs' hrest i (by simpa using hi)
        simpa only [List.getD_cons_succ] using this

theorem septicHermite_piece (hs Ps : List K) (ks : List (V3 K)) (cs : List (Septic.C8 K)) (h : SepticHermite hs Ps ks cs)
    (i : Nat) (hi : i < hs.length) (z : Septic.C8 K) (zk : V3 K) :
    s_ev1 (cs.getD i z) 0 = (ks.getD i zk).x ∧ s_ev2 (cs.getD i z) 0 = (ks.getD i zk).y ∧ s_ev3 (cs.getD i z) 0 = (ks.getD i zk).z ∧
    s_ev1 (cs.getD i z) (hs.getD i 0) = (ks.getD (i + 1) zk).x ∧ s_ev2 (cs.getD i z) (hs.getD i 0) = (ks.getD (i + 1) zk).y ∧
    s_ev3 (cs.getD i z) (hs.getD i 0) = (ks.getD (i + 1) zk).z := by
  induction hs generalizing Ps ks cs i with
  | nil => simp at hi
  | cons a hs ih =>
    match Ps, ks, cs, h with
    | p0 :: p1 :: ps, k0 :: k1 :: ks', c :: cs', h =>
      obtain ⟨_, e1, e2, e3, _, e5, e6, e7, hrest⟩ := h
      cases i with
      | zero => simp only [List.getD_cons_zero, List.getD_cons_succ]; exact ⟨e1, e2, e3, e5, e6, e7⟩
      | succ i =>
        have := ih (p1 :: ps) (k1 :: ks') cs' hrest i (by simpa using hi)
        simpa only [List.getD_cons_succ] using this

theorem getD_of_head_last {β : Type} (l : List β) (n : Nat) (a b z : β) (hl : l.length = n + 1) (hh : l.head? = some a)
    (hlast : l.getLast? = some b) : l.getD 0 z = a ∧ l.getD n z = b := by
  refine ⟨?_, ?_⟩
  · cases l with
    | nil => simp at hh
    | cons x l' => simp at hh; simp [hh]
  · have hne : l ≠ [] := by intro h; rw [h] at hl; simp at hl
    rw [List.getLast?_eq_some_getLast hne] at hlast
    have := Option.some.inj hlast
    rw [← this, List.getLast_eq_getElem, List.getD_eq_getElem?_getD, List.getElem?_eq_getElem (by omega)]
    simp [hl]


def bcStart (bc : BC K) : Nat → Vec K
  | 1 => bc.v0 | 2 => bc.a0 | _ => bc.j0
def bcEnd (bc : BC K) : Nat → Vec K
  | 1 => bc.vn | 2 => bc.an | _ => bc.jn

theorem map_getD' {β : Type} (cs : List β) (f : β → List K) (i : Nat) (z : β) (hi : i < cs.length) :
    (cs.map f).getD i [] = f (cs.getD i z) := by
  simp [List.getD_eq_getElem?_getD, List.getElem?_map, List.getElem?_eq_getElem hi]

/-- first and last piece of every coordinate carry the boundary derivatives the order uses -/
theorem colOf_boundary (o : Order) (hs : List K) (P : List (Vec K)) (bc : BC K) (j : Nat) (hpos : ∀ h ∈ hs, 0 < h)
    (hne : hs ≠ []) (hP : P.length = hs.length + 1) (k : Nat) (hk1 : 1 ≤ k) (hk2 : 2 * k + 1 < o.coeffNum) :
    hornerS 0 (dRow o.coeffNum k ((colOf o hs P bc j).coeffs.getD 0 [])) = getC (bcStart bc k) j ∧
    hornerS (hs.getD (hs.length - 1) 0) (dRow o.coeffNum k ((colOf o hs P bc j).coeffs.getD (hs.length - 1) []))
      = getC (bcEnd bc k) j := by
  have hPj : (P.map (fun r => getC r j)).length = hs.length + 1 := by simp [hP]
  have hne0 : ∀ h ∈ hs, h ≠ 0 := fun h hh => (hpos h hh).ne'
  have h1 : 1 ≤ hs.length := by cases hs with
    | nil => exact absurd rfl hne
    | cons _ _ => simp
  have hm : hs.length - 1 < hs.length := by omega
  cases o with
  | cubic =>
    have hk : k = 1 := by simp [Order.coeffNum] at hk2; omega
    subst hk
    obtain ⟨hspec, hfirst⟩ := cubic_build_spec (getC bc.v0 j) (getC bc.vn j) hs _ (posList_of_forall hs hpos) hne hPj
    have hcl := NDEnergy.cubic_build_length hs _ (getC bc.v0 j) (getC bc.vn j) hne hPj
    simp only [colOf, colCubic, Order.coeffNum, bcStart, bcEnd]
    rw [map_getD' _ _ 0 ⟨0, 0, 0, 0⟩ (by rw [hcl]; omega), map_getD' _ _ (hs.length - 1) ⟨0, 0, 0, 0⟩ (by rw [hcl]; exact hm),
      dRow_cubic1, dRow_cubic1]
    refine ⟨?_, cubicSpec_last _ hs _ _ hspec _⟩
    match hb : Cubic.build hs (P.map (fun r => getC r j)) (getC bc.v0 j) (getC bc.vn j), hcl with
    | [], hcl => simp at hcl; omega
    | c :: cs', _ => simpa using hfirst c cs' hb
  | quintic =>
    have hin : (bback (bfwd none (Quintic.rows ⟨getC bc.v0 j, getC bc.a0 j⟩ ⟨getC bc.vn j, getC bc.an j⟩
        (Quintic.mkSegs hs (P.map (fun r => getC r j)))))).length + 1 = hs.length := by
      rw [NDAdj.bback_length2, NDAdj.bfwd_length2, QuinticAdj.rows_length, NDEnergy.qmkSegs_length hs _ hPj]; omega
    obtain ⟨hh, hhead, hlast⟩ := quintic_build_hermite hs _ ⟨getC bc.v0 j, getC bc.a0 j⟩ ⟨getC bc.vn j, getC bc.an j⟩ hne0 hPj hin
    have hcl := NDEnergy.quintic_build_length hs _ (⟨getC bc.v0 j, getC bc.a0 j⟩ : V2 K) ⟨getC bc.vn j, getC bc.an j⟩ hne hPj
    have hkl : (Quintic.buildFull hs (P.map (fun r => getC r j)) ⟨getC bc.v0 j, getC bc.a0 j⟩
        ⟨getC bc.vn j, getC bc.an j⟩).knots.length = hs.length + 1 := by
      show (_ :: bback (bfwd none _) ++ [_]).length = _
      simp only [List.length_cons, List.length_append, List.length_nil]; omega
    obtain ⟨g0, gn⟩ := getD_of_head_last _ hs.length _ _ (⟨0, 0⟩ : V2 K) hkl hhead hlast
    have p0 := quinticHermite_piece hs _ _ _ hh 0 (by omega) ⟨0, 0, 0, 0, 0, 0⟩ ⟨0, 0⟩
    have pn := quinticHermite_piece hs _ _ _ hh (hs.length - 1) hm ⟨0, 0, 0, 0, 0, 0⟩ ⟨0, 0⟩
    rw [Nat.sub_add_cancel h1, gn] at pn
    rw [g0] at p0
    simp only [colOf, colQuintic, Order.coeffNum]
    rw [map_getD' _ _ 0 ⟨0, 0, 0, 0, 0, 0⟩ (by rw [hcl]; omega),
      map_getD' _ _ (hs.length - 1) ⟨0, 0, 0, 0, 0, 0⟩ (by rw [hcl]; exact hm)]
    have hk : k = 1 ∨ k = 2 := by simp [Order.coeffNum] at hk2; omega
    rcases hk with rfl | rfl
    · rw [dRow_quintic1, dRow_quintic1]; exact ⟨p0.1, pn.2.2.1⟩
    · rw [dRow_quintic2, dRow_quintic2]; exact ⟨p0.2.1, pn.2.2.2⟩
  | septic =>
    have hin : (bback (bfwd none (Septic.rows ⟨getC bc.v0 j, getC bc.a0 j, getC bc.j0 j⟩
        ⟨getC bc.vn j, getC bc.an j, getC bc.jn j⟩ (Septic.mkSegs hs (P.map (fun r => getC r j)))))).length + 1 = hs.length := by
      rw [NDAdj.bback_length3, NDAdj.bfwd_length3, SepticAdj.rows_length, NDEnergy.smkSegs_length hs _ hPj]; omega
    obtain ⟨hh, hhead, hlast⟩ := septic_build_hermite hs _ ⟨getC bc.v0 j, getC bc.a0 j, getC bc.j0 j⟩
      ⟨getC bc.vn j, getC bc.an j, getC bc.jn j⟩ hne0 hPj hin
    have hcl := NDEnergy.septic_build_length hs _ (⟨getC bc.v0 j, getC bc.a0 j, getC bc.j0 j⟩ : V3 K)
      ⟨getC bc.vn j, getC bc.an j, getC bc.jn j⟩ hne hPj
    have hkl : (Septic.buildFull hs (P.map (fun r => getC r j)) ⟨getC bc.v0 j, getC bc.a0 j, getC bc.j0 j⟩
        ⟨getC bc.vn j, getC bc.an j, getC bc.jn j⟩).knots.length = hs.length + 1 := by
      show (_ :: bback (bfwd none _) ++ [_]).length = _
      simp only [List.length_cons, List.length_append, List.length_nil]; omega
    obtain ⟨g0, gn⟩ := getD_of_head_last _ hs.length _ _ (⟨0, 0, 0⟩ : V3 K) hkl hhead hlast
    have p0 := septicHermite_piece hs _ _ _ hh 0 (by omega) ⟨0, 0, 0, 0, 0, 0, 0, 0⟩ ⟨0, 0, 0⟩
    have pn := septicHermite_piece hs _ _ _ hh (hs.length - 1) hm ⟨0, 0, 0, 0, 0, 0, 0, 0⟩ ⟨0, 0, 0⟩
    rw [Nat.sub_add_cancel h1, gn] at pn
    rw [g0] at p0
    simp only [colOf, colSeptic, Order.coeffNum]
    rw [map_getD' _ _ 0 ⟨0, 0, 0, 0, 0, 0, 0, 0⟩ (by rw [hcl]; omega),
      map_getD' _ _ (hs.length - 1) ⟨0, 0, 0, 0, 0, 0, 0, 0⟩ (by rw [hcl]; exact hm)]
    have hk : k = 1 ∨ k = 2 ∨ k = 3 := by simp [Order.coeffNum] at hk2; omega
    rcases hk with rfl | rfl | rfl
    · rw [dRow_septic1, dRow_septic1]; exact ⟨p0.1, pn.2.2.2.1⟩
    · rw [dRow_septic2, dRow_septic2]; exact ⟨p0.2.1, pn.2.2.2.2.1⟩
    · rw [dRow_septic3, dRow_septic3]; exact ⟨p0.2.2.1, pn.2.2.2.2.2⟩

/-- **C01, boundary states end to end**: derivative `k` (1 … s−1) of the published trajectory at the first knot is the start
boundary state, at the last knot the end boundary state — every order, dimension, N ≥ 1, positive durations -/
theorem traj_boundary (o : Order) (d : Nat) (hs : List K) (P : List (Vec K)) (t0 : K) (bc : BC K) (hne : hs ≠ [])
    (hpos : ∀ h ∈ hs, 0 < h) (hP : P.length = hs.length + 1) (k : Nat) (hk1 : 1 ≤ k) (hk2 : 2 * k + 1 < o.coeffNum) :
    ((buildND o d hs P t0 bc).ppoly.evaluate ((cumulative t0 hs).getD 0 0) (k : Int)).2
      = (List.range d).map (fun j => getC (bcStart bc k) j) ∧
    ((buildND o d hs P t0 bc).ppoly.evaluate ((cumulative t0 hs).getD hs.length 0) (k : Int)).2
      = (List.range d).map (fun j => getC (bcEnd bc k) j) := by
  have h1 : 1 ≤ hs.length := by cases hs with
    | nil => exact absurd rfl hne
    | cons _ _ => simp
  have hk : k < o.coeffNum := by omega
  refine ⟨?_, ?_⟩
  · rw [traj_eval_k o d hs P t0 bc hne hpos hP _ k hk, specIdx_knot t0 hs hpos 0 (by omega), sub_self]
    apply List.map_congr_left
    intro j _
    exact (colOf_boundary o hs P bc j hpos hne hP k hk1 hk2).1
  · rw [traj_eval_k o d hs P t0 bc hne hpos hP _ k hk, specIdx_last t0 hs hpos hne]
    have hm : hs.length - 1 < hs.length := by omega
    have hstep := cum_getD_succ t0 hs (hs.length - 1) hm
    rw [Nat.sub_add_cancel h1] at hstep
    rw [hstep, add_sub_cancel_left]
    apply List.map_congr_left
    intro j _
    exact (colOf_boundary o hs P bc j hpos hne hP k hk1 hk2).2

end Traj
