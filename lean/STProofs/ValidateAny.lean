import STModel
import Mathlib.Tactic.Linarith
/-!
# Validation verdicts for an arbitrary scalar type — in particular IEEE doubles (C16)

`ValidateProofs.lean` re-checked without any law of arithmetic or order: the verdict of `setInitState` is "no error", exactly when
there is at least one segment, one more waypoint row than segments, a finite start time, every duration finite and *not reported
smaller than the threshold by the scalar type's own comparison*, every waypoint row finite and every boundary state the order
uses finite; stored flag = returned flag, message present exactly on failure, after every history of earlier initialisations.
At `Float` the comparison is the IEEE `<` on the finite payload.
-/
open ST
set_option linter.unusedSectionVars false
namespace AnyNum

section
variable {K : Type} [NumOrd K]

def timeOK (t : Ext K) : Prop :=
  match t with
  | .fin x => NumOrd.lt x minValidDuration = false
  | _ => False

theorem enumFrom_filterMap_nil {β γ : Type} (f : Nat × β → Option γ) (l : List β) (i : Nat) :
    (enumFrom i l).filterMap f = [] ↔ ∀ p ∈ enumFrom i l, f p = none := by
  simp [List.filterMap_eq_nil_iff]

theorem mem_enumFrom {β : Type} (l : List β) (i : Nat) (x : β) (hx : x ∈ l) : ∃ k, (k, x) ∈ enumFrom i l := by
  induction l generalizing i with
  | nil => simp at hx
  | cons a l ih =>
    rcases List.mem_cons.mp hx with rfl | h
    · exact ⟨i, by simp [enumFrom]⟩
    · obtain ⟨k, hk⟩ := ih (i + 1) h
      exact ⟨k, by simp [enumFrom, hk]⟩

theorem enumFrom_snd {β : Type} (l : List β) (i : Nat) (p : Nat × β) (hp : p ∈ enumFrom i l) : p.2 ∈ l := by
  induction l generalizing i with
  | nil => simp [enumFrom] at hp
  | cons a l ih =>
    simp only [enumFrom, List.mem_cons] at hp
    rcases hp with rfl | h
    · simp
    · exact List.mem_cons_of_mem _ (ih (i + 1) h)

/-- **the verdict**: no error is reported iff the problem satisfies exactly the documented conditions -/
theorem validity_iff (o : Order) (r : RawProblem K) :
    validityErrors o r = [] ↔
      (1 ≤ r.times.length ∧ r.waypoints.length = r.times.length + 1 ∧ r.startTime.isFinite = true ∧
       (∀ t ∈ r.times, timeOK t) ∧ (∀ row ∈ r.waypoints, allFinite row = true) ∧
       allFinite r.v0 = true ∧ allFinite r.vn = true ∧
       (o.degree ≥ 5 → allFinite r.a0 = true ∧ allFinite r.an = true) ∧
       (o.degree ≥ 7 → allFinite r.j0 = true ∧ allFinite r.jn = true)) := by
  unfold validityErrors
  simp only [List.append_eq_nil_iff, enumFrom_filterMap_nil]
  constructor
  · rintro ⟨⟨⟨⟨⟨⟨⟨⟨h1, h2⟩, h3⟩, h4⟩, h5⟩, h6⟩, h7⟩, h8⟩, h9⟩
    refine ⟨?_, ?_, ?_, ?_, ?_, ?_, ?_, ?_, ?_⟩
    · by_contra hc
      have : r.times.length = 0 := by omega
      simp [this] at h1
    · by_contra hc; simp [hc] at h2
    · by_contra hc; simp [hc] at h3
    · intro t ht
      obtain ⟨k, hk⟩ := mem_enumFrom r.times 0 t ht
      have := h4 _ hk
      cases t with
      | fin x =>
        simp only [timeOK]
        cases hx : NumOrd.lt x minValidDuration with
        | false => rfl
        | true => simp [hx] at this
      | pinf => simp at this
      | ninf => simp at this
      | nan => simp at this
    · intro row hrow
      obtain ⟨k, hk⟩ := mem_enumFrom r.waypoints 0 row hrow
      have := h5 _ hk
      by_contra hc
      simp [hc] at this
    · by_contra hc; simp [hc] at h6
    · by_contra hc; simp [hc] at h7
    · intro ho
      simp only [ho, if_true, List.append_eq_nil_iff] at h8
      constructor
      · by_contra hc; simp [hc] at h8
      · by_contra hc; simp [hc] at h8
    · intro ho
      simp only [ho, if_true, List.append_eq_nil_iff] at h9
      constructor
      · by_contra hc; simp [hc] at h9
      · by_contra hc; simp [hc] at h9
  · rintro ⟨h1, h2, h3, h4, h5, h6, h7, h8, h9⟩
    refine ⟨⟨⟨⟨⟨⟨⟨⟨?_, ?_⟩, ?_⟩, ?_⟩, ?_⟩, ?_⟩, ?_⟩, ?_⟩, ?_⟩
    · have : r.times.length ≠ 0 := by omega
      simp [this]
    · simp [h2]
    · simp [h3]
    · intro p hp
      have ht := h4 p.2 (enumFrom_snd _ _ p hp)
      obtain ⟨i, t⟩ := p
      cases t with
      | fin x =>
        simp only [timeOK] at ht
        simp [ht]
      | pinf => simp [timeOK] at ht
      | ninf => simp [timeOK] at ht
      | nan => simp [timeOK] at ht
    · intro p hp
      have := h5 p.2 (enumFrom_snd _ _ p hp)
      obtain ⟨i, row⟩ := p
      simp [this]
    · simp [h6]
    · simp [h7]
    · by_cases ho : o.degree ≥ 5
      · simp [ho, (h8 ho).1, (h8 ho).2]
      · simp [ho]
    · by_cases ho : o.degree ≥ 7
      · simp [ho, (h9 ho).1, (h9 ho).2]
      · simp [ho]

/-- an initialisation request: durations form or time-point form -/
inductive InitOp (K : Type) where
  | dur (r : RawProblem K)
  | tp (tps : List (Ext K)) (r : RawProblem K)

def initStep (o : Order) (s : VState) : InitOp K → VState × Bool
  | .dur r => setInitState o s r
  | .tp tps r => setInitStateTP o s tps r

/-- the stored flag equals the returned result and a message is available exactly when it is false -/
def Coherent (p : VState × Bool) : Prop := p.1.isValid = p.2 ∧ p.1.msgNonEmpty = !p.2

theorem setInitState_coherent (o : Order) (s : VState) (r : RawProblem K) : Coherent (setInitState o s r) := by
  simp [setInitState, Coherent]

theorem initStep_coherent (o : Order) (s : VState) (op : InitOp K) : Coherent (initStep o s op) := by
  cases op with
  | dur r => exact setInitState_coherent o s r
  | tp tps r =>
    cases tps with
    | nil => simp [initStep, setInitStateTP, Coherent]
    | cons t0 rest => simp only [initStep, setInitStateTP]; exact setInitState_coherent o s _

def runInits (o : Order) (s : VState) : List (InitOp K) → VState
  | [] => s
  | op :: ops => runInits o (initStep o s op).1 ops

/-- **coherence after every history** of valid / invalid initialisations on the same object: whatever came
before, the verdict of the last call is what the object reports -/
theorem verdict_history (o : Order) (s : VState) (ops : List (InitOp K)) (last : InitOp K) :
    let s' := runInits o s ops
    Coherent (initStep o s' last) ∧ (initStep o s' last).1 = (initStep o {} last).1 := by
  refine ⟨initStep_coherent o _ last, ?_⟩
  cases last with
  | dur r => rfl
  | tp tps r => cases tps <;> rfl

/-- success of the durations form is exactly the documented condition -/
theorem setInitState_ok_iff (o : Order) (s : VState) (r : RawProblem K) :
    (setInitState o s r).2 = true ↔ validityErrors o r = [] := by
  simp [setInitState, List.isEmpty_iff]

/-- the time-point form with no time point is rejected -/
theorem setInitStateTP_empty (o : Order) (s : VState) (r : RawProblem K) :
    (setInitStateTP o s [] r).2 = false := rfl

end
end AnyNum
