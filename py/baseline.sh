#!/bin/sh
# The repository's own test suite with the verification guard OFF (no -DSPLINETRAJ_VERIF anywhere):
# configure + build /repo exactly as its CMakeLists says, then run every test_* executable (the project registers no ctest tests).
set -e
B=${1:-/repo/_build}
cmake -G Ninja -S /repo -B "$B" -DCMAKE_BUILD_TYPE=Release >/dev/null
cmake --build "$B" -j"$(nproc)" >/dev/null
ctest --test-dir "$B" -j8 --timeout 900 || true
rc=0
for t in "$B"/test_*; do
  [ -x "$t" ] && [ -f "$t" ] || continue
  echo "=== $t"
  ( cd "$B" && "$t" > "$t.out" 2>&1 ) || { echo "FAILED: $t"; rc=1; }
  grep -c -i "pass" "$t.out" || true
done
exit $rc
