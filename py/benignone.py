#!/usr/bin/env python3
"""Negative control: apply one behaviour-preserving change (/verif/benign/<name>/patch.diff) to $VERIF_REPO (a scratch clone),
run the listed checks (default: all twenty) in the quick tier without the Lean stage, undo the change.  Every check must stay
silent.  usage: benignone.py <name> [Cxx ...]"""
import sys, os, subprocess, json
VERIF = os.path.dirname(os.path.dirname(os.path.abspath(__file__)))
REPO = os.environ.get('VERIF_REPO', '/repo')
name, pids = sys.argv[1], sys.argv[2:] or ['C%02d' % i for i in range(1, 21)]
assert subprocess.run(['git', '-C', REPO, 'status', '--porcelain', '--untracked-files=no'], capture_output=True, text=True).stdout.strip() == '', 'repo dirty'
patch = os.path.join(VERIF, 'benign', name, 'patch.diff')
subprocess.run(['git', '-C', REPO, 'apply', patch], check=True)
try:
    for pid in pids:
        r = subprocess.run(['python3', os.path.join(VERIF, 'py', 'check.py'), pid, '--tier', 'quick', '--no-lean'], capture_output=True, text=True, cwd=VERIF)
        vio = [l for l in r.stdout.splitlines() if l.startswith('VIOLATION')]
        first = ''
        if vio:
            try:
                j = json.load(open(vio[0].split('replay=')[1].split()[0]))
                fl = j.get('failures') or j.get('broken_correspondence') or []
                first = fl[0]['what'] if fl else ''
            except Exception:
                first = '?'
        print(name, pid, 'ALARM' if vio or r.returncode else 'silent', '::', first[:200], flush=True)
finally:
    subprocess.run(['git', '-C', REPO, 'checkout', '--', '.'], check=True)
