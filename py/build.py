"""Build the C++ harness from /repo's *current working tree* and the Lean package.

Objects are cached under /verif/build/<variant>-<key>/ where key hashes the repo headers, the harness
sources and the flags: an edited header is recompiled, an unchanged one is not.
"""
import hashlib, os, subprocess, sys, shutil, time, glob
from concurrent.futures import ThreadPoolExecutor

VERIF = os.path.dirname(os.path.dirname(os.path.abspath(__file__)))
REPO = os.environ.get('VERIF_REPO', '/repo')
HARNESS = os.path.join(VERIF, 'harness')
BUILD = os.path.join(VERIF, 'build')
LEAN = os.path.join(VERIF, 'lean')
GUARD = 'SPLINETRAJ_VERIF'

BASE_FLAGS = ['-std=c++17', '-O1', '-g0', '-I' + os.path.join(REPO, 'include'), '-I/usr/include/eigen3',
              '-D' + GUARD, '-Wno-deprecated-declarations', '-pthread']
VARIANTS = {
    'asan': ['-fsanitize=address,undefined', '-fno-sanitize-recover=all', '-fno-omit-frame-pointer'],
    'plain': [],
    'tsan': ['-fsanitize=thread'],
    'cov': ['--coverage', '-O0'],      # py/coverage.py only
    # the instruction set of this machine, as the project's own release flags select it (-march=native): code guarded by
    # feature macros such as FP_FAST_FMA is only compiled in such a build (C17 runs its time-map oracle on it as well)
    'native': ['-O2', '-march=native'],
    # OpenMP enabled: the library's OpenMPExecutor is a real parallel loop only in such a build (C12 runs evaluations from
    # inside an OpenMP team with it)
    'omp': ['-fopenmp'],
}

SPLINE_DIMS = list(range(1, 11))
OPT_DIMS = [1, 2, 3, 4]
ORDERS = [3, 5, 7]


def _hash_files(paths, extra=''):
    h = hashlib.sha256()
    for p in sorted(paths):
        h.update(p.encode())
        with open(p, 'rb') as f:
            h.update(f.read())
    h.update(extra.encode())
    return h.hexdigest()[:16]


def repo_headers():
    inc = os.path.join(REPO, 'include')
    return [os.path.join(inc, 'SplineTrajectory.hpp'), os.path.join(inc, 'SplineOptimizer.hpp')]


def tu_list(parts):
    """(object name, source, extra defines)"""
    tus = [('main', 'main.cpp', [])]
    if 'spline' in parts:
        for o in ORDERS:
            for d in SPLINE_DIMS:
                tus.append((f'spline_{o}_{d}', 'spline_tu.cpp', [f'-DH_ORDER={o}', f'-DH_DIM={d}']))
    if 'ppoly' in parts:
        for d in [1, 2, 3, 6]:
            tus.append((f'ppoly_{d}', 'ppoly_tu.cpp', [f'-DH_DIM={d}']))
        tus.append(('misc', 'misc_tu.cpp', []))
    if 'opt' in parts:
        for o in ORDERS:
            for d in OPT_DIMS:
                tus.append((f'opt_{o}_{d}', 'opt_tu.cpp', [f'-DH_ORDER={o}', f'-DH_DIM={d}']))
    if 'opt_min' in parts:          # reduced optimizer set (ThreadSanitizer variant)
        for o, d in ((5, 2), (3, 1)):
            tus.append((f'opt_{o}_{d}', 'opt_tu.cpp', [f'-DH_ORDER={o}', f'-DH_DIM={d}']))
    return tus


def build_harness(variant='asan', parts=('spline', 'ppoly', 'opt'), jobs=None, verbose=False):
    """returns path of the harness binary built from REPO's working tree"""
    parts = tuple(sorted(parts))
    flags = BASE_FLAGS + VARIANTS[variant]
    srcs = glob.glob(os.path.join(HARNESS, '*.cpp')) + glob.glob(os.path.join(HARNESS, '*.hpp'))
    key = _hash_files(repo_headers() + srcs, ' '.join(flags))
    outdir = os.path.join(BUILD, f'{variant}-{key}')
    os.makedirs(outdir, exist_ok=True)
    exe = os.path.join(outdir, 'harness_' + '_'.join(parts))
    if os.path.exists(exe):
        return exe
    tus = tu_list(parts)
    jobs = jobs or min(16, os.cpu_count() or 4)

    def compile_one(tu):
        name, src, defs = tu
        obj = os.path.join(outdir, name + '.o')
        if os.path.exists(obj):
            return (name, 0, '')
        cmd = ['g++'] + flags + defs + ['-c', os.path.join(HARNESS, src), '-o', obj + '.tmp']
        r = subprocess.run(cmd, capture_output=True, text=True)
        if r.returncode == 0:
            os.replace(obj + '.tmp', obj)
        return (name, r.returncode, r.stderr[-4000:])

    t0 = time.time()
    # heaviest first
    order = sorted(tus, key=lambda t: (0 if t[0].startswith('opt') else 1, t[0]))
    with ThreadPoolExecutor(jobs) as ex:
        results = list(ex.map(compile_one, order))
    bad = [r for r in results if r[1] != 0]
    if bad:
        msg = '\n'.join(f'--- {n}\n{e}' for n, _, e in bad[:3])
        raise BuildError(f'harness does not compile against {REPO} ({len(bad)} TU failed)\n{msg}')
    objs = [os.path.join(outdir, n + '.o') for n, _, _ in tus]
    r = subprocess.run(['g++'] + flags + objs + ['-o', exe + '.tmp'], capture_output=True, text=True)
    if r.returncode != 0:
        raise BuildError('harness link failed\n' + r.stderr[-4000:])
    os.replace(exe + '.tmp', exe)
    if verbose:
        print(f'[build] harness {variant} {parts} in {time.time()-t0:.1f}s -> {exe}', file=sys.stderr)
    _prune(keep=outdir)
    return exe


def _prune(keep):
    """drop build directories of other header versions (disk is limited)"""
    if not os.path.isdir(BUILD) or os.environ.get('VERIF_OUT'):
        return          # experiment mode (several trees in flight, possibly concurrently): nothing is removed
    ds = sorted((d for d in glob.glob(os.path.join(BUILD, '*-*')) if os.path.isdir(d)), key=os.path.getmtime)
    variant = os.path.basename(keep).split('-')[0]
    same = [d for d in ds if os.path.basename(d).startswith(variant + '-') and d != keep]
    for d in same[:-1] if len(same) > 1 else []:
        shutil.rmtree(d, ignore_errors=True)


class BuildError(Exception):
    pass


def lake_build(targets=('STModel', 'stmodel'), verbose=False):
    """build Lean targets; returns (ok, output)"""
    t0 = time.time()
    r = subprocess.run(['lake', 'build'] + list(targets), cwd=LEAN, capture_output=True, text=True)
    if verbose:
        print(f'[build] lake build {targets} in {time.time()-t0:.1f}s rc={r.returncode}', file=sys.stderr)
    return r.returncode == 0, r.stdout + r.stderr


def model_exe():
    return os.path.join(LEAN, '.lake', 'build', 'bin', 'stmodel')


if __name__ == '__main__':
    v = sys.argv[1] if len(sys.argv) > 1 else 'asan'
    parts = tuple(sys.argv[2].split(',')) if len(sys.argv) > 2 else ('spline', 'ppoly', 'opt')
    print(build_harness(v, parts, verbose=True))
