#!/usr/bin/env python3
"""Single entry point: python3 py/check.py <Cxx> [--tier quick|thorough]
exit 0 = property held on everything explored and every proof obligation checks;
exit 1 + `VIOLATION property=<id> replay=<path>` otherwise."""
import sys, os, argparse, traceback
sys.path.insert(0, os.path.dirname(os.path.abspath(__file__)))
import checklib, build, runner


def main():
    ap = argparse.ArgumentParser()
    ap.add_argument('pid')
    ap.add_argument('--tier', default=os.environ.get('VERIF_TIER', 'quick'))
    ap.add_argument('--no-lean', action='store_true', help='(development only) skip the proof obligations')
    args = ap.parse_args()
    seed = int(os.environ.get('VERIF_SEED', '0'))
    tier = 'thorough' if args.tier.startswith('t') else 'quick'
    import props
    spec = props.REGISTRY[args.pid]
    chk = checklib.Check(args.pid, tier, seed, level=spec['level'])
    chk.assumptions = spec.get('assumptions', [])
    try:
        if not args.no_lean:
            chk.run_lean()
        spec['run'](chk)
        # a broken proof obligation or correspondence with no failing input so far: enlarge the search once
        if (chk.mismatches or chk.theorem_failures) and not chk.failures and spec.get('search'):
            spec['search'](chk)
    except build.BuildError as e:
        chk.mismatch('harness does not build against the current tree: ' + str(e)[:3000], None)
    except runner.HarnessCrash as e:
        chk.violation('the implementation crashed / a sanitizer aborted while executing the generated cases',
                      {'last_completed_request': e.last_id}, {'stderr': e.stderr[-3000:]})
    except Exception:
        chk.mismatch('check machinery failed: ' + traceback.format_exc()[-3000:], None)
    rc = chk.finish(spec['rule'], spec.get('explanation'))
    sys.exit(rc)


if __name__ == '__main__':
    main()
