"""Framework shared by all property checks: Lean obligations, verdict protocol, evidence."""
import json, os, re, subprocess, sys, time, random
import build

VERIF = build.VERIF
LEAN = build.LEAN
FORBIDDEN = re.compile(r'\b(sorry|admit|native_decide|bv_decide|implemented_by)\b|^\s*axiom\s|\bunsafe\s|maxHeartbeats\s+0')
ALLOWED_AXIOMS = {'propext', 'Classical.choice', 'Quot.sound'}

TRUSTED_BASE = [
    'Lean 4.33 kernel; Mathlib v4.33 as compiled on this image',
    'axioms: propext, Classical.choice, Quot.sound only (audited with #print axioms on every run)',
    'hand-written model STModel and its correspondence check (differential testing on generated inputs)',
    'exact real/rational arithmetic stands in for IEEE binary64 in every theorem (rounding is modelled, not verified)',
    'C++ harness, Python comparison and tolerance rule; g++ 12, Eigen 3.4, libstdc++, sanitizers',
]


def strip_comments(src):
    src = re.sub(r'/-.*?-/', '', src, flags=re.S)
    return '\n'.join(l.split('--')[0] for l in src.splitlines())


def grep_forbidden():
    hits = []
    for root in ('STModel', 'STProofs'):
        for dp, _, fs in os.walk(os.path.join(LEAN, root)):
            for f in fs:
                if f.endswith('.lean'):
                    p = os.path.join(dp, f)
                    txt = strip_comments(open(p).read())
                    for i, l in enumerate(txt.splitlines(), 1):
                        if FORBIDDEN.search(l):
                            hits.append(f'{os.path.relpath(p, LEAN)}:{i}: {l.strip()[:100]}')
    for f in ('Main.lean', 'STModel.lean', 'STProofs.lean'):
        p = os.path.join(LEAN, f)
        if os.path.exists(p):
            txt = strip_comments(open(p).read())
            for i, l in enumerate(txt.splitlines(), 1):
                if FORBIDDEN.search(l):
                    hits.append(f'{f}:{i}: {l.strip()[:100]}')
    return hits


def obligations_for(pid):
    """theorem names per property, from lean/obligations.json: {pid: {"module": .., "theorems": [...], "partial": {...}}}"""
    p = os.path.join(LEAN, 'obligations.json')
    if not os.path.exists(p):
        return None
    return json.load(open(p)).get(pid)


def lean_check(pid, log, recheck=False):
    """build the property's proof module, audit axioms of each listed theorem.
    -> dict(obligations, discharged, failures[list of str], checker_cmd, theorems, axioms)"""
    ob = obligations_for(pid)
    res = {'obligations': 0, 'discharged': 0, 'failures': [], 'checker_cmd': '', 'theorems': [], 'axioms': {}}
    ok, out = build.lake_build(('STModel', 'stmodel'))
    if not ok:
        res['failures'].append('lake build STModel/stmodel failed: ' + out[-1500:])
        return res
    if not ob:
        return res
    module = ob['module']
    thms = ob['theorems']
    res['obligations'] = len(thms)
    res['theorems'] = thms
    res['checker_cmd'] = f'cd lean && lake build {module} && lake env lean <generated #print axioms file>  (+ source grep for sorry/admit/axiom/native_decide)'
    hits = grep_forbidden()
    if hits:
        res['failures'].append('forbidden construct in Lean sources: ' + '; '.join(hits[:5]))
    ok, out = build.lake_build((module,))
    if not ok:
        res['failures'].append(f'lake build {module} failed: ' + out[-3000:])
        return res
    audit = os.path.join(LEAN, '.lake', f'audit_{pid}.lean')
    with open(audit, 'w') as f:
        f.write(f'import {module}\n')
        for t in thms:
            f.write(f'#print axioms {t}\n')
    r = subprocess.run(['lake', 'env', 'lean', audit], cwd=LEAN, capture_output=True, text=True)
    txt = r.stdout + r.stderr
    found = {}
    for m in re.finditer(r"'([^']+)' depends on axioms: \[([^\]]*)\]", txt):
        found[m.group(1)] = set(a.strip() for a in m.group(2).replace('\n', ' ').split(',') if a.strip())
    for m in re.finditer(r"'([^']+)' does not depend on any axioms", txt):
        found[m.group(1)] = set()
    for t in thms:
        key = t
        if key not in found:
            # names may be printed fully qualified
            cands = [k for k in found if k.endswith('.' + t) or k == t]
            key = cands[0] if cands else None
        if key is None:
            res['failures'].append(f'theorem {t} not found / does not check: ' + txt[-800:])
            continue
        extra = found[key] - ALLOWED_AXIOMS
        res['axioms'][t] = sorted(found[key])
        if extra:
            res['failures'].append(f'theorem {t} depends on unexpected axioms {sorted(extra)}')
        else:
            res['discharged'] += 1
    if hits:
        res['discharged'] = 0
    if recheck:
        # thorough tier: replay the compiled module through the toolchain's independent kernel re-checker
        r = subprocess.run(['lake', 'env', 'leanchecker', module], cwd=LEAN, capture_output=True, text=True)
        res['checker_cmd'] += f' && lake env leanchecker {module}'
        res['leanchecker'] = 'ok' if r.returncode == 0 else 'FAILED'
        if r.returncode != 0:
            res['failures'].append(f'leanchecker rejects {module}: ' + (r.stdout + r.stderr)[-800:])
            res['discharged'] = 0
    return res


class Check:
    def __init__(self, pid, tier='quick', seed=0, level='proof'):
        self.pid, self.tier, self.seed, self.level = pid, tier, seed, level
        self.rng = random.Random((hash(pid) & 0xffff) * 1000003 + seed * 7919 + (1 if tier == 'thorough' else 0))
        self.rng = random.Random(f'{pid}-{seed}-{tier}')
        self.t0 = time.time()
        self.failures = []        # concrete property violations on the implementation (oracle)
        self.mismatches = []      # model/implementation correspondence disagreements
        self.theorem_failures = []
        self.known_hits = []
        self.evaluations = 0
        self.cells = set()
        self.hist = {}
        self.samples = []
        self.notes = {}
        self.max_disc = {}
        self.lean = None
        self.assumptions = []
        self.known = load_known(pid)

    def thorough(self):
        return self.tier == 'thorough'

    def count(self, key, n=1):
        self.hist[key] = self.hist.get(key, 0) + n

    def cell(self, *key):
        self.cells.add(tuple(key))

    def sample(self, s, limit=4):
        if len(self.samples) < limit:
            self.samples.append(s)

    def disc(self, key, val):
        v = float(val)
        if v > self.max_disc.get(key, 0.0):
            self.max_disc[key] = v

    def violation(self, what, case, observed=None, kind='oracle'):
        """a concrete input on which the implementation breaks the property"""
        rec = {'what': what, 'case': case, 'observed': observed}
        for k in self.known:
            if k.get('status') == 'known' and match_known(k, rec):
                if k['id'] not in [h['id'] for h in self.known_hits]:
                    self.known_hits.append({'id': k['id'], 'what': k['what']})
                return
        (self.failures if kind == 'oracle' else self.mismatches).append(rec)

    def mismatch(self, what, case, observed=None):
        self.mismatches.append({'what': what, 'case': case, 'observed': observed})

    def run_lean(self):
        self.lean = lean_check(self.pid, None, recheck=(self.tier == 'thorough'))
        self.theorem_failures = list(self.lean['failures'])
        return self.lean

    def finish(self, rule, explanation=None, extra_cov=None):
        wall = time.time() - self.t0
        # experiments on modified trees (seeded-defect runs) write their evidence and replays elsewhere: VERIF_OUT=<dir>
        OUT = os.environ.get('VERIF_OUT', VERIF)
        os.makedirs(os.path.join(OUT, 'evidence'), exist_ok=True)
        os.makedirs(os.path.join(OUT, 'replay'), exist_ok=True)
        lines = []
        rc = 0
        for h in self.known_hits:
            lines.append(f'KNOWN-FINDING: property={self.pid} {h["what"]}')
        replay = os.path.join(OUT, 'replay', f'{self.pid}-{self.tier}-{self.seed}.json')
        if self.failures:
            rc = 1
            json.dump({'property': self.pid, 'kind': 'failing-input', 'tier': self.tier, 'seed': self.seed,
                       'failures': self.failures[:20], 'n_failures': len(self.failures),
                       'also_mismatches': self.mismatches[:5], 'theorem_failures': self.theorem_failures,
                       'replay_cmd': f'VERIF_SEED={self.seed} python3 py/check.py {self.pid} --tier {self.tier}'},
                      open(replay, 'w'), indent=1, default=str)
            lines.append(f'VIOLATION property={self.pid} replay={replay}')
        elif self.mismatches or self.theorem_failures:
            rc = 1
            json.dump({'property': self.pid, 'kind': 'no-failing-input-found', 'tier': self.tier, 'seed': self.seed,
                       'broken_theorems': self.theorem_failures,
                       'broken_correspondence': self.mismatches[:20], 'n_mismatches': len(self.mismatches),
                       'note': 'the property is no longer shown to hold: a proof obligation or the model/implementation '
                               'correspondence does not check; the enlarged search found no input on which the '
                               'implementation itself violates the property',
                       'replay_cmd': f'VERIF_SEED={self.seed} python3 py/check.py {self.pid} --tier {self.tier}'},
                      open(replay, 'w'), indent=1, default=str)
            lines.append(f'VIOLATION property={self.pid} replay={replay} no-failing-input-found')
        cov = {
            'evaluations': int(self.evaluations),
            'distinct_nontrivial': len(self.cells),
            'rule': rule,
            'samples': self.samples or ['(none)'],
            'histogram': self.hist,
            'max_discrepancy': self.max_disc,
            'trusted_base': TRUSTED_BASE,
        }
        if self.lean is not None:
            cov.update({'obligations': self.lean['obligations'], 'discharged': self.lean['discharged'],
                        'checker_cmd': self.lean['checker_cmd'] or 'n/a', 'theorems': self.lean['theorems'],
                        'axioms': self.lean['axioms']})
            if 'leanchecker' in self.lean:
                cov['leanchecker'] = self.lean['leanchecker']
        if explanation:
            cov['explanation'] = explanation
        if extra_cov:
            cov.update(extra_cov)
        cov.update(self.notes)
        ev = {'property_id': self.pid, 'tier': self.tier, 'seed': int(self.seed), 'level': self.level, 'coverage': cov,
              'assumptions': self.assumptions, 'wall_s': round(wall, 2),
              'violations': len(self.failures) + (1 if (not self.failures and rc) else 0),
              'known_findings_hit': self.known_hits, 'correspondence_mismatches': len(self.mismatches),
              'theorem_failures': self.theorem_failures}
        json.dump(ev, open(os.path.join(OUT, 'evidence', f'{self.pid}.json'), 'w'), indent=1, default=str)
        for l in lines:
            print(l)
        print(f'[{self.pid}] tier={self.tier} seed={self.seed} evaluations={self.evaluations} cells={len(self.cells)} '
              f'obligations={cov.get("obligations")} discharged={cov.get("discharged")} '
              f'violations={len(self.failures)} mismatches={len(self.mismatches)} wall={wall:.1f}s', file=sys.stderr)
        return rc


def load_known(pid):
    p = os.path.join(VERIF, 'known_findings.json')
    if not os.path.exists(p):
        return []
    return [k for k in json.load(open(p)).get('findings', []) if k.get('property') == pid]


def match_known(k, rec):
    """a known finding suppresses only failures matching its signature"""
    sig = k.get('signature', {})
    c = rec.get('case') or {}
    o = rec.get('observed') or {}
    for key, want in sig.items():
        if key == 'order' and c.get('order') != want:
            return False
        if key == 'equation_class' and o.get('equation_class') not in want:
            return False
        if key == 'min_ratio' and not (o.get('ratio', 0) >= want):
            return False
        if key == 'what_contains' and want not in rec.get('what', ''):
            return False
    return True
