#!/usr/bin/env python3
"""Generator-quality evidence: which lines of /repo's two headers do the correspondence runs execute?

Runs every check (quick tier, no Lean) with VERIF_SAVE_REQUESTS, replays all request streams through a harness built with
gcc --coverage, aggregates gcov line counts for include/SplineTrajectory.hpp and include/SplineOptimizer.hpp over all
translation units (a line counts as executable if any instantiation has it, covered if any instantiation ran it), and
writes /verif/coverage/summary.json + uncovered.txt.  Development aid: not part of any registered check.
usage: coverage.py [Cxx ...]
"""
import os, sys, subprocess, json, glob, gzip, shutil, tempfile, collections
VERIF = os.path.dirname(os.path.dirname(os.path.abspath(__file__)))
sys.path.insert(0, os.path.join(VERIF, 'py'))
import build

PROPS = [f'C{i:02d}' for i in range(1, 21)]


def main():
    props = [a for a in sys.argv[1:] if a.startswith('C')] or PROPS
    reqdir = tempfile.mkdtemp(prefix='verifreq_')
    env = dict(os.environ, VERIF_SAVE_REQUESTS=reqdir)
    for p in props:
        r = subprocess.run(['python3', os.path.join(VERIF, 'py', 'check.py'), p, '--tier', 'quick', '--no-lean'],
                           capture_output=True, text=True, cwd=VERIF, env=env)
        print(p, 'rc', r.returncode, len(os.listdir(reqdir)), 'streams so far', flush=True)
    exe = build.build_harness('cov', ('spline', 'ppoly', 'opt'), verbose=True)
    objdir = os.path.dirname(exe)
    for f in glob.glob(os.path.join(objdir, '*.gcda')):
        os.remove(f)
    n = 0
    for f in sorted(glob.glob(os.path.join(reqdir, '*.txt'))):
        lines = [l for l in open(f).read().splitlines()]
        envx = {}
        body = []
        for l in lines:
            if l.startswith('#ENV'):
                for kv in l.split()[1:]:
                    k, v = kv.split('=', 1)
                    envx[k] = v
            else:
                body.append(l)
        r = subprocess.run([exe], input='\n'.join(body) + '\n', capture_output=True, text=True, env=dict(os.environ, **envx))
        n += 1
    print('replayed', n, 'streams', flush=True)
    # gcov
    work = tempfile.mkdtemp(prefix='verifgcov_')
    gcnos = glob.glob(os.path.join(objdir, '*.gcno'))
    lines = collections.defaultdict(lambda: collections.defaultdict(int))   # file -> line -> count
    funcs = collections.defaultdict(lambda: collections.defaultdict(int))
    for g in gcnos:
        subprocess.run(['gcov', '--json-format', '-o', objdir, g], cwd=work, capture_output=True, text=True)
    for jf in glob.glob(os.path.join(work, '*.gcov.json.gz')):
        j = json.load(gzip.open(jf))
        for fobj in j['files']:
            fn = fobj['file']
            if not fn.endswith(('SplineTrajectory.hpp', 'SplineOptimizer.hpp')) or 'large_scale' in fn:
                continue
            base = os.path.basename(fn)
            for l in fobj['lines']:
                lines[base][l['line_number']] += l['count']
            for fu in fobj.get('functions', []):
                funcs[base][(fu['start_line'], fu.get('demangled_name', fu['name']))] += fu['execution_count']
    shutil.rmtree(work, ignore_errors=True)
    shutil.rmtree(reqdir, ignore_errors=True)
    outdir = os.path.join(VERIF, 'coverage')
    os.makedirs(outdir, exist_ok=True)
    summary = {}
    with open(os.path.join(outdir, 'uncovered.txt'), 'w') as out:
        for base in sorted(lines):
            src = open(os.path.join(build.REPO, 'include', base)).read().splitlines()
            tot = len(lines[base])
            cov = sum(1 for c in lines[base].values() if c > 0)
            unc = sorted(l for l, c in lines[base].items() if c == 0)
            fu_tot = len({k[0] for k in funcs[base]})
            fu_cov = len({k[0] for k, c in funcs[base].items() if c > 0})
            summary[base] = {'executable_lines': tot, 'covered_lines': cov, 'line_coverage': round(cov / max(tot, 1), 4),
                             'functions_seen': fu_tot, 'functions_executed': fu_cov}
            out.write(f'== {base}: {cov}/{tot} executable lines covered\n')
            for l in unc:
                out.write(f'{base}:{l}: {src[l-1].strip()[:140]}\n')
    summary['props'] = props
    summary['repo_head'] = subprocess.run(['git', '-C', build.REPO, 'rev-parse', 'HEAD'], capture_output=True, text=True).stdout.strip()
    json.dump(summary, open(os.path.join(outdir, 'summary.json'), 'w'), indent=1)
    print(json.dumps(summary, indent=1))


if __name__ == '__main__':
    main()
