"""Case generators. Every random choice comes from the one `random.Random` handed in."""
import math
from proto import hx, hxs

NC = {3: 4, 5: 6, 7: 8}
RATIO = {3: 1000.0, 5: 20.0, 7: 4.0}      # well-scaled domain of DESIGN.md section 4


def dyadic(rng, lo, hi, bits=4):
    """short dyadic rational in [lo, hi] (keeps exact rational arithmetic small)"""
    q = 1 << bits
    return rng.randint(math.ceil(lo * q), math.floor(hi * q)) / q


def real(rng, lo, hi, short=0.8, bits=4):
    if rng.random() < short:
        return dyadic(rng, lo, hi, bits)
    return rng.uniform(lo, hi)


def durations(rng, order, n, ratio=None, short=0.8):
    """durations inside the well-scaled domain: overall scale 0.1..10 s, max/min <= ratio"""
    ratio = ratio or RATIO[order]
    r = min(ratio, 100.0)
    lo = 10 ** rng.uniform(-1, 1 - math.log10(r))     # lo*r <= 10
    mode = rng.randrange(4)
    hs = []
    for i in range(n):
        if mode == 0:
            f = 1.0
        elif mode == 1:
            f = math.exp(rng.uniform(0, math.log(r)))
        elif mode == 2:
            f = r if i == rng.randrange(n) else 1.0
        else:
            f = 1.0 if i == rng.randrange(n) else r
        h = lo * f
        if rng.random() < short:
            h = max(round(h * 64) / 64, 1 / 64)
        hs.append(min(max(h, 0.1 if short else 0.1), 10.0))
    # re-check the ratio after rounding
    if max(hs) / min(hs) > ratio:
        hs = [max(h, max(hs) / ratio) for h in hs]
    # nearly uniform: neighbouring durations that differ by 1e-13 … 2e-7 relative (a "same as the previous segment" shortcut
    # with a tolerance instead of an exact comparison shows here), some of them exactly equal
    if n >= 2 and rng.random() < 0.12:
        base = hs[0]
        e = rng.choice([22, 24, 28, 34, 43])
        hs = [base * (1.0 + rng.choice([-2, -1, 0, 0, 1, 2, 3]) * 2.0 ** -e) for _ in range(n)]
    return hs


def points(rng, n, d, mag=8.0, short=0.8, pattern=None):
    """waypoints; patterns with exact coincidences (a 'nothing to do here' shortcut in the code would trip over them):
    repeat = two consecutive waypoints identical, still = all waypoints identical, axis = one coordinate constant"""
    P = [[real(rng, -mag, mag, short, 3) for _ in range(d)] for _ in range(n)]
    pattern = pattern or rng.choices(['random', 'repeat', 'still', 'axis'], [0.7, 0.15, 0.05, 0.10])[0]
    if pattern == 'repeat' and n >= 2:
        for _ in range(rng.choice([1, 1, 2])):
            i = rng.randrange(n - 1)
            P[i + 1] = list(P[i])
    elif pattern == 'still':
        P = [list(P[0]) for _ in range(n)]
    elif pattern == 'axis':
        j = rng.randrange(d)
        for r in P:
            r[j] = P[0][j]
    return P


def bc_vals(rng, order, d, mag=4.0, short=0.8, zero_prob=0.15, pattern=None):
    """6 blocks v0 a0 j0 vn an jn, each of d values; blocks the order does not use are still filled
    (the code must ignore them). pattern: random | rest_start | rest_end | rest_both (whole boundary state exactly zero)"""
    pattern = pattern or rng.choices(['random', 'rest_start', 'rest_end', 'rest_both'], [0.55, 0.15, 0.15, 0.15])[0]
    out = []
    for b in range(6):
        rest = (pattern in ('rest_start', 'rest_both') and b < 3) or (pattern in ('rest_end', 'rest_both') and b >= 3)
        if rest or (pattern == 'random' and rng.random() < zero_prob):
            out.append([0.0] * d)
        else:
            out.append([real(rng, -mag, mag, short, 3) for _ in range(d)])
    return out


def upstream(rng, order, n, d, kind=None):
    """upstream gradient (gC rows n*nc x d, gT n): dense / sparse / unit"""
    nc = NC[order]
    kind = kind if kind is not None else rng.choice(['dense', 'sparse', 'unit', 'unitT', 'rowsparse', 'rowsparse'])
    rows = n * nc
    gC = [[0.0] * d for _ in range(rows)]
    gT = [0.0] * n
    if kind == 'dense':
        gC = [[real(rng, -2, 2, 0.8, 3) for _ in range(d)] for _ in range(rows)]
        gT = [real(rng, -2, 2, 0.8, 3) for _ in range(n)]
    elif kind == 'sparse':
        for _ in range(max(1, rows // 4)):
            gC[rng.randrange(rows)][rng.randrange(d)] = real(rng, -2, 2, 0.8, 3)
        gT[rng.randrange(n)] = real(rng, -2, 2, 0.8, 3)
    elif kind == 'unit':
        gC[rng.randrange(rows)][rng.randrange(d)] = 1.0
    elif kind == 'rowsparse':
        # per (segment, coordinate): only a few powers carry a gradient - often a single one (lowest, highest, …) -
        # while another coordinate of the same segment may be dense ("is this block zero?" shortcuts trip over this)
        gT = [real(rng, -2, 2, 0.8, 3) if rng.random() < 0.5 else 0.0 for _ in range(n)]
        for i in range(n):
            for j in range(d):
                sel = rng.choice(['none', 'one', 'one', 'last', 'first', 'some', 'all'])
                ks = {'none': [], 'one': [rng.randrange(nc)], 'last': [nc - 1], 'first': [0],
                      'some': rng.sample(range(nc), rng.randint(1, nc - 1)), 'all': list(range(nc))}[sel]
                for k in ks:
                    gC[i * nc + k][j] = real(rng, -2, 2, 0.8, 3) or 1.0
    else:
        gT[rng.randrange(n)] = 1.0
    return gC, gT, kind


class SplineCase:
    def __init__(self, order, d, n, h, P, bc, t0=0.0, mode='dur', slot=-1, qorder=0, gC=None, gT=None, evals=()):
        self.order, self.d, self.n, self.h, self.P, self.bc = order, d, n, h, P, bc
        self.t0, self.mode, self.slot, self.qorder = t0, mode, slot, qorder
        self.gC, self.gT, self.evals = gC, gT, list(evals)
        self.meta = {}

    def times_tokens(self):
        if self.mode == 'tp':
            tps = [self.t0]
            for x in self.h:
                tps.append(tps[-1] + x)     # rounding here is part of the input, both sides get the same doubles
            return tps
        return self.h

    def line(self, rid, mode='Q'):
        t = [str(rid), mode, 'spline', str(self.slot), str(self.qorder), str(self.order), str(self.d), str(self.n),
             self.mode, hx(self.t0), hxs(self.times_tokens())]
        t.append(' '.join(hxs(r) for r in self.P))
        t.append(' '.join(hxs(b) for b in self.bc))
        if self.gC is not None:
            t.append('1')
            t.append(' '.join(hxs(r) for r in self.gC))
            t.append(hxs(self.gT))
        else:
            t.append('0')
        t.append(str(len(self.evals)))
        for (tt, k) in self.evals:
            t.append(hx(tt) + ' ' + str(k))
        return ' '.join(t)

    def describe(self):
        return {'order': self.order, 'dim': self.d, 'N': self.n, 'mode': self.mode, 't0': self.t0, 'h': self.h,
                'P': self.P, 'bc': self.bc, 'slot': self.slot, 'qorder': self.qorder,
                'gC': self.gC, 'gT': self.gT, 'evals': self.evals, **self.meta}


def spline_case(rng, order, d, n, ratio=None, t0=None, mode=None, with_grad=True, short=0.8, gkind=None):
    h = durations(rng, order, n, ratio, short)
    P = points(rng, n + 1, d, short=short)
    bc = bc_vals(rng, order, d, short=short)
    if t0 is None:
        t0 = rng.choice([0.0, 0.0, real(rng, -50, 50, short, 2), rng.choice([-1, 1]) * real(rng, 1e3, 1e5, short, 0),
                         # wall-clock stamps: nothing but the knot times may depend on the start time, however large it is
                         # (a duration recovered as a difference of absolute knot times is off by ulp(t0)/h there)
                         rng.choice([1.7e9 + 0.123, -4.1e10 - 0.7, 1.5e12 + 0.25, 86400.0 * 19000 + 0.3])])
    mode = mode or rng.choice(['dur', 'dur', 'tp'])
    c = SplineCase(order, d, n, h, P, bc, t0=t0, mode=mode)
    # query order / API variant: 0 = value-returning getters; 1 = reversed order, reference overloads writing into
    # caller-owned buffers of the right shape that already hold data; 2 = every query twice, wrongly shaped buffers
    c.qorder = rng.choice([0, 0, 1, 1, 2, 3])    # 3 = as 1, and propagateGrad called in place (its input lives in its output)
    # + 10 * build variant: 0 direct, 1 through the object's own members (aliasing arguments), 2 moved into place, 3 copied
    c.qorder += 10 * rng.choice([0, 0, 0, 1, 2, 3])
    if with_grad:
        c.gC, c.gT, k = upstream(rng, order, n, d, gkind)
        c.meta['gkind'] = k
    return c


def from_desc(d):
    """rebuild a spline case from its `describe()` form (replay files, /verif/corpus)"""
    c = SplineCase(d['order'], d['dim'], d['N'], d['h'], d['P'], d['bc'], t0=d['t0'], mode=d['mode'], slot=d.get('slot', -1),
                   qorder=d.get('qorder', 0), gC=d.get('gC'), gT=d.get('gT'), evals=d.get('evals', ()))
    for k, v in d.items():
        if k not in ('order', 'dim', 'N', 'h', 'P', 'bc', 't0', 'mode', 'slot', 'qorder', 'gC', 'gT', 'evals'):
            c.meta[k] = v
    return c
