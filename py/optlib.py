"""Optimizer cases: protocol lines, an independent closed-form layout, exact cost functors (third implementation)."""
import math, copy
from fractions import Fraction as Fr
from proto import hx, hxs, dual, parse_val
import gen
from splinelib import NC, S_OF, peval, energy_exact, falling

FLAG_NAMES = ['start_p', 'start_v', 'start_a', 'start_j', 'end_p', 'end_v', 'end_a', 'end_j']
SPEC_FIELDS = ['ta', 'tb', 'tc', 'useWp', 'ww', 'wu', 'kp', 'kv', 'ka', 'kj', 'ks', 'kx', 'kt', 'ki', 'pertKind', 'pertIdx', 'pertDelta']


def slot_id(order, d, k):
    return (order * 100 + d) * 1000 + k


def sm_parity(smType, smInst):
    """None for the identity map, else the parity of the constrained point indices"""
    if smType == 0:
        return None
    return 0 if smInst == 1 else 1


def udim(d, smType, smInst, i):
    par = sm_parity(smType, smInst)
    if par is None:
        return d
    return d if i % 2 != par else d - 1


def deriv_blocks(order, flags):
    """derivative blocks present, in decision-vector order (property statement of C09)"""
    b = []
    if flags & 2: b.append('sv')
    if order >= 5 and flags & 4: b.append('sa')
    if order >= 7 and flags & 8: b.append('sj')
    if flags & 32: b.append('ev')
    if order >= 5 and flags & 64: b.append('ea')
    if order >= 7 and flags & 128: b.append('ej')
    return b


BLOCK_INDEX = {'sv': 0, 'sa': 1, 'sj': 2, 'ev': 3, 'ea': 4, 'ej': 5}


def layout(order, d, n, flags, smType, smInst):
    """-> (vars [(point, offset, dof)], derivative offset, total dimension): time variables first, then the
    spatial variables of each optimised waypoint in index order, then the flagged derivative blocks"""
    vars_ = []
    off = n
    for i in range(n + 1):
        if (i == 0 and not flags & 1) or (i == n and not flags & 16):
            continue
        u = udim(d, smType, smInst, i)
        vars_.append((i, off, u))
        off += u
    return vars_, off, off + len(deriv_blocks(order, flags)) * d


def to_time(tmType, tmInst, tau):
    tau = Fr(tau)
    if tmType == 0:
        return (tau / 2 + 1) * tau + 1 if tau > 0 else 1 / ((tau / 2 - 1) * tau + 1)
    if tmType == 1:
        return tau
    if tmType == 3:       # reciprocal map: T = b / (1 - a*tau)
        a, b = (Fr(1, 8), Fr(1)) if tmInst == 1 else (Fr(1, 4), Fr(1, 2))
        return b / (1 - a * tau)
    return tau / 2 + Fr(1, 4) if tmInst == 1 else 2 * tau + Fr(1, 2)


def to_physical(d, smType, smInst, xi, i):
    par = sm_parity(smType, smInst)
    if par is None or i % 2 != par:
        return [Fr(x) for x in xi]
    c = Fr(i + 1, 4); e = Fr(i, 2)
    return [Fr(x) for x in xi] + [c * sum(Fr(x) ** 2 for x in xi) + e]


class OptCase:
    def __init__(self, order, d, n, tmType=0, smType=0, tmInst=0, smInst=0, flags=0, rho=0.0, steps=4, t0=0.0,
                 h=None, P=None, bc=None, spec=None, k=0):
        self.order, self.d, self.n = order, d, n
        self.tmType, self.smType, self.tmInst, self.smInst = tmType, smType, tmInst, smInst
        self.flags, self.rho, self.steps, self.t0 = flags, rho, steps, t0
        self.h, self.P, self.bc, self.spec = h, P, bc, spec
        self.slot = slot_id(order, d, k)
        self.x = None

    def layout(self):
        return layout(self.order, self.d, self.n, self.flags, self.smType, self.smInst)

    def setup_lines(self, rid, mode='Q', init_last=False):
        """init_last: every other setter first, `setInitState` is the last configuration call (the state a user who
        configures and then initialises leaves behind)"""
        s = self.slot
        new = f'{rid}.a {mode} opt_new {s} {self.order} {self.d} {self.tmType} {self.smType}'
        maps = f'{rid}.b {mode} opt_maps {s} {self.tmInst} {self.smInst}'
        init = (f'{rid}.c {mode} opt_init {s} dur {self.n} {self.n + 1} {num(self.t0, mode)} {nums(self.h, mode)} '
                + ' '.join(nums(r, mode) for r in self.P) + ' ' + ' '.join(nums(b, mode) for b in self.bc))
        rest = [f'{rid}.d {mode} opt_flags {s} {self.flags}',
                f'{rid}.e {mode} opt_rho {s} {num(self.rho, mode)}',
                f'{rid}.f {mode} opt_steps {s} {self.steps}']
        return [new, maps] + rest + [init] if init_last else [new, maps, init] + rest

    def spec_tokens(self, mode='Q'):
        sp = self.spec
        t = [num(sp['ta'], mode), num(sp['tb'], mode), num(sp['tc'], mode), '1' if sp['useWp'] else '0', num(sp['ww'], mode), num(sp['wu'], mode)]
        t += [num(sp[k], mode) for k in ('kp', 'kv', 'ka', 'kj', 'ks', 'kx', 'kt', 'ki')]
        t += [str(sp.get('pertKind', 0)), str(sp.get('pertIdx', 0)), num(sp.get('pertDelta', 0.0), mode)]
        return ' '.join(t)

    def eval_line(self, rid, mode='Q', rec=0, ws=-1, x=None, exec_='serial', tangent=None):
        x = x if x is not None else self.x
        if tangent is None:
            xs = nums(x, mode)
        else:
            xs = ' '.join(dual(v, 1.0 if i == tangent else 0.0) for i, v in enumerate(x))
        return f'{rid} {mode} opt_eval {self.slot} {rec} {ws} {len(x)} {xs} {self.spec_tokens(mode)} {exec_}'

    def describe(self):
        return {'order': self.order, 'dim': self.d, 'N': self.n, 'time_map': [self.tmType, self.tmInst], 'spatial_map': [self.smType, self.smInst],
                'flags': {nm: bool(self.flags >> i & 1) for i, nm in enumerate(FLAG_NAMES)}, 'flag_bits': self.flags, 'rho': self.rho,
                'steps': self.steps, 't0': self.t0, 'h': self.h, 'P': self.P, 'bc': self.bc, 'cost_spec': self.spec, 'x': self.x}


def num(x, mode):
    return dual(x, 0.0) if mode == 'D' else hx(x)


def nums(xs, mode):
    return ' '.join(num(x, mode) for x in xs)


def rand_spec(rng, useWp=None, zero_some=True):
    def k():
        return 0.0 if (zero_some and rng.random() < 0.25) else gen.dyadic(rng, -2, 2, 3)
    sp = {'ta': k(), 'tb': k(), 'tc': k(), 'useWp': rng.random() < 0.6 if useWp is None else useWp, 'ww': k(), 'wu': k()}
    for f in ('kp', 'kv', 'ka', 'kj', 'ks', 'kx', 'kt', 'ki'):
        sp[f] = k()
    sp.update({'pertKind': 0, 'pertIdx': 0, 'pertDelta': 0.0})
    return sp


def rand_case(rng, order, d, n, flags=None, tmType=None, smType=None, k=0, steps=None, rho=None, short=0.85):
    tmType = rng.choice([0, 0, 1, 2, 3]) if tmType is None else tmType
    smType = (rng.choice([0, 1]) if d >= 2 else 0) if smType is None else smType
    tmInst = rng.choice([0, 1]) if tmType in (2, 3) else rng.choice([0, 0, 1])
    smInst = rng.choice([0, 1, 2]) if smType == 1 else rng.choice([0, 0, 1])
    flags = rng.randrange(256) if flags is None else flags
    c = OptCase(order, d, n, tmType, smType, tmInst, smInst, flags,
                rho=(rng.choice([0.0, 0.0, 0.5, 2.0]) if rho is None else rho),
                steps=(rng.choice([1, 2, 3, 7]) if steps is None else steps),
                t0=rng.choice([0.0, gen.dyadic(rng, -20, 20, 2)]), k=k)
    c.h = [gen.dyadic(rng, 0.25, 3.0, 3) for _ in range(n)]
    if rng.random() < 0.15:
        # reference durations a hair away from 1 (the branch point of the default time map), on both sides
        for i in range(n):
            if rng.random() < 0.6:
                c.h[i] = rng.choice([1.0 - 2.0 ** -21, 1.0 - 2.0 ** -30, 1.0 - 2.0 ** -44, 0.9999996, 0.99999995, 1.0 + 2.0 ** -21,
                                     1.0 + 2.0 ** -40, 1.0, math.nextafter(1.0, 0.0), math.nextafter(1.0, 2.0)])
    c.P = gen.points(rng, n + 1, d, mag=4.0, short=short)
    # reference waypoints of constrained points must lie on the constraint surface (map round-trip hypothesis)
    for i in range(n + 1):
        if udim(d, smType, smInst, i) < d:
            pt = to_physical(d, smType, smInst, c.P[i][:d - 1], i)
            c.P[i] = [float(v) for v in pt]
    c.bc = gen.bc_vals(rng, order, d, mag=2.0, short=short, zero_prob=0.1)
    c.spec = rand_spec(rng)
    if rng.random() < 0.12:
        # a wall-clock start time; the running cost then does not depend on global time (kt = 0), so that cost and gradient
        # must be what they are for any other start time - in particular the integration length of a segment is its decoded
        # duration, not a difference of absolute knot times
        c.t0 = rng.choice([1.7e9 + 0.37, -4.1e10 - 0.7, 1.5e12 + 0.25])
        c.spec['kt'] = 0.0
    c.x = rand_x(rng, c)
    return c


def tiny_x(rng, c):
    """decision variables whose durations decode to 0.06 … 0.5 ms - legal: the one-millisecond rule applies to the reference
    durations of setInitState, the decision vector is unconstrained; all of them tiny, so the spline stays well scaled"""
    x = rand_x(rng, c)
    for i in range(c.n):
        if c.tmType == 0:
            x[i] = float(-rng.randint(64, 120))                                  # 1 / (tau^2/2 - tau + 1)
        elif c.tmType == 1:
            x[i] = rng.randint(2, 8) * 2.0 ** -14
        elif c.tmType == 3:
            x[i] = float(-rng.randint(16384, 65536)) if c.tmInst == 1 else float(-rng.randint(8192, 32768))
        elif c.tmInst == 1:
            x[i] = -0.5 + rng.randint(2, 8) * 2.0 ** -13                         # T = tau/2 + 1/4
        else:
            x[i] = -0.25 + rng.randint(2, 8) * 2.0 ** -15                        # T = 2 tau + 1/2
    return x


def rand_x(rng, c):
    vars_, doff, total = c.layout()
    x = [0.0] * total
    for i in range(c.n):
        if c.tmType == 0:
            x[i] = gen.dyadic(rng, -1.5, 1.5, 3)
        elif c.tmType == 1:
            x[i] = gen.dyadic(rng, 0.25, 3.0, 3)
        elif c.tmType == 3:
            x[i] = gen.dyadic(rng, -6.0, 3.0, 3) if c.tmInst == 1 else gen.dyadic(rng, -3.0, 1.5, 3)
        elif c.tmInst == 1:
            x[i] = gen.dyadic(rng, 0.5, 5.0, 3)
        else:
            x[i] = gen.dyadic(rng, 0.0, 1.25, 3)
    for q in range(c.n, total):
        x[q] = gen.dyadic(rng, -2.5, 2.5, 3)
    return x


# ---- exact decoding and exact cost (independent third implementation, Fractions) ------------------------
def decode_exact(c, x):
    vars_, doff, total = c.layout()
    times = [to_time(c.tmType, c.tmInst, x[i]) for i in range(c.n)]
    wps = [[Fr(v) for v in r] for r in c.P]
    for (pt, off, dof) in vars_:
        wps[pt] = to_physical(c.d, c.smType, c.smInst, x[off:off + dof], pt)
    bc = [[Fr(v) for v in b] for b in c.bc]
    o = doff
    for b in deriv_blocks(c.order, c.flags):
        bc[BLOCK_INDEX[b]] = [Fr(v) for v in x[o:o + c.d]]
        o += c.d
    return times, wps, bc


def time_cost_exact(sp, Ts):
    ta, tb, tc = Fr(sp['ta']), Fr(sp['tb']), Fr(sp['tc'])
    sT = sum(Ts)
    return sum(ta * (i + 1) * T for i, T in enumerate(Ts)) + tb * sum(T * T for T in Ts) + tc * sT * sT


def wp_cost_exact(sp, q):
    if not sp['useWp']:
        return Fr(0)
    ww, wu = Fr(sp['ww']), Fr(sp['wu'])
    a = sum((i + 1) * sum(v * v for v in r) for i, r in enumerate(q))
    b = sum(sum(x * y for x, y in zip(q[i], q[i + 1])) for i in range(len(q) - 1))
    return ww * a + wu * b


def run_cost_exact(sp, d, tg, i, p, v, a, j, s):
    f = {k: Fr(sp[k]) for k in ('kp', 'kv', 'ka', 'kj', 'ks', 'kx', 'kt', 'ki')}
    L = d - 1
    dot = lambda x, y: sum(m * n for m, n in zip(x, y))
    return (f['kp'] * dot(p, p) + f['kv'] * dot(v, v) + f['ka'] * dot(a, a) + f['kj'] * dot(j, j) + f['ks'] * dot(s, s)
            + f['kx'] * (dot(p, v) + a[0] * s[L] + j[0] * p[L]) + f['kt'] * (tg * (p[0] + tg)) + f['ki'] * (i + 1) * (v[0] * a[L]))


def from_desc(d, k=0):
    """rebuild a case from its `describe()` form (replay files, /verif/corpus)"""
    c = OptCase(d['order'], d['dim'], d['N'], d['time_map'][0], d['spatial_map'][0], d['time_map'][1], d['spatial_map'][1],
                d['flag_bits'], d['rho'], d['steps'], d['t0'], d['h'], d['P'], d['bc'], dict(d['cost_spec']), k=k)
    c.x = list(d['x'])
    return c


def corpus(pid):
    """minimised past failures and false alarms of a property, kept under /verif/corpus/<pid>-*.json; they run first"""
    import os, glob, json
    root = os.path.join(os.path.dirname(os.path.dirname(os.path.abspath(__file__))), 'corpus')
    out = []
    for f in sorted(glob.glob(os.path.join(root, pid + '-*.json'))):
        j = json.load(open(f))
        out.extend(j['cases'])
    return out
