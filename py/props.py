"""Registry: property id -> how it is checked."""
import props_spline as ps

RULE_SPLINE = ('structure cells (order x N-class x D-class x time mode [x variant]) enumerated, data random from VERIF_SEED '
               '(80% short dyadic rationals, 20% full-mantissa doubles); a cell counts as distinct non-trivial when its '
               'structure tuple is new and its data are non-degenerate (durations differ, waypoints non-collinear by construction)')

REGISTRY = {
    'C01': dict(level='proof', run=ps.c01, rule=RULE_SPLINE),
    'C02': dict(level='proof', run=ps.c02, rule=RULE_SPLINE),
    'C04': dict(level='proof', run=ps.c04, rule=RULE_SPLINE),
    'C05': dict(level='proof', run=ps.c05, rule=RULE_SPLINE),
    'C06': dict(level='proof', run=ps.c06, rule=RULE_SPLINE),
    'C13': dict(level='translation_validation', run=ps.c13, rule=RULE_SPLINE),
    'C14': dict(level='proof', run=ps.c14, rule=RULE_SPLINE),
    'C18': dict(level='other', run=ps.c18, rule=RULE_SPLINE),
}
