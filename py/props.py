"""Registry: property id -> how it is checked."""
import props_spline as ps
import props_ppoly as pp
import props_opt as po

RULE_SPLINE = ('structure cells (order x N-class x D-class x time mode [x variant]) enumerated, data random from VERIF_SEED '
               '(80% short dyadic rationals, 20% full-mantissa doubles); a cell counts as distinct non-trivial when its '
               'structure tuple is new and its data are non-degenerate (durations differ, waypoints non-collinear by construction)')

RULE_PP = ('objects enumerated over dimension x fixed/dynamic order x coefficient count x segment count (crossing the static-table limit 8 and '
           'the linear/binary search threshold 32); times on breakpoints, one ulp either side, inside, far outside; a cell = (structure, route/kind)')
RULE_HIST = ('random operation histories (update / copy / assign / derivative / evaluate / reconfigure / destroy) from VERIF_SEED; every reply is compared; '
             'a cell = (operation kind, structure class); histories are distinct by construction (independent draws)')
RULE_OPT = ('optimizer configurations: order x N x dimension x time-map type/instance x spatial-map type/instance x flag set x weight x resolution, '
            'cost functors from a parametrised polynomial family using every argument; a cell = distinct configuration tuple')

REGISTRY = {
    'C01': dict(level='proof', run=ps.c01, rule=RULE_SPLINE),
    'C02': dict(level='proof', run=ps.c02, rule=RULE_SPLINE),
    'C04': dict(level='proof', run=ps.c04, rule=RULE_SPLINE),
    'C05': dict(level='proof', run=ps.c05, rule=RULE_SPLINE),
    'C06': dict(level='proof', run=ps.c06, rule=RULE_SPLINE),
    'C13': dict(level='translation_validation', run=ps.c13, rule=RULE_SPLINE),
    'C14': dict(level='proof', run=ps.c14, rule=RULE_SPLINE),
    'C18': dict(level='other', run=ps.c18, rule=RULE_SPLINE),
    'C03': dict(level='proof', run=pp.c03, rule=RULE_PP),
    'C11': dict(level='proof', run=pp.c11, rule=RULE_HIST),
    'C20': dict(level='proof', run=pp.c20, rule=RULE_PP),
    'C07': dict(level='proof', run=po.c07, rule=RULE_OPT),
    'C08': dict(level='proof', run=po.c08, rule=RULE_OPT),
    'C09': dict(level='proof', run=po.c09, rule=RULE_OPT),
    'C10': dict(level='proof', run=po.c10, rule=RULE_HIST),
    'C12': dict(level='proof', run=po.c12, rule=RULE_OPT),
    'C15': dict(level='proof', run=po.c15, rule=RULE_HIST),
    'C16': dict(level='proof', run=po.c16, rule=RULE_OPT),
    'C17': dict(level='proof', run=po.c17, rule=RULE_PP),
    'C19': dict(level='proof', run=po.c19, rule=RULE_OPT),
}
